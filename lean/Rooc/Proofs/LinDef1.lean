/-
"Compile succeeds ⇒ defined", part 1: `Exp::linearize`.

Every sub-expression of the argument is either lowered itself or skipped under a guard
`!may_be_undefined()` (zero factor: rooc 5a25b35, dominated operand of min/max: rooc 46b0121), so with finite
literals a successful run proves that the expression has a value at EVERY assignment.  No state invariant is
needed: the statement is about the shape of the expression only.
-/
import Rooc.Proofs.LinD8
import Rooc.Proofs.LinNC3

set_option linter.unusedSectionVars false
set_option linter.unusedSimpArgs false
set_option linter.unusedVariables false
set_option linter.unusedTactic false
set_option linter.unreachableTactic false

namespace Rooc.LinP
open Rooc Rooc.Lin Rooc.Sem Rooc.Exp

variable {K : Type} [Field K] [LinearOrder K] [IsStrictOrderedRing K] [FloorRing K]

/-- `e` was lowered successfully by `Exp::linearize`, in some state with some requirement. -/
def Lowered (e : Exp (Ext K)) : Prop :=
  ∃ (req : Req) (s : St (Ext K)) (r : Ctx (Ext K) × St (Ext K)), linExp e req s = .ok r

/-- success of `Exp::linearize` on `e` proves `e` defined everywhere (finite literals). -/
def DefHolds (e : Exp (Ext K)) : Prop := Lowered e → FinE e → ∀ ρ : String → K, Def ρ e

/-! ### lists -/

theorem linList_lowered : ∀ (es : List (Exp (Ext K))) (req : Req) (s : St (Ext K))
    (r : List (Exp (Ext K)) × St (Ext K)), linList es req s = .ok r → ∀ e ∈ es, Lowered e
  | [], _, _, _, _ => by intro e he; cases he
  | e :: es, req, s, r, h => by
    simp only [linList, bind_ok, pure_ok] at h
    obtain ⟨c, s1, h1, xs, s2, h2, _⟩ := h
    intro e' he'
    rcases List.mem_cons.mp he' with rfl | he'
    · exact ⟨req, s, _, h1⟩
    · exact linList_lowered es req s1 _ h2 e' he'

theorem linBinaryOperand_lowered {e : Exp (Ext K)} {s : St (Ext K)} {r : Exp (Ext K) × St (Ext K)}
    (h : linBinaryOperand e s = .ok r) : Lowered e := by
  obtain ⟨c, hc, _, _⟩ := (linBinaryOperand_ok _ _ _).mp h
  exact ⟨.exact, s, _, hc⟩

theorem linBinaryOperands_lowered : ∀ (es : List (Exp (Ext K))) (s : St (Ext K))
    (r : List (Exp (Ext K)) × St (Ext K)), linBinaryOperands es s = .ok r → ∀ e ∈ es, Lowered e
  | [], _, _, _ => by intro e he; cases he
  | e :: es, s, r, h => by
    simp only [linBinaryOperands, bind_ok, pure_ok] at h
    obtain ⟨o, s1, h1, os, s2, h2, _⟩ := h
    intro e' he'
    rcases List.mem_cons.mp he' with rfl | he'
    · exact linBinaryOperand_lowered h1
    · exact linBinaryOperands_lowered es s1 _ h2 e' he'

/-! ### `linearize_extreme`: every operand is lowered or cannot be undefined -/

/-- an operand that is not retained cannot be undefined (rooc 46b0121). -/
theorem selected_or_total : ∀ (es : List (Exp (Ext K))) (fs : List Bool), fs.length = es.length →
    ∀ e ∈ es, e ∈ selectFlagged es (List.zipWith (fun f e => f || Exp.mayBeUndefined e) fs es) ∨
      Exp.mayBeUndefined e = false
  | [], _, _ => by intro e he; cases he
  | e :: es, [], h => by simp at h
  | e :: es, f :: fs, h => by
    intro e' he'
    have ih := selected_or_total es fs (by simpa using h)
    simp only [List.zipWith_cons_cons, selectFlagged]
    rcases List.mem_cons.mp he' with rfl | he'
    · by_cases hu : Exp.mayBeUndefined e' = true
      · left; simp [hu]
      · right; simpa using hu
    · rcases ih e' he' with h1 | h1
      · left
        split
        · exact List.mem_cons_of_mem _ h1
        · exact h1
      · exact Or.inr h1

theorem linExtreme_lowered {kind : ExtKind} {es : List (Exp (Ext K))} {req : Req} {s : St (Ext K)}
    {r : Ctx (Ext K) × St (Ext K)} (h : linExtreme kind es req s = .ok r) :
    es ≠ [] ∧ ∀ e ∈ selectFlagged es (retainedFlagsE kind es (boundsOfList s.bounds es)), Lowered e := by
  set flags := retainedFlagsE kind es (boundsOfList s.bounds es) with hflags
  have hlenflags : es.length = flags.length := by
    rw [hflags, retainedFlagsE_length _ _ _ (by rw [boundsOfList_eq_map, List.length_map])]
  by_cases hn1 : (flags.filter id).length = 1
  · rw [linExtreme.eq_def] at h
    simp only [ite_ok, fail_ok, bind_ok, get_ok, and_false, false_or] at h
    obtain ⟨hne, s0, s0', h0, h⟩ := h
    cases h0
    obtain ⟨_, h⟩ := h
    have hne' : es ≠ [] := by intro h'; apply hne; simp [h']
    refine ⟨hne', ?_⟩
    rcases h with ⟨_, h⟩ | ⟨hne1, _⟩
    · rw [linFirstFlagged_eq] at h
      have hlen := selectFlagged_length es flags hlenflags
      rw [hn1] at hlen
      cases hrs : selectFlagged es flags with
      | nil => rw [hrs] at hlen; simp at hlen
      | cons e1 rest =>
        rw [hrs] at hlen
        have hrest : rest = [] := by
          cases rest with
          | nil => rfl
          | cons _ _ => simp at hlen
        subst hrest
        simp only [← hflags, hrs] at h
        intro e he
        simp only [List.mem_singleton] at he
        subst he
        exact ⟨req, s, _, h⟩
    · exact absurd (by simpa using hn1) hne1
  · cases kind with
    | max =>
      obtain ⟨hne, _, v, ops, sL, _, hcase⟩ := linExtreme_max_gadget h hn1
      refine ⟨hne, ?_⟩
      rcases hcase with ⟨_, hlin, _⟩ | ⟨_, _, _, hlin, _⟩
      · exact linList_lowered _ _ _ _ hlin
      · exact linList_lowered _ _ _ _ hlin
    | min =>
      obtain ⟨hne, _, v, ops, sL, _, hcase⟩ := linExtreme_min_gadget h hn1
      refine ⟨hne, ?_⟩
      rcases hcase with ⟨_, hlin, _⟩ | ⟨_, _, _, hlin, _⟩
      · exact linList_lowered _ _ _ _ hlin
      · exact linList_lowered _ _ _ _ hlin

/-- every operand of a successfully lowered `min`/`max` is lowered itself or cannot be undefined. -/
theorem linExtreme_operands {kind : ExtKind} {es : List (Exp (Ext K))} {req : Req} {s : St (Ext K)}
    {r : Ctx (Ext K) × St (Ext K)} (h : linExtreme kind es req s = .ok r) :
    es ≠ [] ∧ ∀ e ∈ es, Lowered e ∨ Exp.mayBeUndefined e = false := by
  obtain ⟨hne, hsel⟩ := linExtreme_lowered h
  refine ⟨hne, fun e he => ?_⟩
  have hlen : (retainedFlags kind (boundsOfList s.bounds es)).length = es.length := by
    rw [retainedFlags_length, boundsOfList_eq_map, List.length_map]
  rcases selected_or_total es _ hlen e he with h1 | h1
  · exact Or.inl (hsel e h1)
  · exact Or.inr h1

/-! ### the induction -/

theorem defHolds_list_of {es : List (Exp (Ext K))} (ih : ∀ e ∈ es, DefHolds e) (hf : ∀ e ∈ es, FinE e)
    (h : ∀ e ∈ es, Lowered e ∨ Exp.mayBeUndefined e = false) (ρ : String → K) : ∀ e ∈ es, Def ρ e := by
  intro e he
  rcases h e he with h1 | h1
  · exact ih e he h1 (hf e he) ρ
  · exact Def_of_total ρ e (hf e he) h1

theorem fin_val_ne_zero {d : Ext K} (hf : FinE (.num d : Exp (Ext K)))
    (hne : ¬ (Arith.eq d (Arith.zero : Ext K) = true)) (ρ : String → K) : val ρ (.num d : Exp (Ext K)) ≠ 0 := by
  obtain ⟨k, rfl⟩ := hf.num
  simp only [val, eval, Option.getD_some]
  intro hk; apply hne; subst hk
  simp [Arith.eq, Ext.eq, Arith.zero]

theorem linExp_defined : ∀ e : Exp (Ext K), DefHolds e := by
  intro e
  induction e using Exp.indL with
  | num v => intro _ hf ρ; exact Def_num_of_finite hf
  | var x => intro _ _ ρ; simp [Def, eval]
  | bin op a b iha ihb =>
    rintro ⟨req, s, r, h⟩ hf ρ
    have hfa : FinE a := hf.bin_left
    have hfb : FinE b := hf.bin_right
    cases op with
    | add =>
      rw [linExp] at h
      simp only [bind_ok, pure_ok] at h
      obtain ⟨x, s1, hx, y, s2, hy, _⟩ := h
      exact Def_bin_of (iha ⟨_, _, _, hx⟩ hfa ρ) (ihb ⟨_, _, _, hy⟩ hfb ρ) (by intro h; cases h)
    | sub =>
      rw [linExp] at h
      simp only [bind_ok, pure_ok] at h
      obtain ⟨x, s1, hx, y, s2, hy, _⟩ := h
      exact Def_bin_of (iha ⟨_, _, _, hx⟩ hfa ρ) (ihb ⟨_, _, _, hy⟩ hfb ρ) (by intro h; cases h)
    | mul =>
      rcases num_or_not a with ⟨c, rfl⟩ | hna
      · rw [linExp] at h
        have hda : Def ρ (.num c : Exp (Ext K)) := Def_num_of_finite hfa
        by_cases hg : (Arith.eq c (Arith.zero : Ext K) && !(Exp.mayBeUndefined b)) = true
        · have hu : Exp.mayBeUndefined b = false := by
            simp only [Bool.and_eq_true, Bool.not_eq_true'] at hg; exact hg.2
          exact Def_bin_of hda (Def_of_total ρ b hfb hu) (by intro h; cases h)
        · rw [if_neg hg] at h
          simp only [bind_ok, pure_ok] at h
          obtain ⟨y, s1, hy, _⟩ := h
          exact Def_bin_of hda (ihb ⟨_, _, _, hy⟩ hfb ρ) (by intro h; cases h)
      · rcases num_or_not b with ⟨c, rfl⟩ | hnb
        · rw [linExp.eq_4 _ _ _ hna] at h
          have hdb : Def ρ (.num c : Exp (Ext K)) := Def_num_of_finite hfb
          by_cases hg : (Arith.eq c (Arith.zero : Ext K) && !(Exp.mayBeUndefined a)) = true
          · have hu : Exp.mayBeUndefined a = false := by
              simp only [Bool.and_eq_true, Bool.not_eq_true'] at hg; exact hg.2
            exact Def_bin_of (Def_of_total ρ a hfa hu) hdb (by intro h; cases h)
          · rw [if_neg hg] at h
            simp only [bind_ok, pure_ok] at h
            obtain ⟨y, s1, hy, _⟩ := h
            exact Def_bin_of (iha ⟨_, _, _, hy⟩ hfa ρ) hdb (by intro h; cases h)
        · rw [linExp.eq_5 _ _ _ hna hnb] at h
          simp [fail_ok] at h
    | div =>
      rcases num_or_not b with ⟨d, rfl⟩ | hnb
      · rw [linExp] at h
        by_cases hz : Arith.eq d (Arith.zero : Ext K) = true
        · rw [if_pos hz] at h; simp [fail_ok] at h
        · rw [if_neg hz] at h
          simp only [bind_ok, pure_ok] at h
          obtain ⟨y, s1, hy, _⟩ := h
          exact Def_bin_of (iha ⟨_, _, _, hy⟩ hfa ρ) (Def_num_of_finite hfb) (fun _ => fin_val_ne_zero hfb hz ρ)
      · rw [linExp.eq_7 _ _ _ hnb] at h
        simp [fail_ok] at h
    | _ =>
      rw [linExp] at h
      all_goals first | (simp [fail_ok] at h; done) | (intros; first | contradiction | (rename_i hh; cases hh))
  | un op e ih =>
    rintro ⟨req, s, r, h⟩ hf ρ
    cases op with
    | neg =>
      rw [linExp] at h
      simp only [bind_ok, pure_ok] at h
      obtain ⟨x, s1, hx, _⟩ := h
      exact ((Def_un_iff e).2.2 _).mpr (ih ⟨_, _, _, hx⟩ hf.neg ρ)
    | not =>
      rw [linExp] at h
      simp [fail_ok] at h
  | abs e ih =>
    rintro ⟨req, s, r, h⟩ hf ρ
    refine (Def_un_iff e).1.mpr (ih ?_ hf.abs ρ)
    rw [linExp] at h
    simp only [bind_ok, get_ok] at h
    obtain ⟨s0, s0', h0, h⟩ := h
    cases h0
    split at h
    · exact ⟨_, _, _, h⟩
    · split at h
      · simp only [bind_ok, pure_ok] at h
        obtain ⟨x, s1, hx, _⟩ := h
        exact ⟨_, _, _, hx⟩
      · split at h
        · simp [fail_ok] at h
        · simp only [bind_ok] at h
          obtain ⟨x, s1, hx, _⟩ := h
          exact ⟨_, _, _, hx⟩
  | not e ih =>
    rintro ⟨req, s, r, h⟩ hf ρ
    rw [linExp] at h
    simp only [bind_ok] at h
    obtain ⟨x, s1, hx, _⟩ := h
    exact (Def_un_iff e).2.1.mpr (ih ⟨_, _, _, hx⟩ hf.not ρ)
  | min es ih =>
    rintro ⟨req, s, r, h⟩ hf ρ
    rw [linExp] at h
    obtain ⟨hne, hops⟩ := linExtreme_operands h
    exact Def_minmax_iff.1.mpr ⟨hne, defHolds_list_of ih hf.min_mem hops ρ⟩
  | max es ih =>
    rintro ⟨req, s, r, h⟩ hf ρ
    rw [linExp] at h
    obtain ⟨hne, hops⟩ := linExtreme_operands h
    exact Def_minmax_iff.2.mpr ⟨hne, defHolds_list_of ih hf.max_mem hops ρ⟩
  | and es ih =>
    rintro ⟨req, s, r, h⟩ hf ρ
    rw [linExp] at h
    apply (Def_nary_iff true).mpr
    by_cases hemp : es.isEmpty = true
    · have : es = [] := by simpa using hemp
      subst this; intro e he; cases he
    · rw [if_neg hemp] at h
      simp only [bind_ok] at h
      obtain ⟨ops, s1, hops, _⟩ := h
      exact fun e he => ih e he (linBinaryOperands_lowered es s _ hops e he) (hf.and_mem e he) ρ
  | or es ih =>
    rintro ⟨req, s, r, h⟩ hf ρ
    rw [linExp] at h
    apply (Def_nary_iff false).mpr
    by_cases hemp : es.isEmpty = true
    · have : es = [] := by simpa using hemp
      subst this; intro e he; cases he
    · rw [if_neg hemp] at h
      simp only [bind_ok] at h
      obtain ⟨ops, s1, hops, _⟩ := h
      exact fun e he => ih e he (linBinaryOperands_lowered es s _ hops e he) (hf.or_mem e he) ρ
  | xor a b iha ihb =>
    rintro ⟨req, s, r, h⟩ hf ρ
    rw [linExp] at h
    simp only [bind_ok] at h
    obtain ⟨x, s1, hx, y, s2, hy, _⟩ := h
    exact (Def_xorlike_iff a b).1.mpr ⟨iha (linBinaryOperand_lowered hx) (hf.xor_mem a (by simp)) ρ,
      ihb (linBinaryOperand_lowered hy) (hf.xor_mem b (by simp)) ρ⟩
  | implies a b iha ihb =>
    rintro ⟨req, s, r, h⟩ hf ρ
    rw [linExp] at h
    simp only [bind_ok] at h
    obtain ⟨x, s1, hx, y, s2, hy, _⟩ := h
    exact (Def_xorlike_iff a b).2.1.mpr ⟨iha (linBinaryOperand_lowered hx) (hf.implies_mem a (by simp)) ρ,
      ihb (linBinaryOperand_lowered hy) (hf.implies_mem b (by simp)) ρ⟩
  | iff a b iha ihb =>
    rintro ⟨req, s, r, h⟩ hf ρ
    rw [linExp] at h
    simp only [bind_ok] at h
    obtain ⟨x, s1, hx, y, s2, hy, _⟩ := h
    exact (Def_xorlike_iff a b).2.2.mpr ⟨iha (linBinaryOperand_lowered hx) (hf.iff_mem a (by simp)) ρ,
      ihb (linBinaryOperand_lowered hy) (hf.iff_mem b (by simp)) ρ⟩

/-- **success of `Exp::linearize` proves definedness**: finite literals, any requirement, any state. -/
theorem def_of_linExp {e : Exp (Ext K)} {req : Req} {s : St (Ext K)} {r : Ctx (Ext K) × St (Ext K)}
    (h : linExp e req s = .ok r) (hf : FinE e) (ρ : String → K) : Def ρ e :=
  linExp_defined e ⟨req, s, r, h⟩ hf ρ

theorem def_of_linBinaryOperand {e : Exp (Ext K)} {s : St (Ext K)} {r : Exp (Ext K) × St (Ext K)}
    (h : linBinaryOperand e s = .ok r) (hf : FinE e) (ρ : String → K) : Def ρ e :=
  linExp_defined e (linBinaryOperand_lowered h) hf ρ

end Rooc.LinP
