/-
Stage B (part 5): the work-list loop of `Linearizer::linearize` on purely affine models, and the final
assembly (`dedupNames`, variable list, `extractCoeffs`).
-/
import Rooc.Proofs.LinRewrites
import Rooc.Proofs.LinGadgets

set_option linter.unusedSectionVars false
set_option linter.unusedSimpArgs false
set_option linter.unusedVariables false

namespace Rooc.LinP
open Rooc Rooc.Lin Rooc.Sem Rooc.Exp
open Rooc.Lin.Gadget (B01)

section loop
variable {α : Type} [Arith α]

/-- what the loop does with a non-assertion constraint after both sides are simplified. -/
def dispatch (name : String) (lhs : Exp α) (cmp : Cmp) (rhs : Exp α) : M α Unit := do
  let s ← get
  match tryNormalize s.domain lhs cmp rhs with
  | some .tautology => pure ()
  | some .contradiction => emitConstraint (.num Arith.zero) .eq (.num Arith.one) name
  | some (.assertion e t) => lowerAssertion e t name
  | none => emitConstraint lhs cmp rhs name

/-- the body of the work-list loop for one popped constraint. -/
def processConstraint (c : Constraint α) : M α Unit := do
  let lhs ← simplifyFlat c.lhs
  let rhs ← simplifyFlat c.rhs
  if c.isAssert then lowerAssertion lhs true c.name
  else dispatch c.name lhs c.cmp rhs

theorem drain_succ (n : Nat) :
    (drain (n + 1) : M α Unit) = (do
      let s ← get
      match s.queue with
      | [] => pure ()
      | c :: rest => do
        set { s with queue := rest }
        processConstraint c
        drain n) := by
  rw [drain]
  congr 1
  funext s
  cases hq : s.queue with
  | nil => rfl
  | cons c rest =>
    simp only [processConstraint, dispatch, bind_assoc]
    congr 1; funext _; congr 1; funext lhs; congr 1; funext rhs
    split
    · rfl
    · simp only [bind_assoc]
      congr 1; funext s2
      generalize tryNormalize s2.domain lhs c.cmp rhs = t
      rcases t with _ | (_ | _ | _) <;> simp

theorem emitConstraint_ok (lhs : Exp α) (cmp : Cmp) (rhs : Exp α) (name : String) (s : St α) (r : Unit × St α) :
    emitConstraint lhs cmp rhs name s = .ok r ↔
      ∃ e v s1, normalizeExp (.bin .sub lhs rhs) = some e ∧
        linExp e (cmpForReq cmp) s = .ok (v, s1) ∧
        r = ((), { s1 with rows := s1.rows ++ [{ name := name, lhs := v.vars, rhs := Arith.neg v.rhs, cmp := cmp }] }) := by
  unfold emitConstraint
  cases hf : normalizeExp (.bin .sub lhs rhs) with
  | none => simp [fail_ok]
  | some fl =>
    simp only [bind_ok, modify_ok]
    constructor
    · rintro ⟨v, s1, h1, h2⟩; exact ⟨fl, v, s1, rfl, h1, h2⟩
    · rintro ⟨fl', v, s1, h0, h1, h2⟩; cases h0; exact ⟨v, s1, h1, h2⟩

theorem simplifyFlat_ok (e : Exp α) (s : St α) (r : Exp α × St α) :
    simplifyFlat e s = .ok r ↔ ∃ e', normalizeExp e = some e' ∧ r = (e', s) := by
  unfold simplifyFlat
  cases hf : normalizeExp e with
  | none => simp [fail_ok]
  | some fl => simp [pure_ok]

theorem normalizeExp_some {e e' : Exp α} (h : normalizeExp e = some e') :
    ∃ fl, flattenF flattenFuel (simplify e) = some fl ∧ e' = simplify fl := by
  unfold normalizeExp at h
  cases hf : flattenF flattenFuel (simplify e) with
  | none => simp [hf] at h
  | some fl => exact ⟨fl, rfl, by simpa [hf, eq_comm] using h⟩

/-- the linear model assembled from the objective context and the final state. -/
def assemble (m : Model α) (obj : Ctx α) (s : St α) : LinModel α :=
  let rows := dedupNames s.rows
  let vars := sortStr ((s.domain.filter (fun d => d.usage > 0)).map (·.name))
  let dom := s.domain.filter fun d => vars.contains d.name
  { optType := m.optType
    objective := extractCoeffs obj.vars vars
    offset := obj.rhs
    vars := vars
    domain := dom
    rows := rows.map fun r => { name := r.name, coeffs := extractCoeffs r.lhs vars, cmp := r.cmp, rhs := r.rhs } }

def objReq (m : Model α) : Req := match m.optType with | .min => .lower | .max => .higher | .satisfy => .exact

theorem linearizeWith_ok_iff (m : Model α) (b : BoundsMap α) (d : List (DomVar α)) (lm : LinModel α) :
    linearizeWith m b d = .ok lm ↔
      ∃ objExp s1 obj s2 s3,
        simplifyFlat m.objective { queue := m.constraints, domain := d, bounds := b } = .ok (objExp, s1) ∧
        linExp objExp (objReq m) s1 = .ok (obj, s2) ∧
        drain drainFuel s2 = .ok ((), s3) ∧ lm = assemble m obj s3 := by
  unfold linearizeWith
  simp only
  split
  · rename_i lm' sf hprog
    simp only [bind_ok, get_ok, pure_ok] at hprog
    obtain ⟨objExp, s1, h1, obj, s2, h2, u, s3, h3, s4, s5, h4, h5⟩ := hprog
    cases h4
    simp only [Prod.mk.injEq] at h5
    obtain ⟨rfl, _⟩ := h5
    constructor
    · intro h; simp only [Except.ok.injEq] at h; subst h
      exact ⟨objExp, s1, obj, s2, s3, h1, h2, h3, rfl⟩
    · rintro ⟨objExp', s1', obj', s2', s3', h1', h2', h3', rfl⟩
      rw [h1] at h1'; cases h1'
      have e2 : (Except.ok (obj, s2) : Except LinErr _) = Except.ok (obj', s2') := h2.symm.trans h2'
      cases e2
      rw [h3] at h3'; cases h3'
      rfl
  · rename_i e hprog
    constructor
    · intro h; cases h
    · rintro ⟨objExp', s1', obj', s2', s3', h1', h2', h3', rfl⟩
      exfalso
      have key : (Except.error e : Except LinErr (LinModel α × St α)) = Except.ok (assemble m obj' s3', s3') :=
        hprog.symm.trans (by
          simp only [bind_ok, get_ok, pure_ok]
          exact ⟨_, _, h1', _, _, h2', (), _, h3', _, _, rfl, rfl⟩)
      cases key

end loop

variable {K : Type} [Field K] [LinearOrder K] [IsStrictOrderedRing K] [FloorRing K]

/-! ### hypotheses imported from C10 (discharged by `Rooc.Props.C10` once merged) -/

/-- `Exp.flattenF` preserves the denotation (C10: `flattenF_eval`). -/
def FlattenSound (K : Type) [Field K] [LinearOrder K] [IsStrictOrderedRing K] [FloorRing K] : Prop :=
  ∀ (n : Nat) (e e' : Exp (Ext K)) (ρ : String → K), flattenF n e = some e' → eval ρ e' = eval ρ e

/-- `Exp.simplify` preserves defined values on the arithmetic fragment (C10: `simplify_sound`, whose
side condition `LogicOperands01` is vacuous there). -/
def SimplifySoundArith (K : Type) [Field K] [LinearOrder K] [IsStrictOrderedRing K] [FloorRing K] : Prop :=
  ∀ (e : Exp (Ext K)) (ρ : String → K) (v : K), arithOnly e = true → eval ρ e = some v →
    eval ρ (simplify e) = some v

/-! ### rows -/

structure RowOK (r : MidRow (Ext K)) : Prop where
  fin : TermsFin r.lhs
  rhs : IsFin r.rhs
  nodup : (r.lhs.map (·.1)).Nodup

def rowTrue (ρ : String → K) (r : MidRow (Ext K)) : Prop :=
  cmpK r.cmp (termsVal ρ r.lhs) (xval r.rhs) = true

theorem cmpK_cancel (c : Cmp) (a b k : K) : cmpK c (a - b - k) (-k) = cmpK c a b := by
  cases c <;> simp [cmpK]
  all_goals (constructor <;> intro h <;> linarith)

/-- `normalize` (simplify → flatten → simplify) stays in the arithmetic fragment … -/
theorem AG_normalize {S : String → Prop} {e e' : Exp (Ext K)} (h : AG S e) (hn : normalizeExp e = some e') :
    AG S e' := by
  obtain ⟨fl, hf, rfl⟩ := normalizeExp_some hn
  exact AG_simplify _ (AG_flatten (AG_simplify _ h) hf)

/-- … and preserves defined values there. -/
theorem normalize_eval_arith (hfl : FlattenSound K) (hsi : SimplifySoundArith K) {e e' : Exp (Ext K)}
    (ha : arithOnly e = true) (hn : normalizeExp e = some e') {ρ : String → K} {v : K}
    (hv : eval ρ e = some v) : eval ρ e' = some v := by
  obtain ⟨fl, hf, rfl⟩ := normalizeExp_some hn
  have h1 : AG (fun _ => True) (simplify e) := AG_simplify _ ⟨ha, fun _ _ => trivial⟩
  have h2 : AG (fun _ => True) fl := AG_flatten h1 hf
  exact hsi fl ρ v h2.1 (by rw [hfl _ _ _ ρ hf]; exact hsi e ρ v ha hv)

theorem emit_arith (hfl : FlattenSound K) (hsi : SimplifySoundArith K) {S : String → Prop}
    {lhs rhs : Exp (Ext K)} {cmp : Cmp} {name : String} {s : St (Ext K)} {r : Unit × St (Ext K)}
    (hl : AG S lhs) (hr : AG S rhs) (h : emitConstraint lhs cmp rhs name s = .ok r) :
    ∃ row : MidRow (Ext K), r = ((), { s with rows := s.rows ++ [row] }) ∧ row.name = name ∧ row.cmp = cmp ∧
      (∀ x ∈ row.lhs.map (·.1), S x) ∧
      ∀ (ρ : String → K) (a b : K), eval ρ lhs = some a → eval ρ rhs = some b →
        RowOK row ∧ (rowTrue ρ row ↔ cmpK cmp a b = true) := by
  obtain ⟨en, v, s1, hf, hlin, rfl⟩ := (emitConstraint_ok _ _ _ _ _ _).mp h
  have hsub : AG S (.bin .sub lhs rhs : Exp (Ext K)) := AG_bin.mpr ⟨rfl, hl, hr⟩
  have hsimp := AG_normalize hsub hf
  have R := lin_arith _ hsimp.1 _ _ _ _ hlin
  refine ⟨_, by rw [R.state], rfl, rfl, ?_, ?_⟩
  · intro x hx; exact hsimp.2 x (R.names x hx)
  · intro ρ a b ha hb
    have e1 : eval ρ (.bin .sub lhs rhs) = some (a - b) := by simp [eval_bin, ha, hb, binVal]
    have e3 := normalize_eval_arith hfl hsi hsub.1 hf e1
    obtain ⟨ok, val⟩ := R.value ρ _ e3
    obtain ⟨k, hk⟩ := ok.rhs
    refine ⟨⟨ok.fin, ⟨-k, by simp [hk]⟩, ok.nodup⟩, ?_⟩
    have htv : termsVal ρ v.vars = a - b - k := by
      simp only [ctxVal, hk, xval_fin] at val; linarith
    simp only [rowTrue, hk, ar_neg, xval_fin, htv, cmpK_cancel]

/-! ### `try_normalize_logic_constraint` on arithmetic comparisons -/

theorem cmpHolds_fin (c : Cmp) (a b : K) : cmpHolds (Ext.fin a) c (Ext.fin b) = cmpK c a b := by
  cases c <;> simp [cmpHolds, cmpK]

theorem cmpK_reversed (c : Cmp) (a b : K) : cmpK (Cmp.reversed c) b a = cmpK c a b := by
  cases c <;> simp [cmpK, Cmp.reversed, eq_comm]

/-- the first stage of `try_normalize_logic_constraint`: which side is the logic value. -/
def pickOf {α : Type} [Arith α] (d : List (DomVar α)) (lhs : Exp α) (cmp : Cmp) (rhs : Exp α) :
    Option (Exp α × Cmp × α) :=
  match rhs with
  | .num c => if isLogicValue d lhs then some (lhs, cmp, c) else none
  | _ => match lhs with
    | .num c => if isLogicValue d rhs then some (rhs, Cmp.reversed cmp, c) else none
    | _ => none

theorem tryNormalize_eq {α : Type} [Arith α] (d : List (DomVar α)) (lhs : Exp α) (cmp : Cmp) (rhs : Exp α) :
    tryNormalize d lhs cmp rhs =
      match pickOf d lhs cmp rhs with
      | none => none
      | some (e, cmp, c) =>
        match e with
        | .num v => some (if cmpHolds v cmp c then .tautology else .contradiction)
        | _ =>
          match cmpHolds Arith.zero cmp c, cmpHolds Arith.one cmp c with
          | false, true => some (.assertion e true)
          | true, false => some (.assertion e false)
          | true, true => if Exp.mayBeUndefined e then none else some .tautology
          | false, false => if Exp.mayBeUndefined e then none else some .contradiction := by
  rfl

theorem pickOf_spec {d : List (DomVar (Ext K))} {lhs rhs : Exp (Ext K)} {cmp cmp' : Cmp} {e : Exp (Ext K)} {c : Ext K}
    {S : String → Prop} (hl : AG S lhs) (hr : AG S rhs) (h : pickOf d lhs cmp rhs = some (e, cmp', c)) :
    AG S e ∧ isLogicValue d e = true ∧
      ∀ (ρ : String → K) (a b : K), eval ρ lhs = some a → eval ρ rhs = some b →
        ∃ x k, eval ρ e = some x ∧ c = Ext.fin k ∧ cmpK cmp a b = cmpK cmp' x k := by
  unfold pickOf at h
  split at h
  · split at h
    · simp only [Option.some.injEq, Prod.mk.injEq] at h
      obtain ⟨rfl, rfl, rfl⟩ := h
      refine ⟨hl, ‹_›, ?_⟩
      intro ρ a b ha hb
      exact ⟨a, b, ha, eval_num_some hb, rfl⟩
    · simp at h
  · split at h
    · split at h
      · simp only [Option.some.injEq, Prod.mk.injEq] at h
        obtain ⟨rfl, rfl, rfl⟩ := h
        refine ⟨hr, ‹_›, ?_⟩
        intro ρ a b ha hb
        exact ⟨b, a, hb, eval_num_some ha, (cmpK_reversed _ _ _).symm⟩
      · simp at h
    · simp at h

theorem logic_arith_cases {d : List (DomVar (Ext K))} {e : Exp (Ext K)} {S : String → Prop}
    (he : AG S e) (hlv : isLogicValue d e = true) :
    (∃ v, e = .num v) ∨ (∃ n, e = .var n ∧ isBoolVar d n = true ∧ S n) := by
  cases e with
  | num v => exact Or.inl ⟨v, rfl⟩
  | var n => exact Or.inr ⟨n, rfl, by simpa [isLogicValue] using hlv, AG_var.mp he⟩
  | bin op a b =>
    have := (AG_bin.mp he).1
    cases op <;> simp [isArithOp] at this <;> simp [isLogicValue] at hlv
  | un op a =>
    cases op with
    | neg => simp [isLogicValue] at hlv
    | not => simp [AG, arithOnly] at he
  | _ => simp [AG, arithOnly] at he
/-- meaning of a normalisation verdict on an arithmetic comparison. -/
def NormSem (d : List (DomVar (Ext K))) (S : String → Prop) (cmp : Cmp) (ρ : String → K) (a b : K) :
    Normalized (Ext K) → Prop
  | .tautology => cmpK cmp a b = true
  | .contradiction => cmpK cmp a b = false
  | .assertion e t => ∃ n, e = .var n ∧ (cmpK cmp a b = true ↔ ρ n = if t then 1 else 0)

theorem normalize_shape {d : List (DomVar (Ext K))} {S : String → Prop} {lhs rhs : Exp (Ext K)} {cmp : Cmp}
    {e : Exp (Ext K)} {t : Bool} (hl : AG S lhs) (hr : AG S rhs)
    (h : tryNormalize d lhs cmp rhs = some (.assertion e t)) :
    ∃ n, e = .var n ∧ isBoolVar d n = true ∧ S n := by
  rw [tryNormalize_eq] at h
  cases hp : pickOf d lhs cmp rhs with
  | none => simp [hp] at h
  | some p =>
    obtain ⟨e', cmp', c⟩ := p
    obtain ⟨hag, hlv, _⟩ := pickOf_spec hl hr hp
    rcases logic_arith_cases hag hlv with ⟨v, rfl⟩ | ⟨n, rfl, hb, hs⟩
    · simp only [hp] at h
      split at h <;> simp at h
    · simp only [hp] at h
      split at h <;> simp at h
      all_goals (obtain ⟨rfl, _⟩ := h; exact ⟨n, rfl, hb, hs⟩)

theorem normalize_sem {d : List (DomVar (Ext K))} {S : String → Prop} {lhs rhs : Exp (Ext K)} {cmp : Cmp}
    {nz : Normalized (Ext K)} (hl : AG S lhs) (hr : AG S rhs)
    (h : tryNormalize d lhs cmp rhs = some nz) (ρ : String → K) (a b : K)
    (ha : eval ρ lhs = some a) (hb : eval ρ rhs = some b)
    (hB : ∀ n, S n → isBoolVar d n = true → B01 (ρ n)) : NormSem d S cmp ρ a b nz := by
  rw [tryNormalize_eq] at h
  cases hp : pickOf d lhs cmp rhs with
  | none => simp [hp] at h
  | some p =>
    obtain ⟨e', cmp', c⟩ := p
    obtain ⟨hag, hlv, hsem⟩ := pickOf_spec hl hr hp
    obtain ⟨x, k, hx, rfl, hcmp⟩ := hsem ρ a b ha hb
    rcases logic_arith_cases hag hlv with ⟨v, rfl⟩ | ⟨n, rfl, hbn, hs⟩
    · simp only [hp] at h
      rw [eval_num_some hx, cmpHolds_fin] at h
      by_cases hc : cmpK cmp' x k = true
      · simp [hc] at h; subst h; simp only [NormSem, hcmp, hc]
      · simp [hc] at h; subst h; simp only [NormSem, hcmp]; simpa using hc
    · simp only [hp, ar_zero, ar_one, cmpHolds_fin, Exp.mayBeUndefined, Bool.false_eq_true, if_false] at h
      rw [eval_var] at hx
      simp only [Option.some.injEq] at hx
      have h01 := hB n hs hbn
      rw [hx] at h01
      split at h <;> simp at h <;> subst h <;> simp only [NormSem, hcmp]
      all_goals rename_i h0 h1
      · refine ⟨n, rfl, ?_⟩
        rcases h01 with rfl | rfl <;> simp [h0, h1, hx]
      · refine ⟨n, rfl, ?_⟩
        rcases h01 with rfl | rfl <;> simp [h0, h1, hx]
      · rcases h01 with rfl | rfl <;> simp [h0, h1]
      · rcases h01 with rfl | rfl <;> simp [h0, h1]

/-! ### the loop body on an arithmetic comparison -/

section
variable {α : Type} [Arith α]
theorem lowerAssertion_var_ok (n : String) (t : Bool) (name : String) (s : St α) (r : Unit × St α)
    (hb : isBoolVar s.domain n = true) :
    lowerAssertion (.var n : Exp α) t name s = .ok r ↔
      emitConstraint (ctxToExp (Ctx.fromVar n Arith.one)) .eq (.num (if t then Arith.one else Arith.zero)) name s = .ok r := by
  rw [lowerAssertion, tryLowerAffine]
  simp only [bind_ok, get_ok]
  have hbav : binaryAffineValue s.domain (.var n : Exp α) = some (Ctx.fromVar n Arith.one) := by
    simp [binaryAffineValue, hb]
  constructor
  · rintro ⟨b, s1, ⟨a, s2, h1, h2⟩, h3⟩
    cases h1
    simp only [hbav, bind_ok, pure_ok] at h2
    obtain ⟨u, s3, h4, h5⟩ := h2
    cases h5
    simp only [if_true, pure_ok] at h3
    subst h3
    exact h4
  · intro h
    obtain ⟨u, s1⟩ := r
    refine ⟨true, s1, ⟨s, s, rfl, ?_⟩, by simp [pure_ok]⟩
    simp only [hbav, bind_ok, pure_ok]
    exact ⟨(), s1, h, rfl⟩
end

/-- every Boolean variable of `S` takes a 0/1 value. -/
def BoolOK (ρ : String → K) (d : List (DomVar (Ext K))) (S : String → Prop) : Prop :=
  ∀ n, S n → isBoolVar d n = true → B01 (ρ n)

theorem st_rows_append_nil (s : St (Ext K)) : ({ s with rows := s.rows ++ [] } : St (Ext K)) = s := by
  simp

theorem dispatch_arith (hfl : FlattenSound K) (hsi : SimplifySoundArith K) {S : String → Prop}
    {name : String} {lhs rhs : Exp (Ext K)} {cmp : Cmp} {s : St (Ext K)} {r : Unit × St (Ext K)}
    (hl : AG S lhs) (hr : AG S rhs) (h : dispatch name lhs cmp rhs s = .ok r) :
    ∃ new : List (MidRow (Ext K)), r = ((), { s with rows := s.rows ++ new }) ∧
      (∀ row ∈ new, ∀ x ∈ row.lhs.map (·.1), S x) ∧
      ∀ (ρ : String → K) (a b : K), eval ρ lhs = some a → eval ρ rhs = some b →
        (∀ row ∈ new, RowOK row) ∧
        (BoolOK ρ s.domain S → ((∀ row ∈ new, rowTrue ρ row) ↔ cmpK cmp a b = true)) := by
  unfold dispatch at h
  simp only [bind_ok, get_ok] at h
  obtain ⟨s0, s1, h0, h⟩ := h
  cases h0
  cases hN : tryNormalize s.domain lhs cmp rhs with
  | none =>
    simp only [hN] at h
    obtain ⟨row, hr1, _, _, hr2, hr3⟩ := emit_arith hfl hsi hl hr h
    refine ⟨[row], hr1, by simpa using hr2, ?_⟩
    intro ρ a b ha hb
    obtain ⟨ok, tr⟩ := hr3 ρ a b ha hb
    exact ⟨by simpa using ok, fun _ => by simpa using tr⟩
  | some nz =>
    cases nz with
    | tautology =>
      simp only [hN, pure_ok] at h
      refine ⟨[], by rw [h, st_rows_append_nil], by simp, ?_⟩
      intro ρ a b ha hb
      refine ⟨by simp, fun hB => ?_⟩
      have := normalize_sem hl hr hN ρ a b ha hb hB
      simp only [NormSem] at this
      simp [this]
    | contradiction =>
      simp only [hN] at h
      obtain ⟨row, hr1, _, _, hr2, hr3⟩ := emit_arith hfl hsi (S := S) (AG_num _) (AG_num _) h
      refine ⟨[row], hr1, by simpa using hr2, ?_⟩
      intro ρ a b ha hb
      obtain ⟨ok, tr⟩ := hr3 ρ 0 1 (by simp [eval]) (by simp [eval])
      refine ⟨by simpa using ok, fun hB => ?_⟩
      have := normalize_sem hl hr hN ρ a b ha hb hB
      simp only [NormSem] at this
      have htr : ¬ rowTrue ρ row := by rw [tr]; simp [cmpK]
      simp [this, htr]
    | assertion e t =>
      simp only [hN] at h
      obtain ⟨n, rfl, hbn, hsn⟩ := normalize_shape hl hr hN
      rw [lowerAssertion_var_ok n t name s r hbn] at h
      have hctx : ctxToExp (Ctx.fromVar n (Arith.one : Ext K)) =
          .bin .add (.num (Ext.fin 0)) (.bin .mul (.num (Ext.fin 1)) (.var n)) := by
        rw [fromVar_eq]; simp [ctxToExp]
      have hagl : AG S (ctxToExp (Ctx.fromVar n (Arith.one : Ext K))) := by
        rw [hctx]
        exact AG_bin.mpr ⟨rfl, AG_num _, AG_bin.mpr ⟨rfl, AG_num _, AG_var.mpr hsn⟩⟩
      obtain ⟨row, hr1, _, _, hr2, hr3⟩ := emit_arith hfl hsi hagl (AG_num _) h
      refine ⟨[row], hr1, by simpa using hr2, ?_⟩
      intro ρ a b ha hb
      have e1 : eval ρ (ctxToExp (Ctx.fromVar n (Arith.one : Ext K))) = some (ρ n) := by
        rw [hctx]; simp [eval_bin, eval, binVal]
      have e2 : eval ρ (.num (if t = true then (Arith.one : Ext K) else Arith.zero)) =
          some (if t = true then (1 : K) else 0) := by
        cases t <;> simp [eval]
      obtain ⟨ok, tr⟩ := hr3 ρ _ _ e1 e2
      refine ⟨by simpa using ok, fun hB => ?_⟩
      have := normalize_sem hl hr hN ρ a b ha hb hB
      simp only [NormSem] at this
      obtain ⟨n', hn', hiff⟩ := this
      cases hn'
      have hq : cmpK Cmp.eq (ρ n) (if t = true then (1 : K) else 0) = true ↔
          ρ n = if t = true then (1 : K) else 0 := by simp [cmpK]
      simp only [List.mem_singleton, forall_eq, tr, hiff, hq]

/-- an affine comparison constraint over variables in `S`. -/
structure ArithC (S : String → Prop) (c : Constraint (Ext K)) : Prop where
  notAssert : c.isAssert = false
  lhs : AG S c.lhs
  rhs : AG S c.rhs

theorem constraintHolds_arith {c : Constraint (Ext K)} (hc : c.isAssert = false) {ρ : String → K} {a b : K}
    (ha : eval ρ c.lhs = some a) (hb : eval ρ c.rhs = some b) :
    constraintHolds ρ c = cmpK c.cmp a b := by
  simp [constraintHolds, hc, ha, hb]

theorem process_arith (hfl : FlattenSound K) (hsi : SimplifySoundArith K) {S : String → Prop}
    {c : Constraint (Ext K)} {s : St (Ext K)} {r : Unit × St (Ext K)} (hc : ArithC S c)
    (h : processConstraint c s = .ok r) :
    ∃ new : List (MidRow (Ext K)), r = ((), { s with rows := s.rows ++ new }) ∧
      (∀ row ∈ new, ∀ x ∈ row.lhs.map (·.1), S x) ∧
      ∀ (ρ : String → K) (a b : K), eval ρ c.lhs = some a → eval ρ c.rhs = some b →
        (∀ row ∈ new, RowOK row) ∧
        (BoolOK ρ s.domain S → ((∀ row ∈ new, rowTrue ρ row) ↔ constraintHolds ρ c = true)) := by
  unfold processConstraint at h
  simp only [bind_ok, simplifyFlat_ok] at h
  obtain ⟨lhs', s1, ⟨fl1, hf1, h1⟩, rhs', s2, ⟨fl2, hf2, h2⟩, h3⟩ := h
  cases h1; cases h2
  simp only [hc.notAssert, Bool.false_eq_true, if_false] at h3
  have hl' : AG S lhs' := AG_normalize hc.lhs hf1
  have hr' : AG S rhs' := AG_normalize hc.rhs hf2
  obtain ⟨new, hn1, hn2, hn3⟩ := dispatch_arith hfl hsi hl' hr' h3
  refine ⟨new, hn1, hn2, ?_⟩
  intro ρ a b ha hb
  have ea : eval ρ lhs' = some a := normalize_eval_arith hfl hsi hc.lhs.1 hf1 ha
  have eb : eval ρ rhs' = some b := normalize_eval_arith hfl hsi hc.rhs.1 hf2 hb
  rw [constraintHolds_arith hc.notAssert ha hb]
  exact hn3 ρ a b ea eb

/-- both sides of the constraint are defined at every assignment. -/
def DefinedC (c : Constraint (Ext K)) : Prop :=
  ∀ ρ : String → K, ∃ a b, eval ρ c.lhs = some a ∧ eval ρ c.rhs = some b

theorem drain_arith (hfl : FlattenSound K) (hsi : SimplifySoundArith K) {S : String → Prop} :
    ∀ (n : Nat) (s : St (Ext K)) (r : Unit × St (Ext K)), drain n s = .ok r →
      (∀ c ∈ s.queue, ArithC S c) →
      ∃ new : List (MidRow (Ext K)), r = ((), { s with queue := [], rows := s.rows ++ new }) ∧
        (∀ row ∈ new, ∀ x ∈ row.lhs.map (·.1), S x) ∧
        ((∀ c ∈ s.queue, DefinedC c) →
          (∀ row ∈ new, RowOK row) ∧
          ∀ ρ : String → K, BoolOK ρ s.domain S →
            ((∀ row ∈ new, rowTrue ρ row) ↔ ∀ c ∈ s.queue, constraintHolds ρ c = true)) := by
  intro n
  induction n with
  | zero => intro s r h; simp [drain, fail_ok] at h
  | succ n ih =>
    intro s r h hq
    rw [drain_succ] at h
    simp only [bind_ok, get_ok] at h
    obtain ⟨s0, s0', h0, h⟩ := h
    cases h0
    cases hqs : s.queue with
    | nil =>
      simp only [hqs, pure_ok] at h
      refine ⟨[], ?_, by simp, fun _ => ⟨by simp, fun ρ _ => by simp⟩⟩
      rw [h]
      cases s
      simp at hqs ⊢
      exact hqs
    | cons c rest =>
      simp only [hqs, bind_ok, set_ok] at h
      obtain ⟨u, s1, h1, u2, s2, h2, h3⟩ := h
      cases h1
      have hc : ArithC S c := hq c (by simp [hqs])
      obtain ⟨new1, hn1, hn2, hn3⟩ := process_arith hfl hsi hc h2
      cases hn1
      obtain ⟨new2, hm1, hm2, hm3⟩ := ih _ _ h3 (by
        intro c' hc'; exact hq c' (by simp only [hqs]; exact List.mem_cons_of_mem _ hc'))
      refine ⟨new1 ++ new2, ?_, ?_, ?_⟩
      · rw [hm1]; simp
      · intro row hrow
        rcases List.mem_append.mp hrow with h' | h'
        · exact hn2 row h'
        · exact hm2 row h'
      · intro hdef
        have hdc : DefinedC c := hdef c (by simp)
        have hdrest : ∀ c' ∈ rest, DefinedC c' := fun c' hc' => hdef c' (List.mem_cons_of_mem _ hc')
        obtain ⟨ok2, sem2⟩ := hm3 hdrest
        obtain ⟨a0, b0, ha0, hb0⟩ := hdc (fun _ => 0)
        refine ⟨?_, ?_⟩
        · intro row hrow
          rcases List.mem_append.mp hrow with h' | h'
          · exact (hn3 _ a0 b0 ha0 hb0).1 row h'
          · exact ok2 row h'
        · intro ρ hB
          obtain ⟨a, b, ha, hb⟩ := hdc ρ
          have s1' := (hn3 ρ a b ha hb).2 hB
          have s2' := sem2 ρ hB
          simp only [List.mem_append, List.mem_cons, forall_eq_or_imp]
          rw [← s1', ← s2']
          constructor
          · intro hall; exact ⟨fun row hr => hall row (Or.inl hr), fun row hr => hall row (Or.inr hr)⟩
          · rintro ⟨h1', h2'⟩ row (hr | hr); exacts [h1' row hr, h2' row hr]

end Rooc.LinP
