/-
C08 — which errors the compiler can report.  `EK Q x`: every error the action `x` can raise satisfies `Q`,
from every state.  With `Q e := e ≠ .unimplemented` and the fact that `simplify` leaves no operator-form logic
node (`simplify_noOp`), the whole compiler never reports `UnimplementedExpression`: the two branches of
`Exp::linearize` that raise it (`BinOp::And | Or | Xor | Implies | Iff`, `UnOp::Not`) are dead code behind
`Linearizer::linearize`, because every expression that reaches `Exp::linearize` is a sub-term of a normalised one.
-/
import Rooc.Proofs.WFNoOp
import Rooc.Proofs.WFCompile

set_option linter.unusedSectionVars false
set_option linter.unusedVariables false
set_option linter.unusedTactic false
set_option linter.unusedSimpArgs false
set_option linter.unreachableTactic false

namespace Rooc
namespace Lin
open Arith
variable {α : Type} [Arith α] {β γ : Type} {Q : LinErr → Prop}

/-- every error of `x` satisfies `Q`. -/
def EK (Q : LinErr → Prop) (x : M α β) : Prop := ∀ s err, x s = .error err → Q err

namespace EK

theorem pure (a : β) : EK Q (Pure.pure a : M α β) := fun _ _ h => by cases h
theorem fail {e : LinErr} (h : Q e) : EK Q (Lin.fail e : M α β) := fun _ err he => by
  have : (Except.error e : Except LinErr (β × St α)) = .error err := he
  injection this with h1; subst h1; exact h
theorem bind {x : M α β} {f : β → M α γ} (hx : EK Q x) (hf : ∀ a, EK Q (f a)) : EK Q (x >>= f) := by
  intro s err he
  rw [bind_run] at he
  cases hxs : x s with
  | error e => rw [hxs] at he; injection he with he; subst he; exact hx s _ hxs
  | ok p => obtain ⟨a, s1⟩ := p; rw [hxs] at he; exact hf a s1 err he
theorem get : EK Q (MonadState.get : M α (St α)) := fun _ _ h => by cases h
theorem set (s' : St α) : EK Q (MonadStateOf.set s' : M α PUnit) := fun _ _ h => by cases h
theorem modify (g : St α → St α) : EK Q (_root_.modify g : M α PUnit) := fun _ _ h => by cases h
theorem forIn {δ : Type} (xs : List δ) (init : β) (body : δ → β → M α (ForInStep β))
    (h : ∀ x b, EK Q (body x b)) : EK Q (ForIn.forIn xs init body) := by
  induction xs generalizing init with
  | nil => rw [List.forIn_nil]; exact EK.pure _
  | cons x xs ih =>
    rw [List.forIn_cons]
    refine EK.bind (h x init) ?_
    intro r
    cases r with
    | done b => exact EK.pure _
    | yield b => exact ih b

end EK

/-- the errors that are not `UnimplementedExpression`. -/
def NotUnimpl (e : LinErr) : Prop := e ≠ .unimplemented

theorem ek_declareVariable (v : String) (ty : VarType α) : EK NotUnimpl (declareVariable v ty) := by
  intro s err he
  unfold declareVariable at he
  simp only [bind_run] at he
  split at he
  · rename_i a s1 hget
    cases hget
    split at he
    · have : (Except.error (LinErr.varAlreadyDeclared v) : Except LinErr (PUnit × St α)) = .error err := he
      injection this with h1; subst h1; intro h; cases h
    · cases he
  · rename_i e hget; cases hget

theorem ek_addConstraint (c : Constraint α) : EK NotUnimpl (addConstraint c) := EK.modify _

theorem ek_reify (v : String) (cs : List (Cmp × Exp α)) : EK NotUnimpl (reify v cs) := by
  unfold reify
  refine EK.bind (EK.forIn _ _ _ ?_) (fun _ => EK.bind (ek_declareVariable _ _) (fun _ => EK.pure _))
  intro q b
  obtain ⟨c, rhs⟩ := q
  exact EK.bind (ek_addConstraint _) (fun _ => EK.pure _)

theorem notUnimpl_of_ne {e : LinErr} (h : e = .unimplemented → False) : NotUnimpl e := h

/-- one step of the error-kind calculus. -/
macro "ek_step" : tactic => `(tactic| first
    | assumption
    | exact EK.pure _
    | exact EK.get
    | exact EK.set _
    | exact EK.modify _
    | exact ek_declareVariable _ _
    | exact ek_addConstraint _
    | exact ek_reify _ _
    | (apply EK.fail; intro h; cases h)
    | (apply_assumption; assumption)
    | apply EK.bind
    | (apply EK.forIn; intro _ _)
    | intro _
    | split
    | dsimp only)
macro "ek_go" : tactic => `(tactic| repeat' ek_step)

section block
attribute [local irreducible] EK Ctx.mergeAdd Ctx.mergeSub Ctx.mulBy Ctx.divBy Ctx.addRhs Ctx.addVar
  Ctx.fromRhs Ctx.fromVar Ctx.new ctxToExp sumExps retainedFlagsE varsWithoutFiniteBounds boundsOf boundsOfList

set_option maxHeartbeats 1000000 in
theorem linExp_ek :
    (∀ (e : Exp α) (req : Req), NoOp e = true → EK NotUnimpl (linExp e req)) ∧
    (∀ (e : Exp α), NoOp e = true → EK NotUnimpl (linBinaryOperand e)) ∧
    (∀ (es : List (Exp α)), NoOpL es = true → EK NotUnimpl (linBinaryOperands es)) ∧
    (∀ (kind : ExtKind) (es : List (Exp α)) (req : Req), NoOpL es = true → EK NotUnimpl (linExtreme kind es req)) ∧
    (∀ (es : List (Exp α)) (fs : List Bool) (req : Req), NoOpL es = true → EK NotUnimpl (linFlagged es fs req)) ∧
    (∀ (es : List (Exp α)) (fs : List Bool) (req : Req), NoOpL es = true →
      EK NotUnimpl (linFirstFlagged es fs req)) := by
  apply linExp.mutual_induct
    (motive1 := fun e req => NoOp e = true → EK NotUnimpl (linExp e req))
    (motive2 := fun e => NoOp e = true → EK NotUnimpl (linBinaryOperand e))
    (motive3 := fun es => NoOpL es = true → EK NotUnimpl (linBinaryOperands es))
    (motive4 := fun kind es req => NoOpL es = true → EK NotUnimpl (linExtreme kind es req))
    (motive5 := fun es fs req => NoOpL es = true → EK NotUnimpl (linFlagged es fs req))
    (motive6 := fun es fs req => NoOpL es = true → EK NotUnimpl (linFirstFlagged es fs req))
  all_goals
    (intros
     (first | simp only [linExp] | simp only [linBinaryOperands] | simp only [linFlagged] | simp only [linFirstFlagged] | unfold linBinaryOperand | unfold linExtreme | skip)
     (try simp_all only [NoOp, NoOpL, isArithOp, Bool.and_eq_true, Bool.true_and, forall_const, Bool.false_eq_true, false_and, and_true])
     (try dsimp only at *)
     ek_go)

end block

section lower
attribute [local irreducible] EK Ctx.mergeAdd Ctx.mergeSub Ctx.mulBy Ctx.divBy Ctx.addRhs Ctx.addVar
  Ctx.fromRhs Ctx.fromVar Ctx.new ctxToExp sumExps binaryAffineValue negateCtx

theorem ek_emitConstraint (lhs : Exp α) (cmp : Cmp) (rhs : Exp α) (name : String) :
    EK NotUnimpl (emitConstraint lhs cmp rhs name) := by
  unfold emitConstraint
  split
  · apply EK.fail; intro h; cases h
  · rename_i e he
    exact EK.bind (linExp_ek.1 e _ (normalizeExp_noOp he)) (fun _ => EK.modify _)

theorem ek_freshWitness : EK NotUnimpl (freshWitness : M α String) := by
  unfold freshWitness
  ek_go

macro "ek_step2" : tactic => `(tactic| first
    | exact ek_emitConstraint _ _ _ _
    | exact ek_freshWitness
    | ek_step)
macro "ek_go2" : tactic => `(tactic| repeat' ek_step2)

theorem ek_tryLowerAffine : ∀ (e : Exp α) (t : Bool) (name : String), EK NotUnimpl (tryLowerAffine e t name) := by
  intro e t name
  fun_induction tryLowerAffine e t name
  all_goals ek_go2

theorem ek_iffWitness (l r : Exp α) (t : Bool) (hl : NoOp l = true) (hr : NoOp r = true) :
    EK NotUnimpl (iffWitness l r t) := by
  unfold iffWitness
  repeat' (first | exact linExp_ek.2.1 _ (by assumption) | ek_step2)

set_option maxHeartbeats 1000000 in
theorem dirWitness_ek :
    (∀ (e : Exp α) (t : Bool), NoOp e = true → EK NotUnimpl (dirWitness e t)) ∧
    (∀ (es : List (Exp α)) (t : Bool), NoOpL es = true → EK NotUnimpl (dirWitnessList es t)) := by
  apply dirWitness.mutual_induct
    (motive_1 := fun e t => NoOp e = true → EK NotUnimpl (dirWitness e t))
    (motive_2 := fun es t => NoOpL es = true → EK NotUnimpl (dirWitnessList es t))
  all_goals
    (intros
     (first | simp only [dirWitness] | simp only [dirWitnessList] | skip)
     (try simp_all only [NoOp, NoOpL, isArithOp, Bool.and_eq_true, Bool.true_and, forall_const, Bool.false_eq_true, false_and, and_true])
     (try dsimp only at *)
     repeat' (first | (apply ek_iffWitness <;> simp_all) | ek_step2))

set_option maxHeartbeats 1000000 in
theorem lowerAssertion_ek :
    (∀ (e : Exp α) (t : Bool) (name : String), NoOp e = true → EK NotUnimpl (lowerAssertion e t name)) ∧
    (∀ (es : List (Exp α)) (t : Bool) (name : String), NoOpL es = true →
      EK NotUnimpl (lowerAssertionList es t name)) := by
  apply lowerAssertion.mutual_induct
    (motive_1 := fun e t name => NoOp e = true → EK NotUnimpl (lowerAssertion e t name))
    (motive_2 := fun es t name => NoOpL es = true → EK NotUnimpl (lowerAssertionList es t name))
  all_goals
    (intros
     (first | simp only [lowerAssertion] | simp only [lowerAssertionList] | skip)
     (try simp_all only [NoOp, NoOpL, isArithOp, Bool.and_eq_true, Bool.true_and, forall_const, Bool.false_eq_true, false_and, and_true])
     (try dsimp only at *)
     repeat' (first
       | exact linExp_ek.2.1 _ (by first | assumption | exact (by assumption : _ ∧ _).1 | exact (by assumption : _ ∧ _).2)
       | exact ek_tryLowerAffine _ _ _
       | exact dirWitness_ek.1 _ _ (by first | assumption | exact (by assumption : _ ∧ _).1 | exact (by assumption : _ ∧ _).2)
       | exact dirWitness_ek.2 _ _ (by assumption)
       | ek_step2))

end lower

/-- sequencing after `simplifyFlat`: the rest of the program receives an expression without operator-form logic
nodes. -/
theorem ek_bind_simplifyFlat (e : Exp α) {g : Exp α → M α γ} (hg : ∀ f, NoOp f = true → EK NotUnimpl (g f)) :
    EK NotUnimpl (simplifyFlat e >>= g) := by
  intro s err he
  rw [bind_run] at he
  unfold simplifyFlat at he
  cases hn : normalizeExp e with
  | none =>
    rw [hn] at he
    have : (Except.error LinErr.fuel : Except LinErr (γ × St α)) = .error err := he
    injection this with h1; subst h1; intro h; cases h
  | some f =>
    rw [hn] at he
    exact hg f (normalizeExp_noOp hn) s err he

section top
attribute [local irreducible] EK

theorem ek_drain : ∀ n : Nat, EK NotUnimpl (drain n : M α Unit)
  | 0 => by unfold drain; apply EK.fail; intro h; cases h
  | n+1 => by
    have ih := ek_drain n
    unfold drain
    refine EK.bind EK.get (fun s => ?_)
    split
    · exact EK.pure _
    · rename_i c rest _
      refine EK.bind (EK.set _) (fun _ => ?_)
      refine ek_bind_simplifyFlat _ (fun lhs hl => ?_)
      refine ek_bind_simplifyFlat _ (fun rhs hr => ?_)
      dsimp only
      split
      · exact EK.bind (lowerAssertion_ek.1 _ _ _ hl) (fun _ => ih)
      · refine EK.bind EK.get (fun s2 => ?_)
        split
        · exact ih
        · exact EK.bind (ek_emitConstraint _ _ _ _) (fun _ => ih)
        · rename_i e t hnorm
          rcases tryNormalize_assertion hnorm with rfl | rfl
          · exact EK.bind (lowerAssertion_ek.1 _ _ _ hl) (fun _ => ih)
          · exact EK.bind (lowerAssertion_ek.1 _ _ _ hr) (fun _ => ih)
        · exact EK.bind (ek_emitConstraint _ _ _ _) (fun _ => ih)

end top

/-- **the lowering never reports `UnimplementedExpression`** — for every model, bounds map and domain. -/
theorem linearizeWith_not_unimplemented (m : Model α) (b : BoundsMap α) (d : List (DomVar α)) :
    linearizeWith m b d ≠ .error .unimplemented := by
  intro h
  unfold linearizeWith at h
  dsimp only at h
  split at h
  · cases h
  · rename_i e hrun
    injection h with h
    subst h
    have hprog : EK NotUnimpl (α := α) (do
        let objExp ← simplifyFlat m.objective
        let objReq : Req := match m.optType with | .min => .lower | .max => .higher | .satisfy => .exact
        let obj ← linExp objExp objReq
        drain drainFuel
        let s ← get
        let rows := dedupNames s.rows
        let vars := sortStr ((s.domain.filter (fun d => d.usage > 0)).map (·.name))
        let dom := s.domain.filter fun d => vars.contains d.name
        pure ({ optType := m.optType
                objective := extractCoeffs obj.vars vars
                offset := obj.rhs
                vars := vars
                domain := dom
                rows := rows.map fun r => { name := r.name, coeffs := extractCoeffs r.lhs vars, cmp := r.cmp, rhs := r.rhs } } : LinModel α)) := by
      refine ek_bind_simplifyFlat _ (fun objExp ho => ?_)
      refine EK.bind (linExp_ek.1 _ _ ho) (fun obj => ?_)
      refine EK.bind (ek_drain _) (fun _ => ?_)
      exact EK.bind EK.get (fun _ => EK.pure _)
    exact hprog _ _ hrun rfl

/-! ### the up-front collapse check (rooc 81a4b76, e35561f) lowers SIMPLIFIED nodes only -/

section check
attribute [local irreducible] EK

theorem ek_collapseNode (e : Exp α) : EK NotUnimpl (collapseNode e) := by
  unfold collapseNode
  refine EK.bind EK.get (fun s => ?_)
  split
  · exact EK.pure _
  · refine EK.bind (linExp_ek.1 _ _ (simplify_noOp e)) (fun c => ?_)
    refine EK.bind EK.get (fun s2 => ?_)
    split
    · apply EK.fail; intro h; cases h
    · exact EK.pure _

theorem ek_collapseCheck :
    (∀ e : Exp α, EK NotUnimpl (collapseCheck e)) ∧ (∀ es : List (Exp α), EK NotUnimpl (collapseCheckList es)) := by
  apply collapseCheck.mutual_induct
    (motive_1 := fun e => EK NotUnimpl (collapseCheck e))
    (motive_2 := fun es => EK NotUnimpl (collapseCheckList es))
  all_goals intros
  all_goals first
    | (rw [collapseCheck]; exact EK.pure _)
    | (rw [collapseCheck]; assumption)
    | (rw [collapseCheck]; exact EK.bind (by assumption) (fun _ => ek_collapseNode _))
    | (rw [collapseCheck]; exact EK.bind (by assumption) (fun _ => by assumption))
    | (rw [collapseCheckList]; exact EK.pure _)
    | (rw [collapseCheckList]; exact EK.bind (by assumption) (fun _ => by assumption))
    | (rename_i op l r ihl ihr
       cases op <;>
         (rw [collapseCheck]
          · exact EK.bind ihl (fun _ => EK.bind ihr (fun _ => by first | exact ek_collapseNode _ | exact EK.pure _))
          all_goals (intro hh; cases hh)))

theorem ek_collapseCheckConstraints : ∀ cs : List (Constraint α), EK NotUnimpl (collapseCheckConstraints cs)
  | [] => by rw [collapseCheckConstraints]; exact EK.pure _
  | c :: cs => by
    rw [collapseCheckConstraints]
    refine EK.bind (ek_collapseCheck.1 _) (fun _ => ?_)
    split
    · exact EK.bind (ek_collapseCheck.1 _) (fun _ => ek_collapseCheckConstraints cs)
    · exact ek_collapseCheckConstraints cs

theorem ek_collapseCheckAll (m : Model α) : EK NotUnimpl (collapseCheckAll m) := by
  unfold collapseCheckAll
  exact EK.bind (ek_collapseCheck.1 _) (fun _ => ek_collapseCheckConstraints _)

theorem collapseCheckAll_not_unimplemented (m : Model α) (s : St α) :
    collapseCheckAll m s ≠ .error .unimplemented := by
  intro h
  have := ek_collapseCheckAll m
  unfold EK at this
  exact this s _ h rfl

end check

/-- … and neither does the whole compiler: `UnimplementedExpression` is dead behind `Linearizer::linearize`. -/
theorem compile_not_unimplemented (m : Model α) (tol : α) (maxSteps : Nat) :
    Compile.linearize m tol maxSteps ≠ .error .unimplemented := by
  intro h
  unfold Compile.linearize at h
  split at h
  · rename_i e hchk
    injection h with h
    subst h
    exact collapseCheckAll_not_unimplemented m _ hchk
  · split at h
    · cases h
    · exact linearizeWith_not_unimplemented _ _ _ h

end Lin
end Rooc
