/-
C12 helper lemma: the string `impl Display for Exp` produces (`Display.showE`) is the rendering of
the item stream the theorems are about (`Display.items`): items separated by single blanks, a group
item as `( … )` around the rendering of its content.
-/
import Rooc.Proofs.DisplayPratt
namespace Rooc.Display
open Rooc

variable {α : Type}

theorem joinWith_append (sep : String) (a b : List String) (ha : a ≠ []) (hb : b ≠ []) :
    joinWith sep (a ++ b) = joinWith sep a ++ sep ++ joinWith sep b := by
  induction a with
  | nil => exact absurd rfl ha
  | cons x xs ih =>
    cases xs with
    | nil =>
      cases b with
      | nil => exact absurd rfl hb
      | cons y ys => simp [joinWith]
    | cons x2 xs' =>
      have := ih (by simp)
      simp only [List.cons_append, joinWith] at this ⊢
      rw [this]; simp [String.append_assoc]

theorem items_ne_nil (ctx : Option (BinOp × Bool)) (e : Exp α) : items ctx e ≠ [] := by
  by_cases hb : ∃ o l r, e = .bin o l r
  · obtain ⟨o, l, r, rfl⟩ := hb
    rcases items_bin ctx o l r with h | h <;> rw [h] <;> simp
  · obtain ⟨it, h, _⟩ := items_nonbin ctx e (fun o l r he => hb ⟨o, l, r, he⟩)
    rw [h]; simp

theorem showE_eq_renderItems_aux (tok : α → String) (n : Nat) :
    ∀ (e : Exp α), skel e ≤ n → ∀ ctx, showE tok ctx e = renderItems tok (items ctx e) := by
  induction n with
  | zero =>
    intro e hs ctx
    cases e with
    | bin o l r => simp [skel] at hs
    | _ => cases ctx <;> simp [items, renderItems, renderItem, joinWith, showE, logicWrap, isLogicVariant]
  | succ n ih =>
    intro e hs ctx
    cases e with
    | bin o l r =>
      simp only [skel] at hs
      have hl := ih l (by omega) (some (o, false))
      have hr := ih r (by omega) (some (o, true))
      have hnl : (items (some (o, false)) l).map (renderItem tok) ≠ [] := by simpa using items_ne_nil (some (o, false)) l
      have hnr : (items (some (o, true)) r).map (renderItem tok) ≠ [] := by simpa using items_ne_nil (some (o, true)) r
      have plain : showE tok (some (o, false)) l ++ " " ++ binOpStr o ++ " " ++ showE tok (some (o, true)) r =
          renderItems tok (items (some (o, false)) l ++ [.infix o] ++ items (some (o, true)) r) := by
        simp only [renderItems, List.map_append, List.map_cons, List.map_nil, renderItem]
        rw [List.append_assoc, joinWith_append _ _ _ hnl (by simp), List.singleton_append,
          show joinWith " " (binOpStr o :: (items (some (o, true)) r).map (renderItem tok)) =
            binOpStr o ++ " " ++ joinWith " " ((items (some (o, true)) r).map (renderItem tok)) by
              cases hm : (items (some (o, true)) r).map (renderItem tok) with
              | nil => exact absurd hm hnr
              | cons y ys => simp [joinWith]]
        rw [hl, hr]; simp [renderItems, String.append_assoc]
      cases ctx with
      | none => simpa [showE, items] using plain
      | some p =>
        obtain ⟨parent, isRhs⟩ := p
        by_cases hp : parensRule parent isRhs o = true
        · simp [showE, items, hp, renderItems, renderItem, joinWith, String.append_assoc]
        · simpa [showE, items, hp] using plain
    | _ => cases ctx <;> simp [items, renderItems, renderItem, joinWith, showE, logicWrap, isLogicVariant]

/-- `Display` text = rendering of the item stream. -/
theorem showE_eq_renderItems (tok : α → String) (ctx : Option (BinOp × Bool)) (e : Exp α) :
    showE tok ctx e = renderItems tok (items ctx e) :=
  showE_eq_renderItems_aux tok (skel e) e (Nat.le_refl _) ctx

end Rooc.Display
