/-
C12 helper lemma: the string `impl Display for Exp` produces (`Display.showE`) is the rendering of
the item stream the theorems are about (`Display.items`): items separated by single blanks, a group
item as `( … )` around the rendering of its content.
-/
import Rooc.Proofs.DisplayPratt
namespace Rooc.Display
open Rooc

variable {α : Type}

theorem joinWith_append (sep : String) (a b : List String) (ha : a ≠ []) (hb : b ≠ []) :
    joinWith sep (a ++ b) = joinWith sep a ++ sep ++ joinWith sep b := by
  induction a with
  | nil => exact absurd rfl ha
  | cons x xs ih =>
    cases xs with
    | nil =>
      cases b with
      | nil => exact absurd rfl hb
      | cons y ys => simp [joinWith]
    | cons x2 xs' =>
      have := ih (by simp)
      simp only [List.cons_append, joinWith] at this ⊢
      rw [this]; simp [String.append_assoc]

theorem items_ne_nil (ctx : Option BinOp) (e : Exp α) : items ctx e ≠ [] := by
  cases e with
  | bin o l r => rcases items_bin ctx o l r with h | h | h <;> rw [h] <;> simp
  | _ => simp [items]

theorem showE_nonbin (tok : α → String) (ctx : Option BinOp) (e : Exp α) (h : ∀ o l r, e ≠ .bin o l r) :
    showE tok ctx e = showE tok none e := by
  cases e <;> first | exact absurd rfl (h _ _ _) | simp [showE]

theorem showE_eq_renderItems_aux (tok : α → String) (n : Nat) :
    ∀ (e : Exp α), skel e ≤ n → ∀ ctx, showE tok ctx e = renderItems tok (items ctx e) := by
  induction n with
  | zero =>
    intro e hs ctx
    cases e with
    | bin o l r => simp [skel] at hs
    | _ => simp [items, renderItems, renderItem, joinWith, showE]
  | succ n ih =>
    intro e hs ctx
    cases e with
    | bin o l r =>
      simp only [skel] at hs
      have hl := ih l (by omega) (some o)
      have hr := ih r (by omega) (some o)
      have hnl : (items (some o) l).map (renderItem tok) ≠ [] := by simpa using items_ne_nil (some o) l
      have hnr : (items (some o) r).map (renderItem tok) ≠ [] := by simpa using items_ne_nil (some o) r
      have plain : showE tok (some o) l ++ " " ++ binOpStr o ++ " " ++ showE tok (some o) r =
          renderItems tok (items (some o) l ++ [.infix o] ++ items (some o) r) := by
        simp only [renderItems, List.map_append, List.map_cons, List.map_nil, renderItem]
        rw [List.append_assoc, joinWith_append _ _ _ hnl (by simp), List.singleton_append,
          show joinWith " " (binOpStr o :: (items (some o) r).map (renderItem tok)) =
            binOpStr o ++ " " ++ joinWith " " ((items (some o) r).map (renderItem tok)) by
              cases hm : (items (some o) r).map (renderItem tok) with
              | nil => exact absurd hm hnr
              | cons y ys => simp [joinWith]]
        rw [hl, hr]; simp [renderItems, String.append_assoc]
      cases ctx with
      | none => simpa [showE, items] using plain
      | some last =>
        have grp : "(" ++ showE tok (some o) l ++ " " ++ binOpStr o ++ " " ++ showE tok (some o) r ++ ")" =
            renderItems tok [.group none (.bin o l r)] := by
          simp [renderItems, renderItem, joinWith, showE, String.append_assoc]
        by_cases hsub : last = .sub
        · subst hsub
          by_cases hp : Gen.binPrec o < Gen.binPrec BinOp.sub
          · simpa [showE, items, hp] using grp
          · by_cases hleaf : isLeaf r = true
            · simpa [showE, items, hp, hleaf] using plain
            · simp only [showE, items, hp, hleaf, if_false, Bool.false_eq_true]
              simp only [renderItems, List.map_append, List.map_cons, List.map_nil, renderItem]
              rw [List.append_assoc, joinWith_append _ _ _ hnl (by simp)]
              rw [hl]
              simp [renderItems, joinWith, String.append_assoc]
              rfl
        · have hs' : last = BinOp.sub → False := hsub
          by_cases hp : Gen.binPrec o < Gen.binPrec last
          · have e1 : showE tok (some last) (.bin o l r) =
                "(" ++ showE tok (some o) l ++ " " ++ binOpStr o ++ " " ++ showE tok (some o) r ++ ")" := by
              rw [showE]; simp [hp]; exact hs'
            have e2 : items (some last) (.bin o l r) = [.group none (.bin o l r)] := by
              simp only [items, hp, if_true]
            rw [e1, e2]; exact grp
          · have e1 : showE tok (some last) (.bin o l r) =
                showE tok (some o) l ++ " " ++ binOpStr o ++ " " ++ showE tok (some o) r := by
              rw [showE]; simp [hp]; exact hs'
            have e2 : items (some last) (.bin o l r) = items (some o) l ++ [.infix o] ++ items (some o) r := by
              simp only [items, hp, if_false]
            rw [e1, e2]; exact plain
    | _ => simp [items, renderItems, renderItem, joinWith, showE]

/-- `Display` text = rendering of the item stream. -/
theorem showE_eq_renderItems (tok : α → String) (ctx : Option BinOp) (e : Exp α) :
    showE tok ctx e = renderItems tok (items ctx e) :=
  showE_eq_renderItems_aux tok (skel e) e (Nat.le_refl _) ctx

end Rooc.Display
