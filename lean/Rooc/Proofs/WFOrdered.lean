/-
C08 — every range the compiler publishes is ORDERED (`lower ≤ upper`, hence no NaN end point).

The state invariant of the lowering (`WFInv.BOK`) carries, next to properness, an additional predicate chosen by
the configuration (`BCfg.exB / exT`).  Here it is instantiated with `lower ≤ upper`; what the invariant needs
(`ExAx`) is: the range of an ordered declared type is ordered, the interval evaluation `bounds_of` of an
expression with finite literals over an ordered box is ordered (`BoundsProofs.boundsOf_ord`, carried over to the
linearizer's copy of `bounds_of` with `LinP.cv_boundsOf`), and the three kinds of auxiliary type built from an
ordered range are ordered (`$abs_k : NonNegativeReal(0, max(−lo, hi))` because `lo ≤ hi` gives `0 ≤ max(−lo, hi)`).
-/
import Rooc.Proofs.WFAnalyzerProper
import Rooc.Proofs.BoundsMono

set_option linter.unusedSectionVars false
set_option linter.unusedSimpArgs false
set_option linter.unusedVariables false

namespace Rooc
namespace Lin
open Rooc.LinP Rooc.APr Arith
variable {K : Type} [Field K] [LinearOrder K] [IsStrictOrderedRing K] [FloorRing K]

/-- an ordered range: `lower ≤ upper` (in `Ext K` this excludes NaN at either end). -/
def OrdB (b : Lin.Bounds (Ext K)) : Prop := Ext.le b.lower b.upper = true

/-- an ordered declared type. -/
def OrdT : VarType (Ext K) → Prop
  | .bool => True
  | .int lo hi => lo ≤ hi
  | .real lo hi => Ext.le lo hi = true
  | .nnreal lo hi => Ext.le lo hi = true

/-- the configuration of the state invariant that tracks properness AND order. -/
@[reducible] def ordCfg : BCfg (Ext K) := { track := true, exB := OrdB, exT := OrdT }

theorem finiteLits_of_allLits : ∀ e : Exp (Ext K), allLits fin? e = true → BoundsSem.finiteLits e = true := by
  intro e
  induction e using BoundsProofs.expInd with
  | num v => intro h; cases v <;> simp_all [allLits, BoundsSem.finiteLits, BoundsSem.finiteLit, fin?, Arith.isFinite, Ext.isFinite]
  | var s => intro _; simp [BoundsSem.finiteLits]
  | abs e ih => intro h; simp only [allLits] at h; simpa [BoundsSem.finiteLits] using ih h
  | not e ih => intro h; simp only [allLits] at h; simpa [BoundsSem.finiteLits] using ih h
  | un op e ih => intro h; simp only [allLits] at h; simpa [BoundsSem.finiteLits] using ih h
  | min es ih | max es ih | and es ih | or es ih =>
    intro h
    simp only [allLits, allLitsL_iff] at h
    simp only [BoundsSem.finiteLits]
    induction es with
    | nil => rfl
    | cons e es ihl =>
      simp only [BoundsSem.finiteLitsList, Bool.and_eq_true]
      exact ⟨ih e (List.mem_cons_self ..) (h e (List.mem_cons_self ..)),
        ihl (fun e' he' => ih e' (List.mem_cons_of_mem _ he')) (fun e' he' => h e' (List.mem_cons_of_mem _ he'))⟩
  | xor a b iha ihb | implies a b iha ihb | iff a b iha ihb =>
    intro h; simp only [allLits, Bool.and_eq_true] at h
    simp [BoundsSem.finiteLits, iha h.1, ihb h.2]
  | bin op a b iha ihb =>
    intro h; simp only [allLits, Bool.and_eq_true] at h
    simp [BoundsSem.finiteLits, iha h.1, ihb h.2]

/-- `bounds_of` (the linearizer's copy) keeps order. -/
theorem boundsOf_ordB (bm : BoundsMap (Ext K)) (hbox : ∀ x, OrdB (varBounds bm x)) {e : Exp (Ext K)}
    (he : allLits fin? e = true) : OrdB (boundsOf bm e) := by
  have hb : ∀ name, BoundsProofs.Ord (Analyzer.varBounds (cvM bm) name) := by
    intro name
    have := hbox name
    unfold Lin.varBounds at this
    unfold Analyzer.varBounds
    rw [get_cvM]
    cases h : lookupB bm name with
    | none => simp [BoundsProofs.Ord, Rooc.Bounds.unbounded, Ext.le, Arith.negInf, Arith.posInf]
    | some b => rw [h] at this; exact this
  have := BoundsProofs.boundsOf_ord (vb := cvM bm) hb e (finiteLits_of_allLits e he)
  rw [← cv_boundsOf] at this
  exact this

theorem ordB_ofVarType {ty : VarType (Ext K)} (h : OrdT ty) : OrdB (Bounds.ofVarType ty) := by
  cases ty with
  | bool => simp [OrdB, Bounds.ofVarType, Ext.le, Arith.zero, Arith.one, Arith.ofInt]
  | int lo hi =>
    simp only [OrdT] at h
    simp only [OrdB, Bounds.ofVarType, Arith.ofInt, Ext.le, ef_le, ef_ofInt, decide_eq_true_eq]
    exact_mod_cast h
  | real lo hi => exact h
  | nnreal lo hi => exact h

theorem ordT_abs {b : Lin.Bounds (Ext K)} (h : OrdB b) :
    OrdT (.nnreal zero (fmax (Arith.neg b.lower) b.upper)) := by
  obtain ⟨lo, hi⟩ := b
  simp only [OrdB] at h
  simp only [OrdT, Arith.zero, Arith.ofInt, Arith.neg, Arith.fmax]
  cases lo with
  | nan => simp [Ext.le] at h
  | pinf => cases hi <;> simp_all [Ext.le, Ext.neg, Ext.fmax, Ext.isNaN, Ext.lt]
  | ninf => cases hi <;> simp_all [Ext.le, Ext.neg, Ext.fmax, Ext.isNaN, Ext.lt]
  | fin a =>
    cases hi with
    | nan => simp [Ext.le] at h
    | ninf => simp [Ext.le] at h
    | pinf => simp [Ext.le, Ext.neg, Ext.fmax, Ext.isNaN, Ext.lt]
    | fin c =>
      simp only [Ext.le, ef_le, decide_eq_true_eq] at h
      simp only [Ext.neg, Ext.fmax, Ext.isNaN, Ext.lt, ef_lt, ef_neg, Bool.false_eq_true, if_false]
      by_cases hlt : -a < c
      · simp only [hlt, decide_true, if_true, Ext.le, ef_le, ef_ofInt, decide_eq_true_eq]
        push_cast; linarith
      · simp only [hlt, decide_false, Bool.false_eq_true, if_false, Ext.le, ef_le, ef_ofInt, decide_eq_true_eq]
        push_cast; linarith

attribute [local instance] ordCfg in
theorem exAx_ord : @ExAx (Ext K) _ ordCfg fin? where
  ofTy ty _ h := ordB_ofVarType h
  boundsOf bm hbox e he := boundsOf_ordB bm (fun x => (hbox x).2) he
  bool := trivial
  absT b _ hb := ordT_abs hb
  realT b hb := hb

/-- every declared type of the domain is ordered. -/
def DomainOrdered (d : List (DomVar (Ext K))) : Prop := ∀ v ∈ d, OrdT v.ty
/-- every range of the bounds map is ordered. -/
def BoundsOrdered (b : BoundsMap (Ext K)) : Prop := ∀ x, OrdB (varBounds b x)

/-- **the lowering keeps domains ordered**: source entries are passed through, and every auxiliary is declared
with a type built from an ordered range. -/
theorem domain_ordered {m : Model (Ext K)} {b : BoundsMap (Ext K)} {d : List (DomVar (Ext K))}
    {lm : LinModel (Ext K)} (hfin : FiniteLits m = true) (hb : BoundsProper b) (hd : DomainProper d)
    (hbo : BoundsOrdered b) (hdo : DomainOrdered d)
    (h : linearizeWith m b d = .ok lm) : DomainOrdered lm.domain := by
  intro v hv
  exact (@domain_good K _ _ _ _ ordCfg rfl exAx_ord m b d lm hfin (fun x => ⟨hb x, hbo x⟩)
    (fun v hv => ⟨hd v hv, hdo v hv⟩) h v hv).2

end Lin
end Rooc
