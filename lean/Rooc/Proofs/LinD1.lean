/-
Stage D, part 1: `normalize` (simplify → flatten → simplify) on ARBITRARY expressions.
* it introduces no variable (`varsOf_normalize`);
* at an assignment at which the operands of every and/or node are 0/1-valued (`LogicOperands01`, C10) it keeps
  the value, and the side condition survives (`normalize_eval_lo`).
-/
import Rooc.Proofs.LinFrag
import Rooc.Proofs.ExpLemmasNF

set_option linter.unusedSectionVars false
set_option linter.unusedSimpArgs false
set_option linter.unusedVariables false

namespace Rooc.LinP
open Rooc Rooc.Lin Rooc.Sem Rooc.Exp

/-! ### variables -/
section vars
variable {α : Type} [Arith α]

/-- every variable of `e` is among `xs`. -/
def VarsIn (xs : List String) (e : Exp α) : Prop := ∀ x ∈ varsOf e, x ∈ xs

theorem VarsIn.num (xs : List String) (v : α) : VarsIn xs (.num v : Exp α) := by simp [VarsIn, varsOf]

theorem varsIn_bin {xs : List String} {op : BinOp} {a b : Exp α} :
    VarsIn xs (.bin op a b) ↔ VarsIn xs a ∧ VarsIn xs b := by
  simp only [VarsIn, varsOf, List.mem_append]
  exact ⟨fun h => ⟨fun x hx => h x (Or.inl hx), fun x hx => h x (Or.inr hx)⟩,
    fun h x hx => hx.elim (h.1 x) (h.2 x)⟩

theorem varsIn_list {xs : List String} {es : List (Exp α)} :
    (∀ x ∈ varsOfList es, x ∈ xs) ↔ ∀ e ∈ es, VarsIn xs e := by
  simp only [mem_varsOfList, VarsIn]
  exact ⟨fun h e he x hx => h x ⟨e, he, hx⟩, fun h x ⟨e, he, hx⟩ => h e he x hx⟩

theorem varsIn_addCore {xs : List String} {l r : Exp α} (hl : VarsIn xs l) (hr : VarsIn xs r) :
    VarsIn xs (addCore l r) := by
  unfold addCore
  split
  · exact VarsIn.num _ _
  · split
    · exact hr
    · exact varsIn_bin.mpr ⟨hl, hr⟩
  · split
    · exact hl
    · exact varsIn_bin.mpr ⟨hl, hr⟩
  · exact varsIn_bin.mpr ⟨hl, hr⟩

theorem varsIn_subCore {xs : List String} {l r : Exp α} (hl : VarsIn xs l) (hr : VarsIn xs r) :
    VarsIn xs (subCore l r) := by
  unfold subCore
  split
  · exact VarsIn.num _ _
  · split
    · exact hl
    · exact varsIn_bin.mpr ⟨hl, hr⟩
  · exact varsIn_bin.mpr ⟨hl, hr⟩

theorem varsIn_mulCore {xs : List String} {l r : Exp α} (hl : VarsIn xs l) (hr : VarsIn xs r) :
    VarsIn xs (mulCore l r) := by
  unfold mulCore
  split
  · exact VarsIn.num _ _
  · split
    · exact VarsIn.num _ _
    · split
      · exact hr
      · split
        · exact hl
        · exact varsIn_bin.mpr ⟨hl, hr⟩

theorem varsIn_divCore {xs : List String} {l r : Exp α} (hl : VarsIn xs l) (hr : VarsIn xs r) :
    VarsIn xs (divCore l r) := by
  unfold divCore
  split
  · split
    · exact varsIn_bin.mpr ⟨hl, hr⟩
    · exact VarsIn.num _ _
  · split
    · exact hl
    · exact varsIn_bin.mpr ⟨hl, hr⟩

theorem varsIn_negCore {xs : List String} {e : Exp α} (h : VarsIn xs e) : VarsIn xs (negCore e) := by
  unfold negCore; split
  · exact VarsIn.num _ _
  · simpa [VarsIn, varsOf] using h

theorem varsIn_absCore {xs : List String} {e : Exp α} (h : VarsIn xs e) : VarsIn xs (absCore e) := by
  unfold absCore; split
  · exact VarsIn.num _ _
  · simpa [VarsIn, varsOf] using h

theorem varsIn_notCore {xs : List String} {e : Exp α} (h : VarsIn xs e) : VarsIn xs (notCore e) := by
  unfold notCore; split
  · exact VarsIn.num _ _
  · simpa [VarsIn, varsOf] using h

theorem varsIn_pair {xs : List String} {a b : Exp α} (ha : VarsIn xs a) (hb : VarsIn xs b) :
    ∀ x, x ∈ varsOf a ++ varsOf b → x ∈ xs := by
  intro x hx; rcases List.mem_append.mp hx with h | h; exacts [ha x h, hb x h]

theorem varsIn_xorCore {xs : List String} {a b : Exp α} (ha : VarsIn xs a) (hb : VarsIn xs b) :
    VarsIn xs (xorCore a b) := by
  unfold xorCore; split
  · exact VarsIn.num _ _
  · intro x hx; simp only [varsOf] at hx; exact varsIn_pair ha hb x hx

theorem varsIn_impliesCore {xs : List String} {a b : Exp α} (ha : VarsIn xs a) (hb : VarsIn xs b) :
    VarsIn xs (impliesCore a b) := by
  unfold impliesCore; split
  · exact VarsIn.num _ _
  · intro x hx; simp only [varsOf] at hx; exact varsIn_pair ha hb x hx

theorem varsIn_iffCore {xs : List String} {a b : Exp α} (ha : VarsIn xs a) (hb : VarsIn xs b) :
    VarsIn xs (iffCore a b) := by
  unfold iffCore; split
  · exact VarsIn.num _ _
  · intro x hx; simp only [varsOf] at hx; exact varsIn_pair ha hb x hx

theorem varsIn_maxCore {xs : List String} {cs : List (Exp α)} (h : ∀ c ∈ cs, VarsIn xs c) :
    VarsIn xs (maxCore cs) := by
  unfold maxCore; split
  · exact VarsIn.num _ _
  · intro x hx; simp only [varsOf] at hx; exact varsIn_list.mpr h x hx

theorem varsIn_minCore {xs : List String} {cs : List (Exp α)} (h : ∀ c ∈ cs, VarsIn xs c) :
    VarsIn xs (minCore cs) := by
  unfold minCore; split
  · exact VarsIn.num _ _
  · intro x hx; simp only [varsOf] at hx; exact varsIn_list.mpr h x hx

theorem varsIn_mkNary {xs : List String} (isAnd : Bool) {es : List (Exp α)} :
    VarsIn xs (mkNary isAnd es) ↔ ∀ e ∈ es, VarsIn xs e := by
  cases isAnd <;> simp only [mkNary, VarsIn, varsOf] <;> exact varsIn_list

theorem varsIn_naryFlatten {xs : List String} (isAnd : Bool) {cs : List (Exp α)} (h : ∀ c ∈ cs, VarsIn xs c) :
    ∀ c ∈ naryFlatten isAnd cs, VarsIn xs c := by
  intro c hc
  rcases mem_naryFlatten.mp hc with ⟨hm, _⟩ | ⟨inner, hm, hx⟩
  · exact h c hm
  · exact (varsIn_mkNary isAnd).mp (h _ hm) c hx

theorem varsIn_naryCore {xs : List String} (isAnd : Bool) {cs : List (Exp α)} (h : ∀ c ∈ cs, VarsIn xs c) :
    VarsIn xs (naryCore isAnd cs) := by
  have hF := varsIn_naryFlatten isAnd h
  unfold naryCore
  cases hs : naryStep isAnd (naryFlatten isAnd cs) with
  | none => exact VarsIn.num _ _
  | some res =>
    obtain ⟨q, hq, _, _⟩ := naryStep_some hs
    have hres : ∀ c ∈ res, VarsIn xs c := by
      intro c hc; rw [hq] at hc; exact hF c (List.mem_filter.mp hc).1
    match res, hres with
    | [], _ => exact VarsIn.num _ _
    | [e], hres => exact hres e (by simp)
    | e1 :: e2 :: rest, hres =>
      simp only
      split
      · intro x hx; simp only [varsOf] at hx; exact varsIn_list.mpr hres x hx
      · intro x hx; simp only [varsOf] at hx; exact varsIn_list.mpr hres x hx

theorem varsIn_binCore {xs : List String} (op : BinOp) {l r : Exp α} (hl : VarsIn xs l) (hr : VarsIn xs r) :
    VarsIn xs (binCore op l r) := by
  have hlr : ∀ c ∈ [l, r], VarsIn xs c := by
    intro c hc; simp only [List.mem_cons, List.mem_nil_iff, or_false] at hc
    rcases hc with rfl | rfl; exacts [hl, hr]
  cases op <;> simp only [binCore]
  · exact varsIn_addCore hl hr
  · exact varsIn_subCore hl hr
  · exact varsIn_mulCore hl hr
  · exact varsIn_divCore hl hr
  · exact varsIn_naryCore true hlr
  · exact varsIn_naryCore false hlr
  · exact varsIn_xorCore hl hr
  · exact varsIn_impliesCore hl hr
  · exact varsIn_iffCore hl hr

/-- `simplify` introduces no variable. -/
theorem varsIn_simplify (xs : List String) : ∀ e : Exp α, VarsIn xs e → VarsIn xs (simplify e) := by
  intro e
  induction e using Exp.ind with
  | num v => intro h; rwa [simplify_num]
  | var s => intro h; rwa [simplify_var]
  | abs e ih => intro h; rw [simplify_abs]; exact varsIn_absCore (ih (by simpa [VarsIn, varsOf] using h))
  | min es ih =>
    intro h
    rw [simplify_min]; split
    · simp [VarsIn, varsOf, varsOfList]
    · refine varsIn_minCore ?_
      intro c hc
      obtain ⟨e, he, rfl⟩ := List.mem_map.mp hc
      exact ih e he (varsIn_list.mp (by simpa [VarsIn, varsOf] using h) e he)
  | max es ih =>
    intro h
    rw [simplify_max]; split
    · simp [VarsIn, varsOf, varsOfList]
    · refine varsIn_maxCore ?_
      intro c hc
      obtain ⟨e, he, rfl⟩ := List.mem_map.mp hc
      exact ih e he (varsIn_list.mp (by simpa [VarsIn, varsOf] using h) e he)
  | and es ih =>
    intro h
    rw [simplify_and]
    refine varsIn_naryCore true ?_
    intro c hc
    obtain ⟨e, he, rfl⟩ := List.mem_map.mp hc
    exact ih e he (varsIn_list.mp (by simpa [VarsIn, varsOf] using h) e he)
  | or es ih =>
    intro h
    rw [simplify_or]
    refine varsIn_naryCore false ?_
    intro c hc
    obtain ⟨e, he, rfl⟩ := List.mem_map.mp hc
    exact ih e he (varsIn_list.mp (by simpa [VarsIn, varsOf] using h) e he)
  | not e ih => intro h; rw [simplify_not]; exact varsIn_notCore (ih (by simpa [VarsIn, varsOf] using h))
  | xor a b iha ihb =>
    intro h; rw [simplify_xor]
    have := varsIn_bin (op := .add).mp (by simpa [VarsIn, varsOf] using h)
    exact varsIn_xorCore (iha this.1) (ihb this.2)
  | implies a b iha ihb =>
    intro h; rw [simplify_implies]
    have := varsIn_bin (op := .add).mp (by simpa [VarsIn, varsOf] using h)
    exact varsIn_impliesCore (iha this.1) (ihb this.2)
  | iff a b iha ihb =>
    intro h; rw [simplify_iff]
    have := varsIn_bin (op := .add).mp (by simpa [VarsIn, varsOf] using h)
    exact varsIn_iffCore (iha this.1) (ihb this.2)
  | bin op a b iha ihb =>
    intro h; rw [simplify_bin]
    have := varsIn_bin.mp h
    exact varsIn_binCore op (iha this.1) (ihb this.2)
  | un op e ih =>
    intro h
    cases op with
    | neg => rw [simplify_neg]; exact varsIn_negCore (ih (by simpa [VarsIn, varsOf] using h))
    | not => rw [simplify_unot]; exact varsIn_notCore (ih (by simpa [VarsIn, varsOf] using h))

theorem varsIn_flatten {xs : List String} {n : Nat} {e e' : Exp α} (h : VarsIn xs e) (hf : flattenF n e = some e') :
    VarsIn xs e' :=
  flattenF_pres (P := VarsIn xs) (R := fun _ => True)
    ⟨fun op a b => by rw [varsIn_bin]; simp, fun e => by simp [VarsIn, varsOf]⟩ n e e' h hf

/-- `normalize` introduces no variable. -/
theorem varsOf_normalize {e e' : Exp α} (hn : normalizeExp e = some e') : ∀ x ∈ varsOf e', x ∈ varsOf e := by
  obtain ⟨fl, hf, rfl⟩ := normalizeExp_some hn
  exact varsIn_simplify _ _ (varsIn_flatten (varsIn_simplify _ _ (fun x hx => hx)) hf)

end vars

variable {K : Type} [Field K] [LinearOrder K] [IsStrictOrderedRing K] [FloorRing K]

/-! ### `LogicOperands01` survives `flatten` -/

theorem LO_bin {ρ : String → K} {op : BinOp} {a b : Exp (Ext K)} :
    LogicOperands01 ρ (.bin op a b) ↔ LogicOperands01 ρ a ∧ LogicOperands01 ρ b ∧
      (op = .and ∨ op = .or → Is01 (eval ρ a) ∧ Is01 (eval ρ b)) := by
  simp [LogicOperands01]

theorem LO_arith {ρ : String → K} {op : BinOp} {a b : Exp (Ext K)} (ho : isAddSub op = true ∨ op = .mul ∨ op = .div) :
    LogicOperands01 ρ (.bin op a b) ↔ LogicOperands01 ρ a ∧ LogicOperands01 ρ b := by
  rw [LO_bin]
  constructor
  · rintro ⟨h1, h2, _⟩; exact ⟨h1, h2⟩
  · rintro ⟨h1, h2⟩
    refine ⟨h1, h2, ?_⟩
    rintro (rfl | rfl) <;> simp [isAddSub] at ho

theorem LO_neg {ρ : String → K} {e : Exp (Ext K)} : LogicOperands01 ρ (.un .neg e) ↔ LogicOperands01 ρ e := by
  simp [LogicOperands01]

theorem LO_flattenMulRest (ρ : String → K) (n : Nat)
    (ih : ∀ e e', LogicOperands01 ρ e → flattenF n e = some e' → LogicOperands01 ρ e') (l r : Exp (Ext K)) :
    ∀ e', LogicOperands01 ρ (.bin .mul l r) → flattenF.flattenMulRest n l r = some e' → LogicOperands01 ρ e' := by
  intro e' hp h
  have hmul : ∀ {a b : Exp (Ext K)}, LogicOperands01 ρ (.bin .mul a b) ↔ LogicOperands01 ρ a ∧ LogicOperands01 ρ b :=
    LO_arith (Or.inr (Or.inl rfl))
  obtain ⟨hl, hr⟩ := hmul.mp hp
  unfold flattenF.flattenMulRest at h
  split at h
  · split at h
    · rename_i iop a b hi
      obtain ⟨ha, hb⟩ := (LO_arith (Or.inl hi)).mp hr
      exact ih _ _ ((LO_arith (Or.inl hi)).mpr ⟨hmul.mpr ⟨hl, ha⟩, hmul.mpr ⟨hl, hb⟩⟩) h
    · split at h
      · simp only [Option.map_eq_some_iff] at h
        obtain ⟨x, hx, rfl⟩ := h
        exact LO_neg.mpr (ih _ _ (hmul.mpr ⟨LO_neg.mp hl, hr⟩) hx)
      · obtain ⟨a, b, ha', hb', rfl⟩ := opt_bind2_some h
        exact hmul.mpr ⟨ih _ _ hl ha', ih _ _ hr hb'⟩
  · simp only [Option.map_eq_some_iff] at h
    obtain ⟨x, hx, rfl⟩ := h
    exact LO_neg.mpr (ih _ _ (hmul.mpr ⟨LO_neg.mp hl, hr⟩) hx)
  · simp only [Option.map_eq_some_iff] at h
    obtain ⟨x, hx, rfl⟩ := h
    exact LO_neg.mpr (ih _ _ (hmul.mpr ⟨hl, LO_neg.mp hr⟩) hx)
  · obtain ⟨a, b, ha', hb', rfl⟩ := opt_bind2_some h
    exact hmul.mpr ⟨ih _ _ hl ha', ih _ _ hr hb'⟩

/-- `flatten` keeps the C10 side condition (the operands of and/or nodes keep their values). -/
theorem LO_flatten (ρ : String → K) (n : Nat) :
    ∀ (e e' : Exp (Ext K)), LogicOperands01 ρ e → flattenF n e = some e' → LogicOperands01 ρ e' := by
  induction n with
  | zero => intro e e' _ h; simp [flattenF] at h
  | succ n ih =>
    intro e e' hp h
    have hmul : ∀ {a b : Exp (Ext K)}, LogicOperands01 ρ (.bin .mul a b) ↔ LogicOperands01 ρ a ∧ LogicOperands01 ρ b :=
      LO_arith (Or.inr (Or.inl rfl))
    have hdiv : ∀ {a b : Exp (Ext K)}, LogicOperands01 ρ (.bin .div a b) ↔ LogicOperands01 ρ a ∧ LogicOperands01 ρ b :=
      LO_arith (Or.inr (Or.inr rfl))
    unfold flattenF at h
    split at h
    all_goals try (have hn := Nat.succ.inj ‹n + 1 = _›; subst hn)
    · simp at h
    · obtain ⟨hlr, hc⟩ := hmul.mp hp
      split at h
      · rename_i hi
        obtain ⟨hl, hr⟩ := (LO_arith (Or.inl hi)).mp hlr
        exact ih _ _ ((LO_arith (Or.inl hi)).mpr ⟨hmul.mpr ⟨hl, hc⟩, hmul.mpr ⟨hr, hc⟩⟩) h
      · exact LO_flattenMulRest ρ n ih _ _ _ hp h
    · exact LO_flattenMulRest ρ n ih _ _ _ hp h
    · obtain ⟨hlr, hc⟩ := hdiv.mp hp
      split at h
      · rename_i hi
        obtain ⟨hl, hr⟩ := (LO_arith (Or.inl hi)).mp hlr
        obtain ⟨a, b, ha, hb, rfl⟩ := opt_bind2_some h
        exact (LO_arith (Or.inl hi)).mpr ⟨ih _ _ (hdiv.mpr ⟨hl, hc⟩) ha, ih _ _ (hdiv.mpr ⟨hr, hc⟩) hb⟩
      · obtain ⟨a, b, ha, hb, rfl⟩ := opt_bind2_some h
        exact hdiv.mpr ⟨ih _ _ hlr ha, ih _ _ hc hb⟩
    · obtain ⟨hl, hr, hside⟩ := LO_bin.mp hp
      obtain ⟨a, b, ha, hb, rfl⟩ := opt_bind2_some h
      refine LO_bin.mpr ⟨ih _ _ hl ha, ih _ _ hr hb, ?_⟩
      intro ho
      rw [Rooc.flattenF_eval ρ _ _ _ ha, Rooc.flattenF_eval ρ _ _ _ hb]
      exact hside ho
    · simp at h; subst h; exact hp

/-- **`normalize` on arbitrary expressions**: the value is kept at every assignment at which the operands of
and/or nodes are 0/1-valued, and that side condition holds again for the result. -/
theorem normalize_eval_lo {e e' : Exp (Ext K)} (hn : normalizeExp e = some e') {ρ : String → K}
    (hlo : LogicOperands01 ρ e) {v : K} (hv : eval ρ e = some v) :
    eval ρ e' = some v ∧ LogicOperands01 ρ e' := by
  obtain ⟨fl, hf, rfl⟩ := normalizeExp_some hn
  obtain ⟨e1, l1⟩ := Rooc.simplify_sound_aux ρ e hlo v hv
  have e2 : eval ρ fl = some v := by rw [Rooc.flattenF_eval ρ _ _ _ hf]; exact e1
  have l2 : LogicOperands01 ρ fl := LO_flatten ρ _ _ _ l1 hf
  exact Rooc.simplify_sound_aux ρ fl l2 v e2

end Rooc.LinP
