/-
Stages C–E: the piecewise-linear fragment (`+ - * /`, unary minus, `abs`, and — when `ext` is set —
`min`/`max`), closed under `normalize` (simplify → flatten → simplify), on which `normalize` preserves values.
-/
import Rooc.Proofs.LinC10
import Rooc.Proofs.LinSpecAbs

set_option linter.unusedSectionVars false
set_option linter.unusedSimpArgs false
set_option linter.unusedVariables false

namespace Rooc.LinP
open Rooc Rooc.Lin Rooc.Sem Rooc.Exp

mutual
/-- the piecewise-linear fragment; `ext = true` admits `min` / `max`. -/
def frag {α : Type} (ext : Bool) : Exp α → Bool
  | .num _ => true
  | .var _ => true
  | .bin op a b => isArithOp op && frag ext a && frag ext b
  | .un .neg e => frag ext e
  | .abs e => frag ext e
  | .min es => ext && fragList ext es
  | .max es => ext && fragList ext es
  | _ => false
def fragList {α : Type} (ext : Bool) : List (Exp α) → Bool
  | [] => true
  | e :: es => frag ext e && fragList ext es
end

theorem fragList_iff {α : Type} (ext : Bool) : ∀ es : List (Exp α), fragList ext es = true ↔ ∀ e ∈ es, frag ext e = true
  | [] => by simp [fragList]
  | e :: es => by simp [fragList, fragList_iff ext es]

/-- in the fragment, with every variable in `S`. -/
def FG {α : Type} (ext : Bool) (S : String → Prop) (e : Exp α) : Prop :=
  frag ext e = true ∧ ∀ x ∈ varsOf e, S x

section fg
variable {α : Type} [Arith α] {ext : Bool} {S : String → Prop}

theorem FG_num (v : α) : FG ext S (.num v : Exp α) := ⟨by simp [frag], by simp [varsOf]⟩
theorem FG_var {x : String} : FG ext S (.var x : Exp α) ↔ S x := by simp [FG, frag, varsOf]
theorem FG_bin {op : BinOp} {a b : Exp α} :
    FG ext S (.bin op a b) ↔ (isArithOp op = true ∧ FG ext S a ∧ FG ext S b) := by
  simp only [FG, frag, Bool.and_eq_true, varsOf, List.mem_append]
  constructor
  · rintro ⟨⟨⟨h1, h2⟩, h3⟩, h4⟩
    exact ⟨h1, ⟨h2, fun x hx => h4 x (Or.inl hx)⟩, ⟨h3, fun x hx => h4 x (Or.inr hx)⟩⟩
  · rintro ⟨h1, ⟨h2, h4⟩, ⟨h3, h5⟩⟩
    exact ⟨⟨⟨h1, h2⟩, h3⟩, fun x hx => hx.elim (h4 x) (h5 x)⟩
theorem FG_neg {e : Exp α} : FG ext S (.un .neg e) ↔ FG ext S e := by simp [FG, frag, varsOf]
theorem FG_abs {e : Exp α} : FG ext S (.abs e) ↔ FG ext S e := by simp [FG, frag, varsOf]
theorem FG_max {es : List (Exp α)} : FG ext S (.max es) ↔ (ext = true ∧ ∀ e ∈ es, FG ext S e) := by
  simp only [FG, frag, Bool.and_eq_true, fragList_iff, varsOf, mem_varsOfList]
  constructor
  · rintro ⟨⟨h1, h2⟩, h3⟩; exact ⟨h1, fun e he => ⟨h2 e he, fun x hx => h3 x ⟨e, he, hx⟩⟩⟩
  · rintro ⟨h1, h2⟩; exact ⟨⟨h1, fun e he => (h2 e he).1⟩, fun x ⟨e, he, hx⟩ => (h2 e he).2 x hx⟩
theorem FG_min {es : List (Exp α)} : FG ext S (.min es) ↔ (ext = true ∧ ∀ e ∈ es, FG ext S e) := by
  simp only [FG, frag, Bool.and_eq_true, fragList_iff, varsOf, mem_varsOfList]
  constructor
  · rintro ⟨⟨h1, h2⟩, h3⟩; exact ⟨h1, fun e he => ⟨h2 e he, fun x hx => h3 x ⟨e, he, hx⟩⟩⟩
  · rintro ⟨h1, h2⟩; exact ⟨⟨h1, fun e he => (h2 e he).1⟩, fun x ⟨e, he, hx⟩ => (h2 e he).2 x hx⟩

theorem FG.mono {S' : String → Prop} (h : ∀ x, S x → S' x) {e : Exp α} (he : FG ext S e) : FG ext S' e :=
  ⟨he.1, fun x hx => h x (he.2 x hx)⟩

theorem FG_of_AG : ∀ {e : Exp α}, AG S e → FG ext S e := by
  intro e
  induction e using Exp.indL with
  | num v => intro _; exact FG_num v
  | var x => intro h; exact FG_var.mpr (AG_var.mp h)
  | bin op a b iha ihb =>
    intro h; obtain ⟨h1, h2, h3⟩ := AG_bin.mp h
    exact FG_bin.mpr ⟨h1, iha h2, ihb h3⟩
  | un op e ih =>
    intro h
    cases op with
    | neg => exact FG_neg.mpr (ih (AG_neg.mp h))
    | not => simp [AG, arithOnly] at h
  | _ => intro h; simp [AG, arithOnly] at h

theorem FG_compositional : BinCompositional (FG ext S : Exp α → Prop) (fun op => isArithOp op = true) :=
  ⟨fun _ _ _ => FG_bin, fun _ => FG_neg⟩

theorem FG_flatten {n : Nat} {e e' : Exp α} (h : FG ext S e) (hf : flattenF n e = some e') : FG ext S e' :=
  flattenF_pres FG_compositional n e e' h hf

theorem FG_addCore {l r : Exp α} (hl : FG ext S l) (hr : FG ext S r) : FG ext S (addCore l r) := by
  unfold addCore
  split
  · exact FG_num _
  · split
    · exact hr
    · exact FG_bin.mpr ⟨rfl, hl, hr⟩
  · split
    · exact hl
    · exact FG_bin.mpr ⟨rfl, hl, hr⟩
  · exact FG_bin.mpr ⟨rfl, hl, hr⟩

theorem FG_subCore {l r : Exp α} (hl : FG ext S l) (hr : FG ext S r) : FG ext S (subCore l r) := by
  unfold subCore
  split
  · exact FG_num _
  · split
    · exact hl
    · exact FG_bin.mpr ⟨rfl, hl, hr⟩
  · exact FG_bin.mpr ⟨rfl, hl, hr⟩

theorem FG_mulCore {l r : Exp α} (hl : FG ext S l) (hr : FG ext S r) : FG ext S (mulCore l r) := by
  unfold mulCore
  split
  · exact FG_num _
  · split
    · exact FG_num _
    · split
      · exact hr
      · split
        · exact hl
        · exact FG_bin.mpr ⟨rfl, hl, hr⟩

theorem FG_divCore {l r : Exp α} (hl : FG ext S l) (hr : FG ext S r) : FG ext S (divCore l r) := by
  unfold divCore
  split
  · split
    · exact FG_bin.mpr ⟨rfl, hl, hr⟩
    · exact FG_num _
  · split
    · exact hl
    · exact FG_bin.mpr ⟨rfl, hl, hr⟩

theorem FG_simplify : ∀ (e : Exp α), FG ext S e → FG ext S (simplify e) := by
  intro e
  induction e using Exp.indL with
  | num v => intro h; simpa [simplify] using h
  | var x => intro h; simpa [simplify] using h
  | bin op a b iha ihb =>
    intro h
    obtain ⟨ho, ha, hb⟩ := FG_bin.mp h
    have ha' := iha ha
    have hb' := ihb hb
    cases op <;> simp only [simplify] <;> simp [isArithOp] at ho
    · exact FG_addCore ha' hb'
    · exact FG_subCore ha' hb'
    · exact FG_mulCore ha' hb'
    · exact FG_divCore ha' hb'
  | un op e ih =>
    intro h
    cases op with
    | not => simp [FG, frag] at h
    | neg =>
      have := ih (FG_neg.mp h)
      simp only [simplify]
      split
      · exact FG_num _
      · exact FG_neg.mpr this
  | abs e ih =>
    intro h
    have := ih (FG_abs.mp h)
    simp only [simplify]
    split
    · exact FG_num _
    · exact FG_abs.mpr this
  | max es ih =>
    intro h
    obtain ⟨hx, hes⟩ := FG_max.mp h
    simp only [simplify]
    split
    · exact FG_max.mpr ⟨hx, by simp⟩
    · split
      · exact FG_num _
      · refine FG_max.mpr ⟨hx, ?_⟩
        intro e' he'
        obtain ⟨e0, he0, rfl⟩ := List.mem_map.mp he'
        exact ih e0 he0 (hes e0 he0)
  | min es ih =>
    intro h
    obtain ⟨hx, hes⟩ := FG_min.mp h
    simp only [simplify]
    split
    · exact FG_min.mpr ⟨hx, by simp⟩
    · split
      · exact FG_num _
      · refine FG_min.mpr ⟨hx, ?_⟩
        intro e' he'
        obtain ⟨e0, he0, rfl⟩ := List.mem_map.mp he'
        exact ih e0 he0 (hes e0 he0)
  | _ => intro h; simp [FG, frag] at h

theorem FG_normalize {e e' : Exp α} (h : FG ext S e) (hn : normalizeExp e = some e') : FG ext S e' := by
  obtain ⟨fl, hf, rfl⟩ := normalizeExp_some hn
  exact FG_simplify _ (FG_flatten (FG_simplify _ h) hf)

end fg

variable {K : Type} [Field K] [LinearOrder K] [IsStrictOrderedRing K] [FloorRing K]

/-- no and/or node anywhere: the C10 side condition of `simplify_sound` is vacuous. -/
theorem logicOperands01_of_frag (ext : Bool) (ρ : String → K) : ∀ (e : Exp (Ext K)), frag ext e = true →
    LogicOperands01 ρ e := by
  intro e
  induction e using Exp.indL with
  | num v => intro _; simp [LogicOperands01]
  | var x => intro _; simp [LogicOperands01]
  | bin op a b iha ihb =>
    intro h
    simp only [frag, Bool.and_eq_true] at h
    obtain ⟨⟨ho, ha⟩, hb⟩ := h
    refine ⟨iha ha, ihb hb, ?_⟩
    rintro (rfl | rfl) <;> simp [isArithOp] at ho
  | un op e ih =>
    intro h
    cases op with
    | not => simp [frag] at h
    | neg => simp only [frag] at h; simpa [LogicOperands01] using ih h
  | abs e ih => intro h; simp only [frag] at h; simpa [LogicOperands01] using ih h
  | max es ih =>
    intro h
    simp only [frag, Bool.and_eq_true, fragList_iff] at h
    simp only [LogicOperands01, LogicOperands01List_iff]
    exact fun e he => ih e he (h.2 e he)
  | min es ih =>
    intro h
    simp only [frag, Bool.and_eq_true, fragList_iff] at h
    simp only [LogicOperands01, LogicOperands01List_iff]
    exact fun e he => ih e he (h.2 e he)
  | _ => intro h; simp [frag] at h

/-- `normalize` preserves defined values on the fragment. -/
theorem normalize_eval_frag {ext : Bool} {e e' : Exp (Ext K)} (ha : frag ext e = true)
    (hn : normalizeExp e = some e') {ρ : String → K} {v : K} (hv : eval ρ e = some v) : eval ρ e' = some v := by
  obtain ⟨fl, hf, rfl⟩ := normalizeExp_some hn
  have h1 : FG ext (fun _ => True) (simplify e) := FG_simplify _ ⟨ha, fun _ _ => trivial⟩
  have h2 : FG ext (fun _ => True) fl := FG_flatten h1 hf
  have e1 : eval ρ (simplify e) = some v := (Rooc.simplify_sound_aux ρ e (logicOperands01_of_frag ext ρ e ha) v hv).1
  have e2 : eval ρ fl = some v := by rw [Rooc.flattenF_eval ρ _ _ _ hf]; exact e1
  exact (Rooc.simplify_sound_aux ρ fl (logicOperands01_of_frag ext ρ fl h2.1) v e2).1

/-- finite literals survive `normalize`. -/
theorem finiteLits_flatten' {n : Nat} {e e' : Exp (Ext K)} (h : finiteLits e = true) (hf : flattenF n e = some e') :
    finiteLits e' = true :=
  flattenF_pres (P := fun e => finiteLits e = true) (R := fun _ => True)
    ⟨fun op a b => by simp [finiteLits], fun e => by simp [finiteLits]⟩ n e e' h hf

theorem finiteLits_normalize {e e' : Exp (Ext K)} (h : finiteLits e = true) (hn : normalizeExp e = some e') :
    finiteLits e' = true := by
  obtain ⟨fl, hf, rfl⟩ := normalizeExp_some hn
  exact finiteLits_simplify _ (finiteLits_flatten' (finiteLits_simplify _ h) hf)

end Rooc.LinP
