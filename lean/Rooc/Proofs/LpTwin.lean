/-
C17 helper lemmas, part 2: the exported text as a list of lines of words, each word paired with the
tokens it lexes to (`linesLP`); `writeLP tok lm = fileText (linesLP tok lm)`.
-/
import Rooc.Proofs.LpLex
namespace Rooc.Lp
open Rooc Arith

/-- a word and the tokens it stands for -/
abbrev WT := List Char × List Tok

/-- every word preceded by a blank -/
def leadSp : List (List Char) → List Char
  | [] => []
  | w :: ws => ' ' :: (w ++ leadSp ws)

/-- words separated by single blanks -/
def unwords : List (List Char) → List Char
  | [] => []
  | w :: ws => w ++ leadSp ws

structure Line where
  indent : Bool
  wts : List WT

def Line.body (l : Line) : List Char :=
  if l.indent then leadSp (l.wts.map (·.1)) else unwords (l.wts.map (·.1))
def Line.text (l : Line) : List Char := l.body ++ ['\n']
def Line.toks (l : Line) : List Tok := l.wts.flatMap (·.2)

def fileText : List Line → List Char
  | [] => []
  | l :: ls => l.text ++ fileText ls
def fileToks : List Line → List Tok
  | [] => []
  | l :: ls => l.toks ++ fileToks ls

theorem leadSp_append (a b : List (List Char)) : leadSp (a ++ b) = leadSp a ++ leadSp b := by
  induction a with
  | nil => rfl
  | cons w ws ih => simp [leadSp, ih]

theorem fileText_append (a b : List Line) : fileText (a ++ b) = fileText a ++ fileText b := by
  induction a with
  | nil => rfl
  | cons l ls ih => simp [fileText, ih]
theorem fileToks_append (a b : List Line) : fileToks (a ++ b) = fileToks a ++ fileToks b := by
  induction a with
  | nil => rfl
  | cons l ls ih => simp [fileToks, ih]

/-! ### lexing a file of words -/

theorem Lx_leadSp (w0 : List Char) (t0 : List Tok) (h0 : Lx w0 t0) :
    ∀ (wts : List WT), (∀ p ∈ wts, Lx p.1 p.2) → Lx (w0 ++ leadSp (wts.map (·.1))) (t0 ++ wts.flatMap (·.2)) := by
  intro wts
  induction wts generalizing w0 t0 with
  | nil => intro _; simpa [leadSp] using h0
  | cons p ps ih =>
    intro h
    have hp := h p (by simp)
    have := ih (w0 ++ ' ' :: p.1) (t0 ++ p.2) (Lx.join h0 (Or.inl rfl) hp) (fun q hq => h q (by simp [hq]))
    simpa [leadSp, List.append_assoc] using this

theorem Lx_lineBody (l : Line) (h : ∀ p ∈ l.wts, Lx p.1 p.2) : Lx l.body l.toks := by
  unfold Line.body Line.toks
  cases hi : l.indent with
  | true =>
    simpa using Lx_leadSp [] [] Lx.nil l.wts h
  | false =>
    cases hw : l.wts with
    | nil => simpa [unwords] using Lx.nil
    | cons p ps =>
      rw [hw] at h
      have := Lx_leadSp p.1 p.2 (h p (by simp)) ps (fun q hq => h q (by simp [hq]))
      simpa [unwords] using this

theorem Lx_file (ls : List Line) (h : ∀ l ∈ ls, ∀ p ∈ l.wts, Lx p.1 p.2) : Lx (fileText ls) (fileToks ls) := by
  induction ls with
  | nil => exact Lx.nil
  | cons l ls ih =>
    have hl := Lx_lineBody l (h l (by simp))
    have hr := ih (fun l' hl' => h l' (by simp [hl']))
    have := Lx.join hl (Or.inr rfl) hr
    simpa [fileText, fileToks, Line.text, List.append_assoc] using this

/-! ### the export as lines of words -/
section Twin
variable {α : Type} [Arith α] (tok : α → List Char)

def kw (s : String) : WT := (s.toList, [.name s.toList])
def nameWT (s : String) : WT := (s.toList, [.name s.toList])

def signedNumToks (v : α) : List Tok :=
  if Arith.lt v zero then [.minus, .num (tok (Arith.abs v))] else [.num (tok v)]
def numWT (v : α) : WT := (tok v, signedNumToks tok v)
def absWT (v : α) : WT := (tok (Arith.abs v), [.num (tok (Arith.abs v))])
def coefWTs (c : α) : List WT := if Arith.eq (Arith.abs c) one then [] else [absWT tok c]
def signWT (c : α) : WT := if Arith.lt c zero then (['-'], [.minus]) else (['+'], [.plus])

def tailWTs : List α → List String → List WT
  | c :: cs, v :: vs =>
    if isZero c then tailWTs cs vs else signWT c :: (coefWTs tok c ++ nameWT v :: tailWTs cs vs)
  | _, _ => []

def firstWTs : List α → List String → List WT
  | c :: cs, v :: vs =>
    if isZero c then firstWTs cs vs
    else (if Arith.lt c zero then [((['-'] : List Char), [Tok.minus])] else []) ++ (coefWTs tok c ++ nameWT v :: tailWTs tok cs vs)
  | _, _ => []

def hasTerm : List α → List String → Bool
  | c :: cs, _ :: vs => !isZero c || hasTerm cs vs
  | _, _ => false

def termWTs (cs : List α) (vs : List String) : List WT :=
  if hasTerm cs vs then firstWTs tok cs vs else [(['0'], [.num ['0']])]

def relWT : Cmp → WT
  | .le | .lt => ("<=".toList, [.le])
  | .ge | .gt => (">=".toList, [.ge])
  | .eq => ("=".toList, [.eq])

def offsetWTs (off : α) : List WT := if !(isZero off) then [signWT off, absWT tok off] else []

def objLineT (lm : LinModel α) : Line :=
  ⟨true, ("obj:".toList, [.name "obj".toList, .colon]) :: (termWTs tok lm.objective lm.vars ++ offsetWTs tok lm.offset)⟩

def rowLineT (vars : List String) (n : List Char) (r : LinRow α) : Line :=
  ⟨true, (n ++ [':'], [.name n, .colon]) ::
      (termWTs tok r.coeffs vars ++ [relWT r.cmp, numWT tok r.rhs])⟩

def rowLinesT (vars : List String) : List (List Char) → List (LinRow α) → List Line
  | n :: ns, r :: rs => rowLineT tok vars n r :: rowLinesT vars ns rs
  | _, _ => []

def intToks (i : Int) : List Tok := if i < 0 then [.minus, .num (natChars i.natAbs)] else [.num (natChars i.natAbs)]
def intWT (i : Int) : WT := (intChars i, intToks i)

def boundToks (v : α) : List Tok :=
  if Arith.eq v posInf then [.plus, .name "infinity".toList]
  else if Arith.eq v negInf then [.minus, .name "infinity".toList]
  else signedNumToks tok v
def boundWT (v : α) : WT := (lpBound tok v, boundToks tok v)

def leWT : WT := ("<=".toList, [.le])

def boundLinesT : List (DomVar α) → List Line
  | [] => []
  | d :: ds =>
    match d.ty with
    | .bool => boundLinesT ds
    | .int lo hi => ⟨true, [intWT lo, leWT, nameWT d.name, leWT, intWT hi]⟩ :: boundLinesT ds
    | .nnreal lo hi =>
      if !(Arith.eq lo zero && Arith.eq hi posInf) then
        ⟨true, [boundWT tok lo, leWT, nameWT d.name, leWT, boundWT tok hi]⟩ :: boundLinesT ds
      else boundLinesT ds
    | .real lo hi =>
      if Arith.eq lo negInf && Arith.eq hi posInf then ⟨true, [nameWT d.name, kw "free"]⟩ :: boundLinesT ds
      else ⟨true, [boundWT tok lo, leWT, nameWT d.name, leWT, boundWT tok hi]⟩ :: boundLinesT ds

def dirWT : OptType → WT
  | .max => kw "Maximize"
  | .min | .satisfy => kw "Minimize"

def linesLP (lm : LinModel α) : List Line :=
  let bounds := boundLinesT tok lm.domain
  let binaries := binaryNames lm.domain
  let generals := generalNames lm.domain
  [⟨false, [dirWT lm.optType]⟩, objLineT tok lm, ⟨false, [kw "Subject", kw "To"]⟩]
    ++ rowLinesT tok lm.vars (rowNames lm.rows) lm.rows
    ++ (if !bounds.isEmpty then ⟨false, [kw "Bounds"]⟩ :: bounds else [])
    ++ (if !binaries.isEmpty then [⟨false, [kw "Binary"]⟩, ⟨true, binaries.map nameWT⟩] else [])
    ++ (if !generals.isEmpty then [⟨false, [kw "General"]⟩, ⟨true, generals.map nameWT⟩] else [])
    ++ [⟨false, [kw "End"]⟩]

/-! #### the text is the file of these lines -/

theorem lpTermsAux_nonempty (cs : List α) (vs : List String) (s : List Char) (hs : s ≠ []) :
    lpTermsAux tok cs vs s = s ++ leadSp ((tailWTs tok cs vs).map (·.1)) := by
  induction cs generalizing vs s with
  | nil => simp [lpTermsAux, tailWTs, leadSp]
  | cons c cs ih =>
    cases vs with
    | nil => simp [lpTermsAux, tailWTs, leadSp]
    | cons v vs =>
      have hse : s.isEmpty = false := by cases s <;> simp_all
      simp only [lpTermsAux, tailWTs]
      split
      · exact ih vs s hs
      · simp only [hse, Bool.false_eq_true, if_false]
        rw [ih vs _ (by simp)]
        by_cases h1 : Arith.eq (Arith.abs c) one = true <;> by_cases h2 : Arith.lt c zero = true <;>
          simp [h1, h2, coefWTs, absWT, signWT, nameWT, leadSp, lpNum, leadSp_append, List.append_assoc]

theorem lpTermsAux_empty (cs : List α) (vs : List String) (hv : ∀ v ∈ vs, v.toList ≠ []) :
    lpTermsAux tok cs vs [] = unwords ((firstWTs tok cs vs).map (·.1)) := by
  induction cs generalizing vs with
  | nil => simp [lpTermsAux, firstWTs, unwords]
  | cons c cs ih =>
    cases vs with
    | nil => simp [lpTermsAux, firstWTs, unwords]
    | cons v vs =>
      have hvne : v.toList ≠ [] := hv v (by simp)
      simp only [lpTermsAux, firstWTs]
      split
      · exact ih vs (fun v' hv' => hv v' (by simp [hv']))
      · simp only [List.isEmpty_nil, if_true, List.nil_append]
        by_cases h2 : Arith.lt c zero = true
        · simp only [h2, if_true]
          rw [lpTermsAux_nonempty tok cs vs _ (by simp)]
          by_cases h1 : Arith.eq (Arith.abs c) one = true <;>
            simp [h1, coefWTs, absWT, nameWT, leadSp, unwords, lpNum, List.append_assoc]
        · simp only [h2, Bool.false_eq_true, if_false]
          rw [lpTermsAux_nonempty tok cs vs _ (by simp [hvne])]
          by_cases h1 : Arith.eq (Arith.abs c) one = true <;>
            simp [h1, coefWTs, absWT, nameWT, leadSp, unwords, lpNum, List.append_assoc]

theorem firstWTs_nil_iff (cs : List α) (vs : List String) :
    (firstWTs tok cs vs = []) ↔ hasTerm cs vs = false := by
  induction cs generalizing vs with
  | nil => simp [firstWTs, hasTerm]
  | cons c cs ih =>
    cases vs with
    | nil => simp [firstWTs, hasTerm]
    | cons v vs =>
      simp only [firstWTs, hasTerm]
      by_cases hz : isZero c = true
      · simp [hz, ih vs]
      · simp [hz]

theorem unwords_eq_nil {ws : List (List Char)} (h : unwords ws = []) (hne : ∀ w ∈ ws, w ≠ []) : ws = [] := by
  cases ws with
  | nil => rfl
  | cons w ws =>
    simp only [unwords, List.append_eq_nil_iff] at h
    exact absurd h.1 (hne w (by simp))

theorem leadSp_ne_nil_of_mem {ws : List (List Char)} {w : List Char} (h : w ∈ ws) : leadSp ws ≠ [] := by
  cases ws with
  | nil => simp at h
  | cons a as => simp [leadSp]

theorem unwords_ne_nil_of_mem {ws : List (List Char)} {w : List Char} (h : w ∈ ws) (hw : w ≠ []) :
    unwords ws ≠ [] := by
  cases ws with
  | nil => simp at h
  | cons a as =>
    simp only [unwords]
    rcases List.mem_cons.mp h with rfl | h'
    · simp [hw]
    · have := leadSp_ne_nil_of_mem h'
      simp [this]

theorem mem_firstWTs (cs : List α) (vs : List String) (h : hasTerm cs vs = true) :
    ∃ v ∈ vs, nameWT v ∈ firstWTs tok cs vs := by
  induction cs generalizing vs with
  | nil => simp [hasTerm] at h
  | cons c cs ih =>
    cases vs with
    | nil => simp [hasTerm] at h
    | cons v vs =>
      simp only [firstWTs]
      by_cases hz : isZero c = true
      · simp only [hasTerm, hz, Bool.not_true, Bool.false_or] at h
        obtain ⟨v', hv', hm⟩ := ih vs h
        exact ⟨v', by simp [hv'], by simpa [hz] using hm⟩
      · exact ⟨v, by simp, by simp [hz]⟩

/-- `lp_terms` as words -/
theorem lpTerms_eq (cs : List α) (vs : List String) (hv : ∀ v ∈ vs, v.toList ≠ []) :
    lpTerms tok cs vs = unwords ((termWTs tok cs vs).map (·.1)) := by
  unfold lpTerms termWTs
  rw [lpTermsAux_empty tok cs vs hv]
  cases hh : hasTerm cs vs with
  | false =>
    have := (firstWTs_nil_iff tok cs vs).mpr hh
    simp [this, unwords, leadSp]
  | true =>
    obtain ⟨v, hvm, hm⟩ := mem_firstWTs tok cs vs hh
    have : unwords ((firstWTs tok cs vs).map (·.1)) ≠ [] :=
      unwords_ne_nil_of_mem (w := v.toList) (List.mem_map.mpr ⟨_, hm, rfl⟩) (hv v hvm)
    have he : (unwords ((firstWTs tok cs vs).map (·.1))).isEmpty = false := by
      cases hu : unwords ((firstWTs tok cs vs).map (·.1)) with
      | nil => exact absurd hu this
      | cons _ _ => rfl
    simp [he]

theorem termWTs_ne_nil (cs : List α) (vs : List String) : termWTs tok cs vs ≠ [] := by
  unfold termWTs
  cases hh : hasTerm cs vs with
  | false => simp
  | true =>
    simp only [if_true]
    intro h
    have := (firstWTs_nil_iff tok cs vs).mp h
    simp [hh] at this

theorem leadSp_eq_cons_unwords {ws : List (List Char)} (h : ws ≠ []) : leadSp ws = ' ' :: unwords ws := by
  cases ws with
  | nil => exact absurd rfl h
  | cons w ws => rfl

theorem objectiveLine_eq (lm : LinModel α) (hv : ∀ v ∈ lm.vars, v.toList ≠ []) :
    objectiveLine tok lm = (objLineT tok lm).text := by
  have hT := termWTs_ne_nil tok lm.objective lm.vars
  have hT' : (termWTs tok lm.objective lm.vars).map (·.1) ≠ [] := by simpa using hT
  unfold objectiveLine objLineT Line.text Line.body offsetWTs
  simp only [lpTerms_eq tok lm.objective lm.vars hv, if_true, List.map_cons, List.map_append, leadSp, leadSp_append,
    leadSp_eq_cons_unwords hT']
  by_cases hz : isZero lm.offset = true
  · simp [hz, leadSp]
  · by_cases h2 : Arith.lt lm.offset zero = true <;>
      simp [hz, h2, leadSp, signWT, absWT, lpNum, List.append_assoc]

theorem rowLine_eq (vars : List String) (n : List Char) (r : LinRow α) (hv : ∀ v ∈ vars, v.toList ≠ []) :
    rowLine tok vars n r = (rowLineT tok vars n r).text := by
  have hT := termWTs_ne_nil tok r.coeffs vars
  have hT' : (termWTs tok r.coeffs vars).map (·.1) ≠ [] := by simpa using hT
  unfold rowLine rowLineT Line.text Line.body
  simp only [lpTerms_eq tok r.coeffs vars hv, if_true, List.map_cons, List.map_append, leadSp, leadSp_append,
    leadSp_eq_cons_unwords hT']
  cases r.cmp <;> simp [relChars, relWT, numWT, leadSp, lpNum, List.append_assoc]

theorem rowLines_eq (vars : List String) (hv : ∀ v ∈ vars, v.toList ≠ []) (ns : List (List Char))
    (rows : List (LinRow α)) : rowLines tok vars ns rows = fileText (rowLinesT tok vars ns rows) := by
  induction rows generalizing ns with
  | nil => cases ns <;> rfl
  | cons r rs ih =>
    cases ns with
    | nil => rfl
    | cons n ns => simp [rowLines, rowLinesT, fileText, rowLine_eq tok vars n r hv, ih]

theorem rangeLine_eq (lo hi : WT) (name : String) :
    rangeLine lo.1 name hi.1 = (Line.mk true [lo, leWT, nameWT name, leWT, hi]).body := by
  simp [rangeLine, Line.body, leadSp, leWT, nameWT, List.append_assoc]

theorem boundLines_eq (ds : List (DomVar α)) :
    boundLines tok ds = (boundLinesT tok ds).map Line.body := by
  induction ds with
  | nil => rfl
  | cons d ds ih =>
    cases hty : d.ty with
    | bool => simp only [boundLines, boundLinesT, hty]; exact ih
    | int lo hi =>
      simp only [boundLines, boundLinesT, hty, List.map_cons, ih]
      congr 1
      exact rangeLine_eq (intWT lo) (intWT hi) d.name
    | nnreal lo hi =>
      simp only [boundLines, boundLinesT, hty]
      split
      · simp only [List.map_cons, ih]
        congr 1
        exact rangeLine_eq (boundWT tok lo) (boundWT tok hi) d.name
      · exact ih
    | real lo hi =>
      simp only [boundLines, boundLinesT, hty]
      split
      · simp only [List.map_cons, ih]
        congr 1
      · simp only [List.map_cons, ih]
        congr 1
        exact rangeLine_eq (boundWT tok lo) (boundWT tok hi) d.name

theorem linesNl_eq (ls : List Line) : linesNl (ls.map Line.body) = fileText ls := by
  induction ls with
  | nil => rfl
  | cons l ls ih => simp [linesNl, fileText, Line.text, ih]

theorem joinSp_eq (ns : List String) : joinSp ns = unwords (ns.map (·.toList)) := by
  induction ns with
  | nil => rfl
  | cons n ns ih =>
    cases ns with
    | nil => simp [joinSp, unwords, leadSp]
    | cons m ms =>
      simp only [joinSp, List.map_cons, unwords, leadSp] at ih ⊢
      rw [ih]

theorem namesLine_eq (ns : List String) (h : ns ≠ []) :
    [' '] ++ joinSp ns ++ ['\n'] = (Line.mk true (ns.map nameWT)).text := by
  have : ns.map (·.toList) ≠ [] := by simpa using h
  simp [Line.text, Line.body, joinSp_eq, nameWT, Function.comp_def, leadSp_eq_cons_unwords this]

theorem namesLine_cons (ns : List String) (h : ns.isEmpty = false) (X : List Char) :
    ' ' :: (joinSp ns ++ '\n' :: X) = (Line.mk true (ns.map nameWT)).text ++ X := by
  have hne : ns ≠ [] := by intro e; simp [e] at h
  rw [← namesLine_eq ns hne]; simp [List.append_assoc]

/-- The exported text is the file made of the lines `linesLP`. -/
theorem writeLP_eq (lm : LinModel α) (hv : ∀ v ∈ lm.vars, v.toList ≠ []) :
    writeLP tok lm = fileText (linesLP tok lm) := by
  unfold writeLP linesLP
  simp only [fileText_append, fileText, objectiveLine_eq tok lm hv, rowLines_eq tok lm.vars hv,
    boundLines_eq, List.isEmpty_map]
  have hdir : direction lm.optType ++ ['\n'] = (Line.mk false [dirWT lm.optType]).text := by
    cases lm.optType <;> rfl
  have hst : "Subject To\n".toList = (Line.mk false [kw "Subject", kw "To"]).text := by rfl
  have hb : "Bounds\n".toList = (Line.mk false [kw "Bounds"]).text := by rfl
  have hbin : "Binary\n".toList = (Line.mk false [kw "Binary"]).text := by rfl
  have hgen : "General\n".toList = (Line.mk false [kw "General"]).text := by rfl
  have hend : "End\n".toList = (Line.mk false [kw "End"]).text := by rfl
  rw [hdir, hst, hb, hbin, hgen, hend, linesNl_eq]
  cases h1 : (boundLinesT tok lm.domain).isEmpty <;> cases h2 : (binaryNames lm.domain).isEmpty <;>
    cases h3 : (generalNames lm.domain).isEmpty <;>
    simp [fileText, List.append_assoc, namesLine_cons, h2, h3]

end Twin
end Rooc.Lp
