/-
Resource accounting for the success direction: sizes of the linear contexts and of the affine rows the gadgets
push, against the two fuels of the Lean model (`flattenFuel`, `drainFuel`; the Rust code has no fuel).
-/
import Rooc.Proofs.LinSucceed

set_option linter.unusedSectionVars false
set_option linter.unusedSimpArgs false
set_option linter.unusedVariables false

namespace Rooc.LinP
open Rooc Rooc.Lin Rooc.Sem Rooc.Exp

variable {K : Type} [Field K] [LinearOrder K] [IsStrictOrderedRing K] [FloorRing K]

/-! ### the weight of a source expression: number of nodes -/

mutual
def wt : Exp (Ext K) → Nat
  | .num _ => 1
  | .var _ => 1
  | .abs e => wt e + 1
  | .not e => wt e + 1
  | .un _ e => wt e + 1
  | .bin _ a b => wt a + wt b + 1
  | .xor a b => wt a + wt b + 1
  | .implies a b => wt a + wt b + 1
  | .iff a b => wt a + wt b + 1
  | .min es => wtL es + 1
  | .max es => wtL es + 1
  | .and es => wtL es + 1
  | .or es => wtL es + 1
def wtL : List (Exp (Ext K)) → Nat
  | [] => 0
  | e :: es => wt e + wtL es
end

theorem one_le_wt (e : Exp (Ext K)) : 1 ≤ wt e := by
  cases e <;> simp [wt] <;> omega

theorem wt_le_wtL {es : List (Exp (Ext K))} {e : Exp (Ext K)} (h : e ∈ es) : wt e ≤ wtL es := by
  induction es with
  | nil => cases h
  | cons x xs ih =>
    simp only [wtL]
    rcases List.mem_cons.mp h with rfl | h'
    · omega
    · have := ih h'; omega

theorem length_le_wtL (es : List (Exp (Ext K))) : es.length ≤ wtL es := by
  induction es with
  | nil => simp [wtL]
  | cons x xs ih => simp only [wtL, List.length_cons]; have := one_le_wt x; omega

theorem wtL_selectFlagged : ∀ (es : List (Exp (Ext K))) (fl : List Bool), wtL (selectFlagged es fl) ≤ wtL es
  | [], fl => by cases fl <;> simp [selectFlagged, wtL]
  | e :: es, [] => by simp [selectFlagged, wtL]
  | e :: es, f :: fl => by
    have := wtL_selectFlagged es fl
    cases f <;> simp only [selectFlagged, wtL, Bool.false_eq_true, if_false, if_true] <;> omega

/-! ### the size of a linear context -/

def csz (c : Ctx (Ext K)) : Nat := c.vars.length

theorem csz_addVar (c : Ctx (Ext K)) (n : String) (m : Ext K) : csz (c.addVar n m) ≤ csz c + 1 := by
  unfold Ctx.addVar csz
  split <;> simp

theorem csz_addRhs (c : Ctx (Ext K)) (r : Ext K) : csz (c.addRhs r) = csz c := rfl

theorem csz_foldl_addVar (f : Ext K → Ext K) : ∀ (vs : List (String × Ext K)) (c : Ctx (Ext K)),
    csz (vs.foldl (fun acc (p : String × Ext K) => acc.addVar p.1 (f p.2)) c) ≤ csz c + vs.length
  | [], c => by simp
  | p :: vs, c => by
    simp only [List.foldl_cons, List.length_cons]
    have h1 := csz_foldl_addVar f vs (c.addVar p.1 (f p.2))
    have h2 := csz_addVar c p.1 (f p.2)
    omega

theorem csz_mergeAdd (c o : Ctx (Ext K)) : csz (c.mergeAdd o) ≤ csz c + csz o := by
  unfold Ctx.mergeAdd
  rw [csz_addRhs]
  exact csz_foldl_addVar id o.vars c

theorem csz_mergeSub (c o : Ctx (Ext K)) : csz (c.mergeSub o) ≤ csz c + csz o := by
  unfold Ctx.mergeSub
  rw [csz_addRhs]
  exact csz_foldl_addVar Arith.neg o.vars c

theorem csz_mulBy (c : Ctx (Ext K)) (m : Ext K) : csz (c.mulBy m) = csz c := by simp [Ctx.mulBy, csz]
theorem csz_divBy (c : Ctx (Ext K)) (m : Ext K) : csz (c.divBy m) = csz c := by simp [Ctx.divBy, csz]
theorem csz_fromRhs (r : Ext K) : csz (Ctx.fromRhs r) = 0 := rfl
theorem csz_fromVar (n : String) (m : Ext K) : csz (Ctx.fromVar n m) = 1 := by rw [fromVar_eq]; rfl

/-! ### `context_to_exp` is a linear shape of size `2 + 5·|vars|` -/

theorem ctxToExp_foldl (vs : List (String × Ext K)) : ∀ e : Exp (Ext K), L1 e →
    L1 (vs.foldl (fun e (p : String × Ext K) => Exp.bin .add e (.bin .mul (.num p.2) (.var p.1))) e) ∧
    fsize (vs.foldl (fun e (p : String × Ext K) => Exp.bin .add e (.bin .mul (.num p.2) (.var p.1))) e) =
      fsize e + 5 * vs.length := by
  induction vs with
  | nil => intro e h; exact ⟨h, by simp⟩
  | cons p vs ih =>
    intro e h
    simp only [List.foldl_cons, List.length_cons]
    obtain ⟨h1, h2⟩ := ih (.bin .add e (.bin .mul (.num p.2) (.var p.1))) (by simp [L1, h, isNum])
    refine ⟨h1, ?_⟩
    rw [h2]; simp only [fsize]; omega

theorem L1_ctxToExp (c : Ctx (Ext K)) : L1 (ctxToExp c) :=
  (ctxToExp_foldl c.vars (.num c.rhs) (by simp [L1])).1

theorem fsize_ctxToExp (c : Ctx (Ext K)) : fsize (ctxToExp c) = 2 + 5 * csz c :=
  (ctxToExp_foldl c.vars (.num c.rhs) (by simp [L1])).2

/-! ### sums of variables -/

theorem sumExps_foldl (xs : List String) : ∀ e : Exp (Ext K), L1 e →
    L1 ((xs.map Exp.var).foldl addExp e) ∧ fsize ((xs.map Exp.var).foldl addExp e) = fsize e + 3 * xs.length := by
  induction xs with
  | nil => intro e h; exact ⟨h, by simp⟩
  | cons x xs ih =>
    intro e h
    simp only [List.map_cons, List.foldl_cons, List.length_cons]
    obtain ⟨h1, h2⟩ := ih (addExp e (.var x)) (by simp [addExp, L1, h])
    refine ⟨h1, ?_⟩
    rw [h2]; simp only [addExp, fsize]; omega

theorem L1_sumVars (xs : List String) : L1 (sumExps (xs.map Exp.var) : Exp (Ext K)) := by
  cases xs with
  | nil => simp [sumExps, L1]
  | cons x xs => simp only [List.map_cons, sumExps]; exact (sumExps_foldl xs (.var x) (by simp [L1])).1

theorem fsize_sumVars (xs : List String) : fsize (sumExps (xs.map Exp.var) : Exp (Ext K)) ≤ 2 + 3 * xs.length := by
  cases xs with
  | nil => simp [sumExps, fsize]
  | cons x xs =>
    simp only [List.map_cons, sumExps, List.length_cons]
    rw [(sumExps_foldl xs (.var x) (by simp [L1])).2]
    simp only [fsize]; omega

/-! ### the rows the gadgets push -/

/-- an affine comparison of total size at most `B`. -/
def AuxC (B : Nat) (c : Constraint (Ext K)) : Prop :=
  c.isAssert = false ∧ L1 c.lhs ∧ L1 c.rhs ∧ fsize c.lhs + fsize c.rhs + 1 ≤ B

theorem AuxC.mono {B B' : Nat} {c : Constraint (Ext K)} (h : AuxC B c) (hB : B ≤ B') : AuxC B' c :=
  ⟨h.1, h.2.1, h.2.2.1, le_trans h.2.2.2 hB⟩

theorem AuxC.srcL {B : Nat} {c : Constraint (Ext K)} (h : AuxC B c) (hB : B ≤ flattenFuel) : SrcL c := by
  obtain ⟨h1, h2, h3, h4⟩ := h
  have := fsize_simplify_le _ h2
  have := fsize_simplify_le _ h3
  exact ⟨h1, L1_simplify _ h2, L1_simplify _ h3, by omega⟩

theorem auxC_mkC {B : Nat} {l r : Exp (Ext K)} {cmp : Cmp} (hl : L1 l) (hr : L1 r) (hsz : fsize l + fsize r + 1 ≤ B) :
    AuxC B (mkC l cmp r) := ⟨rfl, hl, hr, hsz⟩

end Rooc.LinP
