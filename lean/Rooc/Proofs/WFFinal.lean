/-
C08 helpers — from the run theorem (`linearizeWith_run`) to the facets of `WF.report`.
-/
import Rooc.Proofs.WFLower
import Rooc.Proofs.WFSimp
import Rooc.Proofs.WFDedup
import Mathlib.Data.List.Sublists

set_option linter.unusedSectionVars false
set_option linter.unusedVariables false

namespace Rooc
namespace Lin
open Arith WFList WFDedup
variable {α : Type} [Arith α]

/-! ### the trivial predicate: structural facts for every number type -/

mutual
theorem allLits_true : ∀ e : Exp α, allLits (fun _ => true) e = true
  | .num _ => rfl
  | .var _ => rfl
  | .abs e => by rw [allLits]; exact allLits_true e
  | .not e => by rw [allLits]; exact allLits_true e
  | .un _ e => by rw [allLits]; exact allLits_true e
  | .min es => by rw [allLits]; exact allLitsL_true es
  | .max es => by rw [allLits]; exact allLitsL_true es
  | .and es => by rw [allLits]; exact allLitsL_true es
  | .or es => by rw [allLits]; exact allLitsL_true es
  | .xor a b => by rw [allLits, allLits_true a, allLits_true b]; rfl
  | .implies a b => by rw [allLits, allLits_true a, allLits_true b]; rfl
  | .iff a b => by rw [allLits, allLits_true a, allLits_true b]; rfl
  | .bin _ a b => by rw [allLits, allLits_true a, allLits_true b]; rfl
theorem allLitsL_true : ∀ es : List (Exp α), allLitsL (fun _ => true) es = true
  | [] => rfl
  | e :: es => by rw [allLitsL, allLits_true e, allLitsL_true es]; rfl
end

theorem simpOK_true : SimpOK (α := α) (fun _ => true) :=
  ⟨fun _ _ f _ _ => allLits_true f, fun e _ => allLits_true _⟩

/-- with the default configuration the range tracking is off: nothing to show. -/
theorem bTrack_off (p : α → Bool) : BTrack (α := α) p := fun h => nomatch h
theorem bOK_off (p : α → Bool) (s : St α) : BOK p s := fun h => nomatch h

/-- the names a row may carry: none, or a name the user gave to a source constraint. -/
def SrcName (m : Model α) (n : String) : Prop := n = "" ∨ n ∈ m.constraints.map (·.name)

theorem stOK_init_true (m : Model α) (b : BoundsMap α) (d : List (DomVar α)) :
    StOK (SrcName m) (fun _ => true) (initSt m b d) := by
  refine ⟨?_, by simp [initSt]⟩
  intro c hc
  exact ⟨Or.inr (List.mem_map.mpr ⟨c, hc, rfl⟩), allLits_true _, allLits_true _⟩

/-- the structural run theorem: no hypothesis on the numbers. -/
theorem run_struct {m : Model α} {b : BoundsMap α} {d : List (DomVar α)} {lm : LinModel α}
    (h : linearizeWith m b d = .ok lm) :
    ∃ (obj : Ctx α) (s : St α), Rel (SrcName m) (fun _ => true) (initSt m b d) s ∧
      StOK (SrcName m) (fun _ => true) s ∧ lm = assemble m obj s := by
  obtain ⟨obj, s, hr, hok, _, hlm⟩ :=
    linearizeWith_run (N := SrcName m) (Or.inl rfl) closed_true simpOK_true (bTrack_off _) (allLits_true _)
      ⟨stOK_init_true m b d, bOK_off _ _⟩ h
  exact ⟨obj, s, hr, hok.1, hlm⟩

/-! ### facets of the assembled model -/

def usedNames (s : St α) : List String := (s.domain.filter (fun d => d.usage > 0)).map (·.name)

theorem assemble_vars (m : Model α) (obj : Ctx α) (s : St α) :
    (assemble m obj s).vars = sortStr (usedNames s) := rfl

theorem usedNames_sublist (s : St α) : (usedNames s).Sublist (domNames s) :=
  (List.filter_sublist).map _

theorem vars_sorted_of_nodup {m : Model α} {obj : Ctx α} {s : St α} (h : (domNames s).Nodup) :
    WF.sortedStrict (assemble m obj s).vars = true :=
  sortStr_sortedStrict (h.sublist (usedNames_sublist s))

theorem vars_eq_keys_of_nodup {m : Model α} {obj : Ctx α} {s : St α} (h : (domNames s).Nodup) :
    let lm := assemble m obj s
    (lm.vars.all (fun v => lm.domain.any (·.name == v)) &&
      lm.domain.all (fun d => lm.vars.contains d.name) && WF.noDup (lm.domain.map (·.name))) = true := by
  intro lm
  simp only [Bool.and_eq_true, List.all_eq_true, List.any_eq_true, beq_iff_eq]
  refine ⟨⟨?_, ?_⟩, ?_⟩
  · intro v hv
    have hv' : v ∈ usedNames s := mem_sortStr.mp hv
    obtain ⟨dv, hdv, rfl⟩ := List.mem_map.mp hv'
    have hdv' := List.mem_filter.mp hdv
    refine ⟨dv, ?_, rfl⟩
    show dv ∈ s.domain.filter _
    refine List.mem_filter.mpr ⟨hdv'.1, ?_⟩
    have : (sortStr (usedNames s)).contains dv.name = true := by
      rw [List.contains_iff_mem]; exact hv
    exact this
  · intro dv hdv
    exact (List.mem_filter.mp hdv).2
  · rw [noDup_iff]
    exact h.sublist ((List.filter_sublist).map _)

theorem row_lengths_assemble (m : Model α) (obj : Ctx α) (s : St α) :
    let lm := assemble m obj s
    (lm.rows.all fun r => r.coeffs.length == lm.vars.length) = true := by
  intro lm
  simp only [List.all_eq_true, beq_iff_eq]
  intro r hr
  obtain ⟨r', _, rfl⟩ := List.mem_map.mp hr
  exact length_extractCoeffs _ _

theorem objective_length_assemble (m : Model α) (obj : Ctx α) (s : St α) :
    let lm := assemble m obj s
    (lm.objective.length == lm.vars.length) = true := by
  intro lm
  simp only [beq_iff_eq]
  exact length_extractCoeffs _ _

/-- the non-empty names of the output rows are those of the de-duplicated mid rows. -/
theorem assemble_names (m : Model α) (obj : Ctx α) (s : St α) :
    ((assemble m obj s).rows.filterMap fun r => if r.name.isEmpty then none else some r.name) =
      nonEmptyNames (dedupNames s.rows) := by
  simp only [assemble, nonEmptyNames, List.filterMap_map]
  rfl

theorem names_unique_assemble (m : Model α) (obj : Ctx α) (s : St α) :
    WF.noDup ((assemble m obj s).rows.filterMap fun r => if r.name.isEmpty then none else some r.name) = true := by
  rw [assemble_names, noDup_iff]
  exact dedupNames_nodup _

/-! ### hypotheses on the input that the front end guarantees (decidable) -/

/-- the (tightened) domain handed to the linearizer has pairwise distinct names (it is an `IndexMap`). -/
def DomainNodup (d : List (DomVar α)) : Bool := WF.noDup (d.map (·.name))

/-- bound tightening keeps every used source variable, with its usage mark. -/
def UsedKept (m : Model α) (d : List (DomVar α)) : Bool :=
  (m.domain.filter (·.usage > 0)).all fun v => d.any fun v' => v'.name == v.name && decide (v'.usage > 0)

/-- bound tightening introduces no variable: every name of the domain is declared in the source. -/
def DeclaredIn (m : Model α) (d : List (DomVar α)) : Bool :=
  d.all fun v => (m.domain.map (·.name)).contains v.name

theorem domNames_init (m : Model α) (b : BoundsMap α) (d : List (DomVar α)) :
    domNames (initSt m b d) = d.map (·.name) := rfl

theorem source_vars_present_of_rel {N : String → Prop} {p : α → Bool} {m : Model α} {b : BoundsMap α}
    {d : List (DomVar α)} {obj : Ctx α} {s : St α} (hr : Rel N p (initSt m b d) s) (hk : UsedKept m d = true) :
    ((m.domain.filter (·.usage > 0)).map (·.name)).all (assemble m obj s).vars.contains = true := by
  simp only [List.all_eq_true, List.contains_iff_mem]
  intro n hn
  obtain ⟨v, hv, rfl⟩ := List.mem_map.mp hn
  simp only [UsedKept, List.all_eq_true, List.any_eq_true, Bool.and_eq_true, beq_iff_eq,
    decide_eq_true_eq] at hk
  obtain ⟨v', hv', hname, huse⟩ := hk v hv
  obtain ⟨added, hdom, _⟩ := hr.grow
  rw [assemble_vars, mem_sortStr, ← hname]
  refine List.mem_map.mpr ⟨v', List.mem_filter.mpr ⟨?_, by simpa using huse⟩, rfl⟩
  rw [hdom]
  exact List.mem_append_left _ hv'

theorem aux_disjoint_of_rel {N : String → Prop} {p : α → Bool} {m : Model α} {b : BoundsMap α}
    {d : List (DomVar α)} {obj : Ctx α} {s : St α} (hr : Rel N p (initSt m b d) s) (hd : DeclaredIn m d = true) :
    ((assemble m obj s).vars.all fun v => (m.domain.map (·.name)).contains v || WF.isAuxName v) = true := by
  simp only [List.all_eq_true, Bool.or_eq_true]
  intro n hn
  rw [assemble_vars, mem_sortStr] at hn
  obtain ⟨v, hv, rfl⟩ := List.mem_map.mp hn
  obtain ⟨added, hdom, hadd⟩ := hr.grow
  have hv' := (List.mem_filter.mp hv).1
  rw [hdom] at hv'
  rcases List.mem_append.mp hv' with h | h
  · left
    simp only [DeclaredIn, List.all_eq_true] at hd
    exact hd v h
  · right
    exact (hadd v h).2

theorem forall₂_exists_left {A B : Type} {R : A → B → Prop} {l₁ : List A} {l₂ : List B}
    (h : List.Forall₂ R l₁ l₂) {b : B} (hb : b ∈ l₂) : ∃ a ∈ l₁, R a b := by
  induction h with
  | nil => cases hb
  | cons hab _ ih =>
    rcases List.mem_cons.mp hb with rfl | hb
    · exact ⟨_, by simp, hab⟩
    · obtain ⟨a, ha, hr⟩ := ih hb
      exact ⟨a, by simp [ha], hr⟩

theorem startsWith_cand (n : String) (k : Nat) : (cand n k).startsWith (n ++ "__") = true := by
  unfold cand
  rw [String.startsWith_string_iff]
  simp only [String.toList_append]
  exact List.prefix_append _ _

theorem user_names_kept_of_ok {p : α → Bool} {m : Model α} {obj : Ctx α} {s : St α}
    (hok : StOK (SrcName m) p s) :
    (((assemble m obj s).rows.filterMap fun r => if r.name.isEmpty then none else some r.name).all fun nm =>
      (m.constraints.filterMap fun c => if c.name.isEmpty then none else some c.name).any fun sn =>
        nm == sn || nm.startsWith (sn ++ "__")) = true := by
  rw [assemble_names]
  simp only [List.all_eq_true, List.any_eq_true, Bool.or_eq_true, beq_iff_eq]
  intro nm hnm
  obtain ⟨hne, o, ho, rfl⟩ := mem_nonEmptyNames.mp hnm
  obtain ⟨r, hr, _, _, _, hname⟩ := forall₂_exists_left (dedupNames_rel s.rows) ho
  have hN : SrcName m r.name := (hok.2 r hr).1
  have hsrc : ∀ {x : String}, x ≠ "" → SrcName m x →
      x ∈ m.constraints.filterMap fun c => if c.name.isEmpty then none else some c.name := by
    intro x hx hs
    rcases hs with h | h
    · exact absurd h hx
    · obtain ⟨c, hc, rfl⟩ := List.mem_map.mp h
      refine List.mem_filterMap.mpr ⟨c, hc, ?_⟩
      have : c.name.isEmpty = false := by rw [Bool.eq_false_iff, Ne, String.isEmpty_iff]; exact hx
      simp [this]
  rcases hname with h | ⟨hrne, _, k, hk⟩
  · exact ⟨r.name, hsrc (h ▸ hne) hN, Or.inl h⟩
  · exact ⟨r.name, hsrc hrne hN, Or.inr (hk ▸ startsWith_cand r.name k)⟩

/-! ### finiteness -/

/-- no non-finite literal in the source (objective and both sides of every constraint). -/
def FiniteLits (m : Model α) : Bool :=
  allLits Arith.isFinite m.objective &&
    m.constraints.all fun c => allLits Arith.isFinite c.lhs && allLits Arith.isFinite c.rhs

theorem mem_extractCoeffs {p : α → Bool} (h0 : p Arith.zero = true) (e : List (String × α)) (vars : List String)
    (he : ∀ q ∈ e, p q.2 = true) : ∀ x ∈ extractCoeffs e vars, p x = true := by
  unfold extractCoeffs
  have key : ∀ (f : List α → String × α → List α),
      (∀ vec q, (∀ x ∈ vec, p x = true) → p q.2 = true → ∀ x ∈ f vec q, p x = true) →
      ∀ (e : List (String × α)) (init : List α), (∀ q ∈ e, p q.2 = true) → (∀ x ∈ init, p x = true) →
      ∀ x ∈ e.foldl f init, p x = true := by
    intro f hf e
    induction e with
    | nil => intro init _ hi; simpa using hi
    | cons q qs ih =>
      intro init hq hi
      simp only [List.foldl_cons]
      exact ih _ (fun q' hq' => hq q' (by simp [hq'])) (hf _ _ hi (hq q (by simp)))
  refine key _ ?_ e _ he ?_
  · intro vec q hv hq
    obtain ⟨n, v⟩ := q
    dsimp only
    split
    · intro x hx
      rcases List.mem_or_eq_of_mem_set hx with h | h
      · exact hv x h
      · rw [h]; exact hq
    · exact hv
  · intro y hy
    rw [List.eq_of_mem_replicate hy]; exact h0

theorem finite_of_ok {p : α → Bool} (hp : Closed p) {N : String → Prop} {m : Model α} {obj : Ctx α} {s : St α}
    (hok : StOK N p s) (hobj : CtxOK p obj) :
    let lm := assemble m obj s
    (lm.rows.all (fun r => r.coeffs.all p && p r.rhs) && lm.objective.all p && p lm.offset) = true := by
  intro lm
  simp only [Bool.and_eq_true, List.all_eq_true]
  refine ⟨⟨?_, ?_⟩, hobj.2⟩
  · intro r hr
    obtain ⟨o, ho, rfl⟩ := List.mem_map.mp hr
    obtain ⟨r0, hr0, hl, hrhs, _, _⟩ := forall₂_exists_left (dedupNames_rel s.rows) ho
    have hrow := hok.2 r0 hr0
    refine ⟨?_, by rw [hrhs]; exact hrow.2.2⟩
    intro x hx
    exact mem_extractCoeffs (hp.ofInt 0) _ _ (by rw [hl]; exact hrow.2.1) x hx
  · intro x hx
    exact mem_extractCoeffs (hp.ofInt 0) _ _ hobj.1 x hx

theorem stOK_init_of_finiteLits {m : Model α} (b : BoundsMap α) (d : List (DomVar α)) (h : FiniteLits m = true) :
    StOK (fun _ => True) (fun a : α => Arith.isFinite a) (initSt m b d) := by
  simp only [FiniteLits, Bool.and_eq_true, List.all_eq_true] at h
  refine ⟨?_, by simp [initSt]⟩
  intro c hc
  exact ⟨trivial, (h.2 c hc).1, (h.2 c hc).2⟩

/-! ### the missing-bounds error, globally -/

/-- every `MissingFiniteBounds vs` that leaves `linearizeWith` — raised by an `abs`, `min` or `max` at any
depth, in the objective, a source constraint or a generated one — carries `varsWithoutFiniteBounds e bm` for
the expression `e` being lowered and the bounds map `bm` of that moment, and `bm` agrees with the input
bounds map on every variable of the input domain. -/
theorem missing_bounds_global {m : Model α} {b : BoundsMap α} {d : List (DomVar α)} {vs : List String}
    (h : linearizeWith m b d = .error (.missingFiniteBounds vs)) :
    ∃ (e : Exp α) (bm : BoundsMap α), vs = varsWithoutFiniteBounds e bm ∧
      ∀ x ∈ d.map (·.name), lookupB bm x = lookupB b x := by
  obtain ⟨s', hr, herr⟩ :=
    linearizeWith_error (N := fun _ => True) trivial closed_true simpOK_true (bTrack_off _) (allLits_true _)
      (p := fun _ => true) ⟨⟨fun c _ => ⟨trivial, allLits_true _, allLits_true _⟩, by simp [initSt]⟩, bOK_off _ _⟩ h
  obtain ⟨e, he⟩ := herr
  exact ⟨e, s'.bounds, he, fun x hx => hr.bnd x hx⟩

end Lin
end Rooc
