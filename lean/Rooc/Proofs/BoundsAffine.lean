/-
C07 helper layer 4: `AffineForm` denotes the expression it was read from (with zero-coefficient removal),
and `tighten_affine_form` keeps every point satisfying the row inside the box.
-/
import Rooc.Proofs.BoundsTighten
set_option linter.unusedTactic false
set_option linter.unreachableTactic false
set_option linter.unnecessarySeqFocus false
set_option linter.unusedSimpArgs false
set_option linter.unusedVariables false
set_option linter.unusedSectionVars false
namespace Rooc
namespace BoundsProofs
open BoundsSem Arith Sem

variable {K : Type} [Field K] [LinearOrder K] [IsStrictOrderedRing K] [FloorRing K]

def coefVal : Ext K → K
  | .fin k => k
  | _ => 0
def AllFin (l : List (String × Ext K)) : Prop := ∀ p ∈ l, ∃ k : K, p.2 = .fin k
def sumC (ρ : String → K) (l : List (String × Ext K)) : K := (l.map fun p => coefVal p.2 * ρ p.1).sum
def coefAt (l : List (String × Ext K)) (k : String) : K := coefVal ((AList.get? l k).getD (.fin 0))

/-- the form is finite and denotes `v` at `ρ`. -/
def FormDen (ρ : String → K) (f : AffineForm (Ext K)) (v : K) : Prop :=
  AllFin f.coefficients ∧ ∃ k : K, f.constant = .fin k ∧ v = k + sumC ρ f.coefficients

@[simp] theorem sumC_nil (ρ : String → K) : sumC ρ [] = 0 := rfl
@[simp] theorem sumC_cons (ρ : String → K) (n : String) (c : Ext K) (l : List (String × Ext K)) :
    sumC ρ ((n, c) :: l) = coefVal c * ρ n + sumC ρ l := by simp [sumC]
theorem allFin_nil : AllFin ([] : List (String × Ext K)) := by intro p hp; cases hp
theorem allFin_cons {n : String} {c : Ext K} {l : List (String × Ext K)} :
    AllFin ((n, c) :: l) ↔ (∃ k : K, c = .fin k) ∧ AllFin l := by
  simp [AllFin]

theorem getD_fin {l : List (String × Ext K)} (h : AllFin l) (k : String) :
    (AList.get? l k).getD (.fin 0 : Ext K) = .fin (coefAt l k) := by
  induction l with
  | nil => simp [AList.get?, coefAt, coefVal]
  | cons p l ih =>
    obtain ⟨n, c⟩ := p
    obtain ⟨⟨c', rfl⟩, hl⟩ := allFin_cons.1 h
    by_cases hn : n = k
    · subst hn; simp [AList.get?, coefAt, coefVal]
    · have := ih hl
      simp only [AList.get?, coefAt, beq_iff_eq, hn, if_false] at this ⊢
      exact this

theorem insert_den {ρ : String → K} {l : List (String × Ext K)} (h : AllFin l) (k : String) (v : K) :
    AllFin (AList.insert l k (.fin v)) ∧
      sumC ρ (AList.insert l k (.fin v)) = sumC ρ l - coefAt l k * ρ k + v * ρ k := by
  induction l with
  | nil => simp [AList.insert, AList.get?, coefAt, coefVal, allFin_cons, allFin_nil]
  | cons p l ih =>
    obtain ⟨n, c⟩ := p
    obtain ⟨⟨c', rfl⟩, hl⟩ := allFin_cons.1 h
    by_cases hn : n = k
    · subst hn
      simp only [AList.insert, beq_self_eq_true, if_true, allFin_cons, sumC_cons, coefAt, AList.get?, Option.getD_some, coefVal]
      exact ⟨⟨⟨v, rfl⟩, hl⟩, by ring⟩
    · obtain ⟨h1, h2⟩ := ih hl
      simp only [AList.insert, beq_iff_eq, hn, if_false, allFin_cons, sumC_cons, coefAt, AList.get?] at h1 h2 ⊢
      refine ⟨⟨⟨c', rfl⟩, h1⟩, ?_⟩
      rw [h2]; ring

theorem remove_den {ρ : String → K} {l : List (String × Ext K)} (h : AllFin l) (k : String) :
    AllFin (AList.remove l k) ∧ sumC ρ (AList.remove l k) = sumC ρ l - coefAt l k * ρ k := by
  induction l with
  | nil => simp [AList.remove, AList.get?, coefAt, coefVal, allFin_nil]
  | cons p l ih =>
    obtain ⟨n, c⟩ := p
    obtain ⟨⟨c', rfl⟩, hl⟩ := allFin_cons.1 h
    by_cases hn : n = k
    · subst hn
      simp only [AList.remove, beq_self_eq_true, if_true, sumC_cons, coefAt, AList.get?, Option.getD_some, coefVal]
      exact ⟨hl, by ring⟩
    · obtain ⟨h1, h2⟩ := ih hl
      simp only [AList.remove, beq_iff_eq, hn, if_false, allFin_cons, sumC_cons, coefAt, AList.get?] at h1 h2 ⊢
      refine ⟨⟨⟨c', rfl⟩, h1⟩, ?_⟩
      rw [h2]; ring

theorem mergeCoeffs_den {ρ : String → K} (m : K) : ∀ (other self : List (String × Ext K)),
    AllFin self → AllFin other →
    AllFin (AffineForm.mergeCoeffs self other (.fin m)) ∧
      sumC ρ (AffineForm.mergeCoeffs self other (.fin m)) = sumC ρ self + m * sumC ρ other
  | [], self, hs, _ => by simp [AffineForm.mergeCoeffs, hs]
  | (n, c) :: rest, self, hs, ho => by
    obtain ⟨⟨c', rfl⟩, hr⟩ := allFin_cons.1 ho
    by_cases hz : coefAt self n + c' * m = 0
    · obtain ⟨h1, h2⟩ := remove_den (ρ := ρ) hs n
      obtain ⟨h3, h4⟩ := mergeCoeffs_den (ρ := ρ) m rest _ h1 hr
      simp only [AffineForm.mergeCoeffs, a_zero, getD_fin hs, a_add, a_mul, Ext.mul, Ext.add, ef_mul, ef_add, a_eq, a_zero, Ext.eq, ef_eq,
        hz, decide_true, if_true]
      refine ⟨h3, ?_⟩
      rw [h4, h2, sumC_cons, coefVal]
      have : coefAt self n = -(c' * m) := by linarith
      rw [this]; ring
    · obtain ⟨h1, h2⟩ := insert_den (ρ := ρ) hs n (coefAt self n + c' * m)
      obtain ⟨h3, h4⟩ := mergeCoeffs_den (ρ := ρ) m rest _ h1 hr
      simp only [AffineForm.mergeCoeffs, a_zero, getD_fin hs, a_add, a_mul, Ext.mul, Ext.add, ef_mul, ef_add, a_eq, a_zero, Ext.eq, ef_eq,
        hz, decide_false, Bool.false_eq_true, if_false]
      refine ⟨h3, ?_⟩
      rw [h4, h2, sumC_cons, coefVal]; ring

theorem scaleCoeffs_den {ρ : String → K} (c : K) : ∀ (l : List (String × Ext K)), AllFin l →
    AllFin (AffineForm.scaleCoeffs l (.fin c)) ∧ sumC ρ (AffineForm.scaleCoeffs l (.fin c)) = c * sumC ρ l
  | [], _ => by simp [AffineForm.scaleCoeffs, allFin_nil]
  | (n, v) :: rest, h => by
    obtain ⟨⟨v', rfl⟩, hr⟩ := allFin_cons.1 h
    obtain ⟨h1, h2⟩ := scaleCoeffs_den c rest hr
    simp only [AffineForm.scaleCoeffs, a_mul, Ext.mul, ef_mul, a_ne, a_zero, Ext.eq, ef_eq]
    by_cases hz : v' * c = 0
    · simp only [hz, decide_true, Bool.not_true, Bool.false_eq_true, if_false]
      refine ⟨h1, ?_⟩
      rw [h2, sumC_cons, coefVal]
      have : c * (v' * ρ n) = (v' * c) * ρ n := by ring
      rw [mul_add, this, hz]; ring
    · simp only [hz, decide_false, Bool.not_false, if_true, allFin_cons, sumC_cons, coefVal]
      exact ⟨⟨⟨_, rfl⟩, h1⟩, by rw [h2]; ring⟩

theorem merge_den {ρ : String → K} {f g : AffineForm (Ext K)} {x y : K} (m : K)
    (hf : FormDen ρ f x) (hg : FormDen ρ g y) : FormDen ρ (f.merge g (.fin m)) (x + m * y) := by
  obtain ⟨hf1, kf, hf2, rfl⟩ := hf
  obtain ⟨hg1, kg, hg2, rfl⟩ := hg
  obtain ⟨h1, h2⟩ := mergeCoeffs_den (ρ := ρ) m g.coefficients f.coefficients hf1 hg1
  refine ⟨h1, kf + kg * m, ?_, ?_⟩
  · simp [AffineForm.merge, hf2, hg2, Ext.mul, Ext.add]
  · simp only [AffineForm.merge]; rw [h2]; ring

theorem scale_den {ρ : String → K} {f : AffineForm (Ext K)} {x : K} (c : K)
    (hf : FormDen ρ f x) : FormDen ρ (f.scale (.fin c)) (c * x) := by
  obtain ⟨hf1, kf, hf2, rfl⟩ := hf
  obtain ⟨h1, h2⟩ := scaleCoeffs_den (ρ := ρ) c f.coefficients hf1
  refine ⟨h1, kf * c, ?_, ?_⟩
  · simp [AffineForm.scale, hf2, Ext.mul]
  · simp only [AffineForm.scale]; rw [h2]; ring

/-- an affine form read from `e` denotes the value of `e`. -/
theorem fromExp_den (ρ : String → K) : ∀ (e : Exp (Ext K)) (f : AffineForm (Ext K)) (v : K),
    AffineForm.fromExp e = some f → eval ρ e = some v → FormDen ρ f v := by
  intro e
  induction e using expInd with
  | num x =>
    intro f v hf hv
    have := eval_num_some hv; subst this
    simp [AffineForm.fromExp] at hf; subst hf
    exact ⟨allFin_nil, v, rfl, by simp⟩
  | var s =>
    intro f v hf hv
    simp [eval] at hv; subst hv
    simp [AffineForm.fromExp] at hf; subst hf
    refine ⟨by simp [allFin_cons, allFin_nil], 0, by simp, by simp [coefVal]⟩
  | bin op a b iha ihb =>
    intro f v hf hv
    simp only [eval, Option.bind_eq_bind, Option.bind_eq_some_iff] at hv
    obtain ⟨x, hx, y, hy, hv⟩ := hv
    cases op
    · simp [binVal] at hv; subst hv
      simp only [AffineForm.fromExp] at hf
      cases hfa : AffineForm.fromExp a with
      | none => simp [hfa] at hf
      | some fa =>
        cases hfb : AffineForm.fromExp b with
        | none => simp [hfa, hfb] at hf
        | some fb =>
          simp [hfa, hfb] at hf; subst hf
          have := merge_den 1 (iha fa x hfa hx) (ihb fb y hfb hy)
          simpa using this
    · simp [binVal] at hv; subst hv
      simp only [AffineForm.fromExp] at hf
      cases hfa : AffineForm.fromExp a with
      | none => simp [hfa] at hf
      | some fa =>
        cases hfb : AffineForm.fromExp b with
        | none => simp [hfa, hfb] at hf
        | some fb =>
          simp [hfa, hfb] at hf; subst hf
          have := merge_den (-1) (iha fa x hfa hx) (ihb fb y hfb hy)
          simpa [Ext.neg, sub_eq_add_neg] using this
    · simp [binVal] at hv; subst hv
      simp only [AffineForm.fromExp] at hf
      cases ha : a.asNum with
      | some c =>
        have := asNum_eq ha; subst this; have := eval_num_some hx; subst this
        simp only [ha, Option.map_eq_some_iff] at hf
        obtain ⟨fb, hfb, rfl⟩ := hf
        exact scale_den x (ihb fb y hfb hy)
      | none =>
        simp only [ha] at hf
        cases hb : b.asNum with
        | some c =>
          have := asNum_eq hb; subst this; have := eval_num_some hy; subst this
          simp only [hb, Option.map_eq_some_iff] at hf
          obtain ⟨fa, hfa, rfl⟩ := hf
          rw [mul_comm]; exact scale_den y (iha fa x hfa hx)
        | none => simp [hb] at hf
    · simp only [binVal, Sem.kzero, ef_eq, ef_ofInt, Int.cast_zero, decide_eq_true_eq, ef_div] at hv
      split at hv
      · cases hv
      · cases hv
        rename_i hy0
        simp only [AffineForm.fromExp] at hf
        cases hb : b.asNum with
        | some c =>
          have := asNum_eq hb; subst this; have := eval_num_some hy; subst this
          have hd : Ext.div (.fin 1) (.fin y) = (.fin (1 / y) : Ext K) := by simp [Ext.div, hy0]
          simp only [hb, a_eq, a_zero, Ext.eq, ef_eq, hy0, decide_false, Bool.false_eq_true, if_false, a_div, a_one, hd,
            Option.map_eq_some_iff] at hf
          obtain ⟨fa, hfa, rfl⟩ := hf
          have h := scale_den (1 / y) (iha fa x hfa hx)
          have e : 1 / y * x = x / y := by field_simp
          rwa [e] at h
        | none => simp [hb] at hf
    all_goals simp [AffineForm.fromExp] at hf
  | un op e ih =>
    intro f v hf hv
    cases op
    · simp only [eval, Option.map_eq_some_iff] at hv
      obtain ⟨w, hw, rfl⟩ := hv
      simp only [AffineForm.fromExp, Option.map_eq_some_iff] at hf
      obtain ⟨fe, hfe, rfl⟩ := hf
      have := scale_den (-1) (ih fe w hfe hw)
      simpa [Ext.neg] using this
    · simp [AffineForm.fromExp] at hf
  | abs e _ => intro f v hf; simp [AffineForm.fromExp] at hf
  | min es _ => intro f v hf; simp [AffineForm.fromExp] at hf
  | max es _ => intro f v hf; simp [AffineForm.fromExp] at hf
  | and es _ => intro f v hf; simp [AffineForm.fromExp] at hf
  | or es _ => intro f v hf; simp [AffineForm.fromExp] at hf
  | not e _ => intro f v hf; simp [AffineForm.fromExp] at hf
  | xor a b _ _ => intro f v hf; simp [AffineForm.fromExp] at hf
  | implies a b _ _ => intro f v hf; simp [AffineForm.fromExp] at hf
  | iff a b _ _ => intro f v hf; simp [AffineForm.fromExp] at hf

end BoundsProofs
end Rooc
