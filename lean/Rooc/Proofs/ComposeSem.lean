/-
Adapter between the two readings of a linear model in the library:

* `Sem.linFeasible lm ρ` / `Sem.linObjective lm ρ` — by NAME, Bool-valued, every domain entry checked
  (C01, C02, C03, C08, C17: what the linearizer's output means);
* `StdSem.LinFeasible lm x` / `StdSem.obj lm x` — POSITIONAL, one value per entry of `lm.vars` (C13, and through it the
  simplex composition of C05).

On a well-formed continuous model (`StdSem.WF`) whose variable list has distinct names, whose domain declares exactly
those names once (`DomVars`) and whose `NonNegativeReal(lo, _)` ranges have `0 ≤ lo` (`NNOK` = `LinP.NNOK`, what the front end
enforces; the two `InDomain`s differ otherwise) the two readings coincide along `x = lm.vars.map ρ`.

Consequence (`simplex_linOptimal`): at exact arithmetic the built-in simplex SATISFIES the solver contract
`Compose.LinOptimal` that C03's composition assumes.
-/
import Rooc.Proofs.ComposeContract
import Rooc.Proofs.ComposeSimplex

set_option linter.unusedSectionVars false
set_option linter.unusedSimpArgs false
set_option linter.unusedVariables false

namespace Rooc.ComposeSem
open Rooc Rooc.Sem StdSem StdSplit
variable {K : Type} [Field K] [LinearOrder K] [IsStrictOrderedRing K] [FloorRing K]

/-- the assignment that gives the `i`-th name the `i`-th value (first occurrence wins; `0` elsewhere). -/
def pointOf : List String → List K → String → K
  | v :: vs, x :: xs, n => if v = n then x else pointOf vs xs n
  | _, _, _ => 0

theorem map_pointOf : ∀ (vars : List String) (x : List K), vars.Nodup → x.length = vars.length →
    vars.map (pointOf vars x) = x
  | [], [], _, _ => rfl
  | [], _ :: _, _, h => by simp at h
  | _ :: _, [], _, h => by simp at h
  | v :: vs, x :: xs, hnd, hl => by
    simp only [List.nodup_cons] at hnd
    have ih := map_pointOf vs xs hnd.2 (by simpa using hl)
    simp only [List.map_cons, pointOf, if_true]
    congr 1
    rw [← ih]
    apply List.map_congr_left
    intro w hw
    have : v ≠ w := fun e => hnd.1 (e ▸ hw)
    simp [pointOf, this, ih]

/-- the non-negativity of a `NonNegativeReal` range (what the text front end enforces; same predicate as `NNOK`,
restated here so that this file does not depend on the linearizer's proof chain). -/
def NNOK : VarType (Ext K) → Prop
  | .nnreal lo _ => Ext.le (.fin 0) lo = true
  | _ => True

/-- the domain declares exactly the listed variables, each once. -/
structure DomVars (lm : LinModel (Ext K)) : Prop where
  nodup : (lm.domain.map (·.name)).Nodup
  listed : ∀ d ∈ lm.domain, d.name ∈ lm.vars

/-! ### rows and objective -/

theorem dotK_eq_rowVal (ρ : String → K) : ∀ (cs : List (Ext K)) (vars : List String), (∀ c ∈ cs, isFin c) →
    cs.length ≤ vars.length → dotK ρ cs vars = some (rowVal cs (vars.map ρ))
  | [], vars, _, _ => by simp [dotK, kzero]
  | c :: cs, [], _, h => by simp at h
  | c :: cs, v :: vs, hf, hl => by
    obtain ⟨k, rfl⟩ := isFin_iff.1 (hf c (by simp))
    have ih := dotK_eq_rowVal ρ cs vs (fun c' hc' => hf c' (List.mem_cons_of_mem _ hc')) (by simpa using hl)
    simp [dotK, ih]

theorem cmpK_iff (c : Cmp) (a b : K) : cmpK c a b = true ↔ cmpHolds c a b := by
  cases c <;> simp [cmpK, cmpHolds]

theorem rowHolds_iff (lm : LinModel (Ext K)) (hW : WF lm) (ρ : String → K) {r : LinRow (Ext K)} (hr : r ∈ lm.rows) :
    rowHolds ρ lm.vars r = true ↔ cmpHolds r.cmp (rowVal r.coeffs (lm.vars.map ρ)) (toK r.rhs) := by
  obtain ⟨hfin, hrhs⟩ := hW.rowFin r hr
  obtain ⟨b, hb⟩ := isFin_iff.1 hrhs
  unfold rowHolds
  rw [dotK_eq_rowVal ρ r.coeffs lm.vars hfin (le_of_eq (hW.rowLen r hr)), hb]
  exact cmpK_iff _ _ _

theorem linObjective_eq (lm : LinModel (Ext K)) (hW : WF lm) (ρ : String → K) :
    linObjective lm ρ = some (obj lm (lm.vars.map ρ)) := by
  obtain ⟨o, ho⟩ := isFin_iff.1 hW.offFin
  unfold linObjective obj
  rw [dotK_eq_rowVal ρ lm.objective lm.vars hW.objFin (le_of_eq hW.objLen), ho]
  simp

/-! ### domains -/

theorem extLe_fin_left (lo : Ext K) (x : K) : Ext.le lo (.fin x) = geExt x lo := by
  cases lo <;> simp [Ext.le, geExt]
theorem extLe_fin_right (hi : Ext K) (x : K) : Ext.le (.fin x) hi = leExt x hi := by
  cases hi <;> simp [Ext.le, leExt]

/-- the two `InDomain`s agree on continuous types with `0 ≤ lo` for `NonNegativeReal(lo, _)`. -/
theorem inDomain_iff {ty : VarType (Ext K)} (hc : Standardize.isContinuous ty = true) (hnn : NNOK ty) (x : K) :
    inDomain x ty = true ↔ InDomain ty x := by
  cases ty with
  | bool => simp [Standardize.isContinuous] at hc
  | int a b => simp [Standardize.isContinuous] at hc
  | real lo hi => simp [inDomain, InDomain, extLe_fin_left, extLe_fin_right]
  | nnreal lo hi =>
    simp only [inDomain, InDomain, extLe_fin_left, extLe_fin_right, Bool.and_eq_true]
    constructor
    · rintro ⟨h1, h2⟩
      refine ⟨?_, h1, h2⟩
      -- `0 ≤ lo ≤ x`
      simp only [NNOK] at hnn
      cases lo with
      | nan => simp [geExt] at h1
      | ninf => simp [Ext.le] at hnn
      | pinf => simp [geExt] at h1
      | fin l =>
        have h0 : (0:K) ≤ l := by simpa [Ext.le] using hnn
        have hl : l ≤ x := by simpa [geExt] using h1
        exact le_trans h0 hl
    · rintro ⟨_, h1, h2⟩; exact ⟨h1, h2⟩

theorem lookup_spec {dom : List (DomVar (Ext K))} {v : String} {ty : VarType (Ext K)}
    (h : Standardize.lookup dom v = some ty) : ∃ d ∈ dom, d.name = v ∧ d.ty = ty := by
  unfold Standardize.lookup at h
  cases hf : dom.find? (·.name == v) with
  | none => simp [hf] at h
  | some d =>
    simp [hf] at h
    exact ⟨d, List.mem_of_find?_eq_some hf, by simpa using List.find?_some hf, h⟩

theorem lookup_of_mem_nodup : ∀ {dom : List (DomVar (Ext K))} {d : DomVar (Ext K)}, (dom.map (·.name)).Nodup →
    d ∈ dom → Standardize.lookup dom d.name = some d.ty
  | [], _, _, h => by simp at h
  | e :: es, d, hnd, h => by
    simp only [List.map_cons, List.nodup_cons] at hnd
    rcases List.mem_cons.1 h with rfl | h'
    · simp [Standardize.lookup]
    · have hne : (e.name == d.name) = false := by
        simp only [beq_eq_false_iff_ne, ne_eq]
        intro e'
        exact hnd.1 (e' ▸ List.mem_map.2 ⟨d, h', rfl⟩)
      have ih := lookup_of_mem_nodup hnd.2 h'
      simpa [Standardize.lookup, List.find?_cons, hne] using ih

/-! ### the adapter -/

/-- **by-name feasibility = positional feasibility** along `x = lm.vars.map ρ`. -/
theorem linFeasible_iff (lm : LinModel (Ext K)) (hW : WF lm) (hnn : ∀ d ∈ lm.domain, NNOK d.ty)
    (hdv : DomVars lm) (ρ : String → K) :
    linFeasible lm ρ = true ↔ LinFeasible lm (lm.vars.map ρ) := by
  simp only [linFeasible, Bool.and_eq_true, List.all_eq_true]
  constructor
  · rintro ⟨hrows, hdom⟩
    refine ⟨by simp, fun r hr => (rowHolds_iff lm hW ρ hr).mp (hrows r hr), ?_⟩
    intro i hi
    have hv : lm.vars.getD i "" ∈ lm.vars := by
      simp [List.getD_eq_getElem?_getD, hi]
    obtain ⟨ty, hty⟩ := hW.declared _ hv
    obtain ⟨d, hd, hname, rfl⟩ := lookup_spec hty
    refine ⟨d.ty, hty, ?_⟩
    have := hdom d hd
    rw [inDomain_iff (hW.continuous d hd) (hnn d hd)] at this
    simpa [List.getD_eq_getElem?_getD, hi, hname] using this
  · intro hF
    refine ⟨fun r hr => (rowHolds_iff lm hW ρ hr).mpr (hF.rows r hr), ?_⟩
    intro d hd
    obtain ⟨i, hi, hvi⟩ := List.mem_iff_getElem.1 (hdv.listed d hd)
    obtain ⟨ty, hty, hin⟩ := hF.dom i hi
    have hl := lookup_of_mem_nodup hdv.nodup hd
    have hg : lm.vars.getD i "" = d.name := by simp [List.getD_eq_getElem?_getD, hi, hvi]
    rw [hg, hl] at hty
    cases hty
    rw [inDomain_iff (hW.continuous d hd) (hnn d hd)]
    simpa [List.getD_eq_getElem?_getD, hi, hvi] using hin

/-- every positional point is `lm.vars.map ρ` for `ρ = pointOf lm.vars x` (distinct names). -/
theorem linFeasible_pointOf (lm : LinModel (Ext K)) (hW : WF lm) (hnn : ∀ d ∈ lm.domain, NNOK d.ty)
    (hdv : DomVars lm) (hnd : lm.vars.Nodup) {x : List K} (hx : LinFeasible lm x) :
    linFeasible lm (pointOf lm.vars x) = true ∧ linObjective lm (pointOf lm.vars x) = some (obj lm x) := by
  have hm := map_pointOf lm.vars x hnd hx.len
  constructor
  · rw [linFeasible_iff lm hW hnn hdv, hm]; exact hx
  · rw [linObjective_eq lm hW, hm]

/-! ### the built-in simplex honours the solver contract of C03 -/

section
open Tableau TabSem StdMain Standardize ComposeSimplex Compose
attribute [local instance] exactArith

/-- **at exact arithmetic the built-in simplex satisfies `Compose.LinOptimal`**: the by-name assignment of the mapped
back point is feasible for `lm` in the by-name reading, and no by-name feasible assignment has a strictly better
`linObjective` (offset included). -/
theorem simplex_linOptimal {lm : LinModel (Ext K)} (hW : WF lm) (hnn : ∀ d ∈ lm.domain, NNOK d.ty)
    (hdv : DomVars lm) (hnd : lm.vars.Nodup) {s : StdModel (Ext K)} (hs : standardize lm = .ok s)
    {T : Tab K} (hT : CanonicalFor T (stdK s)) (se limit : Nat) (prefer : List Nat)
    (hfin : (solve (0:K) se limit prefer T).result = .ok ()) :
    LinOptimal lm (pointOf lm.vars (preimage lm (basicSolution (solve (0:K) se limit prefer T).final))) ∧
    linObjective lm (pointOf lm.vars (preimage lm (basicSolution (solve (0:K) se limit prefer T).final))) =
      some (optimalValue (solve (0:K) se limit prefer T).final) := by
  obtain ⟨hfeas, hopt, hval⟩ := finished_optimal hW hs hT se limit prefer hfin
  obtain ⟨hf, ho⟩ := linFeasible_pointOf lm hW hnn hdv hnd hfeas
  refine ⟨⟨hf, ?_⟩, by rw [ho, hval]⟩
  intro ρ' hf' w w' hw hw'
  rw [ho] at hw; cases hw
  rw [linObjective_eq lm hW] at hw'; cases hw'
  obtain ⟨hmin, hmax⟩ := hopt _ ((linFeasible_iff lm hW hnn hdv ρ').mp hf')
  rcases hW.opt with h | h
  · rw [h, better_min]; simpa using hmin h
  · rw [h, better_max]; simpa using hmax h

/-- **… and its `Unbounded` verdict satisfies `Compose.LinUnbounded`.** -/
theorem simplex_linUnbounded {lm : LinModel (Ext K)} (hW : WF lm) (hnn : ∀ d ∈ lm.domain, NNOK d.ty)
    (hdv : DomVars lm) (hnd : lm.vars.Nodup) {s : StdModel (Ext K)} (hs : standardize lm = .ok s)
    {T : Tab K} (hT : CanonicalFor T (stdK s)) (se limit : Nat) (prefer : List Nat)
    (hunb : (solve (0:K) se limit prefer T).result = .error .unbounded) : LinUnbounded lm := by
  intro M
  obtain ⟨x, hx, hmin, hmax⟩ := unbounded_original hW hs hT se limit prefer hunb M
  obtain ⟨hf, ho⟩ := linFeasible_pointOf lm hW hnn hdv hnd hx
  refine ⟨_, hf, _, ho, ?_⟩
  rcases hW.opt with h | h
  · rw [h, better_min]; simpa using hmin h
  · rw [h, better_max]; simpa using hmax h

/-- **… and an infeasibility verdict (phase-1 optimum below zero) satisfies `Compose.LinInfeasible`.** -/
theorem simplex_linInfeasible {lm : LinModel (Ext K)} (hW : WF lm) (hnn : ∀ d ∈ lm.domain, NNOK d.ty)
    (hdv : DomVars lm) {s : StdModel (Ext K)} (hs : standardize lm = .ok s) (se limit : Nat) (prefer : List Nat)
    (hok : (solve (0:K) se limit prefer (phase1Tab (stdK s))).result = .ok ())
    (hneg : (solve (0:K) se limit prefer (phase1Tab (stdK s))).final.value < 0) : LinInfeasible lm := by
  intro ρ
  cases hf : linFeasible lm ρ with
  | false => rfl
  | true =>
    exact absurd ⟨_, (linFeasible_iff lm hW hnn hdv ρ).mp hf⟩
      (phase1_negative_infeasible hW hs se limit prefer hok hneg)

end

end Rooc.ComposeSem
