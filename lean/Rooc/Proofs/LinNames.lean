/-
The auxiliary names of the linearizer (`$abs_3`, `$abs_3_positive`, `$max_0_select_2`, `$logic_witness_7`, …)
never collide: the map (family, counter, suffix) ↦ name is injective, and every generated name starts with `$`.
This is what makes `declare_variable` never fail on a model whose own names do not start with `$`
(`Rooc/Proofs/LinFresh.lean`).
-/
import Rooc.Proofs.LinSpecMin
import Std.Data.String.ToNat

set_option linter.unusedSectionVars false
set_option linter.unusedSimpArgs false
set_option linter.unusedVariables false

namespace Rooc.LinP
open Rooc Rooc.Lin

/-- the families of auxiliary names, one per counter of the linearizer state. -/
inductive Fam | abs | min | max | and | or | xor | implies | iff | witness
  deriving DecidableEq, Repr

/-- the prefix up to and including the `_` in front of the counter. -/
def Fam.pre : Fam → String
  | .abs => "$abs_" | .min => "$min_" | .max => "$max_" | .and => "$and_" | .or => "$or_" | .xor => "$xor_"
  | .implies => "$implies_" | .iff => "$iff_" | .witness => "$logic_witness_"

/-- what may follow the counter. -/
inductive Suf | none | positive | select (j : Nat)
  deriving DecidableEq, Repr

def Suf.str : Suf → String
  | .none => "" | .positive => "_positive" | .select j => "_select_" ++ toString j

/-- the generated name. -/
def gen (F : Fam) (i : Nat) (suf : Suf) : String := F.pre ++ toString i ++ suf.str

/-! ### character-level facts -/

def isDig (c : Char) : Bool := c.isDigit

theorem digits_toList (n : Nat) : (toString n).toList = Nat.toDigits 10 n := by
  show (Nat.repr n).toList = _
  simp [Nat.repr]

theorem digits_all (n : Nat) : ∀ c ∈ (toString n).toList, isDig c = true := by
  intro c hc
  rw [digits_toList] at hc
  exact Nat.isDigit_of_mem_toDigits (by decide) (by decide) hc

theorem digits_ne_nil (n : Nat) : (toString n).toList ≠ [] := by
  rw [digits_toList]; exact Nat.toDigits_ne_nil

theorem digits_inj {m n : Nat} (h : (toString m).toList = (toString n).toList) : m = n :=
  Nat.repr_injective (String.toList_inj.mp h)

theorem pre_nondigit (F : Fam) : ∀ c ∈ F.pre.toList, isDig c = false := by
  cases F <;> decide

theorem pre_inj {F F' : Fam} (h : F.pre.toList = F'.pre.toList) : F = F' := by
  cases F <;> cases F' <;> first | rfl | (exact absurd h (by decide))

/-- a suffix is empty or starts with a non-digit. -/
theorem suf_head (suf : Suf) : suf.str.toList = [] ∨ ∃ c rest, suf.str.toList = c :: rest ∧ isDig c = false := by
  cases suf with
  | none => left; rfl
  | positive => right; exact ⟨'_', "positive".toList, rfl, rfl⟩
  | select j =>
    right
    refine ⟨'_', "select_".toList ++ (toString j).toList, ?_, rfl⟩
    simp only [Suf.str, String.toList_append]
    rfl

theorem suf_inj {a b : Suf} (h : a.str.toList = b.str.toList) : a = b := by
  cases a with
  | none =>
    cases b with
    | none => rfl
    | positive => exact absurd h (by decide)
    | select j => simp only [Suf.str, String.toList_append] at h; exact absurd h (by simp)
  | positive =>
    cases b with
    | none => exact absurd h (by decide)
    | positive => rfl
    | select j =>
      simp only [Suf.str, String.toList_append] at h
      have : ("_positive" : String).toList = '_' :: 'p' :: "ositive".toList := rfl
      have h2 : ("_select_" : String).toList = '_' :: 's' :: "elect_".toList := rfl
      rw [this, h2] at h
      simp at h
  | select i =>
    cases b with
    | none => simp only [Suf.str, String.toList_append] at h; exact absurd h (by simp)
    | positive =>
      simp only [Suf.str, String.toList_append] at h
      have : ("_positive" : String).toList = '_' :: 'p' :: "ositive".toList := rfl
      have h2 : ("_select_" : String).toList = '_' :: 's' :: "elect_".toList := rfl
      rw [this, h2] at h
      simp at h
    | select j =>
      simp only [Suf.str, String.toList_append] at h
      have := List.append_cancel_left h
      rw [digits_inj this]

/-- unique reading of `nondigits ++ digits ++ rest` when `rest` is empty or starts with a non-digit. -/
theorem split_unique {a a' d d' r r' : List Char}
    (ha : ∀ c ∈ a, isDig c = false) (ha' : ∀ c ∈ a', isDig c = false)
    (hd : ∀ c ∈ d, isDig c = true) (hd' : ∀ c ∈ d', isDig c = true) (hne : d ≠ []) (hne' : d' ≠ [])
    (hr : r = [] ∨ ∃ c rest, r = c :: rest ∧ isDig c = false)
    (hr' : r' = [] ∨ ∃ c rest, r' = c :: rest ∧ isDig c = false)
    (h : a ++ (d ++ r) = a' ++ (d' ++ r')) : a = a' ∧ d = d' ∧ r = r' := by
  have tw : ∀ {a d r : List Char}, (∀ c ∈ a, isDig c = false) → (∀ c ∈ d, isDig c = true) → d ≠ [] →
      List.takeWhile (fun c => !isDig c) (a ++ (d ++ r)) = a := by
    intro a d r ha hd hne
    rw [List.takeWhile_append_of_pos (by intro c hc; simp [ha c hc])]
    cases d with
    | nil => exact absurd rfl hne
    | cons x xs => simp [List.takeWhile, hd x (by simp)]
  have tw2 : ∀ {d r : List Char}, (∀ c ∈ d, isDig c = true) →
      (r = [] ∨ ∃ c rest, r = c :: rest ∧ isDig c = false) → List.takeWhile isDig (d ++ r) = d := by
    intro d r hd hr
    rw [List.takeWhile_append_of_pos hd]
    rcases hr with rfl | ⟨c, rest, rfl, hc⟩
    · simp
    · simp [List.takeWhile, hc]
  have e1 : a = a' := by
    have := congrArg (List.takeWhile (fun c => !isDig c)) h
    rwa [tw ha hd hne, tw ha' hd' hne'] at this
  subst e1
  have h2 := List.append_cancel_left h
  have e2 : d = d' := by
    have := congrArg (List.takeWhile isDig) h2
    rwa [tw2 hd hr, tw2 hd' hr'] at this
  subst e2
  exact ⟨rfl, rfl, List.append_cancel_left h2⟩

theorem gen_toList (F : Fam) (i : Nat) (suf : Suf) :
    (gen F i suf).toList = F.pre.toList ++ ((toString i).toList ++ suf.str.toList) := by
  simp [gen, String.toList_append, List.append_assoc]

/-- **the generated names are pairwise different.** -/
theorem gen_inj {F F' : Fam} {i i' : Nat} {suf suf' : Suf} (h : gen F i suf = gen F' i' suf') :
    F = F' ∧ i = i' ∧ suf = suf' := by
  have h' := congrArg String.toList h
  rw [gen_toList, gen_toList] at h'
  obtain ⟨e1, e2, e3⟩ := split_unique (pre_nondigit F) (pre_nondigit F') (digits_all i) (digits_all i')
    (digits_ne_nil i) (digits_ne_nil i') (suf_head suf) (suf_head suf') h'
  exact ⟨pre_inj e1, digits_inj e2, suf_inj e3⟩

/-- a name the user may write: it does not start with `$`. -/
def SrcName (x : String) : Prop := x.toList.head? ≠ some '$'

theorem gen_head (F : Fam) (i : Nat) (suf : Suf) : (gen F i suf).toList.head? = some '$' := by
  rw [gen_toList]
  cases F <;> rfl

theorem gen_not_src (F : Fam) (i : Nat) (suf : Suf) : ¬ SrcName (gen F i suf) := fun h => h (gen_head F i suf)

/-! ### the names the model writes are `gen` -/

theorem name_abs (id : Nat) : s!"$abs_{id}" = gen .abs id .none := by
  simp [gen, Fam.pre, Suf.str]; rfl
theorem name_abs_pos (id : Nat) : s!"$abs_{id}_positive" = gen .abs id .positive := rfl
theorem name_and (id : Nat) : s!"$and_{id}" = gen .and id .none := by simp [gen, Fam.pre, Suf.str]; rfl
theorem name_or (id : Nat) : s!"$or_{id}" = gen .or id .none := by simp [gen, Fam.pre, Suf.str]; rfl
theorem name_xor (id : Nat) : s!"$xor_{id}" = gen .xor id .none := by simp [gen, Fam.pre, Suf.str]; rfl
theorem name_implies (id : Nat) : s!"$implies_{id}" = gen .implies id .none := by simp [gen, Fam.pre, Suf.str]; rfl
theorem name_iff (id : Nat) : s!"$iff_{id}" = gen .iff id .none := by simp [gen, Fam.pre, Suf.str]; rfl
theorem name_witness (id : Nat) : s!"$logic_witness_{id}" = gen .witness id .none := by
  simp [gen, Fam.pre, Suf.str]; rfl

def famOf : ExtKind → Fam | .min => .min | .max => .max

theorem name_ext (kind : ExtKind) (id : Nat) : s!"${kind.name}_{id}" = gen (famOf kind) id .none := by
  cases kind <;> (simp [gen, Fam.pre, Suf.str, famOf, ExtKind.name]; rfl)

theorem name_sel (kind : ExtKind) (id j : Nat) :
    s!"${kind.name}_{id}_select_{j}" = gen (famOf kind) id (.select j) := by
  cases kind
  · show ("$" ++ "min" ++ "_" ++ toString id ++ "_select_" ++ toString j : String) =
      "$min_" ++ toString id ++ ("_select_" ++ toString j)
    apply String.toList_inj.mp
    simp only [String.toList_append, List.append_assoc]
    rfl
  · show ("$" ++ "max" ++ "_" ++ toString id ++ "_select_" ++ toString j : String) =
      "$max_" ++ toString id ++ ("_select_" ++ toString j)
    apply String.toList_inj.mp
    simp only [String.toList_append, List.append_assoc]
    rfl

end Rooc.LinP
