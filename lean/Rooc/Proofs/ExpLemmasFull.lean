/-
C10, full-strength statement after the repairs (rooc 9f62afd): outside the singleton-collapse region
`simplify` preserves the denotation at EVERY assignment, with no hypothesis on values.

`collapsesNonbinary e` is the domain-independent part of the harness predicate `collapses_nonbinary`
(harness/src/props/c01.rs): some and/or node of `e` (n-ary or `BinOp`-spelled) is rewritten by `simplify`
into something that is not a logic expression / literal — i.e. the node collapsed to a lone operand that
is not syntactically 0/1-valued (`x and 1 ↦ x`).
-/
import Rooc.Proofs.ExpLemmasDefined
import Rooc.Proofs.ExpLemmasStruct
import Rooc.Linearize
import Rooc.ExpShape
namespace Rooc
open Rooc.Exp Rooc.Sem
set_option linter.unusedSectionVars false

namespace Exp
variable {α : Type} [Arith α]

theorem collapsesAny_false_iff (B : String → Bool) (es : List (Exp α)) :
    collapsesAny B es = false ↔ ∀ e ∈ es, collapsesNonbinary B e = false := by
  induction es with
  | nil => simp [collapsesAny]
  | cons e es ih => simp [collapsesAny, ih]

/-- a lone survivor of the second loop is never a literal. -/
theorem naryStep_singleton_not_num {isAnd : Bool} {fl : List (Exp α)} {e : Exp α}
    (h : naryStep isAnd fl = some [e]) : isNum e = false := by
  by_cases hu : mayBeUndefinedAny fl = true
  · obtain ⟨x, hx, hxu⟩ := (mayBeUndefinedAny_iff fl).1 hu
    have hxn : isNum x = false := by
      rcases isNum_cases x with h' | ⟨v, rfl⟩
      · exact h'
      · rw [mayBeUndefined_num] at hxu; cases hxu
    obtain ⟨q, hq, _, hkeep⟩ := naryStep_some h
    have : x ∈ [e] := by rw [hq, List.mem_filter]; exact ⟨hx, hkeep x hxn⟩
    simp at this; subst this; exact hxn
  · unfold naryStep at h
    rw [if_neg hu] at h
    have := naryScan_some h
    have he : e ∈ fl.filter (fun x => !isNum x) := by rw [← this]; simp
    simpa using (List.mem_filter.1 he).2

end Exp

section
variable {K : Type} [Field K] [LinearOrder K] [IsStrictOrderedRing K] [FloorRing K]
variable {B : String → Bool}

/-- the assignment gives the variables marked Boolean a 0/1 value. -/
def BoolVars (B : String → Bool) (ρ : String → K) : Prop := ∀ x, B x = true → ρ x = 0 ∨ ρ x = 1

theorem ofBool_01 (b : Bool) : (ofBool b : K) = 0 ∨ (ofBool b : K) = 1 := by cases b <;> simp

/-- a defined logic-shaped non-literal has a 0/1 value. -/
theorem logicShaped_01 {ρ : String → K} (hB : BoolVars B ρ) {x : Exp (Ext K)} {w : K} (hs : logicShaped B x = true)
    (hn : isNum x = false) (hw : eval ρ x = some w) : w = 0 ∨ w = 1 := by
  cases x <;> simp [logicShaped, isNum] at hs hn
  case var x => simp [eval] at hw; subst hw; exact hB x hs
  case and es => rw [eval_and_iff] at hw; rw [hw.2]; exact ofBool_01 _
  case or es => rw [eval_or_iff] at hw; rw [hw.2]; exact ofBool_01 _
  case not e =>
    simp only [eval, Option.map_eq_some_iff] at hw
    obtain ⟨a, _, rfl⟩ := hw; exact ofBool_01 _
  case xor a b =>
    simp only [eval] at hw
    cases ha : eval ρ a <;> cases hb : eval ρ b <;> simp_all [binVal]
    rw [← hw]; exact ofBool_01 _
  case implies a b =>
    simp only [eval] at hw
    cases ha : eval ρ a <;> cases hb : eval ρ b <;> simp_all [binVal]
    rw [← hw]; exact ofBool_01 _
  case iff a b =>
    simp only [eval] at hw
    cases ha : eval ρ a <;> cases hb : eval ρ b <;> simp_all [binVal]
    rw [← hw]; exact ofBool_01 _

/-- the n-ary step without any hypothesis on the operands' values: the truth value survives, and the
value is 0/1 whenever the result has a logic shape. -/
theorem naryCore_truth0 {ρ : String → K} (hB : BoolVars B ρ) (isAnd : Bool) {cs : List (Exp (Ext K))}
    (hdef : ∀ c ∈ cs, Def ρ c) :
    ∃ w, eval ρ (naryCore isAnd cs) = some w ∧ truthy w = agg ρ isAnd cs ∧
      (logicShaped B (naryCore isAnd cs) = true → w = 0 ∨ w = 1) := by
  have hF : ∀ x ∈ naryFlatten isAnd cs, Def ρ x := by
    intro x hx
    rcases mem_naryFlatten.1 hx with ⟨h1, _⟩ | ⟨inner, h1, h2⟩
    · exact hdef x h1
    · exact ((eval_nary_iff isAnd).1 (eval_of_Def (hdef _ h1))).1 x h2
  have hagg := agg_flatten isAnd hdef
  have hres : ∀ res, naryStep isAnd (naryFlatten isAnd cs) = some res →
      agg ρ isAnd res = agg ρ isAnd cs ∧ ∀ x ∈ res, Def ρ x := by
    intro res hs
    obtain ⟨h1, h2⟩ := naryStep_agg hF hs
    exact ⟨by rw [h1, hagg], fun x hx => hF x (h2 x hx)⟩
  rcases naryCore_cases isAnd cs with ⟨h1, h2⟩ | ⟨h1, h2⟩ | ⟨e, h1, h2⟩ | ⟨res, h1, hl, h2⟩
  · rw [h2, ← hagg, naryStep_none_agg hF h1]
    cases isAnd
    · exact ⟨1, by simp [eval], (by simp [truthy_eq]), fun _ => Or.inr rfl⟩
    · exact ⟨0, by simp [eval], (by simp [truthy_eq]), fun _ => Or.inl rfl⟩
  · rw [h2, ← (hres _ h1).1, agg_nil]
    exact ⟨_, eval_logicNumber ρ isAnd, truthy_ofBool _, fun _ => ofBool_01 _⟩
  · obtain ⟨hag, hel⟩ := hres _ h1
    have hd := hel e (by simp)
    rw [h2]
    refine ⟨val ρ e, eval_of_Def hd, ?_, fun hs =>
      logicShaped_01 hB hs (naryStep_singleton_not_num h1) (eval_of_Def hd)⟩
    rw [← hag]
    cases isAnd <;> simp [agg, tv]
  · obtain ⟨hag, hel⟩ := hres _ h1
    rw [h2, ← hag]
    exact ⟨_, (eval_nary_iff isAnd).2 ⟨hel, rfl⟩, truthy_ofBool _, fun _ => ofBool_01 _⟩

/-- exact value of an and/or node whose simplification keeps a logic shape. -/
theorem nary_exact0 {ρ : String → K} (hB : BoolVars B ρ) (isAnd : Bool) {es : List (Exp (Ext K))}
    (ih : ∀ e ∈ es, ∀ v, eval ρ e = some v → eval ρ (simplify e) = some v)
    (hdef : ∀ e ∈ es, Def ρ e)
    (hs : logicShaped B (naryCore isAnd (es.map simplify)) = true) :
    eval ρ (naryCore isAnd (es.map simplify)) = some (ofBool (agg ρ isAnd es)) := by
  have key : ∀ e ∈ es, eval ρ (simplify e) = eval ρ e := fun e he => by
    rw [ih e he _ (eval_of_Def (hdef e he)), eval_of_Def (hdef e he)]
  obtain ⟨w, h1, h2, h3⟩ := naryCore_truth0 (ρ := ρ) hB isAnd (cs := es.map simplify) (by
    intro x hx; obtain ⟨e, he, rfl⟩ := List.mem_map.1 hx
    unfold Def; rw [key e he]; exact hdef e he)
  have hagg : agg ρ isAnd (es.map simplify) = agg ρ isAnd es :=
    agg_map_congr isAnd (fun e he => by unfold tv val; rw [key e he])
  rw [h1, ← hagg, ← h2, ofBool_truthy_of01 (h3 hs)]

/-- **Forward soundness outside the collapse region**: no hypothesis on the assignment. -/
theorem simplify_sound_nc (ρ : String → K) (hB : BoolVars B ρ) (e : Exp (Ext K)) :
    collapsesNonbinary B e = false → ∀ v, eval ρ e = some v → eval ρ (simplify e) = some v := by
  induction e using Exp.ind with
  | num x => intro _ v hv; rwa [simplify_num]
  | var s => intro _ v hv; rwa [simplify_var]
  | abs e ih =>
    intro h v hv
    simp only [collapsesNonbinary] at h
    simp only [eval, Option.map_eq_some_iff] at hv
    obtain ⟨a, ha, rfl⟩ := hv
    rw [simplify_abs]; exact eval_absCore (ih h a ha)
  | min es ih =>
    intro h v hv
    simp only [collapsesNonbinary, collapsesAny_false_iff] at h
    simp only [eval] at hv
    split at hv
    · rename_i x xs hx
      simp only [Option.some.injEq] at hv; subst hv
      have hne : es ≠ [] := by rintro rfl; simp [evalList] at hx
      rw [simplify_min, if_neg hne]
      exact eval_minCore (evalList_map_simplify (fun e he v hv => ih e he (h e he) v hv) hx)
    · cases hv
  | max es ih =>
    intro h v hv
    simp only [collapsesNonbinary, collapsesAny_false_iff] at h
    simp only [eval] at hv
    split at hv
    · rename_i x xs hx
      simp only [Option.some.injEq] at hv; subst hv
      have hne : es ≠ [] := by rintro rfl; simp [evalList] at hx
      rw [simplify_max, if_neg hne]
      exact eval_maxCore (evalList_map_simplify (fun e he v hv => ih e he (h e he) v hv) hx)
    · cases hv
  | and es ih =>
    intro h v hv
    simp only [collapsesNonbinary, Bool.or_eq_false_iff, Bool.not_eq_false',
      collapsesAny_false_iff] at h
    obtain ⟨hd, rfl⟩ := eval_and_iff.1 hv
    have := nary_exact0 hB true (fun e he => ih e he (h.2 e he)) hd (by rw [← simplify_and]; exact h.1)
    rw [simplify_and, this]; simp [agg]
  | or es ih =>
    intro h v hv
    simp only [collapsesNonbinary, Bool.or_eq_false_iff, Bool.not_eq_false',
      collapsesAny_false_iff] at h
    obtain ⟨hd, rfl⟩ := eval_or_iff.1 hv
    have := nary_exact0 hB false (fun e he => ih e he (h.2 e he)) hd (by rw [← simplify_or]; exact h.1)
    rw [simplify_or, this]; simp [agg]
  | not e ih =>
    intro h v hv
    simp only [collapsesNonbinary] at h
    simp only [eval, Option.map_eq_some_iff] at hv
    obtain ⟨a, ha, rfl⟩ := hv
    rw [simplify_not]; exact eval_notCore (ih h a ha)
  | xor a b iha ihb =>
    intro h v hv
    simp only [collapsesNonbinary, Bool.or_eq_false_iff] at h
    simp only [eval] at hv
    cases ha : eval ρ a <;> cases hb : eval ρ b <;> simp_all [binVal]
    subst hv; rw [simplify_xor]; exact eval_xorCore iha ihb
  | implies a b iha ihb =>
    intro h v hv
    simp only [collapsesNonbinary, Bool.or_eq_false_iff] at h
    simp only [eval] at hv
    cases ha : eval ρ a <;> cases hb : eval ρ b <;> simp_all [binVal]
    subst hv; rw [simplify_implies]; exact eval_impliesCore iha ihb
  | iff a b iha ihb =>
    intro h v hv
    simp only [collapsesNonbinary, Bool.or_eq_false_iff] at h
    simp only [eval] at hv
    cases ha : eval ρ a <;> cases hb : eval ρ b <;> simp_all [binVal]
    subst hv; rw [simplify_iff]; exact eval_iffCore iha ihb
  | bin op a b iha ihb =>
    intro h v hv
    simp only [collapsesNonbinary, Bool.or_eq_false_iff] at h
    obtain ⟨⟨hshape, hca⟩, hcb⟩ := h
    obtain ⟨x, y, hx, hy, hxy⟩ := eval_bin_some hv
    have h1 := iha hca x hx
    have h3 := ihb hcb y hy
    -- and / or: through the n-ary step on `[a, b]`
    have nary : ∀ isAnd : Bool, logicShaped B (naryCore isAnd ([a, b].map simplify)) = true →
        eval ρ (naryCore isAnd [simplify a, simplify b]) = some (ofBool (agg ρ isAnd [a, b])) := by
      intro isAnd hs
      have := nary_exact0 (ρ := ρ) hB isAnd (es := [a, b])
        (by intro e he; simp at he; rcases he with rfl | rfl
            · exact fun v hv => iha hca v hv
            · exact fun v hv => ihb hcb v hv)
        (by intro e he; simp at he; rcases he with rfl | rfl
            · exact Def_of_eval hx
            · exact Def_of_eval hy) hs
      simpa using this
    rw [simplify_bin]
    cases op with
    | add => simp only [binVal, Option.some.injEq] at hxy; subst hxy; exact eval_addCore h1 h3
    | sub => simp only [binVal, Option.some.injEq] at hxy; subst hxy; exact eval_subCore h1 h3
    | mul => simp only [binVal, Option.some.injEq] at hxy; subst hxy; exact eval_mulCore h1 h3
    | div =>
      simp only [binVal] at hxy
      split at hxy
      · cases hxy
      · rename_i hy0
        simp only [Option.some.injEq] at hxy; subst hxy
        exact eval_divCore h1 h3 (by simpa using hy0)
    | and =>
      simp only [binVal, Option.some.injEq] at hxy; subst hxy
      have hs : logicShaped B (naryCore true ([a, b].map simplify)) = true := by
        have := hshape; simp only [simplify_bin, binCore] at this; simpa using this
      rw [binCore, nary true hs]
      simp [agg, tv, val_of_eval hx, val_of_eval hy]
    | or =>
      simp only [binVal, Option.some.injEq] at hxy; subst hxy
      have hs : logicShaped B (naryCore false ([a, b].map simplify)) = true := by
        have := hshape; simp only [simplify_bin, binCore] at this; simpa using this
      rw [binCore, nary false hs]
      simp [agg, tv, val_of_eval hx, val_of_eval hy]
    | xor => simp only [binVal, Option.some.injEq] at hxy; subst hxy; exact eval_xorCore h1 h3
    | implies => simp only [binVal, Option.some.injEq] at hxy; subst hxy; exact eval_impliesCore h1 h3
    | iff => simp only [binVal, Option.some.injEq] at hxy; subst hxy; exact eval_iffCore h1 h3
  | un op e ih =>
    intro h v hv
    simp only [collapsesNonbinary] at h
    cases op with
    | neg =>
      simp only [eval, Option.map_eq_some_iff] at hv
      obtain ⟨a, ha, rfl⟩ := hv
      rw [simplify_neg]; exact eval_negCore (ih h a ha)
    | not =>
      simp only [eval, Option.map_eq_some_iff] at hv
      obtain ⟨a, ha, rfl⟩ := hv
      rw [simplify_unot]; exact eval_notCore (ih h a ha)

theorem noCollapse_children (e c : Exp (Ext K)) (hc : c ∈ Exp.children e)
    (h : collapsesNonbinary B e = false) : collapsesNonbinary B c = false := by
  cases e with
  | num _ => simp [Exp.children] at hc
  | var _ => simp [Exp.children] at hc
  | abs e => simp [Exp.children] at hc; subst hc; simpa [collapsesNonbinary] using h
  | not e => simp [Exp.children] at hc; subst hc; simpa [collapsesNonbinary] using h
  | un op e => simp [Exp.children] at hc; subst hc; simpa [collapsesNonbinary] using h
  | min es => simp only [collapsesNonbinary, collapsesAny_false_iff] at h; exact h c hc
  | max es => simp only [collapsesNonbinary, collapsesAny_false_iff] at h; exact h c hc
  | and es =>
    simp only [collapsesNonbinary, Bool.or_eq_false_iff, collapsesAny_false_iff] at h; exact h.2 c hc
  | or es =>
    simp only [collapsesNonbinary, Bool.or_eq_false_iff, collapsesAny_false_iff] at h; exact h.2 c hc
  | xor a b =>
    simp only [collapsesNonbinary, Bool.or_eq_false_iff] at h; simp [Exp.children] at hc
    rcases hc with rfl | rfl; exact h.1; exact h.2
  | implies a b =>
    simp only [collapsesNonbinary, Bool.or_eq_false_iff] at h; simp [Exp.children] at hc
    rcases hc with rfl | rfl; exact h.1; exact h.2
  | iff a b =>
    simp only [collapsesNonbinary, Bool.or_eq_false_iff] at h; simp [Exp.children] at hc
    rcases hc with rfl | rfl; exact h.1; exact h.2
  | bin op a b =>
    simp only [collapsesNonbinary, Bool.or_eq_false_iff] at h; simp [Exp.children] at hc
    rcases hc with rfl | rfl; exact h.1.2; exact h.2

/-- **The full-strength statement**: outside the collapse region and with finite literals, `simplify e`
has exactly the denotation of `e` at every assignment (defined iff defined, same value). -/
theorem simplify_eval_eq_nc (ρ : String → K) (hB : BoolVars B ρ) (e : Exp (Ext K))
    (hc : collapsesNonbinary B e = false) (hf : finiteLits e = true) :
    eval ρ (simplify e) = eval ρ e := by
  cases h : eval ρ e with
  | some v => exact simplify_sound_nc ρ hB e hc v h
  | none =>
    cases h' : eval ρ (simplify e) with
    | none => rfl
    | some w =>
      have := Def_of_Def_simplify_gen ρ (fun x => collapsesNonbinary B x = false) noCollapse_children
        (fun e v h hv => simplify_sound_nc ρ hB e h v hv) e hc hf (Def_of_eval h')
      unfold Def at this; rw [h] at this; cases this

/-! ### `flatten` and `normalize = simplify ∘ flatten ∘ simplify` -/

/-- if every and/or node is an n-ary normal form, nothing collapses. -/
theorem noCollapse_of_AONF (x : Exp (Ext K)) : AONF x → collapsesNonbinary B x = false := by
  induction x using Exp.ind with
  | num v => intro _; simp [collapsesNonbinary]
  | var s => intro _; simp [collapsesNonbinary]
  | abs e ih => intro h; simp only [AONF] at h; simpa [collapsesNonbinary] using ih h
  | min es ih =>
    intro h; simp only [AONF, AONFL_iff] at h
    simp only [collapsesNonbinary, collapsesAny_false_iff]; exact fun e he => ih e he (h e he)
  | max es ih =>
    intro h; simp only [AONF, AONFL_iff] at h
    simp only [collapsesNonbinary, collapsesAny_false_iff]; exact fun e he => ih e he (h e he)
  | and es ih =>
    intro h; simp only [AONF] at h
    have hch : ∀ e ∈ es, NF e := by
      have := h; simp only [NF, NFList_iff] at this; exact this.1
    simp only [collapsesNonbinary, simplify_of_NF _ h, logicShaped, Bool.not_true, Bool.false_or,
      collapsesAny_false_iff]
    exact fun e he => ih e he (AONF_of_NF e (hch e he))
  | or es ih =>
    intro h; simp only [AONF] at h
    have hch : ∀ e ∈ es, NF e := by
      have := h; simp only [NF, NFList_iff] at this; exact this.1
    simp only [collapsesNonbinary, simplify_of_NF _ h, logicShaped, Bool.not_true, Bool.false_or,
      collapsesAny_false_iff]
    exact fun e he => ih e he (AONF_of_NF e (hch e he))
  | not e ih => intro h; simp only [AONF] at h; simpa [collapsesNonbinary] using ih h
  | xor a b iha ihb =>
    intro h; simp only [AONF] at h; simp [collapsesNonbinary, iha h.1, ihb h.2]
  | implies a b iha ihb =>
    intro h; simp only [AONF] at h; simp [collapsesNonbinary, iha h.1, ihb h.2]
  | iff a b iha ihb =>
    intro h; simp only [AONF] at h; simp [collapsesNonbinary, iha h.1, ihb h.2]
  | bin op a b iha ihb =>
    intro h; simp only [AONF] at h
    obtain ⟨⟨h1, h2⟩, ha, hb⟩ := h
    have : (op == BinOp.and || op == BinOp.or) = false := by cases op <;> simp_all
    simp [collapsesNonbinary, this, iha ha, ihb hb]
  | un op e ih => intro h; simp only [AONF] at h; simpa [collapsesNonbinary] using ih h

theorem finiteLits_flattenF (n : Nat) (e e' : Exp (Ext K)) (h : flattenF n e = some e')
    (he : finiteLits e = true) : finiteLits e' = true :=
  flattenF_preserves (fun x => finiteLits x = true) (fun _ => True)
    (by intro op a b; simp [finiteLits]) (by intro e; simp [finiteLits]) trivial trivial
    (fun _ _ => trivial) n e e' h he

/-- after `simplify` and `flatten` nothing can collapse any more. -/
theorem noCollapse_flatten_simplify (n : Nat) (e e2 : Exp (Ext K))
    (h : flattenF n (simplify e) = some e2) : collapsesNonbinary B e2 = false :=
  noCollapse_of_AONF e2 (AONF_flatten n _ _ h (AONF_of_NF _ (NF_simplify e)))

/-- **`normalize` (the linearizer's `simplify → flatten → simplify`) outside the collapse region**:
same denotation at every assignment. -/
theorem normalize_eval_eq_nc (ρ : String → K) (hB : BoolVars B ρ) (e e' : Exp (Ext K))
    (hn : Lin.normalizeExp e = some e')
    (hc : collapsesNonbinary B e = false) (hf : finiteLits e = true) :
    eval ρ e' = eval ρ e := by
  unfold Lin.normalizeExp at hn
  simp only [Option.map_eq_some_iff] at hn
  obtain ⟨e2, h2, rfl⟩ := hn
  rw [simplify_eval_eq_nc ρ hB e2 (noCollapse_flatten_simplify _ e e2 h2)
      (finiteLits_flattenF _ _ _ h2 (finiteLits_simplify e hf)),
    flattenF_eval ρ _ _ _ h2, simplify_eval_eq_nc ρ hB e hc hf]

/-- forward direction without the finiteness hypothesis. -/
theorem normalize_sound_nc (ρ : String → K) (hB : BoolVars B ρ) (e e' : Exp (Ext K)) (v : K)
    (hn : Lin.normalizeExp e = some e') (hc : collapsesNonbinary B e = false)
    (hv : eval ρ e = some v) : eval ρ e' = some v := by
  unfold Lin.normalizeExp at hn
  simp only [Option.map_eq_some_iff] at hn
  obtain ⟨e2, h2, rfl⟩ := hn
  apply simplify_sound_nc ρ hB e2 (noCollapse_flatten_simplify _ e e2 h2)
  rw [flattenF_eval ρ _ _ _ h2]
  exact simplify_sound_nc ρ hB e hc v hv

/-- `normalize` never fails for lack of fuel when the fuel covers the polynomial size. -/
theorem normalize_isSome (e : Exp (Ext K)) (h : fsize (simplify e) ≤ Lin.flattenFuel) :
    (Lin.normalizeExp e).isSome := by
  unfold Lin.normalizeExp
  simp only [Option.isSome_map]
  exact flattenF_isSome_of_fsize_le _ _ h

end
end Rooc
