/-
`normalize_constraint` over all rows, in terms of slack values: the `k`-th non-equality row gets the
`k`-th slack column (at index `total_variables` of that moment), `EqualityConstraint::new` may negate the
row; all of it is equivalent to "row value ± slack = rhs".
-/
import Rooc.Proofs.StdSplit
namespace Rooc
namespace StdNorm
variable {K : Type} [Field K] [LinearOrder K] [IsStrictOrderedRing K] [FloorRing K]
open StdSem StdLayout StdSplit Standardize

def nonEq : List (LinRow (Ext K)) → Nat
  | [] => 0
  | r :: rs => (match r.cmp with | .eq => 0 | _ => 1) + nonEq rs

/-- rows in slack form: `c·u = rhs`, `c·u + s = rhs` (≤), `c·u − s = rhs` (≥), slacks consumed in row order. -/
def SlackSem : List (LinRow (Ext K)) → List K → List K → Prop
  | [], _, _ => True
  | r :: rs, u, s =>
    match r.cmp with
    | .eq => rowVal r.coeffs u = toK r.rhs ∧ SlackSem rs u s
    | .le => rowVal r.coeffs u + s.headD 0 = toK r.rhs ∧ SlackSem rs u s.tail
    | .ge => rowVal r.coeffs u - s.headD 0 = toK r.rhs ∧ SlackSem rs u s.tail
    | _ => False

theorem eqNew_length (c : List (Ext K)) (rhs : Ext K) : (eqNew c rhs).coeffs.length = c.length := by
  unfold eqNew; split <;> simp

/-- the sign normalisation keeps the meaning of the row (whatever the tolerance decides). -/
theorem eqNew_sem (c : List (Ext K)) (rhs : Ext K) (y : List K) (hc : ∀ x ∈ c, isFin x) (hr : isFin rhs) :
    rowVal (eqNew c rhs).coeffs y = toK (eqNew c rhs).rhs ↔ rowVal c y = toK rhs := by
  unfold eqNew
  split
  · simp only [rowVal_map_negOne c y hc, toK_neg hr]
    constructor <;> intro h <;> linarith
  · rfl

structure RowOK (n : Nat) (r : LinRow (Ext K)) : Prop where
  len : r.coeffs.length = n
  fin : ∀ c ∈ r.coeffs, isFin c
  rhs : isFin r.rhs
  cmp : r.cmp = .le ∨ r.cmp = .ge ∨ r.cmp = .eq

theorem resize_of_le (c : List (Ext K)) (N : Nat) (h : c.length ≤ N) :
    resize c N Arith.zero = c ++ List.replicate (N - c.length) Arith.zero := by
  unfold resize; rw [List.take_of_length_le h]

theorem isFin_resize_append (c : List (Ext K)) (N : Nat) (z : Ext K) (hc : ∀ x ∈ c, isFin x) (hz : isFin z)
    (h : c.length ≤ N) : ∀ x ∈ resize c N Arith.zero ++ [z], isFin x := by
  intro x hx
  rw [resize_of_le c N h] at hx
  simp only [List.mem_append, List.mem_replicate, List.mem_singleton] at hx
  rcases hx with (hx | ⟨-, rfl⟩) | rfl
  · exact hc x hx
  · exact isFin_zero
  · exact hz

/-- value of a slack row: `(c ++ zeros ++ [z])·(u ++ e ++ s0 :: s') = c·u + z·s0`. -/
theorem rowVal_slack_row (c : List (Ext K)) (z : Ext K) (u e : List K) (s0 : K) (s' : List K)
    (hc : c.length = u.length) :
    rowVal (resize c (u.length + e.length) Arith.zero ++ [z]) (u ++ e ++ s0 :: s') = rowVal c u + toK z * s0 := by
  rw [resize_of_le c _ (by omega)]
  rw [rowVal_append _ _ (u ++ e) (s0 :: s') (by simp; omega)]
  rw [rowVal_append_zeros, rowVal_append_right c u e (by omega)]
  simp

/-- **`normalizeAll` in slack form.** -/
theorem normalizeAll_sem (u : List K) :
    ∀ (rows : List (LinRow (Ext K))) (e s : List K) (sl su : Nat) (srows : List (StdRow (Ext K)))
      (names : List String) (total' : Nat),
      (∀ r ∈ rows, RowOK u.length r) →
      normalizeAll (u.length + e.length) sl su rows = .ok (srows, names, total') →
      s.length = nonEq rows →
      total' = u.length + e.length + nonEq rows ∧ names.length = nonEq rows ∧
      (∀ sr ∈ srows, sr.coeffs.length ≤ total') ∧
      ((∀ sr ∈ srows, rowVal sr.coeffs (u ++ e ++ s) = toK sr.rhs) ↔ SlackSem rows u s)
  | [], e, s, sl, su, srows, names, total', _, h, hs => by
    simp only [normalizeAll, Except.ok.injEq, Prod.mk.injEq] at h
    obtain ⟨rfl, rfl, rfl⟩ := h
    simp [nonEq, SlackSem]
  | r :: rs, e, s, sl, su, srows, names, total', hrows, h, hs => by
    have hr := hrows r (by simp)
    have hrs : ∀ r' ∈ rs, RowOK u.length r' := fun r' h' => hrows r' (List.mem_cons_of_mem _ h')
    rcases hr.cmp with hc | hc | hc
    · -- ≤ : slack column
      simp only [normalizeAll, hc] at h
      cases hrec : normalizeAll (u.length + e.length + 1) (sl+1) su rs with
      | error err => simp [hrec] at h
      | ok res =>
        obtain ⟨rows', names', t'⟩ := res
        simp only [hrec, Except.ok.injEq, Prod.mk.injEq] at h
        obtain ⟨rfl, rfl, rfl⟩ := h
        have hs' : s.length = 1 + nonEq rs := by simpa [nonEq, hc] using hs
        obtain ⟨s0, s', rfl⟩ : ∃ s0 s', s = s0 :: s' := by
          cases s with
          | nil => simp at hs'; omega
          | cons a b => exact ⟨a, b, rfl⟩
        have ih := normalizeAll_sem u rs (e ++ [s0]) s' (sl+1) su rows' names' t' hrs
          (by simpa [Nat.add_assoc] using hrec) (by simp at hs'; omega)
        obtain ⟨ht, hn, hl, hsem⟩ := ih
        have hfin := isFin_resize_append r.coeffs (u.length + e.length) Arith.one hr.fin isFin_one (by rw [hr.len]; omega)
        refine ⟨by simp [nonEq, hc] at ht ⊢; omega, by simp [nonEq, hc, hn]; omega, ?_, ?_⟩
        · intro sr hsr
          rcases List.mem_cons.1 hsr with rfl | hsr
          · rw [eqNew_length]; simp [resize, hr.len]; simp [nonEq, hc] at ht; omega
          · exact hl sr hsr
        · simp only [List.forall_mem_cons, SlackSem, hc, List.headD_cons, List.tail_cons]
          rw [eqNew_sem _ _ _ hfin hr.rhs, rowVal_slack_row r.coeffs Arith.one u e s0 s' hr.len]
          have : u ++ (e ++ [s0]) ++ s' = u ++ e ++ s0 :: s' := by simp
          rw [this] at hsem
          rw [hsem]; simp
    · -- ≥ : surplus column
      simp only [normalizeAll, hc] at h
      cases hrec : normalizeAll (u.length + e.length + 1) sl (su+1) rs with
      | error err => simp [hrec] at h
      | ok res =>
        obtain ⟨rows', names', t'⟩ := res
        simp only [hrec, Except.ok.injEq, Prod.mk.injEq] at h
        obtain ⟨rfl, rfl, rfl⟩ := h
        have hs' : s.length = 1 + nonEq rs := by simpa [nonEq, hc] using hs
        obtain ⟨s0, s', rfl⟩ : ∃ s0 s', s = s0 :: s' := by
          cases s with
          | nil => simp at hs'; omega
          | cons a b => exact ⟨a, b, rfl⟩
        have ih := normalizeAll_sem u rs (e ++ [s0]) s' sl (su+1) rows' names' t' hrs
          (by simpa [Nat.add_assoc] using hrec) (by simp at hs'; omega)
        obtain ⟨ht, hn, hl, hsem⟩ := ih
        have hneg : isFin (Arith.ofInt (-1) : Ext K) := by simp [Arith.ofInt, isFin]
        have hfin := isFin_resize_append r.coeffs (u.length + e.length) (Arith.ofInt (-1)) hr.fin hneg (by rw [hr.len]; omega)
        refine ⟨by simp [nonEq, hc] at ht ⊢; omega, by simp [nonEq, hc, hn]; omega, ?_, ?_⟩
        · intro sr hsr
          rcases List.mem_cons.1 hsr with rfl | hsr
          · rw [eqNew_length]; simp [resize, hr.len]; simp [nonEq, hc] at ht; omega
          · exact hl sr hsr
        · simp only [List.forall_mem_cons, SlackSem, hc, List.headD_cons, List.tail_cons]
          rw [eqNew_sem _ _ _ hfin hr.rhs, rowVal_slack_row r.coeffs (Arith.ofInt (-1)) u e s0 s' hr.len]
          have : u ++ (e ++ [s0]) ++ s' = u ++ e ++ s0 :: s' := by simp
          rw [this] at hsem
          rw [hsem]; simp [sub_eq_add_neg]
    · -- = : no new column
      simp only [normalizeAll, hc] at h
      cases hrec : normalizeAll (u.length + e.length) sl su rs with
      | error err => simp [hrec] at h
      | ok res =>
        obtain ⟨rows', names', t'⟩ := res
        simp only [hrec, Except.ok.injEq, Prod.mk.injEq] at h
        obtain ⟨rfl, rfl, rfl⟩ := h
        have ih := normalizeAll_sem u rs e s sl su rows' names' t' hrs hrec (by simpa [nonEq, hc] using hs)
        obtain ⟨ht, hn, hl, hsem⟩ := ih
        refine ⟨by simp [nonEq, hc] at ht ⊢; omega, by simp [nonEq, hc, hn], ?_, ?_⟩
        · intro sr hsr
          rcases List.mem_cons.1 hsr with rfl | hsr
          · rw [eqNew_length, hr.len]; omega
          · exact hl sr hsr
        · simp only [List.forall_mem_cons, SlackSem, hc]
          rw [eqNew_sem _ _ _ hr.fin hr.rhs, List.append_assoc, rowVal_append_right r.coeffs u (e ++ s) (by rw [hr.len]),
            ← List.append_assoc, hsem]

end StdNorm
end Rooc
