/-
Concrete instances (`K = ℚ`) for the non-vacuity examples of the C13 ∘ C14 composition (`Rooc/Props/C05.lean`,
`Rooc/Props/C04.lean`):

* `exMin` : `min −x  s.t.  c: x ≤ 2`, `x ≥ 0` — standard form `x + $sl_1 = 2` (computed by the kernel), start tableau
  `Props.C14.T0`, one pivot, `Finished` at `Props.C14.T0'`, optimum `−2` at `x = 2`;
* `exUnb` : `min −x  s.t.  −x ≤ 2`, `x ≥ 0` — start tableau `Props.C14.T1`, `Unbounded` at once;
* `exFree` : `min y  s.t.  y ≥ −3`, `y` free — standard form over `$py, $my, $su_1` (used by C04's recombination
  example).
-/
import Rooc.Proofs.ComposeSimplex
import Rooc.Proofs.RatInst

set_option linter.unusedSectionVars false
set_option linter.unusedSimpArgs false
set_option linter.unusedVariables false

namespace Rooc.ComposeSimplex
open Rooc Tableau TabSem StdSem StdMain StdSpec StdSplit StdLayout Standardize
attribute [local instance] exactArith
attribute [local instance 2000] fieldExact

deriving instance DecidableEq for StdRow
deriving instance DecidableEq for StdModel

/-- the loop ends in one of three ways. -/
theorem solveLoop_outcomes {K : Type} [Field K] [LinearOrder K] [IsStrictOrderedRing K]
    {tol : K} {prefer : List Nat} {stallLimit : Nat} :
    ∀ (fuel : Nat) (T : Tab K) (stalls : Nat) (last : K) (acc : List (Tab K × Nat × Nat × K)),
      (solveLoop tol prefer stallLimit fuel T stalls last acc).result = .ok () ∨
      (solveLoop tol prefer stallLimit fuel T stalls last acc).result = .error .unbounded ∨
      (solveLoop tol prefer stallLimit fuel T stalls last acc).result = .error .iterationLimit
  | 0, T, stalls, last, acc => by simp [solveLoop]
  | fuel+1, T, stalls, last, acc => by
    simp only [solveLoop]
    split
    · rename_i e hs
      obtain ⟨rfl, -⟩ := StepLemmas.stepInner_unbounded hs
      simp
    · simp
    · split
      · exact solveLoop_outcomes fuel _ _ _ _
      · exact solveLoop_outcomes fuel _ _ _ _

theorem solve_outcomes {K : Type} [Field K] [LinearOrder K] [IsStrictOrderedRing K]
    (tol : K) (se limit : Nat) (prefer : List Nat) (T : Tab K) :
    (solve tol se limit prefer T).result = .ok () ∨ (solve tol se limit prefer T).result = .error .unbounded ∨
    (solve tol se limit prefer T).result = .error .iterationLimit :=
  solveLoop_outcomes limit T 0 T.value []

/-! ### `min −x s.t. x ≤ 2, x ≥ 0` -/

def exMin : LinModel (Ext ℚ) :=
  { optType := .min, objective := [.fin (-1)], offset := .fin 0, vars := ["x"],
    domain := [{ name := "x", ty := .nnreal (.fin 0) .pinf, usage := 1 }],
    rows := [{ name := "c", coeffs := [.fin 1], cmp := .le, rhs := .fin 2 }] }

def exMinStd : StdModel (Ext ℚ) :=
  { vars := ["x", "$sl_1"], objective := [.fin (-1), .fin 0], offset := .fin 0, flip := false,
    rows := [{ coeffs := [.fin 1, .fin 1], rhs := .fin 2 }] }

theorem exMin_std : standardize exMin = .ok exMinStd := by rw [fieldExact_rat]; decide +kernel

theorem exMin_wf : WF exMin := by
  refine ⟨rfl, ?_, ?_, ?_, ?_, ?_, ?_, ?_, ?_, ?_, Or.inl rfl⟩
  · simp [exMin, isFin]
  · simp [exMin, isFin]
  · simp [exMin]
  · simp [exMin, isFin]
  · simp [exMin]
  · simp [exMin, lookup]
  · simp [exMin, isContinuous]
  · simp [exMin]
  · simp [exMin, isFin]

/-- start tableau (`x₁ = $sl_1` basic) and final tableau (`x₀ = x` basic) — those of `Props.C14`'s examples. -/
abbrev exT : Tab ℚ := Props.C14.T0
abbrev exT' : Tab ℚ := Props.C14.T0'

theorem exT_step : stepInner (0:ℚ) exT [] false = .ok (.pivot 0 0 2, exT') := by
  simp [stepInner, isOptimal, findH, findT, eligible, ratios, minByFirst, pivot, rowSubMul, rowDiv, Props.C14.T0,
    Props.C14.T0', Tol.fge, Tol.feq, Tol.flt, Tol.fgt, nth, row, List.zipIdx]

theorem exT'_step : stepInner (0:ℚ) exT' [] false = .ok (.finished, exT') := by
  simp [stepInner, isOptimal, findH, eligible, minByFirst, Props.C14.T0', Tol.fge, Tol.feq, Tol.flt, List.zipIdx]

theorem exT_canonicalFor : CanonicalFor exT (stdK exMinStd) := by
  refine ⟨⟨1, ?_⟩, ?_, ?_, ?_, rfl, rfl⟩
  · exact Unbounded.canon_of_one_row Props.C14.T0 [1, 1] 2 1 rfl rfl rfl rfl (by decide) (by simp [nth])
      (by simp [Props.C14.T0, nth])
  · intro x _ _; simp [Props.C14.T0, stdK, exMinStd, toK]
  · intro x
    simp [Sol, Start.stdTab, stdK, exMinStd, Props.C14.T0, toK]
  · intro i hi
    have : i = 0 := by simp [Props.C14.T0] at hi; omega
    subst this; simp [Props.C14.T0, nth]

/-- the loop at exact comparisons: one pivot, then `Finished` at `exT'`. -/
theorem exT_solve : (solve (0:ℚ) 1 10 [] exT).result = .ok () ∧ (solve (0:ℚ) 1 10 [] exT).final = exT' := by
  have h1 : decide (0 > (Props.C14.T0.c.length + Props.C14.T0.a.length + 1)) = false := by decide
  have hv : Tol.feq (0:ℚ) exT'.value exT.value = false := by simp [Tol.feq]
  simp only [solve, solveLoop, h1, exT_step, hv, Bool.false_eq_true, if_false, exT'_step, and_self]

theorem exT'_preimage : preimage exMin (basicSolution exT') = [2] := by
  have hb : basicSolution exT' = [2, 0] := by
    simp [basicSolution, variablesValues, Props.C14.T0', nth, List.zipIdx]
  have hf : flags exMin = [false] := by simp [flags, tys, tyOf, lookup, exMin, isFree]
  simp [preimage, hb, hf, countF, countT, back]

/-- the decidable data hypotheses of the direct start hold (tolerance `1e-5`). -/
theorem exMin_direct_hyps : Start.NoSubTol (1/100000 : ℚ) ((stdK exMinStd).rows.map (·.coeffs)) ∧
    (stdK exMinStd).rows.length ≤
      (independentColumns (1/100000 : ℚ) (stdK exMinStd).vars.length ((stdK exMinStd).rows.map (·.coeffs))).length ∧
    (selectPerRow (stdK exMinStd).rows.length
      (independentColumns (1/100000 : ℚ) (stdK exMinStd).vars.length ((stdK exMinStd).rows.map (·.coeffs)))).length
        = (stdK exMinStd).rows.length := by
  have h1 : |(1:ℚ)| = 1 := abs_one
  have hr : (stdK exMinStd).rows.map (·.coeffs) = [[1, 1]] := by simp [stdK, exMinStd, toK]
  have hn : (stdK exMinStd).vars.length = 2 := rfl
  have hm : (stdK exMinStd).rows.length = 1 := rfl
  rw [hr, hn, hm, Props.C14.sm0_independent]
  refine ⟨?_, by simp, by simp [selectPerRow, List.range, List.range.loop]⟩
  intro r hr' x hx
  simp at hr'; subst hr'
  simp at hx; subst hx
  right; rw [h1]; norm_num

/-- what `into_tableau` (tolerance `1e-5`) really returns for `exMin`: `x` itself is the first independent column of
the only row, so the start is already the optimal tableau `exT'`. -/
theorem exMin_intoTableau : intoTableau (1/100000 : ℚ) 1 10 (stdK exMinStd) = .ok exT' := by
  have hr : (stdK exMinStd).rows.map (·.coeffs) = [[1, 1]] := by simp [stdK, exMinStd, toK]
  have hn : (stdK exMinStd).vars.length = 2 := rfl
  have hm : (stdK exMinStd).rows.length = 1 := rfl
  unfold intoTableau
  simp only [hr, hn, hm, Props.C14.sm0_independent]
  simp [selectPerRow, List.range, List.range.loop, canonicalise, rowDiv, rowSubMul, stdK, exMinStd, toK, nth, row,
    Props.C14.T0', List.modify]

theorem exT'_solve : (solve (0:ℚ) 1 10 [] exT').result = .ok () ∧ (solve (0:ℚ) 1 10 [] exT').final = exT' := by
  have h1 : decide (0 > (Props.C14.T0'.c.length + Props.C14.T0'.a.length + 1)) = false := by decide
  simp only [solve, solveLoop, h1, exT'_step, and_self]

theorem exMin_startFacts : StartFacts (1/100000 : ℚ) 1 10 (stdK exMinStd) :=
  Or.inl ⟨exMin_direct_hyps.2, exMin_direct_hyps.1⟩

/-! ### `min −x s.t. −x ≤ 2, x ≥ 0` — unbounded -/

def exUnb : LinModel (Ext ℚ) :=
  { optType := .min, objective := [.fin (-1)], offset := .fin 0, vars := ["x"],
    domain := [{ name := "x", ty := .nnreal (.fin 0) .pinf, usage := 1 }],
    rows := [{ name := "", coeffs := [.fin (-1)], cmp := .le, rhs := .fin 2 }] }

def exUnbStd : StdModel (Ext ℚ) :=
  { vars := ["x", "$sl_1"], objective := [.fin (-1), .fin 0], offset := .fin 0, flip := false,
    rows := [{ coeffs := [.fin (-1), .fin 1], rhs := .fin 2 }] }

theorem exUnb_std : standardize exUnb = .ok exUnbStd := by rw [fieldExact_rat]; decide +kernel

theorem exUnb_wf : WF exUnb := by
  refine ⟨rfl, ?_, ?_, ?_, ?_, ?_, ?_, ?_, ?_, ?_, Or.inl rfl⟩
  · simp [exUnb, isFin]
  · simp [exUnb, isFin]
  · simp [exUnb]
  · simp [exUnb, isFin]
  · simp [exUnb]
  · simp [exUnb, lookup]
  · simp [exUnb, isContinuous]
  · simp [exUnb]
  · simp [exUnb, isFin]

abbrev exTU : Tab ℚ := Props.C14.T1

theorem exTU_canonicalFor : CanonicalFor exTU (stdK exUnbStd) := by
  refine ⟨⟨1, ?_⟩, ?_, ?_, ?_, rfl, rfl⟩
  · exact Unbounded.canon_of_one_row Props.C14.T1 [-1, 1] 2 1 rfl rfl rfl rfl (by decide) (by simp [nth])
      (by simp [Props.C14.T1, nth])
  · intro x _ _; simp [Props.C14.T1, stdK, exUnbStd, toK]
  · intro x
    simp [Sol, Start.stdTab, stdK, exUnbStd, Props.C14.T1, toK]
  · intro i hi
    have : i = 0 := by simp [Props.C14.T1] at hi; omega
    subst this; simp [Props.C14.T1, nth]

theorem exTU_step : stepInner (0:ℚ) exTU [] false = .error .unbounded := by
  simp [stepInner, isOptimal, findH, findT, eligible, ratios, minByFirst, Props.C14.T1, Tol.fge, Tol.feq, Tol.flt,
    Tol.fgt, nth, List.zipIdx]

theorem exTU_solve : (solve (0:ℚ) 1 10 [] exTU).result = .error .unbounded := by
  have h1 : decide (0 > (Props.C14.T1.c.length + Props.C14.T1.a.length + 1)) = false := by decide
  simp only [solve, solveLoop, h1, exTU_step]

/-! ### `min y s.t. y ≥ −3`, `y` free — split into `$py − $my`, surplus column, row negated -/

def exFree : LinModel (Ext ℚ) :=
  { optType := .min, objective := [.fin 1], offset := .fin 0, vars := ["y"],
    domain := [{ name := "y", ty := .real .ninf .pinf, usage := 1 }],
    rows := [{ name := "", coeffs := [.fin 1], cmp := .ge, rhs := .fin (-3) }] }

def exFreeStd : StdModel (Ext ℚ) :=
  { vars := ["$py", "$my", "$su_1"], objective := [.fin 1, .fin (-1), .fin 0], offset := .fin 0, flip := false,
    rows := [{ coeffs := [.fin (-1), .fin 1, .fin 1], rhs := .fin 3 }] }

theorem exFree_std : standardize exFree = .ok exFreeStd := by rw [fieldExact_rat]; decide +kernel

theorem exFree_wf : WF exFree := by
  refine ⟨rfl, ?_, ?_, ?_, ?_, ?_, ?_, ?_, ?_, ?_, Or.inl rfl⟩
  · simp [exFree, isFin]
  · simp [exFree, isFin]
  · simp [exFree]
  · simp [exFree, isFin]
  · simp [exFree]
  · simp [exFree, lookup]
  · simp [exFree, isContinuous]
  · simp [exFree, isFin]
  · simp [exFree]

/-- `$py = 0, $my = 3, $su_1 = 0` is a feasible point of the standard form. -/
theorem exFree_point : StdFeasible exFreeStd [0, 3, 0] := by
  refine ⟨rfl, by simp, ?_⟩
  intro r hr
  simp only [exFreeStd, List.mem_singleton] at hr
  subst hr
  simp [rowVal, toK]

theorem exFree_preimage : preimage exFree [0, 3, 0] = [-3] := by
  have hf : flags exFree = [true] := by simp [flags, tys, tyOf, lookup, exFree, isFree]
  simp [preimage, hf, countF, countT, back]

/-! ### `min x s.t. x ≤ −1, x ≥ 0` — infeasible: phase 1 stops at `−1` -/

def exInf : LinModel (Ext ℚ) :=
  { optType := .min, objective := [.fin 1], offset := .fin 0, vars := ["x"],
    domain := [{ name := "x", ty := .nnreal (.fin 0) .pinf, usage := 1 }],
    rows := [{ name := "c", coeffs := [.fin 1], cmp := .le, rhs := .fin (-1) }] }

def exInfStd : StdModel (Ext ℚ) :=
  { vars := ["x", "$sl_1"], objective := [.fin 1, .fin 0], offset := .fin 0, flip := false,
    rows := [{ coeffs := [.fin (-1), .fin (-1)], rhs := .fin 1 }] }

theorem exInf_std : standardize exInf = .ok exInfStd := by rw [fieldExact_rat]; decide +kernel

def exTI : Tab ℚ := { c := [1, 1, 0], a := [[-1, -1, 1]], b := [1], basis := [2], value := -1, offset := 0, flip := false }

theorem exInf_phase1 : phase1Tab (stdK exInfStd) = exTI := by
  simp [phase1Tab, stdK, exInfStd, exTI, toK, resize, subRow, List.zipIdx, List.range, List.range.loop]

theorem exTI_solve (prefer : List Nat) : (solve (0:ℚ) 1 10 prefer exTI).result = .ok () ∧ (solve (0:ℚ) 1 10 prefer exTI).final.value = -1 := by
  have hs : stepInner (0:ℚ) exTI prefer false = .ok (.finished, exTI) := by
    simp [stepInner, isOptimal, findH, eligible, minByFirst, exTI, Tol.fge, Tol.feq, Tol.flt, List.zipIdx]
  have h1 : decide (0 > (exTI.c.length + exTI.a.length + 1)) = false := by decide
  simp only [solve, solveLoop, h1, hs]
  simp [exTI]

theorem exInf_wf : WF exInf := by
  refine ⟨rfl, ?_, ?_, ?_, ?_, ?_, ?_, ?_, ?_, ?_, Or.inl rfl⟩
  · simp [exInf, isFin]
  · simp [exInf, isFin]
  · simp [exInf]
  · simp [exInf, isFin]
  · simp [exInf]
  · simp [exInf, lookup]
  · simp [exInf, isContinuous]
  · simp [exInf]
  · simp [exInf, isFin]

/-! ### the same with the free variable CALLED `$sl_y` (an internal prefix): harmless, it only occurs as `$p$sl_y`, `$m$sl_y` -/

def exFreeSl : LinModel (Ext ℚ) :=
  { optType := .min, objective := [.fin 1], offset := .fin 0, vars := ["$sl_y"],
    domain := [{ name := "$sl_y", ty := .real .ninf .pinf, usage := 1 }],
    rows := [{ name := "", coeffs := [.fin 1], cmp := .ge, rhs := .fin (-3) }] }

def exFreeSlStd : StdModel (Ext ℚ) :=
  { vars := ["$p$sl_y", "$m$sl_y", "$su_1"], objective := [.fin 1, .fin (-1), .fin 0], offset := .fin 0, flip := false,
    rows := [{ coeffs := [.fin (-1), .fin 1, .fin 1], rhs := .fin 3 }] }

theorem exFreeSl_std : standardize exFreeSl = .ok exFreeSlStd := by rw [fieldExact_rat]; decide +kernel

theorem exFreeSl_wf : WF exFreeSl := by
  refine ⟨rfl, ?_, ?_, ?_, ?_, ?_, ?_, ?_, ?_, ?_, Or.inl rfl⟩
  · simp [exFreeSl, isFin]
  · simp [exFreeSl, isFin]
  · simp [exFreeSl]
  · simp [exFreeSl, isFin]
  · simp [exFreeSl]
  · simp [exFreeSl, lookup]
  · simp [exFreeSl, isContinuous]
  · simp [exFreeSl, isFin]
  · simp [exFreeSl]

theorem exFreeSl_point : StdFeasible exFreeSlStd [0, 3, 0] := by
  refine ⟨rfl, by simp, ?_⟩
  intro r hr
  simp only [exFreeSlStd, List.mem_singleton] at hr
  subst hr
  simp [rowVal, toK]

theorem exFreeSl_flags : flags exFreeSl = [true] := by simp [flags, tys, tyOf, lookup, exFreeSl, isFree]

theorem exFreeSl_preimage : preimage exFreeSl [0, 3, 0] = [-3] := by
  simp [preimage, exFreeSl_flags, countF, countT, back]

end Rooc.ComposeSimplex
