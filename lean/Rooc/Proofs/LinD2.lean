/-
Stage D, part 2: the loop invariant for models with logic; the basic state transformations
(a row from an affine comparison, a fresh Boolean witness bounded by affine expressions, `emit_constraint` on
arbitrary normalised sides).
-/
import Rooc.Proofs.LinD1
import Rooc.Proofs.LinNC2
import Rooc.Proofs.LinNC3
import Rooc.Proofs.LinMain

set_option linter.unusedSectionVars false
set_option linter.unusedSimpArgs false
set_option linter.unusedVariables false

namespace Rooc.LinP
open Rooc Rooc.Lin Rooc.Sem Rooc.Exp
open Rooc.Lin.Gadget (B01)

variable {K : Type} [Field K] [LinearOrder K] [IsStrictOrderedRing K] [FloorRing K]

/-! ### what the lowering needs to know about a source expression -/

/-- defined at every assignment that satisfies the domains `d`. -/
def DefOn (d : List (DomVar (Ext K))) (e : Exp (Ext K)) : Prop :=
  ∀ ρ : String → K, DomSat ρ d → ∃ v, eval ρ e = some v

/-- the operands of and/or nodes are 0/1-valued at every assignment that satisfies the domains `d`
(C10's side condition `LogicOperands01`). -/
def LOon (d : List (DomVar (Ext K))) (e : Exp (Ext K)) : Prop :=
  ∀ ρ : String → K, DomSat ρ d → LogicOperands01 ρ e

/-- no and/or node of `e` collapses (under `simplify`) to a non-0/1 value, at every assignment that satisfies
the domains `d` — exactly what C10's singleton-collapse finding violates; implied by `LOon` on defined
expressions, and by the harness flag `collapsesNonbinary` being `false`. -/
def NCon (d : List (DomVar (Ext K))) (e : Exp (Ext K)) : Prop :=
  ∀ ρ : String → K, DomSat ρ d → NC ρ e

/-- the contract on a source expression: declared used variables only, finite literals, and — at every
assignment satisfying the domains — defined, with no and/or node collapsing to a non-0/1 value. -/
structure GoodE (d : List (DomVar (Ext K))) (e : Exp (Ext K)) : Prop where
  vars : ∀ x ∈ varsOf e, inScope d x
  fin : FinE e
  nc : NCon d e
  defd : DefOn d e

theorem NCon.ofLO {d : List (DomVar (Ext K))} {e : Exp (Ext K)} (hlo : LOon d e) (hd : DefOn d e) : NCon d e :=
  fun ρ hρ => NC_of_LO ρ e (hlo ρ hρ) (hd ρ hρ)

/-- the harness flag: unflagged expressions over a domain with distinct names satisfy the and/or clause. -/
theorem NCon.ofFlag {d : List (DomVar (Ext K))} (hnd : (d.map (·.name)).Nodup) {e : Exp (Ext K)}
    (hsc : ∀ x ∈ varsOf e, inScope d x)
    (h : collapsesNonbinary (isBoolVar d) e = false) : NCon d e := by
  intro ρ hρ
  exact NC_of_not_collapses (S := inScope d) (fun x hx hb => boolOK_of_domSat hnd hρ x hx hb) e hsc h

theorem domSat_left {ρ : String → K} {d d' : List (DomVar (Ext K))} (h : DomSat ρ (d ++ d')) : DomSat ρ d :=
  (domSat_append.mp h).1

theorem GoodE.mono {d : List (DomVar (Ext K))} {e : Exp (Ext K)} (h : GoodE d e) (d' : List (DomVar (Ext K))) :
    GoodE (d ++ d') e :=
  ⟨fun x hx => inScope_append_left (h.vars x hx), h.fin, fun ρ hd => h.nc ρ (domSat_left hd),
    fun ρ hd => h.defd ρ (domSat_left hd)⟩

/-- `normalize` keeps the contract and the value. -/
theorem GoodE.normalize {d : List (DomVar (Ext K))} {e e' : Exp (Ext K)} (h : GoodE d e)
    (hn : normalizeExp e = some e') :
    GoodE d e' ∧ ∀ ρ : String → K, DomSat ρ d → eval ρ e' = eval ρ e := by
  have key : ∀ ρ : String → K, DomSat ρ d → ∃ v, eval ρ e = some v ∧ eval ρ e' = some v ∧ NC ρ e' := by
    intro ρ hd
    obtain ⟨v, hv⟩ := h.defd ρ hd
    obtain ⟨h1, h2⟩ := normalize_eval_nc hn (h.nc ρ hd) hv
    exact ⟨v, hv, h1, h2⟩
  refine ⟨⟨fun x hx => h.vars x (varsOf_normalize hn x hx), finiteLits_normalize h.fin hn, ?_, ?_⟩, ?_⟩
  · intro ρ hd; obtain ⟨v, _, _, h3⟩ := key ρ hd; exact h3
  · intro ρ hd; obtain ⟨v, _, h2, _⟩ := key ρ hd; exact ⟨v, h2⟩
  · intro ρ hd; obtain ⟨v, h1, h2, _⟩ := key ρ hd; rw [h1, h2]

theorem GoodE.sub {d : List (DomVar (Ext K))} {a b : Exp (Ext K)} (ha : GoodE d a) (hb : GoodE d b) :
    GoodE d (.bin .sub a b) := by
  refine ⟨?_, ?_, ?_, ?_⟩
  · intro x hx
    simp only [varsOf, List.mem_append] at hx
    exact hx.elim (ha.vars x) (hb.vars x)
  · have h1 := ha.fin; have h2 := hb.fin
    simp only [FinE, finiteLits, Bool.and_eq_true] at *
    exact ⟨h1, h2⟩
  · intro ρ hd
    exact ⟨ha.nc ρ hd, hb.nc ρ hd, by rintro (h | h) <;> cases h⟩
  · intro ρ hd
    obtain ⟨x, hx⟩ := ha.defd ρ hd
    obtain ⟨y, hy⟩ := hb.defd ρ hd
    exact ⟨x - y, by simp [eval_bin, hx, hy, binVal]⟩

/-- an arithmetic expression that is defined everywhere satisfies the contract. -/
theorem GoodE.ofAG {d : List (DomVar (Ext K))} {e : Exp (Ext K)} (h : AG (inScope d) e) (hd : DefinedE e)
    (hf : FinE e) : GoodE d e :=
  ⟨h.2, hf, fun ρ _ => NC_of_arithOnly ρ e h.1, fun ρ _ => hd ρ⟩

/-- the STATIC contract on a source expression: declared used variables only, finite literals, and no and/or
node collapsing to a non-0/1 value at the assignments satisfying the domains (= the harness flag
`nary-singleton-nonbinary` is not raised, `NCon.ofFlag`).  Definedness is NOT part of it: it is a consequence
of a successful compilation (`Rooc/Proofs/LinDef*.lean`). -/
structure GoodS (d : List (DomVar (Ext K))) (e : Exp (Ext K)) : Prop where
  vars : ∀ x ∈ varsOf e, inScope d x
  fin : FinE e
  nc : NCon d e

theorem GoodE.toS {d : List (DomVar (Ext K))} {e : Exp (Ext K)} (h : GoodE d e) : GoodS d e :=
  ⟨h.vars, h.fin, h.nc⟩

theorem GoodS.withDef {d : List (DomVar (Ext K))} {e : Exp (Ext K)} (h : GoodS d e) (hd : DefOn d e) : GoodE d e :=
  ⟨h.vars, h.fin, h.nc, hd⟩

/-- `normalize` keeps the value as an `Option` (same definedness, same value). -/
theorem GoodS.normalize_eval {d : List (DomVar (Ext K))} {e e' : Exp (Ext K)} (h : GoodS d e)
    (hn : normalizeExp e = some e') (ρ : String → K) (hd : DomSat ρ d) : eval ρ e' = eval ρ e :=
  normalize_eval_eq_nc hn (h.nc ρ hd) h.fin

/-- a source constraint: both sides satisfy the static contract over the initial domain. -/
structure SrcD (d0 : List (DomVar (Ext K))) (c : Constraint (Ext K)) : Prop where
  lhs : GoodS d0 c.lhs
  rhs : GoodS d0 c.rhs

/-! ### the loop invariant -/

structure LoopInvD (d0 : List (DomVar (Ext K))) (s : St (Ext K)) : Prop where
  st : StInv (SrcD d0) s
  ext0 : ∃ decls, s.domain = d0 ++ decls
  rowsOK : ∀ r ∈ s.rows, RowOK r ∧ ∀ x ∈ r.lhs.map (·.1), inScope s.domain x

theorem LoopInvD.base {d0 : List (DomVar (Ext K))} {s : St (Ext K)} (h : LoopInvD d0 s) {x : String}
    (hx : inScope d0 x) : inScope s.domain x := by
  obtain ⟨decls, hd⟩ := h.ext0; rw [hd]; exact inScope_append_left hx

theorem LoopInvD.dom0 {d0 : List (DomVar (Ext K))} {s : St (Ext K)} (h : LoopInvD d0 s) {ρ : String → K}
    (hd : DomSat ρ s.domain) : DomSat ρ d0 := by
  obtain ⟨decls, hdd⟩ := h.ext0; rw [hdd] at hd; exact domSat_left hd

theorem LoopInvD.good {d0 : List (DomVar (Ext K))} {s : St (Ext K)} (h : LoopInvD d0 s) {e : Exp (Ext K)}
    (he : GoodE d0 e) : GoodE s.domain e := by
  obtain ⟨decls, hd⟩ := h.ext0; rw [hd]; exact he.mono decls

theorem LoopInvD.boolOK {d0 : List (DomVar (Ext K))} {s : St (Ext K)} (h : LoopInvD d0 s) {ρ : String → K}
    (hd : DomSat ρ s.domain) : BoolOK ρ s.domain (inScope s.domain) :=
  boolOK_of_domSat h.st.nodup hd

theorem LoopInvD.addRow {d0 : List (DomVar (Ext K))} {s : St (Ext K)} (h : LoopInvD d0 s)
    {row : MidRow (Ext K)} (hok : RowOK row) (hsc : ∀ x ∈ row.lhs.map (·.1), inScope s.domain x) :
    LoopInvD d0 (addRow s row) := by
  refine ⟨h.st.of_eq rfl rfl rfl, h.ext0, ?_⟩
  intro r hr
  simp only [Rooc.LinP.addRow, List.mem_append, List.mem_singleton] at hr
  rcases hr with hr | rfl
  · exact h.rowsOK r hr
  · exact ⟨hok, hsc⟩

theorem LoopInvD.pop {d0 : List (DomVar (Ext K))} {s : St (Ext K)} {c : Constraint (Ext K)}
    {rest : List (Constraint (Ext K))} (h : LoopInvD d0 s) (hq : s.queue = c :: rest) :
    LoopInvD d0 { s with queue := rest } := by
  refine ⟨⟨h.st.nodup, h.st.box, ?_, ?_⟩, h.ext0, h.rowsOK⟩
  · intro c' hc'; exact h.st.qscoped c' (by rw [hq]; exact List.mem_cons_of_mem _ hc')
  · intro c' hc'; exact h.st.qgood c' (by rw [hq]; exact List.mem_cons_of_mem _ hc')

/-- the invariant only looks at queue, rows, domain, bounds. -/
theorem LoopInvD.of_eq {d0 : List (DomVar (Ext K))} {s s' : St (Ext K)} (h : LoopInvD d0 s)
    (hd : s'.domain = s.domain) (hb : s'.bounds = s.bounds) (hq : s'.queue = s.queue) (hr : s'.rows = s.rows) :
    LoopInvD d0 s' :=
  ⟨h.st.of_eq hd hb hq, by rw [hd]; exact h.ext0, by rw [hr, hd]; exact h.rowsOK⟩

theorem sat_of_eq {s s' : St (Ext K)} (hd : s'.domain = s.domain) (hq : s'.queue = s.queue)
    (hr : s'.rows = s.rows) (ρ : String → K) : Sat ρ s' ↔ Sat ρ s := by
  constructor
  · intro h; exact ⟨by rw [← hd]; exact h.dom, by intro c hc; exact h.q c (by rw [hq]; exact hc),
      by intro r hr'; exact h.rows r (by rw [hr]; exact hr')⟩
  · intro h; exact ⟨by rw [hd]; exact h.dom, by intro c hc; rw [hq] at hc; exact h.q c hc,
      by intro r hr'; rw [hr] at hr'; exact h.rows r hr'⟩

/-- a solution stays a solution when only variables outside the state's scope change. -/
theorem sat_agree {d0 : List (DomVar (Ext K))} {s : St (Ext K)} (hinv : LoopInvD d0 s) {ρ ρ' : String → K}
    (hs : Sat ρ s) (hag : ∀ x, inScope s.domain x → ρ' x = ρ x) : Sat ρ' s := by
  refine ⟨?_, ?_, ?_⟩
  · intro dv hdv hu; rw [hag _ ⟨dv, hdv, rfl, hu⟩]; exact hs.dom dv hdv hu
  · intro c hc
    rw [constraintHolds_congr (ρ := ρ) (fun x hx => hag x (hinv.st.qscoped c hc x hx))]
    exact hs.q c hc
  · intro r hr
    rw [rowTrue_congr r (fun x hx => hag x ((hinv.rowsOK r hr).2 x hx))]
    exact hs.rows r hr

theorem sat_addRow {s : St (Ext K)} {row : MidRow (Ext K)} (ρ : String → K) :
    Sat ρ (addRow s row) ↔ Sat ρ s ∧ rowTrue ρ row := by
  constructor
  · intro h
    exact ⟨⟨h.dom, h.q, fun r hr => h.rows r (by simp [Rooc.LinP.addRow, hr])⟩,
      h.rows row (by simp [Rooc.LinP.addRow])⟩
  · rintro ⟨h, hr⟩
    refine ⟨h.dom, h.q, ?_⟩
    intro r hr'
    simp only [Rooc.LinP.addRow, List.mem_append, List.mem_singleton] at hr'
    rcases hr' with hr' | rfl
    · exact h.rows r hr'
    · exact hr

/-! ### a row from an affine comparison -/

/-- `emit_constraint` on arithmetic, everywhere-defined sides appends exactly one row that says the comparison. -/
theorem emitA {d0 : List (DomVar (Ext K))} {s : St (Ext K)} {lhs rhs : Exp (Ext K)} {cmp : Cmp} {name : String}
    {r : Unit × St (Ext K)} (hinv : LoopInvD d0 s)
    (hl : AG (inScope s.domain) lhs) (hr : AG (inScope s.domain) rhs) (hdl : DefinedE lhs) (hdr : DefinedE rhs)
    (h : emitConstraint lhs cmp rhs name s = .ok r) :
    ∃ row : MidRow (Ext K), r.2 = addRow s row ∧ LoopInvD d0 (addRow s row) ∧
      ∀ (ρ : String → K) (a b : K), eval ρ lhs = some a → eval ρ rhs = some b →
        (rowTrue ρ row ↔ cmpK cmp a b = true) := by
  obtain ⟨row, rfl, _, _, hsc, hsem⟩ := emit_arith flattenSound simplifySoundArith hl hr h
  obtain ⟨a0, ha0⟩ := hdl (fun _ => 0)
  obtain ⟨b0, hb0⟩ := hdr (fun _ => 0)
  refine ⟨row, rfl, hinv.addRow (hsem _ a0 b0 ha0 hb0).1 hsc, ?_⟩
  intro ρ a b ha hb
  exact (hsem ρ a b ha hb).2

/-! ### `emit_constraint` on arbitrary sides satisfying the contract -/

theorem emit_gen {d0 : List (DomVar (Ext K))} {lhs rhs : Exp (Ext K)} {cmp : Cmp} {name : String}
    {s : St (Ext K)} {r : Unit × St (Ext K)} (hinv : LoopInvD d0 s)
    (hl : GoodE s.domain lhs) (hr : GoodE s.domain rhs)
    (h : emitConstraint lhs cmp rhs name s = .ok r) :
    LoopInvD d0 r.2 ∧
    StepOK s r.2 (fun ρ => ∃ a b, eval ρ lhs = some a ∧ eval ρ rhs = some b ∧ cmpK cmp a b = true) := by
  obtain ⟨en, ctx, s1, hn, hlin, rfl⟩ := (emitConstraint_ok _ _ _ _ _ _).mp h
  obtain ⟨hen, henv⟩ := (hl.sub hr).normalize hn
  have hev : ∀ (ρ : String → K), DomSat ρ s.domain → ∀ a b, eval ρ lhs = some a → eval ρ rhs = some b →
      eval ρ en = some (a - b) := by
    intro ρ hd a b ha hb
    rw [henv ρ hd]; simp [eval_bin, ha, hb, binVal]
  have A := lin_spec_all (Src := SrcD d0) en _ _ _ _ ⟨hinv.st, hen.vars, hen.fin⟩ hlin
  obtain ⟨k, hk⟩ := A.cok.rhs
  set row : MidRow (Ext K) := { name := name, lhs := ctx.vars, rhs := Arith.neg ctx.rhs, cmp := cmp } with hrow
  have hrowOK : RowOK row := ⟨A.cok.fin, ⟨-k, by simp [hrow, hk, Ext.neg]⟩, A.cok.nodup⟩
  have hrowT : ∀ ρ : String → K, rowTrue ρ row ↔ cmpK cmp (ctxVal ρ ctx) 0 = true := by
    intro ρ
    have : termsVal ρ ctx.vars = ctxVal ρ ctx - 0 - k := by simp [ctxVal, hk]
    simp only [rowTrue, hrow, hk, ar_neg, xval_fin, this, cmpK_cancel]
  obtain ⟨decls, hdecls⟩ := A.dom
  have hinv1 : LoopInvD d0 s1 := by
    refine ⟨A.inv, ?_, ?_⟩
    · obtain ⟨d1, hd1⟩ := hinv.ext0
      exact ⟨d1 ++ decls, by rw [hdecls, hd1, List.append_assoc]⟩
    · intro r hr'
      rw [A.rows] at hr'
      exact ⟨(hinv.rowsOK r hr').1, fun x hx => A.scopeMono ((hinv.rowsOK r hr').2 x hx)⟩
  refine ⟨hinv1.addRow hrowOK A.cnames, A.dom, ?_, ?_⟩
  · intro ρ hs
    have hd1 : DomSat ρ s1.domain := hs.dom
    have hq1 : QSat ρ s1 := hs.q
    have hrows1 : ∀ r ∈ s1.rows, rowTrue ρ r := fun r hr' => hs.rows r (by simp [hr'])
    have hrt : rowTrue ρ row := hs.rows row (by simp)
    have hd0 : DomSat ρ s.domain := A.keepsDom hd1
    obtain ⟨a, ha⟩ := hl.defd ρ hd0
    obtain ⟨b, hb⟩ := hr.defd ρ hd0
    have hrel := A.sound ρ hd1 hq1 (a - b) (hev ρ hd0 a b ha hb)
    refine ⟨⟨hd0, A.keepsQ hq1, fun r hr' => hrows1 r (by rw [A.rows]; exact hr')⟩, a, b, ha, hb, ?_⟩
    rw [← cmpK_zero]
    exact rel_row_sound hrel ((hrowT ρ).mp hrt)
  · rintro ρ hs ⟨a, b, ha, hb, hcmp⟩
    obtain ⟨ρ', hag, hd', hq', hval⟩ := A.complete ρ hs.dom hs.q (a - b) (hev ρ hs.dom a b ha hb)
    refine ⟨ρ', hag, hd', hq', ?_⟩
    intro r hr'
    simp only [List.mem_append, List.mem_singleton] at hr'
    rcases hr' with hr' | rfl
    · rw [A.rows] at hr'
      rw [rowTrue_congr r (fun x hx => hag x ((hinv.rowsOK r hr').2 x hx))]
      exact hs.rows r hr'
    · rw [hrowT, hval, cmpK_zero]; exact hcmp

end Rooc.LinP
