/-
Stages C–E, core: the requirement-indexed specification of `Lin.linExp` (LinProbe's structure: state
invariant, frame, soundness `rel req (ctxVal …) (eval …)`, completeness `∃ extension`), and its proof for
literals, variables, `+ - * /` by literals and unary minus over ARBITRARY sub-expressions.
-/
import Rooc.Proofs.LinAssemble
import Rooc.Proofs.ExpLemmasDefined

set_option linter.unusedSectionVars false
set_option linter.unusedSimpArgs false
set_option linter.unusedVariables false

namespace Rooc.LinP
open Rooc Rooc.Lin Rooc.Sem Rooc.Exp
open Rooc.Lin.Gadget (B01)

variable {K : Type} [Field K] [LinearOrder K] [IsStrictOrderedRing K] [FloorRing K]

/-! ### enclosures, boxes, the bounds oracle -/

def lowerOK (l : Ext K) (v : K) : Prop :=
  match l with
  | .ninf => True
  | .fin a => a ≤ v
  | _ => False

def upperOK (u : Ext K) (v : K) : Prop :=
  match u with
  | .pinf => True
  | .fin a => v ≤ a
  | _ => False

/-- `v` lies in the (extended) interval `b`. -/
def Encl (b : Bounds (Ext K)) (v : K) : Prop := lowerOK b.lower v ∧ upperOK b.upper v

/-- the assignment lies in the box described by a bounds map. -/
def BoxOK (ρ : String → K) (bm : BoundsMap (Ext K)) : Prop :=
  ∀ n b, lookupB bm n = some b → Encl b (ρ n)

/-- the enclosure property of `BoundsAnalyzer::bounds_of` (C07's subject), as a hypothesis. -/
def BoundsOracle (K : Type) [Field K] [LinearOrder K] [IsStrictOrderedRing K] [FloorRing K] : Prop :=
  ∀ (bm : BoundsMap (Ext K)) (ρ : String → K) (e : Exp (Ext K)) (v : K),
    BoxOK ρ bm → eval ρ e = some v → Encl (boundsOf bm e) v

/-- the box restricted to the variables satisfying `S`. -/
def BoxOKon (S : String → Prop) (ρ : String → K) (bm : BoundsMap (Ext K)) : Prop :=
  ∀ n b, S n → lookupB bm n = some b → Encl b (ρ n)

theorem BoxOK.on {S : String → Prop} {ρ : String → K} {bm : BoundsMap (Ext K)} (h : BoxOK ρ bm) : BoxOKon S ρ bm :=
  fun n b _ hl => h n b hl

theorem boundsOfList_congr {bm bm' : BoundsMap (Ext K)} : ∀ (es : List (Exp (Ext K))),
    (∀ e ∈ es, boundsOf bm e = boundsOf bm' e) → boundsOfList bm es = boundsOfList bm' es
  | [], _ => rfl
  | e :: es, h => by
    simp only [boundsOfList, h e (by simp), boundsOfList_congr es (fun e' he' => h e' (by simp [he']))]

/-- `bounds_of` only reads the entries of the variables that occur. -/
theorem boundsOf_congr {bm bm' : BoundsMap (Ext K)} : ∀ (e : Exp (Ext K)),
    (∀ x ∈ varsOf e, lookupB bm x = lookupB bm' x) → boundsOf bm e = boundsOf bm' e := by
  intro e
  induction e using Exp.indL with
  | num v => intro _; simp [boundsOf]
  | var x => intro h; simp only [boundsOf, h x (by simp [varsOf])]
  | abs e ih => intro h; simp only [boundsOf, ih (by simpa [varsOf] using h)]
  | min es ih =>
    intro h
    have := boundsOfList_congr (bm := bm) (bm' := bm') es (fun e he => ih e he (fun x hx =>
      h x (by simp only [varsOf]; exact mem_varsOfList.mpr ⟨e, he, hx⟩)))
    simp only [boundsOf, this]
  | max es ih =>
    intro h
    have := boundsOfList_congr (bm := bm) (bm' := bm') es (fun e he => ih e he (fun x hx =>
      h x (by simp only [varsOf]; exact mem_varsOfList.mpr ⟨e, he, hx⟩)))
    simp only [boundsOf, this]
  | and es _ => intro _; simp [boundsOf]
  | or es _ => intro _; simp [boundsOf]
  | not e _ => intro _; simp [boundsOf]
  | xor a b _ _ => intro _; simp [boundsOf]
  | implies a b _ _ => intro _; simp [boundsOf]
  | iff a b _ _ => intro _; simp [boundsOf]
  | un op e ih =>
    intro h
    cases op with
    | neg => simp only [boundsOf, ih (by simpa [varsOf] using h)]
    | not => simp [boundsOf]
  | bin op a b iha ihb =>
    intro h
    simp only [varsOf, List.mem_append] at h
    have ha := iha (fun x hx => h x (Or.inl hx))
    have hb := ihb (fun x hx => h x (Or.inr hx))
    cases op with
    | add => simp only [boundsOf, ha, hb]
    | sub => simp only [boundsOf, ha, hb]
    | mul =>
      rcases num_or_not a with ⟨k, rfl⟩ | hna
      · simp only [boundsOf, hb]
      · rcases num_or_not b with ⟨k, rfl⟩ | hnb
        · rw [boundsOf.eq_15 _ _ _ hna, boundsOf.eq_15 _ _ _ hna, ha]
        · rw [boundsOf.eq_16 _ _ _ hna hnb, boundsOf.eq_16 _ _ _ hna hnb]
    | div =>
      rcases num_or_not b with ⟨k, rfl⟩ | hnb
      · simp only [boundsOf, ha]
      · rw [boundsOf.eq_18 _ _ _ hnb, boundsOf.eq_18 _ _ _ hnb]
    | _ => simp [boundsOf]

theorem lookupB_filter (bm : BoundsMap (Ext K)) (p : String → Bool) (x : String) :
    lookupB (bm.filter fun q => p q.1) x = if p x then lookupB bm x else none := by
  induction bm with
  | nil => simp [lookupB]
  | cons q bm ih =>
    by_cases hq : p q.1 = true
    · rw [List.filter_cons_of_pos (by simpa using hq)]
      unfold lookupB at ih ⊢
      by_cases hx : q.1 = x
      · subst hx; simp [hq]
      · have : (q.1 == x) = false := by simpa using hx
        simp only [List.find?_cons, this]
        exact ih
    · rw [List.filter_cons_of_neg (by simpa using hq)]
      unfold lookupB at ih ⊢
      by_cases hx : q.1 = x
      · subst hx
        simp only [ih, hq, Bool.false_eq_true, if_false]
      · have : (q.1 == x) = false := by simpa using hx
        simp only [List.find?_cons, this]
        exact ih

/-- the oracle only needs the box on the variables of the expression. -/
theorem BoundsOracle.on (hbo : BoundsOracle K) {S : String → Prop} {bm : BoundsMap (Ext K)} {ρ : String → K}
    {e : Exp (Ext K)} {v : K} (hbox : BoxOKon S ρ bm) (hs : ∀ x ∈ varsOf e, S x) (he : eval ρ e = some v) :
    Encl (boundsOf bm e) v := by
  classical
  let bm' : BoundsMap (Ext K) := bm.filter fun q => decide (S q.1)
  have hl : ∀ x, lookupB bm' x = if decide (S x) = true then lookupB bm x else none :=
    fun x => lookupB_filter bm (fun n => decide (S n)) x
  have hcongr : boundsOf bm e = boundsOf bm' e := by
    apply boundsOf_congr
    intro x hx
    rw [hl x]; simp [hs x hx]
  rw [hcongr]
  apply hbo bm' ρ e v _ he
  intro n b hnb
  rw [hl n] at hnb
  by_cases hS : S n
  · simp only [hS, decide_true, if_true] at hnb
    exact hbox n b hS hnb
  · simp [hS] at hnb

theorem geExt_iff (x : K) (l : Ext K) : geExt x l = true ↔ lowerOK l x := by
  cases l <;> simp [geExt, lowerOK]
theorem leExt_iff (x : K) (u : Ext K) : leExt x u = true ↔ upperOK u x := by
  cases u <;> simp [leExt, upperOK]

/-! ### requirement relation -/

/-- `rel req a v`: the context value `a` relates to the true value `v` as the requirement promises. -/
def rel : Req → K → K → Prop
  | .lower, a, v => v ≤ a
  | .higher, a, v => a ≤ v
  | .exact, a, v => a = v

theorem rel_of_eq (req : Req) {a v : K} (h : a = v) : rel req a v := by
  cases req <;> simp [rel, h]

theorem rel_add {req : Req} {a1 v1 a2 v2 : K} (h1 : rel req a1 v1) (h2 : rel req a2 v2) :
    rel req (a1 + a2) (v1 + v2) := by
  cases req <;> simp only [rel] at * <;> linarith

theorem rel_sub {req : Req} {a1 v1 a2 v2 : K} (h1 : rel req a1 v1) (h2 : rel req.reversed a2 v2) :
    rel req (a1 - a2) (v1 - v2) := by
  cases req <;> simp only [rel, Req.reversed] at * <;> linarith

theorem rel_neg {req : Req} {a v : K} (h : rel req.reversed a v) : rel req (a * (-1)) (-v) := by
  cases req <;> simp only [rel, Req.reversed] at * <;> linarith

theorem rel_scale {req : Req} {a v k : K} (hk : k ≠ 0)
    (h : rel (if k < 0 then req.reversed else req) a v) : rel req (a * k) (v * k) := by
  by_cases hneg : k < 0
  · rw [if_pos hneg] at h
    cases req <;> simp only [rel, Req.reversed] at * <;> nlinarith
  · rw [if_neg hneg] at h
    have hpos : 0 < k := lt_of_le_of_ne (not_lt.mp hneg) (Ne.symm hk)
    cases req <;> simp only [rel] at * <;> nlinarith

theorem throughScale_fin (req : Req) (k : K) :
    req.throughScale (Ext.fin k) = if k < 0 then req.reversed else req := by
  simp [Req.throughScale]

/-! ### contexts depend only on their names -/

theorem termsVal_congr {ρ ρ' : String → K} (ts : List (String × Ext K))
    (h : ∀ x ∈ ts.map (·.1), ρ' x = ρ x) : termsVal ρ' ts = termsVal ρ ts := by
  induction ts with
  | nil => rfl
  | cons p ts ih =>
    simp only [termsVal_cons, h p.1 (by simp), ih (fun x hx => h x (by simp [hx]))]

theorem ctxVal_congr {ρ ρ' : String → K} (c : Ctx (Ext K)) (h : ∀ x ∈ ctxNames c, ρ' x = ρ x) :
    ctxVal ρ' c = ctxVal ρ c := by
  simp only [ctxVal, termsVal_congr c.vars h]

/-! ### scoping, queue satisfaction, state invariant -/

/-- every variable of the constraint satisfies `S`. -/
def ScopedC (S : String → Prop) (c : Constraint (Ext K)) : Prop :=
  ∀ x, (x ∈ varsOf c.lhs ∨ x ∈ varsOf c.rhs) → S x

def QSat (ρ : String → K) (s : St (Ext K)) : Prop := ∀ c ∈ s.queue, constraintHolds ρ c = true

/-- the expression is defined at every assignment. -/
def DefinedE (e : Exp (Ext K)) : Prop := ∀ ρ : String → K, ∃ v, eval ρ e = some v

theorem inScope_append_left {d d' : List (DomVar (Ext K))} {x : String} (h : inScope d x) : inScope (d ++ d') x := by
  obtain ⟨dv, hdv, hn, hu⟩ := h; exact ⟨dv, List.mem_append_left _ hdv, hn, hu⟩

theorem ArithC.mono {S S' : String → Prop} (h : ∀ x, S x → S' x) {c : Constraint (Ext K)} (hc : ArithC S c) :
    ArithC S' c :=
  ⟨hc.notAssert, ⟨hc.lhs.1, fun x hx => h x (hc.lhs.2 x hx)⟩, ⟨hc.rhs.1, fun x hx => h x (hc.rhs.2 x hx)⟩⟩

theorem ArithC.toScoped {S : String → Prop} {c : Constraint (Ext K)} (hc : ArithC S c) : ScopedC S c := by
  rintro x (hx | hx); exacts [hc.lhs.2 x hx, hc.rhs.2 x hx]

/-- structural invariant of linearizer states.  `Src` singles out the not-yet-processed source
constraints; everything else in the queue is an affine, everywhere-defined comparison. -/
structure StInv (Src : Constraint (Ext K) → Prop) (s : St (Ext K)) : Prop where
  nodup : (s.domain.map (·.name)).Nodup
  box : ∀ ρ : String → K, DomSat ρ s.domain → BoxOKon (inScope s.domain) ρ s.bounds
  qscoped : ∀ c ∈ s.queue, ScopedC (inScope s.domain) c
  qgood : ∀ c ∈ s.queue, Src c ∨ (ArithC (inScope s.domain) c ∧ DefinedC c)

/-- what one successful call `linExp e req s = .ok (c, s')` guarantees. -/
structure Spec (Src : Constraint (Ext K) → Prop) (e : Exp (Ext K)) (req : Req) (s : St (Ext K))
    (c : Ctx (Ext K)) (s' : St (Ext K)) : Prop where
  rows : s'.rows = s.rows
  dom : ∃ decls, s'.domain = s.domain ++ decls
  queue : ∃ new, s'.queue = new ++ s.queue
  inv : StInv Src s'
  cok : CtxOK c
  cnames : ∀ x ∈ ctxNames c, inScope s'.domain x
  sound : ∀ ρ : String → K, DomSat ρ s'.domain → QSat ρ s' → ∀ v, eval ρ e = some v → rel req (ctxVal ρ c) v
  complete : ∀ ρ : String → K, DomSat ρ s.domain → QSat ρ s → ∀ v, eval ρ e = some v →
    ∃ ρ' : String → K, (∀ x, inScope s.domain x → ρ' x = ρ x) ∧ DomSat ρ' s'.domain ∧ QSat ρ' s' ∧
      ctxVal ρ' c = v

/-- every literal of the expression is finite (syntactic; `Rooc.finiteLits`).  This is all the specification of
`linExp` needs to know in advance: its soundness/completeness clauses are conditional on `eval ρ e = some v`. -/
def FinE (e : Exp (Ext K)) : Prop := finiteLits e = true

theorem FinE.bin_left {op : BinOp} {a b : Exp (Ext K)} (h : FinE (.bin op a b)) : FinE a := by
  simp only [FinE, finiteLits, Bool.and_eq_true] at h; exact h.1
theorem FinE.bin_right {op : BinOp} {a b : Exp (Ext K)} (h : FinE (.bin op a b)) : FinE b := by
  simp only [FinE, finiteLits, Bool.and_eq_true] at h; exact h.2
theorem FinE.neg {a : Exp (Ext K)} (h : FinE (.un .neg a)) : FinE a := by
  simpa only [FinE, finiteLits] using h
theorem FinE.abs {a : Exp (Ext K)} (h : FinE (.abs a)) : FinE a := by
  simpa only [FinE, finiteLits] using h
theorem FinE.not {a : Exp (Ext K)} (h : FinE (.not a)) : FinE a := by
  simpa only [FinE, finiteLits] using h
theorem FinE.num {x : Ext K} (h : FinE (.num x)) : ∃ k : K, x = .fin k := by
  simp only [FinE, finiteLits] at h; exact (isFin_iff x).mp h
theorem FinE.max_mem {es : List (Exp (Ext K))} (h : FinE (.max es)) : ∀ e ∈ es, FinE e := by
  simp only [FinE, finiteLits] at h; exact (finiteLitsL_iff es).mp h
theorem FinE.min_mem {es : List (Exp (Ext K))} (h : FinE (.min es)) : ∀ e ∈ es, FinE e := by
  simp only [FinE, finiteLits] at h; exact (finiteLitsL_iff es).mp h
theorem FinE.and_mem {es : List (Exp (Ext K))} (h : FinE (.and es)) : ∀ e ∈ es, FinE e := by
  simp only [FinE, finiteLits] at h; exact (finiteLitsL_iff es).mp h
theorem FinE.or_mem {es : List (Exp (Ext K))} (h : FinE (.or es)) : ∀ e ∈ es, FinE e := by
  simp only [FinE, finiteLits] at h; exact (finiteLitsL_iff es).mp h
theorem FinE.xor_mem {a b : Exp (Ext K)} (h : FinE (.xor a b)) : ∀ e ∈ [a, b], FinE e := by
  simp only [FinE, finiteLits, Bool.and_eq_true] at h
  intro e he; simp only [List.mem_cons, List.mem_nil_iff, or_false] at he
  rcases he with rfl | rfl; exacts [h.1, h.2]
theorem FinE.implies_mem {a b : Exp (Ext K)} (h : FinE (.implies a b)) : ∀ e ∈ [a, b], FinE e := by
  simp only [FinE, finiteLits, Bool.and_eq_true] at h
  intro e he; simp only [List.mem_cons, List.mem_nil_iff, or_false] at he
  rcases he with rfl | rfl; exacts [h.1, h.2]
theorem FinE.iff_mem {a b : Exp (Ext K)} (h : FinE (.iff a b)) : ∀ e ∈ [a, b], FinE e := by
  simp only [FinE, finiteLits, Bool.and_eq_true] at h
  intro e he; simp only [List.mem_cons, List.mem_nil_iff, or_false] at he
  rcases he with rfl | rfl; exacts [h.1, h.2]

/-- the call contract: what must hold before `linExp e req s`. -/
structure Pre (Src : Constraint (Ext K) → Prop) (e : Exp (Ext K)) (s : St (Ext K)) : Prop where
  inv : StInv Src s
  vars : ∀ x ∈ varsOf e, inScope s.domain x
  defined : FinE e

theorem Spec.keepsDom {Src : Constraint (Ext K) → Prop} {e : Exp (Ext K)} {req : Req} {s s' : St (Ext K)}
    {c : Ctx (Ext K)} (h : Spec Src e req s c s') {ρ : String → K} (hd : DomSat ρ s'.domain) :
    DomSat ρ s.domain := by
  obtain ⟨decls, hdec⟩ := h.dom
  intro dv hdv hu; exact hd dv (by rw [hdec]; exact List.mem_append_left _ hdv) hu

theorem Spec.keepsQ {Src : Constraint (Ext K) → Prop} {e : Exp (Ext K)} {req : Req} {s s' : St (Ext K)}
    {c : Ctx (Ext K)} (h : Spec Src e req s c s') {ρ : String → K} (hq : QSat ρ s') : QSat ρ s := by
  obtain ⟨new, hnew⟩ := h.queue
  intro c' hc'; exact hq c' (by rw [hnew]; exact List.mem_append_right _ hc')

theorem Spec.scopeMono {Src : Constraint (Ext K) → Prop} {e : Exp (Ext K)} {req : Req} {s s' : St (Ext K)}
    {c : Ctx (Ext K)} (h : Spec Src e req s c s') {x : String} (hx : inScope s.domain x) :
    inScope s'.domain x := by
  obtain ⟨decls, hdec⟩ := h.dom
  rw [hdec]; exact inScope_append_left hx

/-- a call that leaves the state alone and returns a context with the exact value. -/
theorem Spec.pure {Src : Constraint (Ext K) → Prop} {e : Exp (Ext K)} {req : Req} {s : St (Ext K)}
    {c : Ctx (Ext K)} (hinv : StInv Src s) (hok : CtxOK c) (hnames : ∀ x ∈ ctxNames c, inScope s.domain x)
    (hval : ∀ (ρ : String → K) v, eval ρ e = some v → ctxVal ρ c = v) : Spec Src e req s c s :=
  { rows := rfl, dom := ⟨[], by simp⟩, queue := ⟨[], by simp⟩, inv := hinv, cok := hok, cnames := hnames,
    sound := fun ρ _ _ v hv => rel_of_eq req (hval ρ v hv),
    complete := fun ρ hd hq v hv => ⟨ρ, fun _ _ => rfl, hd, hq, hval ρ v hv⟩ }

end Rooc.LinP
