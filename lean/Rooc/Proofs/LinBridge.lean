/-
Bridge C07 → C01, part 3: the analyzer state the pipeline hands to the linearizer
(`analyze … |> enforceable`), and the hypotheses `DomRel` / `BoxEnforced` of `c01_partial` / `c02_partial`
for the bounds map and tightened domain that `Compile.linearize` actually computes.
-/
import Rooc.Proofs.LinBridgeShrink
import Rooc.Proofs.LinBridgeInt
import Rooc.Proofs.LinMain
import Rooc.Compile

set_option linter.unusedTactic false
set_option linter.unreachableTactic false
set_option linter.unnecessarySeqFocus false
set_option linter.unusedSimpArgs false
set_option linter.unusedVariables false
set_option linter.unusedSectionVars false

namespace Rooc.LinP
open Rooc Rooc.Lin Rooc.Sem Rooc.BoundsProofs Rooc.BoundsSem Arith

variable {K : Type} [Field K] [LinearOrder K] [IsStrictOrderedRing K] [FloorRing K]

/-! ### the two vocabularies of domains and intervals -/

theorem mem_iff_encl (x : K) (b : Rooc.Bounds (Ext K)) : Mem x b ↔ Encl (⟨b.lower, b.upper⟩ : Lin.Bounds (Ext K)) x := by
  simp only [BoundsSem.Mem, Encl]
  constructor
  · rintro ⟨h1, h2⟩
    constructor
    · cases hb : b.lower <;> rw [hb] at h1 <;> simp [Ext.le, lowerOK] at h1 ⊢
      exact h1
    · cases hb : b.upper <;> rw [hb] at h2 <;> simp [Ext.le, upperOK] at h2 ⊢
      exact h2
  · rintro ⟨h1, h2⟩
    constructor
    · cases hb : b.lower <;> rw [hb] at h1 <;> simp [Ext.le, lowerOK] at h1 ⊢
      exact h1
    · cases hb : b.upper <;> rw [hb] at h2 <;> simp [Ext.le, upperOK] at h2 ⊢
      exact h2

theorem isIntK_iff (x : K) : isIntK x = true ↔ ∃ n : Int, x = (n : K) := by
  simp only [isIntK, ef_eq, ef_ofInt, ef_floor, decide_eq_true_eq]
  constructor
  · intro h; exact ⟨_, h.symm⟩
  · rintro ⟨n, rfl⟩; simp

/-- the Bool-valued domain test of the C01 semantics is implied by C07's `InDomain` … -/
theorem inDomain_of_InDomain {ty : VarType (Ext K)} {x : K} (h : InDomain ty x) : inDomain x ty = true := by
  cases ty with
  | bool => simpa [inDomain, InDomain] using h
  | int lo hi =>
    obtain ⟨n, hn, h1, h2⟩ := h
    have hx : x = (n : K) := by simpa using hn
    simp only [inDomain, Bool.and_eq_true, isIntK_iff, ef_le, ef_ofInt, decide_eq_true_eq]
    subst hx
    exact ⟨⟨⟨n, rfl⟩, by exact_mod_cast h1⟩, by exact_mod_cast h2⟩
  | real lo hi =>
    simp only [inDomain, Bool.and_eq_true, geExt_iff, leExt_iff]
    exact (mem_iff_encl x ⟨lo, hi⟩).mp h
  | nnreal lo hi =>
    simp only [inDomain, Bool.and_eq_true, geExt_iff, leExt_iff]
    exact (mem_iff_encl x ⟨lo, hi⟩).mp h.2

/-- the non-negativity of a `NonNegativeReal` range (what the text front-end enforces). -/
def NNOK : VarType (Ext K) → Prop
  | .nnreal lo _ => Ext.le (.fin 0) lo = true
  | _ => True

/-- … and implies it when `NonNegativeReal` ranges start at a non-negative number. -/
theorem InDomain_of_inDomain {ty : VarType (Ext K)} {x : K} (hnn : NNOK ty) (h : inDomain x ty = true) :
    InDomain ty x := by
  cases ty with
  | bool => simpa [inDomain, InDomain] using h
  | int lo hi =>
    simp only [inDomain, Bool.and_eq_true, isIntK_iff, ef_le, ef_ofInt, decide_eq_true_eq] at h
    obtain ⟨⟨⟨n, rfl⟩, h1⟩, h2⟩ := h
    exact ⟨n, by simp, by exact_mod_cast h1, by exact_mod_cast h2⟩
  | real lo hi =>
    simp only [inDomain, Bool.and_eq_true, geExt_iff, leExt_iff] at h
    exact (mem_iff_encl x ⟨lo, hi⟩).mpr h
  | nnreal lo hi =>
    simp only [inDomain, Bool.and_eq_true, geExt_iff, leExt_iff] at h
    have hm : Mem x ⟨lo, hi⟩ := (mem_iff_encl x ⟨lo, hi⟩).mpr h
    refine ⟨?_, hm⟩
    simp only [NNOK] at hnn
    have := hm.1
    cases lo <;> simp_all [Ext.le]
    linarith

/-! ### `from_domain` -/

theorem foldl_insert_other {β : Type} (f : DomVar (Ext K) → β) (n : String) : ∀ (dom : List (DomVar (Ext K)))
    (acc : List (String × β)), n ∉ dom.map (·.name) →
    AList.get? (dom.foldl (fun m d => AList.insert m d.name (f d)) acc) n = AList.get? acc n
  | [], acc, _ => rfl
  | d :: dom, acc, h => by
    simp only [List.map_cons, List.mem_cons, not_or] at h
    simp only [List.foldl_cons]
    rw [foldl_insert_other f n dom _ h.2, get?_insert, if_neg (fun hh => h.1 hh.symm)]

theorem foldl_insert_get {β : Type} (f : DomVar (Ext K) → β) : ∀ (dom : List (DomVar (Ext K)))
    (acc : List (String × β)), (dom.map (·.name)).Nodup → ∀ d ∈ dom,
    AList.get? (dom.foldl (fun m d => AList.insert m d.name (f d)) acc) d.name = some (f d)
  | [], _, _, d, hd => by cases hd
  | d0 :: dom, acc, hnd, d, hd => by
    simp only [List.map_cons, List.nodup_cons] at hnd
    simp only [List.foldl_cons]
    rcases List.mem_cons.mp hd with rfl | hd'
    · rw [foldl_insert_other f _ dom _ hnd.1, get?_insert, if_pos rfl]
    · exact foldl_insert_get f dom _ hnd.2 d hd'

theorem fromDomain_get {domain : List (DomVar (Ext K))} (tol : Ext K) (hnd : (domain.map (·.name)).Nodup)
    {d : DomVar (Ext K)} (hd : d ∈ domain) :
    AList.get? (Analyzer.fromDomain domain tol).variableBounds d.name = some (Bounds.ofVarType d.ty) := by
  simp only [Analyzer.fromDomain]
  exact foldl_insert_get (fun d => Bounds.ofVarType d.ty) domain [] hnd d hd

theorem fromDomain_get_none {domain : List (DomVar (Ext K))} (tol : Ext K) {n : String}
    (hn : n ∉ domain.map (·.name)) :
    AList.get? (Analyzer.fromDomain domain tol).variableBounds n = none := by
  simp only [Analyzer.fromDomain]
  rw [foldl_insert_other (fun d => Bounds.ofVarType d.ty) n domain [] hn]; rfl

theorem contains_insertSet (xs : List String) (x y : String) :
    (insertSet xs x).contains y = true ↔ xs.contains y = true ∨ y = x := by
  unfold insertSet
  by_cases h : xs.contains x = true
  · simp only [h, if_true]
    constructor
    · exact Or.inl
    · rintro (h' | rfl); exacts [h', h]
  · simp only [h, Bool.false_eq_true, if_false, List.contains_iff_mem, List.mem_append, List.mem_singleton]

theorem foldl_boolset (f : List String → DomVar (Ext K) → List String)
    (hf1 : ∀ s d0, d0.ty = .bool → f s d0 = insertSet s d0.name)
    (hf2 : ∀ s d0, d0.ty ≠ .bool → f s d0 = s) {d : DomVar (Ext K)} (hb : d.ty = .bool) :
    ∀ (dom : List (DomVar (Ext K))) (acc : List String), (acc.contains d.name = true ∨ d ∈ dom) →
      (dom.foldl f acc).contains d.name = true := by
  intro dom
  induction dom with
  | nil => intro acc h; rcases h with h | h; exacts [h, by cases h]
  | cons d0 dom ih =>
    intro acc h
    simp only [List.foldl_cons]
    apply ih
    rcases h with h | h
    · left
      by_cases hty : d0.ty = .bool
      · rw [hf1 _ _ hty]; exact (contains_insertSet _ _ _).mpr (Or.inl h)
      · rw [hf2 _ _ hty]; exact h
    · rcases List.mem_cons.mp h with rfl | h'
      · left; rw [hf1 _ _ hb]; exact (contains_insertSet _ _ _).mpr (Or.inr rfl)
      · exact Or.inr h'

theorem fromDomain_bool {domain : List (DomVar (Ext K))} (tol : Ext K) {d : DomVar (Ext K)} (hd : d ∈ domain)
    (hb : d.ty = .bool) : (Analyzer.fromDomain domain tol).booleanVariables.contains d.name = true := by
  simp only [Analyzer.fromDomain]
  apply foldl_boolset _ _ _ hb domain [] (Or.inr hd)
  · intro s d0 h; simp only [h]
  · intro s d0 h; cases hty : d0.ty <;> simp_all

/-- no declared endpoint is NaN. -/
def TyNoNaN : VarType (Ext K) → Prop
  | .real lo hi => lo ≠ .nan ∧ hi ≠ .nan
  | .nnreal lo hi => lo ≠ .nan ∧ hi ≠ .nan
  | _ => True

theorem ofVarType_noNaN {ty : VarType (Ext K)} (h : TyNoNaN ty) : NoNaNB (Bounds.ofVarType ty) := by
  cases ty with
  | bool => simp [Bounds.ofVarType, NoNaNB, Arith.zero, Arith.one, Arith.ofInt]
  | int lo hi => simp [Bounds.ofVarType, NoNaNB, Arith.ofInt]
  | real lo hi => exact h
  | nnreal lo hi => exact h

theorem fromDomain_noNaN {domain : List (DomVar (Ext K))} (tol : Ext K) (hnd : (domain.map (·.name)).Nodup)
    (hty : ∀ d ∈ domain, TyNoNaN d.ty) : NoNaNvb (Analyzer.fromDomain domain tol).variableBounds := by
  intro name
  simp only [Analyzer.varBounds]
  by_cases hn : name ∈ domain.map (·.name)
  · obtain ⟨d, hd, rfl⟩ := List.mem_map.mp hn
    rw [fromDomain_get tol hnd hd]
    exact ofVarType_noNaN (hty d hd)
  · rw [fromDomain_get_none tol hn]
    simp [NoNaNB, Bounds.unbounded, Arith.negInf, Arith.posInf]

/-! ### the analyzer state handed to the linearizer -/

/-- declared domains the bridge needs: distinct names, `i32` integer ranges (the Rust type), no NaN
endpoint, non-negative `NonNegativeReal` ranges, and every UNUSED declaration inhabited. -/
structure DeclOK (domain : List (DomVar (Ext K))) : Prop where
  nodup : (domain.map (·.name)).Nodup
  i32 : ∀ d ∈ domain, ∀ lo hi, d.ty = .int lo hi → i32Min ≤ lo ∧ hi ≤ i32Max
  noNaN : ∀ d ∈ domain, TyNoNaN d.ty
  nn : ∀ d ∈ domain, NNOK d.ty
  inhabited : ∀ d ∈ domain, d.usage = 0 → ∃ x : K, InDomain d.ty x

/-- what we know about `analyze … |> enforceable`. -/
structure AnOK (domain : List (DomVar (Ext K))) (tol : Ext K) (an : Analyzer (Ext K)) : Prop where
  tol : an.tolerance = tol
  noNaN : NoNaNvb an.variableBounds
  /-- the box of a declared variable is inside its declared range -/
  inDecl : ∀ d ∈ domain, ∀ x, Mem x (Analyzer.varBounds an.variableBounds d.name) → Mem x (Bounds.ofVarType d.ty)
  /-- Boolean entries are the declared `[0,1]` -/
  bool : ∀ d ∈ domain, d.ty = .bool → AList.get? an.variableBounds d.name = some (Bounds.ofVarType d.ty)
  /-- an integer variable whose rounded range is empty keeps the declared entry (`enforceable`) -/
  emptyInt : ∀ d ∈ domain, ∀ lo hi, d.ty = .int lo hi → ∀ b, AList.get? an.variableBounds d.name = some b →
    Arith.gt (ceil (sub b.lower an.tolerance)) (floor (add b.upper an.tolerance)) = true →
    b = Bounds.ofVarType d.ty

theorem fromDomain_anOK {domain : List (DomVar (Ext K))} (hok : DeclOK domain) (tol : Ext K) :
    AnOK domain tol (Analyzer.fromDomain domain tol) where
  tol := rfl
  noNaN := fromDomain_noNaN tol hok.nodup hok.noNaN
  inDecl d hd x hx := by
    simp only [Analyzer.varBounds, fromDomain_get tol hok.nodup hd, Option.getD_some] at hx; exact hx
  bool d hd _ := fromDomain_get tol hok.nodup hd
  emptyInt d hd lo hi _ b hb _ := by
    rw [fromDomain_get tol hok.nodup hd] at hb; cases hb; rfl

/-- an entry after the rounding loop is either untouched or belongs to an integer variable of the list. -/
theorem roundIntegerRanges_get_cases (name : String) : ∀ (dom : List (DomVar (Ext K))) (an : Analyzer (Ext K)),
    AList.get? (an.roundIntegerRanges dom).variableBounds name = AList.get? an.variableBounds name ∨
      ∃ d ∈ dom, (∃ lo hi, d.ty = .int lo hi) ∧ d.name = name
  | [], an => Or.inl rfl
  | d0 :: dom, an => by
    have ih := roundIntegerRanges_get_cases name dom (an.roundStep d0)
    simp only [Analyzer.roundIntegerRanges, List.foldl_cons] at ih ⊢
    rcases ih with ih | ⟨d, hd, hi, hn⟩
    · by_cases hn : d0.name = name
      · by_cases hint : ∃ lo hi, d0.ty = .int lo hi
        · exact Or.inr ⟨d0, List.mem_cons_self .., hint, hn⟩
        · left; rw [ih, roundStep_nonint an d0 hint]
      · left
        rw [ih]
        unfold Analyzer.roundStep
        split
        · split
          · simp only [get?_insert, if_neg hn]
          · rfl
        · rfl
    · exact Or.inr ⟨d, List.mem_cons_of_mem _ hd, hi, hn⟩

theorem analyzer_anOK_int {domain : List (DomVar (Ext K))} (hok : DeclOK domain) (cs : List (Constraint (Ext K)))
    {t : K} (h0 : 0 ≤ t) (h1 : t < 1) (maxSteps : Nat) :
    AnOK domain (.fin t) ((Analyzer.analyze domain cs (.fin t) maxSteps).enforceable domain) := by
  have hfd := fromDomain_anOK hok (.fin t : Ext K)
  obtain ⟨hbv, hshr, hbool⟩ := analyze_shr domain cs (.fin t) maxSteps
  obtain ⟨hnn, hsub⟩ := hshr hfd.noNaN
  have htol : (Analyzer.analyze domain cs (.fin t) maxSteps).tolerance = .fin t := by
    unfold Analyzer.analyze Analyzer.propagate
    exact propagateLoop_tolerance _ _ _ _ _ _ _
  obtain ⟨hZ, hcase⟩ := enforceable_shape domain cs h0 h1 maxSteps hok.nodup
  by_cases hreset : ((Analyzer.analyze domain cs (.fin t) maxSteps).detectedInfeasible ||
      (Analyzer.analyze domain cs (.fin t) maxSteps).emptyIntegerRange domain) = true
  · have he : (Analyzer.analyze domain cs (.fin t) maxSteps).enforceable domain =
        { Analyzer.fromDomain domain (Analyzer.analyze domain cs (.fin t) maxSteps).tolerance with
          detectedInfeasible := (Analyzer.analyze domain cs (.fin t) maxSteps).detectedInfeasible,
          reachedIterationLimit := (Analyzer.analyze domain cs (.fin t) maxSteps).reachedIterationLimit } := by
      unfold Analyzer.enforceable; rw [if_pos hreset]
    rw [he, htol]
    exact ⟨rfl, hfd.noNaN, hfd.inDecl, hfd.bool, hfd.emptyInt⟩
  · have hI : RInv domain t ((Analyzer.analyze domain cs (.fin t) maxSteps).enforceable domain) := by
      rcases hcase with h | h
      · exact absurd h hreset
      · exact h
    have he : (Analyzer.analyze domain cs (.fin t) maxSteps).enforceable domain =
        (Analyzer.analyze domain cs (.fin t) maxSteps).roundIntegerRanges domain := by
      unfold Analyzer.enforceable; rw [if_neg hreset]
    -- an entry of the rounded analyzer: untouched, or the integer entry of a declared integer variable
    have hentry : ∀ name, AList.get? ((Analyzer.analyze domain cs (.fin t) maxSteps).enforceable domain).variableBounds name
          = AList.get? (Analyzer.analyze domain cs (.fin t) maxSteps).variableBounds name ∨
        ∃ d ∈ domain, ∃ lo hi, d.ty = .int lo hi ∧ d.name = name ∧ ∃ m1 m2 : Int,
          AList.get? ((Analyzer.analyze domain cs (.fin t) maxSteps).enforceable domain).variableBounds name
            = some ⟨.fin (m1 : K), .fin (m2 : K)⟩ ∧ lo ≤ m1 ∧ m2 ≤ hi := by
      intro name
      rcases roundIntegerRanges_get_cases name domain (Analyzer.analyze domain cs (.fin t) maxSteps) with h | ⟨d, hd, ⟨lo, hi, hty⟩, hn⟩
      · left; rw [he]; exact h
      · right
        obtain ⟨m1, m2, hg, hb⟩ := hZ d hd lo hi hty
        exact ⟨d, hd, lo, hi, hty, hn, m1, m2, by rw [← hn]; exact hg, hb⟩
    refine ⟨by rw [enforceable_tol]; exact htol, ?_, ?_, ?_, ?_⟩
    · intro name
      rcases hentry name with h | ⟨d, hd, lo, hi, hty, hn, m1, m2, hg, _⟩
      · have := hnn name
        simpa [Analyzer.varBounds, h] using this
      · simp [Analyzer.varBounds, hg, NoNaNB]
    · intro d hd x hx
      cases hty : d.ty with
      | int lo hi =>
        obtain ⟨m1, m2, hg, h1', h2'⟩ := hZ d hd lo hi hty
        simp only [Analyzer.varBounds, hg, Option.getD_some] at hx
        simp only [Bounds.ofVarType, mem_iff, a_ofInt, LB_fin, UB_fin] at hx ⊢
        have e1 : ((lo : Int) : K) ≤ (m1 : K) := by exact_mod_cast h1'
        have e2 : ((m2 : Int) : K) ≤ (hi : K) := by exact_mod_cast h2'
        exact ⟨le_trans e1 hx.1, le_trans hx.2 e2⟩
      | _ =>
        rcases hentry d.name with h | ⟨d', hd', lo, hi, hty', hn, _⟩
        · have hx' : Mem x (Analyzer.varBounds (Analyzer.analyze domain cs (.fin t) maxSteps).variableBounds d.name) := by
            simpa [Analyzer.varBounds, h] using hx
          have := hfd.inDecl d hd x (hsub d.name x hx')
          rwa [hty] at this
        · have := domvar_eq_of_name hok.nodup hd' hd hn
          subst this; rw [hty'] at hty; cases hty
    · intro d hd hb
      rcases hentry d.name with h | ⟨d', hd', lo, hi, hty', hn, _⟩
      · rw [h, hbool d.name (fromDomain_bool (.fin t) hd hb)]
        exact hfd.bool d hd hb
      · have := domvar_eq_of_name hok.nodup hd' hd hn
        subst this; rw [hty'] at hb; cases hb
    · intro d hd lo hi hty b hb hgt
      exfalso
      obtain ⟨m1, m2, hg, _⟩ := hZ d hd lo hi hty
      rw [hg] at hb; cases hb
      have hne := hI.ne d hd lo hi hty m1 m2 hg
      rw [hI.tol, gt_round_fin] at hgt
      simp only [decide_eq_true_eq] at hgt
      omega

/-- no `IntegerRange` variable is declared (then the rounding loop of `enforceable` does nothing). -/
def NoIntVars (domain : List (DomVar (Ext K))) : Prop := ∀ d ∈ domain, ∀ lo hi, d.ty ≠ .int lo hi

theorem roundIntegerRanges_noint : ∀ (dom : List (DomVar (Ext K))) (an : Analyzer (Ext K)), NoIntVars dom →
    an.roundIntegerRanges dom = an
  | [], _, _ => rfl
  | d0 :: dom, an, h => by
    have h0 : an.roundStep d0 = an :=
      roundStep_nonint an d0 (fun ⟨lo, hi, hty⟩ => h d0 (List.mem_cons_self ..) lo hi hty)
    have ih := roundIntegerRanges_noint dom an (fun d hd => h d (List.mem_cons_of_mem _ hd))
    simp only [Analyzer.roundIntegerRanges, List.foldl_cons] at ih ⊢
    rw [h0, ih]

theorem analyzer_anOK_noint {domain : List (DomVar (Ext K))} (hok : DeclOK domain) (cs : List (Constraint (Ext K)))
    (tol : Ext K) (maxSteps : Nat) (hni : NoIntVars domain) :
    AnOK domain tol ((Analyzer.analyze domain cs tol maxSteps).enforceable domain) := by
  have hfd := fromDomain_anOK hok tol
  obtain ⟨hbv, hshr, hbool⟩ := analyze_shr domain cs tol maxSteps
  obtain ⟨hnn, hsub⟩ := hshr hfd.noNaN
  have htol : (Analyzer.analyze domain cs tol maxSteps).tolerance = tol := by
    unfold Analyzer.analyze Analyzer.propagate
    exact propagateLoop_tolerance _ _ _ _ _ _ _
  unfold Analyzer.enforceable
  rw [roundIntegerRanges_noint domain _ hni]
  split
  · rw [htol]
    exact ⟨rfl, hfd.noNaN, hfd.inDecl, hfd.bool, hfd.emptyInt⟩
  · refine ⟨htol, hnn, fun d hd x hx => hfd.inDecl d hd x (hsub d.name x hx), ?_, ?_⟩
    · intro d hd hb
      rw [hbool d.name (fromDomain_bool tol hd hb)]
      exact hfd.bool d hd hb
    · intro d hd lo hi hty
      exact absurd hty (hni d hd lo hi)

/-- the analyzer state of the pipeline, for every tolerance `0 ≤ t < 1`, or every `t` when no integer variable is
declared. -/
theorem analyzer_anOK {domain : List (DomVar (Ext K))} (hok : DeclOK domain) (cs : List (Constraint (Ext K)))
    {t : K} (h0 : 0 ≤ t) (h1 : t < 1 ∨ NoIntVars domain) (maxSteps : Nat) :
    AnOK domain (.fin t) ((Analyzer.analyze domain cs (.fin t) maxSteps).enforceable domain) := by
  rcases h1 with h1 | h1
  · exact analyzer_anOK_int hok cs h0 h1 maxSteps
  · exact analyzer_anOK_noint hok cs _ maxSteps h1

/-! ### `apply_to_domain` against the box -/

theorem applyToVar_name (an : Analyzer (Ext K)) (d : DomVar (Ext K)) : (an.applyToVar d).name = d.name := by
  unfold Analyzer.applyToVar
  split
  · rfl
  · split
    · rfl
    · dsimp only; split <;> rfl
    · rfl
    · rfl

theorem applyToVar_usage (an : Analyzer (Ext K)) (d : DomVar (Ext K)) : (an.applyToVar d).usage = d.usage := by
  unfold Analyzer.applyToVar
  split
  · rfl
  · split
    · rfl
    · dsimp only; split <;> rfl
    · rfl
    · rfl

theorem inScope_applyToDomain (an : Analyzer (Ext K)) (domain : List (DomVar (Ext K))) (x : String) :
    inScope (an.applyToDomain domain) x ↔ inScope domain x := by
  simp only [inScope, Analyzer.applyToDomain, List.mem_map]
  constructor
  · rintro ⟨dv, ⟨d, hd, rfl⟩, hn, hu⟩
    exact ⟨d, hd, by rw [← hn, applyToVar_name], by rw [← applyToVar_usage an d]; exact hu⟩
  · rintro ⟨d, hd, hn, hu⟩
    exact ⟨_, ⟨d, hd, rfl⟩, by rw [applyToVar_name]; exact hn, by rw [applyToVar_usage]; exact hu⟩

/-- **the hypothesis that excludes the integer-tolerance defect**: the end points of the published
(tolerantly rounded) range of every integer variable lie inside the analyzer's box — so pruning and big-M,
which read the box, are covered by the published domain.  Decidable from the computed analyzer; true when
no inferred end point lies strictly inside an integer by less than the tolerance (e.g. for `tol = 0`). -/
def IntRangesInBox (an : Analyzer (Ext K)) (domain : List (DomVar (Ext K))) : Prop :=
  ∀ d ∈ domain, ∀ lo hi, d.ty = .int lo hi → ∀ b, AList.get? an.variableBounds d.name = some b →
    Arith.gt (ceil (sub b.lower an.tolerance)) (floor (add b.upper an.tolerance)) = false →
    Mem (((toI32 (ceil (sub b.lower an.tolerance)) : Int)) : K) b ∧
    Mem (((toI32 (floor (add b.upper an.tolerance)) : Int)) : K) b

theorem LB_mono {a : Ext K} {x y : K} (h : LB a x) (hxy : x ≤ y) : LB a y := by
  cases a <;> simp_all [LB, Ext.le]; linarith
theorem UB_mono {a : Ext K} {x y : K} (h : UB a y) (hxy : x ≤ y) : UB a x := by
  cases a <;> simp_all [UB, Ext.le]; linarith

/-- **`enforceable_int_ranges_in_box`** — after `enforceable` (fix b9d407a) the range `apply_to_domain` publishes
for an `IntegerRange` variable is its box: the hypothesis `IntRangesInBox` of the pipeline theorems holds for
the analyzer the pipeline computes, for every tolerance `0 ≤ t < 1`. -/
theorem enforceable_int_ranges_in_box {domain : List (DomVar (Ext K))} (hok : DeclOK domain)
    (cs : List (Constraint (Ext K))) {t : K} (h0 : 0 ≤ t) (h1 : t < 1) (maxSteps : Nat) :
    IntRangesInBox ((Analyzer.analyze domain cs (.fin t) maxSteps).enforceable domain) domain := by
  obtain ⟨hZ, _⟩ := enforceable_shape domain cs h0 h1 maxSteps hok.nodup
  have htol : ((Analyzer.analyze domain cs (.fin t) maxSteps).enforceable domain).tolerance = .fin t := by
    rw [enforceable_tol]
    unfold Analyzer.analyze Analyzer.propagate
    exact propagateLoop_tolerance _ _ _ _ _ _ _
  intro d hd lo hi hty b hb hgt
  obtain ⟨m1, m2, hg, hl, hu⟩ := hZ d hd lo hi hty
  rw [hg] at hb; cases hb
  obtain ⟨hlo, hhi⟩ := hok.i32 d hd lo hi hty
  rw [htol, gt_round_fin] at hgt
  simp only [decide_eq_false_iff_not, not_lt] at hgt
  rw [ceil_int_sub h0 h1, floor_int_add h0 h1] at hgt
  have hr := round_fin (m1 : K) (m2 : K) t
  simp only [Bounds.mk.injEq] at hr
  rw [htol, hr.1, hr.2, ceil_int_sub h0 h1, floor_int_add h0 h1, toI32_int, toI32_int]
  have e12 : m1 ≤ m2 := hgt
  have clamp_id : ∀ m : Int, i32Min ≤ m → m ≤ i32Max → Ext.clampInt i32Min i32Max m = m := by
    intro m ha hb
    unfold Ext.clampInt
    rw [if_neg (by omega), if_neg (by omega)]
  have c1 : Ext.clampInt i32Min i32Max m1 = m1 := clamp_id m1 (by omega) (by omega)
  have c2 : Ext.clampInt i32Min i32Max m2 = m2 := clamp_id m2 (by omega) (by omega)
  rw [c1, c2]
  have e : (m1 : K) ≤ (m2 : K) := by exact_mod_cast hgt
  exact ⟨⟨by simp [Ext.le], by simpa [Ext.le] using e⟩, ⟨by simpa [Ext.le] using e, by simp [Ext.le]⟩⟩

theorem intRangesInBox_pipeline {domain : List (DomVar (Ext K))} (hok : DeclOK domain)
    (cs : List (Constraint (Ext K))) {t : K} (h0 : 0 ≤ t) (h1 : t < 1 ∨ NoIntVars domain) (maxSteps : Nat) :
    IntRangesInBox ((Analyzer.analyze domain cs (.fin t) maxSteps).enforceable domain) domain := by
  rcases h1 with h1 | h1
  · exact enforceable_int_ranges_in_box hok cs h0 h1 maxSteps
  · intro d hd lo hi hty; exact absurd hty (h1 d hd lo hi)

/-- a value in the PUBLISHED domain of a variable lies in the analyzer's box for it. -/
theorem applyToVar_enclosed {domain : List (DomVar (Ext K))} {tol : Ext K} {an : Analyzer (Ext K)}
    (hA : AnOK domain tol an) (hint : IntRangesInBox an domain) {d : DomVar (Ext K)} (hd : d ∈ domain)
    {b : Rooc.Bounds (Ext K)} (hb : AList.get? an.variableBounds d.name = some b) {x : K}
    (hx : inDomain x (an.applyToVar d).ty = true) : Mem x b := by
  have hnn : NoNaNB b := by
    have := hA.noNaN d.name
    simpa [Analyzer.varBounds, hb] using this
  unfold Analyzer.applyToVar at hx
  simp only [hb] at hx
  cases hty : d.ty with
  | bool =>
    simp only [hty] at hx
    have := hA.bool d hd hty
    rw [hb] at this
    cases this
    rw [hty]
    have h01 := B01_of_inDomain_bool hx
    rcases h01 with rfl | rfl <;> simp [Bounds.ofVarType, mem_iff]
  | real lo hi =>
    simp only [hty, inDomain, Bool.and_eq_true, geExt_iff, leExt_iff] at hx
    exact (mem_iff_encl x b).mpr hx
  | nnreal lo hi =>
    simp only [hty, inDomain, Bool.and_eq_true, geExt_iff, leExt_iff] at hx
    refine (mem_iff_encl x b).mpr ⟨?_, hx.2⟩
    have h1 := hx.1
    by_cases hg : Arith.gt b.lower (Arith.zero : Ext K) = true
    · rw [if_pos hg] at h1; exact h1
    · rw [if_neg hg] at h1
      have hbl := hnn.1
      cases hl : b.lower with
      | nan => exact absurd hl hbl
      | ninf => simp [lowerOK]
      | pinf => rw [hl] at hg; simp [Arith.gt, Arith.lt, Ext.lt, Arith.zero, Arith.ofInt] at hg
      | fin a =>
        rw [hl] at hg
        simp only [Arith.gt, Arith.lt, Arith.zero, Arith.ofInt, Ext.lt, ef_lt, ef_ofInt, Int.cast_zero,
          decide_eq_true_eq, not_lt] at hg
        simp only [lowerOK, Arith.zero, Arith.ofInt, ef_ofInt, Int.cast_zero] at h1 ⊢
        linarith
  | int lo hi =>
    simp only [hty] at hx
    by_cases hg : Arith.gt (ceil (sub b.lower an.tolerance)) (floor (add b.upper an.tolerance)) = true
    · rw [if_pos hg, hty] at hx
      have := hA.emptyInt d hd lo hi hty b hb hg
      rw [this, hty]
      exact mem_ofVarType (InDomain_of_inDomain (ty := .int lo hi) trivial hx)
    · rw [if_neg hg] at hx
      obtain ⟨m1, m2⟩ := hint d hd lo hi hty b hb (by simpa using hg)
      simp only [inDomain, Bool.and_eq_true, isIntK_iff, ef_le, ef_ofInt, decide_eq_true_eq] at hx
      obtain ⟨⟨_, h1⟩, h2⟩ := hx
      exact ⟨LB_mono m1.1 h1, UB_mono m2.2 h2⟩

theorem lookupB_toLinBounds (vb : List (String × Rooc.Bounds (Ext K))) (n : String) :
    lookupB (Compile.toLinBounds vb) n = (AList.get? vb n).map fun b => (⟨b.lower, b.upper⟩ : Lin.Bounds (Ext K)) := by
  induction vb with
  | nil => rfl
  | cons p vb ih =>
    obtain ⟨k, v⟩ := p
    simp only [Compile.toLinBounds, List.map_cons] at ih ⊢
    rw [lookupB_cons]
    simp only [AList.get?]
    by_cases h : k = n
    · simp [h]
    · have : (k == n) = false := by simpa using h
      simp only [h, this, if_false]
      exact ih

/-- `BoxEnforced` for what the pipeline computes. -/
theorem boxEnforced_pipeline {domain : List (DomVar (Ext K))} {tol : Ext K} {an : Analyzer (Ext K)}
    (hA : AnOK domain tol an) (hint : IntRangesInBox an domain) (hnd : (domain.map (·.name)).Nodup) :
    BoxEnforced (Compile.toLinBounds an.variableBounds) (an.applyToDomain domain) := by
  intro ρ hd n bd hs hl
  rw [lookupB_toLinBounds] at hl
  cases hg : AList.get? an.variableBounds n with
  | none => simp [hg] at hl
  | some b =>
    simp only [hg, Option.map_some, Option.some.injEq] at hl
    subst hl
    obtain ⟨d, hdm, rfl, hu⟩ := (inScope_applyToDomain an domain n).mp hs
    have hdx := hd (an.applyToVar d) (by simp only [Analyzer.applyToDomain]; exact List.mem_map.mpr ⟨d, hdm, rfl⟩)
      (by rw [applyToVar_usage]; exact hu)
    rw [applyToVar_name] at hdx
    exact (mem_iff_encl _ b).mp (applyToVar_enclosed hA hint hdm hg hdx)

/-- the tightened domain only shrinks the declared one. -/
theorem tight_pipeline {domain : List (DomVar (Ext K))} {tol : Ext K} {an : Analyzer (Ext K)}
    (hA : AnOK domain tol an) (hint : IntRangesInBox an domain) (ρ : String → K)
    (hd : DomSat ρ (an.applyToDomain domain)) : DomSat ρ domain := by
  intro d hdm hu
  have hdx := hd (an.applyToVar d) (by simp only [Analyzer.applyToDomain]; exact List.mem_map.mpr ⟨d, hdm, rfl⟩)
    (by rw [applyToVar_usage]; exact hu)
  rw [applyToVar_name] at hdx
  cases hg : AList.get? an.variableBounds d.name with
  | none =>
    unfold Analyzer.applyToVar at hdx
    simpa [hg] using hdx
  | some b =>
    have hm : Mem (ρ d.name) b := applyToVar_enclosed hA hint hdm hg hdx
    have hdecl : Mem (ρ d.name) (Bounds.ofVarType d.ty) :=
      hA.inDecl d hdm _ (by simpa [Analyzer.varBounds, hg] using hm)
    unfold Analyzer.applyToVar at hdx
    simp only [hg] at hdx
    cases hty : d.ty with
    | bool => simpa [hty] using hdx
    | real lo hi =>
      rw [hty] at hdecl
      simp only [inDomain, Bool.and_eq_true, geExt_iff, leExt_iff]
      exact (mem_iff_encl _ ⟨lo, hi⟩).mp hdecl
    | nnreal lo hi =>
      rw [hty] at hdecl
      simp only [inDomain, Bool.and_eq_true, geExt_iff, leExt_iff]
      exact (mem_iff_encl _ ⟨lo, hi⟩).mp hdecl
    | int lo hi =>
      rw [hty] at hdecl
      simp only [hty] at hdx
      by_cases hgt : Arith.gt (ceil (sub b.lower an.tolerance)) (floor (add b.upper an.tolerance)) = true
      · rw [if_pos hgt, hty] at hdx; exact hdx
      · rw [if_neg hgt] at hdx
        simp only [inDomain, Bool.and_eq_true, isIntK_iff, ef_le, ef_ofInt, decide_eq_true_eq] at hdx ⊢
        obtain ⟨⟨hint', _⟩, _⟩ := hdx
        simp only [Bounds.ofVarType, mem_iff, a_ofInt, LB_fin, UB_fin, ef_ofInt] at hdecl
        exact ⟨⟨hint', hdecl.1⟩, hdecl.2⟩

/-! ### soundness of the published domain at every source-feasible assignment (C07 + C10) -/

open Classical in
/-- some value in the domain (0 if there is none). -/
noncomputable def tyWitness (ty : VarType (Ext K)) : K :=
  if h : ∃ x : K, InDomain ty x then Classical.choose h else 0

open Classical in
/-- `ρ` on the used variables, an in-domain value on every unused declaration. -/
noncomputable def fixUnused (ρ : String → K) (domain : List (DomVar (Ext K))) : String → K :=
  fun n => if inScope domain n then ρ n else
    match domain.find? (fun d => d.name == n) with
    | some d => tyWitness d.ty
    | none => 0

theorem fixUnused_used {ρ : String → K} {domain : List (DomVar (Ext K))} {n : String} (h : inScope domain n) :
    fixUnused ρ domain n = ρ n := by
  unfold fixUnused; rw [if_pos h]

theorem find_of_nodup {domain : List (DomVar (Ext K))} (hnd : (domain.map (·.name)).Nodup) {d : DomVar (Ext K)}
    (hd : d ∈ domain) : domain.find? (fun x => x.name == d.name) = some d := by
  cases hf : domain.find? (fun x => x.name == d.name) with
  | none =>
    rw [List.find?_eq_none] at hf
    exact absurd (by simp) (hf d hd)
  | some d' =>
    have hm := List.mem_of_find?_eq_some hf
    have hn : d'.name = d.name := by simpa using List.find?_some hf
    rw [domvar_eq_of_name hnd hm hd hn]

theorem fixUnused_inDomain {ρ : String → K} {domain : List (DomVar (Ext K))} (hok : DeclOK domain)
    (hd : DomSat ρ domain) : ∀ d ∈ domain, InDomain d.ty (fixUnused ρ domain d.name) := by
  intro d hdm
  by_cases hu : d.usage > 0
  · rw [fixUnused_used ⟨d, hdm, rfl, hu⟩]
    exact InDomain_of_inDomain (hok.nn d hdm) (hd d hdm hu)
  · have hu0 : d.usage = 0 := by omega
    have hns : ¬ inScope domain d.name := by
      rintro ⟨d', hd', hn, hu'⟩
      have := domvar_eq_of_name hok.nodup hd' hdm hn
      subst this; omega
    unfold fixUnused
    rw [if_neg hns, find_of_nodup hok.nodup hdm]
    simp only
    have hex := hok.inhabited d hdm hu0
    unfold tyWitness
    rw [dif_pos hex]
    exact Classical.choose_spec hex

theorem nfb_cons (c0 : Constraint (Ext K)) (cs0 : List (Constraint (Ext K))) (h0 : c0.isAssert = false) :
    Compile.normalizedForBounds (c0 :: cs0) =
      (Compile.normalizedForBounds cs0).bind fun rest =>
        (normalizeExp c0.lhs).bind fun l => (normalizeExp c0.rhs).bind fun r =>
          some ({ c0 with lhs := l, rhs := r } :: rest) := by
  simp only [Compile.normalizedForBounds, List.foldr_cons, h0]
  rfl

/-- the shape of `normalized_for_bounds` on comparison constraints. -/
theorem normalizedForBounds_mem : ∀ (cs0 cs : List (Constraint (Ext K))),
    Compile.normalizedForBounds cs0 = some cs → (∀ c ∈ cs0, c.isAssert = false) →
    ∀ c' ∈ cs, ∃ c ∈ cs0, ∃ l r, normalizeExp c.lhs = some l ∧ normalizeExp c.rhs = some r ∧
      c' = { c with lhs := l, rhs := r }
  | [], cs, h, _ => by
    simp only [Compile.normalizedForBounds, List.foldr_nil, Option.some.injEq] at h
    subst h; intro c' hc'; cases hc'
  | c0 :: cs0, cs, h, hna => by
    rw [nfb_cons c0 cs0 (hna c0 (by simp))] at h
    cases hrest : Compile.normalizedForBounds cs0 with
    | none => simp [hrest] at h
    | some rest =>
      cases hl : normalizeExp c0.lhs with
      | none => simp [hrest, hl] at h
      | some l =>
        cases hr : normalizeExp c0.rhs with
        | none => simp [hrest, hl, hr] at h
        | some r =>
          simp only [hrest, hl, hr, Option.bind_some, Option.some.injEq] at h
          subst h
          intro c' hc'
          rcases List.mem_cons.mp hc' with rfl | hc'
          · exact ⟨c0, by simp, l, r, hl, hr, rfl⟩
          · obtain ⟨c, hc, rest'⟩ := normalizedForBounds_mem cs0 rest hrest
              (fun c hc => hna c (by simp [hc])) c' hc'
            exact ⟨c, by simp [hc], rest'⟩

theorem cmpHolds_of_cmpK {c : Cmp} {a b : K} (h : cmpK c a b = true) : BoundsSem.cmpHolds c a b := by
  cases c <;> simp_all [cmpK, BoundsSem.cmpHolds]

/-- the published domain contains every assignment that satisfies the declared domains and, after the unused
variables are moved into their ranges, the constraints the bound inference reads — `analyze`, `enforceable` and
`apply_to_domain` (C07). -/
theorem sound_pipeline_core {m : Model (Ext K)} {t : K} (ht : 0 ≤ t) (maxSteps : Nat)
    (hok : DeclOK m.domain) {cs : List (Constraint (Ext K))} (ρ : String → K) (hd : DomSat ρ m.domain)
    (hholds : ∀ c' ∈ cs, Holds (fixUnused ρ m.domain) c') :
    DomSat ρ (((Analyzer.analyze m.domain cs (.fin t) maxSteps).enforceable m.domain).applyToDomain m.domain) := by
  set ρ' := fixUnused ρ m.domain with hρ'
  have hdom : ∀ d ∈ m.domain, InDomain d.ty (ρ' d.name) := fixUnused_inDomain hok hd
  have hag : ∀ x, inScope m.domain x → ρ' x = ρ x := fun x hx => fixUnused_used hx
  have htolA : (Analyzer.analyze m.domain cs (.fin t) maxSteps).tolerance = .fin t := by
    unfold Analyzer.analyze Analyzer.propagate
    exact propagateLoop_tolerance _ _ _ _ _ _ _
  have htolE : ((Analyzer.analyze m.domain cs (.fin t) maxSteps).enforceable m.domain).tolerance = .fin t := by
    rw [enforceable_tol]; exact htolA
  have hbox0 : InBox ρ' (Analyzer.analyze m.domain cs (.fin t) maxSteps).variableBounds := by
    unfold Analyzer.analyze Analyzer.propagate
    exact propagateLoop_inBox cs hholds _ _ _ _ _ (fromDomain_inBox m.domain (.fin t) hdom)
  have hbox : InBox ρ' ((Analyzer.analyze m.domain cs (.fin t) maxSteps).enforceable m.domain).variableBounds := by
    unfold Analyzer.enforceable
    split
    · exact fromDomain_inBox m.domain (Analyzer.analyze m.domain cs (.fin t) maxSteps).tolerance hdom
    · exact roundIntegerRanges_inBox t ht m.domain _ htolA hdom hbox0
  have hpub : ∀ d' ∈ ((Analyzer.analyze m.domain cs (.fin t) maxSteps).enforceable m.domain).applyToDomain m.domain,
      InDomain d'.ty (ρ' d'.name) := by
    intro d' hd'
    simp only [Analyzer.applyToDomain, List.mem_map] at hd'
    obtain ⟨d, hdm, rfl⟩ := hd'
    obtain ⟨h1, h2⟩ := applyToVar_inDomain _ d t htolE ht (hok.i32 d hdm) hbox (hdom d hdm)
    rw [h1]; exact h2
  intro d' hd' hu
  have hsc : inScope m.domain d'.name := by
    simp only [Analyzer.applyToDomain, List.mem_map] at hd'
    obtain ⟨d, hdm, rfl⟩ := hd'
    rw [applyToVar_name]
    rw [applyToVar_usage] at hu
    exact ⟨d, hdm, rfl, hu⟩
  have := inDomain_of_InDomain (hpub d' hd')
  rwa [hag _ hsc] at this

/-- **the published domain contains every source-feasible assignment** — through the normalisation the
bound inference reads (C10), `analyze`, `enforceable` and `apply_to_domain` (C07). -/
theorem sound_pipeline {m : Model (Ext K)} {t : K} (ht : 0 ≤ t) (maxSteps : Nat)
    (hm : FragModel true m m.domain) (hok : DeclOK m.domain) {cs : List (Constraint (Ext K))}
    (hcs : Compile.normalizedForBounds m.constraints = some cs) (ρ : String → K) (hs : srcFeasible m ρ = true) :
    DomSat ρ (((Analyzer.analyze m.domain cs (.fin t) maxSteps).enforceable m.domain).applyToDomain m.domain) := by
  obtain ⟨hc, hd⟩ := (srcFeasible_iff m ρ).mp hs
  refine sound_pipeline_core ht maxSteps hok ρ hd ?_
  have hag : ∀ x, inScope m.domain x → fixUnused ρ m.domain x = ρ x := fun x hx => fixUnused_used hx
  intro c' hc'
  obtain ⟨c, hcm, l, r, hl, hr, rfl⟩ := normalizedForBounds_mem _ _ hcs (fun c hc => (hm.cons c hc).notAssert) c' hc'
  have hsc := hm.cons c hcm
  obtain ⟨a, b, ha, hb⟩ := hsc.defined ρ
  have hcmp : cmpK c.cmp a b = true := by
    have := hc c hcm
    rwa [constraintHolds_arith hsc.notAssert ha hb] at this
  have ha' : eval (fixUnused ρ m.domain) c.lhs = some a := by
    rw [eval_congr c.lhs (fun x hx => hag x (hsc.lhs.2 x hx))]; exact ha
  have hb' : eval (fixUnused ρ m.domain) c.rhs = some b := by
    rw [eval_congr c.rhs (fun x hx => hag x (hsc.rhs.2 x hx))]; exact hb
  exact ⟨a, b, normalize_eval_frag hsc.lhs.1 hl ha', normalize_eval_frag hsc.rhs.1 hr hb', cmpHolds_of_cmpK hcmp⟩

/-! ### C01 / C02 for the whole pipeline `Compile.linearize` -/

/-- the analyzer state `Compile.linearize` hands to the linearizer (`none` = flatten fuel exhausted). -/
def pipelineAnalyzer {α : Type} [Arith α] (m : Model α) (tol : α) (maxSteps : Nat) : Option (Analyzer α) :=
  (Compile.normalizedForBounds m.constraints).map fun cs =>
    (Analyzer.analyze m.domain cs tol maxSteps).enforceable m.domain

/-- the up-front collapse check of `Linearizer::linearize` (fix e35561f) went through on the scratch context. -/
def scratchOK {α : Type} [Arith α] (m : Model α) (tol : α) (maxSteps : Nat) : Prop :=
  ∃ r, collapseCheckAll m (Compile.scratchState m tol maxSteps) = .ok r

theorem compile_ok_iff {α : Type} [Arith α] (m : Model α) (tol : α) (maxSteps : Nat) (lm : LinModel α) :
    Compile.linearize m tol maxSteps = .ok lm ↔
      scratchOK m tol maxSteps ∧ ∃ an, pipelineAnalyzer m tol maxSteps = some an ∧
        linearizeWith m (Compile.toLinBounds an.variableBounds) (an.applyToDomain m.domain) = .ok lm := by
  unfold Compile.linearize pipelineAnalyzer scratchOK
  cases hchk : collapseCheckAll m (Compile.scratchState m tol maxSteps) with
  | error e => simp
  | ok r =>
    have hex : ∃ r', (Except.ok r : Except LinErr (Unit × St α)) = .ok r' := ⟨r, rfl⟩
    cases hcs : Compile.normalizedForBounds m.constraints with
    | none => simp
    | some cs =>
      simp only [Option.map_some, Option.some.injEq, exists_eq_left', hex, true_and]
      rfl

/-- the piecewise-linear fragment has no logic node: the collapse check does nothing. -/
theorem collapseCheck_frag {ext : Bool} : ∀ (e : Exp (Ext K)), frag ext e = true →
    ∀ s : St (Ext K), collapseCheck e s = .ok ((), s) := by
  have hlist : ∀ (es : List (Exp (Ext K))), (∀ e ∈ es, ∀ s : St (Ext K), collapseCheck e s = .ok ((), s)) →
      ∀ s : St (Ext K), collapseCheckList es s = .ok ((), s) := by
    intro es
    induction es with
    | nil => intro _ s; rw [collapseCheckList]; rfl
    | cons x xs ih =>
      intro h s
      rw [collapseCheckList]
      simp only [bind_ok]
      exact ⟨⟨⟩, s, h x (by simp) s, ih (fun e he => h e (by simp [he])) s⟩
  intro e
  induction e using Exp.indL with
  | num v => intro _ s; rw [collapseCheck]; rfl
  | var x => intro _ s; rw [collapseCheck]; rfl
  | abs e ih => intro h s; rw [collapseCheck]; exact ih (by simpa [frag] using h) s
  | min es ih =>
    intro h s
    simp only [frag, Bool.and_eq_true, fragList_iff] at h
    rw [collapseCheck]; exact hlist es (fun e he => ih e he (h.2 e he)) s
  | max es ih =>
    intro h s
    simp only [frag, Bool.and_eq_true, fragList_iff] at h
    rw [collapseCheck]; exact hlist es (fun e he => ih e he (h.2 e he)) s
  | bin op a b iha ihb =>
    intro h s
    simp only [frag, Bool.and_eq_true] at h
    cases op <;> simp [isArithOp] at h <;>
      (rw [collapseCheck]
       · simp only [bind_ok]
         exact ⟨⟨⟩, s, iha h.1 s, ⟨⟩, s, ihb h.2 s, rfl⟩
       all_goals (intro hh; cases hh))
  | un op e ih =>
    intro h s
    cases op with
    | neg => rw [collapseCheck]; exact ih (by simpa [frag] using h) s
    | not => simp [frag] at h
  | _ => intro h; simp [frag] at h

theorem collapseCheckConstraints_frag {ext : Bool} : ∀ (cs : List (Constraint (Ext K))),
    (∀ c ∈ cs, frag ext c.lhs = true ∧ (c.isAssert = false → frag ext c.rhs = true)) →
    ∀ s : St (Ext K), collapseCheckConstraints cs s = .ok ((), s)
  | [], _, s => by rw [collapseCheckConstraints]; rfl
  | c :: cs, h, s => by
    have ih := collapseCheckConstraints_frag cs (fun x hx => h x (by simp [hx])) s
    have hl := collapseCheck_frag _ (h c (by simp)).1 s
    rw [collapseCheckConstraints]
    cases hA : c.isAssert
    · have hr := collapseCheck_frag _ ((h c (by simp)).2 hA) s
      simp only [Bool.not_false, if_true, bind_ok]
      exact ⟨⟨⟩, s, hl, ⟨⟩, s, hr, ih⟩
    · simp only [Bool.not_true, Bool.false_eq_true, if_false, bind_ok]
      exact ⟨⟨⟩, s, hl, ih⟩

/-- a model without logic nodes passes the up-front collapse check (it has nothing to do). -/
theorem scratchOK_frag {ext : Bool} {m : Model (Ext K)} (tol : Ext K) (maxSteps : Nat)
    (hobj : frag ext m.objective = true)
    (hcons : ∀ c ∈ m.constraints, frag ext c.lhs = true ∧ (c.isAssert = false → frag ext c.rhs = true)) :
    scratchOK m tol maxSteps := by
  refine ⟨((), Compile.scratchState m tol maxSteps), ?_⟩
  unfold collapseCheckAll
  simp only [bind_ok]
  exact ⟨⟨⟩, _, collapseCheck_frag _ hobj _, collapseCheckConstraints_frag _ hcons _⟩

/-- a decidable form of "no logic node anywhere in the model". -/
def fragCheck (m : Model (Ext K)) : Bool :=
  frag true m.objective && m.constraints.all (fun c => frag true c.lhs && frag true c.rhs)

theorem scratchOK_of_fragCheck {m : Model (Ext K)} (tol : Ext K) (maxSteps : Nat) (h : fragCheck m = true) :
    scratchOK m tol maxSteps := by
  simp only [fragCheck, Bool.and_eq_true, List.all_eq_true] at h
  exact scratchOK_frag (ext := true) tol maxSteps h.1 (fun c hc => ⟨(h.2 c hc).1, fun _ => (h.2 c hc).2⟩)

theorem scratchOK_fragModel {m : Model (Ext K)} {d : List (DomVar (Ext K))} (hm : FragModel true m d)
    (tol : Ext K) (maxSteps : Nat) : scratchOK m tol maxSteps :=
  scratchOK_frag tol maxSteps hm.obj.1 (fun c hc => ⟨(hm.cons c hc).lhs.1, fun _ => (hm.cons c hc).rhs.1⟩)

theorem fragModel_applyToDomain {m : Model (Ext K)} (an : Analyzer (Ext K)) (hm : FragModel true m m.domain) :
    FragModel true m (an.applyToDomain m.domain) := by
  have hs : ∀ x, inScope m.domain x → inScope (an.applyToDomain m.domain) x :=
    fun x hx => (inScope_applyToDomain an m.domain x).mpr hx
  exact ⟨hm.obj.mono hs, hm.objDefined, fun c hc =>
    ⟨(hm.cons c hc).notAssert, (hm.cons c hc).lhs.mono hs, (hm.cons c hc).rhs.mono hs, (hm.cons c hc).defined⟩⟩

/-- `DomRel` and `BoxEnforced` for the `b`, `d` the pipeline computes. -/
theorem pipeline_hyps {m : Model (Ext K)} {t : K} (ht : 0 ≤ t) (maxSteps : Nat)
    (hm : FragModel true m m.domain) (hok : DeclOK m.domain) {an : Analyzer (Ext K)}
    (han : pipelineAnalyzer m (.fin t) maxSteps = some an) (ht1 : t < 1 ∨ NoIntVars m.domain) :
    DomRel m (an.applyToDomain m.domain) ∧
    BoxEnforced (Compile.toLinBounds an.variableBounds) (an.applyToDomain m.domain) := by
  unfold pipelineAnalyzer at han
  cases hcs : Compile.normalizedForBounds m.constraints with
  | none => simp [hcs] at han
  | some cs =>
    simp only [hcs, Option.map_some, Option.some.injEq] at han
    subst han
    have hA := analyzer_anOK hok cs ht ht1 maxSteps
    have hint := intRangesInBox_pipeline hok cs ht ht1 maxSteps
    refine ⟨⟨?_, tight_pipeline hA hint, sound_pipeline ht maxSteps hm hok hcs, ?_⟩,
      boxEnforced_pipeline hA hint hok.nodup⟩
    · have : (Analyzer.applyToDomain ((Analyzer.analyze m.domain cs (.fin t) maxSteps).enforceable m.domain)
          m.domain).map (·.name) = m.domain.map (·.name) := by
        simp only [Analyzer.applyToDomain, List.map_map]
        exact List.map_congr_left (fun d _ => applyToVar_name _ d)
      rw [this]; exact hok.nodup
    · intro dv hdv hu
      exact (inScope_applyToDomain _ m.domain dv.name).mpr ⟨dv, hdv, rfl, hu⟩

theorem compile_feasible_iff {m : Model (Ext K)} {t : K} (ht : 0 ≤ t) {maxSteps : Nat} {lm : LinModel (Ext K)}
    (h : Compile.linearize m (.fin t) maxSteps = .ok lm)
    (hm : FragModel true m m.domain) (hok : DeclOK m.domain)
    (ht1 : t < 1 ∨ NoIntVars m.domain) (ρ : String → K) :
    srcFeasible m ρ = true ↔
      ∃ ρ' : String → K, (∀ x, inScope m.domain x → ρ' x = ρ x) ∧ linFeasible lm ρ' = true := by
  obtain ⟨_, an, han, hlin⟩ := (compile_ok_iff m _ maxSteps lm).mp h
  obtain ⟨hdom, hbox⟩ := pipeline_hyps ht maxSteps hm hok han ht1
  rw [pl_feasible_iff (fragModel_applyToDomain an hm) hdom hbox hlin ρ]
  constructor
  · rintro ⟨ρ', hag, hf⟩
    exact ⟨ρ', fun x hx => hag x ((inScope_applyToDomain an m.domain x).mpr hx), hf⟩
  · rintro ⟨ρ', hag, hf⟩
    exact ⟨ρ', fun x hx => hag x ((inScope_applyToDomain an m.domain x).mp hx), hf⟩

theorem compile_objective {m : Model (Ext K)} {t : K} (ht : 0 ≤ t) {maxSteps : Nat} {lm : LinModel (Ext K)}
    (h : Compile.linearize m (.fin t) maxSteps = .ok lm)
    (hm : FragModel true m m.domain) (hok : DeclOK m.domain)
    (ht1 : t < 1 ∨ NoIntVars m.domain)
    (ρ : String → K) (hs : srcFeasible m ρ = true) (v : K) (hv : eval ρ m.objective = some v) :
    (∀ ρ' : String → K, (∀ x, inScope m.domain x → ρ' x = ρ x) → linFeasible lm ρ' = true →
        ∃ w, linObjective lm ρ' = some w ∧ rel (objReq m) w v) ∧
    (∃ ρ' : String → K, (∀ x, inScope m.domain x → ρ' x = ρ x) ∧ linFeasible lm ρ' = true ∧
        linObjective lm ρ' = some v) := by
  obtain ⟨_, an, han, hlin⟩ := (compile_ok_iff m _ maxSteps lm).mp h
  obtain ⟨hdom, hbox⟩ := pipeline_hyps ht maxSteps hm hok han ht1
  obtain ⟨h1, ρ', hag, hf, ho⟩ := pl_objective (fragModel_applyToDomain an hm) hdom hbox hlin ρ hs v hv
  refine ⟨fun ρ'' hag'' hf'' => h1 ρ'' (fun x hx => hag'' x ((inScope_applyToDomain an m.domain x).mp hx)) hf'',
    ρ', fun x hx => hag x ((inScope_applyToDomain an m.domain x).mpr hx), hf, ho⟩

end Rooc.LinP
