/-
Helper lemmas for C10: which divisions survive `Exp.simplify`.
`HasDivBy p e`  : `e` contains a division whose divisor satisfies the syntactic test `p`.
`DivS p e`      : `e` contains a division whose divisor *simplifies to* something satisfying `p`.
Since rooc 9f62afd (absorbing constants never drop an operand that may be undefined) every such
division survives `simplify`, wherever it sits.
-/
import Rooc.Proofs.ExpLemmasNF
namespace Rooc
namespace Exp
set_option linter.unusedSectionVars false
variable {α : Type} [Arith α]
open Arith

/-- divisor is not a non-zero literal (literal zero, or not a literal at all). -/
def badDivisor : Exp α → Bool
  | .num z => Arith.eq z zero
  | _ => true
/-- divisor is the literal zero. -/
def zeroDivisor : Exp α → Bool
  | .num z => Arith.eq z zero
  | _ => false
/-- literal satisfying `q`. -/
def isLit (q : α → Bool) : Exp α → Bool
  | .num v => q v
  | _ => false

mutual
def HasDivBy (p : Exp α → Bool) : Exp α → Prop
  | .num _ => False
  | .var _ => False
  | .abs e => HasDivBy p e
  | .not e => HasDivBy p e
  | .un _ e => HasDivBy p e
  | .min es => HasDivByList p es
  | .max es => HasDivByList p es
  | .and es => HasDivByList p es
  | .or es => HasDivByList p es
  | .xor a b => HasDivBy p a ∨ HasDivBy p b
  | .implies a b => HasDivBy p a ∨ HasDivBy p b
  | .iff a b => HasDivBy p a ∨ HasDivBy p b
  | .bin op a b => HasDivBy p a ∨ HasDivBy p b ∨ (op = .div ∧ p b = true)
def HasDivByList (p : Exp α → Bool) : List (Exp α) → Prop
  | [] => False
  | e :: es => HasDivBy p e ∨ HasDivByList p es
end

mutual
def DivS (p : Exp α → Bool) : Exp α → Prop
  | .num _ => False
  | .var _ => False
  | .abs e => DivS p e
  | .not e => DivS p e
  | .un _ e => DivS p e
  | .min es => DivSList p es
  | .max es => DivSList p es
  | .and es => DivSList p es
  | .or es => DivSList p es
  | .xor a b => DivS p a ∨ DivS p b
  | .implies a b => DivS p a ∨ DivS p b
  | .iff a b => DivS p a ∨ DivS p b
  | .bin op a b => DivS p a ∨ DivS p b ∨ (op = .div ∧ p (simplify b) = true)
def DivSList (p : Exp α → Bool) : List (Exp α) → Prop
  | [] => False
  | e :: es => DivS p e ∨ DivSList p es
end

theorem HasDivByList_iff (p : Exp α → Bool) (es : List (Exp α)) :
    HasDivByList p es ↔ ∃ e ∈ es, HasDivBy p e := by
  induction es with
  | nil => simp [HasDivByList]
  | cons e es ih => simp [HasDivByList, ih]
theorem DivSList_iff (p : Exp α → Bool) (es : List (Exp α)) :
    DivSList p es ↔ ∃ e ∈ es, DivS p e := by
  induction es with
  | nil => simp [DivSList]
  | cons e es ih => simp [DivSList, ih]

theorem HasDivBy_mkNary (p : Exp α → Bool) (isAnd : Bool) (es : List (Exp α)) :
    HasDivBy p (mkNary isAnd es) ↔ ∃ e ∈ es, HasDivBy p e := by
  cases isAnd <;> simp [mkNary, HasDivBy, HasDivByList_iff]

theorem not_num_of_HasDivBy {p : Exp α → Bool} {e : Exp α} (h : HasDivBy p e) : isNum e = false := by
  cases e <;> simp_all [HasDivBy, isNum]

/-! ### node-level rules keep a non-literal operand -/

theorem addCore_keep_l {l r : Exp α} (h : isNum l = false) :
    addCore l r = l ∨ addCore l r = .bin .add l r := by
  unfold addCore; split <;> (try split) <;> simp_all [isNum]
theorem addCore_keep_r {l r : Exp α} (h : isNum r = false) :
    addCore l r = r ∨ addCore l r = .bin .add l r := by
  unfold addCore; split <;> (try split) <;> simp_all [isNum]
theorem subCore_keep_l {l r : Exp α} (h : isNum l = false) :
    subCore l r = l ∨ subCore l r = .bin .sub l r := by
  unfold subCore; split <;> (try split) <;> simp_all [isNum]
theorem subCore_keep_r {l r : Exp α} (h : isNum r = false) :
    subCore l r = .bin .sub l r := by
  unfold subCore; split <;> (try split) <;> simp_all [isNum]
theorem isNumEq_of_not_num {e : Exp α} (h : isNum e = false) (c : α) : isNumEq e c = false := by
  cases e <;> simp_all [isNum, isNumEq]
theorem mulCore_keep_l {l r : Exp α} (h : isNum l = false) (hu : mayBeUndefined l = true) :
    mulCore l r = l ∨ mulCore l r = .bin .mul l r := by
  unfold mulCore; split
  · simp [isNum] at h
  · simp only [isNumEq_of_not_num h, hu, Bool.false_and, Bool.not_true, Bool.and_false,
      Bool.or_self, Bool.false_eq_true, if_false]
    split <;> simp
theorem mulCore_keep_r {l r : Exp α} (h : isNum r = false) (hu : mayBeUndefined r = true) :
    mulCore l r = r ∨ mulCore l r = .bin .mul l r := by
  unfold mulCore; split
  · simp [isNum] at h
  · simp only [isNumEq_of_not_num h, hu, Bool.false_and, Bool.not_true, Bool.and_false,
      Bool.or_self, Bool.false_eq_true, if_false]
    split <;> simp
theorem divCore_keep_l {l r : Exp α} (h : isNum l = false) :
    divCore l r = l ∨ divCore l r = .bin .div l r := by
  unfold divCore; split
  · simp [isNum] at h
  · split <;> simp
theorem divCore_keep_r {l r : Exp α} (h : isNum r = false) : divCore l r = .bin .div l r := by
  unfold divCore; split
  · simp [isNum] at h
  · simp [isNumEq_of_not_num h]

theorem divCore_bad {l r : Exp α} (hne : ∀ v : α, Arith.eq v zero = true → Arith.eq v one = false)
    (h : badDivisor r = true) : divCore l r = .bin .div l r := by
  unfold divCore; split
  · simp_all [badDivisor]
  · cases r <;> simp_all [badDivisor, isNumEq]

theorem badDivisor_eq (r : Exp α) : badDivisor r = !(isNonzeroLit r) := by
  cases r <;> simp [badDivisor, isNonzeroLit, Arith.ne]

/-- a term that still shows a bad division "may be undefined" in the sense of the Rust guard. -/
theorem mayBeUndefined_of_HasDivBy {p : Exp α → Bool}
    (hp : ∀ r, p r = true → badDivisor r = true) (e : Exp α) :
    HasDivBy p e → mayBeUndefined e = true := by
  induction e using Exp.ind with
  | num v => intro h; simp [HasDivBy] at h
  | var s => intro h; simp [HasDivBy] at h
  | abs e ih => intro h; simp only [HasDivBy] at h; simpa [mayBeUndefined] using ih h
  | min es ih =>
    intro h; simp only [HasDivBy, HasDivByList_iff] at h
    obtain ⟨c, hc, hcd⟩ := h
    simp only [mayBeUndefined, Bool.or_eq_true, mayBeUndefinedAny_iff]
    exact Or.inr ⟨c, hc, ih c hc hcd⟩
  | max es ih =>
    intro h; simp only [HasDivBy, HasDivByList_iff] at h
    obtain ⟨c, hc, hcd⟩ := h
    simp only [mayBeUndefined, Bool.or_eq_true, mayBeUndefinedAny_iff]
    exact Or.inr ⟨c, hc, ih c hc hcd⟩
  | and es ih =>
    intro h; simp only [HasDivBy, HasDivByList_iff] at h
    obtain ⟨c, hc, hcd⟩ := h
    simp only [mayBeUndefined, mayBeUndefinedAny_iff]
    exact ⟨c, hc, ih c hc hcd⟩
  | or es ih =>
    intro h; simp only [HasDivBy, HasDivByList_iff] at h
    obtain ⟨c, hc, hcd⟩ := h
    simp only [mayBeUndefined, mayBeUndefinedAny_iff]
    exact ⟨c, hc, ih c hc hcd⟩
  | not e ih => intro h; simp only [HasDivBy] at h; simpa [mayBeUndefined] using ih h
  | xor a b iha ihb =>
    intro h; simp only [HasDivBy] at h
    simp only [mayBeUndefined, Bool.or_eq_true]; exact h.imp iha ihb
  | implies a b iha ihb =>
    intro h; simp only [HasDivBy] at h
    simp only [mayBeUndefined, Bool.or_eq_true]; exact h.imp iha ihb
  | iff a b iha ihb =>
    intro h; simp only [HasDivBy] at h
    simp only [mayBeUndefined, Bool.or_eq_true]; exact h.imp iha ihb
  | bin op a b iha ihb =>
    intro h; simp only [HasDivBy] at h
    rcases h with h | h | ⟨rfl, h⟩
    · cases op <;> simp [mayBeUndefined, iha h]
    · cases op <;> simp [mayBeUndefined, ihb h]
    · have := hp _ h
      rw [badDivisor_eq] at this
      simp [mayBeUndefined, this]
  | un op e ih => intro h; simp only [HasDivBy] at h; simpa [mayBeUndefined] using ih h

theorem HasDivBy_naryCore {p : Exp α → Bool} (hp : ∀ r, p r = true → badDivisor r = true)
    (isAnd : Bool) {cs : List (Exp α)}
    (hx : ∃ c ∈ cs, HasDivBy p c) : HasDivBy p (naryCore isAnd cs) := by
  obtain ⟨c, hc, hcd⟩ := hx
  -- an element with a division survives flattening
  have hF : ∃ x ∈ naryFlatten isAnd cs, HasDivBy p x := by
    rcases isSameKind_cases isAnd c with h | ⟨inner, rfl⟩
    · exact ⟨c, mem_naryFlatten.2 (Or.inl ⟨hc, h⟩), hcd⟩
    · obtain ⟨x, hx, hxd⟩ := (HasDivBy_mkNary p isAnd inner).1 hcd
      exact ⟨x, mem_naryFlatten.2 (Or.inr ⟨inner, hc, hx⟩), hxd⟩
  obtain ⟨x, hxF, hxd⟩ := hF
  -- so `any_undefined` holds and the loop never short-circuits
  have hu : mayBeUndefinedAny (naryFlatten isAnd cs) = true :=
    (mayBeUndefinedAny_iff _).2 ⟨x, hxF, mayBeUndefined_of_HasDivBy hp x hxd⟩
  have hscan : naryStep isAnd (naryFlatten isAnd cs) ≠ none := by
    intro hnone; have := (naryStep_none hnone).1; rw [hu] at this; cases this
  have hmem : ∀ res, naryStep isAnd (naryFlatten isAnd cs) = some res → x ∈ res := by
    intro res hs
    obtain ⟨q, hq, _, hkeep⟩ := naryStep_some hs
    rw [hq, List.mem_filter]
    exact ⟨hxF, hkeep x (not_num_of_HasDivBy hxd)⟩
  rcases naryCore_cases isAnd cs with ⟨h1, _⟩ | ⟨h1, _⟩ | ⟨e, h1, h2⟩ | ⟨res, h1, _, h2⟩
  · exact absurd h1 hscan
  · have := hmem _ h1; simp at this
  · have := hmem _ h1; simp at this; subst this; rw [h2]; exact hxd
  · rw [h2, HasDivBy_mkNary]; exact ⟨x, hmem _ h1, hxd⟩

theorem HasDivBy_binCore {p : Exp α → Bool}
    (hne : ∀ v : α, Arith.eq v zero = true → Arith.eq v one = false)
    (hp : ∀ r, p r = true → badDivisor r = true)
    (op : BinOp) {l r : Exp α}
    (h : HasDivBy p l ∨ HasDivBy p r ∨ (op = .div ∧ p r = true)) :
    HasDivBy p (binCore op l r) := by
  have keepl : ∀ {x}, HasDivBy p l → (x = l ∨ x = .bin op l r) → HasDivBy p x := by
    intro x h1 h2; rcases h2 with rfl | rfl
    · exact h1
    · simp only [HasDivBy]; exact Or.inl h1
  have keepr : ∀ {x}, HasDivBy p r → (x = r ∨ x = .bin op l r) → HasDivBy p x := by
    intro x h1 h2; rcases h2 with rfl | rfl
    · exact h1
    · simp only [HasDivBy]; exact Or.inr (Or.inl h1)
  have nary : ∀ isAnd : Bool, (HasDivBy p l ∨ HasDivBy p r) →
      HasDivBy p (naryCore isAnd [l, r]) := by
    intro isAnd h1
    apply HasDivBy_naryCore hp isAnd
    rcases h1 with h1 | h1
    · exact ⟨l, by simp, h1⟩
    · exact ⟨r, by simp, h1⟩
  have hu := fun x => mayBeUndefined_of_HasDivBy hp x
  cases op with
  | add =>
    rcases h with h | h | h
    · exact keepl h (addCore_keep_l (not_num_of_HasDivBy h))
    · exact keepr h (addCore_keep_r (not_num_of_HasDivBy h))
    · simp at h
  | sub =>
    rcases h with h | h | h
    · exact keepl h (subCore_keep_l (not_num_of_HasDivBy h))
    · exact keepr h (Or.inr (subCore_keep_r (not_num_of_HasDivBy h)))
    · simp at h
  | mul =>
    rcases h with h | h | h
    · exact keepl h (mulCore_keep_l (not_num_of_HasDivBy h) (hu _ h))
    · exact keepr h (mulCore_keep_r (not_num_of_HasDivBy h) (hu _ h))
    · simp at h
  | div =>
    rcases h with h | h | h
    · exact keepl h (divCore_keep_l (not_num_of_HasDivBy h))
    · exact keepr h (Or.inr (divCore_keep_r (not_num_of_HasDivBy h)))
    · rw [binCore, divCore_bad hne (hp _ h.2)]
      simp only [HasDivBy]
      exact Or.inr (Or.inr ⟨trivial, h.2⟩)
  | and =>
    refine nary true ?_
    rcases h with h | h | h
    · exact Or.inl h
    · exact Or.inr h
    · simp at h
  | or =>
    refine nary false ?_
    rcases h with h | h | h
    · exact Or.inl h
    · exact Or.inr h
    · simp at h
  | xor =>
    have hb : (isNum l && isNum r) = false := by
      rcases h with h | h | h
      · simp [not_num_of_HasDivBy h]
      · simp [not_num_of_HasDivBy h]
      · simp at h
    simp only [binCore, xorCore_of_not_num hb, HasDivBy]
    rcases h with h | h | h
    · exact Or.inl h
    · exact Or.inr h
    · simp at h
  | implies =>
    have hb : (isNum l && isNum r) = false := by
      rcases h with h | h | h
      · simp [not_num_of_HasDivBy h]
      · simp [not_num_of_HasDivBy h]
      · simp at h
    simp only [binCore, impliesCore_of_not_num hb, HasDivBy]
    rcases h with h | h | h
    · exact Or.inl h
    · exact Or.inr h
    · simp at h
  | iff =>
    have hb : (isNum l && isNum r) = false := by
      rcases h with h | h | h
      · simp [not_num_of_HasDivBy h]
      · simp [not_num_of_HasDivBy h]
      · simp at h
    simp only [binCore, iffCore_of_not_num hb, HasDivBy]
    rcases h with h | h | h
    · exact Or.inl h
    · exact Or.inr h
    · simp at h

/-- every division whose divisor simplifies to a `p`-divisor survives `simplify`. -/
theorem HasDivBy_simplify {p : Exp α → Bool}
    (hne : ∀ v : α, Arith.eq v zero = true → Arith.eq v one = false)
    (hp : ∀ r, p r = true → badDivisor r = true) (e : Exp α) :
    DivS p e → HasDivBy p (simplify e) := by
  induction e using Exp.ind with
  | num v => intro h; simp [DivS] at h
  | var s => intro h; simp [DivS] at h
  | abs e ih =>
    intro h; simp only [DivS] at h
    have := ih h
    rw [simplify_abs, absCore_of_not_num (not_num_of_HasDivBy this)]
    simpa only [HasDivBy] using this
  | min es ih =>
    intro h; simp only [DivS, DivSList_iff] at h
    obtain ⟨c, hc, hcd⟩ := h
    have := ih c hc hcd
    have hne' : es ≠ [] := by rintro rfl; cases hc
    have hmem : simplify c ∈ es.map simplify := List.mem_map.2 ⟨c, hc, rfl⟩
    rw [simplify_min, if_neg hne', minCore, allNums_none_of_mem hmem (not_num_of_HasDivBy this)]
    simp only [HasDivBy, HasDivByList_iff]
    exact ⟨_, hmem, this⟩
  | max es ih =>
    intro h; simp only [DivS, DivSList_iff] at h
    obtain ⟨c, hc, hcd⟩ := h
    have := ih c hc hcd
    have hne' : es ≠ [] := by rintro rfl; cases hc
    have hmem : simplify c ∈ es.map simplify := List.mem_map.2 ⟨c, hc, rfl⟩
    rw [simplify_max, if_neg hne', maxCore, allNums_none_of_mem hmem (not_num_of_HasDivBy this)]
    simp only [HasDivBy, HasDivByList_iff]
    exact ⟨_, hmem, this⟩
  | and es ih =>
    intro h; simp only [DivS, DivSList_iff] at h
    obtain ⟨c, hc, hcd⟩ := h
    rw [simplify_and]
    exact HasDivBy_naryCore hp true ⟨simplify c, List.mem_map.2 ⟨c, hc, rfl⟩, ih c hc hcd⟩
  | or es ih =>
    intro h; simp only [DivS, DivSList_iff] at h
    obtain ⟨c, hc, hcd⟩ := h
    rw [simplify_or]
    exact HasDivBy_naryCore hp false ⟨simplify c, List.mem_map.2 ⟨c, hc, rfl⟩, ih c hc hcd⟩
  | not e ih =>
    intro h; simp only [DivS] at h
    have := ih h
    rw [simplify_not, notCore_of_not_num (not_num_of_HasDivBy this)]
    simpa only [HasDivBy] using this
  | xor a b iha ihb =>
    intro h; simp only [DivS] at h
    rw [simplify_xor]
    have := HasDivBy_binCore hne hp .xor (l := simplify a) (r := simplify b)
      (h.elim (fun h => Or.inl (iha h)) (fun h => Or.inr (Or.inl (ihb h))))
    simpa only [binCore] using this
  | implies a b iha ihb =>
    intro h; simp only [DivS] at h
    rw [simplify_implies]
    have := HasDivBy_binCore hne hp .implies (l := simplify a) (r := simplify b)
      (h.elim (fun h => Or.inl (iha h)) (fun h => Or.inr (Or.inl (ihb h))))
    simpa only [binCore] using this
  | iff a b iha ihb =>
    intro h; simp only [DivS] at h
    rw [simplify_iff]
    have := HasDivBy_binCore hne hp .iff (l := simplify a) (r := simplify b)
      (h.elim (fun h => Or.inl (iha h)) (fun h => Or.inr (Or.inl (ihb h))))
    simpa only [binCore] using this
  | bin op a b iha ihb =>
    intro h; simp only [DivS] at h
    rw [simplify_bin]
    refine HasDivBy_binCore hne hp op ?_
    rcases h with h1 | h1 | h1
    · exact Or.inl (iha h1)
    · exact Or.inr (Or.inl (ihb h1))
    · exact Or.inr (Or.inr h1)
  | un op e ih =>
    intro h; simp only [DivS] at h
    have := ih h
    cases op with
    | neg =>
      rw [simplify_neg, negCore_of_not_num (not_num_of_HasDivBy this)]
      simpa only [HasDivBy] using this
    | not =>
      rw [simplify_unot, notCore_of_not_num (not_num_of_HasDivBy this)]
      simpa only [HasDivBy] using this

/-- purely syntactic special case: a division by the literal zero is a `DivS zeroDivisor`. -/
theorem DivS_of_HasDivBy_zero (e : Exp α) : HasDivBy zeroDivisor e → DivS zeroDivisor e := by
  induction e using Exp.ind with
  | num v => intro h; simp [HasDivBy] at h
  | var s => intro h; simp [HasDivBy] at h
  | abs e ih => intro h; simp only [HasDivBy] at h; simpa only [DivS] using ih h
  | min es ih =>
    intro h; simp only [HasDivBy, HasDivByList_iff] at h
    obtain ⟨c, hc, hcd⟩ := h
    simp only [DivS, DivSList_iff]; exact ⟨c, hc, ih c hc hcd⟩
  | max es ih =>
    intro h; simp only [HasDivBy, HasDivByList_iff] at h
    obtain ⟨c, hc, hcd⟩ := h
    simp only [DivS, DivSList_iff]; exact ⟨c, hc, ih c hc hcd⟩
  | and es ih =>
    intro h; simp only [HasDivBy, HasDivByList_iff] at h
    obtain ⟨c, hc, hcd⟩ := h
    simp only [DivS, DivSList_iff]; exact ⟨c, hc, ih c hc hcd⟩
  | or es ih =>
    intro h; simp only [HasDivBy, HasDivByList_iff] at h
    obtain ⟨c, hc, hcd⟩ := h
    simp only [DivS, DivSList_iff]; exact ⟨c, hc, ih c hc hcd⟩
  | not e ih => intro h; simp only [HasDivBy] at h; simpa only [DivS] using ih h
  | xor a b iha ihb => intro h; simp only [HasDivBy] at h; simp only [DivS]; exact h.imp iha ihb
  | implies a b iha ihb => intro h; simp only [HasDivBy] at h; simp only [DivS]; exact h.imp iha ihb
  | iff a b iha ihb => intro h; simp only [HasDivBy] at h; simp only [DivS]; exact h.imp iha ihb
  | bin op a b iha ihb =>
    intro h; simp only [HasDivBy] at h
    simp only [DivS]
    rcases h with h | h | ⟨h1, h2⟩
    · exact Or.inl (iha h)
    · exact Or.inr (Or.inl (ihb h))
    · refine Or.inr (Or.inr ⟨h1, ?_⟩)
      cases b <;> simp_all [zeroDivisor, simplify_num]
  | un op e ih => intro h; simp only [HasDivBy] at h; simpa only [DivS] using ih h

end Exp
end Rooc
