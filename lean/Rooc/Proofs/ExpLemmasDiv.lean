/-
Helper lemmas for C10: which divisions survive `Exp.simplify`.
`HasDivBy p e`  : `e` contains a division whose divisor satisfies the syntactic test `p`.
`ProtDiv p e`   : `e` contains a division whose divisor *simplifies to* something satisfying `p`
                  and which does not sit below an operand that simplifies to the absorbing constant
                  of a `*` / and / or node on the path from the root.
-/
import Rooc.Proofs.ExpLemmasNF
namespace Rooc
namespace Exp
set_option linter.unusedSectionVars false
variable {α : Type} [Arith α]
open Arith

/-- divisor is not a non-zero literal (literal zero, or not a literal at all). -/
def badDivisor : Exp α → Bool
  | .num z => Arith.eq z zero
  | _ => true
/-- divisor is the literal zero. -/
def zeroDivisor : Exp α → Bool
  | .num z => Arith.eq z zero
  | _ => false
/-- literal satisfying `q`. -/
def isLit (q : α → Bool) : Exp α → Bool
  | .num v => q v
  | _ => false

mutual
def HasDivBy (p : Exp α → Bool) : Exp α → Prop
  | .num _ => False
  | .var _ => False
  | .abs e => HasDivBy p e
  | .not e => HasDivBy p e
  | .un _ e => HasDivBy p e
  | .min es => HasDivByList p es
  | .max es => HasDivByList p es
  | .and es => HasDivByList p es
  | .or es => HasDivByList p es
  | .xor a b => HasDivBy p a ∨ HasDivBy p b
  | .implies a b => HasDivBy p a ∨ HasDivBy p b
  | .iff a b => HasDivBy p a ∨ HasDivBy p b
  | .bin op a b => HasDivBy p a ∨ HasDivBy p b ∨ (op = .div ∧ p b = true)
def HasDivByList (p : Exp α → Bool) : List (Exp α) → Prop
  | [] => False
  | e :: es => HasDivBy p e ∨ HasDivByList p es
end

mutual
def ProtDiv (p : Exp α → Bool) : Exp α → Prop
  | .num _ => False
  | .var _ => False
  | .abs e => ProtDiv p e
  | .not e => ProtDiv p e
  | .un _ e => ProtDiv p e
  | .min es => ProtDivList p es
  | .max es => ProtDivList p es
  | .and es => ProtDivList p es ∧ ∀ c ∈ es, isLit (absorbing true) (simplify c) = false
  | .or es => ProtDivList p es ∧ ∀ c ∈ es, isLit (absorbing false) (simplify c) = false
  | .xor a b => ProtDiv p a ∨ ProtDiv p b
  | .implies a b => ProtDiv p a ∨ ProtDiv p b
  | .iff a b => ProtDiv p a ∨ ProtDiv p b
  | .bin op a b =>
      (ProtDiv p a ∨ ProtDiv p b ∨ (op = .div ∧ p (simplify b) = true)) ∧
      (op = .mul → isNumEq (simplify a) zero = false ∧ isNumEq (simplify b) zero = false) ∧
      (op = .and → isLit (absorbing true) (simplify a) = false ∧
                    isLit (absorbing true) (simplify b) = false) ∧
      (op = .or → isLit (absorbing false) (simplify a) = false ∧
                   isLit (absorbing false) (simplify b) = false)
def ProtDivList (p : Exp α → Bool) : List (Exp α) → Prop
  | [] => False
  | e :: es => ProtDiv p e ∨ ProtDivList p es
end

theorem HasDivByList_iff (p : Exp α → Bool) (es : List (Exp α)) :
    HasDivByList p es ↔ ∃ e ∈ es, HasDivBy p e := by
  induction es with
  | nil => simp [HasDivByList]
  | cons e es ih => simp [HasDivByList, ih]
theorem ProtDivList_iff (p : Exp α → Bool) (es : List (Exp α)) :
    ProtDivList p es ↔ ∃ e ∈ es, ProtDiv p e := by
  induction es with
  | nil => simp [ProtDivList]
  | cons e es ih => simp [ProtDivList, ih]

theorem HasDivBy_mkNary (p : Exp α → Bool) (isAnd : Bool) (es : List (Exp α)) :
    HasDivBy p (mkNary isAnd es) ↔ ∃ e ∈ es, HasDivBy p e := by
  cases isAnd <;> simp [mkNary, HasDivBy, HasDivByList_iff]

theorem not_num_of_HasDivBy {p : Exp α → Bool} {e : Exp α} (h : HasDivBy p e) : isNum e = false := by
  cases e <;> simp_all [HasDivBy, isNum]

/-! ### node-level rules keep a non-literal operand -/

theorem addCore_keep_l {l r : Exp α} (h : isNum l = false) :
    addCore l r = l ∨ addCore l r = .bin .add l r := by
  unfold addCore; split <;> (try split) <;> simp_all [isNum]
theorem addCore_keep_r {l r : Exp α} (h : isNum r = false) :
    addCore l r = r ∨ addCore l r = .bin .add l r := by
  unfold addCore; split <;> (try split) <;> simp_all [isNum]
theorem subCore_keep_l {l r : Exp α} (h : isNum l = false) :
    subCore l r = l ∨ subCore l r = .bin .sub l r := by
  unfold subCore; split <;> (try split) <;> simp_all [isNum]
theorem subCore_keep_r {l r : Exp α} (h : isNum r = false) :
    subCore l r = .bin .sub l r := by
  unfold subCore; split <;> (try split) <;> simp_all [isNum]
theorem isNumEq_of_not_num {e : Exp α} (h : isNum e = false) (c : α) : isNumEq e c = false := by
  cases e <;> simp_all [isNum, isNumEq]
theorem mulCore_keep_l {l r : Exp α} (h : isNum l = false) (hr : isNumEq r zero = false) :
    mulCore l r = l ∨ mulCore l r = .bin .mul l r := by
  unfold mulCore; split
  · simp [isNum] at h
  · simp only [isNumEq_of_not_num h, hr, Bool.or_self, Bool.false_eq_true, if_false]
    split <;> simp
theorem mulCore_keep_r {l r : Exp α} (h : isNum r = false) (hl : isNumEq l zero = false) :
    mulCore l r = r ∨ mulCore l r = .bin .mul l r := by
  unfold mulCore; split
  · simp [isNum] at h
  · simp only [isNumEq_of_not_num h, hl, Bool.or_self, Bool.false_eq_true, if_false]
    split <;> simp
theorem divCore_keep_l {l r : Exp α} (h : isNum l = false) :
    divCore l r = l ∨ divCore l r = .bin .div l r := by
  unfold divCore; split
  · simp [isNum] at h
  · split <;> simp
theorem divCore_keep_r {l r : Exp α} (h : isNum r = false) : divCore l r = .bin .div l r := by
  unfold divCore; split
  · simp [isNum] at h
  · simp [isNumEq_of_not_num h]

theorem divCore_bad {l r : Exp α} (hne : ∀ v : α, Arith.eq v zero = true → Arith.eq v one = false)
    (h : badDivisor r = true) : divCore l r = .bin .div l r := by
  unfold divCore; split
  · simp_all [badDivisor]
  · cases r <;> simp_all [badDivisor, isNumEq]

theorem HasDivBy_naryCore {p : Exp α → Bool} (isAnd : Bool) {cs : List (Exp α)}
    (hNF : ∀ c ∈ cs, NF c) (hx : ∃ c ∈ cs, HasDivBy p c)
    (hna : ∀ c ∈ cs, isLit (absorbing isAnd) c = false) : HasDivBy p (naryCore isAnd cs) := by
  obtain ⟨c, hc, hcd⟩ := hx
  -- an element with a division survives flattening
  have hF : ∃ x ∈ naryFlatten isAnd cs, HasDivBy p x := by
    rcases isSameKind_cases isAnd c with h | ⟨inner, rfl⟩
    · exact ⟨c, mem_naryFlatten.2 (Or.inl ⟨hc, h⟩), hcd⟩
    · obtain ⟨x, hx, hxd⟩ := (HasDivBy_mkNary p isAnd inner).1 hcd
      exact ⟨x, mem_naryFlatten.2 (Or.inr ⟨inner, hc, hx⟩), hxd⟩
  obtain ⟨x, hxF, hxd⟩ := hF
  -- no absorbing literal in the flattened list
  have hscan : naryScan isAnd (naryFlatten isAnd cs) ≠ none := by
    intro hnone
    obtain ⟨v, hv, ha⟩ := naryScan_none.1 hnone
    rcases mem_naryFlatten.1 hv with ⟨h1, _⟩ | ⟨inner, h1, h2⟩
    · have := hna _ h1; simp [isLit, ha] at this
    · have := ((NF_mkNary isAnd inner).1 (hNF _ h1)).2.1 _ h2
      simp [isNum] at this
  have hmem : ∀ res, naryScan isAnd (naryFlatten isAnd cs) = some res → x ∈ res := by
    intro res hs
    rw [naryScan_some hs, List.mem_filter]
    exact ⟨hxF, by simp [not_num_of_HasDivBy hxd]⟩
  rcases naryCore_cases isAnd cs with ⟨h1, _⟩ | ⟨h1, _⟩ | ⟨e, h1, h2⟩ | ⟨res, h1, _, h2⟩
  · exact absurd h1 hscan
  · have := hmem _ h1; simp at this
  · have := hmem _ h1; simp at this; subst this; rw [h2]; exact hxd
  · rw [h2, HasDivBy_mkNary]; exact ⟨x, hmem _ h1, hxd⟩

theorem HasDivBy_binCore {p : Exp α → Bool}
    (hne : ∀ v : α, Arith.eq v zero = true → Arith.eq v one = false)
    (hp : ∀ r, p r = true → badDivisor r = true)
    (op : BinOp) {l r : Exp α} (hl : NF l) (hr : NF r)
    (h : HasDivBy p l ∨ HasDivBy p r ∨ (op = .div ∧ p r = true))
    (hmul : op = .mul → isNumEq l zero = false ∧ isNumEq r zero = false)
    (hand : op = .and → isLit (absorbing true) l = false ∧ isLit (absorbing true) r = false)
    (hor : op = .or → isLit (absorbing false) l = false ∧ isLit (absorbing false) r = false) :
    HasDivBy p (binCore op l r) := by
  have keepl : ∀ {x}, HasDivBy p l → (x = l ∨ x = .bin op l r) → HasDivBy p x := by
    intro x h1 h2; rcases h2 with rfl | rfl
    · exact h1
    · simp only [HasDivBy]; exact Or.inl h1
  have keepr : ∀ {x}, HasDivBy p r → (x = r ∨ x = .bin op l r) → HasDivBy p x := by
    intro x h1 h2; rcases h2 with rfl | rfl
    · exact h1
    · simp only [HasDivBy]; exact Or.inr (Or.inl h1)
  have nary : ∀ isAnd : Bool, (HasDivBy p l ∨ HasDivBy p r) →
      isLit (absorbing isAnd) l = false ∧ isLit (absorbing isAnd) r = false →
      HasDivBy p (naryCore isAnd [l, r]) := by
    intro isAnd h1 h2
    apply HasDivBy_naryCore isAnd
    · intro c hc; simp at hc; rcases hc with rfl | rfl <;> assumption
    · rcases h1 with h1 | h1
      · exact ⟨l, by simp, h1⟩
      · exact ⟨r, by simp, h1⟩
    · intro c hc; simp at hc; rcases hc with rfl | rfl
      · exact h2.1
      · exact h2.2
  cases op with
  | add =>
    rcases h with h | h | h
    · exact keepl h (addCore_keep_l (not_num_of_HasDivBy h))
    · exact keepr h (addCore_keep_r (not_num_of_HasDivBy h))
    · simp at h
  | sub =>
    rcases h with h | h | h
    · exact keepl h (subCore_keep_l (not_num_of_HasDivBy h))
    · exact keepr h (Or.inr (subCore_keep_r (not_num_of_HasDivBy h)))
    · simp at h
  | mul =>
    rcases h with h | h | h
    · exact keepl h (mulCore_keep_l (not_num_of_HasDivBy h) (hmul rfl).2)
    · exact keepr h (mulCore_keep_r (not_num_of_HasDivBy h) (hmul rfl).1)
    · simp at h
  | div =>
    rcases h with h | h | h
    · exact keepl h (divCore_keep_l (not_num_of_HasDivBy h))
    · exact keepr h (Or.inr (divCore_keep_r (not_num_of_HasDivBy h)))
    · rw [binCore, divCore_bad hne (hp _ h.2)]
      simp only [HasDivBy]
      exact Or.inr (Or.inr ⟨trivial, h.2⟩)
  | and =>
    refine nary true ?_ (hand rfl)
    rcases h with h | h | h
    · exact Or.inl h
    · exact Or.inr h
    · simp at h
  | or =>
    refine nary false ?_ (hor rfl)
    rcases h with h | h | h
    · exact Or.inl h
    · exact Or.inr h
    · simp at h
  | xor =>
    have hb : (isNum l && isNum r) = false := by
      rcases h with h | h | h
      · simp [not_num_of_HasDivBy h]
      · simp [not_num_of_HasDivBy h]
      · simp at h
    simp only [binCore, xorCore_of_not_num hb, HasDivBy]
    rcases h with h | h | h
    · exact Or.inl h
    · exact Or.inr h
    · simp at h
  | implies =>
    have hb : (isNum l && isNum r) = false := by
      rcases h with h | h | h
      · simp [not_num_of_HasDivBy h]
      · simp [not_num_of_HasDivBy h]
      · simp at h
    simp only [binCore, impliesCore_of_not_num hb, HasDivBy]
    rcases h with h | h | h
    · exact Or.inl h
    · exact Or.inr h
    · simp at h
  | iff =>
    have hb : (isNum l && isNum r) = false := by
      rcases h with h | h | h
      · simp [not_num_of_HasDivBy h]
      · simp [not_num_of_HasDivBy h]
      · simp at h
    simp only [binCore, iffCore_of_not_num hb, HasDivBy]
    rcases h with h | h | h
    · exact Or.inl h
    · exact Or.inr h
    · simp at h

/-- a protected division survives `simplify`. -/
theorem HasDivBy_simplify {p : Exp α → Bool}
    (hne : ∀ v : α, Arith.eq v zero = true → Arith.eq v one = false)
    (hp : ∀ r, p r = true → badDivisor r = true) (e : Exp α) :
    ProtDiv p e → HasDivBy p (simplify e) := by
  induction e using Exp.ind with
  | num v => intro h; simp [ProtDiv] at h
  | var s => intro h; simp [ProtDiv] at h
  | abs e ih =>
    intro h; simp only [ProtDiv] at h
    have := ih h
    rw [simplify_abs, absCore_of_not_num (not_num_of_HasDivBy this)]
    simpa only [HasDivBy] using this
  | min es ih =>
    intro h; simp only [ProtDiv, ProtDivList_iff] at h
    obtain ⟨c, hc, hcd⟩ := h
    have := ih c hc hcd
    have hne' : es ≠ [] := by rintro rfl; cases hc
    have hmem : simplify c ∈ es.map simplify := List.mem_map.2 ⟨c, hc, rfl⟩
    rw [simplify_min, if_neg hne', minCore, allNums_none_of_mem hmem (not_num_of_HasDivBy this)]
    simp only [HasDivBy, HasDivByList_iff]
    exact ⟨_, hmem, this⟩
  | max es ih =>
    intro h; simp only [ProtDiv, ProtDivList_iff] at h
    obtain ⟨c, hc, hcd⟩ := h
    have := ih c hc hcd
    have hne' : es ≠ [] := by rintro rfl; cases hc
    have hmem : simplify c ∈ es.map simplify := List.mem_map.2 ⟨c, hc, rfl⟩
    rw [simplify_max, if_neg hne', maxCore, allNums_none_of_mem hmem (not_num_of_HasDivBy this)]
    simp only [HasDivBy, HasDivByList_iff]
    exact ⟨_, hmem, this⟩
  | and es ih =>
    intro h; simp only [ProtDiv, ProtDivList_iff] at h
    obtain ⟨⟨c, hc, hcd⟩, hna⟩ := h
    rw [simplify_and]
    apply HasDivBy_naryCore true
    · intro x hx; obtain ⟨e, _, rfl⟩ := List.mem_map.1 hx; exact NF_simplify e
    · exact ⟨simplify c, List.mem_map.2 ⟨c, hc, rfl⟩, ih c hc hcd⟩
    · intro x hx; obtain ⟨e, he, rfl⟩ := List.mem_map.1 hx; exact hna e he
  | or es ih =>
    intro h; simp only [ProtDiv, ProtDivList_iff] at h
    obtain ⟨⟨c, hc, hcd⟩, hna⟩ := h
    rw [simplify_or]
    apply HasDivBy_naryCore false
    · intro x hx; obtain ⟨e, _, rfl⟩ := List.mem_map.1 hx; exact NF_simplify e
    · exact ⟨simplify c, List.mem_map.2 ⟨c, hc, rfl⟩, ih c hc hcd⟩
    · intro x hx; obtain ⟨e, he, rfl⟩ := List.mem_map.1 hx; exact hna e he
  | not e ih =>
    intro h; simp only [ProtDiv] at h
    have := ih h
    rw [simplify_not, notCore_of_not_num (not_num_of_HasDivBy this)]
    simpa only [HasDivBy] using this
  | xor a b iha ihb =>
    intro h; simp only [ProtDiv] at h
    rw [simplify_xor]
    have := HasDivBy_binCore hne hp .xor (NF_simplify a) (NF_simplify b)
      (h.elim (fun h => Or.inl (iha h)) (fun h => Or.inr (Or.inl (ihb h))))
      (by simp) (by simp) (by simp)
    simpa only [binCore] using this
  | implies a b iha ihb =>
    intro h; simp only [ProtDiv] at h
    rw [simplify_implies]
    have := HasDivBy_binCore hne hp .implies (NF_simplify a) (NF_simplify b)
      (h.elim (fun h => Or.inl (iha h)) (fun h => Or.inr (Or.inl (ihb h))))
      (by simp) (by simp) (by simp)
    simpa only [binCore] using this
  | iff a b iha ihb =>
    intro h; simp only [ProtDiv] at h
    rw [simplify_iff]
    have := HasDivBy_binCore hne hp .iff (NF_simplify a) (NF_simplify b)
      (h.elim (fun h => Or.inl (iha h)) (fun h => Or.inr (Or.inl (ihb h))))
      (by simp) (by simp) (by simp)
    simpa only [binCore] using this
  | bin op a b iha ihb =>
    intro h; simp only [ProtDiv] at h
    obtain ⟨h1, h2, h3, h4⟩ := h
    rw [simplify_bin]
    refine HasDivBy_binCore hne hp op (NF_simplify a) (NF_simplify b) ?_ h2 h3 h4
    rcases h1 with h1 | h1 | h1
    · exact Or.inl (iha h1)
    · exact Or.inr (Or.inl (ihb h1))
    · exact Or.inr (Or.inr h1)
  | un op e ih =>
    intro h; simp only [ProtDiv] at h
    have := ih h
    cases op with
    | neg =>
      rw [simplify_neg, negCore_of_not_num (not_num_of_HasDivBy this)]
      simpa only [HasDivBy] using this
    | not =>
      rw [simplify_unot, notCore_of_not_num (not_num_of_HasDivBy this)]
      simpa only [HasDivBy] using this

end Exp
end Rooc
