/-
Helper lemmas for C10: the two-sorted refinement of `simplify` soundness.
Positions of a tree are *exact* (the number matters: operands of + - * / abs min max neg, the root)
or *logical* (only the truth value matters: operands of and/or/not/xor/implies/iff).
`ExactOK ρ e`  : and/or nodes in exact position have 0/1-valued operands (weaker than
                 `LogicOperands01`, which demands it of every and/or node);
`TruthOK ρ e`  : `e` stands in a logical position and everything below it is OK.
`simplify` preserves the value under `ExactOK` and the truth value under `TruthOK`.
-/
import Rooc.Proofs.ExpLemmasSound
namespace Rooc
open Rooc.Exp Rooc.Sem

def isAndOr : BinOp → Bool | .and | .or => true | _ => false
def isXorLike : BinOp → Bool | .xor | .implies | .iff => true | _ => false

section
variable {K : Type} [Field K] [LinearOrder K] [IsStrictOrderedRing K] [FloorRing K]

mutual
def ExactOK (ρ : String → K) : Exp (Ext K) → Prop
  | .num _ => True
  | .var _ => True
  | .abs e => ExactOK ρ e
  | .un .neg e => ExactOK ρ e
  | .un .not e => TruthOK ρ e
  | .not e => TruthOK ρ e
  | .min es => ExactOKList ρ es
  | .max es => ExactOKList ρ es
  | .and es => ExactOKList ρ es ∧ ∀ o ∈ es, Is01 (eval ρ o)
  | .or es => ExactOKList ρ es ∧ ∀ o ∈ es, Is01 (eval ρ o)
  | .xor a b => TruthOK ρ a ∧ TruthOK ρ b
  | .implies a b => TruthOK ρ a ∧ TruthOK ρ b
  | .iff a b => TruthOK ρ a ∧ TruthOK ρ b
  | .bin op a b =>
      if isXorLike op then TruthOK ρ a ∧ TruthOK ρ b
      else ExactOK ρ a ∧ ExactOK ρ b ∧ (isAndOr op = true → Is01 (eval ρ a) ∧ Is01 (eval ρ b))
def TruthOK (ρ : String → K) : Exp (Ext K) → Prop
  | .num _ => True
  | .var _ => True
  | .abs e => ExactOK ρ e
  | .un .neg e => ExactOK ρ e
  | .un .not e => TruthOK ρ e
  | .not e => TruthOK ρ e
  | .min es => ExactOKList ρ es
  | .max es => ExactOKList ρ es
  | .and es => TruthOKList ρ es
  | .or es => TruthOKList ρ es
  | .xor a b => TruthOK ρ a ∧ TruthOK ρ b
  | .implies a b => TruthOK ρ a ∧ TruthOK ρ b
  | .iff a b => TruthOK ρ a ∧ TruthOK ρ b
  | .bin op a b =>
      if isXorLike op || isAndOr op then TruthOK ρ a ∧ TruthOK ρ b
      else ExactOK ρ a ∧ ExactOK ρ b
def ExactOKList (ρ : String → K) : List (Exp (Ext K)) → Prop
  | [] => True
  | e :: es => ExactOK ρ e ∧ ExactOKList ρ es
def TruthOKList (ρ : String → K) : List (Exp (Ext K)) → Prop
  | [] => True
  | e :: es => TruthOK ρ e ∧ TruthOKList ρ es
end

theorem ExactOKList_iff (ρ : String → K) (es : List (Exp (Ext K))) :
    ExactOKList ρ es ↔ ∀ e ∈ es, ExactOK ρ e := by
  induction es with
  | nil => simp [ExactOKList]
  | cons e es ih => simp [ExactOKList, ih]
theorem TruthOKList_iff (ρ : String → K) (es : List (Exp (Ext K))) :
    TruthOKList ρ es ↔ ∀ e ∈ es, TruthOK ρ e := by
  induction es with
  | nil => simp [TruthOKList]
  | cons e es ih => simp [TruthOKList, ih]

theorem ExactOK_mkNary (ρ : String → K) (isAnd : Bool) (es : List (Exp (Ext K))) :
    ExactOK ρ (mkNary isAnd es) ↔ (∀ e ∈ es, ExactOK ρ e) ∧ ∀ o ∈ es, Is01 (eval ρ o) := by
  cases isAnd <;> simp [mkNary, ExactOK, ExactOKList_iff]
theorem TruthOK_mkNary (ρ : String → K) (isAnd : Bool) (es : List (Exp (Ext K))) :
    TruthOK ρ (mkNary isAnd es) ↔ ∀ e ∈ es, TruthOK ρ e := by
  cases isAnd <;> simp [mkNary, TruthOK, TruthOKList_iff]
theorem ExactOK_num (ρ : String → K) (x : Ext K) : ExactOK ρ (.num x) := by simp [ExactOK]
theorem TruthOK_num (ρ : String → K) (x : Ext K) : TruthOK ρ (.num x) := by simp [TruthOK]

/-- an exact position is in particular a logical one. -/
theorem TruthOK_of_ExactOK (ρ : String → K) (e : Exp (Ext K)) : ExactOK ρ e → TruthOK ρ e := by
  induction e using Exp.ind with
  | num v => intro _; simp [TruthOK]
  | var s => intro _; simp [TruthOK]
  | abs e ih => intro h; simpa only [ExactOK, TruthOK] using h
  | min es ih => intro h; simpa only [ExactOK, TruthOK] using h
  | max es ih => intro h; simpa only [ExactOK, TruthOK] using h
  | and es ih =>
    intro h; simp only [ExactOK, ExactOKList_iff] at h
    simp only [TruthOK, TruthOKList_iff]; exact fun e he => ih e he (h.1 e he)
  | or es ih =>
    intro h; simp only [ExactOK, ExactOKList_iff] at h
    simp only [TruthOK, TruthOKList_iff]; exact fun e he => ih e he (h.1 e he)
  | not e ih => intro h; simpa only [ExactOK, TruthOK] using h
  | xor a b iha ihb => intro h; simpa only [ExactOK, TruthOK] using h
  | implies a b iha ihb => intro h; simpa only [ExactOK, TruthOK] using h
  | iff a b iha ihb => intro h; simpa only [ExactOK, TruthOK] using h
  | bin op a b iha ihb =>
    intro h
    cases op <;> simp only [ExactOK, TruthOK, isXorLike, isAndOr, Bool.or_self, Bool.or_true,
      Bool.or_false, Bool.false_eq_true, if_false, if_true] at h ⊢
    all_goals first | exact h | exact ⟨iha h.1, ihb h.2.1⟩ | exact ⟨h.1, h.2.1⟩
  | un op e ih => intro h; cases op <;> simpa only [ExactOK, TruthOK] using h

/-- `LogicOperands01` is the special case in which every and/or node is treated as exact. -/
theorem ExactOK_of_LogicOperands01 (ρ : String → K) (e : Exp (Ext K)) :
    LogicOperands01 ρ e → ExactOK ρ e := by
  induction e using Exp.ind with
  | num v => intro _; simp [ExactOK]
  | var s => intro _; simp [ExactOK]
  | abs e ih => intro h; simp only [LogicOperands01] at h; simpa only [ExactOK] using ih h
  | min es ih =>
    intro h; simp only [LogicOperands01, LogicOperands01List_iff] at h
    simp only [ExactOK, ExactOKList_iff]; exact fun e he => ih e he (h e he)
  | max es ih =>
    intro h; simp only [LogicOperands01, LogicOperands01List_iff] at h
    simp only [ExactOK, ExactOKList_iff]; exact fun e he => ih e he (h e he)
  | and es ih =>
    intro h; simp only [LogicOperands01, LogicOperands01List_iff] at h
    simp only [ExactOK, ExactOKList_iff]; exact ⟨fun e he => ih e he (h.1 e he), h.2⟩
  | or es ih =>
    intro h; simp only [LogicOperands01, LogicOperands01List_iff] at h
    simp only [ExactOK, ExactOKList_iff]; exact ⟨fun e he => ih e he (h.1 e he), h.2⟩
  | not e ih =>
    intro h; simp only [LogicOperands01] at h
    simp only [ExactOK]; exact TruthOK_of_ExactOK ρ e (ih h)
  | xor a b iha ihb =>
    intro h; simp only [LogicOperands01] at h
    simp only [ExactOK]; exact ⟨TruthOK_of_ExactOK ρ a (iha h.1), TruthOK_of_ExactOK ρ b (ihb h.2)⟩
  | implies a b iha ihb =>
    intro h; simp only [LogicOperands01] at h
    simp only [ExactOK]; exact ⟨TruthOK_of_ExactOK ρ a (iha h.1), TruthOK_of_ExactOK ρ b (ihb h.2)⟩
  | iff a b iha ihb =>
    intro h; simp only [LogicOperands01] at h
    simp only [ExactOK]; exact ⟨TruthOK_of_ExactOK ρ a (iha h.1), TruthOK_of_ExactOK ρ b (ihb h.2)⟩
  | bin op a b iha ihb =>
    intro h; simp only [LogicOperands01] at h
    have ha := iha h.1
    have hb := ihb h.2.1
    have h01 : isAndOr op = true → Is01 (eval ρ a) ∧ Is01 (eval ρ b) := by
      intro h'; apply h.2.2; cases op <;> simp_all [isAndOr]
    simp only [ExactOK]
    split
    · exact ⟨TruthOK_of_ExactOK ρ a ha, TruthOK_of_ExactOK ρ b hb⟩
    · exact ⟨ha, hb, h01⟩
  | un op e ih =>
    intro h; simp only [LogicOperands01] at h
    cases op
    · simpa only [ExactOK] using ih h
    · simp only [ExactOK]; exact TruthOK_of_ExactOK ρ e (ih h)

/-! ### invariants through the node-level rules -/

theorem ExactOK_negCore {ρ : String → K} {e : Exp (Ext K)} (h : ExactOK ρ e) :
    ExactOK ρ (negCore e) := by
  unfold negCore; split <;> simp_all [ExactOK]
theorem ExactOK_absCore {ρ : String → K} {e : Exp (Ext K)} (h : ExactOK ρ e) :
    ExactOK ρ (absCore e) := by
  unfold absCore; split <;> simp_all [ExactOK]
theorem ExactOK_notCore {ρ : String → K} {e : Exp (Ext K)} (h : TruthOK ρ e) :
    ExactOK ρ (notCore e) := by
  unfold notCore; split <;> simp_all [ExactOK]
theorem ExactOK_xorCore {ρ : String → K} {a b : Exp (Ext K)} (ha : TruthOK ρ a)
    (hb : TruthOK ρ b) : ExactOK ρ (xorCore a b) := by
  unfold xorCore; split <;> simp_all [ExactOK]
theorem ExactOK_impliesCore {ρ : String → K} {a b : Exp (Ext K)} (ha : TruthOK ρ a)
    (hb : TruthOK ρ b) : ExactOK ρ (impliesCore a b) := by
  unfold impliesCore; split <;> simp_all [ExactOK]
theorem ExactOK_iffCore {ρ : String → K} {a b : Exp (Ext K)} (ha : TruthOK ρ a)
    (hb : TruthOK ρ b) : ExactOK ρ (iffCore a b) := by
  unfold iffCore; split <;> simp_all [ExactOK]
theorem ExactOK_maxCore {ρ : String → K} {cs : List (Exp (Ext K))} (h : ∀ c ∈ cs, ExactOK ρ c) :
    ExactOK ρ (maxCore cs) := by
  unfold maxCore; split <;> simp_all [ExactOK, ExactOKList_iff]
theorem ExactOK_minCore {ρ : String → K} {cs : List (Exp (Ext K))} (h : ∀ c ∈ cs, ExactOK ρ c) :
    ExactOK ρ (minCore cs) := by
  unfold minCore; split <;> simp_all [ExactOK, ExactOKList_iff]

theorem ExactOK_of_cases {ρ : String → K} {op : BinOp} {l r x : Exp (Ext K)}
    (hop : isXorLike op = false ∧ isAndOr op = false) (hl : ExactOK ρ l) (hr : ExactOK ρ r)
    (h : x = l ∨ x = r ∨ (∃ v, x = .num v) ∨ x = .bin op l r) : ExactOK ρ x := by
  rcases h with h | h | ⟨v, h⟩ | h <;> subst h
  · exact hl
  · exact hr
  · exact ExactOK_num _ _
  · simp only [ExactOK, hop.1, hop.2, Bool.false_eq_true, if_false]
    exact ⟨hl, hr, fun h => by cases h⟩

/-! ### the n-ary step in a logical position: the truth value survives, nothing else is needed -/

theorem truthy_zero : truthy (0 : K) = false := by simp [truthy_eq]
theorem truthy_one : truthy (1 : K) = true := by simp [truthy_eq]

theorem naryCore_truth {ρ : String → K} (isAnd : Bool) {cs : List (Exp (Ext K))}
    (hdef : ∀ c ∈ cs, Def ρ c) (hT : ∀ c ∈ cs, TruthOK ρ c) :
    ∃ w, eval ρ (naryCore isAnd cs) = some w ∧ truthy w = agg ρ isAnd cs ∧
      TruthOK ρ (naryCore isAnd cs) := by
  have hF : ∀ x ∈ naryFlatten isAnd cs, Def ρ x ∧ TruthOK ρ x := by
    intro x hx
    rcases mem_naryFlatten.1 hx with ⟨h1, _⟩ | ⟨inner, h1, h2⟩
    · exact ⟨hdef x h1, hT x h1⟩
    · have hd := ((eval_nary_iff isAnd).1 (eval_of_Def (hdef _ h1))).1
      exact ⟨hd x h2, (TruthOK_mkNary ρ isAnd inner).1 (hT _ h1) x h2⟩
  have hagg := agg_flatten isAnd hdef
  have hres : ∀ res, naryStep isAnd (naryFlatten isAnd cs) = some res →
      agg ρ isAnd res = agg ρ isAnd cs ∧ ∀ x ∈ res, Def ρ x ∧ TruthOK ρ x := by
    intro res hs
    obtain ⟨h1, h2⟩ := naryStep_agg (fun x hx => (hF x hx).1) hs
    exact ⟨by rw [h1, hagg], fun x hx => hF x (h2 x hx)⟩
  rcases naryCore_cases isAnd cs with ⟨h1, h2⟩ | ⟨h1, h2⟩ | ⟨e, h1, h2⟩ | ⟨res, h1, hl, h2⟩
  · rw [h2, ← hagg, naryStep_none_agg (fun x hx => (hF x hx).1) h1]
    cases isAnd
    · exact ⟨1, by simp [eval], truthy_one, TruthOK_num _ _⟩
    · exact ⟨0, by simp [eval], truthy_zero, TruthOK_num _ _⟩
  · rw [h2, ← (hres _ h1).1, agg_nil]
    exact ⟨_, eval_logicNumber ρ isAnd, truthy_ofBool _, TruthOK_num _ _⟩
  · obtain ⟨hag, hel⟩ := hres _ h1
    obtain ⟨hd, hlo⟩ := hel e (by simp)
    rw [h2]
    refine ⟨val ρ e, eval_of_Def hd, ?_, hlo⟩
    rw [← hag]
    cases isAnd <;> simp [agg, tv]
  · obtain ⟨hag, hel⟩ := hres _ h1
    rw [h2, ← hag]
    exact ⟨_, (eval_nary_iff isAnd).2 ⟨fun x hx => (hel x hx).1, rfl⟩, truthy_ofBool _,
      (TruthOK_mkNary ρ isAnd res).2 (fun x hx => (hel x hx).2)⟩

/-! ### the two-sorted induction -/

/-- exact claim for `e`. -/
def SE (ρ : String → K) (e : Exp (Ext K)) : Prop :=
  ExactOK ρ e → ∀ v, eval ρ e = some v → eval ρ (simplify e) = some v ∧ ExactOK ρ (simplify e)
/-- truth-value claim for `e`. -/
def ST (ρ : String → K) (e : Exp (Ext K)) : Prop :=
  TruthOK ρ e → ∀ v, eval ρ e = some v →
    ∃ w, eval ρ (simplify e) = some w ∧ truthy w = truthy v ∧ TruthOK ρ (simplify e)

theorem ST_of_SE {ρ : String → K} {e : Exp (Ext K)} (hiff : TruthOK ρ e → ExactOK ρ e)
    (h : SE ρ e) : ST ρ e := by
  intro ht v hv
  obtain ⟨h1, h2⟩ := h (hiff ht) v hv
  exact ⟨v, h1, rfl, TruthOK_of_ExactOK ρ _ h2⟩

/-- operands in logical position: same definedness, same truth value. -/
theorem truth_children {ρ : String → K} {es : List (Exp (Ext K))}
    (ih : ∀ e ∈ es, ST ρ e) (hT : ∀ e ∈ es, TruthOK ρ e) (hdef : ∀ e ∈ es, Def ρ e) :
    (∀ c ∈ es.map simplify, Def ρ c) ∧ (∀ c ∈ es.map simplify, TruthOK ρ c) ∧
      ∀ isAnd, agg ρ isAnd (es.map simplify) = agg ρ isAnd es := by
  have key : ∀ e ∈ es, Def ρ (simplify e) ∧ tv ρ (simplify e) = tv ρ e ∧ TruthOK ρ (simplify e) := by
    intro e he
    obtain ⟨w, h1, h2, h3⟩ := ih e he (hT e he) _ (eval_of_Def (hdef e he))
    exact ⟨Def_of_eval h1, by rw [tv, tv, val_of_eval h1, h2], h3⟩
  refine ⟨?_, ?_, fun isAnd => agg_map_congr isAnd (fun e he => (key e he).2.1)⟩
  · intro c hc; obtain ⟨e, he, rfl⟩ := List.mem_map.1 hc; exact (key e he).1
  · intro c hc; obtain ⟨e, he, rfl⟩ := List.mem_map.1 hc; exact (key e he).2.2

/-- operands in exact position: same value. -/
theorem exact_children {ρ : String → K} {es : List (Exp (Ext K))}
    (ih : ∀ e ∈ es, SE ρ e) (hE : ∀ e ∈ es, ExactOK ρ e) (hdef : ∀ e ∈ es, Def ρ e) :
    (∀ e ∈ es, eval ρ (simplify e) = eval ρ e) ∧ (∀ c ∈ es.map simplify, ExactOK ρ c) := by
  have key : ∀ e ∈ es, eval ρ (simplify e) = eval ρ e ∧ ExactOK ρ (simplify e) := by
    intro e he
    have := ih e he (hE e he) _ (eval_of_Def (hdef e he))
    exact ⟨by rw [this.1, eval_of_Def (hdef e he)], this.2⟩
  refine ⟨fun e he => (key e he).1, ?_⟩
  intro c hc; obtain ⟨e, he, rfl⟩ := List.mem_map.1 hc; exact (key e he).2

theorem nary_exact {ρ : String → K} (isAnd : Bool) {es : List (Exp (Ext K))}
    (ih : ∀ e ∈ es, SE ρ e) (hE : ∀ e ∈ es, ExactOK ρ e) (h01 : ∀ e ∈ es, Is01 (eval ρ e))
    (hdef : ∀ e ∈ es, Def ρ e) :
    eval ρ (naryCore isAnd (es.map simplify)) = some (ofBool (agg ρ isAnd es)) ∧
      ExactOK ρ (naryCore isAnd (es.map simplify)) := by
  obtain ⟨k1, k2⟩ := exact_children ih hE hdef
  have h := naryCore_sound_gen (ρ := ρ) (ExactOK ρ) (ExactOK_mkNary ρ) (ExactOK_num ρ) isAnd
    (cs := es.map simplify)
    (by
      intro x hx; obtain ⟨e, he, rfl⟩ := List.mem_map.1 hx
      unfold Def; rw [k1 e he]; exact hdef e he)
    (by
      intro x hx; obtain ⟨e, he, rfl⟩ := List.mem_map.1 hx
      rw [k1 e he]; exact h01 e he)
    k2
  have hagg : agg ρ isAnd (es.map simplify) = agg ρ isAnd es :=
    agg_map_congr isAnd (fun e he => by unfold tv val; rw [k1 e he])
  rw [hagg] at h
  exact h

theorem nary_truth {ρ : String → K} (isAnd : Bool) {es : List (Exp (Ext K))}
    (ih : ∀ e ∈ es, ST ρ e) (hT : ∀ e ∈ es, TruthOK ρ e) (hdef : ∀ e ∈ es, Def ρ e) :
    ∃ w, eval ρ (naryCore isAnd (es.map simplify)) = some w ∧ truthy w = agg ρ isAnd es ∧
      TruthOK ρ (naryCore isAnd (es.map simplify)) := by
  obtain ⟨k1, k2, k3⟩ := truth_children ih hT hdef
  obtain ⟨w, h1, h2, h3⟩ := naryCore_truth isAnd k1 k2
  exact ⟨w, h1, by rw [h2, k3], h3⟩

/-- what a unary logical node needs: its operand's truth value. -/
theorem not_exact {ρ : String → K} {e : Exp (Ext K)} (ih : ST ρ e) (hT : TruthOK ρ e) {a : K}
    (ha : eval ρ e = some a) :
    eval ρ (notCore (simplify e)) = some (ofBool (!(truthy a))) ∧
      ExactOK ρ (notCore (simplify e)) ∧ TruthOK ρ (notCore (simplify e)) := by
  obtain ⟨w, h1, h2, h3⟩ := ih hT a ha
  have := ExactOK_notCore h3
  exact ⟨by rw [eval_notCore h1, h2], this, TruthOK_of_ExactOK ρ _ this⟩

theorem xorlike_exact {ρ : String → K} {a b : Exp (Ext K)} (iha : ST ρ a) (ihb : ST ρ b)
    (hTa : TruthOK ρ a) (hTb : TruthOK ρ b) {x y : K}
    (hx : eval ρ a = some x) (hy : eval ρ b = some y) :
    (eval ρ (xorCore (simplify a) (simplify b)) = some (ofBool (truthy x != truthy y)) ∧
      ExactOK ρ (xorCore (simplify a) (simplify b))) ∧
    (eval ρ (impliesCore (simplify a) (simplify b)) = some (ofBool (!(truthy x) || truthy y)) ∧
      ExactOK ρ (impliesCore (simplify a) (simplify b))) ∧
    (eval ρ (iffCore (simplify a) (simplify b)) = some (ofBool (truthy x == truthy y)) ∧
      ExactOK ρ (iffCore (simplify a) (simplify b))) := by
  obtain ⟨w1, h1, h2, h3⟩ := iha hTa x hx
  obtain ⟨w2, k1, k2, k3⟩ := ihb hTb y hy
  exact ⟨⟨by rw [eval_xorCore h1 k1, h2, k2], ExactOK_xorCore h3 k3⟩,
    ⟨by rw [eval_impliesCore h1 k1, h2, k2], ExactOK_impliesCore h3 k3⟩,
    ⟨by rw [eval_iffCore h1 k1, h2, k2], ExactOK_iffCore h3 k3⟩⟩

theorem eval_xor_some {ρ : String → K} {a b : Exp (Ext K)} {v : K}
    (h : eval ρ (.xor a b) = some v) :
    ∃ x y, eval ρ a = some x ∧ eval ρ b = some y ∧ v = ofBool (truthy x != truthy y) := by
  simp only [eval] at h
  cases ha : eval ρ a <;> cases hb : eval ρ b <;> simp_all [binVal]
theorem eval_implies_some {ρ : String → K} {a b : Exp (Ext K)} {v : K}
    (h : eval ρ (.implies a b) = some v) :
    ∃ x y, eval ρ a = some x ∧ eval ρ b = some y ∧ v = ofBool (!(truthy x) || truthy y) := by
  simp only [eval] at h
  cases ha : eval ρ a <;> cases hb : eval ρ b <;> simp_all [binVal]
theorem eval_iff_some {ρ : String → K} {a b : Exp (Ext K)} {v : K}
    (h : eval ρ (.iff a b) = some v) :
    ∃ x y, eval ρ a = some x ∧ eval ρ b = some y ∧ v = ofBool (truthy x == truthy y) := by
  simp only [eval] at h
  cases ha : eval ρ a <;> cases hb : eval ρ b <;> simp_all [binVal]

omit [Field K] [LinearOrder K] [IsStrictOrderedRing K] [FloorRing K] in
theorem list_pair {P : Exp (Ext K) → Prop} {l r : Exp (Ext K)} (hl : P l) (hr : P r) :
    ∀ c ∈ [l, r], P c := by
  intro c hc; simp at hc; rcases hc with rfl | rfl <;> assumption

theorem two_sorted_bin {ρ : String → K} (op : BinOp) {a b : Exp (Ext K)}
    (iha : SE ρ a ∧ ST ρ a) (ihb : SE ρ b ∧ ST ρ b) : SE ρ (.bin op a b) ∧ ST ρ (.bin op a b) := by
  -- arithmetic operators
  have arith : isXorLike op = false → isAndOr op = false → SE ρ (.bin op a b) := by
    intro h1 h2 h v hv
    simp only [ExactOK, h1, h2, Bool.false_eq_true, if_false] at h
    obtain ⟨x, y, hx, hy, hxy⟩ := eval_bin_some hv
    obtain ⟨e1, e2⟩ := iha.1 h.1 x hx
    obtain ⟨e3, e4⟩ := ihb.1 h.2.1 y hy
    rw [simplify_bin]
    cases op <;> simp only [isXorLike, isAndOr, Bool.true_eq_false] at h1 h2
    · simp only [binVal, Option.some.injEq] at hxy; subst hxy
      exact ⟨eval_addCore e1 e3, ExactOK_of_cases (by simp [isXorLike, isAndOr]) e2 e4 (addCore_cases _ _)⟩
    · simp only [binVal, Option.some.injEq] at hxy; subst hxy
      exact ⟨eval_subCore e1 e3, ExactOK_of_cases (by simp [isXorLike, isAndOr]) e2 e4 (subCore_cases _ _)⟩
    · simp only [binVal, Option.some.injEq] at hxy; subst hxy
      exact ⟨eval_mulCore e1 e3, ExactOK_of_cases (by simp [isXorLike, isAndOr]) e2 e4 (mulCore_cases _ _)⟩
    · simp only [binVal] at hxy
      split at hxy
      · cases hxy
      · rename_i hy0
        simp only [Option.some.injEq] at hxy; subst hxy
        exact ⟨eval_divCore e1 e3 (by simpa using hy0),
          ExactOK_of_cases (by simp [isXorLike, isAndOr]) e2 e4 (divCore_cases _ _)⟩
  have arithT : isXorLike op = false → isAndOr op = false → ST ρ (.bin op a b) := by
    intro h1 h2
    refine ST_of_SE ?_ (arith h1 h2)
    intro ht
    simp only [TruthOK, h1, h2, Bool.or_self, Bool.false_eq_true, if_false] at ht
    simp only [ExactOK, h1, h2, Bool.false_eq_true, if_false]
    exact ⟨ht.1, ht.2, fun h => by cases h⟩
  -- and / or
  have andor : ∀ isAnd : Bool, op = (if isAnd then BinOp.and else BinOp.or) →
      SE ρ (.bin op a b) ∧ ST ρ (.bin op a b) := by
    intro isAnd hop
    have hbv : ∀ x y : K, binVal op x y =
        some (ofBool (if isAnd then (truthy x && truthy y) else (truthy x || truthy y))) := by
      intro x y; cases isAnd <;> simp [hop, binVal]
    have hcore : ∀ l r : Exp (Ext K), binCore op l r = naryCore isAnd [l, r] := by
      intro l r; cases isAnd <;> simp [hop, binCore]
    have hagg : ∀ x y : K, eval ρ a = some x → eval ρ b = some y →
        agg ρ isAnd [a, b] = if isAnd then (truthy x && truthy y) else (truthy x || truthy y) := by
      intro x y hx hy
      cases isAnd <;> simp [agg, tv, val_of_eval hx, val_of_eval hy]
    have hxl : isXorLike op = false := by cases isAnd <;> simp [hop, isXorLike]
    have hao : isAndOr op = true := by cases isAnd <;> simp [hop, isAndOr]
    constructor
    · intro h v hv
      simp only [ExactOK, hxl, hao, Bool.false_eq_true, if_false, forall_const] at h
      obtain ⟨x, y, hx, hy, hxy⟩ := eval_bin_some hv
      rw [hbv] at hxy; cases hxy
      have := nary_exact (ρ := ρ) isAnd (es := [a, b]) (list_pair iha.1 ihb.1)
        (list_pair h.1 h.2.1) (list_pair h.2.2.1 h.2.2.2)
        (list_pair (Def_of_eval hx) (Def_of_eval hy))
      rw [simplify_bin, hcore]
      rw [hagg x y hx hy] at this
      simpa using this
    · intro h v hv
      simp only [TruthOK, hxl, hao, Bool.or_true, if_true] at h
      obtain ⟨x, y, hx, hy, hxy⟩ := eval_bin_some hv
      rw [hbv] at hxy; cases hxy
      obtain ⟨w, h1, h2, h3⟩ := nary_truth (ρ := ρ) isAnd (es := [a, b]) (list_pair iha.2 ihb.2)
        (list_pair h.1 h.2) (list_pair (Def_of_eval hx) (Def_of_eval hy))
      rw [simplify_bin, hcore]
      refine ⟨w, by simpa using h1, ?_, by simpa using h3⟩
      rw [h2, hagg x y hx hy, truthy_ofBool]
  -- xor / implies / iff
  have xorlike : isXorLike op = true →
      (TruthOK ρ a ∧ TruthOK ρ b → ∀ v, eval ρ (.bin op a b) = some v →
        eval ρ (simplify (.bin op a b)) = some v ∧ ExactOK ρ (simplify (.bin op a b))) := by
    intro hop h v hv
    obtain ⟨x, y, hx, hy, hxy⟩ := eval_bin_some hv
    obtain ⟨c1, c2, c3⟩ := xorlike_exact iha.2 ihb.2 h.1 h.2 hx hy
    rw [simplify_bin]
    cases op <;> simp only [isXorLike, Bool.false_eq_true] at hop <;>
      (simp only [binVal, Option.some.injEq] at hxy; subst hxy)
    · exact c1
    · exact c2
    · exact c3
  have xorlikeBoth : isXorLike op = true → SE ρ (.bin op a b) ∧ ST ρ (.bin op a b) := by
    intro hop
    constructor
    · intro h v hv
      simp only [ExactOK, hop, if_true] at h
      exact xorlike hop h v hv
    · intro h v hv
      simp only [TruthOK, hop, Bool.true_or, if_true] at h
      obtain ⟨h1, h2⟩ := xorlike hop h v hv
      exact ⟨v, h1, rfl, TruthOK_of_ExactOK ρ _ h2⟩
  cases op
  · exact ⟨arith rfl rfl, arithT rfl rfl⟩
  · exact ⟨arith rfl rfl, arithT rfl rfl⟩
  · exact ⟨arith rfl rfl, arithT rfl rfl⟩
  · exact ⟨arith rfl rfl, arithT rfl rfl⟩
  · exact andor true rfl
  · exact andor false rfl
  · exact xorlikeBoth rfl
  · exact xorlikeBoth rfl
  · exact xorlikeBoth rfl

theorem two_sorted_minmax {ρ : String → K} {es : List (Exp (Ext K))} (ih : ∀ e ∈ es, SE ρ e) :
    (SE ρ (.min es) ∧ ST ρ (.min es)) ∧ (SE ρ (.max es) ∧ ST ρ (.max es)) := by
  have hmin : SE ρ (.min es) := by
    intro h v hv
    simp only [ExactOK, ExactOKList_iff] at h
    simp only [eval] at hv
    split at hv
    · rename_i x xs hx
      simp only [Option.some.injEq] at hv; subst hv
      have hne : es ≠ [] := by rintro rfl; simp [evalList] at hx
      have hd := (evalList_some_iff.1 hx).1
      obtain ⟨k1, k2⟩ := exact_children ih h hd
      rw [simplify_min, if_neg hne]
      exact ⟨eval_minCore (evalList_map_simplify (fun e he v hv => by rw [k1 e he]; exact hv) hx),
        ExactOK_minCore k2⟩
    · cases hv
  have hmax : SE ρ (.max es) := by
    intro h v hv
    simp only [ExactOK, ExactOKList_iff] at h
    simp only [eval] at hv
    split at hv
    · rename_i x xs hx
      simp only [Option.some.injEq] at hv; subst hv
      have hne : es ≠ [] := by rintro rfl; simp [evalList] at hx
      have hd := (evalList_some_iff.1 hx).1
      obtain ⟨k1, k2⟩ := exact_children ih h hd
      rw [simplify_max, if_neg hne]
      exact ⟨eval_maxCore (evalList_map_simplify (fun e he v hv => by rw [k1 e he]; exact hv) hx),
        ExactOK_maxCore k2⟩
    · cases hv
  exact ⟨⟨hmin, ST_of_SE (fun h => by simpa only [ExactOK, TruthOK] using h) hmin⟩,
    ⟨hmax, ST_of_SE (fun h => by simpa only [ExactOK, TruthOK] using h) hmax⟩⟩

/-- The two-sorted soundness theorem: exact positions keep their value, logical positions keep
their truth value; both invariants are preserved. -/
theorem simplify_two_sorted (ρ : String → K) (e : Exp (Ext K)) : SE ρ e ∧ ST ρ e := by
  induction e using Exp.ind with
  | num x =>
    refine ⟨fun h v hv => ?_, fun h v hv => ?_⟩
    · rw [simplify_num]; exact ⟨hv, h⟩
    · rw [simplify_num]; exact ⟨v, hv, rfl, h⟩
  | var s =>
    refine ⟨fun h v hv => ?_, fun h v hv => ?_⟩
    · rw [simplify_var]; exact ⟨hv, h⟩
    · rw [simplify_var]; exact ⟨v, hv, rfl, h⟩
  | abs e ih =>
    have hse : SE ρ (.abs e) := by
      intro h v hv
      simp only [ExactOK] at h
      simp only [eval, Option.map_eq_some_iff] at hv
      obtain ⟨a, ha, rfl⟩ := hv
      obtain ⟨h1, h2⟩ := ih.1 h a ha
      rw [simplify_abs]; exact ⟨eval_absCore h1, ExactOK_absCore h2⟩
    exact ⟨hse, ST_of_SE (fun h => by simpa only [ExactOK, TruthOK] using h) hse⟩
  | min es ih => exact (two_sorted_minmax (fun e he => (ih e he).1)).1
  | max es ih => exact (two_sorted_minmax (fun e he => (ih e he).1)).2
  | and es ih =>
    constructor
    · intro h v hv
      simp only [ExactOK, ExactOKList_iff] at h
      obtain ⟨hd, rfl⟩ := eval_and_iff.1 hv
      rw [simplify_and]
      simpa [agg] using nary_exact true (fun e he => (ih e he).1) h.1 h.2 hd
    · intro h v hv
      simp only [TruthOK, TruthOKList_iff] at h
      obtain ⟨hd, rfl⟩ := eval_and_iff.1 hv
      rw [simplify_and]
      obtain ⟨w, h1, h2, h3⟩ := nary_truth true (fun e he => (ih e he).2) h hd
      exact ⟨w, h1, by rw [h2, truthy_ofBool]; simp [agg], h3⟩
  | or es ih =>
    constructor
    · intro h v hv
      simp only [ExactOK, ExactOKList_iff] at h
      obtain ⟨hd, rfl⟩ := eval_or_iff.1 hv
      rw [simplify_or]
      simpa [agg] using nary_exact false (fun e he => (ih e he).1) h.1 h.2 hd
    · intro h v hv
      simp only [TruthOK, TruthOKList_iff] at h
      obtain ⟨hd, rfl⟩ := eval_or_iff.1 hv
      rw [simplify_or]
      obtain ⟨w, h1, h2, h3⟩ := nary_truth false (fun e he => (ih e he).2) h hd
      exact ⟨w, h1, by rw [h2, truthy_ofBool]; simp [agg], h3⟩
  | not e ih =>
    constructor
    · intro h v hv
      simp only [ExactOK] at h
      simp only [eval, Option.map_eq_some_iff] at hv
      obtain ⟨a, ha, rfl⟩ := hv
      obtain ⟨h1, h2, _⟩ := not_exact ih.2 h ha
      rw [simplify_not]; exact ⟨h1, h2⟩
    · intro h v hv
      simp only [TruthOK] at h
      simp only [eval, Option.map_eq_some_iff] at hv
      obtain ⟨a, ha, rfl⟩ := hv
      obtain ⟨h1, _, h3⟩ := not_exact ih.2 h ha
      rw [simplify_not]; exact ⟨_, h1, rfl, h3⟩
  | xor a b iha ihb =>
    have key : TruthOK ρ a ∧ TruthOK ρ b → ∀ v, eval ρ (.xor a b) = some v →
        eval ρ (simplify (.xor a b)) = some v ∧ ExactOK ρ (simplify (.xor a b)) := by
      intro h v hv
      obtain ⟨x, y, hx, hy, rfl⟩ := eval_xor_some hv
      rw [simplify_xor]; exact (xorlike_exact iha.2 ihb.2 h.1 h.2 hx hy).1
    refine ⟨fun h => key (by simpa only [ExactOK] using h), fun h v hv => ?_⟩
    obtain ⟨h1, h2⟩ := key (by simpa only [TruthOK] using h) v hv
    exact ⟨v, h1, rfl, TruthOK_of_ExactOK ρ _ h2⟩
  | implies a b iha ihb =>
    have key : TruthOK ρ a ∧ TruthOK ρ b → ∀ v, eval ρ (.implies a b) = some v →
        eval ρ (simplify (.implies a b)) = some v ∧ ExactOK ρ (simplify (.implies a b)) := by
      intro h v hv
      obtain ⟨x, y, hx, hy, rfl⟩ := eval_implies_some hv
      rw [simplify_implies]; exact (xorlike_exact iha.2 ihb.2 h.1 h.2 hx hy).2.1
    refine ⟨fun h => key (by simpa only [ExactOK] using h), fun h v hv => ?_⟩
    obtain ⟨h1, h2⟩ := key (by simpa only [TruthOK] using h) v hv
    exact ⟨v, h1, rfl, TruthOK_of_ExactOK ρ _ h2⟩
  | iff a b iha ihb =>
    have key : TruthOK ρ a ∧ TruthOK ρ b → ∀ v, eval ρ (.iff a b) = some v →
        eval ρ (simplify (.iff a b)) = some v ∧ ExactOK ρ (simplify (.iff a b)) := by
      intro h v hv
      obtain ⟨x, y, hx, hy, rfl⟩ := eval_iff_some hv
      rw [simplify_iff]; exact (xorlike_exact iha.2 ihb.2 h.1 h.2 hx hy).2.2
    refine ⟨fun h => key (by simpa only [ExactOK] using h), fun h v hv => ?_⟩
    obtain ⟨h1, h2⟩ := key (by simpa only [TruthOK] using h) v hv
    exact ⟨v, h1, rfl, TruthOK_of_ExactOK ρ _ h2⟩
  | bin op a b iha ihb => exact two_sorted_bin op iha ihb
  | un op e ih =>
    cases op with
    | neg =>
      have hse : SE ρ (.un .neg e) := by
        intro h v hv
        simp only [ExactOK] at h
        simp only [eval, Option.map_eq_some_iff] at hv
        obtain ⟨a, ha, rfl⟩ := hv
        obtain ⟨h1, h2⟩ := ih.1 h a ha
        rw [simplify_neg]; exact ⟨eval_negCore h1, ExactOK_negCore h2⟩
      exact ⟨hse, ST_of_SE (fun h => by simpa only [ExactOK, TruthOK] using h) hse⟩
    | not =>
      constructor
      · intro h v hv
        simp only [ExactOK] at h
        simp only [eval, Option.map_eq_some_iff] at hv
        obtain ⟨a, ha, rfl⟩ := hv
        obtain ⟨h1, h2, _⟩ := not_exact ih.2 h ha
        rw [simplify_unot]; exact ⟨h1, h2⟩
      · intro h v hv
        simp only [TruthOK] at h
        simp only [eval, Option.map_eq_some_iff] at hv
        obtain ⟨a, ha, rfl⟩ := hv
        obtain ⟨h1, _, h3⟩ := not_exact ih.2 h ha
        rw [simplify_unot]; exact ⟨_, h1, rfl, h3⟩

end

/-! ### purely syntactic (decidable, assignment-independent) sufficient conditions -/

mutual
/-- no and/or node in an exact position below (or at) `e`, `e` itself read in exact position. -/
def exactShape {α : Type} : Exp α → Bool
  | .num _ => true
  | .var _ => true
  | .abs e => exactShape e
  | .un .neg e => exactShape e
  | .un .not e => truthShape e
  | .not e => truthShape e
  | .min es => exactShapeList es
  | .max es => exactShapeList es
  | .and _ => false
  | .or _ => false
  | .xor a b => truthShape a && truthShape b
  | .implies a b => truthShape a && truthShape b
  | .iff a b => truthShape a && truthShape b
  | .bin op a b =>
      if isXorLike op then truthShape a && truthShape b
      else if isAndOr op then false
      else exactShape a && exactShape b
/-- the same, `e` itself read in logical position (so `e` may be an and/or node). -/
def truthShape {α : Type} : Exp α → Bool
  | .num _ => true
  | .var _ => true
  | .abs e => exactShape e
  | .un .neg e => exactShape e
  | .un .not e => truthShape e
  | .not e => truthShape e
  | .min es => exactShapeList es
  | .max es => exactShapeList es
  | .and es => truthShapeList es
  | .or es => truthShapeList es
  | .xor a b => truthShape a && truthShape b
  | .implies a b => truthShape a && truthShape b
  | .iff a b => truthShape a && truthShape b
  | .bin op a b =>
      if isXorLike op || isAndOr op then truthShape a && truthShape b
      else exactShape a && exactShape b
def exactShapeList {α : Type} : List (Exp α) → Bool
  | [] => true
  | e :: es => exactShape e && exactShapeList es
def truthShapeList {α : Type} : List (Exp α) → Bool
  | [] => true
  | e :: es => truthShape e && truthShapeList es
end

theorem exactShapeList_iff {α : Type} (es : List (Exp α)) :
    exactShapeList es = true ↔ ∀ e ∈ es, exactShape e = true := by
  induction es with
  | nil => simp [exactShapeList]
  | cons e es ih => simp [exactShapeList, ih]
theorem truthShapeList_iff {α : Type} (es : List (Exp α)) :
    truthShapeList es = true ↔ ∀ e ∈ es, truthShape e = true := by
  induction es with
  | nil => simp [truthShapeList]
  | cons e es ih => simp [truthShapeList, ih]

section
variable {K : Type} [Field K] [LinearOrder K] [IsStrictOrderedRing K] [FloorRing K]

theorem OK_of_shape (ρ : String → K) (e : Exp (Ext K)) :
    (exactShape e = true → ExactOK ρ e) ∧ (truthShape e = true → TruthOK ρ e) := by
  induction e using Exp.ind with
  | num v => simp [ExactOK, TruthOK]
  | var s => simp [ExactOK, TruthOK]
  | abs e ih => simp only [exactShape, truthShape, ExactOK, TruthOK]; exact ⟨ih.1, ih.1⟩
  | min es ih =>
    simp only [exactShape, truthShape, ExactOK, TruthOK, exactShapeList_iff, ExactOKList_iff]
    exact ⟨fun h e he => (ih e he).1 (h e he), fun h e he => (ih e he).1 (h e he)⟩
  | max es ih =>
    simp only [exactShape, truthShape, ExactOK, TruthOK, exactShapeList_iff, ExactOKList_iff]
    exact ⟨fun h e he => (ih e he).1 (h e he), fun h e he => (ih e he).1 (h e he)⟩
  | and es ih =>
    refine ⟨fun h => ?_, fun h => ?_⟩
    · simp [exactShape] at h
    · simp only [truthShape, truthShapeList_iff] at h
      simp only [TruthOK, TruthOKList_iff]; exact fun e he => (ih e he).2 (h e he)
  | or es ih =>
    refine ⟨fun h => ?_, fun h => ?_⟩
    · simp [exactShape] at h
    · simp only [truthShape, truthShapeList_iff] at h
      simp only [TruthOK, TruthOKList_iff]; exact fun e he => (ih e he).2 (h e he)
  | not e ih => simp only [exactShape, truthShape, ExactOK, TruthOK]; exact ⟨ih.2, ih.2⟩
  | xor a b iha ihb =>
    simp only [exactShape, truthShape, ExactOK, TruthOK, Bool.and_eq_true]
    exact ⟨fun h => ⟨iha.2 h.1, ihb.2 h.2⟩, fun h => ⟨iha.2 h.1, ihb.2 h.2⟩⟩
  | implies a b iha ihb =>
    simp only [exactShape, truthShape, ExactOK, TruthOK, Bool.and_eq_true]
    exact ⟨fun h => ⟨iha.2 h.1, ihb.2 h.2⟩, fun h => ⟨iha.2 h.1, ihb.2 h.2⟩⟩
  | iff a b iha ihb =>
    simp only [exactShape, truthShape, ExactOK, TruthOK, Bool.and_eq_true]
    exact ⟨fun h => ⟨iha.2 h.1, ihb.2 h.2⟩, fun h => ⟨iha.2 h.1, ihb.2 h.2⟩⟩
  | bin op a b iha ihb =>
    refine ⟨fun h => ?_, fun h => ?_⟩
    · simp only [exactShape] at h
      simp only [ExactOK]
      by_cases hx : isXorLike op = true
      · simp only [hx, if_true, Bool.and_eq_true] at h ⊢
        exact ⟨iha.2 h.1, ihb.2 h.2⟩
      · by_cases ha : isAndOr op = true
        · simp [hx, ha] at h
        · simp only [hx, ha, Bool.false_eq_true, if_false, Bool.and_eq_true] at h ⊢
          exact ⟨iha.1 h.1, ihb.1 h.2, fun h' => absurd h' (by simp)⟩
    · simp only [truthShape] at h
      simp only [TruthOK]
      by_cases hx : (isXorLike op || isAndOr op) = true
      · simp only [hx, if_true, Bool.and_eq_true] at h ⊢
        exact ⟨iha.2 h.1, ihb.2 h.2⟩
      · simp only [hx, Bool.false_eq_true, if_false, Bool.and_eq_true] at h ⊢
        exact ⟨iha.1 h.1, ihb.1 h.2⟩
  | un op e ih =>
    cases op <;> simp only [exactShape, truthShape, ExactOK, TruthOK]
    · exact ⟨ih.1, ih.1⟩
    · exact ⟨ih.2, ih.2⟩

end
end Rooc
