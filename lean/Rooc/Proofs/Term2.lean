/-
Termination of the mixed Dantzig/Bland loop, part 2: the counting argument.
-/
import Rooc.Proofs.Term1
namespace Rooc
namespace Term
variable {K : Type} [Field K] [LinearOrder K] [IsStrictOrderedRing K]
attribute [local instance] exactArith
open Tableau TabSem PivotLemmas StepLemmas BasicSol Bland

variable {tol : K} {m n L N : Nat} {c0 : List K} {T : Nat → Tab K} {h t : Nat → Nat} {ρ : Nat → K} {st : Nat → Nat}

/-- the counter never exceeds the number of pivots done, and the value has not changed since it was last `0`. -/
theorem lr_stall_back (R : LoopRun tol m n L N c0 T h t ρ st) : ∀ p, p ≤ N →
    st p ≤ p ∧ (T (p - st p)).value = (T p).value
  | 0, _ => by simp [R.st0]
  | p+1, hp => by
    obtain ⟨h1, h2⟩ := lr_stall_back R p (by omega)
    rw [R.stall p (by omega)]
    by_cases e : (T (p+1)).value = (T p).value
    · rw [if_pos e]
      refine ⟨by omega, ?_⟩
      have : p + 1 - (st p + 1) = p - st p := by omega
      rw [this, h2, e]
    · rw [if_neg e]; simp

theorem basis_toFinset_mem (R : LoopRun tol m n L N c0 T h t ρ st) (p : Nat) (hp : p ≤ N) :
    (T p).basis.toFinset ∈ (Finset.range n).powerset := by
  rw [Finset.mem_powerset]
  intro j hj
  rw [List.mem_toFinset] at hj
  obtain ⟨hC, -, -⟩ := lr_inv R p hp
  obtain ⟨k, hk, e⟩ := mem_basis_iff.1 hj
  have := hC.inRange k (by rw [hC.rect.rows, ← hC.rect.basis]; exact hk)
  rw [e, hC.rect.costs] at this
  exact Finset.mem_range.2 this

theorem basis_iff_of_toFinset {p q : Nat} (e : (T p).basis.toFinset = (T q).basis.toFinset) :
    ∀ j, j ∈ (T p).basis ↔ j ∈ (T q).basis := by
  intro j
  have := Finset.ext_iff.1 e j
  simpa [List.mem_toFinset] using this

/-- Bland steps of the run visit pairwise different basis sets. -/
theorem bland_steps_inj (ht : 0 < tol) (R : LoopRun tol m n L N c0 T h t ρ st) {p q : Nat} (hpq : p < q) (hq : q < N)
    (hp : st p > L) (e : (T p).basis.toFinset = (T q).basis.toFinset) : False := by
  have hb := basis_iff_of_toFinset e
  have hv := lr_value_of_basis R (by omega : p ≤ N) (by omega : q ≤ N) hb
  have hseg : ∀ r, p ≤ r → r < q → st r > L := by
    intro r h1 h2
    have hvr : (T p).value = (T r).value :=
      le_antisymm (lr_mono R h1 (by omega)) (by rw [hv]; exact lr_mono R (by omega) (by omega))
    rw [lr_stall_grows R r h1 (by omega) hvr]; omega
  have hrun := lr_bland_segment R hpq.le (by omega : q ≤ N) hseg
  have := no_cycle ht hrun (by omega)
  apply this
  intro j
  simpa [Nat.add_sub_cancel' hpq.le] using (hb j).symm

/-- Dantzig steps are told apart by (basis set at the start of their stall streak, position in the streak). -/
theorem dantzig_steps_inj (R : LoopRun tol m n L N c0 T h t ρ st) {p q : Nat} (hpq : p < q) (hq : q < N)
    (e1 : (T (p - st p)).basis.toFinset = (T (q - st q)).basis.toFinset) (e2 : st p = st q) : False := by
  obtain ⟨hp1, hp2⟩ := lr_stall_back R p (by omega)
  obtain ⟨hq1, hq2⟩ := lr_stall_back R q (by omega)
  have hv := lr_value_of_basis R (by omega : p - st p ≤ N) (by omega : q - st q ≤ N) (basis_iff_of_toFinset e1)
  have hvpq : (T p).value = (T q).value := by rw [← hp2, hv, hq2]
  have := lr_stall_grows R q hpq.le (by omega) hvpq
  omega

/-- **the loop is short**: a run over `n` columns with stall limit `L` has at most `2^n·(L+2)` pivots. -/
theorem run_length_le (ht : 0 < tol) (R : LoopRun tol m n L N c0 T h t ρ st) : N ≤ 2 ^ n * (L + 2) := by
  classical
  let Bs := (Finset.range N).filter (fun p => st p > L)
  let Ds := (Finset.range N).filter (fun p => ¬ st p > L)
  have hsplit : Bs.card + Ds.card = N := by
    have := Finset.card_filter_add_card_filter_not (s := Finset.range N) (fun p => st p > L)
    simpa [Bs, Ds] using this
  have hB : Bs.card ≤ 2 ^ n := by
    have := Finset.card_le_card_of_injOn (fun p => (T p).basis.toFinset) (s := Bs) (t := (Finset.range n).powerset)
      (fun p hp => basis_toFinset_mem R p (by
        have := Finset.mem_range.1 (Finset.mem_filter.1 hp).1; omega))
      (by
        intro p hp q hq e
        have hp' := Finset.mem_filter.1 hp
        have hq' := Finset.mem_filter.1 hq
        have hpN := Finset.mem_range.1 hp'.1
        have hqN := Finset.mem_range.1 hq'.1
        by_contra hne
        rcases Nat.lt_or_gt_of_ne hne with hlt | hlt
        · exact bland_steps_inj ht R hlt hqN hp'.2 e
        · exact bland_steps_inj ht R hlt hpN hq'.2 e.symm)
    simpa using this
  have hD : Ds.card ≤ 2 ^ n * (L + 1) := by
    have := Finset.card_le_card_of_injOn (fun p => ((T (p - st p)).basis.toFinset, st p)) (s := Ds)
      (t := (Finset.range n).powerset ×ˢ Finset.range (L + 1))
      (fun p hp => by
        have hp' := Finset.mem_filter.1 hp
        have hpN := Finset.mem_range.1 hp'.1
        have hst : ¬ st p > L := hp'.2
        exact Finset.mem_product.2 ⟨basis_toFinset_mem R _ (by omega), Finset.mem_range.2 (by show st p < L + 1; omega)⟩)
      (by
        intro p hp q hq e
        have hp' := Finset.mem_filter.1 hp
        have hq' := Finset.mem_filter.1 hq
        have hpN := Finset.mem_range.1 hp'.1
        have hqN := Finset.mem_range.1 hq'.1
        simp only [Prod.mk.injEq] at e
        by_contra hne
        rcases Nat.lt_or_gt_of_ne hne with hlt | hlt
        · exact dantzig_steps_inj R hlt hqN e.1 e.2
        · exact dantzig_steps_inj R hlt hpN e.1.symm e.2.symm)
    simpa [Finset.card_product] using this
  calc N = Bs.card + Ds.card := hsplit.symm
    _ ≤ 2 ^ n + 2 ^ n * (L + 1) := Nat.add_le_add hB hD
    _ = 2 ^ n * (L + 2) := by ring

end Term
end Rooc
