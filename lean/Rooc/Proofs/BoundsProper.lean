/-
C07 — format, syntactic part: with finite literals (and declared ranges whose lower end is not +inf and whose upper
end is not −inf) no range the analysis ever holds has `lower = +inf` or `upper = −inf` — feasible or not, for every
tolerance and step limit.  (NaN end points are excluded unconditionally by `analyze_ordered`.)
-/
import Rooc.Proofs.BoundsNoNaN
set_option linter.unusedTactic false
set_option linter.unreachableTactic false
set_option linter.unnecessarySeqFocus false
set_option linter.unusedSimpArgs false
set_option linter.unusedVariables false
set_option linter.unusedSectionVars false
namespace Rooc
namespace BoundsProofs
open BoundsSem Arith Sem

variable {K : Type} [Field K] [LinearOrder K] [IsStrictOrderedRing K] [FloorRing K]

/-- the lower end is not `+inf` and the upper end is not `−inf` (NaN is allowed here). -/
def Prp (b : Bounds (Ext K)) : Prop := b.lower ≠ .pinf ∧ b.upper ≠ .ninf
def PrpVb (vb : List (String × Bounds (Ext K))) : Prop := ∀ name, Prp (Analyzer.varBounds vb name)

theorem prp_unbounded : Prp (Bounds.unbounded : Bounds (Ext K)) := by simp [Prp, Bounds.unbounded]
theorem prp_singleton (x : K) : Prp (Bounds.singleton (.fin x) : Bounds (Ext K)) := by simp [Prp, Bounds.singleton]
theorem prp_zeroOne : Prp (Bounds.zeroOne : Bounds (Ext K)) := by simp [Prp, Bounds.zeroOne]

theorem lowerSum_ne_pinf {a b : Ext K} (ha : a ≠ .pinf) (hb : b ≠ .pinf) : Bounds.lowerSum a b ≠ .pinf := by
  cases a <;> cases b <;> simp_all [Bounds.lowerSum, Ext.add, Ext.isNaN]
theorem upperSum_ne_ninf {a b : Ext K} (ha : a ≠ .ninf) (hb : b ≠ .ninf) : Bounds.upperSum a b ≠ .ninf := by
  cases a <;> cases b <;> simp_all [Bounds.upperSum, Ext.add, Ext.isNaN]
theorem neg_ne_pinf {a : Ext K} (h : a ≠ .ninf) : Ext.neg a ≠ .pinf := by cases a <;> simp_all [Ext.neg]
theorem neg_ne_ninf {a : Ext K} (h : a ≠ .pinf) : Ext.neg a ≠ .ninf := by cases a <;> simp_all [Ext.neg]

theorem prp_add {a b : Bounds (Ext K)} (ha : Prp a) (hb : Prp b) : Prp (a.add b) :=
  ⟨lowerSum_ne_pinf ha.1 hb.1, upperSum_ne_ninf ha.2 hb.2⟩
theorem prp_neg {a : Bounds (Ext K)} (ha : Prp a) : Prp a.neg := ⟨neg_ne_pinf ha.2, neg_ne_ninf ha.1⟩
theorem prp_sub {a b : Bounds (Ext K)} (ha : Prp a) (hb : Prp b) : Prp (a.sub b) := prp_add ha (prp_neg hb)

theorem mul_pos_ne {a : Ext K} {c : K} (hc : 0 < c) :
    (a ≠ .pinf → Ext.mul a (.fin c) ≠ .pinf) ∧ (a ≠ .ninf → Ext.mul a (.fin c) ≠ .ninf) := by
  cases a <;> simp_all [Ext.mul, Ext.sign, Ext.ofSign, sgn_pos hc]
theorem mul_neg_ne {a : Ext K} {c : K} (hc : c < 0) :
    (a ≠ .ninf → Ext.mul a (.fin c) ≠ .pinf) ∧ (a ≠ .pinf → Ext.mul a (.fin c) ≠ .ninf) := by
  cases a <;> simp_all [Ext.mul, Ext.sign, Ext.ofSign, sgn_neg hc]
theorem div_pos_ne {a : Ext K} {c : K} (hc : 0 < c) :
    (a ≠ .pinf → Ext.div a (.fin c) ≠ .pinf) ∧ (a ≠ .ninf → Ext.div a (.fin c) ≠ .ninf) := by
  have : c ≠ 0 := ne_of_gt hc
  cases a <;> simp_all [Ext.div, Ext.sign, Ext.ofSign, sgn_pos hc]
theorem div_neg_ne {a : Ext K} {c : K} (hc : c < 0) :
    (a ≠ .ninf → Ext.div a (.fin c) ≠ .pinf) ∧ (a ≠ .pinf → Ext.div a (.fin c) ≠ .ninf) := by
  have : c ≠ 0 := ne_of_lt hc
  cases a <;> simp_all [Ext.div, Ext.sign, Ext.ofSign, sgn_neg hc]

theorem prp_scale {a : Bounds (Ext K)} (c : K) (h : Prp a) : Prp (a.scale (.fin c)) := by
  rcases lt_trichotomy c 0 with hc | hc | hc
  · have h0 : ¬ (0 < c) := not_lt.2 (le_of_lt hc)
    simp only [Bounds.scale, a_eq, a_zero, Ext.eq, ef_eq, ne_of_lt hc, decide_false, a_gt, Ext.lt, ef_lt, h0,
      a_mul, Bool.false_eq_true, if_false]
    exact ⟨(mul_neg_ne hc).1 h.2, (mul_neg_ne hc).2 h.1⟩
  · subst hc; simp [Bounds.scale, Ext.eq, Prp, Bounds.singleton]
  · simp only [Bounds.scale, a_eq, a_zero, Ext.eq, ef_eq, ne_of_gt hc, decide_false, a_gt, Ext.lt, ef_lt, hc,
      a_mul, Bool.false_eq_true, if_false, decide_true, if_true]
    exact ⟨(mul_pos_ne hc).1 h.1, (mul_pos_ne hc).2 h.2⟩

theorem prp_divBy {a : Bounds (Ext K)} (d : K) (h : Prp a) : Prp (a.divBy (.fin d)) := by
  rcases lt_trichotomy d 0 with hc | hc | hc
  · have h0 : ¬ (0 < d) := not_lt.2 (le_of_lt hc)
    simp only [Bounds.divBy, a_eq, a_zero, Ext.eq, ef_eq, ne_of_lt hc, decide_false, a_gt, Ext.lt, ef_lt, h0,
      a_div, Bool.false_eq_true, if_false]
    exact ⟨(div_neg_ne hc).1 h.2, (div_neg_ne hc).2 h.1⟩
  · subst hc; simp [Bounds.divBy, Ext.eq, Prp, Bounds.unbounded]
  · simp only [Bounds.divBy, a_eq, a_zero, Ext.eq, ef_eq, ne_of_gt hc, decide_false, a_gt, Ext.lt, ef_lt, hc,
      a_div, Bool.false_eq_true, if_false, decide_true, if_true]
    exact ⟨(div_pos_ne hc).1 h.1, (div_pos_ne hc).2 h.2⟩

theorem fmax_ne_pinf {a b : Ext K} (ha : a ≠ .pinf) (hb : b ≠ .pinf) : Ext.fmax a b ≠ .pinf := by
  cases a <;> cases b <;> simp_all [Ext.fmax, Ext.isNaN, Ext.lt] <;> split <;> simp
theorem fmax_ne_ninf {a b : Ext K} (h : a ≠ .ninf ∧ a ≠ .nan ∨ b ≠ .ninf ∧ b ≠ .nan ∨ a ≠ .ninf ∧ b ≠ .ninf) :
    Ext.fmax a b ≠ .ninf := by
  cases a <;> cases b <;> simp_all [Ext.fmax, Ext.isNaN, Ext.lt] <;> split <;> simp
theorem fmin_ne_ninf {a b : Ext K} (ha : a ≠ .ninf) (hb : b ≠ .ninf) : Ext.fmin a b ≠ .ninf := by
  cases a <;> cases b <;> simp_all [Ext.fmin, Ext.isNaN, Ext.lt] <;> split <;> simp
theorem fmin_ne_pinf {a b : Ext K} (ha : a ≠ .pinf) (hb : b ≠ .pinf) : Ext.fmin a b ≠ .pinf := by
  cases a <;> cases b <;> simp_all [Ext.fmin, Ext.isNaN, Ext.lt] <;> split <;> simp
theorem fmax_ne_ninf' {a b : Ext K} (ha : a ≠ .ninf) (hb : b ≠ .ninf) : Ext.fmax a b ≠ .ninf := by
  cases a <;> cases b <;> simp_all [Ext.fmax, Ext.isNaN, Ext.lt] <;> split <;> simp

theorem prp_abs {a : Bounds (Ext K)} (h : Prp a) : Prp a.abs := by
  simp only [Bounds.abs]
  split
  · exact h
  · split
    · exact prp_neg h
    · refine ⟨by simp, ?_⟩
      simp only [a_fmax, a_neg]
      exact fmax_ne_ninf' (neg_ne_ninf h.1) h.2

theorem prp_minStep {a b : Bounds (Ext K)} (ha : Prp a) (hb : Prp b) : Prp (Bounds.minStep a b) :=
  ⟨fmin_ne_pinf ha.1 hb.1, fmin_ne_ninf ha.2 hb.2⟩
theorem prp_maxStep {a b : Bounds (Ext K)} (ha : Prp a) (hb : Prp b) : Prp (Bounds.maxStep a b) :=
  ⟨fmax_ne_pinf ha.1 hb.1, fmax_ne_ninf' ha.2 hb.2⟩

theorem prp_intersection {a c t : Bounds (Ext K)} {tol : Ext K} (ha : Prp a) (hc : Prp c)
    (h : a.intersection c tol = some t) : Prp t := by
  simp only [Bounds.intersection, a_fmax, a_fmin, a_le, a_sub] at h
  split at h
  · cases h; exact ⟨fmax_ne_pinf ha.1 hc.1, fmin_ne_ninf ha.2 hc.2⟩
  · split at h
    · cases h; exact ha
    · cases h

theorem prp_required (c : Cmp) : Prp (Bounds.required c : Bounds (Ext K)) := by
  cases c <;> simp [Bounds.required, Prp, Bounds.singleton]

/-! ### `bounds_of` -/
section
variable (vb : List (String × Bounds (Ext K)))

theorem fold_prp (step : Bounds (Ext K) → Bounds (Ext K) → Bounds (Ext K))
    (hstep : ∀ a b, Prp a → Prp b → Prp (step a b)) :
    ∀ (es : List (Exp (Ext K))), (∀ e ∈ es, Prp (Analyzer.boundsOf vb e)) →
    ∀ acc, Prp acc → Prp ((Analyzer.boundsOfList vb es).foldl step acc)
  | [], _, acc, h => by simpa [Analyzer.boundsOfList] using h
  | e :: es, ih, acc, h => by
    simp only [Analyzer.boundsOfList, List.foldl_cons]
    exact fold_prp step hstep es (fun e' he' => ih e' (List.mem_cons_of_mem _ he')) _
      (hstep _ _ h (ih e (List.mem_cons_self ..)))

theorem boundsOf_prp (hbox : PrpVb vb) : ∀ e : Exp (Ext K), finiteLits e = true → Prp (Analyzer.boundsOf vb e) := by
  intro e
  induction e using expInd with
  | num x =>
    intro h; cases x <;> simp_all [finiteLits, finiteLit, Analyzer.boundsOf, Bounds.singleton, Prp]
  | var s => intro _; simpa [Analyzer.boundsOf] using hbox s
  | abs e ih => intro h; simp only [finiteLits] at h; simpa [Analyzer.boundsOf] using prp_abs (ih h)
  | min es ih =>
    intro h; simp only [finiteLits] at h
    have hm := finiteLitsList_mem es h
    cases es with
    | nil => simpa [Analyzer.boundsOf, Analyzer.boundsOfList] using prp_unbounded
    | cons e es =>
      simp only [Analyzer.boundsOf, Analyzer.boundsOfList]
      exact fold_prp vb _ (fun _ _ => prp_minStep) es
        (fun e' he' => ih e' (List.mem_cons_of_mem _ he') (hm e' (List.mem_cons_of_mem _ he'))) _
        (ih e (List.mem_cons_self ..) (hm e (List.mem_cons_self ..)))
  | max es ih =>
    intro h; simp only [finiteLits] at h
    have hm := finiteLitsList_mem es h
    cases es with
    | nil => simpa [Analyzer.boundsOf, Analyzer.boundsOfList] using prp_unbounded
    | cons e es =>
      simp only [Analyzer.boundsOf, Analyzer.boundsOfList]
      exact fold_prp vb _ (fun _ _ => prp_maxStep) es
        (fun e' he' => ih e' (List.mem_cons_of_mem _ he') (hm e' (List.mem_cons_of_mem _ he'))) _
        (ih e (List.mem_cons_self ..) (hm e (List.mem_cons_self ..)))
  | and es _ => intro _; simpa [Analyzer.boundsOf] using prp_zeroOne
  | or es _ => intro _; simpa [Analyzer.boundsOf] using prp_zeroOne
  | not e _ => intro _; simpa [Analyzer.boundsOf] using prp_zeroOne
  | xor a b _ _ => intro _; simpa [Analyzer.boundsOf] using prp_zeroOne
  | implies a b _ _ => intro _; simpa [Analyzer.boundsOf] using prp_zeroOne
  | iff a b _ _ => intro _; simpa [Analyzer.boundsOf] using prp_zeroOne
  | bin op a b iha ihb =>
    intro h
    simp only [finiteLits, Bool.and_eq_true] at h
    cases op
    · simpa [Analyzer.boundsOf] using prp_add (iha h.1) (ihb h.2)
    · simpa [Analyzer.boundsOf] using prp_sub (iha h.1) (ihb h.2)
    · simp only [Analyzer.boundsOf]
      cases ha : a.asNum with
      | some c =>
        have := asNum_eq ha; subst this
        have hb := ihb h.2
        cases c <;> simp_all [finiteLits, finiteLit]
        exact prp_scale _ hb
      | none =>
        cases hb : b.asNum with
        | some c =>
          have := asNum_eq hb; subst this
          have ha' := iha h.1
          cases c <;> simp_all [finiteLits, finiteLit]
          exact prp_scale _ ha'
        | none => exact prp_unbounded
    · simp only [Analyzer.boundsOf]
      cases hb : b.asNum with
      | some c =>
        have := asNum_eq hb; subst this
        have ha' := iha h.1
        cases c <;> simp_all [finiteLits, finiteLit]
        split
        · exact prp_divBy _ ha'
        · exact prp_unbounded
      | none => exact prp_unbounded
    all_goals simpa [Analyzer.boundsOf] using prp_zeroOne
  | un op e ih =>
    intro h; simp only [finiteLits] at h
    cases op
    · simpa [Analyzer.boundsOf] using prp_neg (ih h)
    · simpa [Analyzer.boundsOf] using prp_zeroOne
end

/-! ### tightening -/
theorem tightenVariable_prp (an : Analyzer (Ext K)) (name : String) (cand : Bounds (Ext K))
    (hb : PrpVb an.variableBounds) (hc : Prp cand) : PrpVb (an.tightenVariable name cand).1.variableBounds := by
  unfold Analyzer.tightenVariable
  split
  · exact hb
  · dsimp only
    split
    · exact hb
    · rename_i t ht
      split
      · intro n
        simp only [varBounds_insert]
        split
        · exact prp_intersection (hb name) hc ht
        · exact hb n
      · exact hb

theorem tightenVar_prp (s : TState (Ext K)) (name : String) (cand : Bounds (Ext K))
    (hb : PrpVb s.an.variableBounds) (hc : Prp cand) : PrpVb (Analyzer.tightenVar s name cand).an.variableBounds := by
  unfold Analyzer.tightenVar
  have := tightenVariable_prp s.an name cand hb hc
  dsimp only
  split <;> exact this

def PrpOK (e : Exp (Ext K)) : Prop :=
  ∀ (requested : Bounds (Ext K)) (s : TState (Ext K)), finiteLits e = true → Prp requested →
    PrpVb s.an.variableBounds → PrpVb (Analyzer.tightenExpression e requested s).an.variableBounds

theorem tightenList_prp : ∀ (es : List (Exp (Ext K))) (requested : Bounds (Ext K)) (s : TState (Ext K)),
    (∀ e ∈ es, PrpOK e) → (∀ e ∈ es, finiteLits e = true) → Prp requested → PrpVb s.an.variableBounds →
    PrpVb (Analyzer.tightenList es requested s).an.variableBounds
  | [], _, _, _, _, _, hb => by unfold Analyzer.tightenList; exact hb
  | e :: es, requested, s, ih, hf, hr, hb => by
    unfold Analyzer.tightenList
    exact tightenList_prp es requested _ (fun e' he' => ih e' (List.mem_cons_of_mem _ he'))
      (fun e' he' => hf e' (List.mem_cons_of_mem _ he')) hr
      (ih e (List.mem_cons_self ..) requested s (hf e (List.mem_cons_self ..)) hr hb)

theorem finite_fin {x : Ext K} (h : Ext.isFinite x = true) : ∃ u, x = .fin u := by
  cases x <;> simp_all [Ext.isFinite]

theorem tightenExpression_prp : ∀ e : Exp (Ext K), PrpOK e := by
  intro e
  induction e using expInd with
  | num x => intro requested s hf hr hb; unfold Analyzer.tightenExpression; split; exact hb; split; exact hb; exact hb
  | var name =>
    intro requested s hf hr hb
    unfold Analyzer.tightenExpression
    split; exact hb; split; exact hb
    rename_i req' hreq
    exact tightenVar_prp s name req' hb (prp_intersection (boundsOf_prp _ hb _ hf) hr hreq)
  | abs e ih =>
    intro requested s hf hr hb
    unfold Analyzer.tightenExpression
    split; exact hb; split; exact hb
    rename_i req' hreq
    simp only [a_isFinite]
    split
    · rename_i hfin
      obtain ⟨u, hu⟩ := finite_fin hfin
      simp only [finiteLits] at hf
      refine ih _ s hf ?_ hb
      rw [hu]; simp [Prp, Ext.neg]
    · exact hb
  | min es ih =>
    intro requested s hf hr hb
    unfold Analyzer.tightenExpression
    split; exact hb; split; exact hb
    rename_i req' hreq
    simp only [a_isFinite]
    split
    · rename_i hfin
      obtain ⟨u, hu⟩ := finite_fin hfin
      simp only [finiteLits] at hf
      refine tightenList_prp es _ s ih (finiteLitsList_mem es hf) ?_ hb
      rw [hu]; simp [Prp]
    · exact hb
  | max es ih =>
    intro requested s hf hr hb
    unfold Analyzer.tightenExpression
    split; exact hb; split; exact hb
    rename_i req' hreq
    simp only [a_isFinite]
    split
    · rename_i hfin
      obtain ⟨u, hu⟩ := finite_fin hfin
      simp only [finiteLits] at hf
      refine tightenList_prp es _ s ih (finiteLitsList_mem es hf) ?_ hb
      rw [hu]; simp [Prp]
    · exact hb
  | and es _ => intro requested s hf hr hb; unfold Analyzer.tightenExpression; split; exact hb; split; exact hb; exact hb
  | or es _ => intro requested s hf hr hb; unfold Analyzer.tightenExpression; split; exact hb; split; exact hb; exact hb
  | not e _ => intro requested s hf hr hb; unfold Analyzer.tightenExpression; split; exact hb; split; exact hb; exact hb
  | xor a b _ _ => intro requested s hf hr hb; unfold Analyzer.tightenExpression; split; exact hb; split; exact hb; exact hb
  | implies a b _ _ => intro requested s hf hr hb; unfold Analyzer.tightenExpression; split; exact hb; split; exact hb; exact hb
  | iff a b _ _ => intro requested s hf hr hb; unfold Analyzer.tightenExpression; split; exact hb; split; exact hb; exact hb
  | bin op a b iha ihb =>
    intro requested s hf hr hb
    unfold Analyzer.tightenExpression
    split; exact hb; split; exact hb
    simp only [finiteLits, Bool.and_eq_true] at hf
    have hab := boundsOf_prp _ hb a hf.1
    have hbb := boundsOf_prp _ hb b hf.2
    cases op
    · simp only []
      exact ihb _ _ hf.2 (prp_sub hr hab) (iha _ s hf.1 (prp_sub hr hbb) hb)
    · simp only []
      exact ihb _ _ hf.2 (prp_sub hab hr) (iha _ s hf.1 (prp_add hr hbb) hb)
    · simp only []
      cases ha : a.asNum with
      | some c =>
        have := asNum_eq ha; subst this
        have hc : ∃ c', c = .fin c' := by cases c <;> simp_all [finiteLits, finiteLit]
        obtain ⟨c', rfl⟩ := hc
        simp only []
        split
        · exact ihb _ s hf.2 (prp_divBy c' hr) hb
        · exact hb
      | none =>
        simp only []
        cases hb' : b.asNum with
        | some c =>
          have := asNum_eq hb'; subst this
          have hc : ∃ c', c = .fin c' := by cases c <;> simp_all [finiteLits, finiteLit]
          obtain ⟨c', rfl⟩ := hc
          simp only []
          split
          · exact iha _ s hf.1 (prp_divBy c' hr) hb
          · exact hb
        | none => exact hb
    · simp only []
      cases hb' : b.asNum with
      | some c =>
        have := asNum_eq hb'; subst this
        have hc : ∃ c', c = .fin c' := by cases c <;> simp_all [finiteLits, finiteLit]
        obtain ⟨c', rfl⟩ := hc
        simp only []
        split
        · exact iha _ s hf.1 (prp_scale c' hr) hb
        · exact hb
      | none => exact hb
    all_goals exact hb
  | un op e ih =>
    intro requested s hf hr hb
    unfold Analyzer.tightenExpression
    split; exact hb; split; exact hb
    simp only [finiteLits] at hf
    cases op
    · exact ih _ s hf (prp_neg hr) hb
    · exact hb

theorem tightenConstraintExpression_prp (c : Constraint (Ext K)) (s : TState (Ext K))
    (hl : finiteLits c.lhs = true) (hr : finiteLits c.rhs = true) (hb : PrpVb s.an.variableBounds) :
    PrpVb (Analyzer.tightenConstraintExpression c (Bounds.required c.cmp) s).an.variableBounds := by
  unfold Analyzer.tightenConstraintExpression
  dsimp only
  split
  · exact hb
  · exact tightenExpression_prp _ _ _ hr (prp_sub (boundsOf_prp _ hb _ hl) (prp_required _))
      (tightenExpression_prp _ _ _ hl (prp_add (prp_required _) (boundsOf_prp _ hb _ hr)) hb)

/-! ### affine rows: a form accepted by `from_constraint` has finite coefficients (fix 48f25ce) -/
def FinForm (f : AffineForm (Ext K)) : Prop :=
  (∃ k, f.constant = .fin k) ∧ ∀ p ∈ f.coefficients, ∃ c : K, p.2 = .fin c

theorem fromConstraint_finForm {c : Constraint (Ext K)} {f : AffineForm (Ext K)}
    (h : AffineForm.fromConstraint c = some f) : FinForm f := by
  simp only [AffineForm.fromConstraint] at h
  cases hfl : AffineForm.fromExp c.lhs with
  | none => simp [hfl] at h
  | some fl =>
    cases hfr : AffineForm.fromExp c.rhs with
    | none => simp [hfl, hfr] at h
    | some fr =>
      simp only [hfl, hfr] at h
      split at h
      · cases h
      · rename_i hfin
        cases h
        simp only [Bool.or_eq_true, Bool.not_eq_true', not_or, Bool.not_eq_false, a_isFinite, List.any_eq_true,
          not_exists, not_and] at hfin
        refine ⟨finite_fin (by simpa using hfin.1), fun p hp => finite_fin ?_⟩
        have := hfin.2 p hp
        simpa using this

section
variable (vb0 : List (String × Bounds (Ext K)))

theorem suffixSum_prp (hb0 : PrpVb vb0) : ∀ (cs : List (String × Ext K)), (∀ p ∈ cs, ∃ c : K, p.2 = .fin c) →
    Prp (Analyzer.suffixSum (cs.map fun p => (Analyzer.varBounds vb0 p.1).scale p.2))
  | [], _ => by simpa [Analyzer.suffixSum] using prp_singleton (0 : K)
  | (n, c) :: cs, h => by
    obtain ⟨c', hc⟩ := h (n, c) (List.mem_cons_self ..)
    simp only at hc; subst hc
    simp only [List.map_cons, Analyzer.suffixSum]
    exact prp_add (prp_scale c' (hb0 n)) (suffixSum_prp hb0 cs (fun p hp => h p (List.mem_cons_of_mem _ hp)))

theorem affineLoop_prp (hb0 : PrpVb vb0) (required : Bounds (Ext K)) (hreq : Prp required) :
    ∀ (cs : List (String × Ext K)), (∀ p ∈ cs, ∃ c : K, p.2 = .fin c) →
    ∀ (pre : Bounds (Ext K)) (s : TState (Ext K)), Prp pre → PrpVb s.an.variableBounds →
    PrpVb (Analyzer.affineLoop required cs (cs.map fun p => (Analyzer.varBounds vb0 p.1).scale p.2) pre s).an.variableBounds
  | [], _, pre, s, _, hb => by simpa [Analyzer.affineLoop] using hb
  | (n, c) :: cs, h, pre, s, hp, hb => by
    obtain ⟨c', hc⟩ := h (n, c) (List.mem_cons_self ..)
    simp only at hc; subst hc
    have hrest : ∀ p ∈ cs, ∃ c : K, p.2 = .fin c := fun p hp' => h p (List.mem_cons_of_mem _ hp')
    simp only [List.map_cons, Analyzer.affineLoop]
    have hcand : Prp ((required.sub (pre.add (Analyzer.suffixSum (cs.map fun p => (Analyzer.varBounds vb0 p.1).scale p.2)))).divBy (.fin c')) :=
      prp_divBy c' (prp_sub hreq (prp_add hp (suffixSum_prp vb0 hb0 cs hrest)))
    have hb' := tightenVar_prp s n _ hb hcand
    split
    · exact hb'
    · exact affineLoop_prp hb0 required hreq cs hrest _ _ (prp_add hp (prp_scale c' (hb0 n))) hb'
end

theorem tightenAffineForm_prp (an : Analyzer (Ext K)) (f : AffineForm (Ext K)) (cmp : Cmp) (hf : FinForm f)
    (hb : PrpVb an.variableBounds) : PrpVb (an.tightenAffineForm f cmp).an.variableBounds := by
  obtain ⟨⟨k, hk⟩, hcs⟩ := hf
  unfold Analyzer.tightenAffineForm
  dsimp only
  have := affineLoop_prp an.variableBounds hb (Bounds.required cmp) (prp_required cmp) f.coefficients hcs
    (Bounds.singleton f.constant) ⟨an, []⟩ (by rw [hk]; exact prp_singleton k) hb
  split <;> exact this

theorem stepConstraint_prp (an : Analyzer (Ext K)) (c : Constraint (Ext K))
    (hl : finiteLits c.lhs = true) (hr : finiteLits c.rhs = true) (hb : PrpVb an.variableBounds) :
    PrpVb (Analyzer.stepConstraint an c (AffineForm.fromConstraint c)).an.variableBounds := by
  unfold Analyzer.stepConstraint
  cases hf : AffineForm.fromConstraint c with
  | some f => exact tightenAffineForm_prp an f c.cmp (fromConstraint_finForm hf) hb
  | none => exact tightenConstraintExpression_prp c ⟨an, []⟩ hl hr hb

theorem propagateLoop_prp (cs : List (Constraint (Ext K)))
    (hcs : ∀ c ∈ cs, finiteLits c.lhs = true ∧ finiteLits c.rhs = true) (deps : List (String × List Nat)) :
    ∀ (fuel : Nat) (an : Analyzer (Ext K)) (queue : List Nat) (queued : List Bool), PrpVb an.variableBounds →
    PrpVb (Analyzer.propagateLoop cs (cs.map AffineForm.fromConstraint) deps fuel an queue queued).variableBounds := by
  intro fuel
  induction fuel with
  | zero => intro an queue queued hb; cases queue <;> simpa [Analyzer.propagateLoop] using hb
  | succ fuel ih =>
    intro an queue queued hb
    cases queue with
    | nil => simpa [Analyzer.propagateLoop] using hb
    | cons index queue =>
      simp only [Analyzer.propagateLoop, List.getElem?_map]
      cases hci : cs[index]? with
      | none => simpa using ih an queue _ hb
      | some c =>
        simp only [Option.map_some]
        have hmem : c ∈ cs := List.mem_of_getElem? hci
        have hb' := stepConstraint_prp an c (hcs c hmem).1 (hcs c hmem).2 hb
        split
        · exact hb'
        · exact ih _ _ _ hb'

theorem fromDomain_prp (domain : List (DomVar (Ext K))) (tol : Ext K)
    (hd : ∀ d ∈ domain, Prp (Bounds.ofVarType d.ty)) : PrpVb (Analyzer.fromDomain domain tol).variableBounds := by
  simp only [Analyzer.fromDomain]
  suffices h : ∀ (dom : List (DomVar (Ext K))) (acc : List (String × Bounds (Ext K))),
      (∀ d ∈ dom, Prp (Bounds.ofVarType d.ty)) → PrpVb acc →
      PrpVb (dom.foldl (fun m d => AList.insert m d.name (Bounds.ofVarType d.ty)) acc) from
    h domain [] hd (fun n => by simpa [Analyzer.varBounds, AList.get?] using prp_unbounded)
  intro dom
  induction dom with
  | nil => intro acc _ hb; simpa using hb
  | cons d dom ih =>
    intro acc hd hb
    simp only [List.foldl_cons]
    refine ih _ (fun d' hd' => hd d' (List.mem_cons_of_mem _ hd')) ?_
    intro n
    simp only [varBounds_insert]
    split
    · exact hd d (List.mem_cons_self ..)
    · exact hb n

theorem analyze_prp (domain : List (DomVar (Ext K))) (cs : List (Constraint (Ext K))) (tol : Ext K) (maxSteps : Nat)
    (hd : ∀ d ∈ domain, Prp (Bounds.ofVarType d.ty))
    (hcs : ∀ c ∈ cs, finiteLits c.lhs = true ∧ finiteLits c.rhs = true) :
    PrpVb (Analyzer.analyze domain cs tol maxSteps).variableBounds := by
  unfold Analyzer.analyze Analyzer.propagate
  exact propagateLoop_prp cs hcs _ _ _ _ _ (fromDomain_prp domain tol hd)

theorem roundStep_prp (an : Analyzer (Ext K)) (d : DomVar (Ext K)) {t : K} (htol : an.tolerance = .fin t)
    (hb : PrpVb an.variableBounds) : PrpVb (an.roundStep d).variableBounds := by
  unfold Analyzer.roundStep
  split
  · split
    · rename_i b hg
      intro n
      simp only [varBounds_insert]
      split
      · have hbn : Prp b := by have := hb d.name; simpa [Analyzer.varBounds, hg] using this
        rw [htol]
        obtain ⟨lo, hi⟩ := b
        obtain ⟨h1, h2⟩ := hbn
        constructor
        · cases lo <;> simp_all [Arith.ceil, Ext.sub, Ext.add, Ext.neg]
        · cases hi <;> simp_all [Arith.floor, Ext.add]
      · exact hb n
    · exact hb
  · exact hb

theorem roundIntegerRanges_prp {t : K} : ∀ (dom : List (DomVar (Ext K))) (an : Analyzer (Ext K)),
    an.tolerance = .fin t → PrpVb an.variableBounds → PrpVb (an.roundIntegerRanges dom).variableBounds
  | [], _, _, hb => hb
  | d :: dom, an, htol, hb => by
    have ih := roundIntegerRanges_prp dom (an.roundStep d) (by rw [roundStep_tol]; exact htol) (roundStep_prp an d htol hb)
    simpa only [Analyzer.roundIntegerRanges, List.foldl_cons] using ih

theorem enforceable_prp (domain : List (DomVar (Ext K))) (cs : List (Constraint (Ext K))) (t : K) (maxSteps : Nat)
    (hd : ∀ d ∈ domain, Prp (Bounds.ofVarType d.ty))
    (hcs : ∀ c ∈ cs, finiteLits c.lhs = true ∧ finiteLits c.rhs = true) :
    PrpVb ((Analyzer.analyze domain cs (.fin t) maxSteps).enforceable domain).variableBounds := by
  have htol : (Analyzer.analyze domain cs (.fin t) maxSteps).tolerance = .fin t := by
    unfold Analyzer.analyze Analyzer.propagate
    exact propagateLoop_tolerance _ _ _ _ _ _ _
  unfold Analyzer.enforceable
  split
  · exact fromDomain_prp domain (Analyzer.analyze domain cs (.fin t) maxSteps).tolerance hd
  · exact roundIntegerRanges_prp domain _ htol (analyze_prp domain cs _ maxSteps hd hcs)

end BoundsProofs
end Rooc
