/-
Stage B/E: the final assembly of `Linearizer::linearize` — sorted variable list, name de-duplication,
coefficient extraction — as semantic facts about the emitted `LinModel`.
-/
import Rooc.Proofs.LinAffineModel
import Rooc.Proofs.LinSem

set_option linter.unusedSectionVars false
set_option linter.unusedSimpArgs false
set_option linter.unusedVariables false

namespace Rooc.LinP
open Rooc Rooc.Lin Rooc.Sem Rooc.Exp
open Rooc.Lin.Gadget (B01)

/-! ### `sortStr` is a permutation as far as membership goes -/

theorem mem_insertSortedDup (x y : String) : ∀ l : List String, y ∈ insertSortedDup x l ↔ y = x ∨ y ∈ l
  | [] => by simp [insertSortedDup]
  | z :: zs => by
    unfold insertSortedDup
    split
    · simp
    · simp only [List.mem_cons, mem_insertSortedDup x y zs]; tauto

theorem mem_foldl_insert (y : String) : ∀ (xs acc : List String),
    y ∈ xs.foldl (fun acc x => insertSortedDup x acc) acc ↔ y ∈ acc ∨ y ∈ xs
  | [], acc => by simp
  | x :: xs, acc => by
    simp only [List.foldl_cons, mem_foldl_insert y xs, mem_insertSortedDup, List.mem_cons]; tauto

theorem mem_sortStr (y : String) (xs : List String) : y ∈ sortStr xs ↔ y ∈ xs := by
  unfold sortStr; rw [mem_foldl_insert]; simp

/-! ### `dedupNames` only renames -/

section dedup
variable {α : Type}

/-- the part of a row that matters semantically. -/
def rowCore (r : MidRow α) : List (String × α) × Cmp × α := (r.lhs, r.cmp, r.rhs)

theorem foldl_rename {β : Type} (f : β × List (MidRow α) → MidRow α → β × List (MidRow α))
    (hf : ∀ acc r, ∃ r', (f acc r).2 = acc.2 ++ [r'] ∧ rowCore r' = rowCore r) :
    ∀ (rows : List (MidRow α)) (acc : β × List (MidRow α)),
      (rows.foldl f acc).2.map rowCore = acc.2.map rowCore ++ rows.map rowCore
  | [], acc => by simp
  | r :: rows, acc => by
    obtain ⟨r', h1, h2⟩ := hf acc r
    rw [List.foldl_cons, foldl_rename f hf rows (f acc r), h1]
    simp [h2]

theorem dedupNames_core (rows : List (MidRow α)) : (dedupNames rows).map rowCore = rows.map rowCore := by
  unfold dedupNames
  simp only
  rw [foldl_rename]
  · simp
  · intro acc r
    obtain ⟨assigned, out⟩ := acc
    dsimp only
    split
    · exact ⟨r, rfl, rfl⟩
    · split
      · exact ⟨r, rfl, rfl⟩
      · split
        · exact ⟨_, rfl, rfl⟩
        · exact ⟨r, rfl, rfl⟩

theorem all_of_core_eq {rows rows' : List (MidRow α)} (h : rows'.map rowCore = rows.map rowCore)
    (p : List (String × α) × Cmp × α → Bool) :
    rows'.all (fun r => p (rowCore r)) = rows.all (fun r => p (rowCore r)) := by
  have : ∀ l : List (MidRow α), l.all (fun r => p (rowCore r)) = (l.map rowCore).all p := by
    intro l; simp [List.all_map]; rfl
  rw [this, this, h]

end dedup

variable {K : Type} [Field K] [LinearOrder K] [IsStrictOrderedRing K] [FloorRing K]

/-! ### a mid row against its final form -/

theorem rowHolds_final (ρ : String → K) (vars : List String) (r : MidRow (Ext K)) (name : String)
    (hok : RowOK r) (hscope : ∀ x ∈ r.lhs.map (·.1), x ∈ vars) :
    rowHolds ρ vars { name := name, coeffs := extractCoeffs r.lhs vars, cmp := r.cmp, rhs := r.rhs } = true
      ↔ rowTrue ρ r := by
  obtain ⟨k, hk⟩ := hok.rhs
  obtain ⟨h1, h2, h3⟩ := extractCoeffs_spec ρ vars r.lhs hok.fin hok.nodup
    (fun p hp => hscope p.1 (List.mem_map.mpr ⟨p, hp, rfl⟩))
  simp only [rowHolds, dotK_eq ρ _ _ h2 (le_of_eq h1), h3, hk, rowTrue, xval_fin]

/-! ### scoping and domains -/

/-- `x` is declared in `d` with a usage mark. -/
def inScope (d : List (DomVar (Ext K))) (x : String) : Prop := ∃ dv ∈ d, dv.name = x ∧ dv.usage > 0

/-- every used declared variable is in its domain. -/
def DomSat (ρ : String → K) (d : List (DomVar (Ext K))) : Prop :=
  ∀ dv ∈ d, dv.usage > 0 → inDomain (ρ dv.name) dv.ty = true

def usedVars {α : Type} (d : List (DomVar α)) : List String :=
  sortStr ((d.filter (fun dv => dv.usage > 0)).map (·.name))

theorem mem_usedVars {d : List (DomVar (Ext K))} {x : String} : x ∈ usedVars d ↔ inScope d x := by
  unfold usedVars inScope
  rw [mem_sortStr]
  simp only [List.mem_map, List.mem_filter, decide_eq_true_eq]
  constructor
  · rintro ⟨dv, ⟨h1, h2⟩, h3⟩; exact ⟨dv, h1, h3, h2⟩
  · rintro ⟨dv, h1, h3, h2⟩; exact ⟨dv, ⟨h1, h2⟩, h3⟩

theorem domvar_eq_of_name {d : List (DomVar (Ext K))} (hnd : (d.map (·.name)).Nodup) {a b : DomVar (Ext K)}
    (ha : a ∈ d) (hb : b ∈ d) (h : a.name = b.name) : a = b :=
  List.inj_on_of_nodup_map hnd ha hb h

theorem finalDomain_all (ρ : String → K) {d : List (DomVar (Ext K))} (hnd : (d.map (·.name)).Nodup) :
    ((d.filter fun dv => (usedVars d).contains dv.name).all fun dv => inDomain (ρ dv.name) dv.ty) = true
      ↔ DomSat ρ d := by
  simp only [List.all_eq_true, List.mem_filter, List.contains_iff_mem, and_imp, DomSat]
  constructor
  · intro h dv hdv hu
    exact h dv hdv (mem_usedVars.mpr ⟨dv, hdv, rfl, hu⟩)
  · intro h dv hdv hm
    obtain ⟨dv', hdv', hn, hu⟩ := mem_usedVars.mp hm
    have := domvar_eq_of_name hnd hdv' hdv hn
    subst this
    exact h dv' hdv hu

theorem boolOK_of_domSat {ρ : String → K} {d : List (DomVar (Ext K))} (hnd : (d.map (·.name)).Nodup)
    (h : DomSat ρ d) : BoolOK ρ d (inScope d) := by
  intro n hs hb
  obtain ⟨dv', hdv', hn, hu⟩ := hs
  simp only [isBoolVar, domainType] at hb
  cases hf : d.find? (fun x => x.name == n) with
  | none => simp [hf] at hb
  | some dv =>
    have hmem := List.mem_of_find?_eq_some hf
    have hname : dv.name = n := by
      have := List.find?_some hf
      simpa using this
    have := domvar_eq_of_name hnd hmem hdv' (by rw [hname, hn])
    subst this
    have hty : dv.ty = .bool := by
      simp only [hf, Option.map_some] at hb
      cases hty : dv.ty <;> simp [hty] at hb
      rfl
    have := h dv hmem hu
    rw [hty, hname] at this
    simp [inDomain] at this
    exact this

theorem srcFeasible_iff (m : Model (Ext K)) (ρ : String → K) :
    srcFeasible m ρ = true ↔ (∀ c ∈ m.constraints, constraintHolds ρ c = true) ∧ DomSat ρ m.domain := by
  simp only [srcFeasible, Bool.and_eq_true, List.all_eq_true, Bool.or_eq_true, beq_iff_eq, DomSat]
  constructor
  · rintro ⟨h1, h2⟩
    refine ⟨h1, fun dv hdv hu => ?_⟩
    rcases h2 dv hdv with h | h
    · omega
    · exact h
  · rintro ⟨h1, h2⟩
    refine ⟨h1, fun dv hdv => ?_⟩
    by_cases hu : dv.usage = 0
    · exact Or.inl hu
    · exact Or.inr (h2 dv hdv (by omega))

/-! ### `linearizeWith` on an affine model -/

/-- objective and constraints are affine over declared, used variables; no bare assertions. -/
structure AffineModel (m : Model (Ext K)) (d : List (DomVar (Ext K))) : Prop where
  obj : AG (inScope d) m.objective
  cons : ∀ c ∈ m.constraints, ArithC (inScope d) c

/-- the final form of a mid row. -/
def finalRow {α : Type} [Arith α] (vars : List String) (r : MidRow α) : LinRow α :=
  { name := r.name, coeffs := extractCoeffs r.lhs vars, cmp := r.cmp, rhs := r.rhs }

/-- what `linearizeWith` returns on an affine model, field by field. -/
theorem linearizeWith_affine (hfl : FlattenSound K) (hsi : SimplifySoundArith K)
    {m : Model (Ext K)} {b : BoundsMap (Ext K)} {d : List (DomVar (Ext K))} {lm : LinModel (Ext K)}
    (haff : AffineModel m d) (h : linearizeWith m b d = .ok lm) :
    ∃ (obj : Ctx (Ext K)) (new : List (MidRow (Ext K))),
      lm.optType = m.optType ∧ lm.vars = usedVars d ∧
      lm.domain = d.filter (fun dv => (usedVars d).contains dv.name) ∧
      lm.rows = (dedupNames new).map (finalRow (usedVars d)) ∧
      lm.objective = extractCoeffs obj.vars (usedVars d) ∧ lm.offset = obj.rhs ∧
      (∀ x ∈ ctxNames obj, inScope d x) ∧
      (∀ (ρ : String → K) (v : K), eval ρ m.objective = some v → CtxOK obj ∧ ctxVal ρ obj = v) ∧
      (∀ row ∈ new, ∀ x ∈ row.lhs.map (·.1), inScope d x) ∧
      ((∀ c ∈ m.constraints, DefinedC c) →
        (∀ row ∈ new, RowOK row) ∧
        ∀ ρ : String → K, BoolOK ρ d (inScope d) →
          ((∀ row ∈ new, rowTrue ρ row) ↔ ∀ c ∈ m.constraints, constraintHolds ρ c = true)) := by
  unfold linearizeWith at h
  simp only at h
  split at h
  · rename_i lm' sf hprog
    simp only [Except.ok.injEq] at h
    subst h
    simp only [bind_ok, simplifyFlat_ok, get_ok, pure_ok] at hprog
    obtain ⟨objExp, s1, ⟨fl, hfl1, h1⟩, obj, s2, hlin, u, s3, hdrain, s4, s5, hget, hres⟩ := hprog
    cases h1; cases hget
    have hobj' : AG (inScope d) objExp := AG_normalize haff.obj hfl1
    have R := lin_arith _ hobj'.1 _ _ _ _ hlin
    have hs2 := R.state
    subst hs2
    obtain ⟨new, hn1, hn2, hn3⟩ := drain_arith hfl hsi _ _ _ hdrain (by simpa using haff.cons)
    simp only [Prod.mk.injEq, true_and] at hn1
    subst hn1
    simp only [Prod.mk.injEq] at hres
    obtain ⟨rfl, _⟩ := hres
    refine ⟨obj, new, rfl, rfl, rfl, ?_, rfl, rfl, ?_, ?_, hn2, ?_⟩
    · simp [finalRow, usedVars]
    · intro x hx; exact hobj'.2 x (R.names x hx)
    · intro ρ v hv
      exact R.value ρ v (normalize_eval_arith hfl hsi haff.obj.1 hfl1 hv)
    · intro hdef
      exact hn3 (by simpa using hdef)
  · simp at h

/-- how the domain `d` handed to the linearizer (after bound inference) relates to the declared one. -/
structure DomRel (m : Model (Ext K)) (d : List (DomVar (Ext K))) : Prop where
  nodup : (d.map (·.name)).Nodup
  /-- the tightened domain only shrinks the declared one … -/
  tight : ∀ ρ : String → K, DomSat ρ d → DomSat ρ m.domain
  /-- … and loses no source-feasible point (C07). -/
  sound : ∀ ρ : String → K, srcFeasible m ρ = true → DomSat ρ d
  /-- every used declared variable of the model is still declared (and used) in `d`. -/
  names : ∀ dv ∈ m.domain, dv.usage > 0 → inScope d dv.name

theorem constraintHolds_congr {c : Constraint (Ext K)} {ρ ρ' : String → K}
    (h : ∀ x, (x ∈ varsOf c.lhs ∨ x ∈ varsOf c.rhs) → ρ' x = ρ x) :
    constraintHolds ρ' c = constraintHolds ρ c := by
  have e1 := eval_congr (ρ := ρ) (ρ' := ρ') c.lhs (fun x hx => h x (Or.inl hx))
  have e2 := eval_congr (ρ := ρ) (ρ' := ρ') c.rhs (fun x hx => h x (Or.inr hx))
  simp only [constraintHolds, e1, e2]

/-- source feasibility only reads declared, used variables. -/
theorem srcFeasible_congr {m : Model (Ext K)} {d : List (DomVar (Ext K))}
    (hscope : ∀ c ∈ m.constraints, ∀ x, (x ∈ varsOf c.lhs ∨ x ∈ varsOf c.rhs) → inScope d x)
    (hnames : ∀ dv ∈ m.domain, dv.usage > 0 → inScope d dv.name) {ρ ρ' : String → K}
    (h : ∀ v, inScope d v → ρ' v = ρ v) : srcFeasible m ρ' = true ↔ srcFeasible m ρ = true := by
  rw [srcFeasible_iff, srcFeasible_iff]
  have hc : ∀ c ∈ m.constraints, constraintHolds ρ' c = constraintHolds ρ c := fun c hc =>
    constraintHolds_congr (fun x hx => h x (hscope c hc x hx))
  have hd : DomSat ρ' m.domain ↔ DomSat ρ m.domain := by
    constructor
    · intro hs dv hdv hu; have := hs dv hdv hu; rwa [h _ (hnames dv hdv hu)] at this
    · intro hs dv hdv hu; have := hs dv hdv hu; rwa [← h _ (hnames dv hdv hu)] at this
  rw [hd]
  constructor
  · rintro ⟨h1, h2⟩; exact ⟨fun c hcm => by rw [← hc c hcm]; exact h1 c hcm, h2⟩
  · rintro ⟨h1, h2⟩; exact ⟨fun c hcm => by rw [hc c hcm]; exact h1 c hcm, h2⟩

theorem rows_all_iff (ρ : String → K) (vars : List String) (new : List (MidRow (Ext K)))
    (hok : ∀ row ∈ new, RowOK row) (hscope : ∀ row ∈ new, ∀ x ∈ row.lhs.map (·.1), x ∈ vars) :
    ((dedupNames new).map (finalRow vars)).all (rowHolds ρ vars) = true ↔ ∀ row ∈ new, rowTrue ρ row := by
  have hcore := dedupNames_core new
  let p : List (String × Ext K) × Cmp × Ext K → Bool := fun core =>
    rowHolds ρ vars { name := "", coeffs := extractCoeffs core.1 vars, cmp := core.2.1, rhs := core.2.2 }
  have e1 : ((dedupNames new).map (finalRow vars)).all (rowHolds ρ vars)
      = (dedupNames new).all (fun r => p (rowCore r)) := by
    rw [List.all_map]; rfl
  rw [e1, all_of_core_eq hcore p]
  simp only [List.all_eq_true, rowCore, p]
  constructor
  · intro h row hrow
    exact (rowHolds_final ρ vars row "" (hok row hrow) (hscope row hrow)).mp (h row hrow)
  · intro h row hrow
    exact (rowHolds_final ρ vars row "" (hok row hrow) (hscope row hrow)).mpr (h row hrow)

/-- C01 on purely affine models: same assignment, no auxiliaries. -/
theorem affine_feasible_iff (hfl : FlattenSound K) (hsi : SimplifySoundArith K)
    {m : Model (Ext K)} {b : BoundsMap (Ext K)} {d : List (DomVar (Ext K))} {lm : LinModel (Ext K)}
    (haff : AffineModel m d) (hdef : ∀ c ∈ m.constraints, DefinedC c) (hdom : DomRel m d)
    (h : linearizeWith m b d = .ok lm) (ρ : String → K) :
    srcFeasible m ρ = true ↔ linFeasible lm ρ = true := by
  obtain ⟨obj, new, _, hvars, hdomain, hrows, _, _, _, _, hscope, hsem⟩ := linearizeWith_affine hfl hsi haff h
  obtain ⟨hok, hiff⟩ := hsem hdef
  have hrows' : lm.rows.all (rowHolds ρ lm.vars) = true ↔ ∀ row ∈ new, rowTrue ρ row := by
    rw [hrows, hvars]
    exact rows_all_iff ρ _ new hok (fun row hrow x hx => mem_usedVars.mpr (hscope row hrow x hx))
  have hdom' : (lm.domain.all fun dv => inDomain (ρ dv.name) dv.ty) = true ↔ DomSat ρ d := by
    rw [hdomain]; exact finalDomain_all ρ hdom.nodup
  rw [srcFeasible_iff]
  simp only [linFeasible, Bool.and_eq_true, hrows', hdom']
  constructor
  · rintro ⟨hc, hd⟩
    have hsat : DomSat ρ d := hdom.sound ρ ((srcFeasible_iff m ρ).mpr ⟨hc, hd⟩)
    exact ⟨(hiff ρ (boolOK_of_domSat hdom.nodup hsat)).mpr hc, hsat⟩
  · rintro ⟨hr, hsat⟩
    exact ⟨(hiff ρ (boolOK_of_domSat hdom.nodup hsat)).mp hr, hdom.tight ρ hsat⟩

/-- C02 on purely affine models: the linear objective is the source objective. -/
theorem affine_objective (hfl : FlattenSound K) (hsi : SimplifySoundArith K)
    {m : Model (Ext K)} {b : BoundsMap (Ext K)} {d : List (DomVar (Ext K))} {lm : LinModel (Ext K)}
    (haff : AffineModel m d) (h : linearizeWith m b d = .ok lm) (ρ : String → K) (v : K)
    (hv : eval ρ m.objective = some v) : linObjective lm ρ = some v := by
  obtain ⟨obj, new, _, hvars, _, _, hobjective, hoffset, hnames, hval, _, _⟩ := linearizeWith_affine hfl hsi haff h
  obtain ⟨ok, val⟩ := hval ρ v hv
  obtain ⟨k, hk⟩ := ok.rhs
  obtain ⟨h1, h2, h3⟩ := extractCoeffs_spec ρ (usedVars d) obj.vars ok.fin ok.nodup
    (fun p hp => mem_usedVars.mpr (hnames p.1 (List.mem_map.mpr ⟨p, hp, rfl⟩)))
  simp only [linObjective, hobjective, hoffset, hvars, dotK_eq ρ _ _ h2 (le_of_eq h1), h3, hk]
  simp only [ctxVal, hk, xval_fin] at val
  simp [val]

end Rooc.LinP
