/-
Stage D, part 7: the specification of `directional_logic_witness` by induction on the formula.
-/
import Rooc.Proofs.LinD6

set_option linter.unusedSectionVars false
set_option linter.unusedSimpArgs false
set_option linter.unusedVariables false
set_option linter.unusedTactic false
set_option linter.unreachableTactic false

namespace Rooc.LinP
open Rooc Rooc.Lin Rooc.Sem Rooc.Exp
open Rooc.Lin.Gadget

variable {K : Type} [Field K] [LinearOrder K] [IsStrictOrderedRing K] [FloorRing K]

/-! ### definedness of operands (evaluation is strict) -/

theorem DefOn.of_dom {s s' : St (Ext K)} (h : ∃ decls, s'.domain = s.domain ++ decls) {e : Exp (Ext K)}
    (he : DefOn s.domain e) : DefOn s'.domain e := by
  obtain ⟨decls, hd⟩ := h
  intro ρ hρ; rw [hd] at hρ; exact he ρ (domSat_left hρ)

theorem DefOn.and_mem {d : List (DomVar (Ext K))} {es : List (Exp (Ext K))} (h : DefOn d (.and es)) :
    ∀ e ∈ es, DefOn d e := by
  intro e he ρ hd
  obtain ⟨v, hv⟩ := h ρ hd
  obtain ⟨vs, hvs, _⟩ := eval_and_some hv
  obtain ⟨w, _, hw⟩ := (evalList_mem hvs).1 e he
  exact ⟨w, hw⟩

theorem DefOn.or_mem {d : List (DomVar (Ext K))} {es : List (Exp (Ext K))} (h : DefOn d (.or es)) :
    ∀ e ∈ es, DefOn d e := by
  intro e he ρ hd
  obtain ⟨v, hv⟩ := h ρ hd
  obtain ⟨vs, hvs, _⟩ := eval_or_some hv
  obtain ⟨w, _, hw⟩ := (evalList_mem hvs).1 e he
  exact ⟨w, hw⟩

theorem defOn_pair {d : List (DomVar (Ext K))} {e l r : Exp (Ext K)} {op : BinOp}
    (he : ∀ ρ : String → K, eval ρ e = (eval ρ l).bind fun x => (eval ρ r).bind fun y => binVal op x y)
    (h : DefOn d e) : DefOn d l ∧ DefOn d r := by
  constructor
  · intro ρ hd
    obtain ⟨v, hv⟩ := h ρ hd
    obtain ⟨x, y, hxy, _⟩ := eval_logic2_some (he ρ) hv
    cases evalList_eq_some_iff.mp hxy with
    | cons h1 _ => exact ⟨x, h1⟩
  · intro ρ hd
    obtain ⟨v, hv⟩ := h ρ hd
    obtain ⟨x, y, hxy, _⟩ := eval_logic2_some (he ρ) hv
    cases evalList_eq_some_iff.mp hxy with
    | cons _ h2 => cases h2 with
      | cons h3 _ => exact ⟨y, h3⟩

/-! ### the specification -/

def DirSpec (d0 : List (DomVar (Ext K))) (e : Exp (Ext K)) : Prop :=
  ∀ (t : Bool) (s : St (Ext K)) (x : Exp (Ext K)) (s' : St (Ext K)), LoopInvD d0 s →
    (∀ y ∈ varsOf e, inScope s.domain y) → FinE e → DefOn s.domain e →
    dirWitness e t s = .ok (x, s') → DirOK d0 s s' e t x

theorem dirList_spec {d0 : List (DomVar (Ext K))} : ∀ (es : List (Exp (Ext K))), (∀ e ∈ es, DirSpec d0 e) →
    ∀ (t : Bool) (s : St (Ext K)) (xs : List (Exp (Ext K))) (s' : St (Ext K)), LoopInvD d0 s →
    (∀ e ∈ es, ∀ y ∈ varsOf e, inScope s.domain y) → (∀ e ∈ es, FinE e) → (∀ e ∈ es, DefOn s.domain e) →
    dirWitnessList es t s = .ok (xs, s') → DirListOK d0 s s' es t xs := by
  intro es
  induction es with
  | nil =>
    intro _ t s xs s' hinv _ _ _ h
    rw [dirWitnessList] at h
    simp only [pure_ok, Prod.mk.injEq] at h
    obtain ⟨rfl, rfl⟩ := h
    exact DirListOK.nil hinv t
  | cons e es ih =>
    intro hall t s xs s' hinv hsc hfin hdef h
    rw [dirWitnessList] at h
    simp only [bind_ok, pure_ok, Prod.mk.injEq] at h
    obtain ⟨x, s1, h1, xs', s2, h2, rfl, rfl⟩ := h
    have A := hall e (by simp) t s x s1 hinv (hsc e (by simp)) (hfin e (by simp)) (hdef e (by simp)) h1
    have B := ih (fun e' he' => hall e' (by simp [he'])) t s1 xs' _ A.inv
      (fun e' he' y hy => scope_of_dom A.dom (hsc e' (by simp [he']) y hy))
      (fun e' he' => hfin e' (by simp [he']))
      (fun e' he' => DefOn.of_dom A.dom (hdef e' (by simp [he']))) h2
    exact DirListOK.cons A B (fun e' he' => hsc e' (by simp [he']))

theorem vars_list {d : List (DomVar (Ext K))} {es : List (Exp (Ext K))}
    (h : ∀ y ∈ varsOfList es, inScope d y) : ∀ e ∈ es, ∀ y ∈ varsOf e, inScope d y :=
  fun e he y hy => h y (mem_varsOfList.mpr ⟨e, he, hy⟩)

theorem seqOK_single {β : Type} (g : β → M (Ext K) PUnit) (x : β) (s s' : St (Ext K)) :
    seqOK g [x] s s' ↔ g x s = .ok (⟨⟩, s') := by
  simp only [seqOK]
  constructor
  · rintro ⟨s1, h, rfl⟩; exact h
  · intro h; exact ⟨s', h, rfl⟩

theorem dir_and {d0 : List (DomVar (Ext K))} {es : List (Exp (Ext K))} (ih : ∀ e ∈ es, DirSpec d0 e) :
    DirSpec d0 (.and es) := by
  intro t s x s' hinv hsc hfin hdef h
  rw [dirWitness] at h
  have hnone : ∀ d : List (DomVar (Ext K)), binaryAffineValue d (.and es : Exp (Ext K)) = none := fun d => by
    simp [binaryAffineValue]
  simp only [bind_ok, get_ok] at h
  obtain ⟨s0, s0', h0, h⟩ := h
  cases h0
  simp only [hnone, bind_ok] at h
  obtain ⟨xs, s1, hL, w, s2, hf, h⟩ := h
  have L := dirList_spec es ih t s xs s1 hinv (vars_list (by simpa [varsOf] using hsc)) hfin.and_mem
    hdef.and_mem hL
  cases t with
  | true =>
    simp only [if_true, bind_ok, pure_ok, forIn_emit_ok, Prod.mk.injEq] at h
    obtain ⟨u, s3, h3, rfl, rfl⟩ := h
    exact dir_and_finish L hdef hf (by simpa using h3)
  | false =>
    simp only [Bool.false_eq_true, if_false, bind_ok, pure_ok, Prod.mk.injEq] at h
    obtain ⟨u, s3, h3, rfl, rfl⟩ := h
    exact dir_and_finish L hdef hf (by simpa using (seqOK_single (fun u => emitConstraint (.var w) .le u "") (sumExps xs) s2 _).mpr h3)

theorem dir_or {d0 : List (DomVar (Ext K))} {es : List (Exp (Ext K))} (ih : ∀ e ∈ es, DirSpec d0 e) :
    DirSpec d0 (.or es) := by
  intro t s x s' hinv hsc hfin hdef h
  rw [dirWitness] at h
  simp only [bind_ok] at h
  obtain ⟨xs, s1, hL, w, s2, hf, h⟩ := h
  have L := dirList_spec es ih t s xs s1 hinv (vars_list (by simpa [varsOf] using hsc)) hfin.or_mem
    hdef.or_mem hL
  cases t with
  | false =>
    simp only [Bool.false_eq_true, if_false, bind_ok, pure_ok, forIn_emit_ok, Prod.mk.injEq] at h
    obtain ⟨u, s3, h3, rfl, rfl⟩ := h
    exact dir_or_finish L hdef hf (by simpa using h3)
  | true =>
    simp only [if_true, bind_ok, pure_ok, Prod.mk.injEq] at h
    obtain ⟨u, s3, h3, rfl, rfl⟩ := h
    exact dir_or_finish L hdef hf (by simpa using (seqOK_single (fun u => emitConstraint (.var w) .le u "") (sumExps xs) s2 _).mpr h3)

/-- the witness for `e` at `!t` is a witness for `not e` at `t`. -/
theorem DirOK.toNot {d0 : List (DomVar (Ext K))} {s s' : St (Ext K)} {e : Exp (Ext K)} {t : Bool}
    {x : Exp (Ext K)} (A : DirOK d0 s s' e (!t) x) : DirOK d0 s s' (.not e) t x := by
  refine A.congr ?_ (binOn_not _ _)
  intro ρ hs
  constructor
  · intro ht
    obtain ⟨w, hw, _⟩ := eval_not_some ht
    exact (hasTruth_not hw (A.bin ρ hs w hw) t).mp ht
  · intro ht
    exact (hasTruth_not ht (ofBool_B01 _) t).mpr ht

theorem DirOK.toUnot {d0 : List (DomVar (Ext K))} {s s' : St (Ext K)} {e : Exp (Ext K)} {t : Bool}
    {x : Exp (Ext K)} (A : DirOK d0 s s' e (!t) x) : DirOK d0 s s' (.un .not e) t x := by
  refine A.congr ?_ (binOn_unot _ _)
  intro ρ hs
  constructor
  · intro ht
    have ht' : eval ρ (.un .not e) = some (ofBool t) := ht
    rw [eval] at ht'
    cases he : eval ρ e with
    | none => simp [he] at ht'
    | some w => exact (hasTruth_unot he (A.bin ρ hs w he) t).mp ht
  · intro ht
    exact (hasTruth_unot ht (ofBool_B01 _) t).mpr ht

theorem dir_not {d0 : List (DomVar (Ext K))} {e : Exp (Ext K)} (ih : DirSpec d0 e) : DirSpec d0 (.not e) := by
  intro t s x s' hinv hsc hfin hdef h
  rw [dirWitness] at h
  simp only [bind_ok, get_ok] at h
  obtain ⟨s0, s0', h0, h⟩ := h
  cases h0
  cases hc : binaryAffineValue s.domain (.not e) with
  | some v =>
    simp only [hc, pure_ok, Prod.mk.injEq] at h
    obtain ⟨rfl, rfl⟩ := h
    exact dir_affine t hinv hsc hc
  | none =>
    simp only [hc] at h
    exact (ih (!t) s x s' hinv (by simpa [varsOf] using hsc) hfin.not hdef.not h).toNot

theorem FinE.unot {a : Exp (Ext K)} (h : FinE (.un .not a)) : FinE a := by
  simpa only [FinE, finiteLits] using h

theorem dir_un {d0 : List (DomVar (Ext K))} (op : UnOp) {e : Exp (Ext K)} (ih : DirSpec d0 e) :
    DirSpec d0 (.un op e) := by
  intro t s x s' hinv hsc hfin hdef h
  cases op with
  | neg =>
    rw [dirWitness] at h
    · simp [fail_ok] at h
    all_goals (intros; first | contradiction | (rename_i hh; cases hh))
  | not =>
    rw [dirWitness] at h
    simp only [bind_ok, get_ok] at h
    obtain ⟨s0, s0', h0, h⟩ := h
    cases h0
    cases hc : binaryAffineValue s.domain (.un .not e) with
    | some v =>
      simp only [hc, pure_ok, Prod.mk.injEq] at h
      obtain ⟨rfl, rfl⟩ := h
      exact dir_affine t hinv hsc hc
    | none =>
      simp only [hc] at h
      exact (ih (!t) s x s' hinv (by simpa [varsOf] using hsc) hfin.unot hdef.unot h).toUnot

theorem dir_num {d0 : List (DomVar (Ext K))} (v : Ext K) : DirSpec d0 (.num v) := by
  intro t s x s' hinv hsc _ _ h
  rw [dirWitness] at h
  simp only [bind_ok, get_ok] at h
  obtain ⟨s0, s0', h0, h⟩ := h
  cases h0
  cases hc : binaryAffineValue s.domain (.num v : Exp (Ext K)) with
  | some c =>
    simp only [hc, pure_ok, Prod.mk.injEq] at h
    obtain ⟨rfl, rfl⟩ := h
    exact dir_affine t hinv hsc hc
  | none => simp [hc, fail_ok] at h

theorem dir_var {d0 : List (DomVar (Ext K))} (n : String) : DirSpec d0 (.var n) := by
  intro t s x s' hinv hsc _ _ h
  rw [dirWitness] at h
  simp only [bind_ok, get_ok] at h
  obtain ⟨s0, s0', h0, h⟩ := h
  cases h0
  cases hc : binaryAffineValue s.domain (.var n : Exp (Ext K)) with
  | some c =>
    simp only [hc, pure_ok, Prod.mk.injEq] at h
    obtain ⟨rfl, rfl⟩ := h
    exact dir_affine t hinv hsc hc
  | none => simp [hc, fail_ok] at h

theorem dir_iff {d0 : List (DomVar (Ext K))} (l r : Exp (Ext K)) : DirSpec d0 (.iff l r) := by
  intro t s x s' hinv hsc hfin hdef h
  rw [dirWitness] at h
  exact iff_witness hinv (fun y hy => hsc y (by simp [varsOf, hy])) (fun y hy => hsc y (by simp [varsOf, hy]))
    (FinE_iff hfin).1 (FinE_iff hfin).2 hdef h

theorem eval_xor_iff (ρ : String → K) (l r : Exp (Ext K)) (t : Bool) :
    HasTruth (.xor l r) t ρ ↔ HasTruth (.iff l r) (!t) ρ := by
  simp only [HasTruth, eval_xor_eq, eval_iff_eq]
  cases eval ρ l with
  | none => simp
  | some x =>
    cases eval ρ r with
    | none => simp
    | some y =>
      simp only [Option.bind_some, binVal, Option.some.injEq, ofBool_inj]
      cases truthy x <;> cases truthy y <;> cases t <;> simp

theorem dir_xor {d0 : List (DomVar (Ext K))} (l r : Exp (Ext K)) : DirSpec d0 (.xor l r) := by
  intro t s x s' hinv hsc hfin hdef h
  rw [dirWitness] at h
  have hfl : FinE l := hfin.xor_mem l (by simp)
  have hfr : FinE r := hfin.xor_mem r (by simp)
  have hdef' : DefOn s.domain (.iff l r) := by
    intro ρ hd
    obtain ⟨v, hv⟩ := hdef ρ hd
    obtain ⟨a, b, hab, _⟩ := eval_logic2_some (eval_xor_eq ρ l r) hv
    cases evalList_eq_some_iff.mp hab with
    | cons h1 h2 => cases h2 with
      | cons h3 _ => exact ⟨_, eval_iff_of h1 h3⟩
  have A := iff_witness hinv (fun y hy => hsc y (by simp [varsOf, hy])) (fun y hy => hsc y (by simp [varsOf, hy]))
    hfl hfr hdef' h
  exact A.congr (fun ρ _ => eval_xor_iff ρ l r t) (binOn_xor _ _ _)

theorem dir_fail {d0 : List (DomVar (Ext K))} {e : Exp (Ext K)}
    (h : ∀ t : Bool, dirWitness e t = (fail .nonBinaryLogicOperand : M (Ext K) (Exp (Ext K)))) : DirSpec d0 e := by
  intro t s x s' _ _ _ _ hd
  rw [h t] at hd
  simp [fail_ok] at hd

/-! ### implication = `or [not l, r]` -/

theorem truthy_ofBool (b : Bool) : truthy (ofBool b : K) = b := by cases b <;> simp [truthy, ofBool]

theorem eval_implies_as_or (ρ : String → K) (l r : Exp (Ext K)) :
    eval ρ (.implies l r) = eval ρ (.or [.not l, r]) := by
  rw [eval_implies_eq]
  conv_rhs => rw [eval]
  simp only [evalList]
  conv_rhs => rw [eval]
  cases eval ρ l with
  | none => simp
  | some x =>
    cases eval ρ r with
    | none => simp
    | some y => simp [binVal, truthy_ofBool]

theorem dir_implies {d0 : List (DomVar (Ext K))} {l r : Exp (Ext K)} (ihl : DirSpec d0 l) (ihr : DirSpec d0 r) :
    DirSpec d0 (.implies l r) := by
  intro t s x s' hinv hsc hfin hdef h
  have hscl : ∀ y ∈ varsOf l, inScope s.domain y := fun y hy => hsc y (by simp [varsOf, hy])
  have hscr : ∀ y ∈ varsOf r, inScope s.domain y := fun y hy => hsc y (by simp [varsOf, hy])
  have hfl : FinE l := hfin.implies_mem l (by simp)
  have hfr : FinE r := hfin.implies_mem r (by simp)
  obtain ⟨hdl, hdr⟩ := defOn_pair (eval_implies_eq · l r) hdef
  rw [dirWitness] at h
  simp only [bind_ok, get_ok] at h
  obtain ⟨s0, s0', h0, c1, s1, h1, c2, s2, h2, w, s3, hf, h⟩ := h
  cases h0
  have A1 : DirOK d0 s s1 (.not l) t c1 := by
    cases hc : binaryAffineValue s.domain (.not l) with
    | some v =>
      simp only [hc, pure_ok, Prod.mk.injEq] at h1
      obtain ⟨rfl, rfl⟩ := h1
      exact dir_affine t hinv (by simpa [varsOf] using hscl) hc
    | none =>
      simp only [hc] at h1
      exact (ihl (!t) s c1 s1 hinv hscl hfl hdl h1).toNot
  have A2 : DirOK d0 s1 s2 r t c2 :=
    ihr t s1 c2 s2 A1.inv (fun y hy => scope_of_dom A1.dom (hscr y hy)) hfr (DefOn.of_dom A1.dom hdr) h2
  have L : DirListOK d0 s s2 [.not l, r] t [c1, c2] :=
    DirListOK.cons A1 (DirListOK.cons A2 (DirListOK.nil A2.inv t) (by simp))
      (by intro e' he' y hy; simp only [List.mem_singleton] at he'; subst he'; exact hscr y hy)
  have hdef' : DefOn s.domain (.or [.not l, r]) := by
    intro ρ hd; rw [← eval_implies_as_or]; exact hdef ρ hd
  have hcongr : ∀ ρ : String → K, Sat ρ s → (HasTruth (.implies l r) t ρ ↔ HasTruth (.or [.not l, r]) t ρ) := by
    intro ρ _; simp only [HasTruth, eval_implies_as_or]
  cases t with
  | true =>
    simp only [if_true, bind_ok, pure_ok, Prod.mk.injEq] at h
    obtain ⟨u, s4, h3, rfl, rfl⟩ := h
    exact (dir_or_finish L hdef' hf (by
      simpa using (seqOK_single (fun u => emitConstraint (.var w) .le u "") (sumExps [c1, c2]) s3 _).mpr h3)).congr
      hcongr (binOn_implies _ _ _)
  | false =>
    simp only [Bool.false_eq_true, if_false, bind_ok, pure_ok, forIn_emit_ok, Prod.mk.injEq] at h
    obtain ⟨u, s4, h3, rfl, rfl⟩ := h
    exact (dir_or_finish L hdef' hf (by simpa using h3)).congr hcongr (binOn_implies _ _ _)

/-- **`directional_logic_witness`**: on success the returned expression is a witness for the requested truth. -/
theorem dirWitness_spec {d0 : List (DomVar (Ext K))} : ∀ e : Exp (Ext K), DirSpec d0 e := by
  intro e
  induction e using Exp.ind with
  | num v => exact dir_num v
  | var n => exact dir_var n
  | not e ih => exact dir_not ih
  | un op e ih => exact dir_un op ih
  | and es ih => exact dir_and ih
  | or es ih => exact dir_or ih
  | implies l r ihl ihr => exact dir_implies ihl ihr
  | iff l r _ _ => exact dir_iff l r
  | xor l r _ _ => exact dir_xor l r
  | abs e _ =>
    refine dir_fail (fun t => ?_)
    rw [dirWitness]
    all_goals (intros; first | contradiction | (rename_i hh; cases hh))
  | min es _ =>
    refine dir_fail (fun t => ?_)
    rw [dirWitness]
    all_goals (intros; first | contradiction | (rename_i hh; cases hh))
  | max es _ =>
    refine dir_fail (fun t => ?_)
    rw [dirWitness]
    all_goals (intros; first | contradiction | (rename_i hh; cases hh))
  | bin op a b _ _ =>
    refine dir_fail (fun t => ?_)
    rw [dirWitness]
    all_goals (intros; first | contradiction | (rename_i hh; cases hh))

end Rooc.LinP
