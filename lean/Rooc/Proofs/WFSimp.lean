/-
C08 helpers — `flatten` and `simplify` create no literal outside a predicate `p` closed under the
arithmetic they perform (`Closed p`): the only new literals are sums, products, quotients by a non-zero,
negations, absolute values, `0`/`1`, and the `max`/`min` of a NON-EMPTY list of literals.
-/
import Rooc.Proofs.WFLower

set_option linter.unusedSectionVars false
set_option linter.unusedVariables false

namespace Rooc
namespace Lin
open Arith Exp
variable {α : Type} [Arith α] {p : α → Bool}

/-! ### flatten -/

/-- two sub-results combined by a binary node. -/
theorem bind2_ok {p : α → Bool} {n : Nat} {x y f : Exp α} {mk : Exp α → Exp α → Exp α}
    (ih : ∀ e f, allLits p e = true → Exp.flattenF n e = some f → allLits p f = true)
    (hx : allLits p x = true) (hy : allLits p y = true)
    (hmk : ∀ a b, allLits p a = true → allLits p b = true → allLits p (mk a b) = true)
    (h : (do let a ← Exp.flattenF n x; let b ← Exp.flattenF n y; pure (mk a b)) = some f) :
    allLits p f = true := by
  simp only [Option.bind_eq_bind, Option.bind_eq_some_iff, Option.pure_def, Option.some.injEq] at h
  obtain ⟨a, ha, b, hb, rfl⟩ := h
  exact hmk a b (ih _ _ hx ha) (ih _ _ hy hb)

theorem map_neg_ok {p : α → Bool} {n : Nat} {x f : Exp α}
    (ih : ∀ e f, allLits p e = true → Exp.flattenF n e = some f → allLits p f = true)
    (hx : allLits p x = true) (h : (Exp.flattenF n x).map (Exp.un .neg ·) = some f) : allLits p f = true := by
  simp only [Option.map_eq_some_iff] at h
  obtain ⟨a, ha, rfl⟩ := h
  simp only [allLits]
  exact ih _ _ hx ha

theorem binOK {p : α → Bool} (op : BinOp) (a b : Exp α) (ha : allLits p a = true) (hb : allLits p b = true) :
    allLits p (.bin op a b) = true := by simp [allLits, ha, hb]

theorem flattenMulRest_ok {p : α → Bool} {n : Nat}
    (ih : ∀ e f, allLits p e = true → Exp.flattenF n e = some f → allLits p f = true) :
    ∀ l r f, allLits p l = true → allLits p r = true →
      Exp.flattenF.flattenMulRest n l r = some f → allLits p f = true := by
  intro l r f hl hr h
  unfold Exp.flattenF.flattenMulRest at h
  split at h
  · rename_i c iop a b
    simp only [allLits, Bool.and_eq_true] at hr
    split at h
    · exact ih _ _ (by simp [allLits, hl, hr.1, hr.2]) h
    · split at h
      · simp only [allLits] at hl
        exact map_neg_ok ih (by simp [allLits, hl, hr.1, hr.2]) h
      · exact bind2_ok ih hl (by simp [allLits, hr.1, hr.2]) (binOK _) h
  · simp only [allLits] at hl
    exact map_neg_ok ih (by simp [allLits, hl, hr]) h
  · simp only [allLits] at hr
    exact map_neg_ok ih (by simp [allLits, hl, hr]) h
  · exact bind2_ok ih hl hr (binOK _) h

theorem flatten_ok (p : α → Bool) : ∀ (n : Nat) (e : Exp α) (f : Exp α),
    allLits p e = true → Exp.flattenF n e = some f → allLits p f = true
  | 0, e, f, _, h => by simp [Exp.flattenF] at h
  | n+1, e, f, he, h => by
    have ih := flatten_ok p n
    have ihM := flattenMulRest_ok ih
    unfold Exp.flattenF at h
    split at h
    · cases h
    · rename_i n' iop l r c heq
      cases heq
      simp only [allLits, Bool.and_eq_true] at he
      split at h
      · exact ih _ _ (by simp [allLits, he.1.1, he.1.2, he.2]) h
      · exact ihM _ _ _ (by simp [allLits, he.1.1, he.1.2]) he.2 h
    · rename_i n' l r heq
      cases heq
      simp only [allLits, Bool.and_eq_true] at he
      exact ihM _ _ _ he.1 he.2 h
    · rename_i n' iop l r c heq
      cases heq
      simp only [allLits, Bool.and_eq_true] at he
      split at h
      · exact bind2_ok ih (by simp [allLits, he.1.1, he.2]) (by simp [allLits, he.1.2, he.2]) (binOK _) h
      · exact bind2_ok ih (by simp [allLits, he.1.1, he.1.2]) he.2 (binOK _) h
    · rename_i n' op l r heq
      cases heq
      simp only [allLits, Bool.and_eq_true] at he
      exact bind2_ok ih he.1 he.2 (binOK _) h
    · injection h with h; subst h; exact he

/-! ### simplify -/

section simp
variable (hp : Closed p)
include hp

theorem logicNumber_ok (b : Bool) : p (Exp.logicNumber b : α) = true := by
  unfold Exp.logicNumber; split <;> exact hp.ofInt _

theorem addCore_ok {l r : Exp α} (hl : allLits p l = true) (hr : allLits p r = true) :
    allLits p (Exp.addCore l r) = true := by
  unfold Exp.addCore
  split
  · simp only [allLits] at *; exact hp.add _ _ hl hr
  · split <;> simp_all [allLits]
  · split <;> simp_all [allLits]
  · simp_all [allLits]

theorem subCore_ok {l r : Exp α} (hl : allLits p l = true) (hr : allLits p r = true) :
    allLits p (Exp.subCore l r) = true := by
  unfold Exp.subCore
  split
  · simp only [allLits] at *; exact hp.sub _ _ hl hr
  · split <;> simp_all [allLits]
  · simp_all [allLits]

theorem mulCore_ok {l r : Exp α} (hl : allLits p l = true) (hr : allLits p r = true) :
    allLits p (Exp.mulCore l r) = true := by
  unfold Exp.mulCore
  split
  · simp only [allLits] at *; exact hp.mul _ _ hl hr
  · split
    · simp only [allLits]; exact hp.ofInt 0
    · split
      · exact hr
      · split
        · exact hl
        · simp [allLits, hl, hr]

theorem divCore_ok {l r : Exp α} (hl : allLits p l = true) (hr : allLits p r = true) :
    allLits p (Exp.divCore l r) = true := by
  unfold Exp.divCore
  split
  · simp only [allLits] at hl hr
    split
    · simp [allLits, hl, hr]
    · rename_i hz
      simp only [allLits]
      exact hp.div _ _ hl hr (by simpa using hz)
  · split
    · exact hl
    · simp [allLits, hl, hr]

theorem notCore_ok {e : Exp α} (he : allLits p e = true) : allLits p (Exp.notCore e) = true := by
  unfold Exp.notCore
  split
  · simp only [allLits]; exact logicNumber_ok hp _
  · simp [allLits, he]

theorem xorCore_ok {l r : Exp α} (hl : allLits p l = true) (hr : allLits p r = true) :
    allLits p (Exp.xorCore l r) = true := by
  unfold Exp.xorCore
  split
  · simp only [allLits]; exact logicNumber_ok hp _
  · simp [allLits, hl, hr]

theorem impliesCore_ok {l r : Exp α} (hl : allLits p l = true) (hr : allLits p r = true) :
    allLits p (Exp.impliesCore l r) = true := by
  unfold Exp.impliesCore
  split
  · simp only [allLits]; exact logicNumber_ok hp _
  · simp [allLits, hl, hr]

theorem iffCore_ok {l r : Exp α} (hl : allLits p l = true) (hr : allLits p r = true) :
    allLits p (Exp.iffCore l r) = true := by
  unfold Exp.iffCore
  split
  · simp only [allLits]; exact logicNumber_ok hp _
  · simp [allLits, hl, hr]

omit hp in
theorem allLitsL_append {a b : List (Exp α)} :
    allLitsL p (a ++ b) = true ↔ allLitsL p a = true ∧ allLitsL p b = true := by
  simp only [allLitsL_iff, List.mem_append]
  constructor
  · intro h; exact ⟨fun e he => h e (Or.inl he), fun e he => h e (Or.inr he)⟩
  · rintro ⟨h1, h2⟩ e (he | he)
    · exact h1 e he
    · exact h2 e he

omit hp in
theorem naryFlatten_ok (isAnd : Bool) : ∀ es : List (Exp α), allLitsL p es = true →
    allLitsL p (Exp.naryFlatten isAnd es) = true
  | [], _ => by simp [Exp.naryFlatten, allLitsL]
  | e :: es, h => by
    simp only [allLitsL, Bool.and_eq_true] at h
    have ih := naryFlatten_ok isAnd es h.2
    unfold Exp.naryFlatten
    split
    · rw [allLitsL_append]; exact ⟨by simpa [allLits] using h.1, ih⟩
    · rw [allLitsL_append]; exact ⟨by simpa [allLits] using h.1, ih⟩
    · simp [allLitsL, h.1, ih]

omit hp in
theorem naryScan_ok (isAnd : Bool) : ∀ (es res : List (Exp α)), allLitsL p es = true →
    Exp.naryScan isAnd es = some res → allLitsL p res = true
  | [], res, _, h => by
    simp only [Exp.naryScan] at h; injection h with h; subst h; rfl
  | e :: es, res, he, h => by
    simp only [allLitsL, Bool.and_eq_true] at he
    cases e
    case num v =>
      simp only [Exp.naryScan] at h
      split at h
      · cases h
      · split at h
        · cases h
        · exact naryScan_ok isAnd _ res he.2 h
    all_goals
      simp only [Exp.naryScan, Option.map_eq_some_iff] at h
      obtain ⟨r, hr, rfl⟩ := h
      simp [allLitsL, he.1, naryScan_ok isAnd _ r he.2 hr]

omit hp in
/-- the keep-mode loop of rooc 9f62afd only drops elements. -/
theorem naryKeep_ok (isAnd : Bool) : ∀ es : List (Exp α), allLitsL p es = true →
    allLitsL p (Exp.naryKeep isAnd es) = true
  | [], _ => by simp [Exp.naryKeep, allLitsL]
  | e :: es, he => by
    simp only [allLitsL, Bool.and_eq_true] at he
    have ih := naryKeep_ok isAnd es he.2
    cases e
    case num v =>
      simp only [Exp.naryKeep]
      split
      · exact ih
      · simp [allLitsL, he.1, ih]
    all_goals simp [Exp.naryKeep, allLitsL, he.1, ih]

omit hp in
theorem naryStep_ok (isAnd : Bool) (es res : List (Exp α)) (he : allLitsL p es = true)
    (h : Exp.naryStep isAnd es = some res) : allLitsL p res = true := by
  unfold Exp.naryStep at h
  split at h
  · injection h with h; subst h; exact naryKeep_ok isAnd es he
  · exact naryScan_ok isAnd es res he h

theorem naryCore_ok (isAnd : Bool) {es : List (Exp α)} (h : allLitsL p es = true) :
    allLits p (Exp.naryCore isAnd es) = true := by
  unfold Exp.naryCore
  have hf := naryFlatten_ok isAnd es h
  split
  · simp only [allLits]; split <;> exact hp.ofInt _
  · simp only [allLits]; exact logicNumber_ok hp _
  · rename_i e heq
    have := naryStep_ok isAnd _ _ hf heq
    simpa [allLitsL] using this
  · rename_i res _ _ heq
    have := naryStep_ok isAnd _ _ hf heq
    split <;> simpa [allLits] using this

omit hp in
theorem allNums_ok : ∀ (es : List (Exp α)) (ns : List α), allLitsL p es = true →
    Exp.allNums es = some ns → (∀ n ∈ ns, p n = true) ∧ ns.length = es.length
  | [], ns, _, h => by
    simp only [Exp.allNums] at h; injection h with h; subst h; simp
  | e :: es, ns, he, h => by
    simp only [allLitsL, Bool.and_eq_true] at he
    cases e
    case num v =>
      simp only [Exp.allNums, Option.map_eq_some_iff] at h
      obtain ⟨ns', hns', rfl⟩ := h
      have ih := allNums_ok _ ns' he.2 hns'
      refine ⟨?_, by simp [ih.2]⟩
      intro n hn
      rcases List.mem_cons.mp hn with rfl | hn
      · simpa [allLits] using he.1
      · exact ih.1 n hn
    all_goals simp [Exp.allNums] at h

theorem foldl_fmax_ok : ∀ (ns : List α) (acc : α), p acc = true → (∀ n ∈ ns, p n = true) →
    p (ns.foldl Arith.fmax acc) = true
  | [], acc, ha, _ => ha
  | n :: ns, acc, ha, h =>
    foldl_fmax_ok ns _ (hp.fmax _ _ ha (h n (by simp))) (fun m hm => h m (by simp [hm]))

theorem foldl_fmin_ok : ∀ (ns : List α) (acc : α), p acc = true → (∀ n ∈ ns, p n = true) →
    p (ns.foldl Arith.fmin acc) = true
  | [], acc, ha, _ => ha
  | n :: ns, acc, ha, h =>
    foldl_fmin_ok ns _ (hp.fmin _ _ ha (h n (by simp))) (fun m hm => h m (by simp [hm]))

theorem fold_max_seed_ok {ns : List α} (hne : ns ≠ []) (h : ∀ n ∈ ns, p n = true) :
    p (ns.foldl Arith.fmax Arith.negInf) = true := by
  cases ns with
  | nil => exact absurd rfl hne
  | cons n ns =>
    exact foldl_fmax_ok hp ns _ (hp.fmaxNegInf _ (h n (by simp))) (fun m hm => h m (by simp [hm]))

theorem fold_min_seed_ok {ns : List α} (hne : ns ≠ []) (h : ∀ n ∈ ns, p n = true) :
    p (ns.foldl Arith.fmin Arith.posInf) = true := by
  cases ns with
  | nil => exact absurd rfl hne
  | cons n ns =>
    exact foldl_fmin_ok hp ns _ (hp.fminPosInf _ (h n (by simp))) (fun m hm => h m (by simp [hm]))

omit hp in
theorem allLitsL_map_of {g : Exp α → Exp α} {es : List (Exp α)} (h : allLitsL p es = true)
    (ih : ∀ x ∈ es, allLits p x = true → allLits p (g x) = true) : allLitsL p (es.map g) = true := by
  rw [allLitsL_iff] at *
  intro e he
  obtain ⟨x, hx, rfl⟩ := List.mem_map.mp he
  exact ih x hx (h x hx)

theorem simplify_ok (e : Exp α) : allLits p e = true → allLits p (Exp.simplify e) = true := by
  fun_induction Exp.simplify e
  all_goals (intro he; try simp only [allLits, Bool.and_eq_true] at he)
  all_goals first
    | exact he
    | (simp only [allLits, allLitsL]; done)
    | (obtain ⟨h1, h2⟩ := he
       simp_all only [forall_const]
       first
         | (apply addCore_ok hp <;> assumption)
         | (apply subCore_ok hp <;> assumption)
         | (apply mulCore_ok hp <;> assumption)
         | (apply divCore_ok hp <;> assumption)
         | (apply xorCore_ok hp <;> assumption)
         | (apply impliesCore_ok hp <;> assumption)
         | (apply iffCore_ok hp <;> assumption)
         | (apply naryCore_ok hp; simp only [allLitsL, Bool.and_eq_true]; exact ⟨by assumption, by assumption, trivial⟩))
    | (simp_all only [forall_const]
       first
         | (apply notCore_ok hp; assumption)
         | (simp_all [allLits]; first | exact hp.neg _ (by assumption) | exact hp.abs _ (by assumption))
         | (simp only [allLits]; assumption))
    | (apply naryCore_ok hp; exact allLitsL_map_of he (by assumption))
    | skip
  all_goals first
    | (rename_i es hne _ _ _ ih
       have hmap : allLitsL p (es.map Exp.simplify) = true := allLitsL_map_of he ih
       dsimp only
       split
       · rename_i ns hns
         have hok := allNums_ok _ _ hmap hns
         have hnn : ns ≠ [] := by
           intro hnil
           rw [hnil] at hok
           have : es = [] := by simpa using hok.2.symm
           exact hne (by simp [this])
         simp only [allLits]
         first
           | exact fold_max_seed_ok hp hnn hok.1
           | exact fold_min_seed_ok hp hnn hok.1
       · simp only [allLits]; exact hmap)
    | (rename_i es hne _ _ ih
       have hmap : allLitsL p (es.map Exp.simplify) = true := allLitsL_map_of he ih
       dsimp only
       split
       · rename_i ns hns
         have hok := allNums_ok _ _ hmap hns
         have hnn : ns ≠ [] := by
           intro hnil
           rw [hnil] at hok
           have : es = [] := by simpa using hok.2.symm
           exact hne (by simp [this])
         simp only [allLits]
         first
           | exact fold_max_seed_ok hp hnn hok.1
           | exact fold_min_seed_ok hp hnn hok.1
       · simp only [allLits]; exact hmap)

end simp

theorem simpOK_of_closed (hp : Closed p) : SimpOK p :=
  ⟨fun n e f he h => flatten_ok p n e f he h, fun e he => simplify_ok hp e he⟩

/-! ### `isFinite` over `Ext K` is closed -/

theorem false_elim' {P : Prop} (h : false = true) : P := Bool.noConfusion h

/-- in `Ext K`, finite ∘ finite = finite for `+ − × neg abs max min`, and for `÷` by a non-zero; nothing is
assumed about `K` beyond the `ExactField` operations. -/
theorem closed_isFinite (K : Type) [ExactField K] : Closed (α := Ext K) (fun a => Arith.isFinite a) where
  ofInt i := rfl
  add a b ha hb := by cases a <;> cases b <;> first | rfl | exact false_elim' ha | exact false_elim' hb
  sub a b ha hb := by cases a <;> cases b <;> first | rfl | exact false_elim' ha | exact false_elim' hb
  mul a b ha hb := by cases a <;> cases b <;> first | rfl | exact false_elim' ha | exact false_elim' hb
  neg a ha := by cases a <;> first | rfl | exact false_elim' ha
  abs a ha := by
    cases a <;> first | exact false_elim' ha | skip
    rename_i x
    show Ext.isFinite (Ext.abs (.fin x)) = true
    simp only [Ext.abs]
    by_cases h : ExactField.lt x (ExactField.ofInt 0) = true
    · rw [if_pos h]; rfl
    · rw [if_neg h]; rfl
  div a b ha hb hz := by
    cases a <;> cases b <;> first | exact false_elim' ha | exact false_elim' hb | skip
    rename_i x y
    show Ext.isFinite (Ext.div (.fin x) (.fin y)) = true
    have hz' : ExactField.eq y (ExactField.ofInt 0) = false := hz
    simp only [Ext.div, hz']
    rfl
  fmax a b ha hb := by
    cases a <;> cases b <;> first | exact false_elim' ha | exact false_elim' hb | skip
    rename_i x y
    show Ext.isFinite (Ext.fmax (.fin x) (.fin y)) = true
    simp only [Ext.fmax, Ext.isNaN, Bool.false_eq_true, if_false]
    by_cases h : Ext.lt (.fin x) (.fin y) = true
    · rw [if_pos h]; rfl
    · rw [if_neg h]; rfl
  fmin a b ha hb := by
    cases a <;> cases b <;> first | exact false_elim' ha | exact false_elim' hb | skip
    rename_i x y
    show Ext.isFinite (Ext.fmin (.fin x) (.fin y)) = true
    simp only [Ext.fmin, Ext.isNaN, Bool.false_eq_true, if_false]
    by_cases h : Ext.lt (.fin y) (.fin x) = true
    · rw [if_pos h]; rfl
    · rw [if_neg h]; rfl
  fmaxNegInf a ha := by cases a <;> first | rfl | exact false_elim' ha
  fminPosInf a ha := by cases a <;> first | rfl | exact false_elim' ha
  ofFinite a h := h

end Lin
end Rooc
