/-
Parentheses are consumed in matching pairs by every function of the parser model: `closeOf d toks` is the text
behind the first `)` that is not matched within `toks` (at nesting depth `d`), and a successful step of the model
does not change it.  Used to show that a function call `f(a, b)` is not mistaken for a scoped block
`f(i in S) { … }`: a scoped block ends its parenthesis right before a `{`.  (Written by a generator script: one lemma
per function of the model, each closed by case splitting and `grind`.)
-/
import Rooc.Proofs.Total
namespace Rooc.Syntax.Proofs
open Rooc Rooc.Syntax

/-- the text behind the first `)` that has no `(` before it at depth `d` -/
def closeOf : Nat → List Tok → Option (List Tok)
  | _, [] => none
  | d, .lpar :: r => closeOf (d+1) r
  | 0, .rpar :: r => some r
  | d+1, .rpar :: r => closeOf d r
  | d, _ :: r => closeOf d r

@[simp] theorem closeOf_nil (d : Nat) : closeOf d [] = none := by cases d <;> rfl
@[simp] theorem closeOf_lpar (d : Nat) (r : List Tok) : closeOf d (.lpar :: r) = closeOf (d+1) r := by cases d <;> rfl
@[simp] theorem closeOf_rpar_zero (r : List Tok) : closeOf 0 (.rpar :: r) = some r := rfl
@[simp] theorem closeOf_rpar_succ (d : Nat) (r : List Tok) : closeOf (d+1) (.rpar :: r) = closeOf d r := rfl

theorem closeOf_other {t : Tok} (h1 : t ≠ .lpar) (h2 : t ≠ .rpar) (d : Nat) (r : List Tok) : closeOf d (t :: r) = closeOf d r := by
  cases t <;> first | (exact absurd rfl h1) | (exact absurd rfl h2) | (cases d <;> rfl)

/-- `closeOf` as a function of the depth -/
def closeFn (toks : List Tok) : Nat → Option (List Tok) := fun d => closeOf d toks
/-- one level deeper -/
def shiftUp (g : Nat → Option (List Tok)) : Nat → Option (List Tok) := fun d => g (d+1)

@[simp, grind =] theorem closeFn_lpar (r : List Tok) : closeFn (.lpar :: r) = shiftUp (closeFn r) := by
  funext d; simp [closeFn, shiftUp]
@[simp, grind =] theorem shiftUp_rpar (r : List Tok) : shiftUp (closeFn (.rpar :: r)) = closeFn r := by
  funext d; simp [closeFn, shiftUp]
theorem closeFn_other {t : Tok} (h1 : t ≠ .lpar) (h2 : t ≠ .rpar) (r : List Tok) : closeFn (t :: r) = closeFn r := by
  funext d; exact closeOf_other h1 h2 d r

@[simp, grind =] theorem closeFn_int (s : String) (r : List Tok) : closeFn (.int s :: r) = closeFn r :=
  closeFn_other (by simp) (by simp) r
@[simp] theorem closeOf_int (s : String) (d : Nat) (r : List Tok) : closeOf d (.int s :: r) = closeOf d r :=
  closeOf_other (by simp) (by simp) d r
@[simp, grind =] theorem closeFn_float (s : String) (r : List Tok) : closeFn (.float s :: r) = closeFn r :=
  closeFn_other (by simp) (by simp) r
@[simp] theorem closeOf_float (s : String) (d : Nat) (r : List Tok) : closeOf d (.float s :: r) = closeOf d r :=
  closeOf_other (by simp) (by simp) d r
@[simp, grind =] theorem closeFn_word (s : String) (r : List Tok) : closeFn (.word s :: r) = closeFn r :=
  closeFn_other (by simp) (by simp) r
@[simp] theorem closeOf_word (s : String) (d : Nat) (r : List Tok) : closeOf d (.word s :: r) = closeOf d r :=
  closeOf_other (by simp) (by simp) d r
@[simp, grind =] theorem closeFn_comma (r : List Tok) : closeFn (.comma :: r) = closeFn r :=
  closeFn_other (by simp) (by simp) r
@[simp] theorem closeOf_comma (d : Nat) (r : List Tok) : closeOf d (.comma :: r) = closeOf d r :=
  closeOf_other (by simp) (by simp) d r
@[simp, grind =] theorem closeFn_plus (r : List Tok) : closeFn (.plus :: r) = closeFn r :=
  closeFn_other (by simp) (by simp) r
@[simp] theorem closeOf_plus (d : Nat) (r : List Tok) : closeOf d (.plus :: r) = closeOf d r :=
  closeOf_other (by simp) (by simp) d r
@[simp, grind =] theorem closeFn_minus (r : List Tok) : closeFn (.minus :: r) = closeFn r :=
  closeFn_other (by simp) (by simp) r
@[simp] theorem closeOf_minus (d : Nat) (r : List Tok) : closeOf d (.minus :: r) = closeOf d r :=
  closeOf_other (by simp) (by simp) d r
@[simp, grind =] theorem closeFn_star (r : List Tok) : closeFn (.star :: r) = closeFn r :=
  closeFn_other (by simp) (by simp) r
@[simp] theorem closeOf_star (d : Nat) (r : List Tok) : closeOf d (.star :: r) = closeOf d r :=
  closeOf_other (by simp) (by simp) d r
@[simp, grind =] theorem closeFn_slash (r : List Tok) : closeFn (.slash :: r) = closeFn r :=
  closeFn_other (by simp) (by simp) r
@[simp] theorem closeOf_slash (d : Nat) (r : List Tok) : closeOf d (.slash :: r) = closeOf d r :=
  closeOf_other (by simp) (by simp) d r
@[simp, grind =] theorem closeFn_ampamp (r : List Tok) : closeFn (.ampamp :: r) = closeFn r :=
  closeFn_other (by simp) (by simp) r
@[simp] theorem closeOf_ampamp (d : Nat) (r : List Tok) : closeOf d (.ampamp :: r) = closeOf d r :=
  closeOf_other (by simp) (by simp) d r
@[simp, grind =] theorem closeFn_barbar (r : List Tok) : closeFn (.barbar :: r) = closeFn r :=
  closeFn_other (by simp) (by simp) r
@[simp] theorem closeOf_barbar (d : Nat) (r : List Tok) : closeOf d (.barbar :: r) = closeOf d r :=
  closeOf_other (by simp) (by simp) d r
@[simp, grind =] theorem closeFn_bang (r : List Tok) : closeFn (.bang :: r) = closeFn r :=
  closeFn_other (by simp) (by simp) r
@[simp] theorem closeOf_bang (d : Nat) (r : List Tok) : closeOf d (.bang :: r) = closeOf d r :=
  closeOf_other (by simp) (by simp) d r
@[simp, grind =] theorem closeFn_arrow (r : List Tok) : closeFn (.arrow :: r) = closeFn r :=
  closeFn_other (by simp) (by simp) r
@[simp] theorem closeOf_arrow (d : Nat) (r : List Tok) : closeOf d (.arrow :: r) = closeOf d r :=
  closeOf_other (by simp) (by simp) d r
@[simp, grind =] theorem closeFn_darrow (r : List Tok) : closeFn (.darrow :: r) = closeFn r :=
  closeFn_other (by simp) (by simp) r
@[simp] theorem closeOf_darrow (d : Nat) (r : List Tok) : closeOf d (.darrow :: r) = closeOf d r :=
  closeOf_other (by simp) (by simp) d r
@[simp, grind =] theorem closeFn_nl (r : List Tok) : closeFn (.nl :: r) = closeFn r :=
  closeFn_other (by simp) (by simp) r
@[simp] theorem closeOf_nl (d : Nat) (r : List Tok) : closeOf d (.nl :: r) = closeOf d r :=
  closeOf_other (by simp) (by simp) d r
@[simp, grind =] theorem closeFn_colon (r : List Tok) : closeFn (.colon :: r) = closeFn r :=
  closeFn_other (by simp) (by simp) r
@[simp] theorem closeOf_colon (d : Nat) (r : List Tok) : closeOf d (.colon :: r) = closeOf d r :=
  closeOf_other (by simp) (by simp) d r
@[simp, grind =] theorem closeFn_le (r : List Tok) : closeFn (.le :: r) = closeFn r :=
  closeFn_other (by simp) (by simp) r
@[simp] theorem closeOf_le (d : Nat) (r : List Tok) : closeOf d (.le :: r) = closeOf d r :=
  closeOf_other (by simp) (by simp) d r
@[simp, grind =] theorem closeFn_ge (r : List Tok) : closeFn (.ge :: r) = closeFn r :=
  closeFn_other (by simp) (by simp) r
@[simp] theorem closeOf_ge (d : Nat) (r : List Tok) : closeOf d (.ge :: r) = closeOf d r :=
  closeOf_other (by simp) (by simp) d r
@[simp, grind =] theorem closeFn_eq (r : List Tok) : closeFn (.eq :: r) = closeFn r :=
  closeFn_other (by simp) (by simp) r
@[simp] theorem closeOf_eq (d : Nat) (r : List Tok) : closeOf d (.eq :: r) = closeOf d r :=
  closeOf_other (by simp) (by simp) d r
@[simp, grind =] theorem closeFn_lt (r : List Tok) : closeFn (.lt :: r) = closeFn r :=
  closeFn_other (by simp) (by simp) r
@[simp] theorem closeOf_lt (d : Nat) (r : List Tok) : closeOf d (.lt :: r) = closeOf d r :=
  closeOf_other (by simp) (by simp) d r
@[simp, grind =] theorem closeFn_gt (r : List Tok) : closeFn (.gt :: r) = closeFn r :=
  closeFn_other (by simp) (by simp) r
@[simp] theorem closeOf_gt (d : Nat) (r : List Tok) : closeOf d (.gt :: r) = closeOf d r :=
  closeOf_other (by simp) (by simp) d r
@[simp, grind =] theorem closeFn_st (r : List Tok) : closeFn (.st :: r) = closeFn r :=
  closeFn_other (by simp) (by simp) r
@[simp] theorem closeOf_st (d : Nat) (r : List Tok) : closeOf d (.st :: r) = closeOf d r :=
  closeOf_other (by simp) (by simp) d r
@[simp, grind =] theorem closeFn_lbrace (r : List Tok) : closeFn (.lbrace :: r) = closeFn r :=
  closeFn_other (by simp) (by simp) r
@[simp] theorem closeOf_lbrace (d : Nat) (r : List Tok) : closeOf d (.lbrace :: r) = closeOf d r :=
  closeOf_other (by simp) (by simp) d r
@[simp, grind =] theorem closeFn_rbrace (r : List Tok) : closeFn (.rbrace :: r) = closeFn r :=
  closeFn_other (by simp) (by simp) r
@[simp] theorem closeOf_rbrace (d : Nat) (r : List Tok) : closeOf d (.rbrace :: r) = closeOf d r :=
  closeOf_other (by simp) (by simp) d r
@[simp, grind =] theorem closeFn_lbrack (r : List Tok) : closeFn (.lbrack :: r) = closeFn r :=
  closeFn_other (by simp) (by simp) r
@[simp] theorem closeOf_lbrack (d : Nat) (r : List Tok) : closeOf d (.lbrack :: r) = closeOf d r :=
  closeOf_other (by simp) (by simp) d r
@[simp, grind =] theorem closeFn_rbrack (r : List Tok) : closeFn (.rbrack :: r) = closeFn r :=
  closeFn_other (by simp) (by simp) r
@[simp] theorem closeOf_rbrack (d : Nat) (r : List Tok) : closeOf d (.rbrack :: r) = closeOf d r :=
  closeOf_other (by simp) (by simp) d r
@[simp, grind =] theorem closeFn_dotdot (r : List Tok) : closeFn (.dotdot :: r) = closeFn r :=
  closeFn_other (by simp) (by simp) r
@[simp] theorem closeOf_dotdot (d : Nat) (r : List Tok) : closeOf d (.dotdot :: r) = closeOf d r :=
  closeOf_other (by simp) (by simp) d r
@[simp, grind =] theorem closeFn_dotdoteq (r : List Tok) : closeFn (.dotdoteq :: r) = closeFn r :=
  closeFn_other (by simp) (by simp) r
@[simp] theorem closeOf_dotdoteq (d : Nat) (r : List Tok) : closeOf d (.dotdoteq :: r) = closeOf d r :=
  closeOf_other (by simp) (by simp) d r
@[simp, grind =] theorem closeFn_us (r : List Tok) : closeFn (.us :: r) = closeFn r :=
  closeFn_other (by simp) (by simp) r
@[simp] theorem closeOf_us (d : Nat) (r : List Tok) : closeOf d (.us :: r) = closeOf d r :=
  closeOf_other (by simp) (by simp) d r
@[simp, grind =] theorem closeFn_str (s : String) (r : List Tok) : closeFn (.str s :: r) = closeFn r :=
  closeFn_other (by simp) (by simp) r
@[simp] theorem closeOf_str (s : String) (d : Nat) (r : List Tok) : closeOf d (.str s :: r) = closeOf d r :=
  closeOf_other (by simp) (by simp) d r

@[simp, grind =] theorem closeFn_skipNl (r : List Tok) : closeFn (skipNl r) = closeFn r := by
  induction r with
  | nil => simp [skipNl]
  | cons t r ih => cases t <;> simp [skipNl, ih]

theorem closeFn_skipNl' (r : List Tok) : closeFn (skipNl r) = closeFn r := closeFn_skipNl r
grind_pattern closeFn_skipNl' => skipNl r

theorem unRule_not_paren {t : Tok} {rule : String} (h : unRule t = some rule) : t ≠ .lpar ∧ t ≠ .rpar := by
  constructor <;> (intro e; subst e; simp [unRule, ruleOfTok, Tok.opSpelling] at h)
theorem binRule_not_paren {t : Tok} {rule : String} (h : binRule t = some rule) : t ≠ .lpar ∧ t ≠ .rpar := by
  constructor <;> (intro e; subst e; simp [binRule, ruleOfTok, Tok.opSpelling] at h)

theorem closeFn_optUnary (toks : List Tok) : closeFn (optUnary toks).2 = closeFn toks := by
  unfold optUnary
  split
  · rfl
  · rename_i t r _
    cases h : unRule t with
    | none => rfl
    | some rule => simp only; exact (closeFn_other (unRule_not_paren h).1 (unRule_not_paren h).2 r).symm
  · rfl

theorem closeFn_binTok {t : Tok} {rule : String} (h : binRule t = some rule) (r : List Tok) :
    closeFn (t :: r) = closeFn r := closeFn_other (binRule_not_paren h).1 (binRule_not_paren h).2 r

theorem closeFn_fnNameTail' (toks : List Tok) (acc : String) : closeFn (fnNameTail toks acc).2 = closeFn toks := by
  fun_induction fnNameTail toks acc <;> simp_all
theorem closeFn_fnNameTail (toks : List Tok) (acc name : String) (r : List Tok) (h : fnNameTail toks acc = (name, r)) :
    closeFn r = closeFn toks := by
  have := closeFn_fnNameTail' toks acc
  rw [h] at this; exact this

theorem closeFn_tupleNames (toks : List Tok) (b : Bool) (acc ns : List String) (rest : List Tok)
    (h : tupleNames toks b acc = some (ns, rest)) : shiftUp (closeFn toks) = closeFn rest := by
  fun_induction tupleNames toks b acc <;> simp_all

theorem rest_wordLeaf {w : String} {r rest : List Tok} {t : PExp} (h : wordLeaf w r = .ok (t, rest)) : rest = r := by
  unfold wordLeaf at h
  repeat' split at h
  all_goals first | (cases h; done) | (injection h with h; injection h with _ h; exact h.symm)

theorem closeFn_arrayEntries (f : Nat) (toks : List Tok) (acc es : List ArrEntry) (rest : List Tok)
    (h : arrayEntries f toks acc = some (es, rest)) : closeFn toks = closeFn rest := by
  induction f generalizing toks acc es rest with
  | zero => simp [arrayEntries] at h
  | succ f ih =>
    simp only [arrayEntries] at h
    split at h
    · cases h
    · rename_i e r heq
      have hr : closeFn toks = closeFn r := by
        repeat' split at heq
        all_goals first | (cases heq; done) | skip
        all_goals grind
      rw [hr]
      repeat' split at h
      all_goals first | (cases h; done) | skip
      all_goals grind

theorem closeFn_arrayLeaf {r rest : List Tok} {t : PExp} (h : arrayLeaf r = .ok (t, rest)) : closeFn r = closeFn rest := by
  simp only [arrayLeaf] at h
  have := closeFn_arrayEntries
  rw [← closeFn_skipNl r]
  repeat' split at h
  all_goals first | (cases h; done) | skip
  all_goals grind

theorem closeFn_graphEdges (f : Nat) (toks : List Tok) (acc es : List GEdge) (rest : List Tok)
    (h : graphEdges f toks acc = some (es, rest)) : closeFn toks = closeFn rest := by
  induction f generalizing toks acc es rest with
  | zero => simp [graphEdges] at h
  | succ f ih =>
    simp only [graphEdges] at h
    repeat' split at h
    all_goals first | (cases h; done) | skip
    all_goals grind

theorem closeFn_graphNode {toks rest : List Tok} {n : GNode} (h : graphNode toks = some (n, rest)) : closeFn toks = closeFn rest := by
  simp only [graphNode] at h
  have := closeFn_graphEdges
  repeat' split at h
  all_goals first | (cases h; done) | skip
  all_goals grind

theorem closeFn_graphTail (f : Nat) (toks : List Tok) (acc ns : List GNode) (rest : List Tok)
    (h : graphTail f toks acc = some (ns, rest)) : closeFn toks = closeFn rest := by
  induction f generalizing toks acc ns rest with
  | zero => simp [graphTail] at h
  | succ f ih =>
    simp only [graphTail] at h
    have := @closeFn_graphNode
    repeat' split at h
    all_goals first | (cases h; done) | skip
    all_goals grind

theorem closeFn_graphLeaf {r rest : List Tok} {t : PExp} (h : graphLeaf r = some (t, rest)) : closeFn r = closeFn rest := by
  simp only [graphLeaf, graphNodes] at h
  have := closeFn_graphTail
  have := @closeFn_graphNode
  rw [← closeFn_skipNl r]
  repeat' split at h
  all_goals first | (cases h; done) | skip
  all_goals grind

/-- a successful step does not change `closeFn` -/
def BalAt (f : Nat) : Prop :=
    (∀ toks t rest, parseExp f toks = .ok (t, rest) → closeFn toks = closeFn rest)
    ∧ (∀ toks items rest, collect f toks = .ok (items, rest) → closeFn toks = closeFn rest)
    ∧ (∀ toks acc items rest, collectLoop f toks acc = .ok (items, rest) → closeFn toks = closeFn rest)
    ∧ (∀ toks t rest, leaf f toks = .ok (t, rest) → closeFn toks = closeFn rest)
    ∧ (∀ w toks t rest, wordRest f w toks = .ok (t, rest) → closeFn toks = closeFn rest)
    ∧ (∀ n toks t rest, scopedFn f n toks = .ok (t, rest) → shiftUp (closeFn toks) = closeFn rest)
    ∧ (∀ toks vs its p rest, iterList f toks vs its = .ok (p, rest) → closeFn toks = closeFn rest)
    ∧ (∀ toks p rest, iterDecl f toks = .ok (p, rest) → closeFn toks = closeFn rest)
    ∧ (∀ toks t rest, iterator f toks = .ok (t, rest) → closeFn toks = closeFn rest)
    ∧ (∀ toks acc as rest, expList f toks acc = .ok (as, rest) → closeFn toks = closeFn rest)
    ∧ (∀ toks acc as rest, accessLoop f toks acc = .ok (as, rest) → closeFn toks = closeFn rest)
    ∧ (∀ toks acc as rest, indexLoop f toks acc = .ok (as, rest) → closeFn toks = closeFn rest)
    ∧ (∀ toks as rest, args f toks = .ok (as, rest) → shiftUp (closeFn toks) = closeFn rest)
    ∧ (∀ toks acc as rest, argsTail f toks acc = .ok (as, rest) → shiftUp (closeFn toks) = closeFn rest)
    ∧ (∀ toks acc as rest, atoms f toks acc = .ok (as, rest) → closeFn toks = closeFn rest)
    ∧ (∀ toks t rest, optVariable f toks = .ok (t, rest) → closeFn toks = closeFn rest)
    ∧ (∀ toks t rest, imulOrSingle f toks = .ok (t, rest) → closeFn toks = closeFn rest)

theorem bal_parseExp (f : Nat) (ih : BalAt f) : ∀ toks t rest, parseExp (f+1) toks = .ok (t, rest) → closeFn toks = closeFn rest := by
  obtain ⟨bPE, bC, bCL, bL, bWR, bS, bIL, bID, bIt, bEL, bAL, bIx, bA, bAT, bAt, bOV, bI⟩ := ih
  have hOU := closeFn_optUnary
  have hBT := @closeFn_binTok
  have hFN := closeFn_fnNameTail
  have hTN := closeFn_tupleNames
  have hWL := @rest_wordLeaf
  have hAr := @closeFn_arrayLeaf
  have hGr := @closeFn_graphLeaf
  intro toks t rest h
  simp only [parseExp] at h
  repeat' split at h
  all_goals first | (cases h; done) | skip
  all_goals grind

theorem bal_collect (f : Nat) (ih : BalAt f) : ∀ toks items rest, collect (f+1) toks = .ok (items, rest) → closeFn toks = closeFn rest := by
  obtain ⟨bPE, bC, bCL, bL, bWR, bS, bIL, bID, bIt, bEL, bAL, bIx, bA, bAT, bAt, bOV, bI⟩ := ih
  have hOU := closeFn_optUnary
  have hBT := @closeFn_binTok
  have hFN := closeFn_fnNameTail
  have hTN := closeFn_tupleNames
  have hWL := @rest_wordLeaf
  have hAr := @closeFn_arrayLeaf
  have hGr := @closeFn_graphLeaf
  intro toks items rest h
  simp only [collect] at h
  repeat' split at h
  all_goals first | (cases h; done) | skip
  all_goals grind

theorem bal_collectLoop (f : Nat) (ih : BalAt f) : ∀ toks acc items rest, collectLoop (f+1) toks acc = .ok (items, rest) → closeFn toks = closeFn rest := by
  obtain ⟨bPE, bC, bCL, bL, bWR, bS, bIL, bID, bIt, bEL, bAL, bIx, bA, bAT, bAt, bOV, bI⟩ := ih
  have hOU := closeFn_optUnary
  have hBT := @closeFn_binTok
  have hFN := closeFn_fnNameTail
  have hTN := closeFn_tupleNames
  have hWL := @rest_wordLeaf
  have hAr := @closeFn_arrayLeaf
  have hGr := @closeFn_graphLeaf
  intro toks acc items rest h
  simp only [collectLoop] at h
  repeat' split at h
  all_goals first | (cases h; done) | skip
  all_goals grind

theorem bal_leaf (f : Nat) (ih : BalAt f) : ∀ toks t rest, leaf (f+1) toks = .ok (t, rest) → closeFn toks = closeFn rest := by
  obtain ⟨bPE, bC, bCL, bL, bWR, bS, bIL, bID, bIt, bEL, bAL, bIx, bA, bAT, bAt, bOV, bI⟩ := ih
  have hOU := closeFn_optUnary
  have hBT := @closeFn_binTok
  have hFN := closeFn_fnNameTail
  have hTN := closeFn_tupleNames
  have hWL := @rest_wordLeaf
  have hAr := @closeFn_arrayLeaf
  have hGr := @closeFn_graphLeaf
  intro toks t rest h
  simp only [leaf] at h
  repeat' split at h
  all_goals first | (cases h; done) | skip
  all_goals grind

theorem bal_wordRest (f : Nat) (ih : BalAt f) : ∀ w toks t rest, wordRest (f+1) w toks = .ok (t, rest) → closeFn toks = closeFn rest := by
  obtain ⟨bPE, bC, bCL, bL, bWR, bS, bIL, bID, bIt, bEL, bAL, bIx, bA, bAT, bAt, bOV, bI⟩ := ih
  have hOU := closeFn_optUnary
  have hBT := @closeFn_binTok
  have hFN := closeFn_fnNameTail
  have hTN := closeFn_tupleNames
  have hWL := @rest_wordLeaf
  have hAr := @closeFn_arrayLeaf
  have hGr := @closeFn_graphLeaf
  intro w toks t rest h
  simp only [wordRest] at h
  repeat' split at h
  all_goals first | (cases h; done) | skip
  all_goals grind

theorem bal_scopedFn (f : Nat) (ih : BalAt f) : ∀ n toks t rest, scopedFn (f+1) n toks = .ok (t, rest) → shiftUp (closeFn toks) = closeFn rest := by
  obtain ⟨bPE, bC, bCL, bL, bWR, bS, bIL, bID, bIt, bEL, bAL, bIx, bA, bAT, bAt, bOV, bI⟩ := ih
  have hOU := closeFn_optUnary
  have hBT := @closeFn_binTok
  have hFN := closeFn_fnNameTail
  have hTN := closeFn_tupleNames
  have hWL := @rest_wordLeaf
  have hAr := @closeFn_arrayLeaf
  have hGr := @closeFn_graphLeaf
  intro n toks t rest h
  simp only [scopedFn] at h
  repeat' split at h
  all_goals first | (cases h; done) | skip
  all_goals grind

theorem bal_iterList (f : Nat) (ih : BalAt f) : ∀ toks vs its p rest, iterList (f+1) toks vs its = .ok (p, rest) → closeFn toks = closeFn rest := by
  obtain ⟨bPE, bC, bCL, bL, bWR, bS, bIL, bID, bIt, bEL, bAL, bIx, bA, bAT, bAt, bOV, bI⟩ := ih
  have hOU := closeFn_optUnary
  have hBT := @closeFn_binTok
  have hFN := closeFn_fnNameTail
  have hTN := closeFn_tupleNames
  have hWL := @rest_wordLeaf
  have hAr := @closeFn_arrayLeaf
  have hGr := @closeFn_graphLeaf
  intro toks vs its p rest h
  simp only [iterList] at h
  repeat' split at h
  all_goals first | (cases h; done) | skip
  all_goals grind

theorem bal_iterDecl (f : Nat) (ih : BalAt f) : ∀ toks p rest, iterDecl (f+1) toks = .ok (p, rest) → closeFn toks = closeFn rest := by
  obtain ⟨bPE, bC, bCL, bL, bWR, bS, bIL, bID, bIt, bEL, bAL, bIx, bA, bAT, bAt, bOV, bI⟩ := ih
  have hOU := closeFn_optUnary
  have hBT := @closeFn_binTok
  have hFN := closeFn_fnNameTail
  have hTN := closeFn_tupleNames
  have hWL := @rest_wordLeaf
  have hAr := @closeFn_arrayLeaf
  have hGr := @closeFn_graphLeaf
  intro toks p rest h
  simp only [iterDecl] at h
  repeat' split at h
  all_goals first | (cases h; done) | skip
  all_goals grind

theorem bal_iterator (f : Nat) (ih : BalAt f) : ∀ toks t rest, iterator (f+1) toks = .ok (t, rest) → closeFn toks = closeFn rest := by
  obtain ⟨bPE, bC, bCL, bL, bWR, bS, bIL, bID, bIt, bEL, bAL, bIx, bA, bAT, bAt, bOV, bI⟩ := ih
  have hOU := closeFn_optUnary
  have hBT := @closeFn_binTok
  have hFN := closeFn_fnNameTail
  have hTN := closeFn_tupleNames
  have hWL := @rest_wordLeaf
  have hAr := @closeFn_arrayLeaf
  have hGr := @closeFn_graphLeaf
  intro toks t rest h
  simp only [iterator] at h
  repeat' split at h
  all_goals first | (cases h; done) | skip
  all_goals grind

theorem bal_expList (f : Nat) (ih : BalAt f) : ∀ toks acc as rest, expList (f+1) toks acc = .ok (as, rest) → closeFn toks = closeFn rest := by
  obtain ⟨bPE, bC, bCL, bL, bWR, bS, bIL, bID, bIt, bEL, bAL, bIx, bA, bAT, bAt, bOV, bI⟩ := ih
  have hOU := closeFn_optUnary
  have hBT := @closeFn_binTok
  have hFN := closeFn_fnNameTail
  have hTN := closeFn_tupleNames
  have hWL := @rest_wordLeaf
  have hAr := @closeFn_arrayLeaf
  have hGr := @closeFn_graphLeaf
  intro toks acc as rest h
  simp only [expList] at h
  repeat' split at h
  all_goals first | (cases h; done) | skip
  all_goals grind

theorem bal_accessLoop (f : Nat) (ih : BalAt f) : ∀ toks acc as rest, accessLoop (f+1) toks acc = .ok (as, rest) → closeFn toks = closeFn rest := by
  obtain ⟨bPE, bC, bCL, bL, bWR, bS, bIL, bID, bIt, bEL, bAL, bIx, bA, bAT, bAt, bOV, bI⟩ := ih
  have hOU := closeFn_optUnary
  have hBT := @closeFn_binTok
  have hFN := closeFn_fnNameTail
  have hTN := closeFn_tupleNames
  have hWL := @rest_wordLeaf
  have hAr := @closeFn_arrayLeaf
  have hGr := @closeFn_graphLeaf
  intro toks acc as rest h
  simp only [accessLoop] at h
  repeat' split at h
  all_goals first | (cases h; done) | skip
  all_goals grind

theorem bal_indexLoop (f : Nat) (ih : BalAt f) : ∀ toks acc as rest, indexLoop (f+1) toks acc = .ok (as, rest) → closeFn toks = closeFn rest := by
  obtain ⟨bPE, bC, bCL, bL, bWR, bS, bIL, bID, bIt, bEL, bAL, bIx, bA, bAT, bAt, bOV, bI⟩ := ih
  have hOU := closeFn_optUnary
  have hBT := @closeFn_binTok
  have hFN := closeFn_fnNameTail
  have hTN := closeFn_tupleNames
  have hWL := @rest_wordLeaf
  have hAr := @closeFn_arrayLeaf
  have hGr := @closeFn_graphLeaf
  intro toks acc as rest h
  simp only [indexLoop] at h
  repeat' split at h
  all_goals first | (cases h; done) | skip
  all_goals grind

theorem bal_args (f : Nat) (ih : BalAt f) : ∀ toks as rest, args (f+1) toks = .ok (as, rest) → shiftUp (closeFn toks) = closeFn rest := by
  obtain ⟨bPE, bC, bCL, bL, bWR, bS, bIL, bID, bIt, bEL, bAL, bIx, bA, bAT, bAt, bOV, bI⟩ := ih
  have hOU := closeFn_optUnary
  have hBT := @closeFn_binTok
  have hFN := closeFn_fnNameTail
  have hTN := closeFn_tupleNames
  have hWL := @rest_wordLeaf
  have hAr := @closeFn_arrayLeaf
  have hGr := @closeFn_graphLeaf
  intro toks as rest h
  simp only [args] at h
  repeat' split at h
  all_goals first | (cases h; done) | skip
  all_goals grind

theorem bal_argsTail (f : Nat) (ih : BalAt f) : ∀ toks acc as rest, argsTail (f+1) toks acc = .ok (as, rest) → shiftUp (closeFn toks) = closeFn rest := by
  obtain ⟨bPE, bC, bCL, bL, bWR, bS, bIL, bID, bIt, bEL, bAL, bIx, bA, bAT, bAt, bOV, bI⟩ := ih
  have hOU := closeFn_optUnary
  have hBT := @closeFn_binTok
  have hFN := closeFn_fnNameTail
  have hTN := closeFn_tupleNames
  have hWL := @rest_wordLeaf
  have hAr := @closeFn_arrayLeaf
  have hGr := @closeFn_graphLeaf
  intro toks acc as rest h
  simp only [argsTail] at h
  repeat' split at h
  all_goals first | (cases h; done) | skip
  all_goals grind

theorem bal_atoms (f : Nat) (ih : BalAt f) : ∀ toks acc as rest, atoms (f+1) toks acc = .ok (as, rest) → closeFn toks = closeFn rest := by
  obtain ⟨bPE, bC, bCL, bL, bWR, bS, bIL, bID, bIt, bEL, bAL, bIx, bA, bAT, bAt, bOV, bI⟩ := ih
  have hOU := closeFn_optUnary
  have hBT := @closeFn_binTok
  have hFN := closeFn_fnNameTail
  have hTN := closeFn_tupleNames
  have hWL := @rest_wordLeaf
  have hAr := @closeFn_arrayLeaf
  have hGr := @closeFn_graphLeaf
  intro toks acc as rest h
  simp only [atoms] at h
  repeat' split at h
  all_goals first | (cases h; done) | skip
  all_goals grind

theorem bal_optVariable (f : Nat) (ih : BalAt f) : ∀ toks t rest, optVariable (f+1) toks = .ok (t, rest) → closeFn toks = closeFn rest := by
  obtain ⟨bPE, bC, bCL, bL, bWR, bS, bIL, bID, bIt, bEL, bAL, bIx, bA, bAT, bAt, bOV, bI⟩ := ih
  have hOU := closeFn_optUnary
  have hBT := @closeFn_binTok
  have hFN := closeFn_fnNameTail
  have hTN := closeFn_tupleNames
  have hWL := @rest_wordLeaf
  have hAr := @closeFn_arrayLeaf
  have hGr := @closeFn_graphLeaf
  intro toks t rest h
  simp only [optVariable] at h
  repeat' split at h
  all_goals first | (cases h; done) | skip
  all_goals grind

theorem bal_imulOrSingle (f : Nat) (ih : BalAt f) : ∀ toks t rest, imulOrSingle (f+1) toks = .ok (t, rest) → closeFn toks = closeFn rest := by
  obtain ⟨bPE, bC, bCL, bL, bWR, bS, bIL, bID, bIt, bEL, bAL, bIx, bA, bAT, bAt, bOV, bI⟩ := ih
  have hOU := closeFn_optUnary
  have hBT := @closeFn_binTok
  have hFN := closeFn_fnNameTail
  have hTN := closeFn_tupleNames
  have hWL := @rest_wordLeaf
  have hAr := @closeFn_arrayLeaf
  have hGr := @closeFn_graphLeaf
  intro toks t rest h
  simp only [imulOrSingle] at h
  repeat' split at h
  all_goals first | (cases h; done) | skip
  all_goals grind

theorem balanced : ∀ f : Nat, BalAt f := by
  intro f
  induction f with
  | zero =>
    refine ⟨?_, ?_, ?_, ?_, ?_, ?_, ?_, ?_, ?_, ?_, ?_, ?_, ?_, ?_, ?_, ?_, ?_⟩ <;> intros <;>
      simp_all [parseExp, collect, collectLoop, leaf, wordRest, scopedFn, iterList, iterDecl, iterator, expList, accessLoop,
        indexLoop, args, argsTail, atoms, optVariable, imulOrSingle]
  | succ f ih => exact ⟨bal_parseExp f ih, bal_collect f ih, bal_collectLoop f ih, bal_leaf f ih, bal_wordRest f ih, bal_scopedFn f ih, bal_iterList f ih, bal_iterDecl f ih, bal_iterator f ih, bal_expList f ih, bal_accessLoop f ih, bal_indexLoop f ih, bal_args f ih, bal_argsTail f ih, bal_atoms f ih, bal_optVariable f ih, bal_imulOrSingle f ih⟩

/-- a scoped block closes its parenthesis right before a `{` -/
theorem scopedFn_close {f : Nat} {n : String} {toks rest : List Tok} {t : PExp} (h : scopedFn f n toks = .ok (t, rest)) :
    ∃ r1, closeOf 0 toks = some (.lbrace :: r1) := by
  cases f with
  | zero => simp [scopedFn] at h
  | succ f =>
    have bIL := (balanced f).2.2.2.2.2.2.1
    simp only [scopedFn] at h
    split at h
    · cases h
    · rename_i vs its r hil
      have h1 := bIL _ _ _ _ _ hil
      split at h
      · rename_i r1 hs
        refine ⟨r1, ?_⟩
        have h2 : closeFn toks = closeFn (skipNl r) := by rw [closeFn_skipNl]; exact h1
        have := congrFun h2 0
        simp only [closeFn] at this
        rw [this, hs]; rfl
      · cases h

end Rooc.Syntax.Proofs
