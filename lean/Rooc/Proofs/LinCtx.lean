/-
Stage B (part 1) of the C01/C02 proof: arithmetic of `Ext K` on finite values, evaluation of
linearization contexts (`Ctx`), `context_to_exp` round trip, `extract_coeffs` against `dotK`,
and the state-monad plumbing of `Lin.M`.
-/
import Rooc.Linearize
import Rooc.SemModel
import Rooc.Proofs.Field
import Mathlib.Algebra.BigOperators.Group.List.Basic

set_option linter.unusedSectionVars false
set_option linter.unusedSimpArgs false
set_option linter.unusedVariables false

namespace Rooc.LinP
open Rooc Rooc.Lin

/-! ### the monad `M = StateT St (Except LinErr)` -/
section monad
variable {α : Type} [Arith α]

theorem bind_ok {β γ : Type} (x : M α β) (f : β → M α γ) (s : St α) (r : γ × St α) :
    (x >>= f) s = .ok r ↔ ∃ a s1, x s = .ok (a, s1) ∧ f a s1 = .ok r := by
  show (StateT.bind x f s) = _ ↔ _
  unfold StateT.bind
  cases h : x s with
  | error e => simp [bind, Except.bind]
  | ok p => obtain ⟨a, s1⟩ := p; simp [bind, Except.bind]

theorem pure_ok {β : Type} (a : β) (s : St α) (r : β × St α) :
    (pure a : M α β) s = .ok r ↔ r = (a, s) := by
  show (StateT.pure a s) = _ ↔ _
  simp [StateT.pure, pure, Except.pure, eq_comm]

theorem fail_ok {β : Type} (e : LinErr) (s : St α) (r : β × St α) :
    (fail e : M α β) s = .ok r ↔ False := by simp [fail]

theorem get_eq (s : St α) : (get : M α (St α)) s = .ok (s, s) := rfl
theorem set_eq (s' s : St α) : (set s' : M α PUnit) s = .ok (⟨⟩, s') := rfl
theorem modify_eq (f : St α → St α) (s : St α) : (modify f : M α PUnit) s = .ok (⟨⟩, f s) := rfl

theorem get_ok (s : St α) (r : St α × St α) : (get : M α (St α)) s = .ok r ↔ r = (s, s) := by
  rw [get_eq]; simp [eq_comm]
theorem set_ok (s' s : St α) (r : PUnit × St α) : (set s' : M α PUnit) s = .ok r ↔ r = (⟨⟩, s') := by
  rw [set_eq]; simp [eq_comm]
theorem modify_ok (f : St α → St α) (s : St α) (r : PUnit × St α) :
    (modify f : M α PUnit) s = .ok r ↔ r = (⟨⟩, f s) := by
  rw [modify_eq]; simp [eq_comm]

theorem ite_ok {β : Type} (c : Prop) [Decidable c] (x y : M α β) (s : St α) (r : β × St α) :
    (if c then x else y) s = .ok r ↔ (c ∧ x s = .ok r) ∨ (¬ c ∧ y s = .ok r) := by
  by_cases h : c <;> simp [h]
end monad

variable {K : Type} [Field K] [LinearOrder K] [IsStrictOrderedRing K] [FloorRing K]

/-! ### `Ext K` arithmetic on finite values -/

@[simp] theorem ar_add (a b : K) : Arith.add (Ext.fin a) (Ext.fin b) = Ext.fin (a + b) := rfl
@[simp] theorem ar_mul (a b : K) : Arith.mul (Ext.fin a) (Ext.fin b) = Ext.fin (a * b) := rfl
@[simp] theorem ar_neg (a : K) : Arith.neg (Ext.fin a) = Ext.fin (-a) := rfl
@[simp] theorem ar_sub (a b : K) : Arith.sub (Ext.fin a) (Ext.fin b) = Ext.fin (a - b) := by
  show Ext.fin (a + -b) = _; rw [sub_eq_add_neg]
@[simp] theorem ar_ofInt (i : Int) : (Arith.ofInt i : Ext K) = Ext.fin (i : K) := rfl
@[simp] theorem ar_zero : (Arith.zero : Ext K) = Ext.fin 0 := by
  show Ext.fin ((0 : Int) : K) = _; simp
@[simp] theorem ar_one : (Arith.one : Ext K) = Ext.fin 1 := by
  show Ext.fin ((1 : Int) : K) = _; simp
@[simp] theorem ar_eq (a b : K) : Arith.eq (Ext.fin a) (Ext.fin b) = decide (a = b) := rfl
@[simp] theorem ar_le (a b : K) : Arith.le (Ext.fin a) (Ext.fin b) = decide (a ≤ b) := rfl
@[simp] theorem ar_lt (a b : K) : Arith.lt (Ext.fin a) (Ext.fin b) = decide (a < b) := rfl
@[simp] theorem ar_ge (a b : K) : Arith.ge (Ext.fin a) (Ext.fin b) = decide (b ≤ a) := rfl
@[simp] theorem ar_gt (a b : K) : Arith.gt (Ext.fin a) (Ext.fin b) = decide (b < a) := rfl
@[simp] theorem ar_isFinite (a : K) : Arith.isFinite (Ext.fin a) = true := rfl

theorem ar_div (a b : K) (hb : b ≠ 0) : Arith.div (Ext.fin a) (Ext.fin b) = Ext.fin (a / b) := by
  show Ext.div (Ext.fin a) (Ext.fin b) = _
  simp [Ext.div, hb]

theorem ar_eq_zero_iff (x : Ext K) : Arith.eq x (Arith.zero : Ext K) = true ↔ x = .fin 0 := by
  rw [ar_zero]
  cases x <;> simp [Arith.eq, Ext.eq]

theorem ar_eq_fin_iff (x : Ext K) (k : K) : Arith.eq x (Ext.fin k) = true ↔ x = .fin k := by
  cases x <;> simp [Arith.eq, Ext.eq]

theorem ar_lt_zero_iff (x : K) : Arith.lt (Ext.fin x) (Arith.zero : Ext K) = true ↔ x < 0 := by
  rw [ar_zero]; simp

/-! ### values of extended numbers, term lists, contexts -/

/-- the value of a finite extended number (junk `0` otherwise; always used under `IsFin`). -/
def xval : Ext K → K
  | .fin k => k
  | _ => 0

def IsFin (x : Ext K) : Prop := ∃ k, x = .fin k

@[simp] theorem xval_fin (k : K) : xval (Ext.fin k) = k := rfl
@[simp] theorem isFin_fin (k : K) : IsFin (Ext.fin k) := ⟨k, rfl⟩
theorem IsFin.eq {x : Ext K} (h : IsFin x) : x = .fin (xval x) := by
  obtain ⟨k, rfl⟩ := h; rfl
theorem not_isFin_nan : ¬ IsFin (Ext.nan : Ext K) := by rintro ⟨k, h⟩; cases h
theorem not_isFin_pinf : ¬ IsFin (Ext.pinf : Ext K) := by rintro ⟨k, h⟩; cases h
theorem not_isFin_ninf : ¬ IsFin (Ext.ninf : Ext K) := by rintro ⟨k, h⟩; cases h

/-- `Σ coeff · ρ(var)` over a term list. -/
def termsVal (ρ : String → K) (ts : List (String × Ext K)) : K :=
  (ts.map fun p => xval p.2 * ρ p.1).sum

def TermsFin (ts : List (String × Ext K)) : Prop := ∀ p ∈ ts, IsFin p.2

@[simp] theorem termsVal_nil (ρ : String → K) : termsVal ρ [] = 0 := rfl
@[simp] theorem termsVal_cons (ρ : String → K) (p : String × Ext K) (ts : List (String × Ext K)) :
    termsVal ρ (p :: ts) = xval p.2 * ρ p.1 + termsVal ρ ts := by simp [termsVal]
theorem termsVal_append (ρ : String → K) (ts us : List (String × Ext K)) :
    termsVal ρ (ts ++ us) = termsVal ρ ts + termsVal ρ us := by simp [termsVal]

@[simp] theorem termsFin_nil : TermsFin ([] : List (String × Ext K)) := by intro p hp; cases hp
theorem termsFin_cons {p : String × Ext K} {ts : List (String × Ext K)} :
    TermsFin (p :: ts) ↔ IsFin p.2 ∧ TermsFin ts := by
  simp [TermsFin]
theorem termsFin_append {ts us : List (String × Ext K)} :
    TermsFin (ts ++ us) ↔ TermsFin ts ∧ TermsFin us := by
  simp only [TermsFin, List.mem_append]
  constructor
  · intro h; exact ⟨fun p hp => h p (Or.inl hp), fun p hp => h p (Or.inr hp)⟩
  · rintro ⟨h1, h2⟩ p (hp | hp); exacts [h1 p hp, h2 p hp]

/-- the value `Σ coeff·ρ(var) + rhs` of a context. -/
def ctxVal (ρ : String → K) (c : Ctx (Ext K)) : K := termsVal ρ c.vars + xval c.rhs

/-- a context is well-formed: finite coefficients and constant, distinct variable names
(the `IndexMap` invariant). -/
structure CtxOK (c : Ctx (Ext K)) : Prop where
  fin : TermsFin c.vars
  rhs : IsFin c.rhs
  nodup : (c.vars.map (·.1)).Nodup

/-- names occurring in a context. -/
def ctxNames (c : Ctx (Ext K)) : List String := c.vars.map (·.1)

/-! ### `Ctx` operations -/

theorem any_name_iff (ts : List (String × Ext K)) (name : String) :
    ts.any (·.1 == name) = true ↔ name ∈ ts.map (·.1) := by
  induction ts with
  | nil => simp
  | cons p ts ih =>
    simp only [List.any_cons, Bool.or_eq_true, ih, List.map_cons, List.mem_cons, beq_iff_eq]
    constructor
    · rintro (h | h); exacts [Or.inl h.symm, Or.inr h]
    · rintro (h | h); exacts [Or.inl h.symm, Or.inr h]

theorem map_update_of_not_mem (ts : List (String × Ext K)) (name : String) (m : Ext K)
    (h : name ∉ ts.map (·.1)) :
    ts.map (fun (p : String × Ext K) => if p.1 == name then (p.1, Arith.add p.2 m) else (p.1, p.2)) = ts := by
  induction ts with
  | nil => rfl
  | cons p ts ih =>
    simp only [List.map_cons, List.mem_cons, not_or] at h
    have hne : (p.1 == name) = false := by
      rw [beq_eq_false_iff_ne]; exact Ne.symm h.1
    rw [List.map_cons, ih h.2, hne]; rfl

theorem map_update_names (ts : List (String × Ext K)) (name : String) (m : Ext K) :
    (ts.map (fun (p : String × Ext K) => if p.1 == name then (p.1, Arith.add p.2 m) else (p.1, p.2))).map (·.1)
      = ts.map (·.1) := by
  induction ts with
  | nil => rfl
  | cons p ts ih =>
    simp only [List.map_cons, ih]
    by_cases h : (p.1 == name) = true <;> simp [h]

theorem map_update_val (ρ : String → K) (ts : List (String × Ext K)) (name : String) (m : K)
    (hfin : TermsFin ts) (hnd : (ts.map (·.1)).Nodup) (hmem : name ∈ ts.map (·.1)) :
    termsVal ρ (ts.map (fun (p : String × Ext K) =>
        if p.1 == name then (p.1, Arith.add p.2 (Ext.fin m)) else (p.1, p.2)))
      = termsVal ρ ts + m * ρ name := by
  induction ts with
  | nil => simp at hmem
  | cons p ts ih =>
    obtain ⟨n, v⟩ := p
    simp only [List.map_cons, List.nodup_cons] at hnd
    obtain ⟨k, rfl⟩ := (termsFin_cons.mp hfin).1
    by_cases hn : n = name
    · subst hn
      have := map_update_of_not_mem ts n (Ext.fin m) hnd.1
      simp only [List.map_cons, beq_self_eq_true, if_true, termsVal_cons, this, ar_add, xval_fin]
      ring
    · have hne : (n == name) = false := by simp [hn]
      have hmem' : name ∈ ts.map (·.1) := by
        simp only [List.map_cons, List.mem_cons] at hmem
        rcases hmem with h | h
        · exact absurd h.symm hn
        · exact h
      simp only [List.map_cons, hne, termsVal_cons, ih (termsFin_cons.mp hfin).2 hnd.2 hmem']
      simp; ring

theorem map_update_fin (ts : List (String × Ext K)) (name : String) (m : K) (hfin : TermsFin ts) :
    TermsFin (ts.map (fun (p : String × Ext K) =>
        if p.1 == name then (p.1, Arith.add p.2 (Ext.fin m)) else (p.1, p.2))) := by
  intro q hq
  obtain ⟨p, hp, rfl⟩ := List.mem_map.mp hq
  obtain ⟨k, hk⟩ := hfin p hp
  by_cases h : (p.1 == name) = true
  · simp [h, hk]
  · simp [h, hk]

theorem addVar_eq (c : Ctx (Ext K)) (name : String) (m : Ext K) :
    c.addVar name m =
      if name ∈ c.vars.map (·.1) then
        { c with vars := c.vars.map (fun (p : String × Ext K) =>
            if p.1 == name then (p.1, Arith.add p.2 m) else (p.1, p.2)) }
      else { c with vars := c.vars ++ [(name, m)] } := by
  unfold Ctx.addVar
  by_cases h : name ∈ c.vars.map (·.1)
  · rw [if_pos ((any_name_iff _ _).mpr h), if_pos h]
  · have : ¬ (c.vars.any (·.1 == name) = true) := fun h' => h ((any_name_iff _ _).mp h')
    rw [if_neg this, if_neg h]

theorem addVar_ok {c : Ctx (Ext K)} (h : CtxOK c) (name : String) (m : K) : CtxOK (c.addVar name (Ext.fin m)) := by
  rw [addVar_eq]
  by_cases hm : name ∈ c.vars.map (·.1)
  · rw [if_pos hm]
    exact ⟨map_update_fin _ _ _ h.fin, h.rhs, by simp only [map_update_names]; exact h.nodup⟩
  · rw [if_neg hm]
    refine ⟨termsFin_append.mpr ⟨h.fin, by simp [TermsFin]⟩, h.rhs, ?_⟩
    simp only [List.map_append, List.map_cons, List.map_nil]
    rw [List.nodup_append]
    refine ⟨h.nodup, by simp, ?_⟩
    intro a ha b hb
    simp only [List.mem_singleton] at hb
    subst hb
    intro hab; subst hab; exact hm ha

theorem addVar_val (ρ : String → K) {c : Ctx (Ext K)} (h : CtxOK c) (name : String) (m : K) :
    ctxVal ρ (c.addVar name (Ext.fin m)) = ctxVal ρ c + m * ρ name := by
  rw [addVar_eq]
  by_cases hm : name ∈ c.vars.map (·.1)
  · rw [if_pos hm]; simp only [ctxVal, map_update_val ρ _ _ _ h.fin h.nodup hm]; ring
  · rw [if_neg hm]; simp only [ctxVal, termsVal_append, termsVal_cons, termsVal_nil, xval_fin]; ring

theorem addVar_names (c : Ctx (Ext K)) (name : String) (m : Ext K) :
    ∀ x, x ∈ ctxNames (c.addVar name m) ↔ x ∈ ctxNames c ∨ x = name := by
  intro x
  rw [addVar_eq]
  by_cases hm : name ∈ c.vars.map (·.1)
  · rw [if_pos hm]; simp only [ctxNames, map_update_names]
    constructor
    · exact Or.inl
    · rintro (h | rfl); exacts [h, hm]
  · rw [if_neg hm]; simp [ctxNames]

@[simp] theorem addVar_rhs (c : Ctx (Ext K)) (name : String) (m : Ext K) : (c.addVar name m).rhs = c.rhs := by
  rw [addVar_eq]; split <;> rfl

theorem new_ok : CtxOK (Ctx.new : Ctx (Ext K)) :=
  ⟨by simp [Ctx.new], by simp [Ctx.new], by simp [Ctx.new]⟩

theorem addRhs_ok {c : Ctx (Ext K)} (h : CtxOK c) (r : K) : CtxOK (c.addRhs (Ext.fin r)) := by
  obtain ⟨k, hk⟩ := h.rhs
  exact ⟨h.fin, ⟨k + r, by simp [Ctx.addRhs, hk]⟩, h.nodup⟩

theorem addRhs_val (ρ : String → K) {c : Ctx (Ext K)} (h : CtxOK c) (r : K) :
    ctxVal ρ (c.addRhs (Ext.fin r)) = ctxVal ρ c + r := by
  obtain ⟨k, hk⟩ := h.rhs
  simp [ctxVal, Ctx.addRhs, hk]; ring

@[simp] theorem addRhs_names (c : Ctx (Ext K)) (r : Ext K) : ctxNames (c.addRhs r) = ctxNames c := rfl

theorem fromRhs_ok (v : K) : CtxOK (Ctx.fromRhs (Ext.fin v)) := addRhs_ok new_ok v
theorem fromRhs_val (ρ : String → K) (v : K) : ctxVal ρ (Ctx.fromRhs (Ext.fin v)) = v := by
  simp [Ctx.fromRhs, Ctx.new, Ctx.addRhs, ctxVal]
@[simp] theorem fromRhs_names (v : Ext K) : ctxNames (Ctx.fromRhs v) = [] := rfl

theorem fromVar_eq (n : String) (m : Ext K) : Ctx.fromVar n m = ⟨[(n, m)], Arith.zero⟩ := by
  simp [Ctx.fromVar, Ctx.new, Ctx.addVar]
theorem fromVar_ok (n : String) (m : K) : CtxOK (Ctx.fromVar n (Ext.fin m)) := by
  rw [fromVar_eq]; exact ⟨by simp [TermsFin], by simp, by simp⟩
theorem fromVar_val (ρ : String → K) (n : String) (m : K) : ctxVal ρ (Ctx.fromVar n (Ext.fin m)) = m * ρ n := by
  rw [fromVar_eq]; simp [ctxVal]
@[simp] theorem fromVar_names (n : String) (m : Ext K) : ctxNames (Ctx.fromVar n m) = [n] := by
  rw [fromVar_eq]; rfl

/-- folding `addVar` over a finite term list (the loop inside `merge_add` / `merge_sub`). -/
theorem foldl_addVar (ρ : String → K) (f : K → K) (g : Ext K → Ext K) (hg : ∀ k, g (Ext.fin k) = Ext.fin (f k))
    (ts : List (String × Ext K)) (hts : TermsFin ts) :
    ∀ (c : Ctx (Ext K)), CtxOK c →
      CtxOK (ts.foldl (fun acc (p : String × Ext K) => acc.addVar p.1 (g p.2)) c) ∧
      ctxVal ρ (ts.foldl (fun acc (p : String × Ext K) => acc.addVar p.1 (g p.2)) c)
        = ctxVal ρ c + (ts.map fun p => f (xval p.2) * ρ p.1).sum ∧
      (ts.foldl (fun acc (p : String × Ext K) => acc.addVar p.1 (g p.2)) c).rhs = c.rhs ∧
      ∀ x, x ∈ ctxNames (ts.foldl (fun acc (p : String × Ext K) => acc.addVar p.1 (g p.2)) c) ↔
        x ∈ ctxNames c ∨ x ∈ ts.map (·.1) := by
  induction ts with
  | nil => intro c hc; simp [hc]
  | cons p ts ih =>
    intro c hc
    obtain ⟨k, hk⟩ := (termsFin_cons.mp hts).1
    have hp : g p.2 = Ext.fin (f k) := by rw [hk, hg]
    have hc' : CtxOK (c.addVar p.1 (g p.2)) := by rw [hp]; exact addVar_ok hc _ _
    obtain ⟨h1, h2, h3, h4⟩ := ih (termsFin_cons.mp hts).2 _ hc'
    simp only [List.foldl_cons]
    refine ⟨h1, ?_, ?_, ?_⟩
    · rw [h2, hp, addVar_val ρ hc]; simp [hk]; ring
    · rw [h3, addVar_rhs]
    · intro x; rw [h4, addVar_names]; simp; tauto

theorem mergeAdd_spec (ρ : String → K) {c o : Ctx (Ext K)} (hc : CtxOK c) (ho : CtxOK o) :
    CtxOK (c.mergeAdd o) ∧ ctxVal ρ (c.mergeAdd o) = ctxVal ρ c + ctxVal ρ o ∧
      ∀ x, x ∈ ctxNames (c.mergeAdd o) ↔ x ∈ ctxNames c ∨ x ∈ ctxNames o := by
  obtain ⟨h1, h2, h3, h4⟩ := foldl_addVar ρ id id (fun _ => rfl) o.vars ho.fin c hc
  obtain ⟨k, hk⟩ := ho.rhs
  unfold Ctx.mergeAdd
  simp only [id] at h1 h2 h3 h4
  rw [hk]
  refine ⟨addRhs_ok h1 k, ?_, ?_⟩
  · rw [addRhs_val ρ h1, h2]; simp [ctxVal, termsVal, hk]; ring
  · intro x; rw [addRhs_names, h4]; rfl

theorem mergeSub_spec (ρ : String → K) {c o : Ctx (Ext K)} (hc : CtxOK c) (ho : CtxOK o) :
    CtxOK (c.mergeSub o) ∧ ctxVal ρ (c.mergeSub o) = ctxVal ρ c - ctxVal ρ o ∧
      ∀ x, x ∈ ctxNames (c.mergeSub o) ↔ x ∈ ctxNames c ∨ x ∈ ctxNames o := by
  obtain ⟨h1, h2, h3, h4⟩ := foldl_addVar ρ (fun k => -k) Arith.neg (fun _ => rfl) o.vars ho.fin c hc
  obtain ⟨k, hk⟩ := ho.rhs
  unfold Ctx.mergeSub
  rw [hk, ar_neg]
  refine ⟨addRhs_ok h1 (-k), ?_, ?_⟩
  · rw [addRhs_val ρ h1, h2]
    simp only [ctxVal, termsVal, hk, xval_fin]
    have : (o.vars.map fun p => -xval p.2 * ρ p.1).sum = -(o.vars.map fun p => xval p.2 * ρ p.1).sum := by
      induction o.vars with
      | nil => simp
      | cons p ps ih => simp only [List.map_cons, List.sum_cons, ih]; ring
    rw [this]; ring
  · intro x; rw [addRhs_names, h4]; rfl

theorem mulBy_spec (ρ : String → K) {c : Ctx (Ext K)} (hc : CtxOK c) (m : K) :
    CtxOK (c.mulBy (Ext.fin m)) ∧ ctxVal ρ (c.mulBy (Ext.fin m)) = ctxVal ρ c * m ∧
      ctxNames (c.mulBy (Ext.fin m)) = ctxNames c := by
  obtain ⟨k, hk⟩ := hc.rhs
  have hnames : (c.vars.map fun (p : String × Ext K) => (p.1, Arith.mul p.2 (Ext.fin m))).map (·.1)
      = c.vars.map (·.1) := by simp
  refine ⟨⟨?_, ⟨k * m, by simp [Ctx.mulBy, hk]⟩, ?_⟩, ?_, ?_⟩
  · intro q hq
    simp only [Ctx.mulBy] at hq
    obtain ⟨p, hp, rfl⟩ := List.mem_map.mp hq
    obtain ⟨a, ha⟩ := hc.fin p hp
    exact ⟨a * m, by simp [ha]⟩
  · show ((c.vars.map fun (p : String × Ext K) => (p.1, Arith.mul p.2 (Ext.fin m))).map (·.1)).Nodup
    rw [hnames]; exact hc.nodup
  · simp only [ctxVal, Ctx.mulBy, hk, ar_mul, xval_fin, add_mul]
    congr 1
    have := hc.fin
    revert this
    generalize c.vars = ts
    intro hts
    induction ts with
    | nil => simp
    | cons p ps ih =>
      obtain ⟨a, ha⟩ := (termsFin_cons.mp hts).1
      simp [ih (termsFin_cons.mp hts).2, ha]; ring
  · exact hnames

theorem divBy_spec (ρ : String → K) {c : Ctx (Ext K)} (hc : CtxOK c) (d : K) (hd : d ≠ 0) :
    CtxOK (c.divBy (Ext.fin d)) ∧ ctxVal ρ (c.divBy (Ext.fin d)) = ctxVal ρ c / d ∧
      ctxNames (c.divBy (Ext.fin d)) = ctxNames c := by
  obtain ⟨k, hk⟩ := hc.rhs
  have hnames : (c.vars.map fun (p : String × Ext K) => (p.1, Arith.div p.2 (Ext.fin d))).map (·.1)
      = c.vars.map (·.1) := by simp
  refine ⟨⟨?_, ⟨k / d, by simp [Ctx.divBy, hk, ar_div _ _ hd]⟩, ?_⟩, ?_, ?_⟩
  · intro q hq
    simp only [Ctx.divBy] at hq
    obtain ⟨p, hp, rfl⟩ := List.mem_map.mp hq
    obtain ⟨a, ha⟩ := hc.fin p hp
    exact ⟨a / d, by simp [ha, ar_div _ _ hd]⟩
  · show ((c.vars.map fun (p : String × Ext K) => (p.1, Arith.div p.2 (Ext.fin d))).map (·.1)).Nodup
    rw [hnames]; exact hc.nodup
  · simp only [ctxVal, Ctx.divBy, hk, ar_div _ _ hd, xval_fin, add_div]
    congr 1
    have := hc.fin
    revert this
    generalize c.vars = ts
    intro hts
    induction ts with
    | nil => simp
    | cons p ps ih =>
      obtain ⟨a, ha⟩ := (termsFin_cons.mp hts).1
      simp [ih (termsFin_cons.mp hts).2, ha, ar_div _ _ hd]; ring
  · exact hnames

/-! ### names of contexts, unconditionally -/

theorem mulBy_names (c : Ctx (Ext K)) (m : Ext K) : ctxNames (c.mulBy m) = ctxNames c := by
  simp [ctxNames, Ctx.mulBy]
theorem divBy_names (c : Ctx (Ext K)) (m : Ext K) : ctxNames (c.divBy m) = ctxNames c := by
  simp [ctxNames, Ctx.divBy]

theorem foldl_addVar_names (g : Ext K → Ext K) (ts : List (String × Ext K)) :
    ∀ (c : Ctx (Ext K)) x, x ∈ ctxNames (ts.foldl (fun acc (p : String × Ext K) => acc.addVar p.1 (g p.2)) c) ↔
        x ∈ ctxNames c ∨ x ∈ ts.map (·.1) := by
  induction ts with
  | nil => intro c x; simp
  | cons p ts ih =>
    intro c x
    simp only [List.foldl_cons, ih, addVar_names, List.map_cons, List.mem_cons]
    tauto

theorem mergeAdd_names (c o : Ctx (Ext K)) :
    ∀ x, x ∈ ctxNames (c.mergeAdd o) ↔ x ∈ ctxNames c ∨ x ∈ ctxNames o := by
  intro x
  unfold Ctx.mergeAdd
  rw [addRhs_names]
  exact foldl_addVar_names id o.vars c x

theorem mergeSub_names (c o : Ctx (Ext K)) :
    ∀ x, x ∈ ctxNames (c.mergeSub o) ↔ x ∈ ctxNames c ∨ x ∈ ctxNames o := by
  intro x
  unfold Ctx.mergeSub
  rw [addRhs_names]
  exact foldl_addVar_names Arith.neg o.vars c x

end Rooc.LinP
