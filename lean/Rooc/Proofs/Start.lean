/-
`StandardLinearModel::into_tableau`, direct start: when every constraint row owns an "independent"
column, the tableau that comes out is in canonical form, has the solution set of the standard form and
represents its objective.  Hypothesis on the data: no entry of `A` lies strictly between `0` and the
tolerance in magnitude (`NoSubTol`, a decidable predicate — exactly the complement of the known finding
`C14-absolute-tolerance-on-unscaled-data`), and `tol > 0` (for `tol = 0` the predicate `float_ne(a, 0)` is
constantly true and no column is ever independent).
-/
import Rooc.Proofs.Unbounded
namespace Rooc
namespace Start
variable {K : Type} [Field K] [LinearOrder K] [IsStrictOrderedRing K]
attribute [local instance] exactArith
open Tableau TabSem PivotLemmas

/-- every entry is `0` or at least `tol` in magnitude. -/
def NoSubTol (tol : K) (a : List (List K)) : Prop := ∀ r ∈ a, ∀ x ∈ r, x = 0 ∨ tol ≤ |x|

theorem nth_mem_or_zero (r : List K) (j : Nat) : nth r j ∈ r ∨ nth r j = 0 := by
  simp only [nth, List.getD_eq_getElem?_getD]
  rcases Nat.lt_or_ge j r.length with h | h
  · left; simp [h]
  · right; simp [h]

theorem row_mem_or_nil (a : List (List K)) (i : Nat) : row a i ∈ a ∨ row a i = [] := by
  simp only [row, List.getD_eq_getElem?_getD]
  rcases Nat.lt_or_ge i a.length with h | h
  · left; simp [h]
  · right; simp [h]

theorem fne_iff_ne {tol : K} (ht : 0 < tol) {a : List (List K)} (hN : NoSubTol tol a) (i j : Nat) :
    Tol.fne tol (nth (row a i) j) 0 = true ↔ nth (row a i) j ≠ 0 := by
  rw [ExactK.fne_iff]
  simp only [sub_zero]
  constructor
  · intro h h0; rw [h0] at h; simp at h; exact absurd ht (not_lt.2 h)
  · intro h
    rcases row_mem_or_nil a i with hr | hr
    · rcases nth_mem_or_zero (row a i) j with hx | hx
      · rcases hN _ hr _ hx with h0 | h0
        · exact absurd h0 h
        · exact not_lt.2 h0
      · exact absurd hx h
    · rw [hr] at h; simp [nth] at h

/-! ### the column scan of `independent variables` -/

/-- one step of the scan of a column (the closure inside `into_tableau`). -/
noncomputable def colScan (tol : K) (column : Nat) (acc : Nat × Nat × K) (cr : List K × Nat) : Nat × Nat × K :=
  if Tol.fne tol (nth cr.1 column) 0 then (acc.1 + 1, cr.2, nth cr.1 column) else acc

theorem scan_mono (tol : K) (column : Nat) : ∀ (l : List (List K)) (k : Nat) (acc : Nat × Nat × K),
    acc.1 ≤ ((l.zipIdx k).foldl (colScan tol column) acc).1
  | [], _, _ => by simp
  | x :: xs, k, acc => by
    simp only [List.zipIdx_cons, List.foldl_cons]
    refine le_trans ?_ (scan_mono tol column xs (k+1) _)
    unfold colScan; split <;> simp

/-- what the scan returns: unchanged when the column is zero on `l`; position and value of the entry when
exactly one entry is non-zero. -/
theorem scan_spec (tol : K) (column : Nat) (P : K → Prop) (hP : ∀ (r : List K), Tol.fne tol (nth r column) 0 = true ↔ P (nth r column)) :
    ∀ (l : List (List K)) (k : Nat) (acc : Nat × Nat × K),
      (((l.zipIdx k).foldl (colScan tol column) acc).1 = acc.1 →
        (l.zipIdx k).foldl (colScan tol column) acc = acc ∧ ∀ j, j < l.length → ¬ P (nth (row l j) column)) ∧
      (((l.zipIdx k).foldl (colScan tol column) acc).1 = acc.1 + 1 →
        ∃ j, j < l.length ∧ ((l.zipIdx k).foldl (colScan tol column) acc).2.1 = k + j ∧
          ((l.zipIdx k).foldl (colScan tol column) acc).2.2 = nth (row l j) column ∧ P (nth (row l j) column) ∧
          ∀ j', j' < l.length → j' ≠ j → ¬ P (nth (row l j') column))
  | [], k, acc => by simp
  | x :: xs, k, acc => by
    simp only [List.zipIdx_cons, List.foldl_cons]
    by_cases hx : Tol.fne tol (nth x column) 0 = true
    · have hacc : colScan tol column acc (x, k) = (acc.1 + 1, k, nth x column) := by simp [colScan, hx]
      rw [hacc]
      have hm := scan_mono tol column xs (k+1) (acc.1 + 1, k, nth x column)
      have ih := scan_spec tol column P hP xs (k+1) (acc.1 + 1, k, nth x column)
      constructor
      · intro h
        have hm' : acc.1 + 1 ≤ (List.foldl (colScan tol column) (acc.1 + 1, k, nth x column) (xs.zipIdx (k + 1))).1 := hm
        omega
      · intro h
        obtain ⟨he, hz⟩ := ih.1 h
        refine ⟨0, by simp, by rw [he]; simp, by rw [he]; simp [row], by simpa [row] using (hP x).1 hx, ?_⟩
        intro j' hj' hne
        cases j' with
        | zero => exact absurd rfl hne
        | succ j' => simpa [row] using hz j' (by simpa using hj')
    · have hacc : colScan tol column acc (x, k) = acc := by simp [colScan, hx]
      rw [hacc]
      have ih := scan_spec tol column P hP xs (k+1) acc
      have hx' : ¬ P (nth x column) := fun h => hx ((hP x).2 h)
      constructor
      · intro h
        obtain ⟨he, hz⟩ := ih.1 h
        refine ⟨he, ?_⟩
        intro j hj
        cases j with
        | zero => simpa [row] using hx'
        | succ j => simpa [row] using hz j (by simpa using hj)
      · intro h
        obtain ⟨j, hj, h1, h2, h3, h4⟩ := ih.2 h
        refine ⟨j+1, by simpa using hj, by rw [h1]; omega, by rw [h2]; simp [row], by simpa [row] using h3, ?_⟩
        intro j' hj' hne
        cases j' with
        | zero => simpa [row] using hx'
        | succ j' => simpa [row] using h4 j' (by simpa using hj') (by omega)

theorem independentColumns_eq (tol : K) (n : Nat) (a : List (List K)) :
    independentColumns tol n a = (List.range n).filterMap fun column =>
      let res := a.zipIdx.foldl (colScan tol column) (0, 0, 0)
      if res.1 == 1 && Tol.fgt tol res.2.2 0 then some { row := res.2.1, column := column, value := res.2.2 } else none := by
  unfold independentColumns colScan
  simp only [ExactK.zero_eq]

/-- **what an "independent variable" is** (under `NoSubTol`): a column with a single non-zero entry, which is
positive; the record carries its row and value. -/
theorem mem_independentColumns {tol : K} (ht : 0 < tol) {n : Nat} {a : List (List K)} (hN : NoSubTol tol a)
    {iv : Indep K} (h : iv ∈ independentColumns tol n a) :
    iv.column < n ∧ iv.row < a.length ∧ nth (row a iv.row) iv.column = iv.value ∧ 0 < iv.value ∧
      ∀ i, i < a.length → i ≠ iv.row → nth (row a i) iv.column = 0 := by
  rw [independentColumns_eq, List.mem_filterMap] at h
  obtain ⟨column, hcol, hsome⟩ := h
  simp only at hsome
  split at hsome
  · rename_i hcond
    cases hsome
    simp only [Bool.and_eq_true, beq_iff_eq] at hcond
    have hP : ∀ (r : List K), Tol.fne tol (nth r column) 0 = true ↔ (fun x => Tol.fne tol x 0 = true) (nth r column) := fun r => Iff.rfl
    obtain ⟨j, hj, h1, h2, h3, h4⟩ := (scan_spec tol column (fun x => Tol.fne tol x 0 = true) hP a 0 (0, 0, 0)).2 (by simpa using hcond.1)
    simp only [Nat.zero_add] at h1
    refine ⟨List.mem_range.1 hcol, by rw [h1]; exact hj, by rw [h1, h2], ExactK.fgt_zero_pos hcond.2, ?_⟩
    intro i hi hne
    rw [h1] at hne
    have := h4 i hi hne
    by_contra hc
    exact this ((fne_iff_ne ht hN i column).2 hc)
  · cases hsome

/-! ### one variable per row -/

theorem filterMap_full {β γ : Type} (f : β → Option γ) : ∀ (l : List β), (l.filterMap f).length = l.length →
    ∀ k, (hk : k < l.length) → ∃ (hk' : k < (l.filterMap f).length), f l[k] = some (l.filterMap f)[k]
  | [], _, k, hk => by simp at hk
  | x :: xs, h, k, hk => by
    cases hf : f x with
    | none =>
      have := List.length_filterMap_le f xs
      simp only [List.filterMap_cons, hf, List.length_cons] at h
      omega
    | some y =>
      simp only [List.filterMap_cons, hf, List.length_cons, Nat.add_right_cancel_iff] at h
      cases k with
      | zero => exact ⟨by simp [List.filterMap_cons, hf], by simp [List.filterMap_cons, hf]⟩
      | succ k =>
        obtain ⟨hk', e⟩ := filterMap_full f xs h k (by simpa using hk)
        exact ⟨by simp [List.filterMap_cons, hf]; omega, by simpa [List.filterMap_cons, hf] using e⟩

/-- when `selectPerRow` covers all rows, its `k`-th element is a usable variable of row `k`. -/
theorem selectPerRow_spec {m : Nat} {vars : List (Indep K)} (h : (selectPerRow m vars).length = m) (k : Nat) (hk : k < m) :
    ∃ iv ∈ vars, iv.row = k ∧ (selectPerRow m vars)[k]? = some iv := by
  unfold selectPerRow at h ⊢
  obtain ⟨hk', e⟩ := filterMap_full (fun r => vars.find? (·.row == r)) (List.range m) (by simpa using h) k (by simpa using hk)
  simp only [List.getElem_range] at e
  refine ⟨_, List.mem_of_find?_eq_some e, ?_, by rw [List.getElem?_eq_getElem hk']⟩
  have := List.find?_some e
  simpa using this

end Start
end Rooc
