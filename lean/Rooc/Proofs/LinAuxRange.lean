/-
C08, auxiliary ranges: the range the linearizer declares for an auxiliary contains the value of its defining
expression (wherever the operands lie in their boxes), and a range that contains a value is PROPER (no NaN end,
lower ≠ +inf, upper ≠ −inf, lower ≤ upper).  For a feasible model every published domain is inhabited, hence
proper.
-/
import Rooc.Proofs.LinOpt

set_option linter.unusedSectionVars false
set_option linter.unusedSimpArgs false
set_option linter.unusedVariables false

namespace Rooc.LinP
open Rooc Rooc.Lin Rooc.Sem Rooc.Exp
open Rooc.Lin.Gadget (B01)

variable {K : Type} [Field K] [LinearOrder K] [IsStrictOrderedRing K] [FloorRing K]

/-- a proper range: ends are not NaN, the lower end is not `+inf`, the upper end is not `−inf`, and finite ends
are ordered. -/
structure ProperRange (lo hi : Ext K) : Prop where
  lower : lo = Ext.ninf ∨ ∃ a, lo = Ext.fin a
  upper : hi = Ext.pinf ∨ ∃ b, hi = Ext.fin b
  ordered : ∀ a b, lo = Ext.fin a → hi = Ext.fin b → a ≤ b

/-- a range that encloses a value is proper. -/
theorem Encl.proper {lo hi : Ext K} {v : K} (h : Encl ⟨lo, hi⟩ v) : ProperRange lo hi := by
  obtain ⟨h1, h2⟩ := h
  refine ⟨?_, ?_, ?_⟩
  · cases lo <;> simp_all [lowerOK]
  · cases hi <;> simp_all [upperOK]
  · intro a b ha hb; subst ha; subst hb
    simp only [lowerOK, upperOK] at h1 h2; exact le_trans h1 h2

/-- the declared type of a variable that has a value in it is proper (Boolean and integer types always are). -/
def ProperTy : VarType (Ext K) → Prop
  | .real lo hi => ProperRange lo hi
  | .nnreal lo hi => ProperRange lo hi
  | _ => True

theorem properTy_of_inDomain {ty : VarType (Ext K)} {x : K} (h : inDomain x ty = true) : ProperTy ty := by
  cases ty with
  | bool => trivial
  | int lo hi => trivial
  | real lo hi => exact ((inDomain_real_iff x lo hi).mp h).proper
  | nnreal lo hi =>
    simp only [inDomain, Bool.and_eq_true, geExt_iff, leExt_iff] at h
    exact Encl.proper (v := x) ⟨h.1, h.2⟩

/-! ### the ranges of the auxiliaries contain their defining expressions -/

/-- `$abs_k` is declared `NonNegativeReal(0, max(−l, u))` where `[l, u]` is the box of the operand: it contains
`|w|` for every operand value `w` in the box. -/
theorem abs_aux_range {b : Lin.Bounds (Ext K)} {w : K} (h : Encl b w) :
    inDomain |w| (.nnreal (Arith.zero : Ext K) (Arith.fmax (Arith.neg b.lower) b.upper)) = true := by
  simp only [inDomain, Bool.and_eq_true, geExt_iff, leExt_iff, ar_zero]
  exact ⟨by simp [lowerOK], fmax_neg_upper (l := b.lower) (u := b.upper) h⟩

/-- `$max_k` / `$min_k` is declared `Real(lo, hi)` with `[lo, hi] = bounds_of (max / min of the retained
operands)`: it contains the value of that expression at every assignment in the box (C07's enclosure). -/
theorem extreme_aux_range {bm : BoundsMap (Ext K)} {ρ : String → K} (hbox : BoxOK ρ bm) {e : Exp (Ext K)} {v : K}
    (hv : eval ρ e = some v) :
    inDomain v (.real (boundsOf bm e).lower (boundsOf bm e).upper) = true :=
  (inDomain_real_iff _ _ _).mpr (boundsOracle bm ρ e v hbox hv)

/-- a Boolean auxiliary (`$and_k`, `$or_k`, …, selectors, witnesses) contains every truth value. -/
theorem bool_aux_range (b : Bool) : inDomain (ofBool b : K) (.bool : VarType (Ext K)) = true := by
  cases b <;> simp [inDomain, ofBool]

/-! ### every published domain of a feasible model is inhabited, hence proper -/

theorem domains_inhabited {lm : LinModel (Ext K)} {ρ' : String → K} (h : linFeasible lm ρ' = true) :
    ∀ dv ∈ lm.domain, inDomain (ρ' dv.name) dv.ty = true := by
  simp only [linFeasible, Bool.and_eq_true, List.all_eq_true] at h
  exact h.2

/-- **for a feasible source model every domain of the compiled model — source variables and auxiliaries — is
inhabited and proper.** -/
theorem compiled_domains_proper {m : Model (Ext K)} {lm : LinModel (Ext K)} (L : ObjLink m lm)
    (hfeas : ∃ ρ : String → K, srcFeasible m ρ = true) :
    ∀ dv ∈ lm.domain, ProperTy dv.ty ∧ ∃ x : K, inDomain x dv.ty = true := by
  obtain ⟨ρ', hf⟩ := L.empty_iff.mp hfeas
  intro dv hdv
  have := domains_inhabited hf dv hdv
  exact ⟨properTy_of_inDomain this, _, this⟩

/-- the same for the whole pipeline. -/
theorem compile_domains_proper {m : Model (Ext K)} {t : K} (ht : 0 ≤ t) {maxSteps : Nat} {lm : LinModel (Ext K)}
    (h : Compile.linearize m (.fin t) maxSteps = .ok lm)
    (hm : LogicModel m m.domain) (hsh : AssertShape m) (hok : DeclOK m.domain)
    (ht1 : t < 1 ∨ NoIntVars m.domain) (hfeas : ∃ ρ : String → K, srcFeasible m ρ = true) :
    ∀ dv ∈ lm.domain, ProperTy dv.ty ∧ ∃ x : K, inDomain x dv.ty = true :=
  compiled_domains_proper (objLink_of_compile ht h hm hsh hok ht1) hfeas

end Rooc.LinP
