/-
Bridge C07 → C01, part 2: through `analyze` the box of every variable only shrinks, stays free of NaN,
and the entries of Boolean variables are never touched.
-/
import Rooc.Proofs.LinBridgeFrame

set_option linter.unusedTactic false
set_option linter.unreachableTactic false
set_option linter.unnecessarySeqFocus false
set_option linter.unusedSimpArgs false
set_option linter.unusedVariables false
set_option linter.unusedSectionVars false

namespace Rooc.LinP
open Rooc Rooc.BoundsProofs Rooc.BoundsSem Arith

variable {K : Type} [Field K] [LinearOrder K] [IsStrictOrderedRing K] [FloorRing K]

def NoNaNB (b : Bounds (Ext K)) : Prop := b.lower ≠ .nan ∧ b.upper ≠ .nan
def NoNaNvb (vb : List (String × Bounds (Ext K))) : Prop := ∀ name, NoNaNB (Analyzer.varBounds vb name)

theorem LB_of_fmax_left {a c : Ext K} {x : K} (ha : a ≠ .nan) (h : LB (Ext.fmax a c) x) : LB a x := by
  cases a with
  | nan => exact absurd rfl ha
  | ninf => simp [LB, Ext.le]
  | pinf => cases c <;> simp [Ext.fmax, Ext.isNaN, Ext.lt, LB, Ext.le] at h
  | fin p =>
    cases c with
    | nan => simpa [Ext.fmax, Ext.isNaN] using h
    | ninf => simpa [Ext.fmax, Ext.isNaN, Ext.lt] using h
    | pinf => simp [Ext.fmax, Ext.isNaN, Ext.lt, LB, Ext.le] at h
    | fin q =>
      simp only [Ext.fmax, Ext.isNaN, Ext.lt, ef_lt, Bool.false_eq_true, if_false] at h
      by_cases hpq : p < q
      · simp only [hpq, decide_true, if_true, LB, Ext.le, ef_le, decide_eq_true_eq] at h
        simp only [LB, Ext.le, ef_le, decide_eq_true_eq]; linarith
      · simpa [hpq] using h

theorem UB_of_fmin_left {a c : Ext K} {x : K} (ha : a ≠ .nan) (h : UB (Ext.fmin a c) x) : UB a x := by
  cases a with
  | nan => exact absurd rfl ha
  | pinf => simp [UB, Ext.le]
  | ninf => cases c <;> simp [Ext.fmin, Ext.isNaN, Ext.lt, UB, Ext.le] at h
  | fin p =>
    cases c with
    | nan => simpa [Ext.fmin, Ext.isNaN] using h
    | pinf => simpa [Ext.fmin, Ext.isNaN, Ext.lt] using h
    | ninf => simp [Ext.fmin, Ext.isNaN, Ext.lt, UB, Ext.le] at h
    | fin q =>
      simp only [Ext.fmin, Ext.isNaN, Ext.lt, ef_lt, Bool.false_eq_true, if_false] at h
      by_cases hpq : q < p
      · simp only [hpq, decide_true, if_true, UB, Ext.le, ef_le, decide_eq_true_eq] at h
        simp only [UB, Ext.le, ef_le, decide_eq_true_eq]; linarith
      · simpa [hpq] using h

theorem fmax_ne_nan {a c : Ext K} (ha : a ≠ .nan) : Ext.fmax a c ≠ .nan := by
  cases a <;> cases c <;> simp_all [Ext.fmax, Ext.isNaN] <;> split <;> simp
theorem fmin_ne_nan {a c : Ext K} (ha : a ≠ .nan) : Ext.fmin a c ≠ .nan := by
  cases a <;> cases c <;> simp_all [Ext.fmin, Ext.isNaN] <;> split <;> simp

theorem intersection_shrinks {a c t : Bounds (Ext K)} {tol : Ext K} (ha : NoNaNB a)
    (h : a.intersection c tol = some t) : NoNaNB t ∧ ∀ x, Mem x t → Mem x a := by
  simp only [Bounds.intersection, a_fmax, a_fmin, a_le, a_sub] at h
  split at h
  · cases h
    exact ⟨⟨fmax_ne_nan ha.1, fmin_ne_nan ha.2⟩,
      fun x hx => ⟨LB_of_fmax_left ha.1 hx.1, UB_of_fmin_left ha.2 hx.2⟩⟩
  · split at h
    · cases h; exact ⟨ha, fun _ hx => hx⟩
    · cases h

/-- the relation carried through the propagation. -/
def Shr (an an' : Analyzer (Ext K)) : Prop :=
  an'.booleanVariables = an.booleanVariables ∧
  (NoNaNvb an.variableBounds → NoNaNvb an'.variableBounds ∧
    ∀ name x, Mem x (Analyzer.varBounds an'.variableBounds name) → Mem x (Analyzer.varBounds an.variableBounds name)) ∧
  (∀ name, an.booleanVariables.contains name = true →
    AList.get? an'.variableBounds name = AList.get? an.variableBounds name)

theorem shr_frameRel : FrameRel (Shr (K := K)) where
  refl an := ⟨rfl, fun h => ⟨h, fun _ _ hx => hx⟩, fun _ _ => rfl⟩
  trans := by
    rintro a b c ⟨h1, h2, h3⟩ ⟨g1, g2, g3⟩
    refine ⟨g1.trans h1, fun hn => ?_, fun name hb => ?_⟩
    · obtain ⟨hnb, hsb⟩ := h2 hn
      obtain ⟨hnc, hsc⟩ := g2 hnb
      exact ⟨hnc, fun name x hx => hsb name x (hsc name x hx)⟩
    · rw [g3 name (by rw [h1]; exact hb), h3 name hb]
  mark an := ⟨rfl, fun h => ⟨h, fun _ _ hx => hx⟩, fun _ _ => rfl⟩
  limit an := ⟨rfl, fun h => ⟨h, fun _ _ hx => hx⟩, fun _ _ => rfl⟩
  tighten an name cand := by
    unfold Analyzer.tightenVariable
    split
    · exact ⟨rfl, fun h => ⟨h, fun _ _ hx => hx⟩, fun _ _ => rfl⟩
    · rename_i hnb
      dsimp only
      split
      · exact ⟨rfl, fun h => ⟨h, fun _ _ hx => hx⟩, fun _ _ => rfl⟩
      · rename_i t ht
        split
        · refine ⟨rfl, fun hn => ?_, fun name' hb' => ?_⟩
          · obtain ⟨hnt, hst⟩ := intersection_shrinks (hn name) ht
            refine ⟨fun name' => ?_, fun name' x hx => ?_⟩
            · simp only [varBounds_insert]; split
              · exact hnt
              · exact hn name'
            · simp only [varBounds_insert] at hx
              split at hx
              · rename_i h; subst h; exact hst x hx
              · exact hx
          · simp only [get?_insert]
            split
            · rename_i h; subst h; exact absurd hb' hnb
            · rfl
        · exact ⟨rfl, fun h => ⟨h, fun _ _ hx => hx⟩, fun _ _ => rfl⟩

theorem analyze_shr (domain : List (DomVar (Ext K))) (cs : List (Constraint (Ext K))) (tol : Ext K) (maxSteps : Nat) :
    Shr (Analyzer.fromDomain domain tol) (Analyzer.analyze domain cs tol maxSteps) :=
  analyze_frame shr_frameRel domain cs tol maxSteps

end Rooc.LinP
