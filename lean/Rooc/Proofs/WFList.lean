/-
C08 helpers — pure list facts used by the tail of `Linearizer::linearize`:
`sortStr` (Rust `Vec<String>::sort`), the decidable checks `WF.sortedStrict` / `WF.noDup`,
`extractCoeffs` (length), `indexOf`.
-/
import Rooc.Linearize
import Rooc.WellFormed
import Mathlib.Data.String.Basic
import Mathlib.Data.List.Basic

namespace Rooc
namespace WFList
open Rooc.Lin

/-! ### the decidable checks, as `Prop`s -/

theorem noDup_iff (l : List String) : WF.noDup l = true ↔ l.Nodup := by
  induction l with
  | nil => simp [WF.noDup]
  | cons x xs ih => simp [WF.noDup, ih, List.nodup_cons]

theorem sortedStrict_iff (l : List String) : WF.sortedStrict l = true ↔ l.Pairwise (· < ·) := by
  induction l with
  | nil => simp [WF.sortedStrict]
  | cons a t ih =>
    cases t with
    | nil => simp [WF.sortedStrict]
    | cons b rest =>
      simp only [WF.sortedStrict, Bool.and_eq_true, decide_eq_true_eq, ih]
      constructor
      · rintro ⟨hab, hp⟩
        refine List.pairwise_cons.mpr ⟨?_, hp⟩
        intro c hc
        rcases List.mem_cons.mp hc with rfl | hc
        · exact hab
        · exact lt_trans hab ((List.pairwise_cons.mp hp).1 c hc)
      · intro hp
        exact ⟨(List.pairwise_cons.mp hp).1 b (by simp), (List.pairwise_cons.mp hp).2⟩

theorem nodup_of_sortedStrict {l : List String} (h : WF.sortedStrict l = true) : l.Nodup :=
  ((sortedStrict_iff l).mp h).imp (fun hab => ne_of_lt hab)

/-! ### `insertSortedDup` / `sortStr` -/

theorem insertSortedDup_perm (x : String) (ys : List String) :
    (insertSortedDup x ys).Perm (x :: ys) := by
  induction ys with
  | nil => simp [insertSortedDup]
  | cons y ys ih =>
    simp only [insertSortedDup]
    split
    · exact List.Perm.refl _
    · exact (List.Perm.cons y ih).trans (List.Perm.swap x y ys)

theorem mem_insertSortedDup {x a : String} {ys : List String} :
    a ∈ insertSortedDup x ys ↔ a = x ∨ a ∈ ys := by
  rw [(insertSortedDup_perm x ys).mem_iff]; simp

theorem insertSortedDup_sorted (x : String) (ys : List String) (h : ys.Pairwise (· ≤ ·)) :
    (insertSortedDup x ys).Pairwise (· ≤ ·) := by
  induction ys with
  | nil => simp [insertSortedDup]
  | cons y ys ih =>
    simp only [insertSortedDup]
    have hy := List.pairwise_cons.mp h
    split
    · rename_i hxy
      refine List.pairwise_cons.mpr ⟨?_, h⟩
      intro c hc
      rcases List.mem_cons.mp hc with rfl | hc
      · exact le_of_lt hxy
      · exact le_trans (le_of_lt hxy) (hy.1 c hc)
    · rename_i hxy
      refine List.pairwise_cons.mpr ⟨?_, ih hy.2⟩
      intro c hc
      rcases mem_insertSortedDup.mp hc with rfl | hc
      · exact not_lt.mp hxy
      · exact hy.1 c hc

theorem sortStr_foldl_perm (xs acc : List String) :
    (xs.foldl (fun acc x => insertSortedDup x acc) acc).Perm (xs.reverse ++ acc) := by
  induction xs generalizing acc with
  | nil => simp
  | cons x xs ih =>
    simp only [List.foldl_cons, List.reverse_cons, List.append_assoc, List.singleton_append]
    exact (ih _).trans (List.Perm.append_left _ (insertSortedDup_perm x acc))

theorem sortStr_perm (xs : List String) : (sortStr xs).Perm xs := by
  have := sortStr_foldl_perm xs []
  simp only [List.append_nil] at this
  exact this.trans (List.reverse_perm xs)

theorem mem_sortStr {a : String} {xs : List String} : a ∈ sortStr xs ↔ a ∈ xs :=
  (sortStr_perm xs).mem_iff

theorem length_sortStr (xs : List String) : (sortStr xs).length = xs.length :=
  (sortStr_perm xs).length_eq

theorem sortStr_foldl_sorted (xs acc : List String) (h : acc.Pairwise (· ≤ ·)) :
    (xs.foldl (fun acc x => insertSortedDup x acc) acc).Pairwise (· ≤ ·) := by
  induction xs generalizing acc with
  | nil => simpa
  | cons x xs ih => exact ih _ (insertSortedDup_sorted x acc h)

theorem sortStr_sorted (xs : List String) : (sortStr xs).Pairwise (· ≤ ·) :=
  sortStr_foldl_sorted xs [] List.Pairwise.nil

/-- a duplicate-free list is sorted STRICTLY by `sortStr`. -/
theorem sortStr_sortedStrict {xs : List String} (h : xs.Nodup) :
    WF.sortedStrict (sortStr xs) = true := by
  rw [sortedStrict_iff]
  have hn : (sortStr xs).Nodup := (sortStr_perm xs).nodup_iff.mpr h
  have hs := sortStr_sorted xs
  exact (hs.and hn).imp (fun ⟨hle, hne⟩ => lt_of_le_of_ne hle hne)

theorem contains_sortStr (xs : List String) (a : String) : (sortStr xs).contains a = xs.contains a := by
  rw [Bool.eq_iff_iff]; simp [mem_sortStr]

/-! ### `extractCoeffs` -/

variable {α : Type} [Arith α]

theorem length_extractCoeffs (e : List (String × α)) (vars : List String) :
    (extractCoeffs e vars).length = vars.length := by
  unfold extractCoeffs
  have key : ∀ (f : List α → String × α → List α), (∀ v p, (f v p).length = v.length) →
      ∀ (e : List (String × α)) (init : List α), (e.foldl f init).length = init.length := by
    intro f hf e
    induction e with
    | nil => simp
    | cons p ps ih => intro init; simp only [List.foldl_cons]; rw [ih, hf]
  rw [key]
  · simp
  · intro v p
    obtain ⟨n, x⟩ := p
    dsimp only
    split <;> simp

end WFList
end Rooc
