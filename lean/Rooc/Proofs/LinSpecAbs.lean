/-
Stage C, part 3: `abs` — sign-known shortcuts, the one-sided rows, the exact big-M pair with selector.
-/
import Rooc.Proofs.LinSpecState

set_option linter.unusedSectionVars false
set_option linter.unusedSimpArgs false
set_option linter.unusedVariables false

namespace Rooc.LinP
open Rooc Rooc.Lin Rooc.Sem Rooc.Exp
open Rooc.Lin.Gadget (B01)

variable {K : Type} [Field K] [LinearOrder K] [IsStrictOrderedRing K] [FloorRing K]
variable {Src : Constraint (Ext K) → Prop}

/-- one call followed by a gadget (fresh declarations + pushed constraints). -/
theorem Spec.extend {e1 e : Exp (Ext K)} {req1 req : Req} {s s1 sF : St (Ext K)} {cA c : Ctx (Ext K)}
    {decls : List (DomVar (Ext K))} {new : List (Constraint (Ext K))}
    (A : Spec Src e1 req1 s cA s1) (F : Frame s1 sF decls new) (hinvF : StInv Src sF)
    (hcok : CtxOK c) (hcn : ∀ x ∈ ctxNames c, inScope sF.domain x)
    (hev : ∀ x ∈ varsOf e, inScope s.domain x) (hev1 : ∀ x ∈ varsOf e1, inScope s.domain x)
    (hstrict : ∀ (ρ : String → K) v, eval ρ e = some v → ∃ v1, eval ρ e1 = some v1)
    (hs : ∀ (ρ : String → K) v v1, DomSat ρ s1.domain → DomSat ρ decls →
      (∀ c ∈ new, constraintHolds ρ c = true) → eval ρ e = some v → eval ρ e1 = some v1 →
      rel req1 (ctxVal ρ cA) v1 → rel req (ctxVal ρ c) v)
    (hc : ∀ (ρ1 : String → K) v v1, DomSat ρ1 s1.domain → eval ρ1 e = some v → eval ρ1 e1 = some v1 →
      ctxVal ρ1 cA = v1 →
      ∃ ρ2 : String → K, (∀ x, inScope s1.domain x → ρ2 x = ρ1 x) ∧ DomSat ρ2 decls ∧
        (∀ c ∈ new, constraintHolds ρ2 c = true) ∧ ctxVal ρ2 c = v) :
    Spec Src e req s c sF := by
  obtain ⟨dA, hdA⟩ := A.dom
  obtain ⟨qA, hqA⟩ := A.queue
  refine
  { rows := by rw [F.rows, A.rows]
    dom := ⟨dA ++ decls, by rw [F.dom, hdA, List.append_assoc]⟩
    queue := ⟨new ++ qA, by rw [F.queue, hqA, List.append_assoc]⟩
    inv := hinvF, cok := hcok, cnames := hcn, sound := ?_, complete := ?_ }
  · intro ρ hd hq v hv
    obtain ⟨h1, h2, h3, h4⟩ := F.keeps hd hq
    obtain ⟨v1, hv1⟩ := hstrict ρ v hv
    exact hs ρ v v1 h1 h2 h4 hv hv1 (A.sound ρ h1 h3 v1 hv1)
  · intro ρ hd hq v hv
    obtain ⟨v1, hv1⟩ := hstrict ρ v hv
    obtain ⟨ρ1, hag1, hdm1, hqs1, hval1⟩ := A.complete ρ hd hq v1 hv1
    have hv' : eval ρ1 e = some v := by rw [eval_congr e (fun x hx => hag1 x (hev x hx))]; exact hv
    have hv1' : eval ρ1 e1 = some v1 := by rw [eval_congr e1 (fun x hx => hag1 x (hev1 x hx))]; exact hv1
    obtain ⟨ρ2, hag2, hdec, hnew, hval2⟩ := hc ρ1 v v1 hdm1 hv' hv1' hval1
    obtain ⟨hdF, hqF⟩ := F.lift A.inv hdm1 hqs1 hag2 hdec hnew
    exact ⟨ρ2, fun x hx => by rw [hag2 x (A.scopeMono hx), hag1 x hx], hdF, hqF, hval2⟩

/-! ### semantics of `abs` -/

theorem kabs_eq (a : K) : kabs a = |a| := by
  unfold kabs
  by_cases h : a < 0
  · simp [h, abs_of_neg h]
  · simp [h, abs_of_nonneg (not_lt.mp h)]

theorem eval_abs_some {ρ : String → K} {e : Exp (Ext K)} {v : K} (h : eval ρ (.abs e) = some v) :
    ∃ w, eval ρ e = some w ∧ v = |w| := by
  rw [eval] at h
  cases he : eval ρ e with
  | none => simp [he] at h
  | some w => exact ⟨w, rfl, by simpa [he, kabs_eq, eq_comm] using h⟩

theorem DefinedE.abs {e : Exp (Ext K)} (h : DefinedE (.abs e)) : DefinedE e := by
  intro ρ; obtain ⟨v, hv⟩ := h ρ; obtain ⟨w, hw, _⟩ := eval_abs_some hv; exact ⟨w, hw⟩

/-- `ib.lower ≥ 0` (as the Rust tests it) and an enclosed value: the value is non-negative. -/
theorem nonneg_of_lower {b : Bounds (Ext K)} {w : K} (h : Arith.ge b.lower (Arith.zero : Ext K) = true)
    (he : Encl b w) : 0 ≤ w := by
  obtain ⟨hl, _⟩ := he
  rw [ar_zero] at h
  cases hb : b.lower with
  | fin a =>
    rw [hb] at h hl
    simp only [lowerOK] at hl
    simp at h
    exact le_trans h hl
  | ninf => rw [hb] at h; exact absurd h (by simp [show Arith.ge (Ext.ninf : Ext K) (Ext.fin 0) = false from rfl])
  | pinf => rw [hb] at hl; exact absurd hl (by simp [lowerOK])
  | nan => rw [hb] at hl; exact absurd hl (by simp [lowerOK])

theorem nonpos_of_upper {b : Bounds (Ext K)} {w : K} (h : Arith.le b.upper (Arith.zero : Ext K) = true)
    (he : Encl b w) : w ≤ 0 := by
  obtain ⟨_, hu⟩ := he
  rw [ar_zero] at h
  cases hb : b.upper with
  | fin a =>
    rw [hb] at h hu
    simp only [upperOK] at hu
    simp at h
    exact le_trans hu h
  | pinf => rw [hb] at h; exact absurd h (by simp [show Arith.le (Ext.pinf : Ext K) (Ext.fin 0) = false from rfl])
  | ninf => rw [hb] at hu; exact absurd hu (by simp [upperOK])
  | nan => rw [hb] at hu; exact absurd hu (by simp [upperOK])

end Rooc.LinP
