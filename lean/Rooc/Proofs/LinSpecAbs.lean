/-
Stage C, part 3: `abs` — sign-known shortcuts, the one-sided rows, the exact big-M pair with selector.
-/
import Rooc.Proofs.LinSpecState

set_option linter.unusedSectionVars false
set_option linter.unusedSimpArgs false
set_option linter.unusedVariables false

namespace Rooc.LinP
open Rooc Rooc.Lin Rooc.Sem Rooc.Exp
open Rooc.Lin.Gadget (B01)

variable {K : Type} [Field K] [LinearOrder K] [IsStrictOrderedRing K] [FloorRing K]
variable {Src : Constraint (Ext K) → Prop}

/-- one call followed by a gadget (fresh declarations + pushed constraints). -/
theorem Spec.extend {e1 e : Exp (Ext K)} {req1 req : Req} {s s1 sF : St (Ext K)} {cA c : Ctx (Ext K)}
    {decls : List (DomVar (Ext K))} {new : List (Constraint (Ext K))}
    (A : Spec Src e1 req1 s cA s1) (F : Frame s1 sF decls new) (hinvF : StInv Src sF)
    (hcok : CtxOK c) (hcn : ∀ x ∈ ctxNames c, inScope sF.domain x)
    (hev : ∀ x ∈ varsOf e, inScope s.domain x) (hev1 : ∀ x ∈ varsOf e1, inScope s.domain x)
    (hstrict : ∀ (ρ : String → K) v, eval ρ e = some v → ∃ v1, eval ρ e1 = some v1)
    (hs : ∀ (ρ : String → K) v v1, DomSat ρ s1.domain → DomSat ρ decls →
      (∀ c ∈ new, constraintHolds ρ c = true) → eval ρ e = some v → eval ρ e1 = some v1 →
      rel req1 (ctxVal ρ cA) v1 → rel req (ctxVal ρ c) v)
    (hc : ∀ (ρ1 : String → K) v v1, DomSat ρ1 s1.domain → eval ρ1 e = some v → eval ρ1 e1 = some v1 →
      ctxVal ρ1 cA = v1 →
      ∃ ρ2 : String → K, (∀ x, inScope s1.domain x → ρ2 x = ρ1 x) ∧ DomSat ρ2 decls ∧
        (∀ c ∈ new, constraintHolds ρ2 c = true) ∧ ctxVal ρ2 c = v) :
    Spec Src e req s c sF := by
  obtain ⟨dA, hdA⟩ := A.dom
  obtain ⟨qA, hqA⟩ := A.queue
  refine
  { rows := by rw [F.rows, A.rows]
    dom := ⟨dA ++ decls, by rw [F.dom, hdA, List.append_assoc]⟩
    queue := ⟨new ++ qA, by rw [F.queue, hqA, List.append_assoc]⟩
    inv := hinvF, cok := hcok, cnames := hcn, sound := ?_, complete := ?_ }
  · intro ρ hd hq v hv
    obtain ⟨h1, h2, h3, h4⟩ := F.keeps hd hq
    obtain ⟨v1, hv1⟩ := hstrict ρ v hv
    exact hs ρ v v1 h1 h2 h4 hv hv1 (A.sound ρ h1 h3 v1 hv1)
  · intro ρ hd hq v hv
    obtain ⟨v1, hv1⟩ := hstrict ρ v hv
    obtain ⟨ρ1, hag1, hdm1, hqs1, hval1⟩ := A.complete ρ hd hq v1 hv1
    have hv' : eval ρ1 e = some v := by rw [eval_congr e (fun x hx => hag1 x (hev x hx))]; exact hv
    have hv1' : eval ρ1 e1 = some v1 := by rw [eval_congr e1 (fun x hx => hag1 x (hev1 x hx))]; exact hv1
    obtain ⟨ρ2, hag2, hdec, hnew, hval2⟩ := hc ρ1 v v1 hdm1 hv' hv1' hval1
    obtain ⟨hdF, hqF⟩ := F.lift A.inv hdm1 hqs1 hag2 hdec hnew
    exact ⟨ρ2, fun x hx => by rw [hag2 x (A.scopeMono hx), hag1 x hx], hdF, hqF, hval2⟩

/-! ### semantics of `abs` -/

theorem kabs_eq (a : K) : kabs a = |a| := by
  unfold kabs
  by_cases h : a < 0
  · simp [h, abs_of_neg h]
  · simp [h, abs_of_nonneg (not_lt.mp h)]

theorem eval_abs_some {ρ : String → K} {e : Exp (Ext K)} {v : K} (h : eval ρ (.abs e) = some v) :
    ∃ w, eval ρ e = some w ∧ v = |w| := by
  rw [eval] at h
  cases he : eval ρ e with
  | none => simp [he] at h
  | some w => exact ⟨w, rfl, by simpa [he, kabs_eq, eq_comm] using h⟩

theorem DefinedE.abs {e : Exp (Ext K)} (h : DefinedE (.abs e)) : DefinedE e := by
  intro ρ; obtain ⟨v, hv⟩ := h ρ; obtain ⟨w, hw, _⟩ := eval_abs_some hv; exact ⟨w, hw⟩

/-- `ib.lower ≥ 0` (as the Rust tests it) and an enclosed value: the value is non-negative. -/
theorem nonneg_of_lower {b : Bounds (Ext K)} {w : K} (h : Arith.ge b.lower (Arith.zero : Ext K) = true)
    (he : Encl b w) : 0 ≤ w := by
  obtain ⟨hl, _⟩ := he
  rw [ar_zero] at h
  cases hb : b.lower with
  | fin a =>
    rw [hb] at h hl
    simp only [lowerOK] at hl
    simp at h
    exact le_trans h hl
  | ninf => rw [hb] at h; exact absurd h (by simp [show Arith.ge (Ext.ninf : Ext K) (Ext.fin 0) = false from rfl])
  | pinf => rw [hb] at hl; exact absurd hl (by simp [lowerOK])
  | nan => rw [hb] at hl; exact absurd hl (by simp [lowerOK])

theorem nonpos_of_upper {b : Bounds (Ext K)} {w : K} (h : Arith.le b.upper (Arith.zero : Ext K) = true)
    (he : Encl b w) : w ≤ 0 := by
  obtain ⟨_, hu⟩ := he
  rw [ar_zero] at h
  cases hb : b.upper with
  | fin a =>
    rw [hb] at h hu
    simp only [upperOK] at hu
    simp at h
    exact le_trans hu h
  | pinf => rw [hb] at h; exact absurd h (by simp [show Arith.le (Ext.pinf : Ext K) (Ext.fin 0) = false from rfl])
  | ninf => rw [hb] at hu; exact absurd hu (by simp [upperOK])
  | nan => rw [hb] at hu; exact absurd hu (by simp [upperOK])

/-! ### unfolding the gadget branch of `abs` -/

def bumpAbs {α : Type} (s : St α) : St α := { s with absCount := s.absCount + 1 }

/-- the state after the one-sided part of the abs gadget. -/
def absState1 {α : Type} [Arith α] (s1 : St α) (v : String) (ib : Bounds α) (inner : Exp α) : St α :=
  pushC (pushC (declState (bumpAbs s1) v (.nnreal Arith.zero (Arith.fmax (Arith.neg ib.lower) ib.upper)))
    (mkC (.var v) .ge inner)) (mkC (.var v) .ge (.un .neg inner))

/-- … and after the exact part. -/
def absState2 {α : Type} [Arith α] (s2 : St α) (v p : String) (ib : Bounds α) (inner : Exp α) : St α :=
  pushC (pushC (declState s2 p .bool)
    (mkC (.var v) .le (subExp inner (mulExp (.num (Arith.mul (Arith.ofInt 2) ib.lower)) (subExp (.num Arith.one) (.var p))))))
    (mkC (.var v) .le (addExp (.un .neg inner) (mulExp (.num (Arith.mul (Arith.ofInt 2) ib.upper)) (.var p))))

theorem linExp_abs_gadget {e : Exp (Ext K)} {req : Req} {s : St (Ext K)} {r : Ctx (Ext K) × St (Ext K)}
    (h1 : ¬ Arith.ge (boundsOf s.bounds e).lower (Arith.zero : Ext K) = true)
    (h2 : ¬ Arith.le (boundsOf s.bounds e).upper (Arith.zero : Ext K) = true)
    (h : linExp (.abs e) req s = .ok r) :
    ∃ (innerC : Ctx (Ext K)) (s1 : St (Ext K)) (v p : String),
      linExp e .exact s = .ok (innerC, s1) ∧ v ∉ s1.domain.map (·.name) ∧
      ((req = .lower ∧ r = (Ctx.fromVar v Arith.one, absState1 s1 v (boundsOf s.bounds e) (ctxToExp innerC))) ∨
       (req ≠ .lower ∧ Arith.isFinite (boundsOf s.bounds e).lower = true ∧
          Arith.isFinite (boundsOf s.bounds e).upper = true ∧
          p ∉ (absState1 s1 v (boundsOf s.bounds e) (ctxToExp innerC)).domain.map (·.name) ∧
          r = (Ctx.fromVar v Arith.one,
            absState2 (absState1 s1 v (boundsOf s.bounds e) (ctxToExp innerC)) v p (boundsOf s.bounds e) (ctxToExp innerC)))) := by
  rw [linExp] at h
  simp only [bind_ok, get_ok] at h
  obtain ⟨s0, s0', h0, h⟩ := h
  cases h0
  rw [if_neg h1, if_neg h2] at h
  simp only [ite_ok, bind_ok, pure_ok, fail_ok, get_ok, set_ok, declareVariable_ok, addConstraint_ok] at h
  rcases h with ⟨_, hf⟩ | ⟨hfin, innerC, s1, hin, a1, s1a, ha1, a2, s1b, ha2, a3, s2, ⟨hfresh, ha3⟩, a4, s3, ha4, a5, s4, ha5, hrest⟩
  · exact hf.elim
  · cases ha1; cases ha2; cases ha3; cases ha4; cases ha5
    refine ⟨innerC, s1, toString "$abs_" ++ toString s1.absCount,
      toString "$abs_" ++ toString s1.absCount ++ toString "_positive", hin, hfresh, ?_⟩
    rcases hrest with ⟨hne, a6, s5, ⟨hfresh2, ha6⟩, a7, s6, ha7, a8, s7, ha8, hr⟩ | ⟨hnl, hr⟩
    · cases ha6; cases ha7; cases ha8
      right
      have hreq : req ≠ .lower := by simpa using hne
      have hf2 : Arith.isFinite (boundsOf s.bounds e).lower = true ∧ Arith.isFinite (boundsOf s.bounds e).upper = true := by
        simp only [hne, Bool.true_and, Bool.or_eq_true, Bool.not_eq_true', not_or, Bool.not_eq_false] at hfin
        exact hfin
      exact ⟨hreq, hf2.1, hf2.2, hfresh2, hr⟩
    · left
      have hreq : req = .lower := by simpa using hnl
      exact ⟨hreq, hr⟩

/-! ### the specification of `abs` -/

theorem fmax_neg_upper {l u : Ext K} {w : K} (h : Encl ⟨l, u⟩ w) :
    upperOK (Arith.fmax (Arith.neg l) u) |w| := by
  obtain ⟨hl, hu⟩ := h
  cases l with
  | nan => exact absurd hl (by simp [lowerOK])
  | pinf => exact absurd hl (by simp [lowerOK])
  | ninf =>
    cases u with
    | nan => exact absurd hu (by simp [upperOK])
    | ninf => exact absurd hu (by simp [upperOK])
    | pinf => simp [Arith.fmax, Arith.neg, Ext.fmax, Ext.neg, Ext.isNaN, Ext.lt, upperOK]
    | fin b => simp [Arith.fmax, Arith.neg, Ext.fmax, Ext.neg, Ext.isNaN, Ext.lt, upperOK]
  | fin a =>
    cases u with
    | nan => exact absurd hu (by simp [upperOK])
    | ninf => exact absurd hu (by simp [upperOK])
    | pinf => simp [Arith.fmax, Arith.neg, Ext.fmax, Ext.neg, Ext.isNaN, Ext.lt, upperOK]
    | fin b =>
      simp only [lowerOK, upperOK] at hl hu
      have := (Gadget.abs_in_aux_domain hl hu).2
      simp only [Arith.fmax, Arith.neg, Ext.fmax, Ext.neg, Ext.isNaN, Ext.lt, ef_neg, ef_lt, Bool.false_eq_true,
        if_false]
      by_cases hlt : -a < b
      · simp only [hlt, decide_true, if_true, upperOK]; rwa [max_eq_right (le_of_lt hlt)] at this
      · simp only [hlt, decide_false, Bool.false_eq_true, if_false, upperOK]
        rwa [max_eq_left (not_lt.mp hlt)] at this

/-! evaluation of the small expression builders -/

theorem eval_addExp {ρ : String → K} {a b : Exp (Ext K)} {x y : K} (ha : eval ρ a = some x) (hb : eval ρ b = some y) :
    eval ρ (addExp a b) = some (x + y) := by simp [addExp, eval_bin, ha, hb, binVal]
theorem eval_subExp {ρ : String → K} {a b : Exp (Ext K)} {x y : K} (ha : eval ρ a = some x) (hb : eval ρ b = some y) :
    eval ρ (subExp a b) = some (x - y) := by simp [subExp, eval_bin, ha, hb, binVal]
theorem eval_mulExp {ρ : String → K} {a b : Exp (Ext K)} {x y : K} (ha : eval ρ a = some x) (hb : eval ρ b = some y) :
    eval ρ (mulExp a b) = some (x * y) := by simp [mulExp, eval_bin, ha, hb, binVal]
theorem eval_negExp {ρ : String → K} {a : Exp (Ext K)} {x : K} (ha : eval ρ a = some x) :
    eval ρ (.un .neg a) = some (-x) := by simp [eval_neg, ha]

theorem AG_addExp {S : String → Prop} {a b : Exp (Ext K)} (ha : AG S a) (hb : AG S b) : AG S (addExp a b) :=
  AG_bin.mpr ⟨rfl, ha, hb⟩
theorem AG_subExp {S : String → Prop} {a b : Exp (Ext K)} (ha : AG S a) (hb : AG S b) : AG S (subExp a b) :=
  AG_bin.mpr ⟨rfl, ha, hb⟩
theorem AG_mulExp {S : String → Prop} {a b : Exp (Ext K)} (ha : AG S a) (hb : AG S b) : AG S (mulExp a b) :=
  AG_bin.mpr ⟨rfl, ha, hb⟩

theorem definedE_of_eval {e : Exp (Ext K)} (f : (String → K) → K) (h : ∀ ρ : String → K, eval ρ e = some (f ρ)) :
    DefinedE e := fun ρ => ⟨f ρ, h ρ⟩

theorem isFinite_iff (x : Ext K) : Arith.isFinite x = true ↔ ∃ k, x = .fin k := by
  cases x <;> simp [Arith.isFinite, Ext.isFinite]

theorem B01_of_inDomain_bool {x : K} (h : inDomain x (.bool : VarType (Ext K)) = true) : B01 x := by
  simp [inDomain] at h; exact h

theorem inDomain_bool_of_B01 {x : K} (h : B01 x) : inDomain x (.bool : VarType (Ext K)) = true := by
  simp [inDomain]; exact h

theorem spec_abs (hbo : BoundsOracle K) {e : Exp (Ext K)} (ih : SpecHolds Src e) : SpecHolds Src (.abs e) := by
  intro req s c s' hpre h
  have hve : ∀ x ∈ varsOf e, inScope s.domain x := fun x hx => hpre.vars x (by simpa [varsOf] using hx)
  have hpe : Pre Src e s := ⟨hpre.inv, hve, hpre.defined.abs⟩
  have henc : ∀ (ρ : String → K) w, DomSat ρ s.domain → eval ρ e = some w → Encl (boundsOf s.bounds e) w :=
    fun ρ w hd hw => hbo.on (hpre.inv.box ρ hd) hve hw
  by_cases h1 : Arith.ge (boundsOf s.bounds e).lower (Arith.zero : Ext K) = true
  · -- sign known: non-negative
    rw [linExp] at h
    simp only [bind_ok, get_ok] at h
    obtain ⟨s0, s0', h0, h⟩ := h
    cases h0
    rw [if_pos h1] at h
    have A := ih _ _ _ _ hpe h
    refine Spec.map1 id A A.cok (fun _ hx => hx) (fun _ => rfl) ?_
    intro ρ v hd hv
    obtain ⟨w, hw, rfl⟩ := eval_abs_some hv
    have := nonneg_of_lower h1 (henc ρ w hd hw)
    exact ⟨w, hw, fun a1 r1 => by rw [abs_of_nonneg this]; exact r1, by simp [abs_of_nonneg this]⟩
  · by_cases h2 : Arith.le (boundsOf s.bounds e).upper (Arith.zero : Ext K) = true
    · -- sign known: non-positive
      rw [linExp] at h
      simp only [bind_ok, get_ok] at h
      obtain ⟨s0, s0', h0, h⟩ := h
      cases h0
      rw [if_neg h1, if_pos h2] at h
      simp only [bind_ok, pure_ok, Prod.mk.injEq] at h
      obtain ⟨x, s1, hx, rfl, rfl⟩ := h
      have A := ih _ _ _ _ hpe hx
      have hm1 : (Arith.ofInt (-1) : Ext K) = Ext.fin (-1) := by simp
      rw [hm1]
      obtain ⟨ok, _, hn⟩ := mulBy_spec (fun _ => (0 : K)) A.cok (-1)
      refine Spec.map1 (fun a => a * (-1)) A ok (fun z hz => by rwa [hn] at hz)
        (fun ρ => (mulBy_spec ρ A.cok (-1)).2.1) ?_
      intro ρ v hd hv
      obtain ⟨w, hw, rfl⟩ := eval_abs_some hv
      have := nonpos_of_upper h2 (henc ρ w hd hw)
      exact ⟨w, hw, fun a1 r1 => by rw [abs_of_nonpos this]; exact rel_neg r1, by rw [abs_of_nonpos this]; ring⟩
    · -- the gadget
      obtain ⟨innerC, s1, v, p, hin, hfresh, hcase⟩ := linExp_abs_gadget h1 h2 h
      have A := ih _ _ _ _ hpe hin
      set ib := boundsOf s.bounds e with hib
      set innerE := ctxToExp innerC with hinnerE
      -- evaluation of the inner expression and freshness of `v`
      have hinE : ∀ ρ : String → K, eval ρ innerE = some (ctxVal ρ innerC) := fun ρ => ctxToExp_eval ρ A.cok
      have hvfresh : ∀ x, inScope s1.domain x → x ≠ v := by
        rintro x ⟨dv, hdv, rfl, _⟩ hxv
        exact hfresh (List.mem_map.mpr ⟨dv, hdv, hxv⟩)
      have hstrict : ∀ (ρ : String → K) v', eval ρ (.abs e) = some v' → ∃ w, eval ρ e = some w := by
        intro ρ v' hv'; obtain ⟨w, hw, _⟩ := eval_abs_some hv'; exact ⟨w, hw⟩
      have hvars : ∀ x ∈ varsOf (.abs e : Exp (Ext K)), inScope s.domain x := hpre.vars
      -- the one-sided state
      let tyV : VarType (Ext K) := .nnreal Arith.zero (Arith.fmax (Arith.neg ib.lower) ib.upper)
      let c1 : Constraint (Ext K) := mkC (.var v) .ge innerE
      let c2 : Constraint (Ext K) := mkC (.var v) .ge (.un .neg innerE)
      have I0 : StInv Src (bumpAbs s1) := A.inv.of_eq rfl rfl rfl
      have I1 : StInv Src (declState (bumpAbs s1) v tyV) := I0.declare tyV hfresh
      have hsc1 : ∀ x, inScope s1.domain x → inScope (declState (bumpAbs s1) v tyV).domain x :=
        fun x hx => inScope_declState.mpr (Or.inl hx)
      have hAGv : AG (inScope (declState (bumpAbs s1) v tyV).domain) (.var v : Exp (Ext K)) :=
        AG_var.mpr (inScope_declState.mpr (Or.inr rfl))
      have hAGin : AG (inScope (declState (bumpAbs s1) v tyV).domain) innerE :=
        AG_ctxToExp (fun x hx => hsc1 x (A.cnames x hx))
      have hDv : DefinedE (.var v : Exp (Ext K)) := definedE_of_eval (fun ρ => ρ v) (fun ρ => eval_var ρ v)
      have hDin : DefinedE innerE := definedE_ctxToExp A.cok
      have hDneg : DefinedE (.un .neg innerE) :=
        definedE_of_eval (fun ρ => -ctxVal ρ innerC) (fun ρ => eval_negExp (hinE ρ))
      have I2 : StInv Src (pushC (declState (bumpAbs s1) v tyV) c1) :=
        I1.pushC (arithC_mkC _ hAGv hAGin) (definedC_mkC _ hDv hDin)
      have I3 : StInv Src (absState1 s1 v ib innerE) :=
        I2.pushC (arithC_mkC _ hAGv (AG_neg.mpr hAGin)) (definedC_mkC _ hDv hDneg)
      have F1 : Frame s1 (absState1 s1 v ib innerE) [{ name := v, ty := tyV, usage := 1 }] [c2, c1] :=
        ⟨rfl, rfl, rfl⟩
      have hcn : ∀ x ∈ ctxNames (Ctx.fromVar v (Arith.one : Ext K)), x = v := by
        intro x hx; simpa using hx
      -- meaning of the two one-sided rows
      have hrows1 : ∀ (ρ : String → K), (constraintHolds ρ c1 = true ↔ ctxVal ρ innerC ≤ ρ v) ∧
          (constraintHolds ρ c2 = true ↔ -ctxVal ρ innerC ≤ ρ v) := by
        intro ρ
        constructor
        · rw [holds_mkC ρ _ _ _ (eval_var ρ v) (hinE ρ)]; simp [cmpK]
        · rw [holds_mkC ρ _ _ _ (eval_var ρ v) (eval_negExp (hinE ρ))]; simp [cmpK]
      have hcv : ∀ ρ : String → K, ctxVal ρ (Ctx.fromVar v (Arith.one : Ext K)) = ρ v := by
        intro ρ; rw [ar_one, fromVar_val]; ring
      have hcok : CtxOK (Ctx.fromVar v (Arith.one : Ext K)) := by rw [ar_one]; exact fromVar_ok v 1
      rcases hcase with ⟨hreq, hr⟩ | ⟨hreq, hfl, hfu, hfresh2, hr⟩
      · -- one-sided
        simp only [Prod.mk.injEq] at hr
        obtain ⟨rfl, rfl⟩ := hr
        subst hreq
        refine Spec.extend A F1 I3 hcok ?_ hvars hve hstrict ?_ ?_
        · intro x hx; rw [hcn x hx]; exact inScope_declState.mpr (Or.inr rfl)
        · intro ρ v' w hd1 hdec hnew hv' hw hrel
          obtain ⟨w', hw', rfl⟩ := eval_abs_some hv'
          rw [hw] at hw'; cases hw'
          simp only [rel] at hrel ⊢
          rw [hcv]
          have r1 := (hrows1 ρ).1.mp (hnew c1 (by simp))
          have r2 := (hrows1 ρ).2.mp (hnew c2 (by simp))
          rw [hrel] at r1 r2
          exact abs_le'.mpr ⟨r1, r2⟩
        · intro ρ1 v' w hd1 hv' hw hval
          obtain ⟨w', hw', rfl⟩ := eval_abs_some hv'
          rw [hw] at hw'; cases hw'
          refine ⟨Function.update ρ1 v |w|, ?_, ?_, ?_, ?_⟩
          · intro x hx; exact Function.update_of_ne (hvfresh x hx) _ _
          · intro dv hdv hu
            simp only [List.mem_singleton] at hdv
            subst hdv
            simp only [Function.update_self, inDomain, Bool.and_eq_true, geExt_iff, leExt_iff, tyV]
            refine ⟨by rw [ar_zero]; exact abs_nonneg w, ?_⟩
            exact fmax_neg_upper (henc ρ1 w (A.keepsDom hd1) hw)
          · have hin2 : ctxVal (Function.update ρ1 v |w|) innerC = w := by
              rw [ctxVal_congr innerC (fun x hx => Function.update_of_ne (hvfresh x (A.cnames x hx)) _ _), hval]
            intro c hc
            simp only [List.mem_cons, List.mem_singleton, List.not_mem_nil, or_false] at hc
            rcases hc with rfl | rfl
            · rw [(hrows1 _).2, hin2, Function.update_self]; exact neg_le_abs w
            · rw [(hrows1 _).1, hin2, Function.update_self]; exact le_abs_self w
          · rw [hcv, Function.update_self]
      · -- exact: big-M pair with the selector `p`
        simp only [Prod.mk.injEq] at hr
        obtain ⟨rfl, rfl⟩ := hr
        obtain ⟨l, hl⟩ := (isFinite_iff _).mp hfl
        obtain ⟨u, hu⟩ := (isFinite_iff _).mp hfu
        set s2 := absState1 s1 v ib innerE with hs2
        have hpv : p ≠ v := by
          intro hpv; apply hfresh2; rw [hpv]
          simp [hs2, absState1]
        have hpfresh : ∀ x, inScope s1.domain x → x ≠ p := by
          rintro x ⟨dv, hdv, rfl, _⟩ hxp
          apply hfresh2
          rw [← hxp]
          simp only [hs2, absState1, pushC_domain, declState_domain, List.map_append, List.mem_append]
          exact Or.inl (List.mem_map.mpr ⟨dv, hdv, rfl⟩)
        let c3 : Constraint (Ext K) := mkC (.var v) .le
          (subExp innerE (mulExp (.num (Arith.mul (Arith.ofInt 2) ib.lower)) (subExp (.num Arith.one) (.var p))))
        let c4 : Constraint (Ext K) := mkC (.var v) .le
          (addExp (.un .neg innerE) (mulExp (.num (Arith.mul (Arith.ofInt 2) ib.upper)) (.var p)))
        have hM1 : Arith.mul (Arith.ofInt 2) ib.lower = Ext.fin (2 * l) := by rw [hl]; simp
        have hM2 : Arith.mul (Arith.ofInt 2) ib.upper = Ext.fin (2 * u) := by rw [hu]; simp
        have e3 : ∀ ρ : String → K, eval ρ (subExp innerE (mulExp (.num (Arith.mul (Arith.ofInt 2) ib.lower))
            (subExp (.num Arith.one) (.var p)))) = some (ctxVal ρ innerC - 2 * l * (1 - ρ p)) := by
          intro ρ
          rw [hM1, ar_one]
          exact eval_subExp (hinE ρ) (eval_mulExp (eval_num_fin ρ _)
            (eval_subExp (eval_num_fin ρ _) (eval_var ρ p)))
        have e4 : ∀ ρ : String → K, eval ρ (addExp (.un .neg innerE) (mulExp (.num (Arith.mul (Arith.ofInt 2) ib.upper))
            (.var p))) = some (-ctxVal ρ innerC + 2 * u * ρ p) := by
          intro ρ
          rw [hM2]
          exact eval_addExp (eval_negExp (hinE ρ)) (eval_mulExp (eval_num_fin ρ _) (eval_var ρ p))
        have J1 : StInv Src (declState s2 p .bool) := I3.declare .bool hfresh2
        have hscJ : ∀ x, inScope s2.domain x → inScope (declState s2 p (.bool : VarType (Ext K))).domain x :=
          fun x hx => inScope_declState.mpr (Or.inl hx)
        have hs2v : inScope s2.domain v := inScope_declState.mpr (Or.inr rfl)
        have hAGvJ : AG (inScope (declState s2 p (.bool : VarType (Ext K))).domain) (.var v : Exp (Ext K)) :=
          AG_var.mpr (hscJ v hs2v)
        have hAGpJ : AG (inScope (declState s2 p (.bool : VarType (Ext K))).domain) (.var p : Exp (Ext K)) :=
          AG_var.mpr (inScope_declState.mpr (Or.inr rfl))
        have hAGinJ : AG (inScope (declState s2 p (.bool : VarType (Ext K))).domain) innerE :=
          AG_ctxToExp (fun x hx => hscJ x (inScope_declState.mpr (Or.inl (A.cnames x hx))))
        have J2 : StInv Src (pushC (declState s2 p .bool) c3) :=
          J1.pushC (arithC_mkC _ hAGvJ (AG_subExp hAGinJ (AG_mulExp (AG_num _) (AG_subExp (AG_num _) hAGpJ))))
            (definedC_mkC _ hDv (definedE_of_eval _ e3))
        have J3 : StInv Src (absState2 s2 v p ib innerE) :=
          J2.pushC (arithC_mkC _ hAGvJ (AG_addExp (AG_neg.mpr hAGinJ) (AG_mulExp (AG_num _) hAGpJ)))
            (definedC_mkC _ hDv (definedE_of_eval _ e4))
        have F2 : Frame s1 (absState2 s2 v p ib innerE)
            [{ name := v, ty := tyV, usage := 1 }, { name := p, ty := .bool, usage := 1 }] [c4, c3, c2, c1] :=
          ⟨rfl, by simp only [absState2, hs2, absState1, pushC_domain, declState_domain, bumpAbs, List.append_assoc, List.cons_append, List.nil_append]; rfl, rfl⟩
        have hrows2 : ∀ (ρ : String → K),
            (constraintHolds ρ c3 = true ↔ ρ v ≤ ctxVal ρ innerC - 2 * l * (1 - ρ p)) ∧
            (constraintHolds ρ c4 = true ↔ ρ v ≤ -ctxVal ρ innerC + 2 * u * ρ p) := by
          intro ρ
          constructor
          · rw [holds_mkC ρ _ _ _ (eval_var ρ v) (e3 ρ)]; simp [cmpK]
          · rw [holds_mkC ρ _ _ _ (eval_var ρ v) (e4 ρ)]; simp [cmpK]
        refine Spec.extend A F2 J3 hcok ?_ hvars hve hstrict ?_ ?_
        · intro x hx; rw [hcn x hx]; exact hscJ v hs2v
        · intro ρ v' w hd1 hdec hnew hv' hw hrel
          obtain ⟨w', hw', rfl⟩ := eval_abs_some hv'
          rw [hw] at hw'; cases hw'
          simp only [rel] at hrel
          have r1 := (hrows1 ρ).1.mp (hnew c1 (by simp))
          have r2 := (hrows1 ρ).2.mp (hnew c2 (by simp))
          have r3 := (hrows2 ρ).1.mp (hnew c3 (by simp))
          have r4 := (hrows2 ρ).2.mp (hnew c4 (by simp))
          rw [hrel] at r1 r2 r3 r4
          have hp01 : B01 (ρ p) :=
            B01_of_inDomain_bool (hdec { name := p, ty := .bool, usage := 1 } (by simp) (by simp))
          apply rel_of_eq
          rw [hcv]
          exact Gadget.abs_exact_sound hp01 r1 r2 r3 r4
        · intro ρ1 v' w hd1 hv' hw hval
          obtain ⟨w', hw', rfl⟩ := eval_abs_some hv'
          rw [hw] at hw'; cases hw'
          have hE := henc ρ1 w (A.keepsDom hd1) hw
          have hlw : l ≤ w := by have := hE.1; rw [hl] at this; exact this
          have hwu : w ≤ u := by have := hE.2; rw [hu] at this; exact this
          obtain ⟨sel, hsel, g1, g2, g3, g4⟩ := Gadget.abs_exact_complete hlw hwu
          let ρ2 : String → K := Function.update (Function.update ρ1 v |w|) p sel
          have hρv : ρ2 v = |w| := by
            simp only [ρ2]; rw [Function.update_of_ne (Ne.symm hpv), Function.update_self]
          have hρp : ρ2 p = sel := by simp only [ρ2]; rw [Function.update_self]
          have hag : ∀ x, inScope s1.domain x → ρ2 x = ρ1 x := by
            intro x hx
            simp only [ρ2]
            rw [Function.update_of_ne (hpfresh x hx), Function.update_of_ne (hvfresh x hx)]
          have hin2 : ctxVal ρ2 innerC = w := by
            rw [ctxVal_congr innerC (fun x hx => hag x (A.cnames x hx)), hval]
          refine ⟨ρ2, hag, ?_, ?_, ?_⟩
          · intro dv hdv hu'
            simp only [List.mem_cons, List.mem_singleton, List.not_mem_nil, or_false] at hdv
            rcases hdv with rfl | rfl
            · simp only [hρv, inDomain, Bool.and_eq_true, geExt_iff, leExt_iff, tyV]
              exact ⟨by rw [ar_zero]; exact abs_nonneg w, fmax_neg_upper hE⟩
            · simp only [hρp]; exact inDomain_bool_of_B01 hsel
          · intro c hc
            simp only [List.mem_cons, List.mem_singleton, List.not_mem_nil, or_false] at hc
            rcases hc with rfl | rfl | rfl | rfl
            · rw [(hrows2 _).2, hin2, hρv, hρp]; exact g4
            · rw [(hrows2 _).1, hin2, hρv, hρp]; exact g3
            · rw [(hrows1 _).2, hin2, hρv]; exact g2
            · rw [(hrows1 _).1, hin2, hρv]; exact g1
          · rw [hcv, hρv]

end Rooc.LinP
