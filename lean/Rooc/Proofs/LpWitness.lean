/- C17: a concrete printer/lexer pair for integer-valued numbers, used as non-vacuity witness of
`Rooc.Props.C17.read_write`. -/
import Rooc.Proofs.LpParse
import Mathlib.Data.Rat.Floor
namespace Rooc.Lp
open Rooc Arith
attribute [local instance 10000] fieldExact

/-- decimal printer for integer-valued numbers -/
noncomputable def exTok : Ext ℚ → List Char
  | .fin q => if q < 0 then '-' :: natChars q.num.natAbs else natChars q.num.natAbs
  | _ => "?".toList
/-- decimal lexer -/
def exLex (s : List Char) : Option (Ext ℚ) := some (.fin ((Nat.ofDigitChars 10 s 0 : ℕ) : ℚ))

theorem exTokOk (z : ℤ) : TokOk exTok exLex (.fin (z : ℚ)) := by
  constructor
  · intro h
    have hz : ¬ ((z : ℚ) < 0) := by simpa [Arith.lt, Ext.lt, Arith.zero, Arith.ofInt] using h
    have hz' : 0 ≤ z := by exact_mod_cast not_lt.mp hz
    simp only [exTok, hz, if_false, Rat.num_intCast]
    refine ⟨numWord_natChars _, ?_⟩
    simp only [exLex, natChars, Nat.ofDigitChars_ten_toDigits]
    congr 2
    have h1 : ((z.natAbs : ℕ) : ℤ) = z := Int.natAbs_of_nonneg hz'
    calc ((z.natAbs : ℕ) : ℚ) = (((z.natAbs : ℕ) : ℤ) : ℚ) := (Int.cast_natCast _).symm
      _ = (z : ℚ) := by rw [h1]
  · intro h
    have hz : (z : ℚ) < 0 := by simpa [Arith.lt, Ext.lt, Arith.zero, Arith.ofInt] using h
    have hz' : z < 0 := by exact_mod_cast hz
    have habs : Arith.abs (Ext.fin (z : ℚ) : Ext ℚ) = .fin ((-z : ℤ) : ℚ) := by
      simp [Arith.abs, Ext.abs, hz]
    rw [habs]
    have hnn : ¬ (((-z : ℤ) : ℚ) < 0) := by
      have : (0:ℚ) < ((-z : ℤ) : ℚ) := by exact_mod_cast (by omega : (0:ℤ) < -z)
      exact not_lt.mpr this.le
    simp only [exTok, hz, if_true, hnn, if_false, Rat.num_intCast, Int.natAbs_neg]


end Rooc.Lp
