/-
Stage C, part 5: `for` loops of the linearizer (pushing constraints, declaring selectors), and the
specification of linearizing a LIST of operands in sequence.
-/
import Rooc.Proofs.LinPrune

set_option linter.unusedSectionVars false
set_option linter.unusedSimpArgs false
set_option linter.unusedVariables false

namespace Rooc.LinP
open Rooc Rooc.Lin Rooc.Sem Rooc.Exp
open Rooc.Lin.Gadget (B01)

section loops
variable {α : Type} [Arith α] {β : Type}

/-- running `g` on every element of a list, in order. -/
def seqOK (g : β → M α PUnit) : List β → St α → St α → Prop
  | [], s, s' => s' = s
  | x :: xs, s, s' => ∃ s1, g x s = .ok (⟨⟩, s1) ∧ seqOK g xs s1 s'

theorem forIn_ok (g : β → M α PUnit) (body : β → PUnit → M α (ForInStep PUnit))
    (hb : ∀ x u, body x u = (g x >>= fun _ => pure (ForInStep.yield PUnit.unit))) :
    ∀ (xs : List β) (s : St α) (r : PUnit × St α),
      (forIn xs PUnit.unit body : M α PUnit) s = .ok r ↔ seqOK g xs s r.2 := by
  intro xs
  induction xs with
  | nil =>
    intro s r
    simp only [List.forIn_nil, pure_ok, seqOK]
    constructor
    · rintro rfl; rfl
    · intro h; obtain ⟨u, s'⟩ := r; simp only at h; subst h; rfl
  | cons x xs ih =>
    intro s r
    simp only [List.forIn_cons, hb, bind_assoc, pure_bind, bind_ok, seqOK]
    constructor
    · rintro ⟨u, s1, h1, h2⟩; exact ⟨s1, h1, (ih s1 r).mp h2⟩
    · rintro ⟨s1, h1, h2⟩; exact ⟨⟨⟩, s1, h1, (ih s1 r).mpr h2⟩

/-- pushing a list of constraints, first element first (so it ends up deepest). -/
def pushAll (s : St α) (cs : List (Constraint α)) : St α := { s with queue := cs.reverse ++ s.queue }

@[simp] theorem pushAll_domain (s : St α) (cs : List (Constraint α)) : (pushAll s cs).domain = s.domain := rfl
@[simp] theorem pushAll_rows (s : St α) (cs : List (Constraint α)) : (pushAll s cs).rows = s.rows := rfl
@[simp] theorem pushAll_bounds (s : St α) (cs : List (Constraint α)) : (pushAll s cs).bounds = s.bounds := rfl
@[simp] theorem pushAll_queue (s : St α) (cs : List (Constraint α)) :
    (pushAll s cs).queue = cs.reverse ++ s.queue := rfl
theorem pushAll_nil (s : St α) : pushAll s [] = s := by simp [pushAll]
theorem pushAll_append (s : St α) (cs ds : List (Constraint α)) :
    pushAll (pushAll s cs) ds = pushAll s (cs ++ ds) := by
  simp [pushAll, List.reverse_append, List.append_assoc]

/-- a loop whose body pushes the constraints `F x`. -/
theorem seqOK_push (g : β → M α PUnit) (F : β → List (Constraint α))
    (hg : ∀ x s, g x s = .ok (⟨⟩, pushAll s (F x))) :
    ∀ (xs : List β) (s s' : St α), seqOK g xs s s' ↔ s' = pushAll s (xs.flatMap F) := by
  intro xs
  induction xs with
  | nil => intro s s'; simp [seqOK, pushAll_nil]
  | cons x xs ih =>
    intro s s'
    simp only [seqOK, hg, Except.ok.injEq, Prod.mk.injEq, true_and, List.flatMap_cons]
    constructor
    · rintro ⟨s1, rfl, h⟩; rw [(ih _ _).mp h, pushAll_append]
    · intro h; exact ⟨_, rfl, (ih _ _).mpr (by rw [h, pushAll_append])⟩

theorem addConstraint_eq (c : Constraint α) (s : St α) : addConstraint c s = .ok (⟨⟩, pushAll s [c]) := rfl

/-- declaring a list of names with the same type. -/
def declAll (s : St α) (ty : VarType α) : List String → St α
  | [] => s
  | n :: ns => declAll (declState s n ty) ty ns

theorem seqOK_declare (ty : VarType α) : ∀ (ns : List String) (s s' : St α),
    seqOK (fun n => declareVariable n ty) ns s s' ↔
      (s' = declAll s ty ns ∧ (∀ n ∈ ns, n ∉ s.domain.map (·.name)) ∧ ns.Nodup) := by
  intro ns
  induction ns with
  | nil => intro s s'; simp [seqOK, declAll]
  | cons n ns ih =>
    intro s s'
    simp only [seqOK, declareVariable_ok, Prod.mk.injEq, true_and, declAll, List.mem_cons, forall_eq_or_imp,
      List.nodup_cons]
    constructor
    · rintro ⟨s1, ⟨hf, rfl⟩, h⟩
      obtain ⟨h1, h2, h3⟩ := (ih _ _).mp h
      refine ⟨h1, ⟨hf, ?_⟩, ?_, h3⟩
      · intro m hm hmem
        apply h2 m hm
        simp only [declState_domain, List.map_append, List.mem_append]
        exact Or.inl hmem
      · intro hn
        apply h2 n hn
        simp [declState_domain]
    · rintro ⟨h1, ⟨hf, h2⟩, h3, h4⟩
      refine ⟨_, ⟨hf, rfl⟩, (ih _ _).mpr ⟨h1, ?_, h4⟩⟩
      intro m hm hmem
      simp only [declState_domain, List.map_append, List.mem_append, List.map_cons, List.map_nil,
        List.mem_singleton] at hmem
      rcases hmem with hmem | rfl
      · exact h2 m hm hmem
      · exact h3 hm

theorem declAll_domain (ty : VarType α) : ∀ (ns : List String) (s : St α),
    (declAll s ty ns).domain = s.domain ++ ns.map (fun n => ({ name := n, ty := ty, usage := 1 } : DomVar α))
  | [], s => by simp [declAll]
  | n :: ns, s => by simp [declAll, declAll_domain ty ns, declState_domain]

theorem declAll_queue (ty : VarType α) : ∀ (ns : List String) (s : St α), (declAll s ty ns).queue = s.queue
  | [], s => rfl
  | n :: ns, s => by simp [declAll, declAll_queue ty ns]

theorem declAll_rows (ty : VarType α) : ∀ (ns : List String) (s : St α), (declAll s ty ns).rows = s.rows
  | [], s => rfl
  | n :: ns, s => by simp [declAll, declAll_rows ty ns]

end loops

variable {K : Type} [Field K] [LinearOrder K] [IsStrictOrderedRing K] [FloorRing K]
variable {Src : Constraint (Ext K) → Prop}

theorem StInv.pushAll {s : St (Ext K)} (h : StInv Src s) : ∀ (cs : List (Constraint (Ext K))),
    (∀ c ∈ cs, ArithC (inScope s.domain) c ∧ DefinedC c) → StInv Src (pushAll s cs) := by
  intro cs hcs
  refine ⟨h.nodup, h.box, ?_, ?_⟩
  · intro c hc
    simp only [pushAll_queue, List.mem_append, List.mem_reverse] at hc
    rcases hc with hc | hc
    · exact (hcs c hc).1.toScoped
    · exact h.qscoped c hc
  · intro c hc
    simp only [pushAll_queue, List.mem_append, List.mem_reverse] at hc
    rcases hc with hc | hc
    · exact Or.inr (hcs c hc)
    · exact h.qgood c hc

theorem StInv.declAll {s : St (Ext K)} (ty : VarType (Ext K)) : ∀ (ns : List String), StInv Src s →
    (∀ n ∈ ns, n ∉ s.domain.map (·.name)) → ns.Nodup → StInv Src (declAll s ty ns)
  | [], h, _, _ => h
  | n :: ns, h, hf, hnd => by
    simp only [Rooc.LinP.declAll]
    have hnd' := List.nodup_cons.mp hnd
    refine StInv.declAll ty ns (h.declare ty (hf n (by simp))) ?_ hnd'.2
    intro m hm hmem
    simp only [declState_domain, List.map_append, List.mem_append, List.map_cons, List.map_nil,
      List.mem_singleton] at hmem
    rcases hmem with hmem | rfl
    · exact hf m (by simp [hm]) hmem
    · exact hnd'.1 hm

/-! ### linearizing a list of operands -/

/-- `linearize_binary_operands`-style sequencing: every operand in order, each turned back into an
expression by `context_to_exp`. -/
def linList {α : Type} [Arith α] : List (Exp α) → Req → M α (List (Exp α))
  | [], _ => pure []
  | e :: es, req => do
    let c ← linExp e req
    let xs ← linList es req
    pure (ctxToExp c :: xs)

theorem linFlagged_eq {α : Type} [Arith α] : ∀ (es : List (Exp α)) (fs : List Bool) (req : Req),
    linFlagged es fs req = linList (selectFlagged es fs) req
  | [], fs, req => by simp [linFlagged, selectFlagged, linList]
  | e :: es, [], req => by simp [linFlagged, selectFlagged, linList]
  | e :: es, f :: fs, req => by
    cases f
    · simp [linFlagged, selectFlagged, linFlagged_eq es fs req]
    · simp [linFlagged, selectFlagged, linList, linFlagged_eq es fs req]

theorem linFirstFlagged_eq {α : Type} [Arith α] : ∀ (es : List (Exp α)) (fs : List Bool) (req : Req),
    linFirstFlagged es fs req =
      match selectFlagged es fs with
      | e :: _ => linExp e req
      | [] => fail (.emptyAggregation "")
  | [], fs, req => by simp [linFirstFlagged, selectFlagged]
  | e :: es, [], req => by simp [linFirstFlagged, selectFlagged]
  | e :: es, f :: fs, req => by
    cases f
    · simp [linFirstFlagged, selectFlagged, linFirstFlagged_eq es fs req]
    · simp [linFirstFlagged, selectFlagged]

/-- what a successful `linList es req s = .ok (cs.map ctxToExp, s')` guarantees. -/
structure SpecL (Src : Constraint (Ext K) → Prop) (es : List (Exp (Ext K))) (req : Req) (s : St (Ext K))
    (cs : List (Ctx (Ext K))) (s' : St (Ext K)) : Prop where
  rows : s'.rows = s.rows
  dom : ∃ decls, s'.domain = s.domain ++ decls
  queue : ∃ new, s'.queue = new ++ s.queue
  inv : StInv Src s'
  len : cs.length = es.length
  cok : ∀ c ∈ cs, CtxOK c
  cnames : ∀ c ∈ cs, ∀ x ∈ ctxNames c, inScope s'.domain x
  sound : ∀ ρ : String → K, DomSat ρ s'.domain → QSat ρ s' → ∀ vs, evalList ρ es = some vs →
    List.Forall₂ (fun c v => rel req (ctxVal ρ c) v) cs vs
  complete : ∀ ρ : String → K, DomSat ρ s.domain → QSat ρ s → ∀ vs, evalList ρ es = some vs →
    ∃ ρ' : String → K, (∀ x, inScope s.domain x → ρ' x = ρ x) ∧ DomSat ρ' s'.domain ∧ QSat ρ' s' ∧
      cs.map (ctxVal ρ') = vs

theorem SpecL.keepsDom {es : List (Exp (Ext K))} {req : Req} {s s' : St (Ext K)} {cs : List (Ctx (Ext K))}
    (h : SpecL Src es req s cs s') {ρ : String → K} (hd : DomSat ρ s'.domain) : DomSat ρ s.domain := by
  obtain ⟨decls, hdec⟩ := h.dom
  intro dv hdv hu; exact hd dv (by rw [hdec]; exact List.mem_append_left _ hdv) hu

theorem SpecL.keepsQ {es : List (Exp (Ext K))} {req : Req} {s s' : St (Ext K)} {cs : List (Ctx (Ext K))}
    (h : SpecL Src es req s cs s') {ρ : String → K} (hq : QSat ρ s') : QSat ρ s := by
  obtain ⟨new, hnew⟩ := h.queue
  intro c' hc'; exact hq c' (by rw [hnew]; exact List.mem_append_right _ hc')

theorem SpecL.scopeMono {es : List (Exp (Ext K))} {req : Req} {s s' : St (Ext K)} {cs : List (Ctx (Ext K))}
    (h : SpecL Src es req s cs s') {x : String} (hx : inScope s.domain x) : inScope s'.domain x := by
  obtain ⟨decls, hdec⟩ := h.dom
  rw [hdec]; exact inScope_append_left hx

theorem evalList_cons_some {ρ : String → K} {e : Exp (Ext K)} {es : List (Exp (Ext K))} {vs : List K}
    (h : evalList ρ (e :: es) = some vs) : ∃ v ws, eval ρ e = some v ∧ evalList ρ es = some ws ∧ vs = v :: ws := by
  have := evalList_eq_some_iff.mp h
  cases this with
  | cons h1 h2 => exact ⟨_, _, h1, evalList_eq_some_iff.mpr h2, rfl⟩

/-- the specification of `linList`, from the specification of each operand. -/
theorem specL_of : ∀ (es : List (Exp (Ext K))), (∀ e ∈ es, SpecHolds Src e) →
    ∀ (req : Req) (s : St (Ext K)) (ops : List (Exp (Ext K))) (s' : St (Ext K)),
      StInv Src s → (∀ e ∈ es, ∀ x ∈ varsOf e, inScope s.domain x) → (∀ e ∈ es, FinE e) →
      linList es req s = .ok (ops, s') →
      ∃ cs, ops = cs.map ctxToExp ∧ SpecL Src es req s cs s' := by
  intro es
  induction es with
  | nil =>
    intro _ req s ops s' hinv _ _ h
    simp only [linList, pure_ok, Prod.mk.injEq] at h
    obtain ⟨rfl, rfl⟩ := h
    refine ⟨[], rfl, ⟨rfl, ⟨[], by simp⟩, ⟨[], by simp⟩, hinv, rfl, by simp, by simp, ?_, ?_⟩⟩
    · intro ρ _ _ vs hvs
      simp [evalList] at hvs; subst hvs; exact List.Forall₂.nil
    · intro ρ hd hq vs hvs
      simp [evalList] at hvs; subst hvs
      exact ⟨ρ, fun _ _ => rfl, hd, hq, rfl⟩
  | cons e es ih =>
    intro hall req s ops s' hinv hvars hdef h
    simp only [linList, bind_ok, pure_ok, Prod.mk.injEq] at h
    obtain ⟨c, s1, h1, xs, s2, h2, rfl, rfl⟩ := h
    have A := hall e (by simp) req s c s1 ⟨hinv, hvars e (by simp), hdef e (by simp)⟩ h1
    obtain ⟨cs, rfl, B⟩ := ih (fun e' he' => hall e' (by simp [he'])) req s1 xs s' A.inv
      (fun e' he' x hx => A.scopeMono (hvars e' (by simp [he']) x hx))
      (fun e' he' => hdef e' (by simp [he'])) h2
    obtain ⟨d1, hd1⟩ := A.dom
    obtain ⟨d2, hd2⟩ := B.dom
    obtain ⟨q1, hq1⟩ := A.queue
    obtain ⟨q2, hq2⟩ := B.queue
    refine ⟨c :: cs, rfl, ?_⟩
    refine
    { rows := by rw [B.rows, A.rows]
      dom := ⟨d1 ++ d2, by rw [hd2, hd1, List.append_assoc]⟩
      queue := ⟨q2 ++ q1, by rw [hq2, hq1, List.append_assoc]⟩
      inv := B.inv
      len := by simp [B.len]
      cok := ?_, cnames := ?_, sound := ?_, complete := ?_ }
    · intro c' hc'
      rcases List.mem_cons.mp hc' with rfl | hc'
      · exact A.cok
      · exact B.cok c' hc'
    · intro c' hc' x hx
      rcases List.mem_cons.mp hc' with rfl | hc'
      · exact B.scopeMono (A.cnames x hx)
      · exact B.cnames c' hc' x hx
    · intro ρ hd hq vs hvs
      obtain ⟨v, ws, hv, hws, rfl⟩ := evalList_cons_some hvs
      exact List.Forall₂.cons (A.sound ρ (B.keepsDom hd) (B.keepsQ hq) v hv) (B.sound ρ hd hq ws hws)
    · intro ρ hd hq vs hvs
      obtain ⟨v, ws, hv, hws, rfl⟩ := evalList_cons_some hvs
      obtain ⟨ρ1, hag1, hdm1, hqs1, hval1⟩ := A.complete ρ hd hq v hv
      have hws' : evalList ρ1 es = some ws := by
        rw [← hws]
        exact evalList_congr (fun e' he' => eval_congr e' (fun x hx => hag1 x (hvars e' (by simp [he']) x hx)))
      obtain ⟨ρ2, hag2, hdm2, hqs2, hval2⟩ := B.complete ρ1 hdm1 hqs1 ws hws'
      refine ⟨ρ2, fun x hx => by rw [hag2 x (A.scopeMono hx), hag1 x hx], hdm2, hqs2, ?_⟩
      simp only [List.map_cons, hval2, ctxVal_congr c (fun x hx => hag2 x (A.cnames x hx)), hval1]

end Rooc.LinP
