/-
Stage D: decidable sufficient conditions for the contract `GoodE` / `LogicModel`, and the embedding of the
piecewise-linear fragment.
-/
import Rooc.Proofs.LinD10

set_option linter.unusedSectionVars false
set_option linter.unusedSimpArgs false
set_option linter.unusedVariables false

namespace Rooc.LinP
open Rooc Rooc.Lin Rooc.Sem Rooc.Exp
open Rooc.Lin.Gadget (B01)

variable {K : Type} [Field K] [LinearOrder K] [IsStrictOrderedRing K] [FloorRing K]

mutual
/-- syntactic check: every operand of every `and`/`or` node is a logic value in the sense of the linearizer's
own `is_logic_value` (a connective, a negation of one, a 0/1 literal, a Boolean variable). -/
noncomputable def operandsOK (d : List (DomVar (Ext K))) : Exp (Ext K) → Bool
  | .num _ => true
  | .var _ => true
  | .abs e => operandsOK d e
  | .not e => operandsOK d e
  | .un _ e => operandsOK d e
  | .min es => operandsOKList d es
  | .max es => operandsOKList d es
  | .and es => operandsOKList d es && es.all (isLogicValue d)
  | .or es => operandsOKList d es && es.all (isLogicValue d)
  | .xor a b => operandsOK d a && operandsOK d b
  | .implies a b => operandsOK d a && operandsOK d b
  | .iff a b => operandsOK d a && operandsOK d b
  | .bin op a b => operandsOK d a && operandsOK d b &&
      (match op with
       | .and | .or => isLogicValue d a && isLogicValue d b
       | _ => true)
noncomputable def operandsOKList (d : List (DomVar (Ext K))) : List (Exp (Ext K)) → Bool
  | [] => true
  | e :: es => operandsOK d e && operandsOKList d es
end

theorem operandsOKList_iff (d : List (DomVar (Ext K))) : ∀ es : List (Exp (Ext K)),
    operandsOKList d es = true ↔ ∀ e ∈ es, operandsOK d e = true
  | [] => by simp [operandsOKList]
  | e :: es => by simp [operandsOKList, operandsOKList_iff d es]

theorem is01_of_logicValue {d : List (DomVar (Ext K))} {e : Exp (Ext K)} (hlv : isLogicValue d e = true)
    (hsc : ∀ y ∈ varsOf e, inScope d y) {ρ : String → K} (hB : BoolOK ρ d (inScope d)) : Is01 (eval ρ e) := by
  intro v hv
  exact logicValue_b01 hlv hsc hB hv

/-- the syntactic check implies C10's side condition at every assignment satisfying the domains. -/
theorem lo_of_operandsOK {d : List (DomVar (Ext K))} {ρ : String → K} (hB : BoolOK ρ d (inScope d)) :
    ∀ e : Exp (Ext K), operandsOK d e = true → (∀ y ∈ varsOf e, inScope d y) → LogicOperands01 ρ e := by
  intro e
  induction e using Exp.ind with
  | num v => intro _ _; simp [LogicOperands01]
  | var n => intro _ _; simp [LogicOperands01]
  | abs e ih => intro h hsc; simp only [operandsOK] at h; simpa [LogicOperands01] using ih h (by simpa [varsOf] using hsc)
  | not e ih => intro h hsc; simp only [operandsOK] at h; simpa [LogicOperands01] using ih h (by simpa [varsOf] using hsc)
  | un op e ih => intro h hsc; simp only [operandsOK] at h; simpa [LogicOperands01] using ih h (by simpa [varsOf] using hsc)
  | min es ih =>
    intro h hsc
    simp only [operandsOK, operandsOKList_iff] at h
    simp only [LogicOperands01, LogicOperands01List_iff]
    exact fun e he => ih e he (h e he) (fun y hy => hsc y (by simp only [varsOf]; exact mem_varsOfList.mpr ⟨e, he, hy⟩))
  | max es ih =>
    intro h hsc
    simp only [operandsOK, operandsOKList_iff] at h
    simp only [LogicOperands01, LogicOperands01List_iff]
    exact fun e he => ih e he (h e he) (fun y hy => hsc y (by simp only [varsOf]; exact mem_varsOfList.mpr ⟨e, he, hy⟩))
  | and es ih =>
    intro h hsc
    simp only [operandsOK, Bool.and_eq_true, operandsOKList_iff, List.all_eq_true] at h
    have hv : ∀ e ∈ es, ∀ y ∈ varsOf e, inScope d y := fun e he y hy =>
      hsc y (by simp only [varsOf]; exact mem_varsOfList.mpr ⟨e, he, hy⟩)
    simp only [LogicOperands01, LogicOperands01List_iff]
    exact ⟨fun e he => ih e he (h.1 e he) (hv e he), fun e he => is01_of_logicValue (h.2 e he) (hv e he) hB⟩
  | or es ih =>
    intro h hsc
    simp only [operandsOK, Bool.and_eq_true, operandsOKList_iff, List.all_eq_true] at h
    have hv : ∀ e ∈ es, ∀ y ∈ varsOf e, inScope d y := fun e he y hy =>
      hsc y (by simp only [varsOf]; exact mem_varsOfList.mpr ⟨e, he, hy⟩)
    simp only [LogicOperands01, LogicOperands01List_iff]
    exact ⟨fun e he => ih e he (h.1 e he) (hv e he), fun e he => is01_of_logicValue (h.2 e he) (hv e he) hB⟩
  | xor a b iha ihb =>
    intro h hsc
    simp only [operandsOK, Bool.and_eq_true] at h
    exact ⟨iha h.1 (fun y hy => hsc y (by simp [varsOf, hy])), ihb h.2 (fun y hy => hsc y (by simp [varsOf, hy]))⟩
  | implies a b iha ihb =>
    intro h hsc
    simp only [operandsOK, Bool.and_eq_true] at h
    exact ⟨iha h.1 (fun y hy => hsc y (by simp [varsOf, hy])), ihb h.2 (fun y hy => hsc y (by simp [varsOf, hy]))⟩
  | iff a b iha ihb =>
    intro h hsc
    simp only [operandsOK, Bool.and_eq_true] at h
    exact ⟨iha h.1 (fun y hy => hsc y (by simp [varsOf, hy])), ihb h.2 (fun y hy => hsc y (by simp [varsOf, hy]))⟩
  | bin op a b iha ihb =>
    intro h hsc
    simp only [operandsOK, Bool.and_eq_true] at h
    have hva : ∀ y ∈ varsOf a, inScope d y := fun y hy => hsc y (by simp [varsOf, hy])
    have hvb : ∀ y ∈ varsOf b, inScope d y := fun y hy => hsc y (by simp [varsOf, hy])
    refine ⟨iha h.1.1 hva, ihb h.1.2 hvb, ?_⟩
    rintro (rfl | rfl)
    · simp only [Bool.and_eq_true] at h
      exact ⟨is01_of_logicValue h.2.1 hva hB, is01_of_logicValue h.2.2 hvb hB⟩
    · simp only [Bool.and_eq_true] at h
      exact ⟨is01_of_logicValue h.2.1 hva hB, is01_of_logicValue h.2.2 hvb hB⟩

/-- a decidable sufficient condition for the and/or side condition of the contract. -/
theorem loOn_of_operandsOK {d : List (DomVar (Ext K))} (hnd : (d.map (·.name)).Nodup) {e : Exp (Ext K)}
    (h : operandsOK d e = true) (hsc : ∀ y ∈ varsOf e, inScope d y) : LOon d e :=
  fun ρ hd => lo_of_operandsOK (boolOK_of_domSat hnd hd) e h hsc

/-- the piecewise-linear fragment satisfies the contract. -/
theorem GoodE.ofFG {d : List (DomVar (Ext K))} {e : Exp (Ext K)} (h : FG true (inScope d) e) (hd : DefinedE e) :
    GoodE d e :=
  ⟨h.2, finE_of_definedE e h.1 hd, NCon.ofLO (fun ρ _ => logicOperands01_of_frag true ρ e h.1) (fun ρ _ => hd ρ),
    fun ρ _ => hd ρ⟩

theorem LogicModel.ofFragModel {m : Model (Ext K)} {d : List (DomVar (Ext K))} (h : FragModel true m d) :
    LogicModel m d :=
  ⟨(GoodE.ofFG h.obj h.objDefined).toS, fun c hc =>
    have gl := GoodE.ofFG (d := d) (h.cons c hc).lhs
      (fun ρ => by obtain ⟨a, _, ha, _⟩ := (h.cons c hc).defined ρ; exact ⟨a, ha⟩)
    have gr := GoodE.ofFG (d := d) (h.cons c hc).rhs
      (fun ρ => by obtain ⟨_, b, _, hb⟩ := (h.cons c hc).defined ρ; exact ⟨b, hb⟩)
    ⟨gl.toS, gr.toS⟩⟩

end Rooc.LinP
