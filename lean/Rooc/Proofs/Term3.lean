/-
Termination of the mixed Dantzig/Bland loop, part 3: `solve` cannot run into an iteration limit above `2^n·(L+2)`
when the tolerance never decides.
-/
import Rooc.Proofs.Term2
namespace Rooc
namespace Term
variable {K : Type} [Field K] [LinearOrder K] [IsStrictOrderedRing K]
attribute [local instance] exactArith
open Tableau TabSem PivotLemmas StepLemmas BasicSol Bland SepLoop

/-- state of the loop: tableau, stall counter, reference value. -/
structure LState (K : Type) where
  T : Tab K
  st : Nat
  last : K

/-- one iteration of the loop body (`solve_avoiding` without preference list); stuck states stay. -/
noncomputable def nextS (tol : K) (L : Nat) (s : LState K) : LState K :=
  match stepInner tol s.T [] (decide (s.st > L)) with
  | .ok (.pivot _ _ _, T') =>
    if Tol.feq tol T'.value s.last then { T := T', st := s.st + 1, last := s.last }
    else { T := T', st := 0, last := T'.value }
  | _ => s

noncomputable def iterS (tol : K) (L : Nat) (s : LState K) : Nat → LState K
  | 0 => s
  | p+1 => nextS tol L (iterS tol L s p)

theorem iterS_succ' (tol : K) (L : Nat) (s : LState K) : ∀ p, iterS tol L s (p+1) = iterS tol L (nextS tol L s) p
  | 0 => rfl
  | p+1 => by rw [iterS, iterS_succ' tol L s p]; rfl

/-- if the loop runs out of fuel, every one of its `fuel` iterations was a pivot. -/
theorem limit_all_pivots {tol : K} {L : Nat} : ∀ (fuel : Nat) (s : LState K) (acc : List (Tab K × Nat × Nat × K)),
    (solveLoop tol [] L fuel s.T s.st s.last acc).result = .error .iterationLimit →
    ∀ p, p < fuel → ∃ h t r T', stepInner tol (iterS tol L s p).T [] (decide ((iterS tol L s p).st > L)) =
      .ok (.pivot h t r, T')
  | 0, _, _, _, p, hp => by omega
  | fuel+1, s, acc, hres, p, hp => by
    simp only [solveLoop] at hres
    split at hres
    · rename_i e hs
      obtain ⟨rfl, -⟩ := stepInner_unbounded hs
      simp at hres
    · simp at hres
    · rename_i hh tt ratio T' hs
      cases p with
      | zero => exact ⟨hh, tt, ratio, T', hs⟩
      | succ p =>
        rw [iterS_succ']
        have hn : nextS tol L s = (if Tol.feq tol T'.value s.last then { T := T', st := s.st + 1, last := s.last }
            else { T := T', st := 0, last := T'.value } : LState K) := by
          simp only [nextS, hs]
        split at hres
        · rename_i hfe
          rw [hn, if_pos hfe]
          exact limit_all_pivots fuel { T := T', st := s.st + 1, last := s.last } _ hres p (by omega)
        · rename_i hfe
          rw [hn, if_neg hfe]
          exact limit_all_pivots fuel { T := T', st := 0, last := T'.value } _ hres p (by omega)

theorem reach_tail {tol : K} {prefer : List Nat} {T T' T'' : Tab K} {bland : Bool} {act : StepAction K}
    (h : Reach tol prefer T T') (hs : stepInner tol T' prefer bland = .ok (act, T'')) : Reach tol prefer T T'' := by
  induction h with
  | refl T => exact .head hs (.refl _)
  | head hs' _ ih => exact .head hs' (ih hs)

/-- "the tolerance never decides" along the runs from `T`: every reachable tableau is separated, and a pivot changes
`value` by `0` or by at least `tol`. -/
def ExactAll (tol : K) (T : Tab K) : Prop :=
  ∀ T', Reach tol [] T T' → Sep tol T' ∧
    ∀ bland h t r T'', stepInner tol T' [] bland = .ok (.pivot h t r, T'') →
      (T''.value = T'.value ∨ tol ≤ |T''.value - T'.value|)

/-- **`solve` terminates**: with `tol > 0`, from a canonical feasible tableau, when the tolerance never decides, an
iteration limit above `2^n·(stall_limit + 2)` is never reached. -/
theorem solve_no_limit {tol : K} (ht : 0 < tol) {T : Tab K} {m n : Nat} (hC : Canon T m n) {c0 : List K}
    (hO : ObjInv T c0) (hF : Feasible T) (hE : ExactAll tol T) (se limit : Nat)
    (hlim : 2 ^ n * (n + m + se + 2) < limit) :
    (solve tol se limit [] T).result ≠ .error .iterationLimit := by
  intro hres
  set L := T.c.length + T.a.length + se with hL
  have hLe : L = n + m + se := by rw [hL, hC.rect.costs, hC.rect.rows]
  set s0 : LState K := { T := T, st := 0, last := T.value } with hs0
  have hpiv := limit_all_pivots (tol := tol) (L := L) limit s0 [] (by simpa [solve, hs0, hL] using hres)
  -- the run
  let Ts : Nat → Tab K := fun p => (iterS tol L s0 p).T
  let sts : Nat → Nat := fun p => (iterS tol L s0 p).st
  -- invariants of the iteration
  have hinv : ∀ p, p ≤ limit → Reach tol [] T (Ts p) ∧ (iterS tol L s0 p).last = (Ts p).value := by
    intro p
    induction p with
    | zero => intro _; exact ⟨.refl _, rfl⟩
    | succ p ih =>
      intro hp
      obtain ⟨hr, hl⟩ := ih (by omega)
      obtain ⟨h, t, r, T', hs⟩ := hpiv p (by omega)
      have hsep := (hE _ hr).2 _ h t r T' hs
      have hnext : iterS tol L s0 (p+1) = (if Tol.feq tol T'.value (iterS tol L s0 p).last then
          { T := T', st := (iterS tol L s0 p).st + 1, last := (iterS tol L s0 p).last }
          else { T := T', st := 0, last := T'.value } : LState K) := by
        show nextS tol L (iterS tol L s0 p) = _
        simp only [nextS, hs]
      have hT' : Ts (p+1) = T' := by
        show (iterS tol L s0 (p+1)).T = T'
        rw [hnext]; split <;> rfl
      refine ⟨by rw [hT']; exact reach_tail hr hs, ?_⟩
      rw [hT', hnext]
      by_cases hfe : Tol.feq tol T'.value (iterS tol L s0 p).last = true
      · rw [if_pos hfe]
        show (iterS tol L s0 p).last = T'.value
        rw [hl] at hfe ⊢
        exact ((feq_iff_eq ht hsep).1 hfe).symm
      · rw [if_neg hfe]
  -- entering column, leaving row and ratio of every step, read off the step itself
  let actOf : Nat → Nat × Nat × K := fun p =>
    match stepInner tol (Ts p) [] (decide (sts p > L)) with
    | .ok (.pivot h t r, _) => (h, t, r)
    | _ => (0, 0, 0)
  have hstep : ∀ p, p < limit →
      stepInner tol (Ts p) [] (decide (sts p > L)) = .ok (.pivot (actOf p).1 (actOf p).2.1 (actOf p).2.2, Ts (p+1)) := by
    intro p hp
    obtain ⟨h, t, r, T', hs⟩ := hpiv p hp
    have hT' : Ts (p+1) = T' := by
      show (nextS tol L (iterS tol L s0 p)).T = T'
      simp only [nextS, hs]; split <;> rfl
    have ha : actOf p = (h, t, r) := by
      show (match stepInner tol (iterS tol L s0 p).T [] (decide ((iterS tol L s0 p).st > L)) with
        | .ok (.pivot h t r, _) => (h, t, r)
        | _ => (0, 0, 0)) = (h, t, r)
      rw [hs]
    rw [ha, hT']; exact hs
  have hfeas : ∀ p, p ≤ limit → Feasible (Ts p) ∧ Canon (Ts p) m n := by
    intro p
    induction p with
    | zero => intro _; exact ⟨hF, hC⟩
    | succ p ih =>
      intro hp
      obtain ⟨hFp, hCp⟩ := ih (by omega)
      have hs := hstep p (by omega)
      exact ⟨stepInner_feasible_sep ht hCp.rect (hE _ (hinv p (by omega)).1).1 hFp hs, (stepInner_preserves hCp hs).1⟩
  have R : LoopRun tol m n L limit c0 Ts (fun p => (actOf p).1) (fun p => (actOf p).2.1) (fun p => (actOf p).2.2) sts := by
    refine ⟨hC, hO, rfl, hstep, ?_, fun p hp => (hE _ (hinv p hp).1).1, fun p hp => (hfeas p hp).1⟩
    intro p hp
    have hs := hstep p hp
    obtain ⟨hr, hl⟩ := hinv p (by omega)
    have hsep := (hE _ hr).2 _ _ _ _ _ hs
    have hs' : stepInner tol (iterS tol L s0 p).T [] (decide ((iterS tol L s0 p).st > L)) =
        .ok (.pivot (actOf p).1 (actOf p).2.1 (actOf p).2.2, Ts (p+1)) := hs
    show (nextS tol L (iterS tol L s0 p)).st = _
    simp only [nextS, hs']
    rw [hl]
    by_cases e : (Ts (p+1)).value = (Ts p).value
    · rw [if_pos ((feq_iff_eq ht hsep).2 e), if_pos e]
    · have : ¬ Tol.feq tol (Ts (p+1)).value (Ts p).value = true := fun hc => e ((feq_iff_eq ht hsep).1 hc)
      rw [if_neg this, if_neg e]
  have := run_length_le ht R
  rw [hLe] at this
  omega

/-- the loop never answers `Other`. -/
theorem solveLoop_ne_other {tol : K} {prefer : List Nat} {L : Nat} :
    ∀ (fuel : Nat) (T : Tab K) (stalls : Nat) (last : K) (acc : List (Tab K × Nat × Nat × K)),
      (solveLoop tol prefer L fuel T stalls last acc).result ≠ .error .other
  | 0, _, _, _, _ => by simp [solveLoop]
  | fuel+1, T, stalls, last, acc => by
    simp only [solveLoop]
    split
    · rename_i e hs
      obtain ⟨rfl, -⟩ := stepInner_unbounded hs
      simp
    · simp
    · split
      · exact solveLoop_ne_other fuel _ _ _ _
      · exact solveLoop_ne_other fuel _ _ _ _

end Term
end Rooc
