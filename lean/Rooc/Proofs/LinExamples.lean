/-
Concrete models used by the non-vacuity examples of `Rooc/Props/C01.lean` / `C02.lean`: the port is run
symbolically (equation lemmas + `simp`), over every ordered field at once.
-/
import Rooc.Proofs.LinC10

set_option linter.unusedSectionVars false
set_option linter.unusedSimpArgs false
set_option linter.unusedVariables false

namespace Rooc.LinP
open Rooc Rooc.Lin Rooc.Sem Rooc.Exp
variable {K : Type} [Field K] [LinearOrder K] [IsStrictOrderedRing K] [FloorRing K]

/-- `min x  s.t.  c: x ≤ y`, `x, y` free reals. -/
def exAffine : Model (Ext K) :=
  { optType := .min, objective := .var "x",
    constraints := [{ name := "c", lhs := .var "x", cmp := .le, rhs := .var "y", isAssert := false }],
    domain := [{ name := "x", ty := .real .ninf .pinf, usage := 1 }, { name := "y", ty := .real .ninf .pinf, usage := 1 }] }

def exRow : MidRow (Ext K) :=
  { name := "c", lhs := [("x", Ext.fin 1), ("y", Ext.fin (-1))], rhs := Ext.fin 0, cmp := .le }

theorem exAffine_emit (s : St (Ext K)) :
    emitConstraint (.var "x" : Exp (Ext K)) .le (.var "y") "c" s
      = .ok ((), { s with rows := s.rows ++ [exRow] }) := by
  rw [emitConstraint_ok]
  refine ⟨.bin .sub (.var "x") (.var "y"), ⟨[("x", Ext.fin 1), ("y", Ext.fin (-1))], Ext.fin 0⟩, s, ?_, ?_, ?_⟩
  · simp [normalizeExp, flattenFuel, flattenF, simplify, subCore]
  · simp [linExp, bind_ok, pure_ok]
    simp [Ctx.mergeSub, fromVar_eq, Ctx.addVar, Ctx.addRhs]
  · simp [exRow]

theorem exAffine_sf (x : String) (s : St (Ext K)) : simplifyFlat (.var x : Exp (Ext K)) s = .ok (.var x, s) := by
  simp [simplifyFlat, normalizeExp, flattenFuel, flattenF, simplify, pure_ok]

theorem exAffine_proc (s : St (Ext K)) : processConstraint
    ({ name := "c", lhs := .var "x", cmp := .le, rhs := .var "y", isAssert := false } : Constraint (Ext K)) s
      = .ok ((), { s with rows := s.rows ++ [exRow] }) := by
  unfold processConstraint dispatch
  simp only [bind_ok, get_ok]
  refine ⟨_, _, exAffine_sf "x" s, _, _, exAffine_sf "y" s, ?_⟩
  simp only [Bool.false_eq_true, if_false, bind_ok, get_ok]
  refine ⟨s, s, rfl, ?_⟩
  have : tryNormalize s.domain (.var "x" : Exp (Ext K)) .le (.var "y") = none := by
    simp [tryNormalize]
  simp only [this]
  exact exAffine_emit s

theorem exAffine_drain (s : St (Ext K)) (hs : s.queue = (exAffine : Model (Ext K)).constraints) :
    drain drainFuel s = .ok ((), { s with queue := [], rows := s.rows ++ [exRow] }) := by
  have h1 : drainFuel = 999998 + 1 + 1 := rfl
  rw [h1, drain_succ]
  simp only [bind_ok, get_ok]
  refine ⟨s, s, rfl, ?_⟩
  simp only [hs, exAffine, bind_ok, set_ok]
  refine ⟨_, _, rfl, _, _, exAffine_proc _, ?_⟩
  rw [drain_succ]
  simp only [bind_ok, get_ok]
  exact ⟨_, _, rfl, by simp [pure_ok]⟩


/-- the compiled model exists … -/
theorem exAffine_ok_of (b : BoundsMap (Ext K)) (d : List (DomVar (Ext K))) :
    ∃ lm, linearizeWith (exAffine : Model (Ext K)) b d = .ok lm := by
  let s0 : St (Ext K) := { queue := (exAffine : Model (Ext K)).constraints, domain := d, bounds := b }
  refine ⟨_, (linearizeWith_ok_iff _ _ _ _).mpr
    ⟨.var "x", s0, Ctx.fromVar "x" Arith.one, s0, _, exAffine_sf "x" _, ?_, exAffine_drain s0 rfl, rfl⟩⟩
  simp [linExp, pure_ok]

theorem exAffine_ok : ∃ lm, linearizeWith (exAffine : Model (Ext K)) [] (exAffine : Model (Ext K)).domain = .ok lm :=
  exAffine_ok_of _ _

/-- … and the model satisfies every hypothesis of `c01_affine` / `c02_affine`. -/
theorem exAffine_hyps : AffineModel (exAffine : Model (Ext K)) (exAffine : Model (Ext K)).domain ∧
    (∀ c ∈ (exAffine : Model (Ext K)).constraints, DefinedC c) ∧
    DomRel (exAffine : Model (Ext K)) (exAffine : Model (Ext K)).domain := by
  have sx : inScope (exAffine : Model (Ext K)).domain "x" :=
    ⟨{ name := "x", ty := .real .ninf .pinf, usage := 1 }, by simp [exAffine], rfl, by simp⟩
  have sy : inScope (exAffine : Model (Ext K)).domain "y" :=
    ⟨{ name := "y", ty := .real .ninf .pinf, usage := 1 }, by simp [exAffine], rfl, by simp⟩
  refine ⟨⟨AG_var.mpr sx, ?_⟩, ?_, ⟨by simp [exAffine], fun _ h => h, ?_, ?_⟩⟩
  · intro c hc
    simp only [exAffine, List.mem_singleton] at hc
    subst hc
    exact ⟨rfl, AG_var.mpr sx, AG_var.mpr sy⟩
  · intro c hc ρ
    simp only [exAffine, List.mem_singleton] at hc
    subst hc
    exact ⟨ρ "x", ρ "y", by simp [eval], by simp [eval]⟩
  · intro ρ h; exact ((srcFeasible_iff _ ρ).mp h).2
  · intro dv hdv hu; exact ⟨dv, hdv, rfl, hu⟩

end Rooc.LinP
