/-
C12 helper lemmas: the program-level parser model (C11, `Syntax/Program.lean`) on programs whose expressions
are written by ANY rendering in the sense of `Tk` (C09) — generalises `parseProgram_fmt`, which is about the
minimal printer `fmtToks`, so that the renderings of `Display for Model` / `Display for LinearModel` fit.
-/
import Rooc.Proofs.Program
import Rooc.DisplayProgram
namespace Rooc.Syntax.Proofs
open Rooc Rooc.Syntax Rooc.Display

theorem tk_cons {t : PExp} {ts : List Tok} {items : List Item} (hk : Tk t ts items) : ∃ tk tl, ts = tk :: tl := by
  obtain ⟨tk, tl, e, _⟩ := tk_head hk
  exact ⟨tk, tl, e⟩

/-- one rendered expression followed by a terminator is read back -/
theorem expAt_tk {t : PExp} {ts : List Tok} {items : List Item} (hk : Tk t ts items) {rest : List Tok} (hc : Closed rest) :
    expAt (ts ++ rest) = .ok (t, rest) :=
  parseExp_of_main (tk_main hk).1 hk.toIR hc _ (by simp [parseFuel])

theorem skipNl_tk {t : PExp} {ts : List Tok} {items : List Item} (hk : Tk t ts items) (rest : List Tok) :
    skipNl (ts ++ rest) = ts ++ rest := skipNl_start (tk_head hk) rest

/-- a rendered line the constraint rule reads back.  `name_nofor` / `lhs_nofor`: the line does not begin with a word
that reads `for` in some letter case — `for_iteration = _{ ^"for" ~ … }` is matched in any letter case, and the line
could be taken for the iteration of the line before it (`x >= 1␤FOR and IN - y >= 0`) -/
structure LineOk (l : Line) : Prop where
  name_ok : ∀ n, l.name = some n → isKeyword n = false
  lhs_tk : ∃ items, Tk l.lhs l.ltoks items
  rhs_tk : ∀ c r rt, l.cmp = some (c, r, rt) → ∃ items, Tk r rt items
  name_nofor : ∀ n, l.name = some n → lowerWord n ≠ "for"
  lhs_nofor : ∀ w, headName l.lhs = some w → lowerWord w ≠ "for"

theorem LineOk.nofor {l : Line} (h : LineOk l) : NotForHead l.toks := by
  obtain ⟨_, ⟨il, hl⟩, _, hn, hw⟩ := h
  unfold Line.toks
  cases hnm : l.name with
  | none =>
    simp only [List.nil_append]
    exact notForHead_tk hl hw _
  | some n =>
    intro w r e
    simp only [List.cons_append, List.nil_append, List.append_assoc] at e
    injection e with e1 _
    injection e1 with e1
    subst e1
    exact hn n hnm

theorem parseConstraint_line {l : Line} (h : LineOk l) (rest : List Tok) (hnf : ¬ ForLike (.nl :: rest)) :
    parseConstraint (l.toks ++ .nl :: rest) = .ok (l.pc, .nl :: rest) := by
  obtain ⟨hn, ⟨il, hl⟩, hr, _, _⟩ := h
  obtain ⟨name, lhs, ltoks, cmp⟩ := l
  simp only at hn hl hr
  have hof := optFor_none hnf
  have hbody : ∀ nm, constraintBody nm (ltoks ++ (tailToks cmp ++ .nl :: rest)) =
      .ok ({ name := nm, lhs := lhs, cmp := tailCmp cmp, rhs := tailRhs cmp, logic := cmp.isNone,
             iterVars := [], iters := [] }, .nl :: rest) := by
    intro nm
    unfold constraintBody
    cases cmp with
    | none =>
      simp only [tailToks, tailCmp, tailRhs, List.nil_append]
      rw [expAt_tk hl (closed_nl rest)]
      simp [cmpOfTok, hof]
    | some crt =>
      obtain ⟨c, r, rt⟩ := crt
      obtain ⟨ir, hrk⟩ := hr c r rt rfl
      simp only [tailToks, tailCmp, tailRhs, List.cons_append]
      rw [expAt_tk hl (closed_cmp c _)]
      simp only [cmpOfTok_cmpTok]
      rw [expAt_tk hrk (closed_nl rest)]
      simp [hof]
  unfold parseConstraint Line.toks Line.pc
  cases name with
  | none =>
    have hcn : constraintName (ltoks ++ (tailToks cmp ++ .nl :: rest))
        = .ok (none, ltoks ++ (tailToks cmp ++ .nl :: rest)) := by
      cases cmp with
      | none => simpa [tailToks] using constraintName_none hl (x := .nl) (tail := rest) (by simp) (by simp)
      | some crt =>
        obtain ⟨c, r, rt⟩ := crt
        have := constraintName_none hl (x := cmpTok c) (tail := rt ++ .nl :: rest)
          (by cases c <;> simp [cmpTok]) (by cases c <;> simp [cmpTok])
        simpa [tailToks] using this
    simp only [List.nil_append, List.append_assoc, Option.map_none]
    rw [hcn]
    exact hbody none
  | some n =>
    have hk := hn n rfl
    have hcn := nameAt_plain hk (.colon :: (ltoks ++ (tailToks cmp ++ .nl :: rest))) (by intro tl e; cases e)
    simp only [List.cons_append, List.nil_append, List.append_assoc, constraintName, Option.map_some]
    rw [hcn]
    simp only [skipNl_tk hl]
    exact hbody (some (.plain n))

theorem line_head {l : Line} (h : LineOk l) : ∃ tk tl, l.toks = tk :: tl ∧ startTok tk = true := by
  obtain ⟨_, ⟨il, hl⟩, _, _, _⟩ := h
  unfold Line.toks
  cases l.name with
  | none => simp only [List.nil_append]; exact start_append (tk_head hl) _
  | some n => simp only [List.cons_append, List.nil_append, List.append_assoc]; exact ⟨_, _, rfl, rfl⟩

theorem skipNl_line {l : Line} (h : LineOk l) (rest : List Tok) : skipNl (l.toks ++ rest) = l.toks ++ rest :=
  skipNl_start (line_head h) rest

/-- what follows a line in the list: the next line or what follows the list -/
theorem nextLine_notFor : ∀ (ls : List Line), (∀ l ∈ ls, LineOk l) → ∀ (X : List Tok), StopsC X →
    skipNl (linesToks ls ++ X) = linesToks ls ++ X ∧ NotForHead (linesToks ls ++ X)
  | [], _, X, hX => by simpa [linesToks] using (stopsC_spec hX).2
  | l :: ls, h, X, hX => by
    have hl := h l List.mem_cons_self
    obtain ⟨tk, tl, hh, hs⟩ := line_head hl
    simp only [linesToks, List.append_assoc, List.cons_append]
    exact ⟨skipNl_line hl _, notFor_append hl.nofor (by rw [hh]; simp) _⟩

theorem loopLines : ∀ (ls : List Line), (∀ l ∈ ls, LineOk l) → ∀ (X : List Tok) (acc : List PConstraint) (f : Nat),
    StopsC X → ls.length < f →
    parseConstraints f (.nl :: (linesToks ls ++ X)) acc = .ok (acc ++ ls.map Line.pc, .nl :: X)
  | [], _, X, acc, f, hX, hf => by
    obtain ⟨f', rfl⟩ : ∃ f', f = f' + 1 := ⟨f - 1, by simp at hf; omega⟩
    obtain ⟨h1, h2, _⟩ := stopsC_spec hX
    simp [parseConstraints, linesToks, skipNl, h2, h1]
  | l :: ls, h, X, acc, f, hX, hf => by
    obtain ⟨f', rfl⟩ : ∃ f', f = f' + 1 := ⟨f - 1, by simp at hf; omega⟩
    have hc := h l List.mem_cons_self
    have hls := fun d hd => h d (List.mem_cons_of_mem _ hd)
    have ih := loopLines ls hls X (acc ++ [l.pc]) f' hX (by simp at hf; omega)
    obtain ⟨hn1, hn2⟩ := nextLine_notFor ls hls X hX
    simp only [parseConstraints, linesToks, skipNl, List.append_assoc, List.cons_append]
    rw [skipNl_line hc, parseConstraint_line hc _ (notForLike_nl hn1 hn2)]
    simp only [ih]
    simp

theorem linesToks_len : ∀ (ls : List Line), ls.length ≤ (linesToks ls).length
  | [] => by simp [linesToks]
  | l :: ls => by have := linesToks_len ls; simp [linesToks]; omega

theorem firstLines {l : Line} {ls : List Line} (h : ∀ d ∈ l :: ls, LineOk d) (X : List Tok) (hX : StopsC X) :
    parseConstraints ((linesToks (l :: ls) ++ X).length + 1) (linesToks (l :: ls) ++ X) [] = .ok ((l :: ls).map Line.pc, .nl :: X) := by
  have hc := h l List.mem_cons_self
  have hls := fun d hd => h d (List.mem_cons_of_mem _ hd)
  have hlen : ls.length < (linesToks (l :: ls) ++ X).length := by
    have := linesToks_len ls
    simp [linesToks]; omega
  obtain ⟨hn1, hn2⟩ := nextLine_notFor ls hls X hX
  simp only [parseConstraints, linesToks, List.append_assoc, List.cons_append]
  rw [skipNl_line hc, parseConstraint_line hc _ (notForLike_nl hn1 hn2)]
  have := loopLines ls hls X [l.pc] _ hX (by simpa [linesToks] using hlen)
  simpa [linesToks] using this

theorem line_buildErr {l : Line} (h : LineOk l) : l.pc.buildErr = none := by
  obtain ⟨_, ⟨il, hl⟩, hr, _, _⟩ := h
  unfold PConstraint.buildErr Line.pc
  apply firstErr_none
  intro x hx
  simp only [List.mem_cons, List.not_mem_nil, or_false] at hx
  rcases hx with rfl | rfl | rfl | rfl
  · cases l.name <;> rfl
  · rfl
  · exact tk_valid hl
  · cases hc : l.cmp with
    | none => simp [tailRhs, buildErr]
    | some crt =>
      obtain ⟨c, r, rt⟩ := crt
      obtain ⟨ir, hrk⟩ := hr c r rt hc
      simpa [tailRhs] using tk_valid hrk

/-- what the PEG phase reads of the objective line -/
def rawObj (kind : ObjKind) (obj : PExp) : RawObjective :=
  RawObjective.mk kind.text (match kind with | .solve => none | _ => some obj)

/-- **Whole programs, any rendering**: objective, at least one constraint line, `define` block.  No line and no
declaration begins with a word that reads `for` (`LineOk.nofor`, `hdn`). -/
theorem parseProgram_lines (kind : ObjKind) (obj : PExp) (otoks : List Tok)
    (hobj : match kind with | .solve => obj = .bool true | _ => ∃ items, Tk obj otoks items)
    (l : Line) (ls : List Line) (hls : ∀ d ∈ l :: ls, LineOk d) (ds : List PDomain) (hds : ∀ d ∈ ds, WFd d)
    (hdn : ∀ d ∈ ds, NotForHead (domainToks d)) :
    parseProgram (progToksOf kind otoks (l :: ls) ds) = .ok (progOf kind obj (l :: ls) ds) := by
  have hdx : ∀ d ∈ ds, WFdx d := fun d hd => wfd_wfdx (hds d hd) (hdn d hd)
  have hdecl : declToks ds = declToksL [] ds := by simp [declToks, declToksL]
  have hraw : parseProgramRaw (progToksOf kind otoks (l :: ls) ds)
      = .ok (RawProgram.mk (rawObj kind obj) ((l :: ls).map Line.pc) [] (ds.map rawDomain)) := by
    unfold progToksOf
    rw [hdecl]
    have hO : ∀ T, parseObjective (skipNl (objToks kind otoks ++ .nl :: T))
        = .ok (rawObj kind obj, .nl :: T) := by
      intro T
      cases kind with
      | solve =>
        have h1 : (lowerWord "solve" == "min") = false := by decide
        have h2 : (lowerWord "solve" == "max") = false := by decide
        have h3 : (lowerWord "solve" == "solve") = true := by decide
        simp [objToks, skipNl, parseObjective, ObjKind.text, rawObj, h1, h2, h3]
      | min =>
        obtain ⟨items, hk⟩ := hobj
        have h1 : (lowerWord "min" == "min") = true := by decide
        simp only [objToks, List.cons_append, skipNl, parseObjective, h1, Bool.true_or, if_true]
        rw [expAt_tk hk (closed_nl T)]
        rfl
      | max =>
        obtain ⟨items, hk⟩ := hobj
        have h1 : (lowerWord "max" == "max") = true := by decide
        simp only [objToks, List.cons_append, skipNl, parseObjective, h1, Bool.or_true, if_true]
        rw [expAt_tk hk (closed_nl T)]
        rfl
    unfold parseProgramRaw
    rw [hO]
    simp only [needNl, skipNl]
    have hsk : skipNl (linesToks (l :: ls) ++ declToksL [] ds) = linesToks (l :: ls) ++ declToksL [] ds := by
      simp only [linesToks, List.append_assoc, List.cons_append]
      exact skipNl_line (hls l List.mem_cons_self) _
    rw [hsk, firstLines hls _ (decl_stops [] ds)]
    exact parse_decls [] ds (by simp) hdx _ _
  have hbo : buildObjective (rawObj kind obj) = .ok (kind, obj) := by
    cases kind with
    | solve => simp only at hobj; subst hobj; simp [buildObjective, ObjKind.text, rawObj]
    | min => obtain ⟨items, hk⟩ := hobj; simp [buildObjective, ObjKind.text, rawObj, tk_valid hk]
    | max =>
      obtain ⟨items, hk⟩ := hobj
      have : ("max" == "min") = false := by decide
      simp [buildObjective, ObjKind.text, rawObj, tk_valid hk]
  have hb := buildProgram_ok (raw := RawProgram.mk (rawObj kind obj) ((l :: ls).map Line.pc) [] (ds.map rawDomain)) hbo
    (by
      intro c hc
      simp only [List.mem_map] at hc
      obtain ⟨d, hd, rfl⟩ := hc
      exact line_buildErr (hls d hd))
    (by intro k hk; cases hk) (buildDomains_raw ds hdx)
  unfold parseProgram
  rw [hraw]
  simp only [hb]
  rfl

end Rooc.Syntax.Proofs
