/-
C12 helper lemmas: the program-level parser model (C11, `Syntax/Program.lean`) on programs whose expressions
are written by ANY rendering in the sense of `Tk` (C09) — generalises `parseProgram_fmt`, which is about the
minimal printer `fmtToks`, so that the renderings of `Display for Model` / `Display for LinearModel` fit.
-/
import Rooc.Proofs.Program
import Rooc.DisplayProgram
namespace Rooc.Syntax.Proofs
open Rooc Rooc.Syntax Rooc.Display

theorem atom_expr {a : PExp} {tk : Tok} (h : Atom a tk) : isExprTok tk = true := by cases h <;> rfl
theorem binToks_expr {o : BinOp} {tk : Tok} (h : tk ∈ binToks o) : isExprTok tk = true := by
  cases o <;> simp [binToks] at h <;> (first | (subst h; rfl) | (rcases h with h | h <;> subst h <;> rfl))
theorem unToks_expr {u : UnOp} {tk : Tok} (h : tk ∈ unToks u) : isExprTok tk = true := by
  cases u <;> simp [unToks] at h <;> (first | (subst h; rfl) | (rcases h with h | h <;> subst h <;> rfl))

mutual
theorem tk_expr {t : PExp} {ts : List Tok} {items : List Item} : Tk t ts items → ∀ tk ∈ ts, isExprTok tk = true
  | .atom ha => by intro tk h; simp at h; subst h; exact atom_expr ha
  | .paren hk => by
    intro tk h
    simp at h
    rcases h with rfl | h | rfl
    · rfl
    · exact tk_expr hk tk h
    · rfl
  | .un hk hu => by
    intro tk h
    rcases List.mem_cons.mp h with rfl | h
    · exact unToks_expr hu
    · exact tk_expr hk tk h
  | .bin hl hr _ _ ho => by
    intro tk h
    rcases List.mem_append.mp h with h | h
    · exact tk_expr hl tk h
    · rcases List.mem_cons.mp h with rfl | h
      · exact binToks_expr ho
      · exact tk_expr hr tk h
  | .imul hj hv _ => by
    intro tk h
    rcases List.mem_append.mp h with h | h
    · exact juxt_expr hj tk h
    · cases hv with
      | none => simp at h
      | var n _ => simp at h; subst h; rfl
  | .call _ _ ha => by
    intro tk h
    simp at h
    rcases h with rfl | rfl | h | rfl
    · rfl
    · rfl
    · exact args_expr ha tk h
    · rfl
theorem juxt_expr {es : List PExp} {ts : List Tok} : Juxt es ts → ∀ tk ∈ ts, isExprTok tk = true
  | .nil => by simp
  | .int _ hj => by
    intro tk h
    rcases List.mem_cons.mp h with rfl | h
    · rfl
    · exact juxt_expr hj tk h
  | .num hj => by
    intro tk h
    rcases List.mem_cons.mp h with rfl | h
    · rfl
    · exact juxt_expr hj tk h
  | .paren hk hj => by
    intro tk h
    simp at h
    rcases h with rfl | h | rfl | h
    · rfl
    · exact tk_expr hk tk h
    · rfl
    · exact juxt_expr hj tk h
theorem args_expr {as : List PExp} {ts : List Tok} : Args as ts → ∀ tk ∈ ts, isExprTok tk = true
  | .nil => by simp
  | .one hk => tk_expr hk
  | .cons hk ha => by
    intro tk h
    rcases List.mem_append.mp h with h | h
    · exact tk_expr hk tk h
    · rcases List.mem_cons.mp h with rfl | h
      · rfl
      · exact args_expr ha tk h
end

theorem tk_cons {t : PExp} {ts : List Tok} {items : List Item} (hk : Tk t ts items) : ∃ tk tl, ts = tk :: tl := by
  cases hd : ts with
  | cons tk tl => exact ⟨tk, tl, rfl⟩
  | nil =>
    exfalso
    rw [hd] at hk
    have := parse_tk hk
    simp [parseToks, parseFuel, parseExp, collect, optUnary, leaf] at this

/-- one rendered expression followed by a terminator is read back -/
theorem expAt_tk {t : PExp} {ts : List Tok} {items : List Item} (hk : Tk t ts items) {rest : List Tok} (hc : Closed rest) :
    expAt (ts ++ rest) = .ok (t, rest) :=
  parseExp_of_main (tk_main hk).1 hk.toIR hc _ (by simp [parseFuel]; omega)

theorem skipNl_tk {t : PExp} {ts : List Tok} {items : List Item} (hk : Tk t ts items) (rest : List Tok) :
    skipNl (ts ++ rest) = ts ++ rest := by
  obtain ⟨tk, tl, rfl⟩ := tk_cons hk
  exact skipNl_expr (tk_expr hk tk (by simp)) _

structure LineOk (l : Line) : Prop where
  name_ok : ∀ n, l.name = some n → isKeyword n = false
  lhs_tk : ∃ items, Tk l.lhs l.ltoks items
  rhs_tk : ∀ c r rt, l.cmp = some (c, r, rt) → ∃ items, Tk r rt items

theorem parseConstraint_line {l : Line} (h : LineOk l) (rest : List Tok) :
    parseConstraint (l.toks ++ .nl :: rest) = .ok (l.pc, .nl :: rest) := by
  obtain ⟨hn, ⟨il, hl⟩, hr⟩ := h
  obtain ⟨name, lhs, ltoks, cmp⟩ := l
  simp only at hn hl hr
  have hbody : ∀ nm, constraintBody nm (ltoks ++ (tailToks cmp ++ .nl :: rest)) =
      .ok ({ name := nm, lhs := lhs, cmp := tailCmp cmp, rhs := tailRhs cmp, logic := cmp.isNone,
             iterVars := [], iters := [] }, .nl :: rest) := by
    intro nm
    unfold constraintBody
    cases cmp with
    | none =>
      simp only [tailToks, tailCmp, tailRhs, List.nil_append]
      rw [expAt_tk hl (closed_nl rest)]
      simp [cmpOfTok]
    | some crt =>
      obtain ⟨c, r, rt⟩ := crt
      obtain ⟨ir, hrk⟩ := hr c r rt rfl
      simp only [tailToks, tailCmp, tailRhs, List.cons_append]
      rw [expAt_tk hl (closed_of_term (cmpTok_term c) _)]
      simp only [cmpOfTok_cmpTok]
      rw [expAt_tk hrk (closed_nl rest)]
      simp
  unfold parseConstraint Line.toks Line.pc
  cases name with
  | none =>
    have hcn : constraintName (ltoks ++ (tailToks cmp ++ .nl :: rest))
        = (none, ltoks ++ (tailToks cmp ++ .nl :: rest)) := by
      cases cmp with
      | none => simpa [tailToks] using constraintName_none (x := .nl) (tail := rest) (tk_cons hl) (tk_expr hl) (by simp)
      | some crt =>
        obtain ⟨c, r, rt⟩ := crt
        have := constraintName_none (x := cmpTok c) (tail := rt ++ .nl :: rest) (tk_cons hl) (tk_expr hl)
          (by cases c <;> simp [cmpTok])
        simpa [tailToks] using this
    simp only [List.nil_append, List.append_assoc, Option.map_none]
    rw [hcn]
    exact hbody none
  | some n =>
    have hk := hn n rfl
    simp only [List.cons_append, List.nil_append, List.append_assoc, constraintName, hk, Option.map_some]
    simp only [Bool.false_eq_true, if_false, skipNl_tk hl]
    exact hbody (some (.plain n))

theorem skipNl_line {l : Line} (h : LineOk l) (rest : List Tok) : skipNl (l.toks ++ rest) = l.toks ++ rest := by
  obtain ⟨_, ⟨il, hl⟩, _⟩ := h
  unfold Line.toks
  cases l.name with
  | none => simp only [List.nil_append, List.append_assoc]; exact skipNl_tk hl _
  | some n => simp [skipNl]

theorem loopLines : ∀ (ls : List Line), (∀ l ∈ ls, LineOk l) → ∀ (X : List Tok) (acc : List PConstraint) (f : Nat),
    StopsC X → ls.length < f →
    parseConstraints f (.nl :: (linesToks ls ++ X)) acc = .ok (acc ++ ls.map Line.pc, .nl :: X)
  | [], _, X, acc, f, hX, hf => by
    obtain ⟨f', rfl⟩ : ∃ f', f = f' + 1 := ⟨f - 1, by simp at hf; omega⟩
    obtain ⟨h1, h2⟩ := stopsC_spec hX
    simp [parseConstraints, linesToks, skipNl, h2, h1]
  | l :: ls, h, X, acc, f, hX, hf => by
    obtain ⟨f', rfl⟩ : ∃ f', f = f' + 1 := ⟨f - 1, by simp at hf; omega⟩
    have hc := h l List.mem_cons_self
    have ih := loopLines ls (fun d hd => h d (List.mem_cons_of_mem _ hd)) X (acc ++ [l.pc]) f' hX (by simp at hf; omega)
    simp only [parseConstraints, linesToks, skipNl, List.append_assoc, List.cons_append]
    rw [skipNl_line hc, parseConstraint_line hc]
    simp only [ih]
    simp

theorem linesToks_len : ∀ (ls : List Line), ls.length ≤ (linesToks ls).length
  | [] => by simp [linesToks]
  | l :: ls => by have := linesToks_len ls; simp [linesToks]; omega

theorem firstLines {l : Line} {ls : List Line} (h : ∀ d ∈ l :: ls, LineOk d) (X : List Tok) (hX : StopsC X) :
    parseConstraints ((linesToks (l :: ls) ++ X).length + 1) (linesToks (l :: ls) ++ X) [] = .ok ((l :: ls).map Line.pc, .nl :: X) := by
  have hc := h l List.mem_cons_self
  have hlen : ls.length < (linesToks (l :: ls) ++ X).length := by
    have := linesToks_len ls
    simp [linesToks]; omega
  simp only [parseConstraints, linesToks, List.append_assoc, List.cons_append]
  rw [skipNl_line hc, parseConstraint_line hc]
  have := loopLines ls (fun d hd => h d (List.mem_cons_of_mem _ hd)) X [l.pc] _ hX (by simpa [linesToks] using hlen)
  simpa [linesToks] using this

/-- **Whole programs, any rendering**: objective, at least one constraint line, `define` block. -/
theorem parseProgram_lines (kind : ObjKind) (obj : PExp) (otoks : List Tok)
    (hobj : match kind with | .solve => obj = .bool true | _ => ∃ items, Tk obj otoks items)
    (l : Line) (ls : List Line) (hls : ∀ d ∈ l :: ls, LineOk d) (ds : List PDomain) (hds : ∀ d ∈ ds, WFd d) :
    parseProgram (progToksOf kind otoks (l :: ls) ds) = .ok (progOf kind obj (l :: ls) ds) := by
  have hdecl : declToks ds = declToksL [] ds := by simp [declToks, declToksL]
  unfold progToksOf progOf
  rw [hdecl]
  have hO : ∀ T, parseObjective (skipNl (objToks kind otoks ++ .nl :: T)) = .ok (kind, obj, .nl :: T) := by
    intro T
    cases kind with
    | solve =>
      simp only at hobj; subst hobj
      simp [objToks, skipNl, parseObjective]
    | min =>
      obtain ⟨items, hk⟩ := hobj
      simp only [objToks, List.cons_append, skipNl, parseObjective, beq_self_eq_true, if_true]
      rw [expAt_tk hk (closed_nl T)]
    | max =>
      obtain ⟨items, hk⟩ := hobj
      have : ("max" == "min") = false := by decide
      simp only [objToks, List.cons_append, skipNl, parseObjective, this, beq_self_eq_true, if_true, Bool.false_eq_true, if_false]
      rw [expAt_tk hk (closed_nl T)]
  unfold parseProgram
  rw [hO]
  simp only [needNl, skipNl]
  have hsk : skipNl (linesToks (l :: ls) ++ declToksL [] ds) = linesToks (l :: ls) ++ declToksL [] ds := by
    simp only [linesToks, List.append_assoc, List.cons_append]
    exact skipNl_line (hls l List.mem_cons_self) _
  rw [hsk, firstLines hls _ (decl_stops [] ds)]
  exact parse_decls [] ds (by simp) hds kind obj _

end Rooc.Syntax.Proofs
