/-
Fuel totality of the parser model: with the fuel `parseFuel toks = 6·|toks| + 10` that `parseToks` passes, no
function of the model runs out of fuel — every answer of the model is a real answer (a tree or a rejection).
Together with `parseToks_no_panic`: `parseToks` is total.
-/
import Rooc.Proofs.NoPanic
namespace Rooc.Syntax.Proofs
open Rooc Rooc.Syntax

theorem optUnary_len (toks : List Tok) : (optUnary toks).2.length ≤ toks.length := by
  cases toks with
  | nil => simp [optUnary]
  | cons t r =>
    simp only [optUnary]
    cases unRule t <;> simp

theorem optVariable_len (toks : List Tok) : (optVariable toks).2.length ≤ toks.length := by
  unfold optVariable
  split
  · split <;> simp
  · simp

theorem wordLeaf_len {w : String} {r rest : List Tok} {t : PExp} (h : wordLeaf w r = .ok (t, rest)) : rest.length ≤ r.length := by
  unfold wordLeaf at h
  repeat' split at h
  all_goals first | (cases h; done) | (injection h with h; injection h with _ h; subst h; simp)

/-- every successful step consumes: strictly for an expression / leaf / argument list, weakly for the repetitions -/
theorem consumes : ∀ f : Nat,
    (∀ toks t rest, parseExp f toks = .ok (t, rest) → rest.length < toks.length)
    ∧ (∀ toks items rest, collect f toks = .ok (items, rest) → rest.length < toks.length)
    ∧ (∀ toks acc items rest, collectLoop f toks acc = .ok (items, rest) → rest.length ≤ toks.length)
    ∧ (∀ toks t rest, leaf f toks = .ok (t, rest) → rest.length < toks.length)
    ∧ (∀ toks as rest, args f toks = .ok (as, rest) → rest.length < toks.length)
    ∧ (∀ toks acc as rest, argsTail f toks acc = .ok (as, rest) → rest.length < toks.length)
    ∧ (∀ toks acc as rest, atoms f toks acc = .ok (as, rest) → rest.length ≤ toks.length
        ∧ (acc.length < as.length → rest.length < toks.length) ∧ acc.length ≤ as.length)
    ∧ (∀ toks t rest, imulOrSingle f toks = .ok (t, rest) → rest.length < toks.length) := by
  intro f
  induction f with
  | zero =>
    refine ⟨?_, ?_, ?_, ?_, ?_, ?_, ?_, ?_⟩ <;> intros <;>
      simp_all [parseExp, collect, collectLoop, leaf, args, argsTail, atoms, imulOrSingle]
  | succ f ih =>
    obtain ⟨hPE, hC, hCL, hL, hA, hAT, hAt, hI⟩ := ih
    refine ⟨?_, ?_, ?_, ?_, ?_, ?_, ?_, ?_⟩
    · intro toks t rest h
      simp only [parseExp] at h
      cases hc : collect f toks with
      | error e => simp only [hc] at h; cases h
      | ok p =>
        obtain ⟨items, rest'⟩ := p
        simp only [hc] at h
        cases hp : prattParse items with
        | error e => simp only [hp] at h; cases h
        | ok t' => simp only [hp] at h; injection h with h; injection h with _ h; subst h; exact hC _ _ _ hc
    · intro toks items rest h
      simp only [collect] at h
      cases hl : leaf f (optUnary toks).2 with
      | error e => simp only [hl] at h; cases h
      | ok p =>
        obtain ⟨t, rest'⟩ := p
        simp only [hl] at h
        have h1 := hL _ _ _ hl
        have h2 := hCL _ _ _ _ h
        have := optUnary_len toks
        omega
    · intro toks acc items rest h
      cases toks with
      | nil => simp [collectLoop] at h; simp [h.2]
      | cons t r =>
        simp only [collectLoop] at h
        cases hb : binRule t with
        | none => simp [hb] at h; simp [← h.2]
        | some rule =>
          simp only [hb] at h
          cases hl : leaf f (optUnary r).2 with
          | error e =>
            simp only [hl] at h
            cases e <;> simp at h
            simp [← h.2]
          | ok p =>
            obtain ⟨x, rest'⟩ := p
            simp only [hl] at h
            have h1 := hL _ _ _ hl
            have h2 := hCL _ _ _ _ h
            have := optUnary_len r
            simp; omega
    · intro toks t rest h
      simp only [leaf] at h
      split at h
      · rename_i w r
        split at h
        · cases ha : args f r with
          | ok p =>
            obtain ⟨as, rest'⟩ := p
            simp only [ha] at h
            injection h with h; injection h with _ h; subst h
            have := hA _ _ _ ha
            simp; omega
          | error e =>
            simp only [ha] at h
            cases e with
            | reject => have := wordLeaf_len h; simp at this ⊢; omega
            | panic => cases h
            | fuel => cases h
        · have := wordLeaf_len h; simp at this ⊢; omega
      · have := wordLeaf_len h; simp; omega
      · exact hI _ _ _ h
      · exact hI _ _ _ h
      · exact hI _ _ _ h
      · cases h
    · intro toks as rest h
      simp only [args] at h
      cases hp : parseExp f toks with
      | ok p =>
        obtain ⟨a, r⟩ := p
        simp only [hp] at h
        have h1 := hPE _ _ _ hp
        have h2 := hAT _ _ _ _ h
        omega
      | error e =>
        simp only [hp] at h
        cases e with
        | reject =>
          simp only at h
          split at h
          · injection h with h; injection h with _ h; subst h; simp
          · cases h
        | panic => cases h
        | fuel => cases h
    · intro toks acc as rest h
      simp only [argsTail] at h
      split at h
      · injection h with h; injection h with _ h; subst h; simp
      · rename_i r
        cases hp : parseExp f r with
        | ok p =>
          obtain ⟨a, r'⟩ := p
          simp only [hp] at h
          have h1 := hPE _ _ _ hp
          have h2 := hAT _ _ _ _ h
          simp; omega
        | error e => simp only [hp] at h; cases h
      · cases h
    · intro toks acc as rest h
      simp only [atoms] at h
      split at h
      · rename_i s r
        have := hAt _ _ _ _ h
        simp at this ⊢; omega
      · have := hAt _ _ _ _ h
        simp at this ⊢; omega
      · rename_i r
        cases hp : parseExp f r with
        | error e => simp only [hp] at h; cases h
        | ok p =>
          obtain ⟨t, r'⟩ := p
          simp only [hp] at h
          have h1 := hPE _ _ _ hp
          split at h
          · rename_i heq
            injection heq with heq; injection heq with h3 h4; subst h3 h4
            have := hAt _ _ _ _ h
            simp at this h1 ⊢; omega
          · cases h
          · cases h
      · injection h with h; injection h with h1 h2; subst h1 h2; simp
    · intro toks t rest h
      simp only [imulOrSingle] at h
      cases ha : atoms f toks [] with
      | error e => simp only [ha] at h; cases h
      | ok p =>
        obtain ⟨as, rest'⟩ := p
        simp only [ha] at h
        have hat := hAt _ _ _ _ ha
        simp only [List.length_nil] at hat
        cases as with
        | nil => cases h
        | cons a as' =>
          have hlt : rest'.length < toks.length := hat.2.1 (by simp)
          have hov := optVariable_len rest'
          cases as' with
          | nil =>
            simp only at h
            split at h
            · rename_i v rest'' heq
              injection h with h; injection h with _ h; subst h
              have : (optVariable rest').2 = rest'' := by rw [heq]
              rw [← this]; omega
            · injection h with h; injection h with _ h; subst h; exact hlt
          | cons b more =>
            simp only at h
            split at h
            · rename_i v rest'' heq
              injection h with h; injection h with _ h; subst h
              have : (optVariable rest').2 = rest'' := by rw [heq]
              rw [← this]; omega
            · injection h with h; injection h with _ h; subst h; exact hlt

/-! ### the Pratt loop: consumption and fuel -/

theorem pratt_consumes : ∀ f : Nat,
    (∀ r items t rest, expr f r items = .ok (t, rest) → rest.length < items.length)
    ∧ (∀ items t rest, nud f items = .ok (t, rest) → rest.length < items.length)
    ∧ (∀ r lhs items t rest, loop f r lhs items = .ok (t, rest) → rest.length ≤ items.length) := by
  intro f
  induction f with
  | zero => refine ⟨?_, ?_, ?_⟩ <;> intros <;> simp_all [expr, nud, loop]
  | succ f ih =>
    obtain ⟨ihE, ihN, ihL⟩ := ih
    refine ⟨?_, ?_, ?_⟩
    · intro r items t rest h
      simp only [expr] at h
      cases hn : nud f items with
      | error e => simp only [hn] at h; cases h
      | ok p =>
        obtain ⟨lhs, rest'⟩ := p
        simp only [hn] at h
        have := ihN _ _ _ hn
        have := ihL _ _ _ _ _ h
        omega
    · intro items t rest h
      cases items with
      | nil => simp [nud] at h
      | cons x tl =>
        cases x with
        | leaf t' => simp [nud] at h; simp [← h.2]
        | op rule =>
          simp only [nud] at h
          split at h
          · rename_i prec heq
            cases he : expr f (prec - 1) tl with
            | error e => simp only [he] at h; cases h
            | ok p =>
              obtain ⟨rhs, rest'⟩ := p
              simp only [he] at h
              have := ihE _ _ _ _ he
              cases hp : prefixArm rule with
              | none => simp only [hp] at h; cases h
              | some u => simp only [hp] at h; injection h with h; injection h with _ h; subst h; simp; omega
          · cases h
          · cases h
    · intro r lhs items t rest h
      simp only [loop] at h
      cases hl : lbp items with
      | error e => simp only [hl] at h; cases h
      | ok p =>
        simp only [hl] at h
        split at h
        · split at h
          · rename_i rule tl
            split at h
            · rename_i prec heq
              cases he : expr f prec tl with
              | error e => simp only [he] at h; cases h
              | ok q =>
                obtain ⟨rhs, rest'⟩ := q
                simp only [he] at h
                have := ihE _ _ _ _ he
                cases ha : infixArm rule with
                | none => simp only [ha] at h; cases h
                | some o => simp only [ha] at h; have := ihL _ _ _ _ _ h; simp; omega
            · rename_i prec heq
              cases he : expr f (prec - 1) tl with
              | error e => simp only [he] at h; cases h
              | ok q =>
                obtain ⟨rhs, rest'⟩ := q
                simp only [he] at h
                have := ihE _ _ _ _ he
                cases ha : infixArm rule with
                | none => simp only [ha] at h; cases h
                | some o => simp only [ha] at h; have := ihL _ _ _ _ _ h; simp; omega
            · cases h
          · cases h
        · injection h with h; injection h with _ h; subst h; simp

theorem shaped_of_good {res : PRes (PExp × List Item)} {t : PExp} {rest : List Item} (hg : GoodRes res)
    (h : res = .ok (t, rest)) : Shaped 2 rest := by
  subst h; exact hg

theorem pratt_fuel : ∀ f : Nat,
    (∀ r items, Shaped 0 items → 2 * items.length + 2 ≤ f → expr f r items ≠ .error .fuel)
    ∧ (∀ items, Shaped 0 items → 2 * items.length + 1 ≤ f → nud f items ≠ .error .fuel)
    ∧ (∀ r lhs items, Shaped 2 items → 2 * items.length + 1 ≤ f → loop f r lhs items ≠ .error .fuel) := by
  intro f
  induction f with
  | zero => refine ⟨?_, ?_, ?_⟩ <;> intros <;> omega
  | succ f ih =>
    obtain ⟨ihE, ihN, ihL⟩ := ih
    refine ⟨?_, ?_, ?_⟩
    · intro r items hs hf
      simp only [expr]
      cases hn : nud f items with
      | error e =>
        simp only; intro h; injection h with h; subst h
        exact ihN items hs (by omega) hn
      | ok p =>
        obtain ⟨lhs, rest⟩ := p
        simp only
        have hr := shaped_of_good ((pratt_good f).2.1 items hs) hn
        have := (pratt_consumes f).2.1 _ _ _ hn
        exact ihL r lhs rest hr (by omega)
    · intro items hs hf
      cases items with
      | nil => simp [Shaped, run] at hs
      | cons x tl =>
        cases x with
        | leaf t => simp [nud]
        | op rule =>
          have hp : isPrefixRule rule = true ∧ Shaped 1 tl := by
            by_cases h : isPrefixRule rule = true
            · exact ⟨h, by simpa [Shaped, run, h] using hs⟩
            · simp [Shaped, run, h] at hs
          simp only [nud]
          split
          · rename_i prec heq
            cases he : expr f (prec - 1) tl with
            | error e =>
              simp only; intro h; injection h with h; subst h
              exact ihE _ tl (shaped1_0 hp.2) (by simp at hf; omega) he
            | ok q =>
              obtain ⟨rhs, rest'⟩ := q
              simp only
              cases prefixArm rule <;> simp
          · simp
          · simp
    · intro r lhs items hs hf
      simp only [loop]
      cases hl : lbp items with
      | error e =>
        simp only
        cases items with
        | nil => simp [lbp] at hl
        | cons x tl =>
          cases x with
          | leaf t => simp [Shaped, run] at hs
          | op rule =>
            simp only [lbp] at hl
            split at hl
            · cases hl
            · injection hl with hl; subst hl; simp
      | ok p =>
        simp only
        split
        · split
          · rename_i rule tl
            have hp : isInfixRule rule = true ∧ Shaped 0 tl := by
              by_cases h : isInfixRule rule = true
              · exact ⟨h, by simpa [Shaped, run, h] using hs⟩
              · simp [Shaped, run, h] at hs
            split
            · rename_i prec heq
              cases he : expr f prec tl with
              | error e =>
                simp only; intro h; injection h with h; subst h
                exact ihE _ tl hp.2 (by simp at hf; omega) he
              | ok q =>
                obtain ⟨rhs, rest'⟩ := q
                simp only
                cases infixArm rule with
                | none => simp
                | some o =>
                  simp only
                  have hr := shaped_of_good ((pratt_good f).1 prec tl hp.2) he
                  have := (pratt_consumes f).1 _ _ _ _ he
                  exact ihL r _ rest' hr (by simp at hf; omega)
            · rename_i prec heq
              cases he : expr f (prec - 1) tl with
              | error e =>
                simp only; intro h; injection h with h; subst h
                exact ihE _ tl hp.2 (by simp at hf; omega) he
              | ok q =>
                obtain ⟨rhs, rest'⟩ := q
                simp only
                cases infixArm rule with
                | none => simp
                | some o =>
                  simp only
                  have hr := shaped_of_good ((pratt_good f).1 (prec - 1) tl hp.2) he
                  have := (pratt_consumes f).1 _ _ _ _ he
                  exact ihL r _ rest' hr (by simp at hf; omega)
            · simp
          · simp
        · simp

theorem prattParse_no_fuel {items : List Item} (h : Shaped 0 items) : prattParse items ≠ .error .fuel := by
  have := (pratt_fuel (2 * items.length + 2)).1 0 items h (by omega)
  unfold prattParse
  cases he : expr (2 * items.length + 2) 0 items with
  | error e => simp only; intro h'; injection h' with h'; subst h'; exact this he
  | ok p => simp

/-! ### the whole model -/

theorem wordLeaf_ne_fuel (w : String) (r : List Tok) : wordLeaf w r ≠ .error .fuel := by
  unfold wordLeaf
  repeat' split
  all_goals simp

theorem fuel_of_eq {α : Type} {x : PRes α} {e : PErr} (h : x = .error e) (hx : x ≠ .error .fuel) : e ≠ .fuel := by
  intro he; subst he; exact hx h

theorem no_fuel : ∀ f : Nat,
    (∀ toks, 6 * toks.length + 10 ≤ f → parseExp f toks ≠ .error .fuel)
    ∧ (∀ toks, 6 * toks.length + 9 ≤ f → collect f toks ≠ .error .fuel)
    ∧ (∀ toks acc, 6 * toks.length + 9 ≤ f → collectLoop f toks acc ≠ .error .fuel)
    ∧ (∀ toks, 6 * toks.length + 8 ≤ f → leaf f toks ≠ .error .fuel)
    ∧ (∀ toks, 6 * toks.length + 11 ≤ f → args f toks ≠ .error .fuel)
    ∧ (∀ toks acc, 6 * toks.length + 10 ≤ f → argsTail f toks acc ≠ .error .fuel)
    ∧ (∀ toks acc, 6 * toks.length + 6 ≤ f → atoms f toks acc ≠ .error .fuel)
    ∧ (∀ toks, 6 * toks.length + 7 ≤ f → imulOrSingle f toks ≠ .error .fuel) := by
  intro f
  induction f with
  | zero => refine ⟨?_, ?_, ?_, ?_, ?_, ?_, ?_, ?_⟩ <;> intros <;> omega
  | succ f ih =>
    obtain ⟨hPE, hC, hCL, hL, hA, hAT, hAt, hI⟩ := ih
    obtain ⟨cPE, cC, cCL, cL, cA, cAT, cAt, cI⟩ := consumes f
    refine ⟨?_, ?_, ?_, ?_, ?_, ?_, ?_, ?_⟩
    · intro toks hf
      simp only [parseExp]
      cases hc : collect f toks with
      | error e => simp only; intro h; injection h with h; exact fuel_of_eq hc (hC toks (by omega)) h
      | ok p =>
        obtain ⟨items, rest⟩ := p
        simp only
        have hp := prattParse_no_fuel (collect_shaped f toks items rest hc)
        cases hpp : prattParse items with
        | error e => simp only; intro h; injection h with h; subst h; exact hp hpp
        | ok t => simp
    · intro toks hf
      simp only [collect]
      have hlen := optUnary_len toks
      cases hl : leaf f (optUnary toks).2 with
      | error e => simp only; intro h; injection h with h; exact fuel_of_eq hl (hL _ (by omega)) h
      | ok p =>
        obtain ⟨t, rest⟩ := p
        have := cL _ _ _ hl
        exact hCL _ _ (by omega)
    · intro toks acc hf
      cases toks with
      | nil => simp [collectLoop]
      | cons t r =>
        simp only [collectLoop]
        cases hb : binRule t with
        | none => simp
        | some rule =>
          simp only
          have hlen := optUnary_len r
          cases hl : leaf f (optUnary r).2 with
          | error e =>
            cases e with
            | reject => simp
            | panic => simp
            | fuel => exact absurd hl (hL _ (by simp at hf; omega))
          | ok p =>
            obtain ⟨x, rest⟩ := p
            have := cL _ _ _ hl
            exact hCL _ _ (by simp at hf; omega)
    · intro toks hf
      simp only [leaf]
      split
      · rename_i w r
        split
        · cases ha : args f r with
          | ok p => obtain ⟨as, rest⟩ := p; simp
          | error e =>
            cases e with
            | reject => exact wordLeaf_ne_fuel _ _
            | panic => simp
            | fuel => exact absurd ha (hA _ (by simp at hf; omega))
        · exact wordLeaf_ne_fuel _ _
      · exact wordLeaf_ne_fuel _ _
      · exact hI _ (by omega)
      · exact hI _ (by omega)
      · exact hI _ (by omega)
      · simp
    · intro toks hf
      simp only [args]
      cases hp : parseExp f toks with
      | ok p =>
        obtain ⟨a, r⟩ := p
        have := cPE _ _ _ hp
        exact hAT _ _ (by omega)
      | error e =>
        cases e with
        | reject => simp only; split <;> simp
        | panic => simp
        | fuel => exact absurd hp (hPE _ (by omega))
    · intro toks acc hf
      simp only [argsTail]
      split
      · simp
      · rename_i r
        cases hp : parseExp f r with
        | ok p =>
          obtain ⟨a, r'⟩ := p
          have := cPE _ _ _ hp
          exact hAT _ _ (by simp at hf; omega)
        | error e => simp only; intro h; injection h with h; exact fuel_of_eq hp (hPE _ (by simp at hf; omega)) h
      · simp
    · intro toks acc hf
      simp only [atoms]
      split
      · rename_i s r
        exact hAt _ _ (by simp at hf; omega)
      · exact hAt _ _ (by simp at hf; omega)
      · rename_i r
        cases hp : parseExp f r with
        | error e => simp only; intro h; injection h with h; exact fuel_of_eq hp (hPE _ (by simp at hf; omega)) h
        | ok p =>
          obtain ⟨t, r'⟩ := p
          have hlt := cPE _ _ _ hp
          split
          · rename_i heq
            injection heq with heq; injection heq with h3 h4; subst h3 h4
            exact hAt _ _ (by simp at hf hlt; omega)
          · simp
          · rename_i heq; cases heq
      · simp
    · intro toks hf
      simp only [imulOrSingle]
      cases ha : atoms f toks [] with
      | error e => simp only; intro h; injection h with h; exact fuel_of_eq ha (hAt _ _ (by omega)) h
      | ok p =>
        obtain ⟨as, rest⟩ := p
        repeat' split
        all_goals first | (rename_i heq; cases heq; done) | simp

/-- **The fuel of `parseToks` is always enough.** -/
theorem parseToksRaw_no_fuel (toks : List Tok) : parseToksRaw toks ≠ .error .fuel := by
  unfold parseToksRaw
  have := (no_fuel (parseFuel toks)).1 toks (by simp [parseFuel])
  cases hp : parseExp (parseFuel toks) toks with
  | error e => simp only; intro h; injection h with h; exact fuel_of_eq hp this h
  | ok p =>
    obtain ⟨t, rest⟩ := p
    cases rest <;> simp

theorem parseToks_no_fuel (toks : List Tok) : parseToks toks ≠ .error .fuel := by
  unfold parseToks
  have := parseToksRaw_no_fuel toks
  cases hp : parseToksRaw toks with
  | error e => simp only; intro h; injection h with h; exact this (by rw [hp, h])
  | ok t => simp only; split <;> simp

/-- **Totality of the parser model**: every token sequence is answered with a tree or with `reject`. -/
theorem parseToks_total (toks : List Tok) : (∃ t, parseToks toks = .ok t) ∨ parseToks toks = .error .reject := by
  have h1 := parseToks_no_panic toks
  have h2 := parseToks_no_fuel toks
  cases h : parseToks toks with
  | ok t => exact Or.inl ⟨t, rfl⟩
  | error e =>
    cases e with
    | reject => exact Or.inr rfl
    | panic => exact absurd h h1
    | fuel => exact absurd h h2

end Rooc.Syntax.Proofs
