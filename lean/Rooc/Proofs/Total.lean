/-
Fuel totality of the parser model: with the fuel `parseFuel toks = 6·|toks| + 10` that `parseToks` passes, no
function of the model runs out of fuel — every answer of the model is a real answer (a tree or a rejection).
Together with `parseToks_no_panic`: `parseToks` is total.  (This file is written by a generator script: one
lemma per function of the model and per property, each closed by case splitting and `grind`.)
-/
import Rooc.Proofs.NoPanic
namespace Rooc.Syntax.Proofs
open Rooc Rooc.Syntax

theorem optUnary_len (toks : List Tok) : (optUnary toks).2.length ≤ toks.length := by
  unfold optUnary
  split
  · simp
  · rename_i t r _
    cases unRule t <;> simp
  · simp

theorem skipNl_len (toks : List Tok) : (skipNl toks).length ≤ toks.length := by
  induction toks with
  | nil => simp [skipNl]
  | cons t r ih =>
    cases t <;> simp [skipNl]
    omega

theorem wordLeaf_len {w : String} {r rest : List Tok} {t : PExp} (h : wordLeaf w r = .ok (t, rest)) : rest.length ≤ r.length := by
  unfold wordLeaf at h
  repeat' split at h
  all_goals first | (cases h; done) | (injection h with h; injection h with _ h; subst h; simp)

theorem fnNameTail_len (toks : List Tok) (acc : String) : (fnNameTail toks acc).2.length ≤ toks.length := by
  fun_induction fnNameTail toks acc <;> simp <;> omega

theorem tupleNames_len (toks : List Tok) (b : Bool) (acc ns : List String) (rest : List Tok)
    (h : tupleNames toks b acc = some (ns, rest)) : rest.length < toks.length := by
  fun_induction tupleNames toks b acc <;> simp_all <;> omega

theorem arrayEntries_len (f : Nat) (toks : List Tok) (acc es : List ArrEntry) (rest : List Tok)
    (h : arrayEntries f toks acc = some (es, rest)) : rest.length < toks.length := by
  induction f generalizing toks acc es rest with
  | zero => simp [arrayEntries] at h
  | succ f ih =>
    simp only [arrayEntries] at h
    have := skipNl_len
    repeat' split at h
    all_goals first | (cases h; done) | skip
    all_goals grind

theorem arrayLeaf_len {r rest : List Tok} {t : PExp} (h : arrayLeaf r = .ok (t, rest)) : rest.length < r.length := by
  simp only [arrayLeaf] at h
  have := skipNl_len
  have := arrayEntries_len
  repeat' split at h
  all_goals first | (cases h; done) | skip
  all_goals grind

theorem graphEdges_len (f : Nat) (toks : List Tok) (acc es : List GEdge) (rest : List Tok)
    (h : graphEdges f toks acc = some (es, rest)) : rest.length < toks.length := by
  induction f generalizing toks acc es rest with
  | zero => simp [graphEdges] at h
  | succ f ih =>
    simp only [graphEdges] at h
    have := skipNl_len
    repeat' split at h
    all_goals first | (cases h; done) | skip
    all_goals grind

theorem graphNode_len {toks rest : List Tok} {n : GNode} (h : graphNode toks = some (n, rest)) : rest.length < toks.length := by
  simp only [graphNode] at h
  have := graphEdges_len
  repeat' split at h
  all_goals first | (cases h; done) | skip
  all_goals grind

theorem graphTail_len (f : Nat) (toks : List Tok) (acc ns : List GNode) (rest : List Tok)
    (h : graphTail f toks acc = some (ns, rest)) : rest.length < toks.length := by
  induction f generalizing toks acc ns rest with
  | zero => simp [graphTail] at h
  | succ f ih =>
    simp only [graphTail] at h
    have := skipNl_len
    have := @graphNode_len
    repeat' split at h
    all_goals first | (cases h; done) | skip
    all_goals grind

theorem graphLeaf_len {r rest : List Tok} {t : PExp} (h : graphLeaf r = some (t, rest)) : rest.length < r.length := by
  simp only [graphLeaf, graphNodes] at h
  have := skipNl_len
  have := graphTail_len
  have := @graphNode_len
  repeat' split at h
  all_goals first | (cases h; done) | skip
  all_goals grind

/-- every successful step consumes: strictly for an expression / leaf / list, weakly for the repetitions -/
def ConsumesAt (f : Nat) : Prop :=
    (∀ toks t rest, parseExp f toks = .ok (t, rest) → rest.length < toks.length)
    ∧ (∀ toks items rest, collect f toks = .ok (items, rest) → rest.length < toks.length)
    ∧ (∀ toks acc items rest, collectLoop f toks acc = .ok (items, rest) → rest.length ≤ toks.length)
    ∧ (∀ toks t rest, leaf f toks = .ok (t, rest) → rest.length < toks.length)
    ∧ (∀ w toks t rest, wordRest f w toks = .ok (t, rest) → rest.length ≤ toks.length)
    ∧ (∀ n toks t rest, scopedFn f n toks = .ok (t, rest) → rest.length < toks.length)
    ∧ (∀ toks vs its p rest, iterList f toks vs its = .ok (p, rest) → rest.length < toks.length)
    ∧ (∀ toks p rest, iterDecl f toks = .ok (p, rest) → rest.length < toks.length)
    ∧ (∀ toks t rest, iterator f toks = .ok (t, rest) → rest.length < toks.length)
    ∧ (∀ toks acc as rest, expList f toks acc = .ok (as, rest) → rest.length < toks.length)
    ∧ (∀ toks acc as rest, accessLoop f toks acc = .ok (as, rest) → rest.length ≤ toks.length)
    ∧ (∀ toks acc as rest, indexLoop f toks acc = .ok (as, rest) → rest.length ≤ toks.length)
    ∧ (∀ toks as rest, args f toks = .ok (as, rest) → rest.length < toks.length)
    ∧ (∀ toks acc as rest, argsTail f toks acc = .ok (as, rest) → rest.length < toks.length)
    ∧ (∀ toks acc as rest, atoms f toks acc = .ok (as, rest) → rest.length ≤ toks.length
        ∧ (acc.length < as.length → rest.length < toks.length) ∧ acc.length ≤ as.length)
    ∧ (∀ toks t rest, optVariable f toks = .ok (t, rest) → rest.length ≤ toks.length)
    ∧ (∀ toks t rest, imulOrSingle f toks = .ok (t, rest) → rest.length < toks.length)

theorem cons_parseExp (f : Nat) (ih : ConsumesAt f) : ∀ toks t rest, parseExp (f+1) toks = .ok (t, rest) → rest.length < toks.length := by
  obtain ⟨cPE, cC, cCL, cL, cWR, cS, cIL, cID, cIt, cEL, cAL, cIx, cA, cAT, cAt, cOV, cI⟩ := ih
  have hSk := skipNl_len
  have hOU := optUnary_len
  have hFN := fnNameTail_len
  have hTN := tupleNames_len
  have hWLl := @wordLeaf_len
  have hArl := @arrayLeaf_len
  have hGrl := @graphLeaf_len
  intro toks t rest h
  simp only [parseExp] at h
  repeat' split at h
  all_goals first | (cases h; done) | skip
  all_goals grind

theorem cons_collect (f : Nat) (ih : ConsumesAt f) : ∀ toks items rest, collect (f+1) toks = .ok (items, rest) → rest.length < toks.length := by
  obtain ⟨cPE, cC, cCL, cL, cWR, cS, cIL, cID, cIt, cEL, cAL, cIx, cA, cAT, cAt, cOV, cI⟩ := ih
  have hSk := skipNl_len
  have hOU := optUnary_len
  have hFN := fnNameTail_len
  have hTN := tupleNames_len
  have hWLl := @wordLeaf_len
  have hArl := @arrayLeaf_len
  have hGrl := @graphLeaf_len
  intro toks items rest h
  simp only [collect] at h
  repeat' split at h
  all_goals first | (cases h; done) | skip
  all_goals grind

theorem cons_collectLoop (f : Nat) (ih : ConsumesAt f) : ∀ toks acc items rest, collectLoop (f+1) toks acc = .ok (items, rest) → rest.length ≤ toks.length := by
  obtain ⟨cPE, cC, cCL, cL, cWR, cS, cIL, cID, cIt, cEL, cAL, cIx, cA, cAT, cAt, cOV, cI⟩ := ih
  have hSk := skipNl_len
  have hOU := optUnary_len
  have hFN := fnNameTail_len
  have hTN := tupleNames_len
  have hWLl := @wordLeaf_len
  have hArl := @arrayLeaf_len
  have hGrl := @graphLeaf_len
  intro toks acc items rest h
  simp only [collectLoop] at h
  repeat' split at h
  all_goals first | (cases h; done) | skip
  all_goals grind

theorem cons_leaf (f : Nat) (ih : ConsumesAt f) : ∀ toks t rest, leaf (f+1) toks = .ok (t, rest) → rest.length < toks.length := by
  obtain ⟨cPE, cC, cCL, cL, cWR, cS, cIL, cID, cIt, cEL, cAL, cIx, cA, cAT, cAt, cOV, cI⟩ := ih
  have hSk := skipNl_len
  have hOU := optUnary_len
  have hFN := fnNameTail_len
  have hTN := tupleNames_len
  have hWLl := @wordLeaf_len
  have hArl := @arrayLeaf_len
  have hGrl := @graphLeaf_len
  intro toks t rest h
  simp only [leaf] at h
  repeat' split at h
  all_goals first | (cases h; done) | skip
  all_goals grind

theorem cons_wordRest (f : Nat) (ih : ConsumesAt f) : ∀ w toks t rest, wordRest (f+1) w toks = .ok (t, rest) → rest.length ≤ toks.length := by
  obtain ⟨cPE, cC, cCL, cL, cWR, cS, cIL, cID, cIt, cEL, cAL, cIx, cA, cAT, cAt, cOV, cI⟩ := ih
  have hSk := skipNl_len
  have hOU := optUnary_len
  have hFN := fnNameTail_len
  have hTN := tupleNames_len
  have hWLl := @wordLeaf_len
  have hArl := @arrayLeaf_len
  have hGrl := @graphLeaf_len
  intro w toks t rest h
  simp only [wordRest] at h
  repeat' split at h
  all_goals first | (cases h; done) | skip
  all_goals grind

theorem cons_scopedFn (f : Nat) (ih : ConsumesAt f) : ∀ n toks t rest, scopedFn (f+1) n toks = .ok (t, rest) → rest.length < toks.length := by
  obtain ⟨cPE, cC, cCL, cL, cWR, cS, cIL, cID, cIt, cEL, cAL, cIx, cA, cAT, cAt, cOV, cI⟩ := ih
  have hSk := skipNl_len
  have hOU := optUnary_len
  have hFN := fnNameTail_len
  have hTN := tupleNames_len
  have hWLl := @wordLeaf_len
  have hArl := @arrayLeaf_len
  have hGrl := @graphLeaf_len
  intro n toks t rest h
  simp only [scopedFn] at h
  repeat' split at h
  all_goals first | (cases h; done) | skip
  all_goals grind

theorem cons_iterList (f : Nat) (ih : ConsumesAt f) : ∀ toks vs its p rest, iterList (f+1) toks vs its = .ok (p, rest) → rest.length < toks.length := by
  obtain ⟨cPE, cC, cCL, cL, cWR, cS, cIL, cID, cIt, cEL, cAL, cIx, cA, cAT, cAt, cOV, cI⟩ := ih
  have hSk := skipNl_len
  have hOU := optUnary_len
  have hFN := fnNameTail_len
  have hTN := tupleNames_len
  have hWLl := @wordLeaf_len
  have hArl := @arrayLeaf_len
  have hGrl := @graphLeaf_len
  intro toks vs its p rest h
  simp only [iterList] at h
  repeat' split at h
  all_goals first | (cases h; done) | skip
  all_goals grind

theorem cons_iterDecl (f : Nat) (ih : ConsumesAt f) : ∀ toks p rest, iterDecl (f+1) toks = .ok (p, rest) → rest.length < toks.length := by
  obtain ⟨cPE, cC, cCL, cL, cWR, cS, cIL, cID, cIt, cEL, cAL, cIx, cA, cAT, cAt, cOV, cI⟩ := ih
  have hSk := skipNl_len
  have hOU := optUnary_len
  have hFN := fnNameTail_len
  have hTN := tupleNames_len
  have hWLl := @wordLeaf_len
  have hArl := @arrayLeaf_len
  have hGrl := @graphLeaf_len
  intro toks p rest h
  simp only [iterDecl] at h
  repeat' split at h
  all_goals first | (cases h; done) | skip
  all_goals grind

theorem cons_iterator (f : Nat) (ih : ConsumesAt f) : ∀ toks t rest, iterator (f+1) toks = .ok (t, rest) → rest.length < toks.length := by
  obtain ⟨cPE, cC, cCL, cL, cWR, cS, cIL, cID, cIt, cEL, cAL, cIx, cA, cAT, cAt, cOV, cI⟩ := ih
  have hSk := skipNl_len
  have hOU := optUnary_len
  have hFN := fnNameTail_len
  have hTN := tupleNames_len
  have hWLl := @wordLeaf_len
  have hArl := @arrayLeaf_len
  have hGrl := @graphLeaf_len
  intro toks t rest h
  simp only [iterator] at h
  repeat' split at h
  all_goals first | (cases h; done) | skip
  all_goals grind

theorem cons_expList (f : Nat) (ih : ConsumesAt f) : ∀ toks acc as rest, expList (f+1) toks acc = .ok (as, rest) → rest.length < toks.length := by
  obtain ⟨cPE, cC, cCL, cL, cWR, cS, cIL, cID, cIt, cEL, cAL, cIx, cA, cAT, cAt, cOV, cI⟩ := ih
  have hSk := skipNl_len
  have hOU := optUnary_len
  have hFN := fnNameTail_len
  have hTN := tupleNames_len
  have hWLl := @wordLeaf_len
  have hArl := @arrayLeaf_len
  have hGrl := @graphLeaf_len
  intro toks acc as rest h
  simp only [expList] at h
  repeat' split at h
  all_goals first | (cases h; done) | skip
  all_goals grind

theorem cons_accessLoop (f : Nat) (ih : ConsumesAt f) : ∀ toks acc as rest, accessLoop (f+1) toks acc = .ok (as, rest) → rest.length ≤ toks.length := by
  obtain ⟨cPE, cC, cCL, cL, cWR, cS, cIL, cID, cIt, cEL, cAL, cIx, cA, cAT, cAt, cOV, cI⟩ := ih
  have hSk := skipNl_len
  have hOU := optUnary_len
  have hFN := fnNameTail_len
  have hTN := tupleNames_len
  have hWLl := @wordLeaf_len
  have hArl := @arrayLeaf_len
  have hGrl := @graphLeaf_len
  intro toks acc as rest h
  simp only [accessLoop] at h
  repeat' split at h
  all_goals first | (cases h; done) | skip
  all_goals grind

theorem cons_indexLoop (f : Nat) (ih : ConsumesAt f) : ∀ toks acc as rest, indexLoop (f+1) toks acc = .ok (as, rest) → rest.length ≤ toks.length := by
  obtain ⟨cPE, cC, cCL, cL, cWR, cS, cIL, cID, cIt, cEL, cAL, cIx, cA, cAT, cAt, cOV, cI⟩ := ih
  have hSk := skipNl_len
  have hOU := optUnary_len
  have hFN := fnNameTail_len
  have hTN := tupleNames_len
  have hWLl := @wordLeaf_len
  have hArl := @arrayLeaf_len
  have hGrl := @graphLeaf_len
  intro toks acc as rest h
  simp only [indexLoop] at h
  repeat' split at h
  all_goals first | (cases h; done) | skip
  all_goals grind

theorem cons_args (f : Nat) (ih : ConsumesAt f) : ∀ toks as rest, args (f+1) toks = .ok (as, rest) → rest.length < toks.length := by
  obtain ⟨cPE, cC, cCL, cL, cWR, cS, cIL, cID, cIt, cEL, cAL, cIx, cA, cAT, cAt, cOV, cI⟩ := ih
  have hSk := skipNl_len
  have hOU := optUnary_len
  have hFN := fnNameTail_len
  have hTN := tupleNames_len
  have hWLl := @wordLeaf_len
  have hArl := @arrayLeaf_len
  have hGrl := @graphLeaf_len
  intro toks as rest h
  simp only [args] at h
  repeat' split at h
  all_goals first | (cases h; done) | skip
  all_goals grind

theorem cons_argsTail (f : Nat) (ih : ConsumesAt f) : ∀ toks acc as rest, argsTail (f+1) toks acc = .ok (as, rest) → rest.length < toks.length := by
  obtain ⟨cPE, cC, cCL, cL, cWR, cS, cIL, cID, cIt, cEL, cAL, cIx, cA, cAT, cAt, cOV, cI⟩ := ih
  have hSk := skipNl_len
  have hOU := optUnary_len
  have hFN := fnNameTail_len
  have hTN := tupleNames_len
  have hWLl := @wordLeaf_len
  have hArl := @arrayLeaf_len
  have hGrl := @graphLeaf_len
  intro toks acc as rest h
  simp only [argsTail] at h
  repeat' split at h
  all_goals first | (cases h; done) | skip
  all_goals grind

theorem cons_atoms (f : Nat) (ih : ConsumesAt f) : ∀ toks acc as rest, atoms (f+1) toks acc = .ok (as, rest) → rest.length ≤ toks.length
        ∧ (acc.length < as.length → rest.length < toks.length) ∧ acc.length ≤ as.length := by
  obtain ⟨cPE, cC, cCL, cL, cWR, cS, cIL, cID, cIt, cEL, cAL, cIx, cA, cAT, cAt, cOV, cI⟩ := ih
  have hSk := skipNl_len
  have hOU := optUnary_len
  have hFN := fnNameTail_len
  have hTN := tupleNames_len
  have hWLl := @wordLeaf_len
  have hArl := @arrayLeaf_len
  have hGrl := @graphLeaf_len
  intro toks acc as rest h
  simp only [atoms] at h
  repeat' split at h
  all_goals first | (cases h; done) | skip
  all_goals grind

theorem cons_optVariable (f : Nat) (ih : ConsumesAt f) : ∀ toks t rest, optVariable (f+1) toks = .ok (t, rest) → rest.length ≤ toks.length := by
  obtain ⟨cPE, cC, cCL, cL, cWR, cS, cIL, cID, cIt, cEL, cAL, cIx, cA, cAT, cAt, cOV, cI⟩ := ih
  have hSk := skipNl_len
  have hOU := optUnary_len
  have hFN := fnNameTail_len
  have hTN := tupleNames_len
  have hWLl := @wordLeaf_len
  have hArl := @arrayLeaf_len
  have hGrl := @graphLeaf_len
  intro toks t rest h
  simp only [optVariable] at h
  repeat' split at h
  all_goals first | (cases h; done) | skip
  all_goals grind

theorem cons_imulOrSingle (f : Nat) (ih : ConsumesAt f) : ∀ toks t rest, imulOrSingle (f+1) toks = .ok (t, rest) → rest.length < toks.length := by
  obtain ⟨cPE, cC, cCL, cL, cWR, cS, cIL, cID, cIt, cEL, cAL, cIx, cA, cAT, cAt, cOV, cI⟩ := ih
  have hSk := skipNl_len
  have hOU := optUnary_len
  have hFN := fnNameTail_len
  have hTN := tupleNames_len
  have hWLl := @wordLeaf_len
  have hArl := @arrayLeaf_len
  have hGrl := @graphLeaf_len
  intro toks t rest h
  simp only [imulOrSingle] at h
  repeat' split at h
  all_goals first | (cases h; done) | skip
  all_goals grind

theorem consumes : ∀ f : Nat, ConsumesAt f := by
  intro f
  induction f with
  | zero =>
    refine ⟨?_, ?_, ?_, ?_, ?_, ?_, ?_, ?_, ?_, ?_, ?_, ?_, ?_, ?_, ?_, ?_, ?_⟩ <;> intros <;>
      simp_all [parseExp, collect, collectLoop, leaf, wordRest, scopedFn, iterList, iterDecl, iterator, expList, accessLoop,
        indexLoop, args, argsTail, atoms, optVariable, imulOrSingle]
  | succ f ih => exact ⟨cons_parseExp f ih, cons_collect f ih, cons_collectLoop f ih, cons_leaf f ih, cons_wordRest f ih, cons_scopedFn f ih, cons_iterList f ih, cons_iterDecl f ih, cons_iterator f ih, cons_expList f ih, cons_accessLoop f ih, cons_indexLoop f ih, cons_args f ih, cons_argsTail f ih, cons_atoms f ih, cons_optVariable f ih, cons_imulOrSingle f ih⟩

theorem pratt_consumes : ∀ f : Nat,
    (∀ r items t rest, expr f r items = .ok (t, rest) → rest.length < items.length)
    ∧ (∀ items t rest, nud f items = .ok (t, rest) → rest.length < items.length)
    ∧ (∀ r lhs items t rest, loop f r lhs items = .ok (t, rest) → rest.length ≤ items.length) := by
  intro f
  induction f with
  | zero => refine ⟨?_, ?_, ?_⟩ <;> intros <;> simp_all [expr, nud, loop]
  | succ f ih =>
    obtain ⟨ihE, ihN, ihL⟩ := ih
    refine ⟨?_, ?_, ?_⟩
    · intro r items t rest h
      simp only [expr] at h
      cases hn : nud f items with
      | error e => simp only [hn] at h; cases h
      | ok p =>
        obtain ⟨lhs, rest'⟩ := p
        simp only [hn] at h
        have := ihN _ _ _ hn
        have := ihL _ _ _ _ _ h
        omega
    · intro items t rest h
      cases items with
      | nil => simp [nud] at h
      | cons x tl =>
        cases x with
        | leaf t' => simp [nud] at h; simp [← h.2]
        | op rule =>
          simp only [nud] at h
          split at h
          · rename_i prec heq
            cases he : expr f (prec - 1) tl with
            | error e => simp only [he] at h; cases h
            | ok p =>
              obtain ⟨rhs, rest'⟩ := p
              simp only [he] at h
              have := ihE _ _ _ _ he
              cases hp : prefixArm rule with
              | none => simp only [hp] at h; cases h
              | some u => simp only [hp] at h; injection h with h; injection h with _ h; subst h; simp; omega
          · cases h
          · cases h
    · intro r lhs items t rest h
      simp only [loop] at h
      cases hl : lbp items with
      | error e => simp only [hl] at h; cases h
      | ok p =>
        simp only [hl] at h
        split at h
        · split at h
          · rename_i rule tl
            split at h
            · rename_i prec heq
              cases he : expr f prec tl with
              | error e => simp only [he] at h; cases h
              | ok q =>
                obtain ⟨rhs, rest'⟩ := q
                simp only [he] at h
                have := ihE _ _ _ _ he
                cases ha : infixArm rule with
                | none => simp only [ha] at h; cases h
                | some o => simp only [ha] at h; have := ihL _ _ _ _ _ h; simp; omega
            · rename_i prec heq
              cases he : expr f (prec - 1) tl with
              | error e => simp only [he] at h; cases h
              | ok q =>
                obtain ⟨rhs, rest'⟩ := q
                simp only [he] at h
                have := ihE _ _ _ _ he
                cases ha : infixArm rule with
                | none => simp only [ha] at h; cases h
                | some o => simp only [ha] at h; have := ihL _ _ _ _ _ h; simp; omega
            · cases h
          · cases h
        · injection h with h; injection h with _ h; subst h; simp

theorem shaped_of_good {res : PRes (PExp × List Item)} {t : PExp} {rest : List Item} (hg : GoodRes res)
    (h : res = .ok (t, rest)) : Shaped 2 rest := by
  subst h; exact hg

theorem pratt_fuel : ∀ f : Nat,
    (∀ r items, Shaped 0 items → 2 * items.length + 2 ≤ f → expr f r items ≠ .error .fuel)
    ∧ (∀ items, Shaped 0 items → 2 * items.length + 1 ≤ f → nud f items ≠ .error .fuel)
    ∧ (∀ r lhs items, Shaped 2 items → 2 * items.length + 1 ≤ f → loop f r lhs items ≠ .error .fuel) := by
  intro f
  induction f with
  | zero => refine ⟨?_, ?_, ?_⟩ <;> intros <;> omega
  | succ f ih =>
    obtain ⟨ihE, ihN, ihL⟩ := ih
    refine ⟨?_, ?_, ?_⟩
    · intro r items hs hf
      simp only [expr]
      cases hn : nud f items with
      | error e =>
        simp only; intro h; injection h with h; subst h
        exact ihN items hs (by omega) hn
      | ok p =>
        obtain ⟨lhs, rest⟩ := p
        simp only
        have hr := shaped_of_good ((pratt_good f).2.1 items hs) hn
        have := (pratt_consumes f).2.1 _ _ _ hn
        exact ihL r lhs rest hr (by omega)
    · intro items hs hf
      cases items with
      | nil => simp [Shaped, run] at hs
      | cons x tl =>
        cases x with
        | leaf t => simp [nud]
        | op rule =>
          have hp : isPrefixRule rule = true ∧ Shaped 1 tl := by
            by_cases h : isPrefixRule rule = true
            · exact ⟨h, by simpa [Shaped, run, h] using hs⟩
            · simp [Shaped, run, h] at hs
          simp only [nud]
          split
          · rename_i prec heq
            cases he : expr f (prec - 1) tl with
            | error e =>
              simp only; intro h; injection h with h; subst h
              exact ihE _ tl (shaped1_0 hp.2) (by simp at hf; omega) he
            | ok q =>
              obtain ⟨rhs, rest'⟩ := q
              simp only
              cases prefixArm rule <;> simp
          · simp
          · simp
    · intro r lhs items hs hf
      simp only [loop]
      cases hl : lbp items with
      | error e =>
        simp only
        cases items with
        | nil => simp [lbp] at hl
        | cons x tl =>
          cases x with
          | leaf t => simp [Shaped, run] at hs
          | op rule =>
            simp only [lbp] at hl
            split at hl
            · cases hl
            · injection hl with hl; subst hl; simp
      | ok p =>
        simp only
        split
        · split
          · rename_i rule tl
            have hp : isInfixRule rule = true ∧ Shaped 0 tl := by
              by_cases h : isInfixRule rule = true
              · exact ⟨h, by simpa [Shaped, run, h] using hs⟩
              · simp [Shaped, run, h] at hs
            split
            · rename_i prec heq
              cases he : expr f prec tl with
              | error e =>
                simp only; intro h; injection h with h; subst h
                exact ihE _ tl hp.2 (by simp at hf; omega) he
              | ok q =>
                obtain ⟨rhs, rest'⟩ := q
                simp only
                cases infixArm rule with
                | none => simp
                | some o =>
                  simp only
                  have hr := shaped_of_good ((pratt_good f).1 prec tl hp.2) he
                  have := (pratt_consumes f).1 _ _ _ _ he
                  exact ihL r _ rest' hr (by simp at hf; omega)
            · rename_i prec heq
              cases he : expr f (prec - 1) tl with
              | error e =>
                simp only; intro h; injection h with h; subst h
                exact ihE _ tl hp.2 (by simp at hf; omega) he
              | ok q =>
                obtain ⟨rhs, rest'⟩ := q
                simp only
                cases infixArm rule with
                | none => simp
                | some o =>
                  simp only
                  have hr := shaped_of_good ((pratt_good f).1 (prec - 1) tl hp.2) he
                  have := (pratt_consumes f).1 _ _ _ _ he
                  exact ihL r _ rest' hr (by simp at hf; omega)
            · simp
          · simp
        · simp

theorem prattParse_no_fuel {items : List Item} (h : Shaped 0 items) : prattParse items ≠ .error .fuel := by
  have := (pratt_fuel (2 * items.length + 2)).1 0 items h (by omega)
  unfold prattParse
  cases he : expr (2 * items.length + 2) 0 items with
  | error e => simp only; intro h'; injection h' with h'; subst h'; exact this he
  | ok p => simp

/-! ### the whole model -/

theorem wordLeaf_ne_fuel (w : String) (r : List Tok) : wordLeaf w r ≠ .error .fuel := by
  unfold wordLeaf
  repeat' split
  all_goals simp

theorem arrayLeaf_ne_fuel (r : List Tok) : arrayLeaf r ≠ .error .fuel := by
  intro h
  simp only [arrayLeaf] at h
  repeat' split at h
  all_goals first | (cases h; done) | skip

theorem fuel_of_eq {α : Type} {x : PRes α} {e : PErr} (h : x = .error e) (hx : x ≠ .error .fuel) : e ≠ .fuel := by
  intro he; subst he; exact hx h

/-- with fuel `6·|toks| + offset` no function of the model answers `fuel` -/
def FuelAt (f : Nat) : Prop :=
    (∀ toks, 6 * toks.length + 10 ≤ f → parseExp f toks ≠ .error .fuel)
    ∧ (∀ toks, 6 * toks.length + 9 ≤ f → collect f toks ≠ .error .fuel)
    ∧ (∀ toks acc, 6 * toks.length + 9 ≤ f → collectLoop f toks acc ≠ .error .fuel)
    ∧ (∀ toks, 6 * toks.length + 8 ≤ f → leaf f toks ≠ .error .fuel)
    ∧ (∀ w toks, 6 * toks.length + 7 ≤ f → wordRest f w toks ≠ .error .fuel)
    ∧ (∀ n toks, 6 * toks.length + 8 ≤ f → scopedFn f n toks ≠ .error .fuel)
    ∧ (∀ toks vs its, 6 * toks.length + 7 ≤ f → iterList f toks vs its ≠ .error .fuel)
    ∧ (∀ toks, 6 * toks.length + 6 ≤ f → iterDecl f toks ≠ .error .fuel)
    ∧ (∀ toks, 6 * toks.length + 11 ≤ f → iterator f toks ≠ .error .fuel)
    ∧ (∀ toks acc, 6 * toks.length + 11 ≤ f → expList f toks acc ≠ .error .fuel)
    ∧ (∀ toks acc, 6 * toks.length + 6 ≤ f → accessLoop f toks acc ≠ .error .fuel)
    ∧ (∀ toks acc, 6 * toks.length + 6 ≤ f → indexLoop f toks acc ≠ .error .fuel)
    ∧ (∀ toks, 6 * toks.length + 11 ≤ f → args f toks ≠ .error .fuel)
    ∧ (∀ toks acc, 6 * toks.length + 10 ≤ f → argsTail f toks acc ≠ .error .fuel)
    ∧ (∀ toks acc, 6 * toks.length + 6 ≤ f → atoms f toks acc ≠ .error .fuel)
    ∧ (∀ toks, 6 * toks.length + 6 ≤ f → optVariable f toks ≠ .error .fuel)
    ∧ (∀ toks, 6 * toks.length + 7 ≤ f → imulOrSingle f toks ≠ .error .fuel)

theorem fuel_parseExp (f : Nat) (ih : FuelAt f) : ∀ toks, 6 * toks.length + 10 ≤ (f+1) → parseExp (f+1) toks ≠ .error .fuel := by
  obtain ⟨hPE, hC, hCL, hL, hWR, hS, hIL, hID, hIt, hEL, hAL, hIx, hA, hAT, hAt, hOV, hI⟩ := ih
  intro toks hf
  simp only [parseExp]
  cases hc : collect f toks with
  | error e => simp only; intro h; injection h with h; exact fuel_of_eq hc (hC toks (by omega)) h
  | ok p =>
    obtain ⟨items, rest⟩ := p
    simp only
    have hp := prattParse_no_fuel (collect_shaped f toks items rest hc)
    cases hpp : prattParse items with
    | error e => simp only; intro h; injection h with h; subst h; exact hp hpp
    | ok t => simp

theorem fuel_collect (f : Nat) (ih : FuelAt f) : ∀ toks, 6 * toks.length + 9 ≤ (f+1) → collect (f+1) toks ≠ .error .fuel := by
  obtain ⟨hPE, hC, hCL, hL, hWR, hS, hIL, hID, hIt, hEL, hAL, hIx, hA, hAT, hAt, hOV, hI⟩ := ih
  obtain ⟨cPE, cC, cCL, cL, cWR, cS, cIL, cID, cIt, cEL, cAL, cIx, cA, cAT, cAt, cOV, cI⟩ := consumes f
  have hSk := skipNl_len
  have hOU := optUnary_len
  have hFN := fnNameTail_len
  have hTN := tupleNames_len
  have hWLl := @wordLeaf_len
  have hArl := @arrayLeaf_len
  have hGrl := @graphLeaf_len
  have hWLf := wordLeaf_ne_fuel
  have hArf := arrayLeaf_ne_fuel
  intro toks hf hres
  simp only [collect] at hres
  repeat' split at hres
  all_goals first | (cases hres; done) | skip
  all_goals grind

theorem fuel_collectLoop (f : Nat) (ih : FuelAt f) : ∀ toks acc, 6 * toks.length + 9 ≤ (f+1) → collectLoop (f+1) toks acc ≠ .error .fuel := by
  obtain ⟨hPE, hC, hCL, hL, hWR, hS, hIL, hID, hIt, hEL, hAL, hIx, hA, hAT, hAt, hOV, hI⟩ := ih
  obtain ⟨cPE, cC, cCL, cL, cWR, cS, cIL, cID, cIt, cEL, cAL, cIx, cA, cAT, cAt, cOV, cI⟩ := consumes f
  have hSk := skipNl_len
  have hOU := optUnary_len
  have hFN := fnNameTail_len
  have hTN := tupleNames_len
  have hWLl := @wordLeaf_len
  have hArl := @arrayLeaf_len
  have hGrl := @graphLeaf_len
  have hWLf := wordLeaf_ne_fuel
  have hArf := arrayLeaf_ne_fuel
  intro toks acc hf hres
  simp only [collectLoop] at hres
  repeat' split at hres
  all_goals first | (cases hres; done) | skip
  all_goals grind

theorem fuel_leaf (f : Nat) (ih : FuelAt f) : ∀ toks, 6 * toks.length + 8 ≤ (f+1) → leaf (f+1) toks ≠ .error .fuel := by
  obtain ⟨hPE, hC, hCL, hL, hWR, hS, hIL, hID, hIt, hEL, hAL, hIx, hA, hAT, hAt, hOV, hI⟩ := ih
  obtain ⟨cPE, cC, cCL, cL, cWR, cS, cIL, cID, cIt, cEL, cAL, cIx, cA, cAT, cAt, cOV, cI⟩ := consumes f
  have hSk := skipNl_len
  have hOU := optUnary_len
  have hFN := fnNameTail_len
  have hTN := tupleNames_len
  have hWLl := @wordLeaf_len
  have hArl := @arrayLeaf_len
  have hGrl := @graphLeaf_len
  have hWLf := wordLeaf_ne_fuel
  have hArf := arrayLeaf_ne_fuel
  intro toks hf hres
  simp only [leaf] at hres
  repeat' split at hres
  all_goals first | (cases hres; done) | skip
  all_goals grind

theorem fuel_wordRest (f : Nat) (ih : FuelAt f) : ∀ w toks, 6 * toks.length + 7 ≤ (f+1) → wordRest (f+1) w toks ≠ .error .fuel := by
  obtain ⟨hPE, hC, hCL, hL, hWR, hS, hIL, hID, hIt, hEL, hAL, hIx, hA, hAT, hAt, hOV, hI⟩ := ih
  obtain ⟨cPE, cC, cCL, cL, cWR, cS, cIL, cID, cIt, cEL, cAL, cIx, cA, cAT, cAt, cOV, cI⟩ := consumes f
  have hSk := skipNl_len
  have hOU := optUnary_len
  have hFN := fnNameTail_len
  have hTN := tupleNames_len
  have hWLl := @wordLeaf_len
  have hArl := @arrayLeaf_len
  have hGrl := @graphLeaf_len
  have hWLf := wordLeaf_ne_fuel
  have hArf := arrayLeaf_ne_fuel
  intro w toks hf hres
  simp only [wordRest] at hres
  repeat' split at hres
  all_goals first | (cases hres; done) | skip
  all_goals grind

theorem fuel_scopedFn (f : Nat) (ih : FuelAt f) : ∀ n toks, 6 * toks.length + 8 ≤ (f+1) → scopedFn (f+1) n toks ≠ .error .fuel := by
  obtain ⟨hPE, hC, hCL, hL, hWR, hS, hIL, hID, hIt, hEL, hAL, hIx, hA, hAT, hAt, hOV, hI⟩ := ih
  obtain ⟨cPE, cC, cCL, cL, cWR, cS, cIL, cID, cIt, cEL, cAL, cIx, cA, cAT, cAt, cOV, cI⟩ := consumes f
  have hSk := skipNl_len
  have hOU := optUnary_len
  have hFN := fnNameTail_len
  have hTN := tupleNames_len
  have hWLl := @wordLeaf_len
  have hArl := @arrayLeaf_len
  have hGrl := @graphLeaf_len
  have hWLf := wordLeaf_ne_fuel
  have hArf := arrayLeaf_ne_fuel
  intro n toks hf hres
  simp only [scopedFn] at hres
  repeat' split at hres
  all_goals first | (cases hres; done) | skip
  all_goals grind

theorem fuel_iterList (f : Nat) (ih : FuelAt f) : ∀ toks vs its, 6 * toks.length + 7 ≤ (f+1) → iterList (f+1) toks vs its ≠ .error .fuel := by
  obtain ⟨hPE, hC, hCL, hL, hWR, hS, hIL, hID, hIt, hEL, hAL, hIx, hA, hAT, hAt, hOV, hI⟩ := ih
  obtain ⟨cPE, cC, cCL, cL, cWR, cS, cIL, cID, cIt, cEL, cAL, cIx, cA, cAT, cAt, cOV, cI⟩ := consumes f
  have hSk := skipNl_len
  have hOU := optUnary_len
  have hFN := fnNameTail_len
  have hTN := tupleNames_len
  have hWLl := @wordLeaf_len
  have hArl := @arrayLeaf_len
  have hGrl := @graphLeaf_len
  have hWLf := wordLeaf_ne_fuel
  have hArf := arrayLeaf_ne_fuel
  intro toks vs its hf hres
  simp only [iterList] at hres
  repeat' split at hres
  all_goals first | (cases hres; done) | skip
  all_goals grind

theorem fuel_iterDecl (f : Nat) (ih : FuelAt f) : ∀ toks, 6 * toks.length + 6 ≤ (f+1) → iterDecl (f+1) toks ≠ .error .fuel := by
  obtain ⟨hPE, hC, hCL, hL, hWR, hS, hIL, hID, hIt, hEL, hAL, hIx, hA, hAT, hAt, hOV, hI⟩ := ih
  obtain ⟨cPE, cC, cCL, cL, cWR, cS, cIL, cID, cIt, cEL, cAL, cIx, cA, cAT, cAt, cOV, cI⟩ := consumes f
  have hSk := skipNl_len
  have hOU := optUnary_len
  have hFN := fnNameTail_len
  have hTN := tupleNames_len
  have hWLl := @wordLeaf_len
  have hArl := @arrayLeaf_len
  have hGrl := @graphLeaf_len
  have hWLf := wordLeaf_ne_fuel
  have hArf := arrayLeaf_ne_fuel
  intro toks hf hres
  simp only [iterDecl] at hres
  repeat' split at hres
  all_goals first | (cases hres; done) | skip
  all_goals grind

theorem fuel_iterator (f : Nat) (ih : FuelAt f) : ∀ toks, 6 * toks.length + 11 ≤ (f+1) → iterator (f+1) toks ≠ .error .fuel := by
  obtain ⟨hPE, hC, hCL, hL, hWR, hS, hIL, hID, hIt, hEL, hAL, hIx, hA, hAT, hAt, hOV, hI⟩ := ih
  obtain ⟨cPE, cC, cCL, cL, cWR, cS, cIL, cID, cIt, cEL, cAL, cIx, cA, cAT, cAt, cOV, cI⟩ := consumes f
  have hSk := skipNl_len
  have hOU := optUnary_len
  have hFN := fnNameTail_len
  have hTN := tupleNames_len
  have hWLl := @wordLeaf_len
  have hArl := @arrayLeaf_len
  have hGrl := @graphLeaf_len
  have hWLf := wordLeaf_ne_fuel
  have hArf := arrayLeaf_ne_fuel
  intro toks hf hres
  simp only [iterator] at hres
  repeat' split at hres
  all_goals first | (cases hres; done) | skip
  all_goals grind

theorem fuel_expList (f : Nat) (ih : FuelAt f) : ∀ toks acc, 6 * toks.length + 11 ≤ (f+1) → expList (f+1) toks acc ≠ .error .fuel := by
  obtain ⟨hPE, hC, hCL, hL, hWR, hS, hIL, hID, hIt, hEL, hAL, hIx, hA, hAT, hAt, hOV, hI⟩ := ih
  obtain ⟨cPE, cC, cCL, cL, cWR, cS, cIL, cID, cIt, cEL, cAL, cIx, cA, cAT, cAt, cOV, cI⟩ := consumes f
  have hSk := skipNl_len
  have hOU := optUnary_len
  have hFN := fnNameTail_len
  have hTN := tupleNames_len
  have hWLl := @wordLeaf_len
  have hArl := @arrayLeaf_len
  have hGrl := @graphLeaf_len
  have hWLf := wordLeaf_ne_fuel
  have hArf := arrayLeaf_ne_fuel
  intro toks acc hf hres
  simp only [expList] at hres
  repeat' split at hres
  all_goals first | (cases hres; done) | skip
  all_goals grind

theorem fuel_accessLoop (f : Nat) (ih : FuelAt f) : ∀ toks acc, 6 * toks.length + 6 ≤ (f+1) → accessLoop (f+1) toks acc ≠ .error .fuel := by
  obtain ⟨hPE, hC, hCL, hL, hWR, hS, hIL, hID, hIt, hEL, hAL, hIx, hA, hAT, hAt, hOV, hI⟩ := ih
  obtain ⟨cPE, cC, cCL, cL, cWR, cS, cIL, cID, cIt, cEL, cAL, cIx, cA, cAT, cAt, cOV, cI⟩ := consumes f
  have hSk := skipNl_len
  have hOU := optUnary_len
  have hFN := fnNameTail_len
  have hTN := tupleNames_len
  have hWLl := @wordLeaf_len
  have hArl := @arrayLeaf_len
  have hGrl := @graphLeaf_len
  have hWLf := wordLeaf_ne_fuel
  have hArf := arrayLeaf_ne_fuel
  intro toks acc hf hres
  simp only [accessLoop] at hres
  repeat' split at hres
  all_goals first | (cases hres; done) | skip
  all_goals grind

theorem fuel_indexLoop (f : Nat) (ih : FuelAt f) : ∀ toks acc, 6 * toks.length + 6 ≤ (f+1) → indexLoop (f+1) toks acc ≠ .error .fuel := by
  obtain ⟨hPE, hC, hCL, hL, hWR, hS, hIL, hID, hIt, hEL, hAL, hIx, hA, hAT, hAt, hOV, hI⟩ := ih
  obtain ⟨cPE, cC, cCL, cL, cWR, cS, cIL, cID, cIt, cEL, cAL, cIx, cA, cAT, cAt, cOV, cI⟩ := consumes f
  have hSk := skipNl_len
  have hOU := optUnary_len
  have hFN := fnNameTail_len
  have hTN := tupleNames_len
  have hWLl := @wordLeaf_len
  have hArl := @arrayLeaf_len
  have hGrl := @graphLeaf_len
  have hWLf := wordLeaf_ne_fuel
  have hArf := arrayLeaf_ne_fuel
  intro toks acc hf hres
  simp only [indexLoop] at hres
  repeat' split at hres
  all_goals first | (cases hres; done) | skip
  all_goals grind

theorem fuel_args (f : Nat) (ih : FuelAt f) : ∀ toks, 6 * toks.length + 11 ≤ (f+1) → args (f+1) toks ≠ .error .fuel := by
  obtain ⟨hPE, hC, hCL, hL, hWR, hS, hIL, hID, hIt, hEL, hAL, hIx, hA, hAT, hAt, hOV, hI⟩ := ih
  obtain ⟨cPE, cC, cCL, cL, cWR, cS, cIL, cID, cIt, cEL, cAL, cIx, cA, cAT, cAt, cOV, cI⟩ := consumes f
  have hSk := skipNl_len
  have hOU := optUnary_len
  have hFN := fnNameTail_len
  have hTN := tupleNames_len
  have hWLl := @wordLeaf_len
  have hArl := @arrayLeaf_len
  have hGrl := @graphLeaf_len
  have hWLf := wordLeaf_ne_fuel
  have hArf := arrayLeaf_ne_fuel
  intro toks hf hres
  simp only [args] at hres
  repeat' split at hres
  all_goals first | (cases hres; done) | skip
  all_goals grind

theorem fuel_argsTail (f : Nat) (ih : FuelAt f) : ∀ toks acc, 6 * toks.length + 10 ≤ (f+1) → argsTail (f+1) toks acc ≠ .error .fuel := by
  obtain ⟨hPE, hC, hCL, hL, hWR, hS, hIL, hID, hIt, hEL, hAL, hIx, hA, hAT, hAt, hOV, hI⟩ := ih
  obtain ⟨cPE, cC, cCL, cL, cWR, cS, cIL, cID, cIt, cEL, cAL, cIx, cA, cAT, cAt, cOV, cI⟩ := consumes f
  have hSk := skipNl_len
  have hOU := optUnary_len
  have hFN := fnNameTail_len
  have hTN := tupleNames_len
  have hWLl := @wordLeaf_len
  have hArl := @arrayLeaf_len
  have hGrl := @graphLeaf_len
  have hWLf := wordLeaf_ne_fuel
  have hArf := arrayLeaf_ne_fuel
  intro toks acc hf hres
  simp only [argsTail] at hres
  repeat' split at hres
  all_goals first | (cases hres; done) | skip
  all_goals grind

theorem fuel_atoms (f : Nat) (ih : FuelAt f) : ∀ toks acc, 6 * toks.length + 6 ≤ (f+1) → atoms (f+1) toks acc ≠ .error .fuel := by
  obtain ⟨hPE, hC, hCL, hL, hWR, hS, hIL, hID, hIt, hEL, hAL, hIx, hA, hAT, hAt, hOV, hI⟩ := ih
  obtain ⟨cPE, cC, cCL, cL, cWR, cS, cIL, cID, cIt, cEL, cAL, cIx, cA, cAT, cAt, cOV, cI⟩ := consumes f
  have hSk := skipNl_len
  have hOU := optUnary_len
  have hFN := fnNameTail_len
  have hTN := tupleNames_len
  have hWLl := @wordLeaf_len
  have hArl := @arrayLeaf_len
  have hGrl := @graphLeaf_len
  have hWLf := wordLeaf_ne_fuel
  have hArf := arrayLeaf_ne_fuel
  intro toks acc hf hres
  simp only [atoms] at hres
  repeat' split at hres
  all_goals first | (cases hres; done) | skip
  all_goals grind

theorem fuel_optVariable (f : Nat) (ih : FuelAt f) : ∀ toks, 6 * toks.length + 6 ≤ (f+1) → optVariable (f+1) toks ≠ .error .fuel := by
  obtain ⟨hPE, hC, hCL, hL, hWR, hS, hIL, hID, hIt, hEL, hAL, hIx, hA, hAT, hAt, hOV, hI⟩ := ih
  obtain ⟨cPE, cC, cCL, cL, cWR, cS, cIL, cID, cIt, cEL, cAL, cIx, cA, cAT, cAt, cOV, cI⟩ := consumes f
  have hSk := skipNl_len
  have hOU := optUnary_len
  have hFN := fnNameTail_len
  have hTN := tupleNames_len
  have hWLl := @wordLeaf_len
  have hArl := @arrayLeaf_len
  have hGrl := @graphLeaf_len
  have hWLf := wordLeaf_ne_fuel
  have hArf := arrayLeaf_ne_fuel
  intro toks hf hres
  simp only [optVariable] at hres
  repeat' split at hres
  all_goals first | (cases hres; done) | skip
  all_goals grind

theorem fuel_imulOrSingle (f : Nat) (ih : FuelAt f) : ∀ toks, 6 * toks.length + 7 ≤ (f+1) → imulOrSingle (f+1) toks ≠ .error .fuel := by
  obtain ⟨hPE, hC, hCL, hL, hWR, hS, hIL, hID, hIt, hEL, hAL, hIx, hA, hAT, hAt, hOV, hI⟩ := ih
  obtain ⟨cPE, cC, cCL, cL, cWR, cS, cIL, cID, cIt, cEL, cAL, cIx, cA, cAT, cAt, cOV, cI⟩ := consumes f
  have hSk := skipNl_len
  have hOU := optUnary_len
  have hFN := fnNameTail_len
  have hTN := tupleNames_len
  have hWLl := @wordLeaf_len
  have hArl := @arrayLeaf_len
  have hGrl := @graphLeaf_len
  have hWLf := wordLeaf_ne_fuel
  have hArf := arrayLeaf_ne_fuel
  intro toks hf hres
  simp only [imulOrSingle] at hres
  repeat' split at hres
  all_goals first | (cases hres; done) | skip
  all_goals grind

theorem no_fuel : ∀ f : Nat, FuelAt f := by
  intro f
  induction f with
  | zero => refine ⟨?_, ?_, ?_, ?_, ?_, ?_, ?_, ?_, ?_, ?_, ?_, ?_, ?_, ?_, ?_, ?_, ?_⟩ <;> intros <;> omega
  | succ f ih => exact ⟨fuel_parseExp f ih, fuel_collect f ih, fuel_collectLoop f ih, fuel_leaf f ih, fuel_wordRest f ih, fuel_scopedFn f ih, fuel_iterList f ih, fuel_iterDecl f ih, fuel_iterator f ih, fuel_expList f ih, fuel_accessLoop f ih, fuel_indexLoop f ih, fuel_args f ih, fuel_argsTail f ih, fuel_atoms f ih, fuel_optVariable f ih, fuel_imulOrSingle f ih⟩

/-- **The fuel of `parseToks` is always enough.** -/
theorem parseToksRaw_no_fuel (toks : List Tok) : parseToksRaw toks ≠ .error .fuel := by
  unfold parseToksRaw
  have := (no_fuel (parseFuel toks)).1 toks (by simp [parseFuel])
  cases hp : parseExp (parseFuel toks) toks with
  | error e => simp only; intro h; injection h with h; exact fuel_of_eq hp this h
  | ok p =>
    obtain ⟨t, rest⟩ := p
    cases rest <;> simp

theorem parseToks_no_fuel (toks : List Tok) : parseToks toks ≠ .error .fuel := by
  unfold parseToks
  have := parseToksRaw_no_fuel toks
  cases hp : parseToksRaw toks with
  | error e => simp only; intro h; injection h with h; exact this (by rw [hp, h])
  | ok t => simp only; split <;> simp

/-- **Totality of the parser model**: every token sequence is answered with a tree or with `reject`. -/
theorem parseToks_total (toks : List Tok) : (∃ t, parseToks toks = .ok t) ∨ parseToks toks = .error .reject := by
  have h1 := parseToks_no_panic toks
  have h2 := parseToks_no_fuel toks
  cases h : parseToks toks with
  | ok t => exact Or.inl ⟨t, rfl⟩
  | error e =>
    cases e with
    | reject => exact Or.inr rfl
    | panic => exact absurd h h1
    | fuel => exact absurd h h2

end Rooc.Syntax.Proofs
