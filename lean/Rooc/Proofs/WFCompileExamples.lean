/-
C08 helpers — the concrete models of `WFExamples` through the WHOLE compiler `Compile.linearize`
(step limit 0: bound inference publishes the declared ranges).
-/
import Rooc.Proofs.WFCompile
import Rooc.Proofs.WFExamples

set_option linter.unusedSimpArgs false

namespace Rooc
namespace Lin
namespace Examples
open Arith

theorem analyzer0 (dom : List (DomVar R)) (c : Constraint R) (tol : R) :
    Analyzer.analyze dom [c] tol 0 = { Analyzer.fromDomain dom tol with reachedIterationLimit := true } := by
  simp [Analyzer.analyze, Analyzer.propagate, Analyzer.propagateLoop, List.range, List.range.loop]

/-- with step limit 0, a one-constraint model over the domain `x : NonNegativeReal` compiles exactly as the
lowering on the declared ranges. -/
theorem compile0_eq (m : Model R) (c : Constraint R) (tol : R) (hc : m.constraints = [c])
    (hn : Compile.normalizedForBounds m.constraints = some m.constraints) (hdom : m.domain = exA.domain)
    (hscr : ∃ r, collapseCheckAll m (Compile.scratchState m tol 0) = .ok r) :
    Compile.linearize m tol 0 = linearizeWith m exAb exA.domain := by
  unfold Compile.linearize
  obtain ⟨r, hr⟩ := hscr
  rw [hr]
  dsimp only
  rw [hn]
  dsimp only
  rw [hc, analyzer0, hdom]
  have h1 : Compile.enforceable ({ Analyzer.fromDomain exA.domain tol with reachedIterationLimit := true } : Analyzer R)
      exA.domain = { Analyzer.fromDomain exA.domain tol with reachedIterationLimit := true } := by
    simp [Compile.enforceable, Analyzer.enforceable, Analyzer.emptyIntegerRange, Analyzer.roundIntegerRanges,
      Analyzer.roundStep, Analyzer.fromDomain, exA]
  rw [h1]
  have h2 : ({ Analyzer.fromDomain exA.domain tol with reachedIterationLimit := true } : Analyzer R).applyToDomain
      exA.domain = exA.domain := by
    simp +decide [Analyzer.applyToDomain, Analyzer.applyToVar, Analyzer.fromDomain, exA, AList.insert, AList.get?,
      Rooc.Bounds.ofVarType, Arith.gt, Arith.lt, Ext.lt, Arith.zero, Arith.ofInt, ExactField.lt, ExactField.ofInt]
  have h3 : Compile.toLinBounds
      ({ Analyzer.fromDomain exA.domain tol with reachedIterationLimit := true } : Analyzer R).variableBounds = exAb := by
    simp [Compile.toLinBounds, Analyzer.fromDomain, exA, exAb, AList.insert, Rooc.Bounds.ofVarType]
  rw [h2, h3]

theorem exA_compile (tol : R) :
    Compile.linearize exA tol 0 = .ok (assemble exA (Ctx.fromVar "x" Arith.one) exA_final) := by
  rw [compile0_eq exA _ tol rfl (by simp [Compile.normalizedForBounds, exA, norm_var, norm_num]) rfl
    ⟨_, by simp [collapseCheckAll, collapseCheckConstraints, collapseCheck, exA]; rfl⟩]
  exact exA_compiles

theorem exB_compile (tol : R) :
    Compile.linearize exB tol 0 = .ok (assemble exB (Ctx.fromVar "x" Arith.one) exB_final) := by
  rw [compile0_eq exB _ tol rfl (by simp [Compile.normalizedForBounds, exB, exB_lhs, norm_num]) rfl
    ⟨_, by simp [collapseCheckAll, collapseCheckConstraints, collapseCheck, exB, infx]; rfl⟩]
  exact exB_compiles

end Examples
end Lin
end Rooc
