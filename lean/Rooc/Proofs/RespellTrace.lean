/-
C10 — the up-front collapse check reads the raw sides only through the simplifications of their and/or nodes
(`collapseTrace`), and the corollary for re-spelled closed constants: plugging two spellings of the same constant
into the same model context gives the same result of `Compile.linearize`.
-/
import Rooc.Proofs.RespellCompile
namespace Rooc
namespace Compile
open Rooc.Lin Rooc.Exp
set_option linter.unusedSectionVars false
variable {α : Type} [Arith α]

/-- `collapseNode` after its `simplify`. -/
def collapseNodeS (collapsed : Exp α) : M α Unit := do
  let s ← get
  if isLogicValue s.domain collapsed then pure ()
  else do
    let lowered ← linExp collapsed .exact
    let s ← get
    if !(isBinaryCtx lowered s.domain) then fail .nonBinaryLogicOperand else pure ()

theorem collapseNode_eq (e : Exp α) : collapseNode e = collapseNodeS (Exp.simplify e) := rfl

def runTrace : List (Exp α) → M α Unit
  | [] => pure ()
  | x :: xs => do collapseNodeS x; runTrace xs

theorem runTrace_append (a b : List (Exp α)) :
    runTrace (a ++ b) = (do runTrace a; runTrace b) := by
  induction a with
  | nil => simp [runTrace]
  | cons x xs ih => simp only [List.cons_append, runTrace, ih, bind_assoc]

mutual
/-- the simplified and/or nodes of a raw expression, in the post-order of `check_collapsing_logic_operands`. -/
def collapseTrace : Exp α → List (Exp α)
  | .num _ => []
  | .var _ => []
  | .abs e => collapseTrace e
  | .not e => collapseTrace e
  | .un _ e => collapseTrace e
  | .min es => collapseTraceL es
  | .max es => collapseTraceL es
  | .and es => collapseTraceL es ++ [Exp.simplify (.and es)]
  | .or es => collapseTraceL es ++ [Exp.simplify (.or es)]
  | .xor l r => collapseTrace l ++ collapseTrace r
  | .implies l r => collapseTrace l ++ collapseTrace r
  | .iff l r => collapseTrace l ++ collapseTrace r
  | .bin op l r =>
    collapseTrace l ++ collapseTrace r ++
      (match op with
       | .and | .or => [Exp.simplify (.bin op l r)]
       | _ => [])
def collapseTraceL : List (Exp α) → List (Exp α)
  | [] => []
  | e :: es => collapseTrace e ++ collapseTraceL es
end

theorem collapseCheck_trace :
    (∀ e : Exp α, collapseCheck e = runTrace (collapseTrace e)) ∧
    (∀ es : List (Exp α), collapseCheckList es = runTrace (collapseTraceL es)) := by
  apply collapseCheck.mutual_induct
    (motive_1 := fun e => collapseCheck e = runTrace (collapseTrace e))
    (motive_2 := fun es => collapseCheckList es = runTrace (collapseTraceL es))
  all_goals intros
  all_goals simp only [collapseCheck, collapseCheckList, collapseTrace, collapseTraceL, runTrace,
    runTrace_append, collapseNode_eq, bind_assoc, bind_pure_unit, pure_bind, *]
  all_goals try rfl
  all_goals (rename_i op _ _ _ _; cases op <;> simp [runTrace])

def traceConstraints : List (Constraint α) → List (Exp α)
  | [] => []
  | c :: cs => collapseTrace c.lhs ++ (if c.isAssert then [] else collapseTrace c.rhs) ++ traceConstraints cs

/-- everything the up-front check reads of a model. -/
def traceModel (m : Model α) : List (Exp α) := collapseTrace m.objective ++ traceConstraints m.constraints

theorem collapseCheckConstraints_trace : ∀ cs : List (Constraint α),
    collapseCheckConstraints cs = runTrace (traceConstraints cs)
  | [] => by simp [collapseCheckConstraints, traceConstraints, runTrace]
  | c :: cs => by
    simp only [collapseCheckConstraints, traceConstraints, runTrace_append, collapseCheck_trace.1,
      collapseCheckConstraints_trace cs, bind_assoc]
    cases c.isAssert <;> simp [runTrace]

theorem collapseCheckAll_trace (m : Model α) : collapseCheckAll m = runTrace (traceModel m) := by
  simp only [collapseCheckAll, traceModel, runTrace_append, collapseCheck_trace.1,
    collapseCheckConstraints_trace]

/-- models with the same declarations and the same collapse trace have the same check outcome. -/
theorem checkOutcome_of_trace {m m' : Model α} (hd : m'.domain = m.domain)
    (ht : traceModel m' = traceModel m) (tol : α) (maxSteps : Nat) :
    checkOutcome m' tol maxSteps = checkOutcome m tol maxSteps := by
  unfold checkOutcome scratchState
  rw [collapseCheckAll_trace, collapseCheckAll_trace, ht, hd]

/-- **Model-level respelling, syntactic form**: twins with the same collapse trace compile to the same result. -/
theorem linearize_twins_trace {m m' : Model α} (h : Twins m m') (ht : traceModel m' = traceModel m)
    (tol : α) (maxSteps : Nat) :
    Compile.linearize m' tol maxSteps = Compile.linearize m tol maxSteps :=
  linearize_twins h tol maxSteps (checkOutcome_of_trace h.domain ht tol maxSteps)

/-! ### re-spelling a constant in a model context -/

mutual
/-- no and/or node (n-ary or `BinOp`-spelled). -/
def noAndOr : Exp α → Bool
  | .num _ => true
  | .var _ => true
  | .abs e => noAndOr e
  | .not e => noAndOr e
  | .un _ e => noAndOr e
  | .min es => noAndOrL es
  | .max es => noAndOrL es
  | .and _ => false
  | .or _ => false
  | .xor l r => noAndOr l && noAndOr r
  | .implies l r => noAndOr l && noAndOr r
  | .iff l r => noAndOr l && noAndOr r
  | .bin op l r => (match op with | .and | .or => false | _ => true) && noAndOr l && noAndOr r
def noAndOrL : List (Exp α) → Bool
  | [] => true
  | e :: es => noAndOr e && noAndOrL es
end

theorem collapseTrace_noAndOr :
    (∀ e : Exp α, noAndOr e = true → collapseTrace e = []) ∧
    (∀ es : List (Exp α), noAndOrL es = true → collapseTraceL es = []) := by
  apply noAndOr.mutual_induct
    (motive_1 := fun e => noAndOr e = true → collapseTrace e = [])
    (motive_2 := fun es => noAndOrL es = true → collapseTraceL es = [])
  all_goals intros
  all_goals simp_all [noAndOr, noAndOrL, collapseTrace, collapseTraceL]
  all_goals (rename_i op _ _ _ _ _; cases op <;> simp_all)

/-- the collapse trace of a context does not depend on how a trace-free constant is spelled. -/
theorem collapseTrace_subst (h : String) {c1 c2 : Exp α} (hs : Exp.simplify c1 = Exp.simplify c2)
    (h1 : collapseTrace c1 = []) (h2 : collapseTrace c2 = []) :
    (∀ t : Exp α, collapseTrace (subst h c1 t) = collapseTrace (subst h c2 t)) ∧
    (∀ ts : List (Exp α), collapseTraceL (substL h c1 ts) = collapseTraceL (substL h c2 ts)) := by
  have key : ∀ t : Exp α, Exp.simplify (subst h c1 t) = Exp.simplify (subst h c2 t) :=
    fun t => simplify_subst_congr h hs t
  apply collapseTrace.mutual_induct
    (motive_1 := fun t => collapseTrace (subst h c1 t) = collapseTrace (subst h c2 t))
    (motive_2 := fun ts => collapseTraceL (substL h c1 ts) = collapseTraceL (substL h c2 ts))
  all_goals intros
  all_goals try (simp only [subst, substL, collapseTrace, collapseTraceL, *]; done)
  · simp only [subst]; split
    · rw [h1, h2]
    · rfl
  · rename_i es ih
    have := key (.and es); simp only [subst] at this
    simp only [subst, collapseTrace, ih, this]
  · rename_i es ih
    have := key (.or es); simp only [subst] at this
    simp only [subst, collapseTrace, ih, this]
  · rename_i op l r ihl ihr
    have := key (.bin op l r); simp only [subst] at this
    simp only [subst, collapseTrace, ihl, ihr]
    cases op <;> simp only [this]

/-- plug `c` into the hole `h` of every side of a model (the right-hand side of a logic assertion is a
placeholder the pipeline never reads as an expression; it is left alone). -/
def substModel (h : String) (c : Exp α) (m : Model α) : Model α :=
  { m with objective := subst h c m.objective,
           constraints := m.constraints.map fun k =>
             { k with lhs := subst h c k.lhs, rhs := if k.isAssert then k.rhs else subst h c k.rhs } }

theorem normalizeExp_subst (h : String) {c1 c2 : Exp α} (hs : Exp.simplify c1 = Exp.simplify c2) (t : Exp α) :
    normalizeExp (subst h c1 t) = normalizeExp (subst h c2 t) := by
  unfold normalizeExp; rw [simplify_subst_congr h hs t]

/-- **Re-spelling a constant**: two spellings with the same simplification and no and/or node, plugged into the
same model context, compile to the same result. -/
theorem linearize_respell (h : String) {c1 c2 : Exp α} (hs : Exp.simplify c1 = Exp.simplify c2)
    (h1 : noAndOr c1 = true) (h2 : noAndOr c2 = true) (m : Model α) (tol : α) (maxSteps : Nat) :
    Compile.linearize (substModel h c2 m) tol maxSteps = Compile.linearize (substModel h c1 m) tol maxSteps := by
  have t1 := collapseTrace_noAndOr.1 c1 h1
  have t2 := collapseTrace_noAndOr.1 c2 h2
  have hT := (collapseTrace_subst h hs t1 t2).1
  apply linearize_twins_trace
  · refine ⟨rfl, rfl, (normalizeExp_subst h hs _).symm, ?_⟩
    simp only [substModel]
    induction m.constraints with
    | nil => exact List.Forall₂.nil
    | cons k ks ih =>
      refine List.Forall₂.cons ⟨rfl, rfl, rfl, (normalizeExp_subst h hs _).symm, ?_⟩ ih
      dsimp only
      cases k.isAssert
      · simp only [Bool.false_eq_true, if_false]; exact (normalizeExp_subst h hs _).symm
      · simp only [if_true]
  · simp only [traceModel, substModel, hT]
    congr 1
    induction m.constraints with
    | nil => rfl
    | cons k ks ih =>
      simp only [List.map_cons, traceConstraints, hT, ih]
      cases k.isAssert <;> simp [hT]

end Compile
end Rooc
