/-
The positional column bookkeeping of `to_standard_form` in closed form: with `fl` the list of "is free"
flags of the variables, after "append two columns per free variable, then remove the free columns by
index" a vector `r` has become `keep fl r ++ pairs fl r`.
-/
import Rooc.Proofs.StdSem
namespace Rooc
namespace StdLayout
open Standardize

/-- positions (from `k` on) whose flag is set. -/
def flagsIdx : Nat → List Bool → List Nat
  | _, [] => []
  | k, f :: fs => if f then k :: flagsIdx (k+1) fs else flagsIdx (k+1) fs

/-- the unflagged elements. -/
def keep {β : Type} : List Bool → List β → List β
  | f :: fs, x :: xs => if f then keep fs xs else x :: keep fs xs
  | _, _ => []

/-- `g` of the flagged elements, concatenated. -/
def pairs {β γ : Type} (g : β → List γ) : List Bool → List β → List γ
  | f :: fs, x :: xs => if f then g x ++ pairs g fs xs else pairs g fs xs
  | _, _ => []

theorem flagsIdx_ge : ∀ (fl : List Bool) (k j : Nat), j ∈ flagsIdx k fl → k ≤ j
  | [], _, _, h => by simp [flagsIdx] at h
  | f :: fs, k, j, h => by
    simp only [flagsIdx] at h
    split at h
    · rcases List.mem_cons.1 h with rfl | h
      · exact le_refl _
      · exact Nat.le_of_succ_le (flagsIdx_ge fs (k+1) j h)
    · exact Nat.le_of_succ_le (flagsIdx_ge fs (k+1) j h)

theorem flagsIdx_lt : ∀ (fl : List Bool) (k j : Nat), j ∈ flagsIdx k fl → j < k + fl.length
  | [], _, _, h => by simp [flagsIdx] at h
  | f :: fs, k, j, h => by
    simp only [flagsIdx] at h
    have key : ∀ j, j ∈ flagsIdx (k+1) fs → j < k + (f :: fs).length := fun j hj => by
      have := flagsIdx_lt fs (k+1) j hj; simp only [List.length_cons]; omega
    split at h
    · rcases List.mem_cons.1 h with rfl | h
      · simp
      · exact key j h
    · exact key j h

theorem removeManyFrom_cons_lt {β : Type} (a : Nat) (idx : List Nat) :
    ∀ (xs : List β) (k : Nat), a < k → removeManyFrom (a :: idx) k xs = removeManyFrom idx k xs
  | [], _, _ => by simp [removeManyFrom]
  | x :: xs, k, h => by
    have hne : (k == a) = false := by simp; omega
    simp only [removeManyFrom, List.contains_cons, hne, Bool.false_or]
    rw [removeManyFrom_cons_lt a idx xs (k+1) (by omega)]

/-- **remove-by-index = keep-by-flag.** -/
theorem removeManyFrom_flags {β : Type} : ∀ (fl : List Bool) (k : Nat) (r : List β), r.length = fl.length →
    removeManyFrom (flagsIdx k fl) k r = keep fl r
  | [], k, [], _ => by simp [removeManyFrom, keep]
  | f :: fs, k, x :: xs, h => by
    have hlen : xs.length = fs.length := by simpa using h
    have hnot : (flagsIdx (k+1) fs).contains k = false := by
      cases hc : (flagsIdx (k+1) fs).contains k with
      | false => rfl
      | true =>
        have := flagsIdx_ge fs (k+1) k (by simpa using hc)
        omega
    cases f with
    | true =>
      simp only [flagsIdx, if_true, removeManyFrom, List.contains_cons, beq_self_eq_true, Bool.true_or, keep]
      rw [removeManyFrom_cons_lt k _ xs (k+1) (by omega), removeManyFrom_flags fs (k+1) xs hlen]
    | false =>
      simp only [flagsIdx, Bool.false_eq_true, if_false, removeManyFrom, hnot, keep]
      rw [removeManyFrom_flags fs (k+1) xs hlen]
  | [], _, _ :: _, h => by simp at h
  | _ :: _, _, [], h => by simp at h

theorem removeMany_flags {β : Type} (fl : List Bool) (r : List β) (h : r.length = fl.length) :
    removeMany r (flagsIdx 0 fl) = keep fl r := removeManyFrom_flags fl 0 r h

/-- with extra columns appended behind the original ones. -/
theorem removeManyFrom_append {β : Type} (idx : List Nat) : ∀ (r e : List β) (k : Nat),
    (∀ j ∈ idx, j < k + r.length) → removeManyFrom idx k (r ++ e) = removeManyFrom idx k r ++ e
  | [], e, k, h => by
    simp only [List.nil_append, removeManyFrom, List.length_nil, Nat.add_zero] at h ⊢
    -- no listed index is ≥ k
    induction e generalizing k with
    | nil => simp [removeManyFrom]
    | cons y ys ih =>
      have hc : idx.contains k = false := by
        cases hc : idx.contains k with
        | false => rfl
        | true => have := h k (by simpa using hc); omega
      simp only [removeManyFrom, hc, Bool.false_eq_true, if_false]
      rw [ih (k+1) (fun j hj => by have := h j hj; omega)]
  | x :: xs, e, k, h => by
    simp only [List.cons_append, removeManyFrom]
    rw [removeManyFrom_append idx xs e (k+1) (fun j hj => by have := h j hj; simp only [List.length_cons] at this; omega)]
    split <;> simp

variable {α : Type} [Arith α]

/-- the two columns a free variable with coefficient `c` contributes. -/
def pm (c : α) : List α := [c, Arith.neg c]

/-- **the free-variable loop in closed form**: reading index `i` of the grown vector is reading the
original vector, so every listed position contributes `c, −c` behind everything already there. -/
theorem splitAll_append (r : List α) : ∀ (is : List Nat) (e : List α), (∀ i ∈ is, i < r.length) →
    splitAll is (r ++ e) = some (r ++ e ++ is.flatMap (fun i => pm (r.getD i Arith.zero)))
  | [], e, _ => by simp [splitAll]
  | i :: is, e, h => by
    have hi : i < r.length := h i (by simp)
    have hget : (r ++ e)[i]? = some (r.getD i Arith.zero) := by
      rw [List.getElem?_append_left hi]; simp [List.getD_eq_getElem?_getD, hi]
    simp only [splitAll, splitStep, hget]
    have := splitAll_append r is (e ++ [r.getD i Arith.zero, Arith.neg (r.getD i Arith.zero)])
      (fun j hj => h j (List.mem_cons_of_mem _ hj))
    simp only [← List.append_assoc] at this
    rw [this]; simp [pm, List.append_assoc]

theorem flatMap_flags (r : List α) : ∀ (fl : List Bool) (k : Nat), k + fl.length ≤ r.length →
    (flagsIdx k fl).flatMap (fun i => pm (r.getD i Arith.zero)) = pairs pm fl (r.drop k)
  | [], k, _ => by simp [flagsIdx, pairs]
  | f :: fs, k, h => by
    have hk : k < r.length := by simp only [List.length_cons] at h; omega
    have hd : r.drop k = r.getD k Arith.zero :: r.drop (k+1) := by
      rw [List.drop_eq_getElem_cons hk]; simp [List.getD_eq_getElem?_getD, hk]
    have ih := flatMap_flags r fs (k+1) (by simp only [List.length_cons] at h; omega)
    cases f with
    | true => simp only [flagsIdx, if_true, List.flatMap_cons, ih, hd, pairs]
    | false => simp only [flagsIdx, Bool.false_eq_true, if_false, ih, hd, pairs]

/-- **one vector through the free-variable split**: `keep fl r ++ pairs pm fl r`. -/
theorem split_closed (fl : List Bool) (r : List α) (h : r.length = fl.length) :
    (splitAll (flagsIdx 0 fl) r).map (fun c => removeMany c (flagsIdx 0 fl)) =
      some (keep fl r ++ pairs pm fl r) := by
  have hlt : ∀ i ∈ flagsIdx 0 fl, i < r.length := fun i hi => by
    have := flagsIdx_lt fl 0 i hi; omega
  have := splitAll_append r (flagsIdx 0 fl) [] hlt
  simp only [List.append_nil] at this
  rw [this, flatMap_flags r fl 0 (by omega)]
  simp only [Option.map_some, List.drop_zero, Option.some.injEq]
  unfold removeMany
  rw [removeManyFrom_append _ _ _ _ (by simpa using hlt)]
  congr 1
  exact removeManyFrom_flags fl 0 r h

end StdLayout
end Rooc
