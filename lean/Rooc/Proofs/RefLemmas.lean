/-
Helper lemmas for C03: variables of a model, `Closed`, congruence of `srcFeasible`, completeness of the
enumeration `Ref.assignments`, the arg-min/arg-max fold `Ref.best`, and the case analysis of `refSolve`.
-/
import Rooc.Ref
import Rooc.Proofs.ExpVars
import Rooc.Proofs.Field
import Rooc.Proofs.ExtArith
namespace Rooc
namespace Ref
open Sem Exp

deriving instance DecidableEq for Verdict

section generic
variable {K : Type} [ExactField K]

/-- the variables a constraint's truth depends on (the right-hand side of an assertion is ignored). -/
def consVars {α : Type} (c : Constraint α) : List String :=
  if c.isAssert then c.lhs.vars else c.lhs.vars ++ c.rhs.vars

/-- every variable the model's meaning depends on. -/
def modelVars {α : Type} (m : Model α) : List String :=
  m.objective.vars ++ m.constraints.flatMap consVars

/-- names of the declared variables that carry a usage mark. -/
def usedNames {α : Type} (ds : List (DomVar α)) : List String :=
  (ds.filter (fun d => decide (d.usage > 0))).map (·.name)

/-- every variable occurring in the model is a declared variable with a usage mark. -/
def Closed {α : Type} (m : Model α) : Bool :=
  (modelVars m).all fun s => (usedNames m.domain).contains s

/-- two assignments agree on the used declared variables. -/
def AgreeOn {α : Type} (ds : List (DomVar α)) (ρ ρ' : String → K) : Prop :=
  ∀ d ∈ ds, d.usage > 0 → ρ d.name = ρ' d.name

theorem mem_usedNames {α : Type} {ds : List (DomVar α)} {s : String} :
    s ∈ usedNames ds ↔ ∃ d ∈ ds, d.usage > 0 ∧ d.name = s := by
  simp [usedNames, and_assoc]

omit [ExactField K] in
theorem AgreeOn.on_closed {m : Model (Ext K)} {ρ ρ' : String → K} (hc : Closed m = true)
    (h : AgreeOn m.domain ρ ρ') : ∀ s ∈ modelVars m, ρ s = ρ' s := by
  intro s hs
  simp only [Closed, List.all_eq_true] at hc
  have := hc s hs
  rw [List.contains_iff_mem, mem_usedNames] at this
  obtain ⟨d, hd, hu, rfl⟩ := this
  exact h d hd hu

theorem all_congr_mem {α : Type} {l : List α} {f g : α → Bool} (h : ∀ x ∈ l, f x = g x) :
    l.all f = l.all g := by
  induction l with
  | nil => rfl
  | cons a l ih =>
    simp only [List.all_cons, h a (by simp), ih (fun x hx => h x (by simp [hx]))]

theorem constraintHolds_congr {ρ ρ' : String → K} (c : Constraint (Ext K))
    (h : ∀ s ∈ consVars c, ρ s = ρ' s) : constraintHolds ρ c = constraintHolds ρ' c := by
  unfold constraintHolds consVars at *
  by_cases ha : c.isAssert = true
  · simp only [ha, if_true] at h ⊢
    rw [eval_congr c.lhs h]
  · simp only [ha] at h ⊢
    rw [eval_congr c.lhs (fun s hs => h s (by simp [hs])),
      eval_congr c.rhs (fun s hs => h s (by simp [hs]))]

/-- feasibility depends only on the used declared variables, for a closed model. -/
theorem srcFeasible_congr {m : Model (Ext K)} {ρ ρ' : String → K} (hc : Closed m = true)
    (h : AgreeOn m.domain ρ ρ') : srcFeasible m ρ = srcFeasible m ρ' := by
  have hv := h.on_closed hc
  unfold srcFeasible
  congr 1
  · apply all_congr_mem
    intro c hcm
    apply constraintHolds_congr
    intro s hs
    apply hv
    simp only [modelVars, List.mem_append, List.mem_flatMap]
    exact Or.inr ⟨c, hcm, hs⟩
  · apply all_congr_mem
    intro d hd
    by_cases hu : d.usage = 0
    · simp [hu]
    · rw [h d hd (Nat.pos_of_ne_zero hu)]

theorem objective_congr {m : Model (Ext K)} {ρ ρ' : String → K} (hc : Closed m = true)
    (h : AgreeOn m.domain ρ ρ') : eval ρ m.objective = eval ρ' m.objective := by
  apply eval_congr
  intro s hs
  exact h.on_closed hc s (by simp [modelVars, hs])

theorem best_eq_none {o : OptType} {l : List (K × List (String × K))} : best o l = none ↔ l = [] := by
  cases l <;> simp [best]

/-- the list of feasible enumerated points. -/
def feasList (m : Model (Ext K)) (asg : List (List (String × K))) : List (List (String × K)) :=
  asg.filter fun a => srcFeasible m (lookup a)

/-- the (value, witness) pairs `best` is run on. -/
def valList (m : Model (Ext K)) (feas : List (List (String × K))) : List (K × List (String × K)) :=
  feas.filterMap fun a => (eval (lookup a) m.objective).map fun v => (v, a)

theorem mem_valList {m : Model (Ext K)} {feas : List (List (String × K))} {v : K} {w : List (String × K)} :
    (v, w) ∈ valList m feas ↔ w ∈ feas ∧ eval (lookup w) m.objective = some v := by
  simp only [valList, List.mem_filterMap, Option.map_eq_some_iff, Prod.mk.injEq]
  constructor
  · rintro ⟨a, ha, v', hv, rfl, rfl⟩
    exact ⟨ha, hv⟩
  · rintro ⟨hw, hv⟩
    exact ⟨w, hw, v, hv, rfl, rfl⟩

/-- the five outcomes of `refSolve`, each with exactly the facts that lead to it. -/
inductive Outcome (m : Model (Ext K)) : Verdict K → Prop
  | continuous : assignments m.domain = none → Outcome m .continuous
  | infeasible (asg) : assignments m.domain = some asg → feasList m asg = [] → Outcome m .infeasible
  | feasibleAny (asg w rest) : assignments m.domain = some asg → feasList m asg = w :: rest →
      m.optType = .satisfy → Outcome m (.feasibleAny w)
  | undefinedObjective (asg a) : assignments m.domain = some asg → m.optType ≠ .satisfy →
      a ∈ feasList m asg → eval (lookup a) m.objective = none → Outcome m .undefinedObjective
  | optimal (asg v w) : assignments m.domain = some asg → m.optType ≠ .satisfy →
      feasList m asg ≠ [] → (∀ a ∈ feasList m asg, (eval (lookup a) m.objective).isSome = true) →
      best m.optType (valList m (feasList m asg)) = some (v, w) → Outcome m (.optimal v w)

theorem refSolve_outcome (m : Model (Ext K)) : Outcome m (refSolve m) := by
  unfold refSolve
  split
  · next h => exact .continuous h
  · next asg h =>
    simp only
    split
    · next hf => exact .infeasible asg h hf
    · next w rest hf =>
      have hf' : feasList m asg = w :: rest := hf
      split
      · next ho => exact .feasibleAny asg w rest h hf' ho
      · next ho =>
        have hne : m.optType ≠ .satisfy := fun hh => ho hh
        split
        · next hany =>
          simp only [List.any_eq_true, List.mem_map] at hany
          obtain ⟨p, ⟨a, ha, rfl⟩, hp⟩ := hany
          refine .undefinedObjective asg a h hne ha ?_
          simpa using hp
        · next hany =>
          have hall : ∀ a ∈ feasList m asg, (eval (lookup a) m.objective).isSome = true := by
            intro a ha
            cases hev : eval (lookup a) m.objective with
            | some _ => rfl
            | none =>
              exfalso; apply hany
              simp only [List.any_eq_true, List.mem_map]
              exact ⟨(none, a), ⟨a, ha, by rw [hev]⟩, rfl⟩
          have hval : (List.filterMap (fun p : Option K × List (String × K) => p.1.map fun v => (v, p.2))
              (List.map (fun a => (eval (lookup a) m.objective, a))
                (List.filter (fun a => srcFeasible m (lookup a)) asg))) = valList m (feasList m asg) := by
            rw [valList, List.filterMap_map]; rfl
          rw [hval]
          split
          · next v w' hb => exact .optimal asg v w' h hne (by rw [hf']; simp) hall hb
          · next hb =>
            exfalso
            rw [best_eq_none] at hb
            have hw := hall w (by rw [hf']; simp)
            cases hev : eval (lookup w) m.objective with
            | none => rw [hev] at hw; cases hw
            | some v =>
              have : (v, w) ∈ valList m (feasList m asg) := mem_valList.2 ⟨by rw [hf']; simp, hev⟩
              rw [hb] at this; cases this

end generic
section generic2
variable {K : Type} [ExactField K]

theorem lookup_cons_self (n : String) (v : K) (a : List (String × K)) : lookup ((n, v) :: a) n = v := by
  simp [lookup]

theorem lookup_cons_ne {n s : String} (v : K) (a : List (String × K)) (h : n ≠ s) :
    lookup ((n, v) :: a) s = lookup a s := by
  simp [lookup, h]

end generic2

section field
variable {K : Type} [Field K] [LinearOrder K] [IsStrictOrderedRing K] [FloorRing K]

/-- a value in a discrete domain is one of the enumerated values. -/
theorem domainValues_complete {ty : VarType (Ext K)} {vs : List K} (h : domainValues ty = some vs)
    {x : K} (hx : inDomain x ty = true) : x ∈ vs := by
  cases ty with
  | bool =>
    simp only [domainValues, Option.some.injEq] at h
    subst h
    simpa [inDomain] using hx
  | int lo hi =>
    simp only [domainValues, Option.some.injEq] at h
    subst h
    simp only [inDomain, isIntK, ef_eq, ef_floor, ef_ofInt, ef_le, Bool.and_eq_true,
      decide_eq_true_eq] at hx
    obtain ⟨⟨hint, hlo⟩, hhi⟩ := hx
    have h1 : lo ≤ ⌊x⌋ := Int.le_floor.2 hlo
    have h2 : ⌊x⌋ ≤ hi := by
      rw [← hint] at hhi
      exact_mod_cast hhi
    simp only [List.mem_map, List.mem_range, ef_ofInt]
    refine ⟨(⌊x⌋ - lo).toNat, by omega, ?_⟩
    have : lo + (((⌊x⌋ - lo).toNat : Nat) : Int) = ⌊x⌋ := by omega
    rw [this]
    exact hint
  | real lo hi => simp [domainValues] at h
  | nnreal lo hi => simp [domainValues] at h

/-- every enumerated value of a discrete domain is in the domain. -/
theorem domainValues_sound {ty : VarType (Ext K)} {vs : List K} (h : domainValues ty = some vs)
    {x : K} (hx : x ∈ vs) : inDomain x ty = true := by
  cases ty with
  | bool =>
    simp only [domainValues, Option.some.injEq] at h
    subst h
    simpa [inDomain] using hx
  | int lo hi =>
    simp only [domainValues, Option.some.injEq] at h
    subst h
    simp only [List.mem_map, List.mem_range, ef_ofInt] at hx
    obtain ⟨i, hi', rfl⟩ := hx
    simp only [inDomain, isIntK, ef_eq, ef_floor, ef_ofInt, ef_le, Bool.and_eq_true,
      decide_eq_true_eq, Int.floor_intCast, Int.cast_le, true_and]
    omega
  | real lo hi => simp [domainValues] at h
  | nnreal lo hi => simp [domainValues] at h

/-- COMPLETENESS of the enumeration: every assignment that puts the used declared variables in their
domains agrees, on those variables, with one of the enumerated association lists. -/
theorem assignments_complete : ∀ (ds : List (DomVar (Ext K))) (asg : List (List (String × K))),
    assignments ds = some asg → ∀ ρ : String → K,
    (∀ d ∈ ds, d.usage > 0 → inDomain (ρ d.name) d.ty = true) →
    ∃ a ∈ asg, ∀ d ∈ ds, d.usage > 0 → lookup a d.name = ρ d.name := by
  intro ds
  induction ds with
  | nil =>
    intro asg h ρ _
    simp only [assignments, Option.some.injEq] at h
    subst h
    exact ⟨[], by simp, by simp⟩
  | cons d ds ih =>
    intro asg h ρ hρ
    unfold assignments at h
    by_cases hu : d.usage = 0
    · simp only [hu, beq_self_eq_true, if_true] at h
      obtain ⟨a, ha, hag⟩ := ih asg h ρ (fun d' hd' => hρ d' (by simp [hd']))
      refine ⟨a, ha, ?_⟩
      intro d' hd' hu'
      rcases List.mem_cons.1 hd' with rfl | hd'
      · omega
      · exact hag d' hd' hu'
    · have hu' : (d.usage == 0) = false := by simpa using hu
      simp only [hu', Bool.false_eq_true, if_false] at h
      cases hv : domainValues d.ty with
      | none => simp [hv] at h
      | some vs =>
        cases hr : assignments ds with
        | none => simp [hv, hr] at h
        | some rest =>
          simp only [hv, hr, Option.some.injEq] at h
          subst h
          obtain ⟨a, ha, hag⟩ := ih rest hr ρ (fun d' hd' => hρ d' (by simp [hd']))
          have hmem : ρ d.name ∈ vs :=
            domainValues_complete hv (hρ d (by simp) (Nat.pos_of_ne_zero hu))
          refine ⟨(d.name, ρ d.name) :: a, ?_, ?_⟩
          · simp only [List.mem_flatMap, List.mem_map]
            exact ⟨a, ha, ρ d.name, hmem, rfl⟩
          · intro d' hd' hu''
            by_cases hn : d.name = d'.name
            · rw [← hn, lookup_cons_self]
            · rw [lookup_cons_ne _ _ hn]
              rcases List.mem_cons.1 hd' with rfl | hd'
              · exact absurd rfl hn
              · exact hag d' hd' hu''

/-- a feasible point of a closed discrete model has an enumerated representative that is feasible and
has the same objective value. -/
theorem feasible_has_representative {m : Model (Ext K)} {asg : List (List (String × K))}
    (h : assignments m.domain = some asg) (hc : Closed m = true) {ρ : String → K}
    (hf : srcFeasible m ρ = true) :
    ∃ a ∈ feasList m asg, AgreeOn m.domain (lookup a) ρ ∧
      eval (lookup a) m.objective = eval ρ m.objective := by
  have hdom : ∀ d ∈ m.domain, d.usage > 0 → inDomain (ρ d.name) d.ty = true := by
    intro d hd hu
    simp only [srcFeasible, Bool.and_eq_true, List.all_eq_true] at hf
    have := hf.2 d hd
    have hu' : (d.usage == 0) = false := by simp; omega
    simpa [hu'] using this
  obtain ⟨a, ha, hag⟩ := assignments_complete m.domain asg h ρ hdom
  have hagree : AgreeOn m.domain (lookup a) ρ := hag
  refine ⟨a, ?_, hagree, objective_congr hc hagree⟩
  simp only [feasList, List.mem_filter]
  exact ⟨ha, by rw [srcFeasible_congr hc hagree]; exact hf⟩

theorem better_irrefl (o : OptType) (a : K) : better o a a = false := by
  cases o <;> simp [better]

theorem better_trans (o : OptType) {a b c : K} (h1 : better o a b = true) (h2 : better o b c = true) :
    better o a c = true := by
  cases o <;> simp only [better, ef_lt, decide_eq_true_eq, Bool.false_eq_true] at *
  · exact lt_trans h1 h2
  · exact lt_trans h2 h1

theorem best_fold_spec (o : OptType) : ∀ (ps : List (K × List (String × K))) (p0 : K × List (String × K)),
    let r := ps.foldl (fun acc q => if better o q.1 acc.1 then q else acc) p0
    (r = p0 ∨ r ∈ ps) ∧ (∀ x : K, better o x r.1 = true → better o x p0.1 = true) ∧
      ∀ q ∈ ps, better o q.1 r.1 = false := by
  intro ps
  induction ps with
  | nil => intro p0; simp
  | cons q ps ih =>
    intro p0
    simp only [List.foldl_cons]
    obtain ⟨h1, h2, h3⟩ := ih (if better o q.1 p0.1 = true then q else p0)
    have hstep : ∀ x : K, better o x (if better o q.1 p0.1 = true then q else p0).1 = true →
        better o x p0.1 = true := by
      intro x hx
      split at hx
      · next hb => exact better_trans o hx hb
      · exact hx
    refine ⟨?_, fun x hx => hstep x (h2 x hx), ?_⟩
    · rcases h1 with h1 | h1
      · rw [h1]
        split
        · right; simp
        · left; rfl
      · right; exact List.mem_cons_of_mem _ h1
    · intro q' hq'
      rcases List.mem_cons.1 hq' with rfl | hq'
      · cases hb : better o q'.1 (List.foldl (fun acc q => if better o q.1 acc.1 = true then q else acc)
            (if better o q'.1 p0.1 = true then q' else p0) ps).1 with
        | false => rfl
        | true =>
          have := h2 _ hb
          split at this
          · rw [better_irrefl] at this; cases this
          · next hn => exact absurd this hn
      · exact h3 q' hq'

/-- `best` is an arg-min / arg-max: the result is a member and no member is strictly better. -/
theorem best_spec {o : OptType} {l : List (K × List (String × K))} {p : K × List (String × K)}
    (h : best o l = some p) : p ∈ l ∧ ∀ q ∈ l, better o q.1 p.1 = false := by
  cases l with
  | nil => simp [best] at h
  | cons p0 ps =>
    simp only [best, Option.some.injEq] at h
    obtain ⟨h1, h2, h3⟩ := best_fold_spec o ps p0
    rw [h] at h1 h2 h3
    refine ⟨?_, ?_⟩
    · rcases h1 with h1 | h1
      · simp [h1]
      · exact List.mem_cons_of_mem _ h1
    · intro q hq
      rcases List.mem_cons.1 hq with rfl | hq
      · cases hb : better o q.1 p.1 with
        | false => rfl
        | true => have := h2 _ hb; rw [better_irrefl] at this; cases this
      · exact h3 q hq

end field
end Ref
end Rooc
