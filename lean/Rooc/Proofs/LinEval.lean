/-
Stage B (part 2): `Sem.eval` unfolding lemmas, `context_to_exp` round trip, `extract_coeffs` against
`Sem.dotK`.
-/
import Rooc.Proofs.LinCtx

set_option linter.unusedSectionVars false
set_option linter.unusedSimpArgs false
set_option linter.unusedVariables false

namespace Rooc.LinP
open Rooc Rooc.Lin Rooc.Sem
variable {K : Type} [Field K] [LinearOrder K] [IsStrictOrderedRing K] [FloorRing K]


@[simp] theorem kzero_eq : (Sem.kzero : K) = 0 := by simp [Sem.kzero]
@[simp] theorem kone_eq : (Sem.kone : K) = 1 := by simp [Sem.kone]

theorem eval_num_fin (ρ : String → K) (k : K) : eval ρ (.num (Ext.fin k)) = some k := by simp [eval]
theorem eval_var (ρ : String → K) (n : String) : eval ρ (.var n : Exp (Ext K)) = some (ρ n) := by simp [eval]
theorem eval_bin (ρ : String → K) (op : BinOp) (a b : Exp (Ext K)) :
    eval ρ (.bin op a b) = (eval ρ a).bind fun x => (eval ρ b).bind fun y => binVal op x y := by
  rw [eval]; rfl
theorem eval_neg (ρ : String → K) (a : Exp (Ext K)) : eval ρ (.un .neg a) = (eval ρ a).map (fun x => -x) := by
  rw [eval]; rfl

theorem ctxToExp_fold (ρ : String → K) (ts : List (String × Ext K)) (hts : TermsFin ts) :
    ∀ (acc : Exp (Ext K)) (a : K), eval ρ acc = some a →
      eval ρ (ts.foldl (fun e (p : String × Ext K) => match p with
        | (n, k) => Exp.bin .add e (.bin .mul (.num k) (.var n))) acc) = some (a + termsVal ρ ts) := by
  induction ts with
  | nil => intro acc a h; simpa using h
  | cons p ts ih =>
    intro acc a h
    obtain ⟨n, x⟩ := p
    obtain ⟨k, rfl⟩ := (termsFin_cons.mp hts).1
    simp only [List.foldl_cons]
    rw [ih (termsFin_cons.mp hts).2 _ (a + k * ρ n)]
    · simp; ring
    · simp [eval_bin, h, eval_num_fin, eval_var, binVal]

theorem ctxToExp_eval (ρ : String → K) {c : Ctx (Ext K)} (hc : CtxOK c) :
    eval ρ (ctxToExp c) = some (ctxVal ρ c) := by
  obtain ⟨k, hk⟩ := hc.rhs
  unfold ctxToExp
  rw [ctxToExp_fold ρ c.vars hc.fin _ k (by rw [hk]; exact eval_num_fin ρ k)]
  simp [ctxVal, hk]; ring

/-! ### `extract_coeffs` and `dotK` -/

/-- total dot product of a coefficient vector with a variable vector. -/
def dotV (ρ : String → K) : List (Ext K) → List String → K
  | c :: cs, v :: vs => xval c * ρ v + dotV ρ cs vs
  | _, _ => 0

theorem dotK_eq (ρ : String → K) : ∀ (cs : List (Ext K)) (vs : List String),
    (∀ c ∈ cs, IsFin c) → cs.length ≤ vs.length → dotK ρ cs vs = some (dotV ρ cs vs)
  | [], vs, _, _ => by cases vs <;> simp [dotK, dotV]
  | c :: cs, [], _, h => by simp at h
  | c :: cs, v :: vs, hf, h => by
    obtain ⟨k, rfl⟩ := hf c (by simp)
    have := dotK_eq ρ cs vs (fun c hc => hf c (by simp [hc])) (by simpa using h)
    simp [dotK, dotV, this]

theorem indexOf_go_spec (x : String) : ∀ (vars : List String) (k i : Nat),
    indexOf.go x vars k = some i → k ≤ i ∧ vars[i - k]? = some x
  | [], k, i, h => by simp [indexOf.go] at h
  | y :: ys, k, i, h => by
    unfold indexOf.go at h
    by_cases hy : (y == x) = true
    · simp only [hy, if_true, Option.some.injEq] at h
      subst h
      simp at hy
      simp [hy]
    · simp only [hy] at h
      obtain ⟨h1, h2⟩ := indexOf_go_spec x ys (k + 1) i h
      refine ⟨by omega, ?_⟩
      have : i - k = (i - (k + 1)) + 1 := by omega
      rw [this]; simpa using h2

theorem indexOf_go_mem (x : String) : ∀ (vars : List String) (k : Nat),
    x ∈ vars → ∃ i, indexOf.go x vars k = some i
  | [], _, h => by simp at h
  | y :: ys, k, h => by
    unfold indexOf.go
    by_cases hy : (y == x) = true
    · exact ⟨k, by simp [hy]⟩
    · simp only [hy]
      have : x ∈ ys := by
        rcases List.mem_cons.mp h with rfl | h
        · simp at hy
        · exact h
      exact indexOf_go_mem x ys (k + 1) this

theorem indexOf_spec {vars : List String} {x : String} {i : Nat} (h : indexOf vars x = some i) :
    vars[i]? = some x := by
  have := indexOf_go_spec x vars 0 i h
  simpa using this.2

theorem indexOf_mem {vars : List String} {x : String} (h : x ∈ vars) : ∃ i, indexOf vars x = some i :=
  indexOf_go_mem x vars 0 h
theorem dotV_set (ρ : String → K) : ∀ (vec : List (Ext K)) (vars : List String) (i : Nat) (x : String) (v : K),
    vec[i]? = some (Ext.fin 0) → vars[i]? = some x →
    dotV ρ (vec.set i (Ext.fin v)) vars = dotV ρ vec vars + v * ρ x
  | [], _, _, _, _, h, _ => by simp at h
  | c :: cs, [], _, _, _, _, h => by simp at h
  | c :: cs, y :: ys, 0, x, v, h1, h2 => by
    simp at h1 h2; subst h1 h2; simp [dotV]; ring
  | c :: cs, y :: ys, i + 1, x, v, h1, h2 => by
    simp at h1 h2
    simp [dotV, dotV_set ρ cs ys i x v h1 h2]; ring

theorem dotV_replicate (ρ : String → K) : ∀ (n : Nat) (vars : List String),
    dotV ρ (List.replicate n (Ext.fin 0)) vars = 0
  | 0, _ => by simp [dotV]
  | n + 1, [] => by simp [List.replicate_succ, dotV]
  | n + 1, y :: ys => by simp [List.replicate_succ, dotV, dotV_replicate ρ n ys]

def coeffStep (vars : List String) (vec : List (Ext K)) (p : String × Ext K) : List (Ext K) :=
  match indexOf vars p.1 with
  | some i => vec.set i p.2
  | none => vec

theorem extract_fold (ρ : String → K) (vars : List String) : ∀ (ts : List (String × Ext K)),
    TermsFin ts → (ts.map (·.1)).Nodup → (∀ p ∈ ts, p.1 ∈ vars) →
    ∀ (vec : List (Ext K)), vec.length = vars.length → (∀ c ∈ vec, IsFin c) →
      (∀ p ∈ ts, ∀ i, indexOf vars p.1 = some i → vec[i]? = some (Ext.fin 0)) →
      (ts.foldl (coeffStep vars) vec).length = vars.length ∧
      (∀ c ∈ ts.foldl (coeffStep vars) vec, IsFin c) ∧
      dotV ρ (ts.foldl (coeffStep vars) vec) vars = dotV ρ vec vars + termsVal ρ ts
  | [], _, _, _, vec, hl, hf, _ => by simp [hl]; exact hf
  | p :: ts, hfin, hnd, hmem, vec, hl, hf, hz => by
    obtain ⟨n, x⟩ := p
    obtain ⟨k, rfl⟩ := (termsFin_cons.mp hfin).1
    obtain ⟨i, hi⟩ := indexOf_mem (hmem (n, Ext.fin k) (by simp))
    have hvi := indexOf_spec hi
    simp only [List.map_cons, List.nodup_cons] at hnd
    have hstep : coeffStep vars vec (n, Ext.fin k) = vec.set i (Ext.fin k) := by simp [coeffStep, hi]
    simp only [List.foldl_cons, hstep]
    have hz0 := hz (n, Ext.fin k) (by simp) i hi
    obtain ⟨r1, r2, r3⟩ := extract_fold ρ vars ts (termsFin_cons.mp hfin).2 hnd.2
      (fun p hp => hmem p (by simp [hp])) (vec.set i (Ext.fin k)) (by simpa using hl)
      (by
        intro c hc
        rcases List.mem_or_eq_of_mem_set hc with h | h
        · exact hf c h
        · exact ⟨k, h⟩)
      (by
        intro p hp j hj
        have hne : i ≠ j := by
          intro hij; subst hij
          have := indexOf_spec hj
          rw [hvi] at this
          simp only [Option.some.injEq] at this
          exact hnd.1 (List.mem_map.mpr ⟨p, hp, this.symm⟩)
        rw [List.getElem?_set_ne hne]
        exact hz p (by simp [hp]) j hj)
    refine ⟨r1, r2, ?_⟩
    rw [r3, dotV_set ρ vec vars i n k hz0 hvi]; simp; ring

theorem extractCoeffs_eq (ts : List (String × Ext K)) (vars : List String) :
    extractCoeffs ts vars = ts.foldl (coeffStep vars) (List.replicate vars.length (Ext.fin 0)) := by
  unfold extractCoeffs
  rw [ar_zero]
  congr 1

theorem extractCoeffs_spec (ρ : String → K) (vars : List String) (ts : List (String × Ext K))
    (hfin : TermsFin ts) (hnd : (ts.map (·.1)).Nodup) (hmem : ∀ p ∈ ts, p.1 ∈ vars) :
    (extractCoeffs ts vars).length = vars.length ∧ (∀ c ∈ extractCoeffs ts vars, IsFin c) ∧
      dotV ρ (extractCoeffs ts vars) vars = termsVal ρ ts := by
  rw [extractCoeffs_eq]
  obtain ⟨r1, r2, r3⟩ := extract_fold ρ vars ts hfin hnd hmem (List.replicate vars.length (Ext.fin 0))
    (by simp) (by intro c hc; rw [(List.mem_replicate.mp hc).2]; exact ⟨0, rfl⟩)
    (by
      intro p hp i hi
      have := indexOf_spec hi
      have hlt : i < vars.length := by
        by_contra hge
        rw [List.getElem?_eq_none (by omega)] at this; cases this
      simp [hlt])
  exact ⟨r1, r2, by rw [r3, dotV_replicate]; simp⟩

end Rooc.LinP
