/-
"Compile succeeds ⇒ defined", part 3: `emit_constraint` and one iteration of the work-list loop.

The sides of a processed SOURCE constraint are pulled back through `normalize` (`normalize_eval_eq_nc`), so the
conclusion is about the expressions the user wrote.  The only case not covered by a lowering is the verdict
`Tautology`/`Contradiction` of `try_normalize_logic_constraint`, which since rooc ba14904 is only given when the
logic value passes the guard `!may_be_undefined()`.
-/
import Rooc.Proofs.LinDef2

set_option linter.unusedSectionVars false
set_option linter.unusedSimpArgs false
set_option linter.unusedVariables false
set_option linter.unusedTactic false
set_option linter.unreachableTactic false

namespace Rooc.LinP
open Rooc Rooc.Lin Rooc.Sem Rooc.Exp

variable {K : Type} [Field K] [LinearOrder K] [IsStrictOrderedRing K] [FloorRing K]

theorem def_iff_exists {ρ : String → K} {e : Exp (Ext K)} : Def ρ e ↔ ∃ v, eval ρ e = some v := by
  unfold Def; exact Option.isSome_iff_exists

theorem def_congr {ρ : String → K} {e e' : Exp (Ext K)} (h : eval ρ e' = eval ρ e) : Def ρ e' ↔ Def ρ e := by
  unfold Def; rw [h]

/-- success of `emit_constraint` on normalised sides proves both sides defined. -/
theorem def_of_emitConstraint {l r : Exp (Ext K)} {cmp : Cmp} {name : String} {s : St (Ext K)}
    {u : Unit × St (Ext K)} (h : emitConstraint l cmp r name s = .ok u) (hfl : FinE l) (hfr : FinE r)
    (ρ : String → K) (hncl : NC ρ l) (hncr : NC ρ r) : Def ρ l ∧ Def ρ r := by
  obtain ⟨e, v, s1, hn, hlin, _⟩ := (emitConstraint_ok _ _ _ _ _ _).mp h
  have hfs : FinE (.bin .sub l r) := by
    simp only [FinE, finiteLits, Bool.and_eq_true] at *; exact ⟨hfl, hfr⟩
  have hnc : NC ρ (.bin .sub l r) := ⟨hncl, hncr, by rintro (h | h) <;> cases h⟩
  have hde : Def ρ e := def_of_linExp hlin (finiteLits_normalize hfs hn) ρ
  have hds : Def ρ (.bin .sub l r) := (def_congr (normalize_eval_eq_nc hn hnc hfs)).mp hde
  obtain ⟨h1, h2, _⟩ := Def_bin_inv hds
  exact ⟨h1, h2⟩

/-- where the logic value of an `Assertion` verdict comes from; the other side is a literal. -/
theorem tryNormalize_assertion_shape {d : List (DomVar (Ext K))} {l r e : Exp (Ext K)} {cmp : Cmp} {t : Bool}
    (h : tryNormalize d l cmp r = some (.assertion e t)) :
    (e = l ∧ ∃ c, r = .num c) ∨ (e = r ∧ ∃ c, l = .num c) := by
  rw [tryNormalize_eq] at h
  cases hp : pickOf d l cmp r with
  | none => simp [hp] at h
  | some p =>
    obtain ⟨e', cmp', c'⟩ := p
    have hshape : (e' = l ∧ ∃ c, r = .num c) ∨ (e' = r ∧ ∃ c, l = .num c) := by
      unfold pickOf at hp
      split at hp
      · split at hp
        · simp only [Option.some.injEq, Prod.mk.injEq] at hp
          exact Or.inl ⟨hp.1.symm, _, rfl⟩
        · simp at hp
      · split at hp
        · split at hp
          · simp only [Option.some.injEq, Prod.mk.injEq] at hp
            exact Or.inr ⟨hp.1.symm, _, rfl⟩
          · simp at hp
        · simp at hp
    simp only [hp] at h
    split at h
    · split at h <;> simp at h
    · split at h <;> simp at h <;> (obtain ⟨rfl, _⟩ := h; exact hshape)

/-- a verdict decided from the literal alone is only given for a logic value that cannot be undefined
(rooc ba14904); the other side is a literal. -/
theorem tryNormalize_const_shape {d : List (DomVar (Ext K))} {l r : Exp (Ext K)} {cmp : Cmp}
    (h : tryNormalize d l cmp r = some .tautology ∨ tryNormalize d l cmp r = some .contradiction) :
    ∃ e, ((e = l ∧ ∃ c, r = .num c) ∨ (e = r ∧ ∃ c, l = .num c)) ∧ Exp.mayBeUndefined e = false := by
  rw [tryNormalize_eq] at h
  cases hp : pickOf d l cmp r with
  | none => simp [hp] at h
  | some p =>
    obtain ⟨e', cmp', c'⟩ := p
    have hshape : (e' = l ∧ ∃ c, r = .num c) ∨ (e' = r ∧ ∃ c, l = .num c) := by
      unfold pickOf at hp
      split at hp
      · split at hp
        · simp only [Option.some.injEq, Prod.mk.injEq] at hp
          exact Or.inl ⟨hp.1.symm, _, rfl⟩
        · simp at hp
      · split at hp
        · split at hp
          · simp only [Option.some.injEq, Prod.mk.injEq] at hp
            exact Or.inr ⟨hp.1.symm, _, rfl⟩
          · simp at hp
        · simp at hp
    by_cases hu : Exp.mayBeUndefined e' = true
    · exfalso
      simp only [hp] at h
      cases e' with
      | num v => simp [Exp.mayBeUndefined] at hu
      | _ =>
        simp only [hu, if_true] at h
        rcases h with h | h <;> (split at h <;> simp at h)
    · exact ⟨e', hshape, by simpa using hu⟩

/-- **one iteration of the loop on a source constraint**: when it succeeds, the left side — and for a comparison
the right side — has a value at every assignment that satisfies the initial domains. -/
theorem process_defined_at {c : Constraint (Ext K)} {s : St (Ext K)}
    {r : Unit × St (Ext K)} (h : processConstraint c s = .ok r) (hfl : FinE c.lhs) (hfr : FinE c.rhs)
    (ρ : String → K) (hncl : NC ρ c.lhs) (hncr : NC ρ c.rhs) :
    Def ρ c.lhs ∧ (c.isAssert = false → Def ρ c.rhs) := by
  unfold processConstraint at h
  simp only [bind_ok, simplifyFlat_ok] at h
  obtain ⟨lhs', s1, ⟨fl1, hf1, h1⟩, rhs', s2, ⟨fl2, hf2, h2⟩, h3⟩ := h
  cases h1; cases h2
  have hevl : eval ρ lhs' = eval ρ c.lhs := normalize_eval_eq_nc hf1 hncl hfl
  have hevr : eval ρ rhs' = eval ρ c.rhs := normalize_eval_eq_nc hf2 hncr hfr
  have hfl' : FinE lhs' := finiteLits_normalize hfl hf1
  have hfr' : FinE rhs' := finiteLits_normalize hfr hf2
  obtain ⟨u, s'⟩ := r
  by_cases hA : c.isAssert = true
  · simp only [hA, if_true] at h3
    exact ⟨(def_congr hevl).mp (def_of_lowerAssertion h3 hfl' ρ), fun h' => by rw [hA] at h'; cases h'⟩
  · have hA' : c.isAssert = false := by simpa using hA
    simp only [hA', Bool.false_eq_true, if_false] at h3
    suffices hboth : Def ρ lhs' ∧ Def ρ rhs' from
      ⟨(def_congr hevl).mp hboth.1, fun _ => (def_congr hevr).mp hboth.2⟩
    unfold dispatch at h3
    simp only [bind_ok, get_ok] at h3
    obtain ⟨s0, s0', h0, h3⟩ := h3
    cases h0
    cases hN : tryNormalize s.domain lhs' c.cmp rhs' with
    | none =>
      simp only [hN] at h3
      obtain ⟨fa, hfa, rfl⟩ := normalizeExp_some hf1
      obtain ⟨fb, hfb, rfl⟩ := normalizeExp_some hf2
      exact def_of_emitConstraint h3 hfl' hfr' ρ (NC_of_NF ρ _ (NF_simplify _)) (NC_of_NF ρ _ (NF_simplify _))
    | some nz =>
      cases nz with
      | tautology =>
        obtain ⟨e, hsh, hu⟩ := tryNormalize_const_shape (Or.inl hN)
        rcases hsh with ⟨rfl, cst, hr⟩ | ⟨rfl, cst, hl⟩
        · refine ⟨Def_of_total ρ _ hfl' hu, ?_⟩
          rw [hr] at hfr' ⊢; exact Def_num_of_finite hfr'
        · refine ⟨?_, Def_of_total ρ _ hfr' hu⟩
          rw [hl] at hfl' ⊢; exact Def_num_of_finite hfl'
      | contradiction =>
        obtain ⟨e, hsh, hu⟩ := tryNormalize_const_shape (Or.inr hN)
        rcases hsh with ⟨rfl, cst, hr⟩ | ⟨rfl, cst, hl⟩
        · refine ⟨Def_of_total ρ _ hfl' hu, ?_⟩
          rw [hr] at hfr' ⊢; exact Def_num_of_finite hfr'
        · refine ⟨?_, Def_of_total ρ _ hfr' hu⟩
          rw [hl] at hfl' ⊢; exact Def_num_of_finite hfl'
      | assertion e t =>
        simp only [hN] at h3
        rcases tryNormalize_assertion_shape hN with ⟨rfl, cst, hr⟩ | ⟨rfl, cst, hl⟩
        · refine ⟨def_of_lowerAssertion h3 hfl' ρ, ?_⟩
          rw [hr] at hfr' ⊢; exact Def_num_of_finite hfr'
        · refine ⟨?_, def_of_lowerAssertion h3 hfr' ρ⟩
          rw [hl] at hfl' ⊢; exact Def_num_of_finite hfl'

/-- the same under the static contract over a domain `d0`. -/
theorem process_defined {d0 : List (DomVar (Ext K))} {c : Constraint (Ext K)} {s : St (Ext K)}
    {r : Unit × St (Ext K)} (h : processConstraint c s = .ok r) (hc : SrcD d0 c) (ρ : String → K)
    (hd : DomSat ρ d0) : Def ρ c.lhs ∧ (c.isAssert = false → Def ρ c.rhs) :=
  process_defined_at h hc.lhs.fin hc.rhs.fin ρ (hc.lhs.nc ρ hd) (hc.rhs.nc ρ hd)

end Rooc.LinP
