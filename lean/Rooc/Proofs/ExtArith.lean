/-
`Arith (Ext K)` on finite values computes the field operations of `K`; the `Sem` helper functions
(`kmax`, `kmin`, `kabs`, `truthy`, `ofBool`) are the usual `max`, `min`, `|·|`, `· ≠ 0`, `0/1`.
`K` is any linearly ordered field with a floor (instance `fieldExact K` of `Rooc/Proofs/Field.lean`).
Generic simp lemmas only — nothing property-specific.  Everything is in namespace `Rooc.ExtArith`.
-/
import Rooc.Sem
import Rooc.Proofs.Field
namespace Rooc
namespace ExtArith

section generic
/-! facts that hold over every `ExactField` (by computation) -/
variable {K : Type} [ExactField K]

@[simp] theorem arith_zero : (Arith.zero : Ext K) = .fin (ExactField.ofInt 0) := rfl
@[simp] theorem arith_one : (Arith.one : Ext K) = .fin (ExactField.ofInt 1) := rfl
@[simp] theorem arith_ofInt (i : Int) : (Arith.ofInt i : Ext K) = .fin (ExactField.ofInt i) := rfl
@[simp] theorem arith_posInf : (Arith.posInf : Ext K) = .pinf := rfl
@[simp] theorem arith_negInf : (Arith.negInf : Ext K) = .ninf := rfl
@[simp] theorem arith_nan : (Arith.nan : Ext K) = .nan := rfl
@[simp] theorem arith_add (a b : Ext K) : Arith.add a b = Ext.add a b := rfl
@[simp] theorem arith_sub (a b : Ext K) : Arith.sub a b = Ext.sub a b := rfl
@[simp] theorem arith_mul (a b : Ext K) : Arith.mul a b = Ext.mul a b := rfl
@[simp] theorem arith_div (a b : Ext K) : Arith.div a b = Ext.div a b := rfl
@[simp] theorem arith_neg (a : Ext K) : Arith.neg a = Ext.neg a := rfl
@[simp] theorem arith_abs (a : Ext K) : Arith.abs a = Ext.abs a := rfl
@[simp] theorem arith_fmax (a b : Ext K) : Arith.fmax a b = Ext.fmax a b := rfl
@[simp] theorem arith_fmin (a b : Ext K) : Arith.fmin a b = Ext.fmin a b := rfl
@[simp] theorem arith_lt (a b : Ext K) : Arith.lt a b = Ext.lt a b := rfl
@[simp] theorem arith_le (a b : Ext K) : Arith.le a b = Ext.le a b := rfl
@[simp] theorem arith_eq (a b : Ext K) : Arith.eq a b = Ext.eq a b := rfl
@[simp] theorem arith_isNaN (a : Ext K) : Arith.isNaN a = Ext.isNaN a := rfl
@[simp] theorem arith_isFinite (a : Ext K) : Arith.isFinite a = Ext.isFinite a := rfl
@[simp] theorem arith_fmax_fun : (Arith.fmax : Ext K → Ext K → Ext K) = Ext.fmax := rfl
@[simp] theorem arith_fmin_fun : (Arith.fmin : Ext K → Ext K → Ext K) = Ext.fmin := rfl
theorem arith_ne (a b : Ext K) : Arith.ne a b = !(Ext.eq a b) := rfl
theorem arith_gt (a b : Ext K) : Arith.gt a b = Ext.lt b a := rfl
theorem arith_ge (a b : Ext K) : Arith.ge a b = Ext.le b a := rfl

omit [ExactField K] in
@[simp] theorem isNaN_fin (a : K) : Ext.isNaN (.fin a) = false := rfl
omit [ExactField K] in
@[simp] theorem isFinite_fin (a : K) : Ext.isFinite (.fin a) = true := rfl
@[simp] theorem lt_fin_pinf (a : K) : Ext.lt (.fin a) .pinf = true := rfl
@[simp] theorem lt_ninf_fin (a : K) : Ext.lt .ninf (.fin a) = true := rfl
@[simp] theorem lt_pinf_fin (a : K) : Ext.lt .pinf (.fin a) = false := rfl
@[simp] theorem lt_fin_ninf (a : K) : Ext.lt (.fin a) .ninf = false := rfl
/-- the seed of a `min` fold is absorbed by the first finite value. -/
@[simp] theorem fmin_pinf_fin (a : K) : Ext.fmin .pinf (.fin a) = .fin a := rfl
/-- the seed of a `max` fold is absorbed by the first finite value. -/
@[simp] theorem fmax_ninf_fin (a : K) : Ext.fmax .ninf (.fin a) = .fin a := rfl
@[simp] theorem fmin_fin_pinf (a : K) : Ext.fmin (.fin a) .pinf = .fin a := rfl
@[simp] theorem fmax_fin_ninf (a : K) : Ext.fmax (.fin a) .ninf = .fin a := rfl

end generic

section field
variable {K : Type} [Field K] [LinearOrder K] [IsStrictOrderedRing K] [FloorRing K]

/-! ### arithmetic on finite values -/
@[simp] theorem add_fin (a b : K) : Ext.add (.fin a) (.fin b) = .fin (a + b) := rfl
@[simp] theorem neg_fin (a : K) : Ext.neg (.fin a) = .fin (-a) := rfl
@[simp] theorem sub_fin (a b : K) : Ext.sub (.fin a) (.fin b) = .fin (a - b) := by
  simp [Ext.sub, sub_eq_add_neg]
@[simp] theorem mul_fin (a b : K) : Ext.mul (.fin a) (.fin b) = .fin (a * b) := rfl
/-- division by a non-zero finite value is the field division. -/
theorem div_fin {a b : K} (hb : b ≠ 0) : Ext.div (.fin a) (.fin b) = .fin (a / b) := by
  simp [Ext.div, hb]
/-- division of a finite value by zero: `±inf` by the sign of the numerator, `nan` for `0/0`. -/
theorem div_fin_zero (a : K) :
    Ext.div (.fin a) (.fin (0 : K)) = if 0 < a then .pinf else if a < 0 then .ninf else .nan := by
  simp only [Ext.div, ef_eq, ef_ofInt, Int.cast_zero, decide_true, if_true, Ext.ofSign, Ext.sgn,
    ef_lt]
  rcases lt_trichotomy a 0 with h | h | h
  · simp [h, not_lt.2 h.le]
  · simp [h]
  · simp [h, not_lt.2 h.le]
@[simp] theorem abs_fin (a : K) : Ext.abs (.fin a) = .fin |a| := by
  simp only [Ext.abs, ef_lt, ef_ofInt, Int.cast_zero, ef_neg]
  by_cases h : a < 0
  · simp [h, abs_of_neg h]
  · simp [h, abs_of_nonneg (not_lt.1 h)]

/-! ### comparisons on finite values -/
@[simp] theorem lt_fin (a b : K) : Ext.lt (.fin a) (.fin b) = decide (a < b) := rfl
@[simp] theorem le_fin (a b : K) : Ext.le (.fin a) (.fin b) = decide (a ≤ b) := rfl
@[simp] theorem eq_fin (a b : K) : Ext.eq (.fin a) (.fin b) = decide (a = b) := rfl
@[simp] theorem fmax_fin (a b : K) : Ext.fmax (.fin a) (.fin b) = .fin (max a b) := by
  simp only [Ext.fmax, isNaN_fin, Bool.false_eq_true, if_false, lt_fin, decide_eq_true_eq]
  by_cases h : a < b
  · simp [h, max_eq_right h.le]
  · simp [h, max_eq_left (not_lt.1 h)]
@[simp] theorem fmin_fin (a b : K) : Ext.fmin (.fin a) (.fin b) = .fin (min a b) := by
  simp only [Ext.fmin, isNaN_fin, Bool.false_eq_true, if_false, lt_fin, decide_eq_true_eq]
  by_cases h : b < a
  · simp [h, min_eq_right h.le]
  · simp [h, min_eq_left (not_lt.1 h)]

/-! ### constants and truthiness -/
@[simp] theorem zero_eq : (Arith.zero : Ext K) = .fin 0 := by simp
@[simp] theorem one_eq : (Arith.one : Ext K) = .fin 1 := by simp
/-- `x != 0.0` on a finite value. -/
@[simp] theorem ne_fin_zero (a : K) : Arith.ne (Ext.fin a) Arith.zero = decide (a ≠ 0) := by
  simp [arith_ne]
@[simp] theorem ne_fin (a b : K) : Arith.ne (Ext.fin a) (Ext.fin b) = decide (a ≠ b) := by
  simp [arith_ne]
@[simp] theorem eq_fin_zero (a : K) : Ext.eq (.fin a) (.fin (0 : K)) = decide (a = 0) := rfl

/-! ### floor / ceil -/
@[simp] theorem floor_fin (a : K) : Arith.floor (Ext.fin a) = Ext.fin ((⌊a⌋ : Int) : K) := rfl
@[simp] theorem ceil_fin (a : K) : Arith.ceil (Ext.fin a) = Ext.fin ((⌈a⌉ : Int) : K) := rfl

/-! ### folds over finite values -/
theorem foldl_fmax_fin (l : List K) (x : K) :
    (l.map Ext.fin).foldl Ext.fmax (.fin x) = .fin (l.foldl max x) := by
  induction l generalizing x with
  | nil => rfl
  | cons a l ih => simp [ih]
theorem foldl_fmin_fin (l : List K) (x : K) :
    (l.map Ext.fin).foldl Ext.fmin (.fin x) = .fin (l.foldl min x) := by
  induction l generalizing x with
  | nil => rfl
  | cons a l ih => simp [ih]
/-- a non-empty `max` fold from the IEEE seed `-inf` is the maximum of the values. -/
theorem foldl_fmax_ninf (a : K) (l : List K) :
    ((a :: l).map Ext.fin).foldl Ext.fmax .ninf = .fin (l.foldl max a) := by
  simp [foldl_fmax_fin]
/-- a non-empty `min` fold from the IEEE seed `+inf` is the minimum of the values. -/
theorem foldl_fmin_pinf (a : K) (l : List K) :
    ((a :: l).map Ext.fin).foldl Ext.fmin .pinf = .fin (l.foldl min a) := by
  simp [foldl_fmin_fin]

/-! ### the helper functions of `Sem` are the usual ones -/
open Sem
@[simp] theorem kzero_eq : (kzero : K) = 0 := by simp [kzero]
@[simp] theorem kone_eq : (kone : K) = 1 := by simp [kone]
@[simp] theorem truthy_eq (a : K) : truthy a = decide (a ≠ 0) := by simp [truthy]
@[simp] theorem kmax_eq : (kmax : K → K → K) = max := by
  funext a b
  simp only [kmax, ef_lt, decide_eq_true_eq]
  by_cases h : a < b
  · simp [h, max_eq_right h.le]
  · simp [h, max_eq_left (not_lt.1 h)]
@[simp] theorem kmin_eq : (kmin : K → K → K) = min := by
  funext a b
  simp only [kmin, ef_lt, decide_eq_true_eq]
  by_cases h : b < a
  · simp [h, min_eq_right h.le]
  · simp [h, min_eq_left (not_lt.1 h)]
@[simp] theorem kabs_eq : (kabs : K → K) = _root_.abs := by
  funext a
  simp only [kabs, ef_lt, kzero_eq, ef_neg, decide_eq_true_eq]
  by_cases h : a < 0
  · simp [h, abs_of_neg h]
  · simp [h, abs_of_nonneg (not_lt.1 h)]
theorem ofBool_eq (b : Bool) : (ofBool b : K) = if b then 1 else 0 := by simp [ofBool]
@[simp] theorem ofBool_true : (ofBool true : K) = 1 := by simp [ofBool]
@[simp] theorem ofBool_false : (ofBool false : K) = 0 := by simp [ofBool]
@[simp] theorem truthy_ofBool (b : Bool) : truthy (ofBool b : K) = b := by cases b <;> simp

end field
end ExtArith
end Rooc
