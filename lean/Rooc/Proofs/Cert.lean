/-
Semantics of LP feasibility (DESIGN.md appendix A, "Linear feasibility" / "LP verdicts") over an arbitrary linearly
ordered field, and the lemmas behind the certificate checker of `Rooc/Cert.lean` (weak duality, rays).
The property theorems themselves are in `Rooc/Props/C04.lean`, `C05.lean`, `C20.lean`.
-/
import Rooc.Cert
import Rooc.Proofs.Field
import Mathlib.Tactic.Positivity
import Mathlib.Tactic.NormNum
import Mathlib.Tactic.Linarith

namespace Rooc
namespace Cert
variable {K : Type} [Field K] [LinearOrder K] [IsStrictOrderedRing K] [FloorRing K]

/-! ### semantics (trusted vocabulary) -/

/-- a row holds exactly. -/
def RowSat (x : List K) (r : Row K) : Prop :=
  match r.rel with
  | .le => dot r.coeffs x ≤ r.rhs
  | .ge => r.rhs ≤ dot r.coeffs x
  | .eq => dot r.coeffs x = r.rhs

def BndSat (x : K) (b : Bnd K) : Prop :=
  (∀ l, b.lo = some l → l ≤ x) ∧ (∀ h, b.hi = some h → x ≤ h)

/-- one value per variable, each inside its bounds. -/
def BndsSat : List K → List (Bnd K) → Prop
  | [], [] => True
  | x :: xs, b :: bs => BndSat x b ∧ BndsSat xs bs
  | _, _ => False

/-- `x` is a feasible point of the continuous problem `lp`. -/
def LpFeasible (lp : LP K) (x : List K) : Prop :=
  (∀ r ∈ lp.rows, r.coeffs.length = x.length ∧ RowSat x r) ∧ BndsSat x lp.bnds

/-! ### `dot` -/

@[simp] theorem dot_nil_left (x : List K) : dot ([] : List K) x = 0 := by
  cases x <;> simp [dot]
@[simp] theorem dot_nil_right (a : List K) : dot a ([] : List K) = 0 := by
  cases a <;> simp [dot]
@[simp] theorem dot_cons (a x : K) (as xs : List K) : dot (a :: as) (x :: xs) = a * x + dot as xs := by
  simp [dot]

theorem rowSub_length (f : K) : ∀ (r t : List K), r.length = t.length → (rowSub f r t).length = r.length
  | [], [], _ => by simp [rowSub]
  | a :: as, p :: ps, h => by
    have := rowSub_length f as ps (by simpa using h)
    simp [rowSub, this]
  | [], _ :: _, h => by simp at h
  | _ :: _, [], h => by simp at h

theorem dot_rowSub (f : K) : ∀ (r t x : List K), r.length = t.length →
    dot (rowSub f r t) x = dot r x - f * dot t x
  | [], [], x, _ => by simp [rowSub]
  | a :: as, p :: ps, [], _ => by simp [rowSub]
  | a :: as, p :: ps, x :: xs, h => by
    have ih := dot_rowSub f as ps xs (by simpa using h)
    simp [rowSub, ih]; ring
  | [], _ :: _, _, h => by simp at h
  | _ :: _, [], _, h => by simp at h

/-! ### weak duality -/

theorem signOk_mul {r : Row K} {y : K} {x : List K} (hs : signOk r.rel y = true) (hr : RowSat x r) :
    y * r.rhs ≤ y * dot r.coeffs x := by
  unfold RowSat at hr
  unfold signOk at hs
  cases hrel : r.rel <;> simp [hrel] at hr hs
  · -- le : y ≤ 0, a·x ≤ rhs
    nlinarith
  · nlinarith
  · rw [hr]

theorem reduce_spec (x : List K) : ∀ (rows : List (Row K)) (c y d : List K) (v : K),
    reduce c rows y = some (d, v) → c.length = x.length →
    (∀ r ∈ rows, r.coeffs.length = x.length ∧ RowSat x r) →
    d.length = x.length ∧ dot d x + v ≤ dot c x
  | [], c, [], d, v, h, hc, _ => by
    simp [reduce] at h
    obtain ⟨rfl, rfl⟩ := h
    simp [hc]
  | [], c, _ :: _, d, v, h, _, _ => by simp [reduce] at h
  | r :: rs, c, [], d, v, h, _, _ => by simp [reduce] at h
  | r :: rs, c, y :: ys, d, v, h, hc, hrows => by
    have hr := hrows r (by simp)
    simp only [reduce] at h
    split at h
    · rename_i hcond
      simp only [Bool.and_eq_true, decide_eq_true_eq] at hcond
      obtain ⟨hs, hlen⟩ := hcond
      cases hrec : reduce (rowSub y c r.coeffs) rs ys with
      | none => simp [hrec] at h
      | some p =>
        obtain ⟨d', v'⟩ := p
        simp [hrec] at h
        obtain ⟨rfl, rfl⟩ := h
        have hl : (rowSub y c r.coeffs).length = x.length := by
          rw [rowSub_length y c r.coeffs hlen.symm]; exact hc
        have ih := reduce_spec x rs (rowSub y c r.coeffs) ys d' v' hrec hl
          (fun r' hr' => hrows r' (by simp [hr']))
        refine ⟨ih.1, ?_⟩
        have h2 := dot_rowSub y c r.coeffs x hlen.symm
        have h3 := signOk_mul hs hr.2
        rw [h2] at ih
        linarith [ih.2]
    · simp at h

theorem bndTerm_spec {d x t : K} {b : Bnd K} (h : bndTerm d b = some t) (hb : BndSat x b) : t ≤ d * x := by
  unfold bndTerm at h
  simp only [ef_lt, ef_ofInt, Int.cast_zero, decide_eq_true_eq] at h
  split at h
  · rename_i hd
    cases hlo : b.lo with
    | none => simp [hlo] at h
    | some l =>
      simp [hlo] at h
      subst h
      have := hb.1 l hlo
      nlinarith
  · split at h
    · rename_i hd
      cases hhi : b.hi with
      | none => simp [hhi] at h
      | some u =>
        simp [hhi] at h
        subst h
        have := hb.2 u hhi
        nlinarith
    · rename_i h1 h2
      simp at h
      subst h
      have : d = 0 := le_antisymm (not_lt.mp h1) (not_lt.mp h2)
      simp [this]

theorem bndSum_spec : ∀ (d : List K) (bnds : List (Bnd K)) (x : List K) (s : K),
    bndSum d bnds = some s → BndsSat x bnds → s ≤ dot d x
  | [], [], x, s, h, _ => by
    simp [bndSum] at h
    subst h; simp
  | d :: ds, b :: bs, [], s, _, hx => by simp [BndsSat] at hx
  | d :: ds, b :: bs, x :: xs, s, h, hx => by
    simp only [bndSum] at h
    cases ht : bndTerm d b with
    | none => simp [ht] at h
    | some t =>
      cases hs : bndSum ds bs with
      | none => simp [ht, hs] at h
      | some s' =>
        simp [ht, hs] at h
        subst h
        have h1 := bndTerm_spec ht hx.1
        have h2 := bndSum_spec ds bs xs s' hs hx.2
        simp
        linarith
  | [], _ :: _, _, _, h, _ => by simp [bndSum] at h
  | _ :: _, [], _, _, h, _ => by simp [bndSum] at h

omit [Field K] [IsStrictOrderedRing K] [FloorRing K] in
theorem bndsSat_length : ∀ (x : List K) (bnds : List (Bnd K)), BndsSat x bnds → x.length = bnds.length
  | [], [], _ => rfl
  | _ :: xs, _ :: bs, h => by simp [bndsSat_length xs bs h.2]
  | [], _ :: _, h => by simp [BndsSat] at h
  | _ :: _, [], h => by simp [BndsSat] at h

/-- WEAK DUALITY: a dual bound is below the objective of every feasible point. -/
theorem dualBound_le (c : List K) (rows : List (Row K)) (bnds : List (Bnd K)) (y x : List K) (v : K)
    (hc : c.length = x.length) (h : dualBound c rows bnds y = some v)
    (hrows : ∀ r ∈ rows, r.coeffs.length = x.length ∧ RowSat x r) (hb : BndsSat x bnds) :
    v ≤ dot c x := by
  unfold dualBound at h
  cases hr : reduce c rows y with
  | none => simp [hr] at h
  | some p =>
    obtain ⟨d, w⟩ := p
    cases hs : bndSum d bnds with
    | none => simp [hr, hs] at h
    | some s =>
      simp [hr, hs] at h
      subst h
      have h1 := reduce_spec x rows c y d w hr hc hrows
      have h2 := bndSum_spec d bnds x s hs hb
      linarith [h1.2]

theorem reduce_length : ∀ (rows : List (Row K)) (c y d : List K) (v : K),
    reduce c rows y = some (d, v) → d.length = c.length
  | [], c, [], d, v, h => by
    simp [reduce] at h
    rw [h.1]
  | [], c, _ :: _, d, v, h => by simp [reduce] at h
  | r :: rs, c, [], d, v, h => by simp [reduce] at h
  | r :: rs, c, y :: ys, d, v, h => by
    simp only [reduce] at h
    split at h
    · rename_i hcond
      simp only [Bool.and_eq_true, decide_eq_true_eq] at hcond
      cases hrec : reduce (rowSub y c r.coeffs) rs ys with
      | none => simp [hrec] at h
      | some p =>
        obtain ⟨d', v'⟩ := p
        simp [hrec] at h
        obtain ⟨rfl, rfl⟩ := h
        rw [reduce_length rs _ ys d' v' hrec, rowSub_length y c r.coeffs hcond.2.symm]
    · simp at h

theorem bndSum_length : ∀ (d : List K) (bnds : List (Bnd K)) (s : K), bndSum d bnds = some s → d.length = bnds.length
  | [], [], _, _ => rfl
  | d :: ds, b :: bs, s, h => by
    simp only [bndSum] at h
    cases ht : bndTerm d b with
    | none => simp [ht] at h
    | some t =>
      cases hs : bndSum ds bs with
      | none => simp [ht, hs] at h
      | some s' => simp [bndSum_length ds bs s' hs]
  | [], _ :: _, _, h => by simp [bndSum] at h
  | _ :: _, [], _, h => by simp [bndSum] at h

/-- a dual bound exists only for an objective with one coefficient per variable. -/
theorem dualBound_length {c : List K} {rows : List (Row K)} {bnds : List (Bnd K)} {y : List K} {v : K}
    (h : dualBound c rows bnds y = some v) : c.length = bnds.length := by
  unfold dualBound at h
  cases hr : reduce c rows y with
  | none => simp [hr] at h
  | some p =>
    obtain ⟨d, w⟩ := p
    cases hs : bndSum d bnds with
    | none => simp [hr, hs] at h
    | some s => rw [← reduce_length rows c y d w hr, bndSum_length d bnds s hs]

theorem dot_zerosLike : ∀ (c x : List K), dot (zerosLike c) x = 0
  | [], x => by simp [zerosLike]
  | _ :: _, [] => by simp
  | c :: cs, x :: xs => by
    have := dot_zerosLike cs xs
    unfold zerosLike at this ⊢
    rw [List.map_cons, dot_cons, this]
    simp

omit [Field K] [IsStrictOrderedRing K] [FloorRing K] in
theorem bndsSat_get : ∀ (x : List K) (bnds : List (Bnd K)) (j : Nat) (b : Bnd K),
    BndsSat x bnds → bnds[j]? = some b → ∃ xj, BndSat xj b
  | x :: xs, b' :: bs, 0, b, h, hj => by
    simp at hj; subst hj; exact ⟨x, h.1⟩
  | x :: xs, b' :: bs, j + 1, b, h, hj => by
    simp at hj; exact bndsSat_get xs bs j b h.2 hj
  | [], [], j, b, _, hj => by simp at hj
  | [], _ :: _, _, _, h, _ => by simp [BndsSat] at h
  | _ :: _, [], _, _, h, _ => by simp [BndsSat] at h

/-! ### the executable feasibility test is sound -/

theorem rowHolds_zero_sound {x : List K} {r : Row K} (h : rowHolds (0 : K) x r = true) : RowSat x r := by
  unfold rowHolds at h
  unfold RowSat
  cases hrel : r.rel <;> simp [hrel] at h ⊢
  · exact h
  · exact h
  · exact le_antisymm h.1 h.2

theorem bndHolds_sound {x : K} {b : Bnd K} (h : bndHolds x b = true) : BndSat x b := by
  unfold bndHolds at h
  simp only [Bool.and_eq_true] at h
  constructor
  · intro l hl
    have := h.1
    simp [loHolds, hl] at this
    exact this
  · intro u hu
    have := h.2
    simp [hiHolds, hu] at this
    exact this

theorem bndsHold_sound : ∀ (x : List K) (bnds : List (Bnd K)), bndsHold x bnds = true → BndsSat x bnds
  | [], [], _ => trivial
  | x :: xs, b :: bs, h => by
    simp only [bndsHold, Bool.and_eq_true] at h
    exact ⟨bndHolds_sound h.1, bndsHold_sound xs bs h.2⟩
  | [], _ :: _, h => by simp [bndsHold] at h
  | _ :: _, [], h => by simp [bndsHold] at h

theorem lpFeasible_sound {lp : LP K} {x : List K} (h : lpFeasible lp x = true) : LpFeasible lp x := by
  unfold lpFeasible at h
  simp only [Bool.and_eq_true, List.all_eq_true, decide_eq_true_eq] at h
  refine ⟨fun r hr => ⟨(h.1 r hr).1, ?_⟩, bndsHold_sound x lp.bnds h.2⟩
  have := (h.1 r hr).2
  simp only [ef_ofInt, Int.cast_zero] at this
  exact rowHolds_zero_sound this

/-! ### feasibility within a tolerance (C04) -/

def RowSatTol (tol : K) (x : List K) (r : Row K) : Prop :=
  match r.rel with
  | .le => dot r.coeffs x ≤ r.rhs + tol
  | .ge => r.rhs - tol ≤ dot r.coeffs x
  | .eq => |dot r.coeffs x - r.rhs| ≤ tol

/-- a value is in its domain within `tol` (appendix A `InDomain`, relaxed by the tolerance). -/
def DomSatTol (tol : K) (x : K) : Dom K → Prop
  | .cont lo hi => (∀ l, lo = some l → l - tol ≤ x) ∧ (∀ h, hi = some h → x ≤ h + tol)
  | .int lo hi => ∃ n : ℤ, |x - (n : K)| ≤ tol ∧ lo ≤ n ∧ n ≤ hi
  | .bool => |x| ≤ tol ∨ |x - 1| ≤ tol

def DomsSatTol (tol : K) : List K → List (Dom K) → Prop
  | [], [] => True
  | x :: xs, d :: ds => DomSatTol tol x d ∧ DomsSatTol tol xs ds
  | _, _ => False

/-- `x` gives exactly one value to every variable and satisfies every row and every domain within `tol`. -/
def FeasibleWithin (p : Prob K) (x : List K) (tol : K) : Prop :=
  (∀ r ∈ p.rows, r.coeffs.length = x.length ∧ RowSatTol tol x r) ∧ DomsSatTol tol x p.doms

theorem absK_eq (a : K) : absK a = |a| := by
  unfold absK
  simp only [ef_lt, ef_ofInt, Int.cast_zero, decide_eq_true_eq, ef_neg]
  split
  · rename_i h; rw [abs_of_neg h]
  · rename_i h; rw [abs_of_nonneg (not_lt.mp h)]

theorem rowHolds_sound {tol : K} {x : List K} {r : Row K} (h : rowHolds tol x r = true) : RowSatTol tol x r := by
  unfold rowHolds at h
  unfold RowSatTol
  cases hrel : r.rel <;> simp [hrel] at h ⊢
  · exact h
  · linarith
  · rw [abs_le]; constructor <;> linarith [h.1, h.2]

theorem domHolds_sound {tol x : K} {d : Dom K} (h : domHolds tol x d = true) : DomSatTol tol x d := by
  cases d with
  | cont lo hi =>
    simp only [domHolds, Bool.and_eq_true] at h
    constructor
    · intro l hl; have := h.1; simp [loHolds, hl] at this; linarith
    · intro u hu; have := h.2; simp [hiHolds, hu] at this; exact this
  | int lo hi =>
    simp only [domHolds, Bool.and_eq_true, decide_eq_true_eq] at h
    refine ⟨roundK x, ?_, h.1.2, h.2⟩
    have := h.1.1
    simp only [ef_le, decide_eq_true_eq, absK_eq, ef_sub, ef_ofInt] at this
    exact this
  | bool =>
    simp only [domHolds, Bool.or_eq_true, ef_le, decide_eq_true_eq, absK_eq, ef_sub, ef_ofInt, Int.cast_one] at h
    exact h

theorem domsHold_sound {tol : K} : ∀ (x : List K) (ds : List (Dom K)), domsHold tol x ds = true → DomsSatTol tol x ds
  | [], [], _ => trivial
  | x :: xs, d :: ds, h => by
    simp only [domsHold, Bool.and_eq_true] at h
    exact ⟨domHolds_sound h.1, domsHold_sound xs ds h.2⟩
  | [], _ :: _, h => by simp [domsHold] at h
  | _ :: _, [], h => by simp [domsHold] at h

/-! ### sensitivity (C20): perturbed right-hand sides, complementary slackness -/

/-- the rows with right-hand sides `b + δ`. -/
def perturbRows : List (Row K) → List K → List (Row K)
  | r :: rs, d :: ds => { r with rhs := r.rhs + d } :: perturbRows rs ds
  | rs, _ => rs

theorem reduce_perturb : ∀ (rows : List (Row K)) (c y δ d : List K) (v : K),
    reduce c rows y = some (d, v) → δ.length = rows.length →
    reduce c (perturbRows rows δ) y = some (d, v + dot y δ)
  | [], c, [], δ, d, v, h, hl => by
    have : δ = [] := List.eq_nil_of_length_eq_zero (by simpa using hl)
    subst this
    simpa [perturbRows] using h
  | [], c, _ :: _, δ, d, v, h, _ => by simp [reduce] at h
  | r :: rs, c, [], δ, d, v, h, _ => by simp [reduce] at h
  | r :: rs, c, y :: ys, [], d, v, h, hl => by simp at hl
  | r :: rs, c, y :: ys, e :: es, d, v, h, hl => by
    simp only [reduce] at h
    split at h
    · rename_i hcond
      cases hrec : reduce (rowSub y c r.coeffs) rs ys with
      | none => simp [hrec] at h
      | some p =>
        obtain ⟨d', v'⟩ := p
        simp [hrec] at h
        obtain ⟨rfl, rfl⟩ := h
        have ih := reduce_perturb rs (rowSub y c r.coeffs) ys es d' v' hrec (by simpa using hl)
        simp only [perturbRows, reduce, hcond, if_true, ih, dot_cons]
        simp only [ef_add, ef_mul]
        congr 2; ring
    · simp at h

/-- each term `yᵢ·(aᵢ·x − bᵢ)` of the weak-duality chain is below the total slack of the chain. -/
theorem reduce_term_le (x : List K) : ∀ (rows : List (Row K)) (c y d : List K) (v : K),
    reduce c rows y = some (d, v) → c.length = x.length →
    (∀ r ∈ rows, r.coeffs.length = x.length ∧ RowSat x r) →
    ∀ (i : Nat) (r : Row K) (yi : K), rows[i]? = some r → y[i]? = some yi →
      signOk r.rel yi = true ∧ yi * (dot r.coeffs x - r.rhs) ≤ dot c x - dot d x - v
  | [], c, [], d, v, _, _, _ => by intro i r yi hr; simp at hr
  | [], c, _ :: _, d, v, h, _, _ => by simp [reduce] at h
  | r :: rs, c, [], d, v, h, _, _ => by simp [reduce] at h
  | r :: rs, c, y :: ys, d, v, h, hc, hrows => by
    have hr := hrows r (by simp)
    simp only [reduce] at h
    split at h
    · rename_i hcond
      simp only [Bool.and_eq_true, decide_eq_true_eq] at hcond
      obtain ⟨hs, hlen⟩ := hcond
      cases hrec : reduce (rowSub y c r.coeffs) rs ys with
      | none => simp [hrec] at h
      | some p =>
        obtain ⟨d', v'⟩ := p
        simp [hrec] at h
        obtain ⟨rfl, rfl⟩ := h
        have hl : (rowSub y c r.coeffs).length = x.length := by
          rw [rowSub_length y c r.coeffs hlen.symm]; exact hc
        have hrows' : ∀ r' ∈ rs, r'.coeffs.length = x.length ∧ RowSat x r' :=
          fun r' hr' => hrows r' (by simp [hr'])
        have spec := reduce_spec x rs (rowSub y c r.coeffs) ys d' v' hrec hl hrows'
        have h2 := dot_rowSub y c r.coeffs x hlen.symm
        have h3 := signOk_mul hs hr.2
        intro i ri yi hri hyi
        cases i with
        | zero =>
          simp at hri hyi
          subst hri; subst hyi
          refine ⟨hs, ?_⟩
          rw [h2] at spec
          nlinarith [spec.2]
        | succ j =>
          simp at hri hyi
          have ih := reduce_term_le x rs (rowSub y c r.coeffs) ys d' v' hrec hl hrows' j ri yi hri hyi
          refine ⟨ih.1, ?_⟩
          rw [h2] at ih
          nlinarith [ih.2]
    · simp at h

theorem dot_negList : ∀ (c x : List K), dot (negList c) x = - dot c x
  | [], x => by simp [negList]
  | _ :: _, [] => by simp
  | c :: cs, x :: xs => by
    have := dot_negList cs xs
    unfold negList at this ⊢
    rw [List.map_cons, dot_cons, dot_cons, this]
    simp only [ef_neg]; ring

/-! ### complementary points: the same multipliers certify the perturbed problem (C20 sensitivity) -/

/-- every row with a non-zero multiplier is ACTIVE at `x` (the basis rows stay the basis rows). -/
def RowsTight : List (Row K) → List K → List K → Prop
  | [], [], _ => True
  | r :: rs, yi :: ys, x => (yi ≠ 0 → dot r.coeffs x = r.rhs) ∧ RowsTight rs ys x
  | _, _, _ => False

/-- every variable with a non-zero reduced cost sits AT the corresponding bound (non-basic variables stay put). -/
def BndsTight : List K → List (Bnd K) → List K → Prop
  | [], [], [] => True
  | d :: ds, b :: bs, x :: xs => (0 < d → b.lo = some x) ∧ (d < 0 → b.hi = some x) ∧ BndsTight ds bs xs
  | _, _, _ => False

theorem reduce_tight (x : List K) : ∀ (rows : List (Row K)) (c y d : List K) (w : K),
    reduce c rows y = some (d, w) → RowsTight rows y x → dot c x = dot d x + w
  | [], c, [], d, w, h, _ => by
    simp [reduce] at h
    obtain ⟨rfl, rfl⟩ := h
    simp
  | [], c, _ :: _, d, w, h, _ => by simp [reduce] at h
  | r :: rs, c, [], d, w, h, _ => by simp [reduce] at h
  | r :: rs, c, y :: ys, d, w, h, ht => by
    simp only [reduce] at h
    split at h
    · rename_i hcond
      simp only [Bool.and_eq_true, decide_eq_true_eq] at hcond
      cases hrec : reduce (rowSub y c r.coeffs) rs ys with
      | none => simp [hrec] at h
      | some p =>
        obtain ⟨d', w'⟩ := p
        simp [hrec] at h
        obtain ⟨rfl, rfl⟩ := h
        have ih := reduce_tight x rs (rowSub y c r.coeffs) ys d' w' hrec ht.2
        rw [dot_rowSub y c r.coeffs x hcond.2.symm] at ih
        have hy : y * dot r.coeffs x = y * r.rhs := by
          by_cases h0 : y = 0
          · simp [h0]
          · rw [ht.1 h0]
        linarith
    · simp at h

theorem bndSum_tight : ∀ (d : List K) (bnds : List (Bnd K)) (x : List K) (s : K),
    bndSum d bnds = some s → BndsTight d bnds x → dot d x = s
  | [], [], [], s, h, _ => by
    simp [bndSum] at h
    subst h; simp
  | d :: ds, b :: bs, x :: xs, s, h, ht => by
    simp only [bndSum] at h
    cases hterm : bndTerm d b with
    | none => simp [hterm] at h
    | some t =>
      cases hs : bndSum ds bs with
      | none => simp [hterm, hs] at h
      | some s' =>
        simp [hterm, hs] at h
        subst h
        have ih := bndSum_tight ds bs xs s' hs ht.2.2
        have ht' : t = d * x := by
          unfold bndTerm at hterm
          simp only [ef_lt, ef_ofInt, Int.cast_zero, decide_eq_true_eq] at hterm
          split at hterm
          · rename_i hd
            rw [ht.1 hd] at hterm
            simpa using hterm.symm
          · split at hterm
            · rename_i _ hd
              rw [ht.2.1 hd] at hterm
              simpa using hterm.symm
            · rename_i h1 h2
              have : d = 0 := le_antisymm (not_lt.mp h1) (not_lt.mp h2)
              simp at hterm
              rw [← hterm, this]; simp
        rw [dot_cons, ih, ht']
  | [], [], _ :: _, _, _, ht => by simp [BndsTight] at ht
  | [], _ :: _, _, _, h, _ => by simp [bndSum] at h
  | _ :: _, [], _, _, h, _ => by simp [bndSum] at h
  | _ :: _, _ :: _, [], _, _, ht => by simp [BndsTight] at ht

/-- `δ = t·eᵢ` (length `n`) -/
def unitVec : Nat → Nat → K → List K
  | 0, _, _ => []
  | n + 1, 0, t => t :: List.replicate n 0
  | n + 1, i + 1, t => 0 :: unitVec n i t

omit [LinearOrder K] [IsStrictOrderedRing K] [FloorRing K] in
theorem unitVec_length : ∀ (n i : Nat) (t : K), (unitVec n i t).length = n
  | 0, _, _ => rfl
  | n + 1, 0, t => by simp [unitVec]
  | n + 1, i + 1, t => by simp [unitVec, unitVec_length n i t]

theorem dot_replicate_zero : ∀ (y : List K) (n : Nat), dot y (List.replicate n (0 : K)) = 0
  | [], n => by simp
  | _ :: _, 0 => by simp
  | y :: ys, n + 1 => by
    rw [List.replicate_succ, dot_cons, dot_replicate_zero ys n]; simp

theorem dot_unitVec : ∀ (y : List K) (i : Nat) (yi t : K), y[i]? = some yi →
    dot y (unitVec y.length i t) = yi * t
  | [], i, yi, t, h => by simp at h
  | y :: ys, 0, yi, t, h => by
    simp at h; subst h
    simp [unitVec, dot_replicate_zero]
  | y :: ys, i + 1, yi, t, h => by
    simp at h
    simp [unitVec, dot_unitVec ys i yi t h]

/-! ### moving along a ray -/

/-- `x + t·r` -/
def move (x r : List K) (t : K) : List K := List.zipWith (fun xi ri => xi + t * ri) x r

omit [LinearOrder K] [IsStrictOrderedRing K] [FloorRing K] in
theorem move_length (x r : List K) (t : K) (h : r.length = x.length) : (move x r t).length = x.length := by
  simp [move, h]

theorem dot_move : ∀ (a x r : List K) (t : K), r.length = x.length →
    dot a (move x r t) = dot a x + t * dot a r
  | [], x, r, t, _ => by simp
  | a :: as, [], r, t, h => by
    have : r = [] := List.eq_nil_of_length_eq_zero (by simpa using h)
    subst this; simp [move]
  | a :: as, x :: xs, [], t, h => by simp at h
  | a :: as, x :: xs, r :: rs, t, h => by
    have ih := dot_move as xs rs t (by simpa using h)
    simp only [move, List.zipWith_cons_cons, dot_cons] at ih ⊢
    rw [ih]; ring

theorem rayRow_move {x r : List K} {row : Row K} {t : K} (ht : 0 ≤ t) (hlen : r.length = x.length)
    (hr : rayRow r row = true) (hx : row.coeffs.length = x.length ∧ RowSat x row) :
    row.coeffs.length = (move x r t).length ∧ RowSat (move x r t) row := by
  refine ⟨by rw [move_length x r t hlen]; exact hx.1, ?_⟩
  unfold rayRow at hr
  have hx2 := hx.2
  unfold RowSat at hx2 ⊢
  rw [dot_move _ _ _ _ hlen]
  cases hrel : row.rel <;> simp [hrel] at hr hx2 ⊢
  · nlinarith [hr.2]
  · nlinarith [hr.2]
  · have : dot row.coeffs r = 0 := le_antisymm hr.2.1 hr.2.2
    rw [this, hx2]; ring

theorem rayBnds_move : ∀ (x r : List K) (bnds : List (Bnd K)) (t : K), 0 ≤ t →
    rayBnds r bnds = true → BndsSat x bnds → BndsSat (move x r t) bnds
  | [], [], [], _, _, _, _ => by simp [move, BndsSat]
  | x :: xs, r :: rs, b :: bs, t, ht, hr, hx => by
    simp only [rayBnds, Bool.and_eq_true] at hr
    obtain ⟨⟨hlo, hhi⟩, hrest⟩ := hr
    have ih := rayBnds_move xs rs bs t ht hrest hx.2
    simp only [move, List.zipWith_cons_cons] at ih ⊢
    refine ⟨⟨?_, ?_⟩, ih⟩
    · intro l hl
      have h1 := hx.1.1 l hl
      simp [hl] at hlo
      nlinarith
    · intro u hu
      have h1 := hx.1.2 u hu
      simp [hu] at hhi
      nlinarith
  | [], _ :: _, _, _, _, _, hx => by cases ‹List (Bnd K)› <;> simp_all [BndsSat, rayBnds]
  | _ :: _, [], bs, _, _, hr, hx => by cases bs <;> simp_all [BndsSat, rayBnds]
  | [], [], _ :: _, _, _, hr, _ => by simp [rayBnds] at hr
  | _ :: _, _ :: _, [], _, _, hr, _ => by simp [rayBnds] at hr

end Cert
end Rooc

/-! ## Mixed-integer problems: the enumeration of the integer box covers every feasible point -/
namespace Rooc
namespace Cert
variable {K : Type} [Field K] [LinearOrder K] [IsStrictOrderedRing K] [FloorRing K]

/-- `x` satisfies the mixed-integer problem EXACTLY (rows, bounds, integrality, 0/1). -/
def ProbFeasible (p : Prob K) (x : List K) : Prop := FeasibleWithin p x 0

theorem mem_intRange {lo hi n : Int} (h1 : lo ≤ n) (h2 : n ≤ hi) : n ∈ intRange lo hi := by
  unfold intRange
  simp only [List.mem_map, List.mem_range]
  refine ⟨(n - lo).toNat, ?_, ?_⟩
  · omega
  · simp only [Int.ofNat_eq_natCast]; omega

theorem rowSatTol_zero {x : List K} {r : Row K} (h : RowSatTol 0 x r) : RowSat x r := by
  unfold RowSatTol at h
  unfold RowSat
  cases hrel : r.rel <;> simp [hrel] at h ⊢
  · exact h
  · exact h
  · exact sub_eq_zero.mp h

/-- every exactly feasible assignment of the domains lies in one leaf of the enumeration. -/
theorem leaves_cover : ∀ (x : List K) (ds : List (Dom K)), DomsSatTol 0 x ds →
    ∃ leaf ∈ leaves ds, BndsSat x (fixBnds (ds.map Dom.bnd) leaf)
  | [], [], _ => ⟨[], by simp [leaves], by simp [fixBnds, BndsSat]⟩
  | x :: xs, d :: ds, h => by
    obtain ⟨leaf, hleaf, hb⟩ := leaves_cover xs ds h.2
    cases d with
    | cont lo hi =>
      refine ⟨none :: leaf, by simp only [leaves, List.mem_map]; exact ⟨leaf, hleaf, rfl⟩, ?_⟩
      simp only [List.map_cons, fixBnds, fixBnd, BndsSat]
      refine ⟨⟨?_, ?_⟩, hb⟩
      · intro l hl; have := h.1.1 l hl; simpa [Dom.bnd] using this
      · intro u hu; have := h.1.2 u hu; simpa [Dom.bnd] using this
    | int lo hi =>
      obtain ⟨n, hn, h1, h2⟩ := h.1
      have hx : x = (n : K) := by
        have := abs_nonpos_iff.mp hn
        exact sub_eq_zero.mp this
      refine ⟨some n :: leaf, ?_, ?_⟩
      · simp only [leaves, List.mem_flatMap, List.mem_map]
        exact ⟨n, mem_intRange h1 h2, leaf, hleaf, rfl⟩
      · simp only [List.map_cons, fixBnds, fixBnd, BndsSat]
        refine ⟨⟨?_, ?_⟩, hb⟩
        · intro l hl; simp at hl; rw [← hl, hx]
        · intro u hu; simp at hu; rw [← hu, hx]
    | bool =>
      have hx : x = ((0 : Int) : K) ∨ x = ((1 : Int) : K) := by
        rcases h.1 with h0 | h1
        · left; simpa using abs_nonpos_iff.mp h0
        · right; have := abs_nonpos_iff.mp h1; simpa using sub_eq_zero.mp this
      rcases hx with hx | hx
      · refine ⟨some 0 :: leaf, ?_, ?_⟩
        · simp only [leaves, List.mem_flatMap, List.mem_map]
          exact ⟨0, mem_intRange (by decide) (by decide), leaf, hleaf, rfl⟩
        · simp only [List.map_cons, fixBnds, fixBnd, BndsSat]
          refine ⟨⟨?_, ?_⟩, hb⟩
          · intro l hl; simp at hl; rw [← hl, hx]; simp
          · intro u hu; simp at hu; rw [← hu, hx]; simp
      · refine ⟨some 1 :: leaf, ?_, ?_⟩
        · simp only [leaves, List.mem_flatMap, List.mem_map]
          exact ⟨1, mem_intRange (by decide) (by decide), leaf, hleaf, rfl⟩
        · simp only [List.map_cons, fixBnds, fixBnd, BndsSat]
          refine ⟨⟨?_, ?_⟩, hb⟩
          · intro l hl; simp at hl; rw [← hl, hx]; simp
          · intro u hu; simp at hu; rw [← hu, hx]; simp
  | [], _ :: _, h => by simp [DomsSatTol] at h
  | _ :: _, [], h => by simp [DomsSatTol] at h

/-- a feasible point of the mixed-integer problem is a feasible point of the LP of one leaf. -/
theorem probFeasible_leaf {p : Prob K} {x : List K} (h : ProbFeasible p x) :
    ∃ leaf ∈ leaves p.doms, LpFeasible (p.relax.fix leaf) x := by
  obtain ⟨leaf, hleaf, hb⟩ := leaves_cover x p.doms h.2
  exact ⟨leaf, hleaf, fun r hr => ⟨(h.1 r hr).1, rowSatTol_zero (h.1 r hr).2⟩, hb⟩

theorem checkLeaves_mem {lp : LP K} {target : K} : ∀ (ls : List (List (Option Int))) (cs : List (LeafCert K)),
    checkLeaves lp target ls cs = true → ∀ l ∈ ls, ∃ c, checkLeaf lp target l c = true
  | [], [], _ => by simp
  | l :: ls, c :: cs, h => by
    simp only [checkLeaves, Bool.and_eq_true] at h
    intro l' hl'
    rcases List.mem_cons.mp hl' with rfl | hm
    · exact ⟨c, h.1⟩
    · exact checkLeaves_mem ls cs h.2 l' hm
  | [], _ :: _, h => by simp [checkLeaves] at h
  | _ :: _, [], h => by simp [checkLeaves] at h

/-- moving along a ray of the relaxation keeps every domain (integer variables are bounded, so the ray is 0 there). -/
theorem rayBnds_move_doms : ∀ (x r : List K) (ds : List (Dom K)) (t : K), 0 ≤ t →
    rayBnds r (ds.map Dom.bnd) = true → DomsSatTol 0 x ds → DomsSatTol 0 (move x r t) ds
  | [], [], [], _, _, _, _ => by simp [move, DomsSatTol]
  | x :: xs, r :: rs, d :: ds, t, ht, hr, hx => by
    simp only [List.map_cons, rayBnds, Bool.and_eq_true] at hr
    obtain ⟨⟨hlo, hhi⟩, hrest⟩ := hr
    have ih := rayBnds_move_doms xs rs ds t ht hrest hx.2
    simp only [move, List.zipWith_cons_cons] at ih ⊢
    refine ⟨?_, ih⟩
    cases d with
    | cont lo hi =>
      constructor
      · intro l hl
        have h1 := hx.1.1 l hl
        simp [Dom.bnd, hl] at hlo
        nlinarith
      · intro u hu
        have h1 := hx.1.2 u hu
        simp [Dom.bnd, hu] at hhi
        nlinarith
    | int lo hi =>
      simp [Dom.bnd] at hlo hhi
      have hr0 : r = 0 := le_antisymm hhi hlo
      have := hx.1
      simpa [hr0, DomSatTol] using this
    | bool =>
      simp [Dom.bnd] at hlo hhi
      have hr0 : r = 0 := le_antisymm hhi hlo
      have := hx.1
      simpa [hr0, DomSatTol] using this
  | [], _ :: _, ds, _, _, hr, hx => by cases ds <;> simp_all [DomsSatTol, rayBnds]
  | _ :: _, [], ds, _, _, hr, hx => by cases ds <;> simp_all [DomsSatTol, rayBnds]
  | [], [], _ :: _, _, _, hr, _ => by simp [rayBnds] at hr
  | _ :: _, _ :: _, [], _, _, hr, _ => by simp [rayBnds] at hr

end Cert
end Rooc
