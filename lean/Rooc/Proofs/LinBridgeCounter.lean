/-
The integer-tolerance defect as a theorem about the last two steps of the pipeline: an analyzer state whose
box for an integer variable ends within the tolerance below an integer is published (by `apply_to_domain`) as a
WIDER integer range, while `linearize_extreme` prunes with the box.
-/
import Rooc.Proofs.LinBridge
import Rooc.Proofs.LinCounter
import Rooc.Proofs.LinExamples

set_option linter.unusedSectionVars false
set_option linter.unusedSimpArgs false
set_option linter.unusedVariables false

namespace Rooc.LinP
open Rooc Rooc.Lin Rooc.Sem Rooc.BoundsProofs Rooc.BoundsSem Arith

variable {K : Type} [Field K] [LinearOrder K] [IsStrictOrderedRing K] [FloorRing K]

/-- the analyzer state after bound inference on `max{x, k} ≤ k`, `x ∈ IntegerRange(0, 10)`: `x ∈ [0, k]`. -/
def exIntAn (k t : K) : Analyzer (Ext K) :=
  { variableBounds := [("x", ⟨.fin 0, .fin k⟩)], booleanVariables := [], tolerance := .fin t,
    reachedIterationLimit := false, detectedInfeasible := false }

def exIntDecl : List (DomVar (Ext K)) := [{ name := "x", ty := .int 0 10, usage := 1 }]

theorem exInt_ceil {t : K} (h0 : 0 ≤ t) (h1 : t < 1) :
    Arith.ceil (Arith.sub (Ext.fin (0 : K)) (Ext.fin t)) = Ext.fin ((0 : Int) : K) := by
  have : Int.ceil ((0 : K) - t) = 0 := by
    rw [Int.ceil_eq_iff]; constructor <;> simp <;> linarith
  simp only [Arith.ceil, Arith.sub, Ext.sub, Ext.add, Ext.neg, ef_add, ef_neg, ef_ceil, ef_ofInt]
  rw [show (0 : K) + -t = 0 - t by ring, this]

theorem exInt_floor {k t : K} (h5 : 5 ≤ k + t) (h6 : k + t < 6) :
    Arith.floor (Arith.add (Ext.fin k) (Ext.fin t)) = Ext.fin ((5 : Int) : K) := by
  have : Int.floor (k + t) = 5 := by
    rw [Int.floor_eq_iff]; constructor <;> norm_num <;> linarith
  simp only [Arith.floor, Arith.add, Ext.add, ef_add, ef_floor, ef_ofInt, this]

/-- `apply_to_domain` publishes `IntegerRange(0, 5)` although the box is `[0, k]` with `k < 5`. -/
theorem exInt_published {k t : K} (h0 : 0 ≤ t) (h1 : t < 1) (h5 : 5 ≤ k + t) (hk : k < 5) :
    (exIntAn k t).applyToDomain exIntDecl = [{ name := "x", ty := .int 0 5, usage := 1 }] := by
  have h6 : k + t < 6 := by linarith
  simp only [Analyzer.applyToDomain, exIntDecl, List.map_cons, List.map_nil, Analyzer.applyToVar, exIntAn,
    AList.get?, beq_self_eq_true, if_true, exInt_ceil h0 h1, exInt_floor h5 h6]
  have hgt : Arith.gt (Ext.fin (((0 : Int)) : K)) (Ext.fin (((5 : Int)) : K)) = false := by
    simp [Arith.gt, Arith.lt, Ext.lt]
  simp only [hgt, Bool.false_eq_true, if_false, toI32_int]
  simp [Ext.clampInt, i32Min, i32Max]

/-- the hypothesis of `c01_compile_partial` fails for it. -/
theorem exInt_not_inBox {k t : K} (h0 : 0 ≤ t) (h1 : t < 1) (h5 : 5 ≤ k + t) (hk : k < 5) :
    ¬ IntRangesInBox (exIntAn k t) exIntDecl := by
  intro h
  have h6 : k + t < 6 := by linarith
  have := h { name := "x", ty := .int 0 10, usage := 1 } (by simp [exIntDecl]) 0 10 rfl ⟨.fin 0, .fin k⟩
    (by simp [exIntAn, AList.get?])
  simp only [exIntAn, exInt_ceil h0 h1, exInt_floor h5 h6] at this
  have hgt : Arith.gt (Ext.fin (((0 : Int)) : K)) (Ext.fin (((5 : Int)) : K)) = false := by
    simp [Arith.gt, Arith.lt, Ext.lt]
  have h2 := (this hgt).2.2
  simp only [toI32_int, Ext.clampInt, i32Min, i32Max] at h2
  norm_num [UB, Ext.le] at h2
  linarith

/-- **the integer-tolerance defect**: for every tolerance `0 < t < 1` and every `k ∈ [5 - t, 5)` (a bound
within the tolerance below the integer 5), with the analyzer state `x ∈ [0, k]` the pipeline publishes
`IntegerRange(0, 5)`, compiles `max x s.t. max{x, k} ≤ k` to the row `0 ≤ 0`, and `x = 5` is feasible for
the linear model although the source forces `x ≤ k < 5`.  (On the real code: `k = 4.9999999995`, `t = 1e-9`.) -/
theorem intTolerance_defect {k t : K} (h0 : 0 ≤ t) (h1 : t < 1) (h5 : 5 ≤ k + t) (hk4 : 0 < k) (hk : k < 5) :
    ∃ (m : Model (Ext K)) (lm : LinModel (Ext K)) (ρ : String → K),
      m.domain = exIntDecl ∧
      linearizeWith m (Compile.toLinBounds (exIntAn k t).variableBounds) ((exIntAn k t).applyToDomain m.domain) = .ok lm ∧
      ¬ IntRangesInBox (exIntAn k t) m.domain ∧
      linFeasible lm ρ = true ∧ ¬ srcFeasible m ρ = true := by
  refine ⟨exBool (.int 0 10) k, exBoolLM (.int 0 5) k, fun _ => 5, rfl, ?_, exInt_not_inBox h0 h1 h5 hk, ?_, ?_⟩
  · have hd : (exIntAn k t).applyToDomain (exBool (.int 0 10) k).domain = (exBool (.int 0 5) k).domain :=
      exInt_published h0 h1 h5 hk
    rw [hd]
    exact exBool_ok (ty := .int 0 5) hk4
  · exact exBool_linFeasible (ty := .int 0 5) (x0 := 5) (by
      simp only [inDomain, Bool.and_eq_true, isIntK_iff, ef_le, ef_ofInt, decide_eq_true_eq]
      exact ⟨⟨⟨5, by norm_num⟩, by norm_num⟩, by norm_num⟩)
  · exact exBool_not_srcFeasible (ty := .int 0 10) (x0 := 5) hk

/-! ### sufficient condition and non-vacuity for the pipeline theorems -/

/-- no `IntegerRange` variable is declared. -/
def NoIntegerVars (domain : List (DomVar (Ext K))) : Prop := ∀ d ∈ domain, ∀ lo hi, d.ty ≠ .int lo hi

theorem intRangesInBox_of_noInt {domain : List (DomVar (Ext K))} (h : NoIntegerVars domain)
    (an : Analyzer (Ext K)) : IntRangesInBox an domain :=
  fun d hd lo hi hty => absurd hty (h d hd lo hi)

theorem exAffine_normalized : Compile.normalizedForBounds (exAffine : Model (Ext K)).constraints
    = some (exAffine : Model (Ext K)).constraints := by
  simp [Compile.normalizedForBounds, exAffine, exAbs_norm_var]

/-- `min x s.t. x ≤ y` goes through the whole pipeline, for every tolerance and every step limit. -/
theorem exAffine_compile (tol : Ext K) (n : Nat) :
    ∃ lm, Compile.linearize (exAffine : Model (Ext K)) tol n = .ok lm := by
  obtain ⟨lm, h⟩ := exAffine_ok_of (K := K)
    (Compile.toLinBounds ((Analyzer.analyze (exAffine : Model (Ext K)).domain (exAffine : Model (Ext K)).constraints tol n).enforceable
      (exAffine : Model (Ext K)).domain).variableBounds)
    (((Analyzer.analyze (exAffine : Model (Ext K)).domain (exAffine : Model (Ext K)).constraints tol n).enforceable
      (exAffine : Model (Ext K)).domain).applyToDomain (exAffine : Model (Ext K)).domain)
  refine ⟨lm, (compile_ok_iff _ _ _ _).mpr ⟨scratchOK_frag (ext := true) _ _ (by simp [exAffine, frag])
    (by intro c hc; simp only [exAffine, List.mem_singleton] at hc; subst hc; simp [frag]), _, ?_, h⟩⟩
  simp [pipelineAnalyzer, exAffine_normalized]

theorem exAffine_declOK : DeclOK (exAffine : Model (Ext K)).domain := by
  refine ⟨by simp [exAffine], ?_, ?_, ?_, ?_⟩
  · intro d hd lo hi hty
    simp only [exAffine, List.mem_cons, List.mem_nil_iff, or_false] at hd
    rcases hd with rfl | rfl <;> simp at hty
  · intro d hd
    simp only [exAffine, List.mem_cons, List.mem_nil_iff, or_false] at hd
    rcases hd with rfl | rfl <;> simp [TyNoNaN]
  · intro d hd
    simp only [exAffine, List.mem_cons, List.mem_nil_iff, or_false] at hd
    rcases hd with rfl | rfl <;> simp [NNOK]
  · intro d hd hu
    simp only [exAffine, List.mem_cons, List.mem_nil_iff, or_false] at hd
    rcases hd with rfl | rfl <;> simp at hu

theorem exAffine_noInt : NoIntegerVars (exAffine : Model (Ext K)).domain := by
  intro d hd lo hi
  simp only [exAffine, List.mem_cons, List.mem_nil_iff, or_false] at hd
  rcases hd with rfl | rfl <;> simp

theorem exAbs_normalized : Compile.normalizedForBounds (exAbs : Model (Ext K)).constraints
    = some (exAbs : Model (Ext K)).constraints := by
  simp [Compile.normalizedForBounds, exAbs, exAbs_norm_var, exAbs_norm_abs]

theorem exAbs_declOK : DeclOK (exAbs : Model (Ext K)).domain := by
  refine ⟨by simp [exAbs], ?_, ?_, ?_, ?_⟩
  · intro d hd lo hi hty
    simp only [exAbs, List.mem_cons, List.mem_nil_iff, or_false] at hd
    rcases hd with rfl | rfl <;> simp at hty
  · intro d hd
    simp only [exAbs, List.mem_cons, List.mem_nil_iff, or_false] at hd
    rcases hd with rfl | rfl <;> simp [TyNoNaN]
  · intro d hd
    simp only [exAbs, List.mem_cons, List.mem_nil_iff, or_false] at hd
    rcases hd with rfl | rfl <;> simp [NNOK]
  · intro d hd hu
    simp only [exAbs, List.mem_cons, List.mem_nil_iff, or_false] at hd
    rcases hd with rfl | rfl <;> simp at hu

theorem exAbs_noInt : NoIntegerVars (exAbs : Model (Ext K)).domain := by
  intro d hd lo hi
  simp only [exAbs, List.mem_cons, List.mem_nil_iff, or_false] at hd
  rcases hd with rfl | rfl <;> simp

/-- the analyzer of the pipeline on `exAbs` with step limit 0: the declared box, limit flag raised. -/
theorem exAbs_analyzer (tol : Ext K) :
    (Analyzer.analyze (exAbs : Model (Ext K)).domain (exAbs : Model (Ext K)).constraints tol 0).enforceable
      (exAbs : Model (Ext K)).domain
    = { Analyzer.fromDomain (exAbs : Model (Ext K)).domain tol with reachedIterationLimit := true } := by
  have h1 : Analyzer.analyze (exAbs : Model (Ext K)).domain (exAbs : Model (Ext K)).constraints tol 0
      = { Analyzer.fromDomain (exAbs : Model (Ext K)).domain tol with reachedIterationLimit := true } := by
    simp [Analyzer.analyze, Analyzer.propagate, exAbs, Analyzer.propagateLoop, List.range, List.range.loop]
  rw [h1]
  simp [Analyzer.enforceable, Analyzer.emptyIntegerRange, Analyzer.roundIntegerRanges, Analyzer.roundStep,
    Analyzer.fromDomain, exAbs]

/-- `min y s.t. abs{x} ≤ y`, `x ∈ [-1, 2]` goes through the whole pipeline (auxiliary `$abs_0` declared), for every
tolerance, at step limit 0. -/
theorem exAbs_compile (tol : Ext K) : ∃ lm, Compile.linearize (exAbs : Model (Ext K)) tol 0 = .ok lm := by
  have hd : ({ Analyzer.fromDomain (exAbs : Model (Ext K)).domain tol with reachedIterationLimit := true } : Analyzer (Ext K)).applyToDomain
      (exAbs : Model (Ext K)).domain = (exAbs : Model (Ext K)).domain := by
    simp [Analyzer.applyToDomain, Analyzer.applyToVar, Analyzer.fromDomain, exAbs, AList.insert, AList.get?,
      Bounds.ofVarType]
  obtain ⟨lm, h⟩ := exAbs_ok_of (K := K)
    (Compile.toLinBounds ({ Analyzer.fromDomain (exAbs : Model (Ext K)).domain tol with reachedIterationLimit := true } : Analyzer (Ext K)).variableBounds)
    (by simp [Compile.toLinBounds, Analyzer.fromDomain, exAbs, AList.insert, Bounds.ofVarType, lookupB])
  refine ⟨lm, (compile_ok_iff _ _ _ _).mpr
    ⟨scratchOK_frag (ext := true) _ _ (by simp [exAbs, frag])
      (by intro c hc; simp only [exAbs, List.mem_singleton] at hc; subst hc; simp [frag]),
     { Analyzer.fromDomain (exAbs : Model (Ext K)).domain tol with reachedIterationLimit := true }, ?_, ?_⟩⟩
  · simp only [pipelineAnalyzer, exAbs_normalized, Option.map_some, exAbs_analyzer]
  · rw [hd]; exact h

end Rooc.LinP
