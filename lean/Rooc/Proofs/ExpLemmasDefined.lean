/-
Helper lemmas for C10 (after rooc 9f62afd): `simplify` does not create definedness.
* `finiteLits e`           : every literal of `e` is finite (syntactic, decidable);
* `finiteLits_simplify`    : preserved by `simplify` (exact arithmetic: no overflow);
* `Def_of_total`           : a term with finite literals for which the Rust guard `may_be_undefined`
                             answers `false` is defined at every assignment;
* `Def_of_Def_simplify`    : under `LogicOperands01` and `finiteLits`, if `simplify e` is defined at ρ
                             then so is `e` — the converse of `simplify_sound_aux`.
-/
import Rooc.Proofs.ExpLemmasSound
namespace Rooc
open Rooc.Exp Rooc.Sem
set_option linter.unusedSectionVars false

def isFin {K : Type} : Ext K → Bool
  | .fin _ => true
  | _ => false

mutual
/-- every literal is finite. -/
def finiteLits {K : Type} : Exp (Ext K) → Bool
  | .num x => isFin x
  | .var _ => true
  | .abs e => finiteLits e
  | .not e => finiteLits e
  | .un _ e => finiteLits e
  | .min es => finiteLitsL es
  | .max es => finiteLitsL es
  | .and es => finiteLitsL es
  | .or es => finiteLitsL es
  | .xor a b => finiteLits a && finiteLits b
  | .implies a b => finiteLits a && finiteLits b
  | .iff a b => finiteLits a && finiteLits b
  | .bin _ a b => finiteLits a && finiteLits b
def finiteLitsL {K : Type} : List (Exp (Ext K)) → Bool
  | [] => true
  | e :: es => finiteLits e && finiteLitsL es
end

theorem finiteLitsL_iff {K : Type} (es : List (Exp (Ext K))) :
    finiteLitsL es = true ↔ ∀ e ∈ es, finiteLits e = true := by
  induction es with
  | nil => simp [finiteLitsL]
  | cons e es ih => simp [finiteLitsL, ih]

theorem isFin_iff {K : Type} (x : Ext K) : isFin x = true ↔ ∃ k, x = .fin k := by
  cases x <;> simp [isFin]

section
variable {K : Type} [Field K] [LinearOrder K] [IsStrictOrderedRing K] [FloorRing K]

theorem finiteLits_mkNary (isAnd : Bool) (es : List (Exp (Ext K))) :
    finiteLits (mkNary isAnd es) = true ↔ ∀ e ∈ es, finiteLits e = true := by
  cases isAnd <;> simp [mkNary, finiteLits, finiteLitsL_iff]

theorem Def_num_of_finite {ρ : String → K} {x : Ext K} (h : finiteLits (.num x : Exp (Ext K)) = true) :
    Def ρ (.num x) := by
  simp only [finiteLits, isFin_iff] at h
  obtain ⟨k, rfl⟩ := h
  simp [Def, eval]

/-! ### `simplify` keeps literals finite -/

theorem finiteLits_addCore {l r : Exp (Ext K)} (hl : finiteLits l = true) (hr : finiteLits r = true) :
    finiteLits (addCore l r) = true := by
  unfold addCore; split
  · simp only [finiteLits, isFin_iff] at hl hr
    obtain ⟨a, rfl⟩ := hl; obtain ⟨b, rfl⟩ := hr
    simp [finiteLits, isFin]
  · split <;> simp_all [finiteLits]
  · split <;> simp_all [finiteLits]
  · simp_all [finiteLits]
theorem finiteLits_subCore {l r : Exp (Ext K)} (hl : finiteLits l = true) (hr : finiteLits r = true) :
    finiteLits (subCore l r) = true := by
  unfold subCore; split
  · simp only [finiteLits, isFin_iff] at hl hr
    obtain ⟨a, rfl⟩ := hl; obtain ⟨b, rfl⟩ := hr
    simp [finiteLits, isFin]
  · split <;> simp_all [finiteLits]
  · simp_all [finiteLits]
theorem finiteLits_mulCore {l r : Exp (Ext K)} (hl : finiteLits l = true) (hr : finiteLits r = true) :
    finiteLits (mulCore l r) = true := by
  unfold mulCore; split
  · simp only [finiteLits, isFin_iff] at hl hr
    obtain ⟨a, rfl⟩ := hl; obtain ⟨b, rfl⟩ := hr
    simp [finiteLits, isFin]
  · split
    · simp [finiteLits, isFin]
    · split
      · exact hr
      · split
        · exact hl
        · simp_all [finiteLits]
theorem finiteLits_divCore {l r : Exp (Ext K)} (hl : finiteLits l = true) (hr : finiteLits r = true) :
    finiteLits (divCore l r) = true := by
  unfold divCore; split
  · simp only [finiteLits, isFin_iff] at hl hr
    obtain ⟨a, rfl⟩ := hl; obtain ⟨b, rfl⟩ := hr
    split
    · simp [finiteLits, isFin]
    · rename_i hb
      have hb' : b ≠ 0 := by simpa using hb
      simp [finiteLits, isFin, arith_div_fin a b hb']
  · split
    · exact hl
    · simp_all [finiteLits]
theorem finiteLits_negCore {e : Exp (Ext K)} (h : finiteLits e = true) :
    finiteLits (negCore e) = true := by
  unfold negCore; split
  · simp only [finiteLits, isFin_iff] at h; obtain ⟨a, rfl⟩ := h; simp [finiteLits, isFin]
  · simpa [finiteLits] using h
theorem finiteLits_absCore {e : Exp (Ext K)} (h : finiteLits e = true) :
    finiteLits (absCore e) = true := by
  unfold absCore; split
  · simp only [finiteLits, isFin_iff] at h; obtain ⟨a, rfl⟩ := h
    simp only [finiteLits, Arith.abs, Ext.abs]; split <;> simp [isFin]
  · simpa [finiteLits] using h
theorem finiteLits_logicNumber (b : Bool) :
    finiteLits (.num (logicNumber b : Ext K) : Exp (Ext K)) = true := by
  cases b <;> simp [logicNumber, finiteLits, isFin]
theorem finiteLits_notCore {e : Exp (Ext K)} (h : finiteLits e = true) :
    finiteLits (notCore e) = true := by
  unfold notCore; split
  · exact finiteLits_logicNumber _
  · simpa [finiteLits] using h
theorem finiteLits_xorCore {a b : Exp (Ext K)} (ha : finiteLits a = true) (hb : finiteLits b = true) :
    finiteLits (xorCore a b) = true := by
  unfold xorCore; split
  · exact finiteLits_logicNumber _
  · simp [finiteLits, ha, hb]
theorem finiteLits_impliesCore {a b : Exp (Ext K)} (ha : finiteLits a = true)
    (hb : finiteLits b = true) : finiteLits (impliesCore a b) = true := by
  unfold impliesCore; split
  · exact finiteLits_logicNumber _
  · simp [finiteLits, ha, hb]
theorem finiteLits_iffCore {a b : Exp (Ext K)} (ha : finiteLits a = true) (hb : finiteLits b = true) :
    finiteLits (iffCore a b) = true := by
  unfold iffCore; split
  · exact finiteLits_logicNumber _
  · simp [finiteLits, ha, hb]

theorem nums_finite {ns : List (Ext K)} (h : ∀ e ∈ ns.map Exp.num, finiteLits e = true) :
    ∃ vs : List K, ns = vs.map Ext.fin := by
  induction ns with
  | nil => exact ⟨[], rfl⟩
  | cons x xs ih =>
    obtain ⟨vs, rfl⟩ := ih (fun e he => h e (by simp at he ⊢; exact Or.inr he))
    have := h (.num x) (by simp)
    simp only [finiteLits, isFin_iff] at this
    obtain ⟨k, rfl⟩ := this
    exact ⟨k :: vs, rfl⟩

theorem finiteLits_maxCore {cs : List (Exp (Ext K))} (hne : cs ≠ [])
    (h : ∀ c ∈ cs, finiteLits c = true) : finiteLits (maxCore cs) = true := by
  unfold maxCore; split
  · rename_i ns hn
    have := allNums_some hn; subst this
    obtain ⟨vs, rfl⟩ := nums_finite h
    cases vs with
    | nil => simp at hne
    | cons x xs =>
      have : Arith.fmax (Arith.negInf : Ext K) (Ext.fin x) = Ext.fin x := by
        simp [Arith.fmax, Arith.negInf, Ext.fmax, Ext.isNaN, Ext.lt]
      simp only [List.map_cons, List.foldl_cons, this, foldl_fmax_fin, finiteLits, isFin]
  · simp [finiteLits, finiteLitsL_iff]; exact h
theorem finiteLits_minCore {cs : List (Exp (Ext K))} (hne : cs ≠ [])
    (h : ∀ c ∈ cs, finiteLits c = true) : finiteLits (minCore cs) = true := by
  unfold minCore; split
  · rename_i ns hn
    have := allNums_some hn; subst this
    obtain ⟨vs, rfl⟩ := nums_finite h
    cases vs with
    | nil => simp at hne
    | cons x xs =>
      have : Arith.fmin (Arith.posInf : Ext K) (Ext.fin x) = Ext.fin x := by
        simp [Arith.fmin, Arith.posInf, Ext.fmin, Ext.isNaN, Ext.lt]
      simp only [List.map_cons, List.foldl_cons, this, foldl_fmin_fin, finiteLits, isFin]
  · simp [finiteLits, finiteLitsL_iff]; exact h

theorem finiteLits_flatten {isAnd : Bool} {cs : List (Exp (Ext K))}
    (h : ∀ c ∈ cs, finiteLits c = true) : ∀ x ∈ naryFlatten isAnd cs, finiteLits x = true := by
  intro x hx
  rcases mem_naryFlatten.1 hx with ⟨h1, _⟩ | ⟨inner, h1, h2⟩
  · exact h x h1
  · exact (finiteLits_mkNary isAnd inner).1 (h _ h1) x h2

theorem finiteLits_naryCore (isAnd : Bool) {cs : List (Exp (Ext K))}
    (h : ∀ c ∈ cs, finiteLits c = true) : finiteLits (naryCore isAnd cs) = true := by
  have hF := finiteLits_flatten (isAnd := isAnd) h
  have hres : ∀ res, naryStep isAnd (naryFlatten isAnd cs) = some res →
      ∀ x ∈ res, finiteLits x = true := by
    intro res hs x hx
    obtain ⟨q, hq, _, _⟩ := naryStep_some hs
    rw [hq, List.mem_filter] at hx
    exact hF x hx.1
  rcases naryCore_cases isAnd cs with ⟨_, h2⟩ | ⟨_, h2⟩ | ⟨e, h1, h2⟩ | ⟨res, h1, _, h2⟩
  · rw [h2]; cases isAnd <;> simp [finiteLits, isFin]
  · rw [h2]; exact finiteLits_logicNumber _
  · rw [h2]; exact hres _ h1 e (by simp)
  · rw [h2, finiteLits_mkNary]; exact hres _ h1

theorem finiteLits_binCore (op : BinOp) {l r : Exp (Ext K)} (hl : finiteLits l = true)
    (hr : finiteLits r = true) : finiteLits (binCore op l r) = true := by
  cases op with
  | add => exact finiteLits_addCore hl hr
  | sub => exact finiteLits_subCore hl hr
  | mul => exact finiteLits_mulCore hl hr
  | div => exact finiteLits_divCore hl hr
  | and => exact finiteLits_naryCore true (by simp [hl, hr])
  | or => exact finiteLits_naryCore false (by simp [hl, hr])
  | xor => exact finiteLits_xorCore hl hr
  | implies => exact finiteLits_impliesCore hl hr
  | iff => exact finiteLits_iffCore hl hr

theorem finiteLits_simplify (e : Exp (Ext K)) : finiteLits e = true → finiteLits (simplify e) = true := by
  induction e using Exp.ind with
  | num v => intro h; rwa [simplify_num]
  | var s => intro h; rwa [simplify_var]
  | abs e ih => intro h; rw [simplify_abs]; exact finiteLits_absCore (ih (by simpa [finiteLits] using h))
  | min es ih =>
    intro h; simp only [finiteLits, finiteLitsL_iff] at h
    rw [simplify_min]; split
    · simp [finiteLits, finiteLitsL]
    · exact finiteLits_minCore (by simpa using ‹¬ es = []›) (by
        intro c hc; obtain ⟨e, he, rfl⟩ := List.mem_map.1 hc; exact ih e he (h e he))
  | max es ih =>
    intro h; simp only [finiteLits, finiteLitsL_iff] at h
    rw [simplify_max]; split
    · simp [finiteLits, finiteLitsL]
    · exact finiteLits_maxCore (by simpa using ‹¬ es = []›) (by
        intro c hc; obtain ⟨e, he, rfl⟩ := List.mem_map.1 hc; exact ih e he (h e he))
  | and es ih =>
    intro h; simp only [finiteLits, finiteLitsL_iff] at h
    rw [simplify_and]; exact finiteLits_naryCore true (by
      intro c hc; obtain ⟨e, he, rfl⟩ := List.mem_map.1 hc; exact ih e he (h e he))
  | or es ih =>
    intro h; simp only [finiteLits, finiteLitsL_iff] at h
    rw [simplify_or]; exact finiteLits_naryCore false (by
      intro c hc; obtain ⟨e, he, rfl⟩ := List.mem_map.1 hc; exact ih e he (h e he))
  | not e ih => intro h; rw [simplify_not]; exact finiteLits_notCore (ih (by simpa [finiteLits] using h))
  | xor a b iha ihb =>
    intro h; simp only [finiteLits, Bool.and_eq_true] at h
    rw [simplify_xor]; exact finiteLits_xorCore (iha h.1) (ihb h.2)
  | implies a b iha ihb =>
    intro h; simp only [finiteLits, Bool.and_eq_true] at h
    rw [simplify_implies]; exact finiteLits_impliesCore (iha h.1) (ihb h.2)
  | iff a b iha ihb =>
    intro h; simp only [finiteLits, Bool.and_eq_true] at h
    rw [simplify_iff]; exact finiteLits_iffCore (iha h.1) (ihb h.2)
  | bin op a b iha ihb =>
    intro h; simp only [finiteLits, Bool.and_eq_true] at h
    rw [simplify_bin]; exact finiteLits_binCore op (iha h.1) (ihb h.2)
  | un op e ih =>
    intro h
    have h' : finiteLits e = true := by simpa [finiteLits] using h
    cases op with
    | neg => rw [simplify_neg]; exact finiteLits_negCore (ih h')
    | not => rw [simplify_unot]; exact finiteLits_notCore (ih h')

/-! ### what the Rust guard `may_be_undefined` guarantees -/

theorem Def_bin_of {ρ : String → K} {op : BinOp} {a b : Exp (Ext K)} (ha : Def ρ a) (hb : Def ρ b)
    (hdiv : op = .div → val ρ b ≠ 0) : Def ρ (.bin op a b) := by
  unfold Def
  simp only [eval, eval_of_Def ha, eval_of_Def hb]
  cases op <;> simp [binVal]
  simpa using hdiv rfl

theorem Def_list_iff {ρ : String → K} {es : List (Exp (Ext K))} :
    (evalList ρ es).isSome ↔ ∀ e ∈ es, Def ρ e := by
  constructor
  · intro h
    obtain ⟨vs, hvs⟩ := Option.isSome_iff_exists.1 h
    exact (evalList_some_iff.1 hvs).1
  · intro h
    rw [evalList_some_iff.2 ⟨h, rfl⟩]; rfl

theorem Def_minmax_iff {ρ : String → K} {es : List (Exp (Ext K))} :
    (Def ρ (.min es) ↔ es ≠ [] ∧ ∀ e ∈ es, Def ρ e) ∧
    (Def ρ (.max es) ↔ es ≠ [] ∧ ∀ e ∈ es, Def ρ e) := by
  have key : ∀ (f : K → K → K),
      ((match evalList ρ es with
        | some (x :: xs) => some (xs.foldl f x)
        | _ => none : Option K).isSome ↔ es ≠ [] ∧ ∀ e ∈ es, Def ρ e) := by
    intro f
    constructor
    · intro h
      split at h
      · rename_i x xs hx
        refine ⟨?_, (evalList_some_iff.1 hx).1⟩
        rintro rfl; simp [evalList] at hx
      · cases h
    · rintro ⟨hne, hd⟩
      rw [evalList_some_iff.2 ⟨hd, rfl⟩]
      cases es with
      | nil => exact absurd rfl hne
      | cons e es => simp
  exact ⟨by unfold Def; simp only [eval]; exact key _, by unfold Def; simp only [eval]; exact key _⟩

theorem Def_nary_iff {ρ : String → K} (isAnd : Bool) {es : List (Exp (Ext K))} :
    Def ρ (mkNary isAnd es) ↔ ∀ e ∈ es, Def ρ e := by
  constructor
  · intro h; exact ((eval_nary_iff isAnd).1 (eval_of_Def h)).1
  · intro h; exact Def_of_eval ((eval_nary_iff isAnd).2 ⟨h, rfl⟩)

theorem Def_un_iff {ρ : String → K} (e : Exp (Ext K)) :
    (Def ρ (.abs e) ↔ Def ρ e) ∧ (Def ρ (.not e) ↔ Def ρ e) ∧ (∀ op, Def ρ (.un op e) ↔ Def ρ e) := by
  refine ⟨?_, ?_, fun op => ?_⟩
  · unfold Def; simp [eval]
  · unfold Def; simp [eval]
  · unfold Def; cases op <;> simp [eval]

theorem Def_bin_inv {ρ : String → K} {op : BinOp} {a b : Exp (Ext K)} (h : Def ρ (.bin op a b)) :
    Def ρ a ∧ Def ρ b ∧ (op = .div → val ρ b ≠ 0) := by
  obtain ⟨x, y, hx, hy, hxy⟩ := eval_bin_some (eval_of_Def h)
  refine ⟨Def_of_eval hx, Def_of_eval hy, ?_⟩
  rintro rfl
  rw [val_of_eval hy]
  intro hy0; subst hy0; simp [binVal] at hxy

theorem Def_xorlike_iff {ρ : String → K} (a b : Exp (Ext K)) :
    (Def ρ (.xor a b) ↔ Def ρ a ∧ Def ρ b) ∧ (Def ρ (.implies a b) ↔ Def ρ a ∧ Def ρ b) ∧
    (Def ρ (.iff a b) ↔ Def ρ a ∧ Def ρ b) := by
  unfold Def
  simp only [eval]
  cases eval ρ a <;> cases eval ρ b <;> simp [binVal]

/-- finite literals + the guard says "defined everywhere" ⇒ defined at every assignment. -/
theorem Def_of_total (ρ : String → K) (e : Exp (Ext K)) :
    finiteLits e = true → mayBeUndefined e = false → Def ρ e := by
  induction e using Exp.ind with
  | num x => intro h _; exact Def_num_of_finite h
  | var s => intro _ _; simp [Def, eval]
  | abs e ih =>
    intro h hu; simp only [finiteLits] at h; simp only [mayBeUndefined] at hu
    exact (Def_un_iff e).1.2 (ih h hu)
  | min es ih =>
    intro h hu
    simp only [finiteLits, finiteLitsL_iff] at h
    simp only [mayBeUndefined, Bool.or_eq_false_iff, List.isEmpty_eq_false_iff] at hu
    refine Def_minmax_iff.1.2 ⟨hu.1, fun e he => ih e he (h e he) ?_⟩
    by_contra hc
    have := (mayBeUndefinedAny_iff es).2 ⟨e, he, by simpa using hc⟩
    rw [hu.2] at this; cases this
  | max es ih =>
    intro h hu
    simp only [finiteLits, finiteLitsL_iff] at h
    simp only [mayBeUndefined, Bool.or_eq_false_iff, List.isEmpty_eq_false_iff] at hu
    refine Def_minmax_iff.2.2 ⟨hu.1, fun e he => ih e he (h e he) ?_⟩
    by_contra hc
    have := (mayBeUndefinedAny_iff es).2 ⟨e, he, by simpa using hc⟩
    rw [hu.2] at this; cases this
  | and es ih =>
    intro h hu
    simp only [finiteLits, finiteLitsL_iff] at h
    simp only [mayBeUndefined] at hu
    refine (Def_nary_iff true).2 (fun e he => ih e he (h e he) ?_)
    by_contra hc
    have := (mayBeUndefinedAny_iff es).2 ⟨e, he, by simpa using hc⟩
    rw [hu] at this; cases this
  | or es ih =>
    intro h hu
    simp only [finiteLits, finiteLitsL_iff] at h
    simp only [mayBeUndefined] at hu
    refine (Def_nary_iff false).2 (fun e he => ih e he (h e he) ?_)
    by_contra hc
    have := (mayBeUndefinedAny_iff es).2 ⟨e, he, by simpa using hc⟩
    rw [hu] at this; cases this
  | not e ih =>
    intro h hu; simp only [finiteLits] at h; simp only [mayBeUndefined] at hu
    exact (Def_un_iff e).2.1.2 (ih h hu)
  | xor a b iha ihb =>
    intro h hu
    simp only [finiteLits, Bool.and_eq_true] at h
    simp only [mayBeUndefined, Bool.or_eq_false_iff] at hu
    exact (Def_xorlike_iff a b).1.2 ⟨iha h.1 hu.1, ihb h.2 hu.2⟩
  | implies a b iha ihb =>
    intro h hu
    simp only [finiteLits, Bool.and_eq_true] at h
    simp only [mayBeUndefined, Bool.or_eq_false_iff] at hu
    exact (Def_xorlike_iff a b).2.1.2 ⟨iha h.1 hu.1, ihb h.2 hu.2⟩
  | iff a b iha ihb =>
    intro h hu
    simp only [finiteLits, Bool.and_eq_true] at h
    simp only [mayBeUndefined, Bool.or_eq_false_iff] at hu
    exact (Def_xorlike_iff a b).2.2.2 ⟨iha h.1 hu.1, ihb h.2 hu.2⟩
  | bin op a b iha ihb =>
    intro h hu
    simp only [finiteLits, Bool.and_eq_true] at h
    by_cases hop : op = .div
    · subst hop
      simp only [mayBeUndefined, Bool.or_eq_false_iff, Bool.not_eq_false'] at hu
      refine Def_bin_of (iha h.1 hu.1.2) (ihb h.2 hu.2) (fun _ => ?_)
      -- the divisor is a non-zero finite literal
      obtain ⟨⟨hnz, _⟩, _⟩ := hu
      cases b <;> simp [isNonzeroLit] at hnz
      rename_i d
      have hd := h.2
      simp only [finiteLits, isFin_iff] at hd
      obtain ⟨k, rfl⟩ := hd
      simp only [Arith.ne, arith_eq_fin, Bool.not_eq_true', decide_eq_false_iff_not] at hnz
      simpa [val, eval] using hnz
    · have hu' : mayBeUndefined a = false ∧ mayBeUndefined b = false := by
        cases op <;> simp_all [mayBeUndefined]
      exact Def_bin_of (iha h.1 hu'.1) (ihb h.2 hu'.2) (fun h' => absurd h' hop)
  | un op e ih =>
    intro h hu; simp only [finiteLits] at h; simp only [mayBeUndefined] at hu
    exact ((Def_un_iff e).2.2 op).2 (ih h hu)

/-! ### inversion: a defined result of a node-level rule has defined operands -/

theorem Def_addCore_inv {ρ : String → K} {l r : Exp (Ext K)} (hl : finiteLits l = true)
    (hr : finiteLits r = true) (h : Def ρ (addCore l r)) : Def ρ l ∧ Def ρ r := by
  unfold addCore at h; split at h
  · exact ⟨Def_num_of_finite hl, Def_num_of_finite hr⟩
  · split at h
    · exact ⟨Def_num_of_finite hl, h⟩
    · exact ⟨(Def_bin_inv h).1, (Def_bin_inv h).2.1⟩
  · split at h
    · exact ⟨h, Def_num_of_finite hr⟩
    · exact ⟨(Def_bin_inv h).1, (Def_bin_inv h).2.1⟩
  · exact ⟨(Def_bin_inv h).1, (Def_bin_inv h).2.1⟩

theorem Def_subCore_inv {ρ : String → K} {l r : Exp (Ext K)} (hl : finiteLits l = true)
    (hr : finiteLits r = true) (h : Def ρ (subCore l r)) : Def ρ l ∧ Def ρ r := by
  unfold subCore at h; split at h
  · exact ⟨Def_num_of_finite hl, Def_num_of_finite hr⟩
  · split at h
    · exact ⟨h, Def_num_of_finite hr⟩
    · exact ⟨(Def_bin_inv h).1, (Def_bin_inv h).2.1⟩
  · exact ⟨(Def_bin_inv h).1, (Def_bin_inv h).2.1⟩

theorem isNumEq_num {l : Exp (Ext K)} {c : Ext K} (h : isNumEq l c = true) : ∃ v, l = .num v := by
  cases l <;> simp_all [isNumEq]

theorem Def_mulCore_inv {ρ : String → K} {l r : Exp (Ext K)} (hl : finiteLits l = true)
    (hr : finiteLits r = true) (h : Def ρ (mulCore l r)) : Def ρ l ∧ Def ρ r := by
  unfold mulCore at h; split at h
  · exact ⟨Def_num_of_finite hl, Def_num_of_finite hr⟩
  · split at h
    · rename_i hz
      simp only [Bool.or_eq_true, Bool.and_eq_true, Bool.not_eq_true'] at hz
      rcases hz with ⟨hz, hu⟩ | ⟨hz, hu⟩
      · obtain ⟨v, rfl⟩ := isNumEq_num hz
        exact ⟨Def_num_of_finite hl, Def_of_total ρ r hr hu⟩
      · obtain ⟨v, rfl⟩ := isNumEq_num hz
        exact ⟨Def_of_total ρ l hl hu, Def_num_of_finite hr⟩
    · split at h
      · rename_i h1; obtain ⟨v, rfl⟩ := isNumEq_num h1
        exact ⟨Def_num_of_finite hl, h⟩
      · split at h
        · rename_i h1; obtain ⟨v, rfl⟩ := isNumEq_num h1
          exact ⟨h, Def_num_of_finite hr⟩
        · exact ⟨(Def_bin_inv h).1, (Def_bin_inv h).2.1⟩

theorem Def_divCore_inv {ρ : String → K} {l r : Exp (Ext K)} (hl : finiteLits l = true)
    (hr : finiteLits r = true) (h : Def ρ (divCore l r)) : Def ρ l ∧ Def ρ r ∧ val ρ r ≠ 0 := by
  unfold divCore at h; split at h
  · split at h
    · exact ⟨(Def_bin_inv h).1, (Def_bin_inv h).2.1, (Def_bin_inv h).2.2 rfl⟩
    · rename_i a b hb
      refine ⟨Def_num_of_finite hl, Def_num_of_finite hr, ?_⟩
      simp only [finiteLits, isFin_iff] at hr
      obtain ⟨k, rfl⟩ := hr
      simpa [val, eval] using hb
  · split at h
    · rename_i h1
      rw [isNumEq_one_iff] at h1; subst h1
      exact ⟨h, by simp [Def, eval], by simp [val, eval]⟩
    · exact ⟨(Def_bin_inv h).1, (Def_bin_inv h).2.1, (Def_bin_inv h).2.2 rfl⟩

theorem Def_negCore_inv {ρ : String → K} {e : Exp (Ext K)} (he : finiteLits e = true)
    (h : Def ρ (negCore e)) : Def ρ e := by
  unfold negCore at h; split at h
  · exact Def_num_of_finite he
  · exact ((Def_un_iff e).2.2 _).1 h
theorem Def_absCore_inv {ρ : String → K} {e : Exp (Ext K)} (he : finiteLits e = true)
    (h : Def ρ (absCore e)) : Def ρ e := by
  unfold absCore at h; split at h
  · exact Def_num_of_finite he
  · exact (Def_un_iff e).1.1 h
theorem Def_notCore_inv {ρ : String → K} {e : Exp (Ext K)} (he : finiteLits e = true)
    (h : Def ρ (notCore e)) : Def ρ e := by
  unfold notCore at h; split at h
  · exact Def_num_of_finite he
  · exact (Def_un_iff e).2.1.1 h
theorem Def_xorCore_inv {ρ : String → K} {a b : Exp (Ext K)} (ha : finiteLits a = true)
    (hb : finiteLits b = true) (h : Def ρ (xorCore a b)) : Def ρ a ∧ Def ρ b := by
  unfold xorCore at h; split at h
  · exact ⟨Def_num_of_finite ha, Def_num_of_finite hb⟩
  · exact (Def_xorlike_iff a b).1.1 h
theorem Def_impliesCore_inv {ρ : String → K} {a b : Exp (Ext K)} (ha : finiteLits a = true)
    (hb : finiteLits b = true) (h : Def ρ (impliesCore a b)) : Def ρ a ∧ Def ρ b := by
  unfold impliesCore at h; split at h
  · exact ⟨Def_num_of_finite ha, Def_num_of_finite hb⟩
  · exact (Def_xorlike_iff a b).2.1.1 h
theorem Def_iffCore_inv {ρ : String → K} {a b : Exp (Ext K)} (ha : finiteLits a = true)
    (hb : finiteLits b = true) (h : Def ρ (iffCore a b)) : Def ρ a ∧ Def ρ b := by
  unfold iffCore at h; split at h
  · exact ⟨Def_num_of_finite ha, Def_num_of_finite hb⟩
  · exact (Def_xorlike_iff a b).2.2.1 h

theorem Def_maxCore_inv {ρ : String → K} {cs : List (Exp (Ext K))}
    (hf : ∀ c ∈ cs, finiteLits c = true) (h : Def ρ (maxCore cs)) : ∀ c ∈ cs, Def ρ c := by
  unfold maxCore at h; split at h
  · rename_i ns hn
    have := allNums_some hn; subst this
    intro c hc
    obtain ⟨x, _, rfl⟩ := List.mem_map.1 hc
    exact Def_num_of_finite (hf _ hc)
  · exact (Def_minmax_iff.2.1 h).2
theorem Def_minCore_inv {ρ : String → K} {cs : List (Exp (Ext K))}
    (hf : ∀ c ∈ cs, finiteLits c = true) (h : Def ρ (minCore cs)) : ∀ c ∈ cs, Def ρ c := by
  unfold minCore at h; split at h
  · rename_i ns hn
    have := allNums_some hn; subst this
    intro c hc
    obtain ⟨x, _, rfl⟩ := List.mem_map.1 hc
    exact Def_num_of_finite (hf _ hc)
  · exact (Def_minmax_iff.1.1 h).2

theorem Def_naryCore_inv {ρ : String → K} (isAnd : Bool) {cs : List (Exp (Ext K))}
    (hf : ∀ c ∈ cs, finiteLits c = true) (h : Def ρ (naryCore isAnd cs)) : ∀ c ∈ cs, Def ρ c := by
  have hfF := finiteLits_flatten (isAnd := isAnd) hf
  -- every flattened operand is defined
  have hF : ∀ x ∈ naryFlatten isAnd cs, Def ρ x := by
    rcases naryCore_cases isAnd cs with ⟨h1, _⟩ | ⟨h1, h2⟩ | ⟨e, h1, h2⟩ | ⟨res, h1, _, h2⟩
    · intro x hx
      refine Def_of_total ρ x (hfF x hx) ?_
      by_contra hc
      have := (mayBeUndefinedAny_iff _).2 ⟨x, hx, by simpa using hc⟩
      rw [(naryStep_none h1).1] at this; cases this
    all_goals
      intro x hx
      obtain ⟨q, hq, hdrop, _⟩ := naryStep_some h1
      by_cases hqx : q x = true
      · have hxr : x ∈ (naryFlatten isAnd cs).filter q := List.mem_filter.2 ⟨hx, hqx⟩
        rw [← hq] at hxr
        first
          | (simp at hxr; done)
          | (simp only [List.mem_singleton] at hxr; subst hxr; rw [h2] at h; exact h)
          | (rw [h2] at h; exact (Def_nary_iff isAnd).1 h x hxr)
      · obtain ⟨v, rfl, _⟩ := hdrop x hx (by simpa using hqx)
        exact Def_num_of_finite (hfF _ hx)
  intro c hc
  rcases isSameKind_cases isAnd c with hk | ⟨inner, rfl⟩
  · exact hF c (mem_naryFlatten.2 (Or.inl ⟨hc, hk⟩))
  · exact (Def_nary_iff isAnd).2 (fun x hx => hF x (mem_naryFlatten.2 (Or.inr ⟨inner, hc, hx⟩)))

/-! ### the converse of value preservation -/

theorem finiteLits_map_simplify {es : List (Exp (Ext K))} (h : ∀ e ∈ es, finiteLits e = true) :
    ∀ c ∈ es.map simplify, finiteLits c = true := by
  intro c hc; obtain ⟨e, he, rfl⟩ := List.mem_map.1 hc; exact finiteLits_simplify e (h e he)

/-- immediate sub-expressions. -/
def Exp.children {α : Type} : Exp α → List (Exp α)
  | .num _ => []
  | .var _ => []
  | .abs e => [e]
  | .not e => [e]
  | .un _ e => [e]
  | .min es => es
  | .max es => es
  | .and es => es
  | .or es => es
  | .xor a b => [a, b]
  | .implies a b => [a, b]
  | .iff a b => [a, b]
  | .bin _ a b => [a, b]

/-- `simplify` creates no definedness on any class `P` of expressions that is closed under taking
sub-expressions and on which `simplify` is forward-sound at `ρ` (finite literals assumed). -/
theorem Def_of_Def_simplify_gen (ρ : String → K) (P : Exp (Ext K) → Prop)
    (hsub : ∀ e c, c ∈ Exp.children e → P e → P c)
    (hfwd : ∀ e v, P e → eval ρ e = some v → eval ρ (simplify e) = some v) (e : Exp (Ext K)) :
    P e → finiteLits e = true → Def ρ (simplify e) → Def ρ e := by
  induction e using Exp.ind with
  | num x => intro _ _ h; rwa [simplify_num] at h
  | var s => intro _ _ _; simp [Def, eval]
  | abs e ih =>
    intro hl hf h
    simp only [finiteLits] at hf
    rw [simplify_abs] at h
    exact (Def_un_iff e).1.2 (ih (hsub _ _ (by simp [Exp.children]) hl) hf (Def_absCore_inv (finiteLits_simplify e hf) h))
  | min es ih =>
    intro hl hf h
    simp only [finiteLits, finiteLitsL_iff] at hf
    rw [simplify_min] at h
    split at h
    · subst ‹es = []›; exact h
    · rename_i hne
      have := Def_minCore_inv (finiteLits_map_simplify hf) h
      exact Def_minmax_iff.1.2 ⟨hne, fun e he =>
        ih e he (hsub _ _ (by simpa [Exp.children] using he) hl) (hf e he) (this _ (List.mem_map.2 ⟨e, he, rfl⟩))⟩
  | max es ih =>
    intro hl hf h
    simp only [finiteLits, finiteLitsL_iff] at hf
    rw [simplify_max] at h
    split at h
    · subst ‹es = []›; exact h
    · rename_i hne
      have := Def_maxCore_inv (finiteLits_map_simplify hf) h
      exact Def_minmax_iff.2.2 ⟨hne, fun e he =>
        ih e he (hsub _ _ (by simpa [Exp.children] using he) hl) (hf e he) (this _ (List.mem_map.2 ⟨e, he, rfl⟩))⟩
  | and es ih =>
    intro hl hf h
    simp only [finiteLits, finiteLitsL_iff] at hf
    rw [simplify_and] at h
    have := Def_naryCore_inv true (finiteLits_map_simplify hf) h
    exact (Def_nary_iff true).2 (fun e he =>
      ih e he (hsub _ _ (by simpa [Exp.children] using he) hl) (hf e he) (this _ (List.mem_map.2 ⟨e, he, rfl⟩)))
  | or es ih =>
    intro hl hf h
    simp only [finiteLits, finiteLitsL_iff] at hf
    rw [simplify_or] at h
    have := Def_naryCore_inv false (finiteLits_map_simplify hf) h
    exact (Def_nary_iff false).2 (fun e he =>
      ih e he (hsub _ _ (by simpa [Exp.children] using he) hl) (hf e he) (this _ (List.mem_map.2 ⟨e, he, rfl⟩)))
  | not e ih =>
    intro hl hf h
    simp only [finiteLits] at hf
    rw [simplify_not] at h
    exact (Def_un_iff e).2.1.2 (ih (hsub _ _ (by simp [Exp.children]) hl) hf (Def_notCore_inv (finiteLits_simplify e hf) h))
  | xor a b iha ihb =>
    intro hl hf h
    simp only [finiteLits, Bool.and_eq_true] at hf
    rw [simplify_xor] at h
    have := Def_xorCore_inv (finiteLits_simplify a hf.1) (finiteLits_simplify b hf.2) h
    exact (Def_xorlike_iff a b).1.2 ⟨iha (hsub _ _ (by simp [Exp.children]) hl) hf.1 this.1, ihb (hsub _ _ (by simp [Exp.children]) hl) hf.2 this.2⟩
  | implies a b iha ihb =>
    intro hl hf h
    simp only [finiteLits, Bool.and_eq_true] at hf
    rw [simplify_implies] at h
    have := Def_impliesCore_inv (finiteLits_simplify a hf.1) (finiteLits_simplify b hf.2) h
    exact (Def_xorlike_iff a b).2.1.2 ⟨iha (hsub _ _ (by simp [Exp.children]) hl) hf.1 this.1, ihb (hsub _ _ (by simp [Exp.children]) hl) hf.2 this.2⟩
  | iff a b iha ihb =>
    intro hl hf h
    simp only [finiteLits, Bool.and_eq_true] at hf
    rw [simplify_iff] at h
    have := Def_iffCore_inv (finiteLits_simplify a hf.1) (finiteLits_simplify b hf.2) h
    exact (Def_xorlike_iff a b).2.2.2 ⟨iha (hsub _ _ (by simp [Exp.children]) hl) hf.1 this.1, ihb (hsub _ _ (by simp [Exp.children]) hl) hf.2 this.2⟩
  | bin op a b iha ihb =>
    intro hl hf h
    simp only [finiteLits, Bool.and_eq_true] at hf
    rw [simplify_bin] at h
    have hfa := finiteLits_simplify a hf.1
    have hfb := finiteLits_simplify b hf.2
    -- operands of the simplified node are defined (and the divisor non-zero)
    have key : Def ρ (simplify a) ∧ Def ρ (simplify b) ∧ (op = .div → val ρ (simplify b) ≠ 0) := by
      cases op with
      | add => exact ⟨(Def_addCore_inv hfa hfb h).1, (Def_addCore_inv hfa hfb h).2, by simp⟩
      | sub => exact ⟨(Def_subCore_inv hfa hfb h).1, (Def_subCore_inv hfa hfb h).2, by simp⟩
      | mul => exact ⟨(Def_mulCore_inv hfa hfb h).1, (Def_mulCore_inv hfa hfb h).2, by simp⟩
      | div =>
        have := Def_divCore_inv hfa hfb h
        exact ⟨this.1, this.2.1, fun _ => this.2.2⟩
      | and =>
        have := Def_naryCore_inv true (cs := [simplify a, simplify b])
          (by intro c hc; simp at hc; rcases hc with rfl | rfl <;> assumption) h
        exact ⟨this _ (by simp), this _ (by simp), by simp⟩
      | or =>
        have := Def_naryCore_inv false (cs := [simplify a, simplify b])
          (by intro c hc; simp at hc; rcases hc with rfl | rfl <;> assumption) h
        exact ⟨this _ (by simp), this _ (by simp), by simp⟩
      | xor => exact ⟨(Def_xorCore_inv hfa hfb h).1, (Def_xorCore_inv hfa hfb h).2, by simp⟩
      | implies => exact ⟨(Def_impliesCore_inv hfa hfb h).1, (Def_impliesCore_inv hfa hfb h).2, by simp⟩
      | iff => exact ⟨(Def_iffCore_inv hfa hfb h).1, (Def_iffCore_inv hfa hfb h).2, by simp⟩
    have hPb : P b := hsub _ _ (by simp [Exp.children]) hl
    have hda := iha (hsub _ _ (by simp [Exp.children]) hl) hf.1 key.1
    have hdb := ihb hPb hf.2 key.2.1
    refine Def_bin_of hda hdb (fun hop => ?_)
    -- the divisor keeps its value (forward soundness)
    have := hfwd b _ hPb (eval_of_Def hdb)
    rw [← val_of_eval this]; exact key.2.2 hop
  | un op e ih =>
    intro hl hf h
    simp only [finiteLits] at hf
    cases op with
    | neg =>
      rw [simplify_neg] at h
      exact ((Def_un_iff e).2.2 _).2 (ih (hsub _ _ (by simp [Exp.children]) hl) hf (Def_negCore_inv (finiteLits_simplify e hf) h))
    | not =>
      rw [simplify_unot] at h
      exact ((Def_un_iff e).2.2 _).2 (ih (hsub _ _ (by simp [Exp.children]) hl) hf (Def_notCore_inv (finiteLits_simplify e hf) h))

theorem LO_children (ρ : String → K) (e c : Exp (Ext K)) (hc : c ∈ Exp.children e)
    (h : LogicOperands01 ρ e) : LogicOperands01 ρ c := by
  cases e with
  | num _ => simp [Exp.children] at hc
  | var _ => simp [Exp.children] at hc
  | abs e => simp [Exp.children] at hc; subst hc; simpa [LogicOperands01] using h
  | not e => simp [Exp.children] at hc; subst hc; simpa [LogicOperands01] using h
  | un op e => simp [Exp.children] at hc; subst hc; simpa [LogicOperands01] using h
  | min es => simp only [LogicOperands01, LogicOperands01List_iff] at h; exact h c hc
  | max es => simp only [LogicOperands01, LogicOperands01List_iff] at h; exact h c hc
  | and es => simp only [LogicOperands01, LogicOperands01List_iff] at h; exact h.1 c hc
  | or es => simp only [LogicOperands01, LogicOperands01List_iff] at h; exact h.1 c hc
  | xor a b =>
    simp only [LogicOperands01] at h; simp [Exp.children] at hc
    rcases hc with rfl | rfl; exact h.1; exact h.2
  | implies a b =>
    simp only [LogicOperands01] at h; simp [Exp.children] at hc
    rcases hc with rfl | rfl; exact h.1; exact h.2
  | iff a b =>
    simp only [LogicOperands01] at h; simp [Exp.children] at hc
    rcases hc with rfl | rfl; exact h.1; exact h.2
  | bin op a b =>
    simp only [LogicOperands01] at h; simp [Exp.children] at hc
    rcases hc with rfl | rfl; exact h.1; exact h.2.1

/-- Under `LogicOperands01` and finite literals, `simplify` creates no definedness. -/
theorem Def_of_Def_simplify (ρ : String → K) (e : Exp (Ext K)) :
    LogicOperands01 ρ e → finiteLits e = true → Def ρ (simplify e) → Def ρ e :=
  Def_of_Def_simplify_gen ρ (LogicOperands01 ρ) (LO_children ρ)
    (fun e v h hv => (simplify_sound_aux ρ e h v hv).1) e

/-- value preservation in both directions: same definedness, same value. -/
theorem simplify_eval_eq (ρ : String → K) (e : Exp (Ext K))
    (hl : LogicOperands01 ρ e) (hf : finiteLits e = true) : eval ρ (simplify e) = eval ρ e := by
  cases h : eval ρ e with
  | some v => exact (simplify_sound_aux ρ e hl v h).1
  | none =>
    cases h' : eval ρ (simplify e) with
    | none => rfl
    | some w =>
      have := Def_of_Def_simplify ρ e hl hf (Def_of_eval h')
      unfold Def at this; rw [h] at this; cases this

end
end Rooc
