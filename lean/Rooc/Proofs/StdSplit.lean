/-
Linear algebra of the free-variable split: `rowVal` over `keep fl r ++ pairs pm fl r`, the forward image
`p = max x 0`, `m = max (−x) 0` and the backward map `x = p − m`.
-/
import Rooc.Proofs.StdLayout
namespace Rooc
namespace StdSplit
variable {K : Type} [Field K] [LinearOrder K] [IsStrictOrderedRing K] [FloorRing K]
open StdSem StdLayout Standardize

@[simp] theorem toK_fin (k : K) : toK (Ext.fin k) = k := rfl
@[simp] theorem toK_zero : toK (Arith.zero : Ext K) = 0 := by simp [Arith.zero, Arith.ofInt, toK]
@[simp] theorem toK_one : toK (Arith.one : Ext K) = 1 := by simp [Arith.one, Arith.ofInt, toK]
@[simp] theorem toK_negOne : toK (Arith.ofInt (-1) : Ext K) = -1 := by simp [Arith.ofInt, toK]

theorem isFin_iff {c : Ext K} : isFin c ↔ ∃ k, c = .fin k := by
  cases c <;> simp [isFin]

theorem toK_neg {c : Ext K} (h : isFin c) : toK (Arith.neg c) = -toK c := by
  obtain ⟨k, rfl⟩ := isFin_iff.1 h; simp [Arith.neg, Ext.neg]
theorem isFin_neg {c : Ext K} (h : isFin c) : isFin (Arith.neg c) := by
  obtain ⟨k, rfl⟩ := isFin_iff.1 h; simp [Arith.neg, Ext.neg, isFin]
theorem toK_mul_negOne {c : Ext K} (h : isFin c) : toK (Arith.mul c (Arith.ofInt (-1))) = -toK c := by
  obtain ⟨k, rfl⟩ := isFin_iff.1 h; simp [Arith.mul, Arith.ofInt, Ext.mul]
theorem isFin_mul_negOne {c : Ext K} (h : isFin c) : isFin (Arith.mul c (Arith.ofInt (-1))) := by
  obtain ⟨k, rfl⟩ := isFin_iff.1 h; simp [Arith.mul, Arith.ofInt, Ext.mul, isFin]
theorem isFin_zero : isFin (Arith.zero : Ext K) := by simp [Arith.zero, Arith.ofInt, isFin]
theorem isFin_one : isFin (Arith.one : Ext K) := by simp [Arith.one, Arith.ofInt, isFin]

@[simp] theorem rowVal_nil_left (x : List K) : rowVal ([] : List (Ext K)) x = 0 := by simp [rowVal]
@[simp] theorem rowVal_nil_right (c : List (Ext K)) : rowVal c ([] : List K) = 0 := by cases c <;> simp [rowVal]
@[simp] theorem rowVal_cons (c : Ext K) (cs : List (Ext K)) (x : K) (xs : List K) :
    rowVal (c :: cs) (x :: xs) = toK c * x + rowVal cs xs := by simp [rowVal]

theorem rowVal_append : ∀ (a b : List (Ext K)) (u v : List K), a.length = u.length →
    rowVal (a ++ b) (u ++ v) = rowVal a u + rowVal b v
  | [], b, [], v, _ => by simp
  | c :: cs, b, x :: xs, v, h => by
    simp [rowVal_append cs b xs v (by simpa using h)]; ring
  | [], _, _ :: _, _, h => by simp at h
  | _ :: _, _, [], _, h => by simp at h

/-- columns beyond the end of the coefficient vector do not count. -/
theorem rowVal_append_right : ∀ (a : List (Ext K)) (u v : List K), a.length ≤ u.length →
    rowVal a (u ++ v) = rowVal a u
  | [], u, v, _ => by simp
  | c :: cs, [], v, h => by simp at h
  | c :: cs, x :: xs, v, h => by
    simp [rowVal_append_right cs xs v (by simpa using h)]

/-- trailing zero coefficients do not count. -/
theorem rowVal_append_zeros : ∀ (a : List (Ext K)) (k : Nat) (y : List K),
    rowVal (a ++ List.replicate k (Arith.zero : Ext K)) y = rowVal a y
  | [], k, y => by
    induction k generalizing y with
    | zero => simp
    | succ k ih => cases y with
      | nil => simp
      | cons x xs =>
        have := ih xs
        simp only [List.nil_append, rowVal_nil_left] at this
        simp [List.replicate_succ, this]
  | c :: cs, k, [] => by simp
  | c :: cs, k, x :: xs => by simp [rowVal_append_zeros cs k xs]

theorem rowVal_resize (a : List (Ext K)) (N : Nat) (y : List K) (h : a.length ≤ N) :
    rowVal (resize a N Arith.zero) y = rowVal a y := by
  unfold resize
  rw [List.take_of_length_le h, rowVal_append_zeros]

theorem rowVal_map_negOne : ∀ (a : List (Ext K)) (y : List K), (∀ c ∈ a, isFin c) →
    rowVal (a.map (fun c => Arith.mul c (Arith.ofInt (-1)))) y = -rowVal a y
  | [], y, _ => by simp
  | c :: cs, [], _ => by simp
  | c :: cs, x :: xs, h => by
    simp only [List.map_cons, rowVal_cons, toK_mul_negOne (h c (by simp)),
      rowVal_map_negOne cs xs (fun c hc => h c (List.mem_cons_of_mem _ hc))]
    ring

/-! ### the split -/

def countT : List Bool → Nat
  | [] => 0
  | f :: fs => (if f then 1 else 0) + countT fs
def countF : List Bool → Nat
  | [] => 0
  | f :: fs => (if f then 0 else 1) + countF fs

theorem keep_length {β : Type} : ∀ (fl : List Bool) (r : List β), r.length = fl.length → (keep fl r).length = countF fl
  | [], [], _ => by simp [keep, countF]
  | f :: fs, x :: xs, h => by
    cases f <;> simp [keep, countF, keep_length fs xs (by simpa using h)] <;> omega
  | [], _ :: _, h => by simp at h
  | _ :: _, [], h => by simp at h

theorem pairs_length {β γ : Type} (g : β → List γ) (hg : ∀ b, (g b).length = 2) :
    ∀ (fl : List Bool) (r : List β), r.length = fl.length → (pairs g fl r).length = 2 * countT fl
  | [], [], _ => by simp [pairs, countT]
  | f :: fs, x :: xs, h => by
    cases f <;> simp [pairs, countT, hg, pairs_length g hg fs xs (by simpa using h)] <;> omega
  | [], _ :: _, h => by simp at h
  | _ :: _, [], h => by simp at h

/-- forward image of one free coordinate. -/
def pmX (v : K) : List K := [max v 0, max (-v) 0]

/-- backward map: `x = p − m` on free positions, the kept value elsewhere. -/
def back : List Bool → List K → List K → List K
  | [], _, _ => []
  | true :: fs, ku, p :: m :: pmu => (p - m) :: back fs ku pmu
  | true :: fs, ku, _ => 0 :: back fs ku []
  | false :: fs, k :: ku, pmu => k :: back fs ku pmu
  | false :: fs, [], pmu => 0 :: back fs [] pmu

theorem back_length : ∀ (fl : List Bool) (ku pmu : List K), (back fl ku pmu).length = fl.length
  | [], _, _ => by simp [back]
  | true :: fs, ku, p :: m :: pmu => by simp [back, back_length fs ku pmu]
  | true :: fs, ku, [] => by simp [back, back_length fs ku []]
  | true :: fs, ku, [_] => by simp [back, back_length fs ku []]
  | false :: fs, k :: ku, pmu => by simp [back, back_length fs ku pmu]
  | false :: fs, [], pmu => by simp [back, back_length fs [] pmu]

/-- **the split preserves row values**: for any values `ku` of the kept columns and `pmu` of the `p/m`
columns, the split row evaluates to the original row at `back fl ku pmu`. -/
theorem rowVal_split : ∀ (fl : List Bool) (r : List (Ext K)) (ku pmu : List K), r.length = fl.length →
    (∀ c ∈ r, isFin c) → ku.length = countF fl → pmu.length = 2 * countT fl →
    rowVal (keep fl r) ku + rowVal (pairs pm fl r) pmu = rowVal r (back fl ku pmu)
  | [], [], ku, pmu, _, _, _, _ => by simp [keep, pairs, back]
  | true :: fs, c :: cs, ku, p :: m :: pmu, h, hf, hk, hp => by
    have ih := rowVal_split fs cs ku pmu (by simpa using h) (fun c hc => hf c (List.mem_cons_of_mem _ hc))
      (by simpa [countF] using hk) (by simp [countT] at hp; omega)
    simp only [keep, pairs, if_true, pm, List.cons_append, List.nil_append, rowVal_cons, back,
      toK_neg (hf c (by simp)), ← ih]
    ring
  | true :: fs, c :: cs, ku, [], _, _, _, hp => by simp [countT] at hp
  | true :: fs, c :: cs, ku, [_], _, _, _, hp => by simp [countT] at hp; omega
  | false :: fs, c :: cs, k :: ku, pmu, h, hf, hk, hp => by
    have ih := rowVal_split fs cs ku pmu (by simpa using h) (fun c hc => hf c (List.mem_cons_of_mem _ hc))
      (by simp [countF] at hk; omega) (by simpa [countT] using hp)
    simp only [keep, pairs, Bool.false_eq_true, if_false, rowVal_cons, back, ← ih]
    ring
  | false :: fs, c :: cs, [], pmu, _, _, hk, _ => by simp [countF] at hk; omega
  | [], _ :: _, _, _, h, _, _, _ => by simp at h
  | _ :: _, [], _, _, h, _, _, _ => by simp at h

/-- forward then backward is the identity. -/
theorem back_image : ∀ (fl : List Bool) (x : List K), x.length = fl.length →
    back fl (keep fl x) (pairs pmX fl x) = x
  | [], [], _ => by simp [back]
  | true :: fs, v :: vs, h => by
    have ih := back_image fs vs (by simpa using h)
    simp only [keep, pairs, if_true, pmX, List.cons_append, List.nil_append, back, ih, List.cons.injEq, and_true]
    rcases le_total v 0 with hv | hv
    · rw [max_eq_right hv, max_eq_left (by linarith)]; ring
    · rw [max_eq_left hv, max_eq_right (by linarith)]; ring
  | false :: fs, v :: vs, h => by
    simp [keep, pairs, back, back_image fs vs (by simpa using h)]
  | [], _ :: _, h => by simp at h
  | _ :: _, [], h => by simp at h

theorem pairs_pmX_nonneg : ∀ (fl : List Bool) (x : List K), ∀ v ∈ pairs pmX fl x, 0 ≤ v
  | [], _, v, hv => by simp [pairs] at hv
  | _ :: _, [], v, hv => by simp [pairs] at hv
  | true :: fs, w :: ws, v, hv => by
    simp only [pairs, if_true, pmX, List.cons_append, List.nil_append, List.mem_cons] at hv
    rcases hv with rfl | rfl | hv
    · exact le_max_right _ _
    · exact le_max_right _ _
    · exact pairs_pmX_nonneg fs ws v hv
  | false :: fs, w :: ws, v, hv => by
    simp only [pairs, Bool.false_eq_true, if_false] at hv
    exact pairs_pmX_nonneg fs ws v hv

end StdSplit
end Rooc
