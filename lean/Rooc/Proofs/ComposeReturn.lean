/-
The `LpSolution` that the built-in simplex path RETURNS (`ComposeSimplex.returnedSolution`: `as_lp_solution` on
`variables_values` with `optimal_value`), read as an assignment by variable NAME (`Compose.assignmentOf`), satisfies the
solver contract `Compose.LinOptimal` of the by-name reading of the model — i.e. the optimal clause of `Compose.SolverSpec`
is PROVED for rooc's own simplex at exact arithmetic.

Ingredients: `ComposeNames.asLp_standardize` (the by-name recombination computes C13's positional `preimage`),
`ComposeSem.simplex_linOptimal` (contract at `pointOf lm.vars (preimage …)`), and the fact that `linFeasible` /
`linObjective` look at an assignment only on the variables of the model (`linFeasible_congr`, `linObjective_congr`).
-/
import Rooc.Proofs.ComposeNames
import Rooc.Proofs.ComposeSem
import Rooc.Proofs.ComposeSolver

set_option linter.unusedSectionVars false
set_option linter.unusedSimpArgs false
set_option linter.unusedVariables false

namespace Rooc.ComposeReturn
open Rooc Rooc.Sem Rooc.SolverWrap StdSem StdMain Standardize Compose ComposeSem ComposeSimplex
variable {K : Type} [Field K] [LinearOrder K] [IsStrictOrderedRing K] [FloorRing K]

/-! ### a linear model reads an assignment on its variables only -/

theorem dotK_congr {ρ ρ' : String → K} : ∀ (cs : List (Ext K)) (vars : List String),
    (∀ v ∈ vars, ρ v = ρ' v) → dotK ρ cs vars = dotK ρ' cs vars
  | [], _, _ => by simp [dotK]
  | _ :: _, [], _ => by simp [dotK]
  | c :: cs, v :: vs, h => by
    simp only [dotK, h v (by simp), dotK_congr cs vs (fun w hw => h w (List.mem_cons_of_mem _ hw))]

theorem all_congr_mem {α : Type} {l : List α} {f g : α → Bool} (h : ∀ x ∈ l, f x = g x) : l.all f = l.all g := by
  induction l with
  | nil => rfl
  | cons a l ih => simp only [List.all_cons, h a (by simp), ih (fun x hx => h x (by simp [hx]))]

theorem linFeasible_congr {lm : LinModel (Ext K)} {ρ ρ' : String → K} (hdv : ∀ d ∈ lm.domain, d.name ∈ lm.vars)
    (h : ∀ v ∈ lm.vars, ρ v = ρ' v) : linFeasible lm ρ = linFeasible lm ρ' := by
  have hr : lm.rows.all (rowHolds ρ lm.vars) = lm.rows.all (rowHolds ρ' lm.vars) :=
    all_congr_mem fun r _ => by simp only [rowHolds, dotK_congr r.coeffs lm.vars h]
  have hd : (lm.domain.all fun d => inDomain (ρ d.name) d.ty) = (lm.domain.all fun d => inDomain (ρ' d.name) d.ty) :=
    all_congr_mem fun d hd => by rw [h d.name (hdv d hd)]
  simp only [linFeasible, hr, hd]

theorem linObjective_congr {lm : LinModel (Ext K)} {ρ ρ' : String → K} (h : ∀ v ∈ lm.vars, ρ v = ρ' v) :
    linObjective lm ρ = linObjective lm ρ' := by
  simp only [linObjective, dotK_congr lm.objective lm.vars h]

/-- the solver contract is about the values of the model's variables only. -/
theorem linOptimal_congr {lm : LinModel (Ext K)} {ρ ρ' : String → K} (hdv : ∀ d ∈ lm.domain, d.name ∈ lm.vars)
    (h : ∀ v ∈ lm.vars, ρ v = ρ' v) (ho : LinOptimal lm ρ) : LinOptimal lm ρ' := by
  refine ⟨by rw [← linFeasible_congr hdv h]; exact ho.feasible, ?_⟩
  intro ρ'' hf w w' hw hw'
  rw [← linObjective_congr h] at hw
  exact ho.best ρ'' hf w w' hw hw'

/-! ### the returned assignment, by name -/

theorem pointOf_getElem {vars : List String} {x : List K} (hnd : vars.Nodup) (hl : x.length = vars.length)
    (i : Nat) (hi : i < vars.length) : pointOf vars x vars[i] = x.getD i 0 := by
  have hm := map_pointOf vars x hnd hl
  have hix : i < x.length := by rw [hl]; exact hi
  have : (vars.map (pointOf vars x))[i]'(by simpa using hi) = x[i] := by simp [hm]
  simpa [List.getD_eq_getElem?_getD, hix] using this

/-- **`as_lp_solution` read by name = C13's positional map back, on every variable of the model.** -/
theorem assignmentOf_asLp {lm : LinModel (Ext K)} (hW : WF lm) (hnd : lm.vars.Nodup)
    (hpl : ∀ v ∈ StdLayout.keep (StdSpec.flags lm) lm.vars, ComposeNames.plain v = true) {s : StdModel (Ext K)} (hs : standardize lm = .ok s)
    (y : List K) (hy : y.length = s.vars.length) (value : Ext K) :
    ∀ v ∈ lm.vars, assignmentOf (asLpSolution s.vars (y.map Ext.fin) value) v = pointOf lm.vars (preimage lm y) v := by
  intro v hv
  obtain ⟨i, hi, rfl⟩ := List.mem_iff_getElem.1 hv
  obtain ⟨_, hval⟩ := ComposeNames.asLp_standardize_kept lm hW hnd hpl hs y hy
  have hpl' : (preimage lm y).length = lm.vars.length := by
    show (StdSplit.back _ _ _).length = _
    rw [StdSplit.back_length, StdSpec.flags, StdSpec.tys]; simp
  rw [pointOf_getElem hnd hpl' i hi]
  have hvo : (asLpSolution s.vars (y.map Ext.fin) value).valueOf lm.vars[i] =
      some (Val.real (Ext.fin ((preimage lm y).getD i 0))) := by
    unfold Solution.valueOf
    rw [buildAssignmentMap_get]
    show (List.find? _ (asLpAssignment s.vars (y.map Ext.fin))).map _ = _
    rw [hval i hi]; rfl
  simp [assignmentOf, hvo, Val.toNum, toK]

/-- **the optimal clause of `SolverSpec`, proved for the built-in simplex at exact arithmetic**: when the loop stops
`Finished` on a canonical feasible tableau of the standard form, the returned `LpSolution` read by name satisfies
`LinOptimal`, and its reported value is the linear objective (offset included) at that assignment. -/
theorem returned_linOptimal {lm : LinModel (Ext K)} (hW : WF lm) (hnn : ∀ d ∈ lm.domain, NNOK d.ty)
    (hdv : DomVars lm) (hnd : lm.vars.Nodup) (hpl : ∀ v ∈ StdLayout.keep (StdSpec.flags lm) lm.vars, ComposeNames.plain v = true)
    {s : StdModel (Ext K)} (hs : standardize lm = .ok s)
    {T : Tab K} (hT : CanonicalFor T (stdK s)) (se limit : Nat) (prefer : List Nat)
    (hfin : (@Tableau.solve K (exactArith K) 0 se limit prefer T).result = .ok ()) :
    LinOptimal lm (assignmentOf (returnedSolution s (@Tableau.solve K (exactArith K) 0 se limit prefer T).final)) ∧
    ∃ w, (returnedSolution s (@Tableau.solve K (exactArith K) 0 se limit prefer T).final).value = Ext.fin w ∧
      linObjective lm (assignmentOf (returnedSolution s (@Tableau.solve K (exactArith K) 0 se limit prefer T).final)) =
        some w := by
  obtain ⟨ho, hv⟩ := simplex_linOptimal hW hnn hdv hnd hs hT se limit prefer hfin
  have hF := finished_stdFeasible hT se limit prefer hfin
  have hag := assignmentOf_asLp hW hnd hpl hs _ hF.len
    (Ext.fin (@Tableau.optimalValue K (exactArith K) (@Tableau.solve K (exactArith K) 0 se limit prefer T).final))
  have hag' : ∀ v ∈ lm.vars, pointOf lm.vars (preimage lm (@TabSem.basicSolution K (exactArith K)
      (@Tableau.solve K (exactArith K) 0 se limit prefer T).final)) v =
      assignmentOf (returnedSolution s (@Tableau.solve K (exactArith K) 0 se limit prefer T).final) v :=
    fun v hv' => (hag v hv').symm
  refine ⟨linOptimal_congr hdv.listed hag' ho, _, rfl, ?_⟩
  rw [← linObjective_congr hag', hv]

/-- **`AnswerSpec` holds for the answer of the built-in simplex path** (exact arithmetic, loop stopped `Finished`): the
contract that is an assumption for microlp is a theorem here. -/
theorem simplex_answerSpec {lm : LinModel (Ext K)} (hW : WF lm) (hnn : ∀ d ∈ lm.domain, NNOK d.ty)
    (hdv : DomVars lm) (hnd : lm.vars.Nodup) (hpl : ∀ v ∈ StdLayout.keep (StdSpec.flags lm) lm.vars, ComposeNames.plain v = true)
    {s : StdModel (Ext K)} (hs : standardize lm = .ok s)
    {T : Tab K} (hT : CanonicalFor T (stdK s)) (se limit : Nat) (prefer : List Nat)
    (hfin : (@Tableau.solve K (exactArith K) 0 se limit prefer T).result = .ok ()) :
    AnswerSpec lm (.ok (returnedSolution s (@Tableau.solve K (exactArith K) 0 se limit prefer T).final)) := by
  refine ⟨fun sol hsol _ => ?_, fun herr => by cases herr⟩
  cases hsol
  exact returned_linOptimal hW hnn hdv hnd hpl hs hT se limit prefer hfin

end Rooc.ComposeReturn
