/-
Error direction, whole pipeline: on supported affine models `Compile.linearize` succeeds for every tolerance and
every step limit.
-/
import Rooc.Proofs.LinSucceed
import Rooc.Proofs.LinBridgeLogic

set_option linter.unusedSectionVars false

namespace Rooc.LinP
open Rooc Rooc.Lin Rooc.Sem Rooc.Exp

variable {K : Type} [Field K] [LinearOrder K] [IsStrictOrderedRing K] [FloorRing K]

theorem normalizedForBounds_succeeds : ∀ (cs0 : List (Constraint (Ext K))), (∀ c ∈ cs0, SrcL c) →
    ∃ cs, Compile.normalizedForBounds cs0 = some cs
  | [], _ => ⟨[], by simp [Compile.normalizedForBounds]⟩
  | c0 :: cs0, h => by
    obtain ⟨rest, hrest⟩ := normalizedForBounds_succeeds cs0 (fun c hc => h c (by simp [hc]))
    have hc := h c0 (by simp)
    have h2l := two_le_fsize (simplify c0.rhs)
    have h2r := two_le_fsize (simplify c0.lhs)
    obtain ⟨l, hl, _, _⟩ := normalize_L1 hc.lhs (by have := hc.size; omega)
    obtain ⟨r, hr, _, _⟩ := normalize_L1 hc.rhs (by have := hc.size; omega)
    exact ⟨_, by rw [nfb_cons c0 cs0 hc.notAssert, hrest, hl, hr]; rfl⟩

/-- **no spurious error through the whole pipeline** on supported affine models. -/
theorem compile_succeeds {m : Model (Ext K)} (tol : Ext K) (maxSteps : Nat)
    (hscr : scratchOK m tol maxSteps)
    (hobj : L1 (simplify m.objective)) (hobjsz : fsize (simplify m.objective) ≤ flattenFuel)
    (hcons : ∀ c ∈ m.constraints, SrcL c) (hlen : m.constraints.length < drainFuel) :
    ∃ lm, Compile.linearize m tol maxSteps = .ok lm := by
  obtain ⟨cs, hcs⟩ := normalizedForBounds_succeeds m.constraints hcons
  obtain ⟨lm, hlm⟩ := linearizeWith_succeeds (m := m)
    (Compile.toLinBounds ((Analyzer.analyze m.domain cs tol maxSteps).enforceable m.domain).variableBounds)
    (((Analyzer.analyze m.domain cs tol maxSteps).enforceable m.domain).applyToDomain m.domain)
    hobj hobjsz hcons hlen
  refine ⟨lm, (compile_ok_iff _ _ _ _).mpr ⟨hscr, _, ?_, hlm⟩⟩
  simp [pipelineAnalyzer, hcs]

end Rooc.LinP
