/-
`to_standard_form` on a well-formed model: closed form of the result (`standardize_spec`), then the
forward and backward maps.
-/
import Rooc.Proofs.StdSpec
namespace Rooc
namespace StdMain
variable {K : Type} [Field K] [LinearOrder K] [IsStrictOrderedRing K] [FloorRing K]
open StdSem StdLayout StdSplit StdNorm StdBounds StdSpec Standardize

/-- the rows that get normalised: original rows, then bound rows, each through the free-variable split. -/
noncomputable def splitRows (lm : LinModel (Ext K)) : List (LinRow (Ext K)) :=
  (lm.rows ++ boundsOf lm.vars.length 0 (tys lm)).map
    (fun r => { r with coeffs := keep (flags lm) r.coeffs ++ pairs pm (flags lm) r.coeffs })

/-- the objective after the split (before the sign flip). -/
noncomputable def splitObj (lm : LinModel (Ext K)) : List (Ext K) :=
  keep (flags lm) lm.objective ++ pairs pm (flags lm) lm.objective

theorem flags_length (lm : LinModel (Ext K)) : (flags lm).length = lm.vars.length := by simp [flags, tys]

theorem tys_ok (lm : LinModel (Ext K)) (hW : WF lm) : ∀ ty ∈ tys lm, BoundsOK ty := by
  intro ty hty
  simp only [tys, List.mem_map] at hty
  obtain ⟨v, hv, rfl⟩ := hty
  obtain ⟨ty, hl⟩ := hW.declared v hv
  obtain ⟨d, hd, rfl⟩ := lookup_mem hl
  have hc := hW.continuous d hd
  simp only [tyOf, hl, Option.getD_some]
  cases hdt : d.ty with
  | bool => simp [hdt, isContinuous] at hc
  | int a b => simp [hdt, isContinuous] at hc
  | real lo hi => exact hW.boundsReal d hd lo hi hdt
  | nnreal lo hi => exact hW.boundsNn d hd lo hi hdt

theorem rows_ok (lm : LinModel (Ext K)) (hW : WF lm) :
    ∀ r ∈ lm.rows ++ boundsOf lm.vars.length 0 (tys lm), RowOK lm.vars.length r := by
  intro r hr
  rcases List.mem_append.1 hr with hr | hr
  · exact ⟨hW.rowLen r hr, (hW.rowFin r hr).1, (hW.rowFin r hr).2, hW.rowCmp r hr⟩
  · exact boundsOf_ok _ _ _ (tys_ok lm hW) r hr

theorem splitRows_ok (lm : LinModel (Ext K)) (hW : WF lm) :
    ∀ r ∈ splitRows lm, RowOK (countF (flags lm) + 2 * countT (flags lm)) r := by
  intro r hr
  simp only [splitRows, List.mem_map] at hr
  obtain ⟨r0, hr0, rfl⟩ := hr
  have h0 := rows_ok lm hW r0 hr0
  have hl : r0.coeffs.length = (flags lm).length := by rw [h0.len, flags_length]
  refine ⟨?_, ?_, h0.rhs, h0.cmp⟩
  · simp only [List.length_append, keep_length _ _ hl, pairs_length pm (fun _ => rfl) _ _ hl]
  · intro c hc
    simp only [List.mem_append] at hc
    rcases hc with hc | hc
    · exact h0.fin c (keep_subset _ _ c hc)
    · exact pairs_pm_fin _ _ h0.fin c hc
where
  keep_subset : ∀ (fl : List Bool) (r : List (Ext K)), ∀ c ∈ keep fl r, c ∈ r
    | [], _, c, h => by simp [keep] at h
    | _ :: _, [], c, h => by simp [keep] at h
    | f :: fs, x :: xs, c, h => by
      cases f with
      | true => simp only [keep, if_true] at h; exact List.mem_cons_of_mem _ (keep_subset fs xs c h)
      | false =>
        simp only [keep, Bool.false_eq_true, if_false, List.mem_cons] at h
        rcases h with rfl | h
        · simp
        · exact List.mem_cons_of_mem _ (keep_subset fs xs c h)
  pairs_pm_fin : ∀ (fl : List Bool) (r : List (Ext K)), (∀ c ∈ r, isFin c) → ∀ c ∈ pairs pm fl r, isFin c
    | [], _, _, c, h => by simp [pairs] at h
    | _ :: _, [], _, c, h => by simp [pairs] at h
    | f :: fs, x :: xs, hf, c, h => by
      cases f with
      | true =>
        simp only [pairs, if_true, pm, List.cons_append, List.nil_append, List.mem_cons] at h
        rcases h with rfl | rfl | h
        · exact hf _ (by simp)
        · exact isFin_neg (hf _ (by simp))
        · exact pairs_pm_fin fs xs (fun c hc => hf c (List.mem_cons_of_mem _ hc)) c h
      | false =>
        simp only [pairs, Bool.false_eq_true, if_false] at h
        exact pairs_pm_fin fs xs (fun c hc => hf c (List.mem_cons_of_mem _ hc)) c h

/-- **closed form of `to_standard_form`** on a well-formed model. -/
theorem standardize_spec (lm : LinModel (Ext K)) (hW : WF lm) :
    ∃ (sm : StdModel (Ext K)) (srows : List (StdRow (Ext K))) (names : List String) (total : Nat),
      standardize lm = .ok sm ∧
      normalizeAll (lm.vars.length + countT (flags lm)) 0 0 (splitRows lm) = .ok (srows, names, total) ∧
      sm.vars.length = total ∧
      sm.rows = srows.map (fun r => { r with coeffs := resize (resize r.coeffs total Arith.zero) total Arith.zero }) ∧
      sm.objective = resize (if lm.optType = .max then (splitObj lm).map (fun c => Arith.mul c (Arith.ofInt (-1))) else splitObj lm) total Arith.zero ∧
      sm.offset = lm.offset ∧ sm.flip = decide (lm.optType = .max) := by
  have hany : lm.domain.any (fun d => !(isContinuous d.ty)) = false := by
    rw [List.any_eq_false]; intro d hd; simp [hW.continuous d hd]
  have hb := allBoundRows_eq lm lm.vars.length lm.vars 0 hW.declared
  have hf := freeIdx_eq lm lm.vars 0 hW.declared
  have hrows : mapM' (fun (r : LinRow (Ext K)) => (splitAll (flagsIdx 0 (flags lm)) r.coeffs).map
        (fun c => { r with coeffs := removeMany c (flagsIdx 0 (flags lm)) }))
      (lm.rows ++ boundsOf lm.vars.length 0 (tys lm)) = some (splitRows lm) := by
    unfold splitRows
    apply mapM'_eq
    intro r hr
    have hl : r.coeffs.length = (flags lm).length := by rw [(rows_ok lm hW r hr).len, flags_length]
    have := split_closed (flags lm) r.coeffs hl
    cases hs : splitAll (flagsIdx 0 (flags lm)) r.coeffs with
    | none => simp [hs] at this
    | some c => simp only [hs, Option.map_some, Option.some.injEq] at this ⊢; rw [this]
  have hobj : splitAll (flagsIdx 0 (flags lm)) lm.objective = some (lm.objective ++ (flagsIdx 0 (flags lm)).flatMap (fun i => pm (lm.objective.getD i Arith.zero))) := by
    have := splitAll_append lm.objective (flagsIdx 0 (flags lm)) [] (fun i hi => by
      have := flagsIdx_lt (flags lm) 0 i hi; rw [flags_length] at this; rw [hW.objLen]; omega)
    simpa using this
  have hobj2 : removeMany (lm.objective ++ (flagsIdx 0 (flags lm)).flatMap (fun i => pm (lm.objective.getD i Arith.zero))) (flagsIdx 0 (flags lm)) = splitObj lm := by
    have hl : lm.objective.length = (flags lm).length := by rw [hW.objLen, flags_length]
    have := split_closed (flags lm) lm.objective hl
    rw [hobj] at this
    simpa [splitObj] using this
  obtain ⟨⟨srows, names, total⟩, hnorm⟩ := normalizeAll_ok (splitRows lm) (lm.vars.length + (flagsIdx 0 (flags lm)).length) 0 0
    (fun r hr => (splitRows_ok lm hW r hr).cmp)
  have hsplitok := splitRows_ok lm hW
  have hcnt := count_sum (flags lm)
  rw [flags_length] at hcnt
  -- the number of columns
  have hu : lm.vars.length + countT (flags lm) = (List.replicate (countF (flags lm) + 2 * countT (flags lm)) (0:K)).length + ([] : List K).length := by
    simp; omega
  have hsem := normalizeAll_sem (List.replicate (countF (flags lm) + 2 * countT (flags lm)) (0:K)) (splitRows lm) []
    (List.replicate (nonEq (splitRows lm)) 0) 0 0 srows names total
    (by simpa using hsplitok) (by rw [← hu, ← flagsIdx_length (flags lm) 0]; exact hnorm) (by simp)
  obtain ⟨htot, hnames, -, -⟩ := hsem
  have hvars : (removeMany (lm.vars ++ (flagsIdx 0 (flags lm)).flatMap (fun i => let v := lm.vars.getD i ""; ["$p" ++ v, "$m" ++ v])) (flagsIdx 0 (flags lm)) ++ names).length = total := by
    unfold removeMany
    rw [removeManyFrom_append _ _ _ _ (fun j hj => by have := flagsIdx_lt (flags lm) 0 j hj; rw [flags_length] at this; omega),
      removeManyFrom_flags (flags lm) 0 lm.vars (flags_length lm).symm]
    simp only [List.length_append, keep_length _ _ (flags_length lm).symm, List.length_flatMap, List.length_cons,
      List.length_nil, List.map_const', List.sum_replicate, flagsIdx_length, hnames]
    simp at htot ⊢; omega
  -- the result, explicitly
  let V := removeMany (lm.vars ++ (flagsIdx 0 (flags lm)).flatMap (fun i => let v := lm.vars.getD i ""; ["$p" ++ v, "$m" ++ v])) (flagsIdx 0 (flags lm)) ++ names
  have hstd : standardize lm = .ok (standardize.mk V
      (if lm.optType = .max then (splitObj lm).map (fun c => Arith.mul c (Arith.ofInt (-1))) else splitObj lm)
      lm.offset (decide (lm.optType = .max))
      (srows.map (fun r => { r with coeffs := resize r.coeffs total Arith.zero }))) := by
    simp only [standardize, hany, Bool.false_eq_true, if_false, hb, hf]
    simp only [flags, tys] at hrows hobj hobj2 hnorm
    simp only [hrows, hobj, hnorm, hobj2]
    cases hopt : lm.optType with
    | satisfy => rcases hW.opt with h | h <;> simp [hopt] at h
    | min => simp [V, flags, tys]
    | max => simp [V, flags, tys]
  refine ⟨_, srows, names, total, hstd, by rw [← flagsIdx_length (flags lm) 0]; exact hnorm, ?_, ?_, ?_, ?_, ?_⟩
  · simp only [standardize.mk]; exact hvars
  · simp only [standardize.mk, List.map_map]
    rw [hvars]; rfl
  · simp only [standardize.mk]; rw [hvars]
  · simp only [standardize.mk]
  · simp only [standardize.mk]

/-! ### forward and backward maps -/

theorem keep_nonneg : ∀ (fl : List Bool) (x : List K), x.length = fl.length →
    (∀ j, j < fl.length → fl.getD j true = false → 0 ≤ x.getD j 0) → ∀ v ∈ keep fl x, 0 ≤ v
  | [], [], _, _, v, hv => by simp [keep] at hv
  | f :: fs, w :: ws, hl, h, v, hv => by
    have ih := keep_nonneg fs ws (by simpa using hl) (fun j hj hf => by
      have := h (j+1) (by simpa using hj) (by simpa using hf); simpa using this)
    cases f with
    | true => simp only [keep, if_true] at hv; exact ih v hv
    | false =>
      simp only [keep, Bool.false_eq_true, if_false, List.mem_cons] at hv
      rcases hv with rfl | hv
      · simpa using h 0 (by simp) (by simp)
      · exact ih v hv
  | [], _ :: _, hl, _, _, _ => by simp at hl
  | _ :: _, [], hl, _, _, _ => by simp at hl

theorem back_kept_nonneg : ∀ (fl : List Bool) (ku pmu : List K), ku.length = countF fl → (∀ v ∈ ku, 0 ≤ v) →
    ∀ j, j < fl.length → fl.getD j true = false → 0 ≤ (back fl ku pmu).getD j 0
  | [], _, _, _, _, j, hj, _ => by simp at hj
  | true :: fs, ku, p :: m :: pmu, hk, hn, j, hj, hf => by
    cases j with
    | zero => simp at hf
    | succ j =>
      simpa [back] using back_kept_nonneg fs ku pmu (by simpa [countF] using hk) hn j (by simpa using hj) (by simpa using hf)
  | true :: fs, ku, [], hk, hn, j, hj, hf => by
    cases j with
    | zero => simp at hf
    | succ j =>
      simpa [back] using back_kept_nonneg fs ku [] (by simpa [countF] using hk) hn j (by simpa using hj) (by simpa using hf)
  | true :: fs, ku, [_], hk, hn, j, hj, hf => by
    cases j with
    | zero => simp at hf
    | succ j =>
      simpa [back] using back_kept_nonneg fs ku [] (by simpa [countF] using hk) hn j (by simpa using hj) (by simpa using hf)
  | false :: fs, k :: ku, pmu, hk, hn, j, hj, hf => by
    cases j with
    | zero => simpa [back] using hn k (by simp)
    | succ j =>
      simpa [back] using back_kept_nonneg fs ku pmu (by simp [countF] at hk; omega)
        (fun v hv => hn v (List.mem_cons_of_mem _ hv)) j (by simpa using hj) (by simpa using hf)
  | false :: fs, [], pmu, hk, _, _, _, _ => by simp [countF] at hk; omega

/-- value of a split vector at `ku ++ pmu`. -/
theorem splitVec_val (fl : List Bool) (c : List (Ext K)) (ku pmu : List K) (hl : c.length = fl.length)
    (hf : ∀ a ∈ c, isFin a) (hk : ku.length = countF fl) (hp : pmu.length = 2 * countT fl) :
    rowVal (keep fl c ++ pairs pm fl c) (ku ++ pmu) = rowVal c (back fl ku pmu) := by
  rw [rowVal_append _ _ _ _ (by rw [keep_length _ _ hl, hk]), rowVal_split fl c ku pmu hl hf hk hp]

theorem flags_getD (lm : LinModel (Ext K)) (j : Nat) (hj : j < lm.vars.length) :
    (flags lm).getD j true = isFree ((tys lm).getD j .bool) := by
  have h1 : j < (tys lm).length := by simpa [tys] using hj
  simp [flags, List.getD_eq_getElem?_getD, h1]

theorem tys_getD (lm : LinModel (Ext K)) (hW : WF lm) (j : Nat) (hj : j < lm.vars.length) :
    lookup lm.domain (lm.vars.getD j "") = some ((tys lm).getD j .bool) := by
  have hv : lm.vars.getD j "" ∈ lm.vars := by
    simp only [List.getD_eq_getElem?_getD, List.getElem?_eq_getElem hj, Option.getD_some]; exact List.getElem_mem hj
  obtain ⟨ty, hty⟩ := hW.declared _ hv
  have e : (tys lm).getD j .bool = tyOf lm (lm.vars.getD j "") := by
    simp [tys, List.getD_eq_getElem?_getD, hj]
  rw [e, tyOf, hty]; rfl

/-- the original model in "rows only" form: declared bounds are the bound rows + sign of kept columns. -/
theorem linFeasible_iff (lm : LinModel (Ext K)) (hW : WF lm) (x : List K) (hx : x.length = lm.vars.length) :
    LinFeasible lm x ↔
      (∀ r ∈ lm.rows ++ boundsOf lm.vars.length 0 (tys lm), RowHolds r x) ∧
      (∀ j, j < lm.vars.length → (flags lm).getD j true = false → 0 ≤ x.getD j 0) := by
  have hb := boundsOf_sem lm.vars.length x hx (tys lm) 0 (by simp [tys]) (tys_ok lm hW)
  have htl : (tys lm).length = lm.vars.length := by simp [tys]
  constructor
  · intro hF
    have hd : ∀ j, j < (tys lm).length → InDomain ((tys lm).getD j .bool) (x.getD (0+j) 0) := by
      intro j hj
      obtain ⟨ty, hl, hin⟩ := hF.dom j (htl ▸ hj)
      rw [tys_getD lm hW j (htl ▸ hj)] at hl
      cases hl; simpa using hin
    obtain ⟨h1, h2⟩ := hb.2 hd
    refine ⟨?_, ?_⟩
    · intro r hr
      rcases List.mem_append.1 hr with hr | hr
      · exact hF.rows r hr
      · exact h1 r hr
    · intro j hj hf
      rw [flags_getD lm j hj] at hf
      simpa using h2 j (htl ▸ hj) hf
  · rintro ⟨hr, hs⟩
    have hd := hb.1 ⟨fun r hr' => hr r (List.mem_append_right _ hr'), fun j hj hf => by
      have := hs j (htl ▸ hj) (by rw [flags_getD lm j (htl ▸ hj)]; exact hf); simpa using this⟩
    exact ⟨hx, fun r hr' => hr r (List.mem_append_left _ hr'), fun i hi =>
      ⟨_, tys_getD lm hW i hi, by simpa using hd i (htl ▸ hi)⟩⟩

/-- rows after the split, evaluated at `ku ++ pmu`, are the original rows at `back fl ku pmu`. -/
theorem splitRows_holds (lm : LinModel (Ext K)) (hW : WF lm) (ku pmu : List K)
    (hk : ku.length = countF (flags lm)) (hp : pmu.length = 2 * countT (flags lm)) :
    (∀ r ∈ splitRows lm, RowHolds r (ku ++ pmu)) ↔
      ∀ r ∈ lm.rows ++ boundsOf lm.vars.length 0 (tys lm), RowHolds r (back (flags lm) ku pmu) := by
  simp only [splitRows, List.forall_mem_map]
  constructor <;> intro h r hr
  · have h0 := rows_ok lm hW r hr
    have := h r hr
    simp only [RowHolds] at this ⊢
    rwa [splitVec_val (flags lm) r.coeffs ku pmu (by rw [h0.len, flags_length]) h0.fin hk hp] at this
  · have h0 := rows_ok lm hW r hr
    have := h r hr
    simp only [RowHolds] at this ⊢
    rwa [splitVec_val (flags lm) r.coeffs ku pmu (by rw [h0.len, flags_length]) h0.fin hk hp]

/-- the rows of the standard form at `u ++ s` are the split rows in slack form. -/
theorem std_rows_iff (lm : LinModel (Ext K)) (hW : WF lm) {sm : StdModel (Ext K)}
    (hs : standardize lm = .ok sm) (u s : List K) (hu : u.length = countF (flags lm) + 2 * countT (flags lm))
    (hsl : s.length = nonEq (splitRows lm)) :
    sm.vars.length = u.length + s.length ∧
    ((∀ r ∈ sm.rows, rowVal r.coeffs (u ++ s) = toK r.rhs) ↔ SlackSem (splitRows lm) u s) := by
  obtain ⟨sm', srows, names, total, hstd, hnorm, hv, hr, -, -, -⟩ := standardize_spec lm hW
  rw [hs] at hstd; cases hstd
  have hcnt := count_sum (flags lm)
  rw [flags_length] at hcnt
  have hsem := normalizeAll_sem u (splitRows lm) [] s 0 0 srows names total
    (by rw [hu]; exact splitRows_ok lm hW) (by simpa [hu, ← hcnt, Nat.add_assoc, two_mul] using hnorm) hsl
  obtain ⟨htot, -, hlen, hiff⟩ := hsem
  refine ⟨by rw [hv, htot, hsl]; simp, ?_⟩
  rw [hr, ← hiff]
  simp only [List.forall_mem_map, List.append_nil]
  constructor <;> intro h r hr'
  · have := h r hr'
    rwa [rowVal_resize _ _ _ (by simp [resize]; have := hlen r hr'; omega), rowVal_resize _ _ _ (hlen r hr')] at this
  · rw [rowVal_resize _ _ _ (by simp [resize]; have := hlen r hr'; omega), rowVal_resize _ _ _ (hlen r hr')]
    exact h r hr'

/-- the recorded objective at `ku ++ pmu ++ s` is the original objective at `back fl ku pmu`. -/
theorem std_obj_eq (lm : LinModel (Ext K)) (hW : WF lm) {sm : StdModel (Ext K)}
    (hs : standardize lm = .ok sm) (ku pmu s : List K) (hk : ku.length = countF (flags lm))
    (hp : pmu.length = 2 * countT (flags lm)) (hsl : s.length = nonEq (splitRows lm)) :
    stdObj sm (ku ++ pmu ++ s) = obj lm (back (flags lm) ku pmu) := by
  obtain ⟨sm', srows, names, total, hstd, hnorm, hv, -, ho, hoff, hfl⟩ := standardize_spec lm hW
  rw [hs] at hstd; cases hstd
  have hol : lm.objective.length = (flags lm).length := by rw [hW.objLen, flags_length]
  have hsl' : (splitObj lm).length = (ku ++ pmu).length := by
    simp only [splitObj, List.length_append, keep_length _ _ hol, pairs_length pm (fun _ => rfl) _ _ hol, hk, hp]
  have htotal := (std_rows_iff lm hW hs (ku ++ pmu) s (by simp [hk, hp]) hsl).1
  rw [hv] at htotal
  have hfin : ∀ c ∈ splitObj lm, isFin c := by
    intro c hc
    simp only [splitObj, List.mem_append] at hc
    rcases hc with hc | hc
    · exact hW.objFin c (splitRows_ok.keep_subset _ _ c hc)
    · exact splitRows_ok.pairs_pm_fin _ _ hW.objFin c hc
  have hval : rowVal (splitObj lm) (ku ++ pmu ++ s) = rowVal lm.objective (back (flags lm) ku pmu) := by
    rw [rowVal_append_right _ _ _ (by rw [hsl']), splitObj, splitVec_val _ _ _ _ hol hW.objFin hk hp]
  unfold stdObj obj
  rw [ho, hoff, hfl]
  by_cases hmax : lm.optType = .max
  · simp only [hmax, if_true, decide_true]
    rw [rowVal_resize _ _ _ (by simp; rw [hsl', htotal]; omega), rowVal_map_negOne _ _ hfin, hval]; ring
  · simp only [hmax, if_false, decide_false, Bool.false_eq_true]
    rw [rowVal_resize _ _ _ (by rw [hsl', htotal]; omega), hval]

/-- the forward image of an original point: kept values, `p = max x 0`, `m = max (−x) 0`, residual slacks. -/
noncomputable def image (lm : LinModel (Ext K)) (x : List K) : List K :=
  let u := keep (flags lm) x ++ pairs pmX (flags lm) x
  u ++ slackOf (splitRows lm) u

/-- the backward image of a standard-form point: `x = p − m` on free variables, the kept value elsewhere. -/
noncomputable def preimage (lm : LinModel (Ext K)) (y : List K) : List K :=
  back (flags lm) (y.take (countF (flags lm))) ((y.drop (countF (flags lm))).take (2 * countT (flags lm)))

theorem fwd (lm : LinModel (Ext K)) (hW : WF lm) {sm : StdModel (Ext K)}
    (hs : standardize lm = .ok sm) (x : List K) (hF : LinFeasible lm x) :
    StdFeasible sm (image lm x) ∧ stdObj sm (image lm x) = obj lm x := by
  have hxl : x.length = (flags lm).length := by rw [hF.len, flags_length]
  have hk : (keep (flags lm) x).length = countF (flags lm) := keep_length _ _ hxl
  have hp : (pairs pmX (flags lm) x).length = 2 * countT (flags lm) := pairs_length pmX (fun _ => rfl) _ _ hxl
  have hback := back_image (flags lm) x hxl
  obtain ⟨hrows, hsign⟩ := (linFeasible_iff lm hW x hF.len).1 hF
  have hsplit := (splitRows_holds lm hW _ _ hk hp).2 (by rw [hback]; exact hrows)
  obtain ⟨sl, snn, ssem⟩ := slack_fwd (splitRows lm) _ (fun r hr => (splitRows_ok lm hW r hr).cmp) hsplit
  obtain ⟨hlen, hiff⟩ := std_rows_iff lm hW hs (keep (flags lm) x ++ pairs pmX (flags lm) x) _
    (by rw [List.length_append, hk, hp]) sl
  refine ⟨⟨by simp only [image]; rw [hlen]; simp [Nat.add_assoc], ?_, ?_⟩, ?_⟩
  · intro v hv
    simp only [image, List.mem_append] at hv
    rcases hv with (hv | hv) | hv
    · exact keep_nonneg _ _ hxl (fun j hj hf => hsign j (by rw [← flags_length]; exact hj) hf) v hv
    · exact pairs_pmX_nonneg _ _ v hv
    · exact snn v hv
  · exact hiff.2 ssem
  · have := std_obj_eq lm hW hs _ _ _ hk hp sl
    rw [hback] at this
    simpa [image] using this

theorem bwd (lm : LinModel (Ext K)) (hW : WF lm) {sm : StdModel (Ext K)}
    (hs : standardize lm = .ok sm) (y : List K) (hF : StdFeasible sm y) :
    LinFeasible lm (preimage lm y) ∧ stdObj sm y = obj lm (preimage lm y) := by
  obtain ⟨sm', srows, names, total, hstd, hnorm, hv, -, -, -, -⟩ := standardize_spec lm hW
  rw [hs] at hstd; cases hstd
  have hcnt := count_sum (flags lm)
  rw [flags_length] at hcnt
  -- the number of columns, from the normalisation
  have hsem := normalizeAll_sem (List.replicate (countF (flags lm) + 2 * countT (flags lm)) (0:K)) (splitRows lm) []
    (List.replicate (nonEq (splitRows lm)) 0) 0 0 srows names total
    (by simpa using splitRows_ok lm hW) (by simpa [← hcnt, Nat.add_assoc, two_mul] using hnorm) (by simp)
  have htot : total = countF (flags lm) + 2 * countT (flags lm) + nonEq (splitRows lm) := by simpa using hsem.1
  have hyl : y.length = countF (flags lm) + 2 * countT (flags lm) + nonEq (splitRows lm) := by rw [hF.len, hv, htot]
  -- decompose y
  set ku := y.take (countF (flags lm)) with hku
  set pmu := (y.drop (countF (flags lm))).take (2 * countT (flags lm)) with hpmu
  set s := (y.drop (countF (flags lm))).drop (2 * countT (flags lm)) with hsdef
  have hy : y = ku ++ pmu ++ s := by simp [hku, hpmu, hsdef, List.append_assoc]
  have hk : ku.length = countF (flags lm) := by simp [hku]; omega
  have hp : pmu.length = 2 * countT (flags lm) := by simp [hpmu]; omega
  have hsl : s.length = nonEq (splitRows lm) := by simp [hsdef]; omega
  have hnn : ∀ v ∈ ku ++ pmu ++ s, 0 ≤ v := by rw [← hy]; exact hF.nonneg
  obtain ⟨-, hiff⟩ := std_rows_iff lm hW hs (ku ++ pmu) s (by simp [hk, hp]) hsl
  have ssem := hiff.1 (by rw [← hy]; exact hF.rows)
  have hsplit := slack_bwd (splitRows lm) _ s (fun r hr => (splitRows_ok lm hW r hr).cmp) hsl
    (fun v hv => hnn v (List.mem_append_right _ hv)) ssem
  have horig := (splitRows_holds lm hW ku pmu hk hp).1 hsplit
  have hxl : (back (flags lm) ku pmu).length = lm.vars.length := by rw [back_length, flags_length]
  refine ⟨(linFeasible_iff lm hW _ hxl).2 ⟨horig, ?_⟩, ?_⟩
  · intro j hj hf
    exact back_kept_nonneg _ _ _ hk (fun v hv => hnn v (List.mem_append_left _ (List.mem_append_left _ hv))) j
      (by rw [flags_length]; exact hj) hf
  · have := std_obj_eq lm hW hs ku pmu s hk hp hsl
    rw [← hy] at this
    exact this

/-- every row of the standard form has as many coefficients as there are variables, and so has the objective. -/
theorem shape (lm : LinModel (Ext K)) (hW : WF lm) {sm : StdModel (Ext K)}
    (hs : standardize lm = .ok sm) :
    (∀ r ∈ sm.rows, r.coeffs.length = sm.vars.length) ∧ sm.objective.length = sm.vars.length := by
  obtain ⟨sm', srows, names, total, hstd, -, hv, hr, ho, -, -⟩ := standardize_spec lm hW
  rw [hs] at hstd; cases hstd
  refine ⟨?_, ?_⟩
  · rw [hr, hv]
    intro r hr'
    simp only [List.mem_map] at hr'
    obtain ⟨r0, -, rfl⟩ := hr'
    simp [resize]; omega
  · rw [ho, hv]; simp [resize]; omega

end StdMain
end Rooc
