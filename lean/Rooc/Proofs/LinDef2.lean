/-
"Compile succeeds ⇒ defined", part 2: the logic lowering (`try_lower_affine_logic_assertion`,
`directional_logic_witness`, `lower_logic_assertion`) and `emit_constraint`.

As in part 1 the statements need no state invariant: a successful run touches every operand, and whatever it
touches either is an affine 0/1 shape (literal 0/1, Boolean variable, negations of those) or is handed to
`Exp::linearize`.
-/
import Rooc.Proofs.LinDef1

set_option linter.unusedSectionVars false
set_option linter.unusedSimpArgs false
set_option linter.unusedVariables false
set_option linter.unusedTactic false
set_option linter.unreachableTactic false

namespace Rooc.LinP
open Rooc Rooc.Lin Rooc.Sem Rooc.Exp

variable {K : Type} [Field K] [LinearOrder K] [IsStrictOrderedRing K] [FloorRing K]

/-! ### `binary_affine_value` -/

theorem bav_def {d : List (DomVar (Ext K))} : ∀ (e : Exp (Ext K)) (c : Ctx (Ext K)),
    binaryAffineValue d e = some c → FinE e → ∀ ρ : String → K, Def ρ e := by
  intro e
  induction e using Exp.indL with
  | num v => intro c _ hf ρ; exact Def_num_of_finite hf
  | var x => intro c _ _ ρ; simp [Def, eval]
  | not e ih =>
    intro c h hf ρ
    simp only [binaryAffineValue, Option.map_eq_some_iff] at h
    obtain ⟨c', hc', _⟩ := h
    exact (Def_un_iff e).2.1.mpr (ih c' hc' hf.not ρ)
  | un op e ih =>
    intro c h hf ρ
    cases op with
    | neg => simp [binaryAffineValue] at h
    | not =>
      simp only [binaryAffineValue, Option.map_eq_some_iff] at h
      obtain ⟨c', hc', _⟩ := h
      exact ((Def_un_iff e).2.2 _).mpr (ih c' hc' hf.unot ρ)
  | _ => intro c h; simp [binaryAffineValue] at h

theorem bavList_def {d : List (DomVar (Ext K))} : ∀ (es : List (Exp (Ext K))) (ops : List (Exp (Ext K))),
    allSome (es.map fun e => (binaryAffineValue d e).map ctxToExp) = some ops → (∀ e ∈ es, FinE e) →
    ∀ ρ : String → K, ∀ e ∈ es, Def ρ e
  | [], _, _, _, _ => by intro e he; cases he
  | e :: es, ops, h, hf, ρ => by
    simp only [List.map_cons] at h
    cases hb : binaryAffineValue d e with
    | none => simp [hb, allSome] at h
    | some c =>
      simp only [hb, Option.map_some, allSome, Option.map_eq_some_iff] at h
      obtain ⟨ops', hops', _⟩ := h
      intro e' he'
      rcases List.mem_cons.mp he' with rfl | he'
      · exact bav_def _ c hb (hf _ (by simp)) ρ
      · exact bavList_def es ops' hops' (fun x hx => hf x (by simp [hx])) ρ e' he'

/-! ### `try_lower_affine_logic_assertion` -/

def TLADef (e : Exp (Ext K)) : Prop :=
  ∀ (t : Bool) (name : String) (s s' : St (Ext K)), tryLowerAffine e t name s = .ok (true, s') → FinE e →
    ∀ ρ : String → K, Def ρ e

theorem tlaDef_false {e : Exp (Ext K)}
    (heq : ∀ (t : Bool) (name : String), tryLowerAffine e t name = (pure false : M (Ext K) Bool)) : TLADef e := by
  intro t name s s' h
  rw [heq] at h
  simp [pure_ok] at h

theorem tlaDef_nary {e : Exp (Ext K)} {es : List (Exp (Ext K))} (hfin : FinE e → ∀ x ∈ es, FinE x)
    (hdef : ∀ ρ : String → K, (∀ x ∈ es, Def ρ x) → Def ρ e)
    (hsplit : ∀ (t : Bool) (name : String) (s s' : St (Ext K)), tryLowerAffine e t name s = .ok (true, s') →
      ∃ ops, allSome (es.map fun e => (binaryAffineValue s.domain e).map ctxToExp) = some ops) : TLADef e := by
  intro t name s s' h hf ρ
  obtain ⟨ops, hops⟩ := hsplit t name s s' h
  exact hdef ρ (bavList_def es ops hops (hfin hf) ρ)

theorem tlaDef_pair {e l r : Exp (Ext K)} (hfin : FinE e → FinE l ∧ FinE r)
    (hdef : ∀ ρ : String → K, Def ρ l → Def ρ r → Def ρ e)
    (hsplit : ∀ (t : Bool) (name : String) (s s' : St (Ext K)), tryLowerAffine e t name s = .ok (true, s') →
      ∃ a b, binaryAffineValue s.domain l = some a ∧ binaryAffineValue s.domain r = some b) : TLADef e := by
  intro t name s s' h hf ρ
  obtain ⟨a, b, ha, hb⟩ := hsplit t name s s' h
  exact hdef ρ (bav_def l a ha (hfin hf).1 ρ) (bav_def r b hb (hfin hf).2 ρ)

theorem tryLowerAffine_def : ∀ e : Exp (Ext K), TLADef e := by
  intro e
  induction e using Exp.indL with
  | num v =>
    intro t name s s' h hf ρ
    rw [tryLowerAffine] at h
    simp only [bind_ok, get_ok] at h
    obtain ⟨s0, s0', h0, h⟩ := h
    cases h0
    cases hc : binaryAffineValue s.domain (.num v : Exp (Ext K)) with
    | none => simp [hc, pure_ok] at h
    | some c => exact bav_def _ c hc hf ρ
  | var n =>
    intro t name s s' h hf ρ
    rw [tryLowerAffine] at h
    simp only [bind_ok, get_ok] at h
    obtain ⟨s0, s0', h0, h⟩ := h
    cases h0
    cases hc : binaryAffineValue s.domain (.var n : Exp (Ext K)) with
    | none => simp [hc, pure_ok] at h
    | some c => exact bav_def _ c hc hf ρ
  | not e ih =>
    intro t name s s' h hf ρ
    rw [tryLowerAffine] at h
    exact (Def_un_iff e).2.1.mpr (ih (!t) name s s' h hf.not ρ)
  | un op e ih =>
    cases op with
    | neg =>
      refine tlaDef_false (fun t name => ?_)
      rw [tryLowerAffine]
      all_goals (intros; first | contradiction | (rename_i hh; cases hh))
    | not =>
      intro t name s s' h hf ρ
      rw [tryLowerAffine] at h
      exact ((Def_un_iff e).2.2 _).mpr (ih (!t) name s s' h hf.unot ρ)
  | and es _ =>
    refine tlaDef_nary (fun hf => hf.and_mem) (fun ρ h => (Def_nary_iff true).mpr h) ?_
    intro t name s s' h
    rw [tryLowerAffine] at h
    simp only [bind_ok, get_ok] at h
    obtain ⟨s0, s0', h0, h⟩ := h
    cases h0
    cases hc : allSome (es.map fun e => (binaryAffineValue s.domain e).map ctxToExp) with
    | none => simp [hc, pure_ok] at h
    | some ops => exact ⟨ops, rfl⟩
  | or es _ =>
    refine tlaDef_nary (fun hf => hf.or_mem) (fun ρ h => (Def_nary_iff false).mpr h) ?_
    intro t name s s' h
    rw [tryLowerAffine] at h
    simp only [bind_ok, get_ok] at h
    obtain ⟨s0, s0', h0, h⟩ := h
    cases h0
    cases hc : allSome (es.map fun e => (binaryAffineValue s.domain e).map ctxToExp) with
    | none => simp [hc, pure_ok] at h
    | some ops => exact ⟨ops, rfl⟩
  | implies l r _ _ =>
    refine tlaDef_pair (fun hf => ⟨hf.implies_mem l (by simp), hf.implies_mem r (by simp)⟩)
      (fun ρ hl hr => (Def_xorlike_iff l r).2.1.mpr ⟨hl, hr⟩) ?_
    intro t name s s' h
    rw [tryLowerAffine] at h
    simp only [bind_ok, get_ok] at h
    obtain ⟨s0, s0', h0, h⟩ := h
    cases h0
    cases ha : binaryAffineValue s.domain l with
    | none => simp [ha, pure_ok] at h
    | some a =>
      cases hb : binaryAffineValue s.domain r with
      | none => simp [ha, hb, pure_ok] at h
      | some b => exact ⟨a, b, rfl, rfl⟩
  | iff l r _ _ =>
    refine tlaDef_pair (fun hf => ⟨hf.iff_mem l (by simp), hf.iff_mem r (by simp)⟩)
      (fun ρ hl hr => (Def_xorlike_iff l r).2.2.mpr ⟨hl, hr⟩) ?_
    intro t name s s' h
    rw [tryLowerAffine] at h
    simp only [bind_ok, get_ok] at h
    obtain ⟨s0, s0', h0, h⟩ := h
    cases h0
    cases ha : binaryAffineValue s.domain l with
    | none => simp [ha, pure_ok] at h
    | some a =>
      cases hb : binaryAffineValue s.domain r with
      | none => simp [ha, hb, pure_ok] at h
      | some b => exact ⟨a, b, rfl, rfl⟩
  | xor l r _ _ =>
    refine tlaDef_pair (fun hf => ⟨hf.xor_mem l (by simp), hf.xor_mem r (by simp)⟩)
      (fun ρ hl hr => (Def_xorlike_iff l r).1.mpr ⟨hl, hr⟩) ?_
    intro t name s s' h
    rw [tryLowerAffine] at h
    simp only [bind_ok, get_ok] at h
    obtain ⟨s0, s0', h0, h⟩ := h
    cases h0
    cases ha : binaryAffineValue s.domain l with
    | none => simp [ha, pure_ok] at h
    | some a =>
      cases hb : binaryAffineValue s.domain r with
      | none => simp [ha, hb, pure_ok] at h
      | some b => exact ⟨a, b, rfl, rfl⟩
  | abs e _ =>
    refine tlaDef_false (fun t name => ?_)
    rw [tryLowerAffine]
    all_goals (intros; first | contradiction | (rename_i hh; cases hh))
  | min es _ =>
    refine tlaDef_false (fun t name => ?_)
    rw [tryLowerAffine]
    all_goals (intros; first | contradiction | (rename_i hh; cases hh))
  | max es _ =>
    refine tlaDef_false (fun t name => ?_)
    rw [tryLowerAffine]
    all_goals (intros; first | contradiction | (rename_i hh; cases hh))
  | bin op a b _ _ =>
    refine tlaDef_false (fun t name => ?_)
    rw [tryLowerAffine]
    all_goals (intros; first | contradiction | (rename_i hh; cases hh))

/-! ### `directional_logic_witness` -/

def DirDef (e : Exp (Ext K)) : Prop :=
  ∀ (t : Bool) (s : St (Ext K)) (r : Exp (Ext K) × St (Ext K)), dirWitness e t s = .ok r → FinE e →
    ∀ ρ : String → K, Def ρ e

theorem dirList_def : ∀ (es : List (Exp (Ext K))), (∀ e ∈ es, DirDef e) →
    ∀ (t : Bool) (s : St (Ext K)) (r : List (Exp (Ext K)) × St (Ext K)), dirWitnessList es t s = .ok r →
    (∀ e ∈ es, FinE e) → ∀ ρ : String → K, ∀ e ∈ es, Def ρ e
  | [], _, _, _, _, _, _, _ => by intro e he; cases he
  | e :: es, hall, t, s, r, h, hf, ρ => by
    rw [dirWitnessList] at h
    simp only [bind_ok, pure_ok] at h
    obtain ⟨x, s1, h1, xs, s2, h2, _⟩ := h
    intro e' he'
    rcases List.mem_cons.mp he' with rfl | he'
    · exact hall _ (by simp) t s _ h1 (hf _ (by simp)) ρ
    · exact dirList_def es (fun x hx => hall x (by simp [hx])) t s1 _ h2 (fun x hx => hf x (by simp [hx])) ρ e' he'

theorem iffWitness_def {l r : Exp (Ext K)} {t : Bool} {s : St (Ext K)} {x : Exp (Ext K)} {s' : St (Ext K)}
    (h : iffWitness l r t s = .ok (x, s')) (hfl : FinE l) (hfr : FinE r) (ρ : String → K) :
    Def ρ l ∧ Def ρ r := by
  obtain ⟨a, s1, b, s2, w, s3, h1, h2, _⟩ := (iffWitness_ok _ _ _ _ _ _).mp h
  exact ⟨def_of_linBinaryOperand h1 hfl ρ, def_of_linBinaryOperand h2 hfr ρ⟩

theorem dirDef_fail {e : Exp (Ext K)}
    (h : ∀ t : Bool, dirWitness e t = (fail .nonBinaryLogicOperand : M (Ext K) (Exp (Ext K)))) : DirDef e := by
  intro t s r hd
  rw [h t] at hd
  simp [fail_ok] at hd

theorem dirWitness_def : ∀ e : Exp (Ext K), DirDef e := by
  intro e
  induction e using Exp.indL with
  | num v => intro t s r _ hf ρ; exact Def_num_of_finite hf
  | var n => intro t s r _ _ ρ; simp [Def, eval]
  | not e ih =>
    intro t s r h hf ρ
    rw [dirWitness] at h
    simp only [bind_ok, get_ok] at h
    obtain ⟨s0, s0', h0, h⟩ := h
    cases h0
    cases hc : binaryAffineValue s.domain (.not e) with
    | some v => exact bav_def _ v hc hf ρ
    | none =>
      simp only [hc] at h
      exact (Def_un_iff e).2.1.mpr (ih (!t) s r h hf.not ρ)
  | un op e ih =>
    cases op with
    | neg =>
      refine dirDef_fail (fun t => ?_)
      rw [dirWitness]
      all_goals (intros; first | contradiction | (rename_i hh; cases hh))
    | not =>
      intro t s r h hf ρ
      rw [dirWitness] at h
      simp only [bind_ok, get_ok] at h
      obtain ⟨s0, s0', h0, h⟩ := h
      cases h0
      cases hc : binaryAffineValue s.domain (.un .not e) with
      | some v => exact bav_def _ v hc hf ρ
      | none =>
        simp only [hc] at h
        exact ((Def_un_iff e).2.2 _).mpr (ih (!t) s r h hf.unot ρ)
  | and es ih =>
    intro t s r h hf ρ
    rw [dirWitness] at h
    have hnone : ∀ d : List (DomVar (Ext K)), binaryAffineValue d (.and es : Exp (Ext K)) = none := fun d => by
      simp [binaryAffineValue]
    simp only [bind_ok, get_ok] at h
    obtain ⟨s0, s0', h0, h⟩ := h
    cases h0
    simp only [hnone, bind_ok] at h
    obtain ⟨xs, s1, hL, _⟩ := h
    exact (Def_nary_iff true).mpr (dirList_def es ih t s _ hL hf.and_mem ρ)
  | or es ih =>
    intro t s r h hf ρ
    rw [dirWitness] at h
    simp only [bind_ok] at h
    obtain ⟨xs, s1, hL, _⟩ := h
    exact (Def_nary_iff false).mpr (dirList_def es ih t s _ hL hf.or_mem ρ)
  | implies l r ihl ihr =>
    intro t s res h hf ρ
    have hfl : FinE l := hf.implies_mem l (by simp)
    have hfr : FinE r := hf.implies_mem r (by simp)
    rw [dirWitness] at h
    simp only [bind_ok, get_ok] at h
    obtain ⟨s0, s0', h0, c1, s1, h1, c2, s2, h2, _⟩ := h
    cases h0
    have hl : Def ρ l := by
      cases hc : binaryAffineValue s.domain (.not l) with
      | some v =>
        have hfn : FinE (.not l) := by simpa only [FinE, finiteLits] using hfl
        exact (Def_un_iff l).2.1.mp (bav_def _ v hc hfn ρ)
      | none =>
        simp only [hc] at h1
        exact ihl (!t) s _ h1 hfl ρ
    exact (Def_xorlike_iff l r).2.1.mpr ⟨hl, ihr t s1 _ h2 hfr ρ⟩
  | iff l r _ _ =>
    intro t s res h hf ρ
    rw [dirWitness] at h
    exact (Def_xorlike_iff l r).2.2.mpr (iffWitness_def h (hf.iff_mem l (by simp)) (hf.iff_mem r (by simp)) ρ)
  | xor l r _ _ =>
    intro t s res h hf ρ
    rw [dirWitness] at h
    exact (Def_xorlike_iff l r).1.mpr (iffWitness_def h (hf.xor_mem l (by simp)) (hf.xor_mem r (by simp)) ρ)
  | abs e _ =>
    refine dirDef_fail (fun t => ?_)
    rw [dirWitness]
    all_goals (intros; first | contradiction | (rename_i hh; cases hh))
  | min es _ =>
    refine dirDef_fail (fun t => ?_)
    rw [dirWitness]
    all_goals (intros; first | contradiction | (rename_i hh; cases hh))
  | max es _ =>
    refine dirDef_fail (fun t => ?_)
    rw [dirWitness]
    all_goals (intros; first | contradiction | (rename_i hh; cases hh))
  | bin op a b _ _ =>
    refine dirDef_fail (fun t => ?_)
    rw [dirWitness]
    all_goals (intros; first | contradiction | (rename_i hh; cases hh))

theorem def_of_dirWitnessList {es : List (Exp (Ext K))} {t : Bool} {s : St (Ext K)}
    {r : List (Exp (Ext K)) × St (Ext K)} (h : dirWitnessList es t s = .ok r) (hf : ∀ e ∈ es, FinE e)
    (ρ : String → K) : ∀ e ∈ es, Def ρ e :=
  dirList_def es (fun e _ => dirWitness_def e) t s r h hf ρ

/-! ### `lower_logic_assertion` -/

def LADef (e : Exp (Ext K)) : Prop :=
  ∀ (t : Bool) (name : String) (s s' : St (Ext K)), lowerAssertion e t name s = .ok ((), s') → FinE e →
    ∀ ρ : String → K, Def ρ e

/-- the common prefix: the affine path succeeded, or the continuation ran. -/
theorem la_prefix_def {e : Exp (Ext K)} {t : Bool} {name : String} {s s' : St (Ext K)} {k : M (Ext K) Unit}
    (h : (tryLowerAffine e t name >>= fun b => if b = true then pure () else k) s = .ok ((), s')) :
    (∃ s1, tryLowerAffine e t name s = .ok (true, s1)) ∨ ∃ s1, k s1 = .ok ((), s') := by
  simp only [bind_ok] at h
  obtain ⟨b, s1, h1, h2⟩ := h
  cases b with
  | true => exact Or.inl ⟨s1, h1⟩
  | false =>
    simp only [Bool.false_eq_true, if_false] at h2
    exact Or.inr ⟨s1, h2⟩

theorem laList_def : ∀ (es : List (Exp (Ext K))), (∀ e ∈ es, LADef e) →
    ∀ (t : Bool) (name : String) (s s' : St (Ext K)), lowerAssertionList es t name s = .ok ((), s') →
    (∀ e ∈ es, FinE e) → ∀ ρ : String → K, ∀ e ∈ es, Def ρ e
  | [], _, _, _, _, _, _, _, _ => by intro e he; cases he
  | e :: es, hall, t, name, s, s', h, hf, ρ => by
    rw [lowerAssertionList] at h
    simp only [bind_ok] at h
    obtain ⟨u, s1, h1, h2⟩ := h
    intro e' he'
    rcases List.mem_cons.mp he' with rfl | he'
    · exact hall _ (by simp) t name s s1 h1 (hf _ (by simp)) ρ
    · exact laList_def es (fun x hx => hall x (by simp [hx])) t name s1 s' h2 (fun x hx => hf x (by simp [hx])) ρ e' he'

theorem laDef_fail {e : Exp (Ext K)}
    (heq : ∀ (t : Bool) (name : String), lowerAssertion e t name =
      (tryLowerAffine e t name >>= fun b => if b = true then pure () else fail LinErr.nonBinaryLogicOperand)) :
    LADef e := by
  intro t name s s' h hf ρ
  rw [heq] at h
  rcases la_prefix_def h with ⟨s1, h1⟩ | ⟨s1, h1⟩
  · exact tryLowerAffine_def e t name s s1 h1 hf ρ
  · simp [fail_ok] at h1

theorem lowerAssertion_def : ∀ e : Exp (Ext K), LADef e := by
  intro e
  induction e using Exp.indL with
  | num v => intro t name s s' _ hf ρ; exact Def_num_of_finite hf
  | var n => intro t name s s' _ _ ρ; simp [Def, eval]
  | not e ih =>
    intro t name s s' h hf ρ
    rw [lowerAssertion] at h
    rcases la_prefix_def h with ⟨s1, h1⟩ | ⟨s1, h1⟩
    · exact tryLowerAffine_def _ t name s s1 h1 hf ρ
    · exact (Def_un_iff e).2.1.mpr (ih (!t) name s1 s' h1 hf.not ρ)
  | un op e ih =>
    cases op with
    | neg =>
      refine laDef_fail (fun t name => ?_)
      rw [lowerAssertion]
      all_goals (intros; first | contradiction | (rename_i hh; cases hh))
    | not =>
      intro t name s s' h hf ρ
      rw [lowerAssertion] at h
      rcases la_prefix_def h with ⟨s1, h1⟩ | ⟨s1, h1⟩
      · exact tryLowerAffine_def _ t name s s1 h1 hf ρ
      · exact ((Def_un_iff e).2.2 _).mpr (ih (!t) name s1 s' h1 hf.unot ρ)
  | and es ih =>
    intro t name s s' h hf ρ
    rw [lowerAssertion] at h
    rcases la_prefix_def h with ⟨s1, h1⟩ | ⟨s1, h1⟩
    · exact tryLowerAffine_def _ t name s s1 h1 hf ρ
    apply (Def_nary_iff true).mpr
    cases t with
    | true =>
      simp only [if_true] at h1
      exact laList_def es ih true name s1 s' h1 hf.and_mem ρ
    | false =>
      simp only [Bool.false_eq_true, if_false, bind_ok] at h1
      obtain ⟨xs, s2, hL, _⟩ := h1
      exact def_of_dirWitnessList hL hf.and_mem ρ
  | or es ih =>
    intro t name s s' h hf ρ
    rw [lowerAssertion] at h
    rcases la_prefix_def h with ⟨s1, h1⟩ | ⟨s1, h1⟩
    · exact tryLowerAffine_def _ t name s s1 h1 hf ρ
    apply (Def_nary_iff false).mpr
    cases t with
    | false =>
      simp only [Bool.false_eq_true, if_false] at h1
      exact laList_def es ih false name s1 s' h1 hf.or_mem ρ
    | true =>
      simp only [if_true, bind_ok] at h1
      obtain ⟨xs, s2, hL, _⟩ := h1
      exact def_of_dirWitnessList hL hf.or_mem ρ
  | implies l r ihl ihr =>
    intro t name s s' h hf ρ
    have hfl : FinE l := hf.implies_mem l (by simp)
    have hfr : FinE r := hf.implies_mem r (by simp)
    rw [lowerAssertion] at h
    rcases la_prefix_def h with ⟨s1, h1⟩ | ⟨s1, h1⟩
    · exact tryLowerAffine_def _ t name s s1 h1 hf ρ
    apply (Def_xorlike_iff l r).2.1.mpr
    cases t with
    | true =>
      simp only [if_true, bind_ok] at h1
      obtain ⟨w1, s2, h2, w2, s3, h3, _⟩ := h1
      exact ⟨dirWitness_def l false s1 _ h2 hfl ρ, dirWitness_def r true s2 _ h3 hfr ρ⟩
    | false =>
      simp only [Bool.false_eq_true, if_false, bind_ok] at h1
      obtain ⟨u, s2, h2, h3⟩ := h1
      exact ⟨ihl true name s1 s2 h2 hfl ρ, ihr false name s2 s' h3 hfr ρ⟩
  | iff l r _ _ =>
    intro t name s s' h hf ρ
    rw [lowerAssertion] at h
    rcases la_prefix_def h with ⟨s1, h1⟩ | ⟨s1, h1⟩
    · exact tryLowerAffine_def _ t name s s1 h1 hf ρ
    simp only [bind_ok] at h1
    obtain ⟨a, s2, h2, b, s3, h3, _⟩ := h1
    exact (Def_xorlike_iff l r).2.2.mpr ⟨def_of_linBinaryOperand h2 (hf.iff_mem l (by simp)) ρ,
      def_of_linBinaryOperand h3 (hf.iff_mem r (by simp)) ρ⟩
  | xor l r _ _ =>
    intro t name s s' h hf ρ
    rw [lowerAssertion] at h
    rcases la_prefix_def h with ⟨s1, h1⟩ | ⟨s1, h1⟩
    · exact tryLowerAffine_def _ t name s s1 h1 hf ρ
    simp only [bind_ok] at h1
    obtain ⟨a, s2, h2, b, s3, h3, _⟩ := h1
    exact (Def_xorlike_iff l r).1.mpr ⟨def_of_linBinaryOperand h2 (hf.xor_mem l (by simp)) ρ,
      def_of_linBinaryOperand h3 (hf.xor_mem r (by simp)) ρ⟩
  | abs e _ =>
    refine laDef_fail (fun t name => ?_)
    rw [lowerAssertion]
    all_goals (intros; first | contradiction | (rename_i hh; cases hh))
  | min es _ =>
    refine laDef_fail (fun t name => ?_)
    rw [lowerAssertion]
    all_goals (intros; first | contradiction | (rename_i hh; cases hh))
  | max es _ =>
    refine laDef_fail (fun t name => ?_)
    rw [lowerAssertion]
    all_goals (intros; first | contradiction | (rename_i hh; cases hh))
  | bin op a b _ _ =>
    refine laDef_fail (fun t name => ?_)
    rw [lowerAssertion]
    all_goals (intros; first | contradiction | (rename_i hh; cases hh))

/-- **success of `lower_logic_assertion` proves definedness.** -/
theorem def_of_lowerAssertion {e : Exp (Ext K)} {t : Bool} {name : String} {s s' : St (Ext K)}
    (h : lowerAssertion e t name s = .ok ((), s')) (hf : FinE e) (ρ : String → K) : Def ρ e :=
  lowerAssertion_def e t name s s' h hf ρ

end Rooc.LinP
