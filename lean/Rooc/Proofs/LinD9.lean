/-
Stage D, part 9: the work-list loop on models with logic values and bare assertions.
-/
import Rooc.Proofs.LinD8
import Rooc.Proofs.LinDef3

set_option linter.unusedSectionVars false
set_option linter.unusedSimpArgs false
set_option linter.unusedVariables false
set_option linter.unusedTactic false
set_option linter.unreachableTactic false

namespace Rooc.LinP
open Rooc Rooc.Lin Rooc.Sem Rooc.Exp
open Rooc.Lin.Gadget

variable {K : Type} [Field K] [LinearOrder K] [IsStrictOrderedRing K] [FloorRing K]

/-! ### `try_normalize_logic_constraint` on arbitrary sides -/

/-- a logic value (`is_logic_value`) is 0/1-valued where the Boolean variables are. -/
theorem logicValue_b01 {d : List (DomVar (Ext K))} {S : String → Prop} {e : Exp (Ext K)}
    (hlv : isLogicValue d e = true) (hsc : ∀ y ∈ varsOf e, S y) {ρ : String → K} (hB : BoolOK ρ d S)
    {x : K} (hx : eval ρ e = some x) : B01 x := by
  cases e with
  | num v =>
    simp only [isLogicValue, Bool.or_eq_true] at hlv
    rcases hlv with h | h
    · rw [(ar_eq_zero_iff v).mp h, eval_num_fin] at hx; cases hx; exact Or.inl rfl
    · rw [ar_one] at h; rw [(ar_eq_fin_iff v 1).mp h, eval_num_fin] at hx; cases hx; exact Or.inr rfl
  | var n =>
    rw [eval_var] at hx; cases hx
    exact hB n (hsc n (by simp [varsOf])) (by simpa [isLogicValue] using hlv)
  | and es => obtain ⟨vs, _, rfl⟩ := eval_and_some hx; exact ofBool_B01 _
  | or es => obtain ⟨vs, _, rfl⟩ := eval_or_some hx; exact ofBool_B01 _
  | not e => obtain ⟨w, _, rfl⟩ := eval_not_some hx; exact ofBool_B01 _
  | xor a b =>
    obtain ⟨p, q, _, h⟩ := eval_logic2_some (eval_xor_eq ρ a b) hx
    simp only [binVal, Option.some.injEq] at h; rw [← h]; exact ofBool_B01 _
  | implies a b =>
    obtain ⟨p, q, _, h⟩ := eval_logic2_some (eval_implies_eq ρ a b) hx
    simp only [binVal, Option.some.injEq] at h; rw [← h]; exact ofBool_B01 _
  | iff a b =>
    obtain ⟨p, q, _, h⟩ := eval_logic2_some (eval_iff_eq ρ a b) hx
    simp only [binVal, Option.some.injEq] at h; rw [← h]; exact ofBool_B01 _
  | bin op a b =>
    obtain ⟨p, q, _, _, hpq⟩ := eval_bin_some hx
    cases op <;> simp [isLogicValue] at hlv <;> simp only [binVal, Option.some.injEq] at hpq <;>
      (rw [← hpq]; exact ofBool_B01 _)
  | un op a =>
    cases op with
    | neg => simp [isLogicValue] at hlv
    | not =>
      rw [eval] at hx
      cases he : eval ρ a with
      | none => simp [he] at hx
      | some w => simp [he] at hx; rw [← hx]; exact ofBool_B01 _
  | abs a => simp [isLogicValue] at hlv
  | min es => simp [isLogicValue] at hlv
  | max es => simp [isLogicValue] at hlv

theorem pickOf_specD {d : List (DomVar (Ext K))} {lhs rhs : Exp (Ext K)} {cmp cmp' : Cmp}
    {e : Exp (Ext K)} {c : Ext K} (h : pickOf d lhs cmp rhs = some (e, cmp', c)) :
    (e = lhs ∨ e = rhs) ∧ isLogicValue d e = true ∧
      ∀ (ρ : String → K) (a b : K), eval ρ lhs = some a → eval ρ rhs = some b →
        ∃ x k, eval ρ e = some x ∧ c = Ext.fin k ∧ cmpK cmp a b = cmpK cmp' x k := by
  unfold pickOf at h
  split at h
  · split at h
    · simp only [Option.some.injEq, Prod.mk.injEq] at h
      obtain ⟨rfl, rfl, rfl⟩ := h
      refine ⟨Or.inl rfl, ‹_›, ?_⟩
      intro ρ a b ha hb
      exact ⟨a, b, ha, eval_num_some hb, rfl⟩
    · simp at h
  · split at h
    · split at h
      · simp only [Option.some.injEq, Prod.mk.injEq] at h
        obtain ⟨rfl, rfl, rfl⟩ := h
        refine ⟨Or.inr rfl, ‹_›, ?_⟩
        intro ρ a b ha hb
        exact ⟨b, a, hb, eval_num_some ha, (cmpK_reversed _ _ _).symm⟩
      · simp at h
    · simp at h

/-- meaning of a normalisation verdict. -/
def NormSemD (lhs rhs : Exp (Ext K)) (cmp : Cmp) (ρ : String → K) (a b : K) : Normalized (Ext K) → Prop
  | .tautology => cmpK cmp a b = true
  | .contradiction => cmpK cmp a b = false
  | .assertion e t => (e = lhs ∨ e = rhs) ∧ (cmpK cmp a b = true ↔ HasTruth e t ρ)

theorem normalize_semD {d : List (DomVar (Ext K))} {S : String → Prop} {lhs rhs : Exp (Ext K)} {cmp : Cmp}
    {nz : Normalized (Ext K)} (hl : ∀ y ∈ varsOf lhs, S y) (hr : ∀ y ∈ varsOf rhs, S y)
    (h : tryNormalize d lhs cmp rhs = some nz) (ρ : String → K) (a b : K)
    (ha : eval ρ lhs = some a) (hb : eval ρ rhs = some b) (hB : BoolOK ρ d S) :
    NormSemD lhs rhs cmp ρ a b nz := by
  rw [tryNormalize_eq] at h
  cases hp : pickOf d lhs cmp rhs with
  | none => simp [hp] at h
  | some p =>
    obtain ⟨e', cmp', c⟩ := p
    obtain ⟨hwhich, hlv, hsem⟩ := pickOf_specD hp
    obtain ⟨x, k, hx, rfl, hcmp⟩ := hsem ρ a b ha hb
    have hsc : ∀ y ∈ varsOf e', S y := by rcases hwhich with rfl | rfl; exacts [hl, hr]
    have h01 : B01 x := logicValue_b01 hlv hsc hB hx
    simp only [hp] at h
    by_cases hnum : ∃ v, e' = .num v
    · obtain ⟨v, rfl⟩ := hnum
      simp only at h
      rw [eval_num_some hx, cmpHolds_fin] at h
      by_cases hc : cmpK cmp' x k = true
      · simp [hc] at h; subst h; simp only [NormSemD, hcmp, hc]
      · simp [hc] at h; subst h; simp only [NormSemD, hcmp]; simpa using hc
    · have h' : (match cmpHolds (Arith.zero : Ext K) cmp' (Ext.fin k), cmpHolds (Arith.one : Ext K) cmp' (Ext.fin k) with
          | false, true => some (Normalized.assertion e' true)
          | true, false => some (Normalized.assertion e' false)
          | true, true => if Exp.mayBeUndefined e' then none else some Normalized.tautology
          | false, false => if Exp.mayBeUndefined e' then none else some Normalized.contradiction) = some nz := by
        cases e' with
        | num v => exact absurd ⟨v, rfl⟩ hnum
        | _ => exact h
      simp only [ar_zero, ar_one, cmpHolds_fin] at h'
      have htr : ∀ t : Bool, HasTruth e' t ρ ↔ x = ofBool t := by
        intro t; simp [HasTruth, hx]
      split at h'
      · rename_i h0 h1
        simp at h'; subst h'; simp only [NormSemD, hcmp]
        refine ⟨hwhich, ?_⟩
        rw [htr]
        rcases h01 with rfl | rfl <;> simp [h0, h1, ofBool]
      · rename_i h0 h1
        simp at h'; subst h'; simp only [NormSemD, hcmp]
        refine ⟨hwhich, ?_⟩
        rw [htr]
        rcases h01 with rfl | rfl <;> simp [h0, h1, ofBool]
      · rename_i h0 h1
        split at h'
        · simp at h'
        · simp at h'; subst h'; simp only [NormSemD, hcmp]
          rcases h01 with rfl | rfl <;> simp [h0, h1]
      · rename_i h0 h1
        split at h'
        · simp at h'
        · simp at h'; subst h'; simp only [NormSemD, hcmp]
          rcases h01 with rfl | rfl <;> simp [h0, h1]

/-! ### one loop step -/

theorem constraintHolds_assert {c : Constraint (Ext K)} (hc : c.isAssert = true) (ρ : String → K) :
    constraintHolds ρ c = true ↔ eval ρ c.lhs = some 1 := by
  simp only [constraintHolds, hc, if_true]
  cases eval ρ c.lhs with
  | none => simp
  | some v => simp [kone]

/-- a source constraint (comparison or bare assertion, logic values allowed). -/
theorem step_srcD {d0 : List (DomVar (Ext K))} {c : Constraint (Ext K)} {s : St (Ext K)}
    {r : Unit × St (Ext K)} (hinv : LoopInvD d0 s) (hc : SrcD d0 c) (h : processConstraint c s = .ok r) :
    LoopInvD d0 r.2 ∧ StepOK s r.2 (fun ρ => constraintHolds ρ c = true) := by
  -- definedness of the sides is a consequence of the successful iteration
  have hdef := fun (ρ : String → K) (hd : DomSat ρ d0) => process_defined h hc ρ hd
  have gl : GoodE d0 c.lhs := hc.lhs.withDef (fun ρ hd => def_iff_exists.mp (hdef ρ hd).1)
  unfold processConstraint at h
  simp only [bind_ok, simplifyFlat_ok] at h
  obtain ⟨lhs', s1, ⟨fl1, hf1, h1⟩, rhs', s2, ⟨fl2, hf2, h2⟩, h3⟩ := h
  cases h1; cases h2
  obtain ⟨hl', hevl⟩ := (hinv.good gl).normalize hf1
  obtain ⟨u, s'⟩ := r
  by_cases hA : c.isAssert = true
  · -- a bare assertion
    simp only [hA, if_true] at h3
    have A := lowerAssertion_spec lhs' true c.name s s' hinv hl'.vars hl'.fin hl'.defd h3
    refine ⟨A.inv, A.step.congr ?_⟩
    intro ρ hs
    rw [constraintHolds_assert hA, HasTruth, hevl ρ hs.dom]
    simp [ofBool]
  · have hA' : c.isAssert = false := by simpa using hA
    have gr : GoodE d0 c.rhs := hc.rhs.withDef (fun ρ hd => def_iff_exists.mp ((hdef ρ hd).2 hA'))
    obtain ⟨hr', hevr⟩ := (hinv.good gr).normalize hf2
    simp only [hA', Bool.false_eq_true, if_false] at h3
    -- the meaning of the comparison through the normalised sides
    have hmean : ∀ ρ : String → K, Sat ρ s → (constraintHolds ρ c = true ↔
        ∃ a b, eval ρ lhs' = some a ∧ eval ρ rhs' = some b ∧ cmpK c.cmp a b = true) := by
      intro ρ hs
      obtain ⟨a, ha⟩ := hl'.defd ρ hs.dom
      obtain ⟨b, hb⟩ := hr'.defd ρ hs.dom
      have ha0 : eval ρ c.lhs = some a := by rw [← hevl ρ hs.dom]; exact ha
      have hb0 : eval ρ c.rhs = some b := by rw [← hevr ρ hs.dom]; exact hb
      rw [constraintHolds_arith hA' ha0 hb0]
      constructor
      · intro h; exact ⟨a, b, ha, hb, h⟩
      · rintro ⟨a', b', ha', hb', h⟩
        rw [ha] at ha'; rw [hb] at hb'; cases ha'; cases hb'; exact h
    unfold dispatch at h3
    simp only [bind_ok, get_ok] at h3
    obtain ⟨s0, s0', h0, h3⟩ := h3
    cases h0
    cases hN : tryNormalize s.domain lhs' c.cmp rhs' with
    | none =>
      simp only [hN] at h3
      obtain ⟨i1, i2⟩ := emit_gen hinv hl' hr' h3
      exact ⟨i1, i2.congr (fun ρ hs => (hmean ρ hs).symm)⟩
    | some nz =>
      have hsem : ∀ ρ : String → K, Sat ρ s → ∀ a b, eval ρ lhs' = some a → eval ρ rhs' = some b →
          NormSemD lhs' rhs' c.cmp ρ a b nz :=
        fun ρ hs a b ha hb => normalize_semD hl'.vars hr'.vars hN ρ a b ha hb (hinv.boolOK hs.dom)
      cases nz with
      | tautology =>
        simp only [hN, pure_ok, Prod.mk.injEq, true_and] at h3
        subst h3
        refine ⟨hinv, StepOK.refl ?_⟩
        intro ρ hs
        obtain ⟨a, ha⟩ := hl'.defd ρ hs.dom
        obtain ⟨b, hb⟩ := hr'.defd ρ hs.dom
        have := hsem ρ hs a b ha hb
        simp only [NormSemD] at this
        exact (hmean ρ hs).mpr ⟨a, b, ha, hb, this⟩
      | contradiction =>
        simp only [hN] at h3
        have hbin : BinOn s (.num (Arith.zero : Ext K)) := fun ρ _ v hv => by
          rw [ar_zero, eval_num_fin] at hv; cases hv; exact Or.inl rfl
        have A : AssertOK d0 s s' (.num (Arith.zero : Ext K)) true :=
          assert_row hinv (by rw [ar_zero]; exact AE.num _ _) (by rw [ar_one]; exact AE.num _ _) h3 hbin
            (fun ρ _ => by simp [cmpK_eq_iff, ev_num, HasTruth, eval_num_fin, ofBool])
        refine ⟨A.inv, A.step.congr ?_⟩
        intro ρ hs
        obtain ⟨a, ha⟩ := hl'.defd ρ hs.dom
        obtain ⟨b, hb⟩ := hr'.defd ρ hs.dom
        have := hsem ρ hs a b ha hb
        simp only [NormSemD] at this
        constructor
        · intro ht; simp [HasTruth, eval_num_fin, ofBool] at ht
        · intro hp
          obtain ⟨a', b', ha', hb', h'⟩ := (hmean ρ hs).mp hp
          rw [ha] at ha'; rw [hb] at hb'; cases ha'; cases hb'
          rw [this] at h'; cases h'
      | assertion e t =>
        simp only [hN] at h3
        have hwhich : e = lhs' ∨ e = rhs' := by
          rw [tryNormalize_eq] at hN
          cases hp : pickOf s.domain lhs' c.cmp rhs' with
          | none => simp [hp] at hN
          | some p =>
            obtain ⟨e', cmp', c'⟩ := p
            have h1 := (pickOf_specD hp).1
            simp only [hp] at hN
            split at hN
            · split at hN <;> simp at hN
            · split at hN <;> simp at hN <;> (obtain ⟨rfl, _⟩ := hN; exact h1)
        have he : GoodE s.domain e := by rcases hwhich with rfl | rfl; exacts [hl', hr']
        have A := lowerAssertion_spec e t c.name s s' hinv he.vars he.fin he.defd h3
        refine ⟨A.inv, A.step.congr ?_⟩
        intro ρ hs
        obtain ⟨a, ha⟩ := hl'.defd ρ hs.dom
        obtain ⟨b, hb⟩ := hr'.defd ρ hs.dom
        have := hsem ρ hs a b ha hb
        simp only [NormSemD] at this
        rw [← this.2]
        constructor
        · intro hcm; exact (hmean ρ hs).mpr ⟨a, b, ha, hb, hcm⟩
        · intro hp
          obtain ⟨a', b', ha', hb', h'⟩ := (hmean ρ hs).mp hp
          rw [ha] at ha'; rw [hb] at hb'; cases ha'; cases hb'; exact h'

/-- an affine queue entry pushed by a gadget. -/
theorem step_arithD {d0 : List (DomVar (Ext K))} {c : Constraint (Ext K)} {s : St (Ext K)}
    {r : Unit × St (Ext K)} (hinv : LoopInvD d0 s) (hc : ArithC (inScope s.domain) c) (hd : DefinedC c)
    (h : processConstraint c s = .ok r) :
    LoopInvD d0 r.2 ∧ StepOK s r.2 (fun ρ => constraintHolds ρ c = true) := by
  obtain ⟨new, rfl, hn2, hn3⟩ := process_arith flattenSound simplifySoundArith hc h
  obtain ⟨a0, b0, ha0, hb0⟩ := hd (fun _ => 0)
  have hok := (hn3 _ a0 b0 ha0 hb0).1
  refine ⟨⟨hinv.st.of_eq rfl rfl rfl, hinv.ext0, ?_⟩, ⟨[], by simp⟩, ?_, ?_⟩
  · intro r hr
    simp only [List.mem_append] at hr
    rcases hr with hr | hr
    · exact hinv.rowsOK r hr
    · exact ⟨hok r hr, hn2 r hr⟩
  · intro ρ hs
    obtain ⟨a, b, ha, hb⟩ := hd ρ
    have hB := hinv.boolOK (show DomSat ρ s.domain from hs.dom)
    have := ((hn3 ρ a b ha hb).2 hB).mp (fun row hrow => hs.rows row (by simp [hrow]))
    exact ⟨⟨hs.dom, hs.q, fun r hr => hs.rows r (by simp [hr])⟩, this⟩
  · intro ρ hs hp
    obtain ⟨a, b, ha, hb⟩ := hd ρ
    have hB := hinv.boolOK hs.dom
    have hnew := ((hn3 ρ a b ha hb).2 hB).mpr hp
    refine ⟨ρ, fun _ _ => rfl, hs.dom, hs.q, ?_⟩
    intro r hr
    simp only [List.mem_append] at hr
    rcases hr with hr | hr
    · exact hs.rows r hr
    · exact hnew r hr

/-! ### the loop -/

theorem drainD {d0 : List (DomVar (Ext K))} :
    ∀ (n : Nat) (s : St (Ext K)) (r : Unit × St (Ext K)), LoopInvD d0 s → drain n s = .ok r →
      LoopInvD d0 r.2 ∧ r.2.queue = [] ∧ StepOK s r.2 (fun _ => True) := by
  intro n
  induction n with
  | zero => intro s r _ h; simp [drain, fail_ok] at h
  | succ n ih =>
    intro s r hinv h
    rw [drain_succ] at h
    simp only [bind_ok, get_ok] at h
    obtain ⟨s0, s0', h0, h⟩ := h
    cases h0
    cases hqs : s.queue with
    | nil =>
      simp only [hqs, pure_ok] at h
      subst h
      exact ⟨hinv, hqs, StepOK.refl (fun _ _ => trivial)⟩
    | cons c rest =>
      simp only [hqs, bind_ok, set_ok] at h
      obtain ⟨u, s1, h1, u2, s2, h2, h3⟩ := h
      cases h1
      have hpop := hinv.pop hqs
      have hstep : LoopInvD d0 s2 ∧
          StepOK { s with queue := rest } s2 (fun ρ => constraintHolds ρ c = true) := by
        rcases hinv.st.qgood c (by rw [hqs]; simp) with hsrc | ⟨harith, hdef⟩
        · exact step_srcD hpop hsrc h2
        · exact step_arithD hpop harith hdef h2
      obtain ⟨hinv2, hst⟩ := hstep
      obtain ⟨hinvF, hqF, hstF⟩ := ih s2 r hinv2 h3
      obtain ⟨d1, hd1⟩ := hst.dom
      obtain ⟨d2, hd2⟩ := hstF.dom
      refine ⟨hinvF, hqF, ⟨d1 ++ d2, by rw [hd2, hd1, List.append_assoc]⟩, ?_, ?_⟩
      · intro ρ hs
        obtain ⟨hs2, _⟩ := hstF.sound ρ hs
        obtain ⟨hs1, hc⟩ := hst.sound ρ hs2
        exact ⟨(sat_pop hqs ρ).mpr ⟨hs1, hc⟩, trivial⟩
      · intro ρ hs _
        obtain ⟨hs1, hc⟩ := (sat_pop hqs ρ).mp hs
        obtain ⟨ρ1, hag1, hsat1⟩ := hst.complete ρ hs1 hc
        obtain ⟨ρ2, hag2, hsat2⟩ := hstF.complete ρ1 hsat1 trivial
        exact ⟨ρ2, fun x hx => by rw [hag2 x (hst.scopeMono hx), hag1 x hx], hsat2⟩

end Rooc.LinP
