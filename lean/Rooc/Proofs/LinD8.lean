/-
Stage D, part 8: `lower_logic_assertion`.
-/
import Rooc.Proofs.LinD7

set_option linter.unusedSectionVars false
set_option linter.unusedSimpArgs false
set_option linter.unusedVariables false
set_option linter.unusedTactic false
set_option linter.unreachableTactic false

namespace Rooc.LinP
open Rooc Rooc.Lin Rooc.Sem Rooc.Exp
open Rooc.Lin.Gadget

variable {K : Type} [Field K] [LinearOrder K] [IsStrictOrderedRing K] [FloorRing K]

/-! ### lists of assertions -/

/-- a value that is 0/1 and has the truthiness `t` is `ofBool t`. -/
theorem hasTruth_of_truthy {e : Exp (Ext K)} {ρ : String → K} {v : K} {t : Bool} (hv : eval ρ e = some v)
    (hb : B01 v) (ht : truthy v = t) : HasTruth e t ρ := (truth_of_b01 hv hb t).mpr ht

theorem truthy_of_hasTruth {e : Exp (Ext K)} {ρ : String → K} {t : Bool} (h : HasTruth e t ρ) :
    ∃ v, eval ρ e = some v ∧ truthy v = t := ⟨_, h, truthy_ofBool t⟩

theorem AssertOK.dom {d0 : List (DomVar (Ext K))} {s s' : St (Ext K)} {e : Exp (Ext K)} {t : Bool}
    (A : AssertOK d0 s s' e t) : ∃ decls, s'.domain = s.domain ++ decls := A.step.dom

theorem AssertOK.complete_truthy {d0 : List (DomVar (Ext K))} {s s' : St (Ext K)} {e : Exp (Ext K)} {t : Bool}
    (A : AssertOK d0 s s' e t) {ρ : String → K} (hs : Sat ρ s) {v : K} (hv : eval ρ e = some v)
    (ht : truthy v = t) : ∃ ρ' : String → K, (∀ x, inScope s.domain x → ρ' x = ρ x) ∧ Sat ρ' s' :=
  A.step.complete ρ hs (hasTruth_of_truthy hv (A.bin ρ hs v hv) ht)

/-- a sequence of assertions "every operand has truth `t`". -/
structure AssertListOK (d0 : List (DomVar (Ext K))) (s s' : St (Ext K)) (es : List (Exp (Ext K))) (t : Bool) :
    Prop where
  inv : LoopInvD d0 s'
  dom : ∃ decls, s'.domain = s.domain ++ decls
  sound : ∀ ρ : String → K, Sat ρ s' → Sat ρ s ∧ ∀ e ∈ es, HasTruth e t ρ
  complete : ∀ ρ : String → K, Sat ρ s → (∀ e ∈ es, ∃ v, eval ρ e = some v ∧ truthy v = t) →
    ∃ ρ' : String → K, (∀ x, inScope s.domain x → ρ' x = ρ x) ∧ Sat ρ' s'

theorem AssertListOK.nil {d0 : List (DomVar (Ext K))} {s : St (Ext K)} (hinv : LoopInvD d0 s) (t : Bool) :
    AssertListOK d0 s s [] t :=
  ⟨hinv, ⟨[], by simp⟩, fun ρ hs => ⟨hs, by simp⟩, fun ρ hs _ => ⟨ρ, fun _ _ => rfl, hs⟩⟩

theorem AssertListOK.cons {d0 : List (DomVar (Ext K))} {s s1 s2 : St (Ext K)} {e : Exp (Ext K)}
    {es : List (Exp (Ext K))} {t : Bool} (A : AssertOK d0 s s1 e t) (B : AssertListOK d0 s1 s2 es t)
    (hsc : ∀ e' ∈ es, ∀ y ∈ varsOf e', inScope s.domain y) : AssertListOK d0 s s2 (e :: es) t := by
  refine ⟨B.inv, dom_trans A.dom B.dom, ?_, ?_⟩
  · intro ρ hs
    obtain ⟨hs1, hes⟩ := B.sound ρ hs
    obtain ⟨hs0, he⟩ := A.step.sound ρ hs1
    refine ⟨hs0, ?_⟩
    intro e' he'
    rcases List.mem_cons.mp he' with rfl | he'
    · exact he
    · exact hes e' he'
  · intro ρ hs hall
    obtain ⟨v, hv, ht⟩ := hall e (by simp)
    obtain ⟨ρ1, hag1, hs1⟩ := A.complete_truthy hs hv ht
    obtain ⟨ρ2, hag2, hs2⟩ := B.complete ρ1 hs1 (by
      intro e' he'
      obtain ⟨v', hv', ht'⟩ := hall e' (by simp [he'])
      exact ⟨v', by rw [eval_congr e' (fun y hy => hag1 y (hsc e' he' y hy))]; exact hv', ht'⟩)
    exact ⟨ρ2, fun x hx => by rw [hag2 x (scope_of_dom A.dom hx), hag1 x hx], hs2⟩

/-! ### the closing row `Σ witnesses ≥ 1` of a disjunctive assertion -/

theorem assert_of_witnesses {d0 : List (DomVar (Ext K))} {s s1 : St (Ext K)} {es xs : List (Exp (Ext K))} {t : Bool}
    {name : String} {r : Unit × St (Ext K)} (L : DirListOK d0 s s1 es t xs)
    (h : emitConstraint (sumExps xs) .ge (.num Arith.one) name s1 = .ok r) :
    LoopInvD d0 r.2 ∧ StepOK s r.2 (fun ρ => ∃ e ∈ es, HasTruth e t ρ) := by
  have hsum : AE s1.domain (sumExps xs) := AE.sum (fun x hx => (L.bx x hx).ae)
  have hone : AE s1.domain (.num (Arith.one : Ext K)) := by rw [ar_one]; exact AE.num _ _
  obtain ⟨row, hr, hinv', hrow⟩ := emitA L.inv hsum.ag hone.ag hsum.defd hone.defd h
  rw [hr]
  have hrowT : ∀ ρ : String → K, Sat ρ s1 → (rowTrue ρ row ↔ ∃ x ∈ xs, ev ρ x = 1) := by
    intro ρ hs
    rw [hrow ρ _ _ (eval_ev hsum.defd ρ) (eval_ev hone.defd ρ), cmpK_ge_iff, ar_one, ev_num]
    exact sum_ge_one_iff L.bx hs.dom
  refine ⟨hinv', L.dom, ?_, ?_⟩
  · intro ρ hs
    obtain ⟨hs1, hrt⟩ := (sat_addRow ρ).mp hs
    exact ⟨L.back ρ hs1, f2_ex_left (L.sound ρ hs1) ((hrowT ρ hs1).mp hrt)⟩
  · intro ρ hs hex
    obtain ⟨ρ', hag, hs', hF⟩ := L.complete ρ hs
    exact ⟨ρ', hag, (sat_addRow ρ').mpr ⟨hs', (hrowT ρ' hs').mpr (f2_ex_right hF hex)⟩⟩

/-! ### sequencing two steps -/

theorem StepOK.seq {s s1 s2 : St (Ext K)} {P1 P2 : (String → K) → Prop} (A : StepOK s s1 P1)
    (B : StepOK s1 s2 P2)
    (hP2 : ∀ ρ ρ' : String → K, (∀ x, inScope s.domain x → ρ' x = ρ x) → (P2 ρ' ↔ P2 ρ)) :
    StepOK s s2 (fun ρ => P1 ρ ∧ P2 ρ) := by
  obtain ⟨d1, hd1⟩ := A.dom
  obtain ⟨d2, hd2⟩ := B.dom
  refine ⟨⟨d1 ++ d2, by rw [hd2, hd1, List.append_assoc]⟩, ?_, ?_⟩
  · intro ρ hs
    obtain ⟨hs1, h2⟩ := B.sound ρ hs
    obtain ⟨hs0, h1⟩ := A.sound ρ hs1
    exact ⟨hs0, h1, h2⟩
  · rintro ρ hs ⟨h1, h2⟩
    obtain ⟨ρ1, hag1, hs1⟩ := A.complete ρ hs h1
    obtain ⟨ρ2, hag2, hs2⟩ := B.complete ρ1 hs1 ((hP2 ρ ρ1 hag1).mpr h2)
    exact ⟨ρ2, fun x hx => by rw [hag2 x (A.scopeMono hx), hag1 x hx], hs2⟩

/-! ### `lower_logic_assertion` -/

def LASpec (d0 : List (DomVar (Ext K))) (e : Exp (Ext K)) : Prop :=
  ∀ (t : Bool) (name : String) (s s' : St (Ext K)), LoopInvD d0 s → (∀ y ∈ varsOf e, inScope s.domain y) →
    FinE e → DefOn s.domain e → lowerAssertion e t name s = .ok ((), s') → AssertOK d0 s s' e t

/-- the common prefix: the affine path, or the continuation from the unchanged state. -/
theorem la_prefix {d0 : List (DomVar (Ext K))} {e : Exp (Ext K)} {t : Bool} {name : String} {s s' : St (Ext K)}
    {k : M (Ext K) Unit} (hinv : LoopInvD d0 s) (hsc : ∀ y ∈ varsOf e, inScope s.domain y)
    (h : (tryLowerAffine e t name >>= fun b => if b = true then pure () else k) s = .ok ((), s')) :
    AssertOK d0 s s' e t ∨ k s = .ok ((), s') := by
  simp only [bind_ok] at h
  obtain ⟨b, s1, h1, h2⟩ := h
  obtain ⟨hf, ht⟩ := tryLowerAffine_spec e t name s b s1 hinv hsc h1
  cases b with
  | true =>
    simp only [if_true, pure_ok, Prod.mk.injEq, true_and] at h2
    subst h2
    exact Or.inl (ht rfl)
  | false =>
    simp only [Bool.false_eq_true, if_false] at h2
    rw [hf rfl] at h2
    exact Or.inr h2

theorem laList_spec {d0 : List (DomVar (Ext K))} : ∀ (es : List (Exp (Ext K))), (∀ e ∈ es, LASpec d0 e) →
    ∀ (t : Bool) (name : String) (s s' : St (Ext K)), LoopInvD d0 s →
    (∀ e ∈ es, ∀ y ∈ varsOf e, inScope s.domain y) → (∀ e ∈ es, FinE e) → (∀ e ∈ es, DefOn s.domain e) →
    lowerAssertionList es t name s = .ok ((), s') → AssertListOK d0 s s' es t := by
  intro es
  induction es with
  | nil =>
    intro _ t name s s' hinv _ _ _ h
    rw [lowerAssertionList] at h
    simp only [pure_ok, Prod.mk.injEq, true_and] at h
    subst h
    exact AssertListOK.nil hinv t
  | cons e es ih =>
    intro hall t name s s' hinv hsc hfin hdef h
    rw [lowerAssertionList] at h
    simp only [bind_ok] at h
    obtain ⟨u, s1, h1, h2⟩ := h
    have A := hall e (by simp) t name s s1 hinv (hsc e (by simp)) (hfin e (by simp)) (hdef e (by simp)) h1
    have B := ih (fun e' he' => hall e' (by simp [he'])) t name s1 s' A.inv
      (fun e' he' y hy => scope_of_dom A.dom (hsc e' (by simp [he']) y hy))
      (fun e' he' => hfin e' (by simp [he']))
      (fun e' he' => DefOn.of_dom A.dom (hdef e' (by simp [he']))) h2
    exact AssertListOK.cons A B (fun e' he' => hsc e' (by simp [he']))

theorem la_num {d0 : List (DomVar (Ext K))} (v : Ext K) : LASpec d0 (.num v) := by
  intro t name s s' hinv hsc hfin hdef h
  obtain ⟨k, rfl⟩ := hfin.num
  rw [lowerAssertion] at h
  have hne : ∀ a b : K, Arith.ne (Ext.fin a) (Ext.fin b) = !(decide (a = b)) := by
    intro a b; simp [Arith.ne, Arith.eq, Ext.eq]
  simp only [ar_zero, ar_one, hne, ar_eq] at h
  by_cases h0 : k = 0
  · subst h0
    have hbin : BinOn s (.num (Ext.fin (0 : K))) := fun ρ _ v hv => by
      rw [eval_num_fin] at hv; cases hv; exact Or.inl rfl
    cases t with
    | false =>
      simp [pure_ok] at h
      subst h
      exact ⟨hinv, StepOK.refl (fun ρ _ => by simp [HasTruth, eval_num_fin, ofBool]), hbin⟩
    | true =>
      simp at h
      refine assert_row hinv (AE.num _ 0) (AE.num _ 1) h hbin (fun ρ _ => ?_)
      simp [cmpK_eq_iff, ev_num, HasTruth, eval_num_fin, ofBool]
  · by_cases h1 : k = 1
    · subst h1
      have hbin : BinOn s (.num (Ext.fin (1 : K))) := fun ρ _ v hv => by
        rw [eval_num_fin] at hv; cases hv; exact Or.inr rfl
      cases t with
      | true =>
        simp [pure_ok] at h
        subst h
        exact ⟨hinv, StepOK.refl (fun ρ _ => by simp [HasTruth, eval_num_fin, ofBool]), hbin⟩
      | false =>
        simp at h
        refine assert_row hinv (AE.num _ 0) (AE.num _ 1) h hbin (fun ρ _ => ?_)
        simp [cmpK_eq_iff, ev_num, HasTruth, eval_num_fin, ofBool]
    · simp [h0, h1, fail_ok] at h

theorem la_var {d0 : List (DomVar (Ext K))} (n : String) : LASpec d0 (.var n) := by
  intro t name s s' hinv hsc _ _ h
  rw [lowerAssertion] at h
  rcases la_prefix hinv hsc h with A | h
  · exact A
  · simp [fail_ok] at h

theorem la_not {d0 : List (DomVar (Ext K))} {e : Exp (Ext K)} (ih : LASpec d0 e) : LASpec d0 (.not e) := by
  intro t name s s' hinv hsc hfin hdef h
  rw [lowerAssertion] at h
  rcases la_prefix hinv hsc h with A | h
  · exact A
  · exact (ih (!t) name s s' hinv (by simpa [varsOf] using hsc) hfin.not hdef.not h).not hdef.not

theorem la_fail {d0 : List (DomVar (Ext K))} {e : Exp (Ext K)}
    (heq : ∀ (t : Bool) (name : String), lowerAssertion e t name =
      (tryLowerAffine e t name >>= fun b => if b = true then pure () else fail LinErr.nonBinaryLogicOperand)) :
    LASpec d0 e := by
  intro t name s s' hinv hsc _ _ h
  rw [heq] at h
  rcases la_prefix hinv hsc h with A | h
  · exact A
  · simp [fail_ok] at h

theorem la_un {d0 : List (DomVar (Ext K))} (op : UnOp) {e : Exp (Ext K)} (ih : LASpec d0 e) :
    LASpec d0 (.un op e) := by
  cases op with
  | neg =>
    refine la_fail (fun t name => ?_)
    rw [lowerAssertion]
    all_goals (intros; first | contradiction | (rename_i hh; cases hh))
  | not =>
    intro t name s s' hinv hsc hfin hdef h
    rw [lowerAssertion] at h
    rcases la_prefix hinv hsc h with A | h
    · exact A
    · exact (ih (!t) name s s' hinv (by simpa [varsOf] using hsc) hfin.unot hdef.unot h).unot hdef.unot

theorem la_and {d0 : List (DomVar (Ext K))} {es : List (Exp (Ext K))} (ih : ∀ e ∈ es, LASpec d0 e) :
    LASpec d0 (.and es) := by
  intro t name s s' hinv hsc hfin hdef h
  rw [lowerAssertion] at h
  rcases la_prefix hinv hsc h with A | h
  · exact A
  have hscl := vars_list (d := s.domain) (es := es) (by simpa [varsOf] using hsc)
  cases t with
  | true =>
    simp only [if_true] at h
    have L := laList_spec es ih true name s s' hinv hscl hfin.and_mem hdef.and_mem h
    refine ⟨L.inv, ⟨L.dom, ?_, ?_⟩, binOn_and _ _⟩
    · intro ρ hs
      obtain ⟨hs0, hall⟩ := L.sound ρ hs
      exact ⟨hs0, and_true_intro hall⟩
    · intro ρ hs ht
      obtain ⟨vs, hvs, _⟩ := eval_and_some ht
      have hall := (hasTruth_and' hvs true).mp ht
      refine L.complete ρ hs (fun e he => ?_)
      obtain ⟨v, hv, hev⟩ := (evalList_mem hvs).1 e he
      exact ⟨v, hev, List.all_eq_true.mp hall v hv⟩
  | false =>
    simp only [Bool.false_eq_true, if_false, bind_ok] at h
    obtain ⟨xs, s1, hL, h2⟩ := h
    have L := dirList_spec es (fun e _ => dirWitness_spec e) false s xs s1 hinv hscl hfin.and_mem hdef.and_mem hL
    obtain ⟨hinv', hstep⟩ := assert_of_witnesses L h2
    refine ⟨hinv', hstep.congr ?_, binOn_and _ _⟩
    intro ρ hs
    exact ⟨fun hex => and_false_intro hex (hdef ρ hs.dom),
      fun ht => and_false_elim ht (fun e he v hv => L.bin e he ρ hs v hv)⟩

theorem la_or {d0 : List (DomVar (Ext K))} {es : List (Exp (Ext K))} (ih : ∀ e ∈ es, LASpec d0 e) :
    LASpec d0 (.or es) := by
  intro t name s s' hinv hsc hfin hdef h
  rw [lowerAssertion] at h
  rcases la_prefix hinv hsc h with A | h
  · exact A
  have hscl := vars_list (d := s.domain) (es := es) (by simpa [varsOf] using hsc)
  cases t with
  | false =>
    simp only [Bool.false_eq_true, if_false] at h
    have L := laList_spec es ih false name s s' hinv hscl hfin.or_mem hdef.or_mem h
    refine ⟨L.inv, ⟨L.dom, ?_, ?_⟩, binOn_or _ _⟩
    · intro ρ hs
      obtain ⟨hs0, hall⟩ := L.sound ρ hs
      exact ⟨hs0, or_false_intro hall⟩
    · intro ρ hs ht
      obtain ⟨vs, hvs, _⟩ := eval_or_some ht
      have hany := (hasTruth_or' hvs false).mp ht
      refine L.complete ρ hs (fun e he => ?_)
      obtain ⟨v, hv, hev⟩ := (evalList_mem hvs).1 e he
      refine ⟨v, hev, ?_⟩
      by_contra hne
      have hvt : truthy v = true := by simpa using hne
      have : vs.any truthy = true := List.any_eq_true.mpr ⟨v, hv, hvt⟩
      rw [this] at hany; cases hany
  | true =>
    simp only [if_true, bind_ok] at h
    obtain ⟨xs, s1, hL, h2⟩ := h
    have L := dirList_spec es (fun e _ => dirWitness_spec e) true s xs s1 hinv hscl hfin.or_mem hdef.or_mem hL
    obtain ⟨hinv', hstep⟩ := assert_of_witnesses L h2
    refine ⟨hinv', hstep.congr ?_, binOn_or _ _⟩
    intro ρ hs
    exact ⟨fun hex => or_true_intro hex (hdef ρ hs.dom),
      fun ht => or_true_elim ht (fun e he v hv => L.bin e he ρ hs v hv)⟩

/-! ### two binary operands and one row (`iff` / `xor` assertions) -/

theorem assert_pair {d0 : List (DomVar (Ext K))} {s s1 s2 : St (Ext K)} {l r a b e : Exp (Ext K)} {t same : Bool}
    {name : String} {r3 : Unit × St (Ext K)} (hinv : LoopInvD d0 s)
    (hl : ∀ y ∈ varsOf l, inScope s.domain y) (hr : ∀ y ∈ varsOf r, inScope s.domain y)
    (hfl : FinE l) (hfr : FinE r) (hdl : DefOn s.domain l) (hdr : DefOn s.domain r)
    (h1 : linBinaryOperand l s = .ok (a, s1)) (h2 : linBinaryOperand r s1 = .ok (b, s2))
    (h3 : (if same = true then emitConstraint a .eq b name
           else emitConstraint (addExp a b) .eq (.num Arith.one) name) s2 = .ok r3)
    (hT : ∀ (ρ : String → K) (x y : K), eval ρ l = some x → eval ρ r = some y → B01 x → B01 y →
      (HasTruth e t ρ ↔ ((x = 1 ↔ y = 1) ↔ same = true)))
    (hbin : BinOn s e) : AssertOK d0 s r3.2 e t := by
  obtain ⟨inv1, dom1, ba, back1, val1, comp1⟩ := binOperand_step hinv hl hfl h1
  obtain ⟨inv2, dom2, bb, back2, val2, comp2⟩ := binOperand_step inv1 (fun y hy => scope_of_dom dom1 (hr y hy)) hfr h2
  have ba2 : BExp s2.domain a := BExp.of_dom dom2 ba
  have hone : AE s2.domain (.num (Arith.one : Ext K)) := by rw [ar_one]; exact AE.num _ _
  -- the row and its meaning
  have hrow : ∃ row : MidRow (Ext K), r3.2 = addRow s2 row ∧ LoopInvD d0 (addRow s2 row) ∧
      ∀ ρ : String → K, DomSat ρ s2.domain →
        (rowTrue ρ row ↔ ((ev ρ a = 1 ↔ ev ρ b = 1) ↔ same = true)) := by
    cases same with
    | true =>
      simp only [if_true] at h3
      obtain ⟨row, hr3, hinv3, hsem⟩ := emitA inv2 ba2.ag bb.ag ba2.defd bb.defd h3
      refine ⟨row, hr3, hinv3, fun ρ hd => ?_⟩
      rw [hsem ρ _ _ (eval_ev ba2.defd ρ) (eval_ev bb.defd ρ), cmpK_eq_iff,
        assert_iff_true (ba2.ev01 hd) (bb.ev01 hd)]
      simp
    | false =>
      simp only [Bool.false_eq_true, if_false] at h3
      obtain ⟨row, hr3, hinv3, hsem⟩ := emitA inv2 (ba2.ae.add bb.ae).ag hone.ag (ba2.ae.add bb.ae).defd hone.defd h3
      refine ⟨row, hr3, hinv3, fun ρ hd => ?_⟩
      rw [hsem ρ _ _ (eval_ev (ba2.ae.add bb.ae).defd ρ) (eval_ev hone.defd ρ), cmpK_eq_iff,
        ev_add ba2.defd bb.defd, ar_one, ev_num, assert_iff_false (ba2.ev01 hd) (bb.ev01 hd)]
      simp
  obtain ⟨row, hr3, hinv3, hsem⟩ := hrow
  rw [hr3]
  refine ⟨hinv3, ⟨dom_trans dom1 dom2, ?_, ?_⟩, hbin⟩
  · intro ρ hs
    obtain ⟨hs2, hrt⟩ := (sat_addRow ρ).mp hs
    have hs1 := back2 ρ hs2
    have hs0 := back1 ρ hs1
    obtain ⟨x, hx⟩ := hdl ρ hs0.dom
    obtain ⟨y, hy⟩ := hdr ρ hs0.dom
    have hxa : ev ρ a = x := val1 ρ hs1 x hx
    have hyb : ev ρ b = y := val2 ρ hs2 y hy
    refine ⟨hs0, (hT ρ x y hx hy (hxa ▸ ba2.ev01 hs2.dom) (hyb ▸ bb.ev01 hs2.dom)).mpr ?_⟩
    have := (hsem ρ hs2.dom).mp hrt
    rwa [hxa, hyb] at this
  · intro ρ hs ht
    obtain ⟨x, hx⟩ := hdl ρ hs.dom
    obtain ⟨y, hy⟩ := hdr ρ hs.dom
    obtain ⟨ρ1, hag1, hs1, hva⟩ := comp1 ρ hs x hx
    have hy1 : eval ρ1 r = some y := by rw [eval_congr r (fun z hz => hag1 z (hr z hz))]; exact hy
    obtain ⟨ρ2, hag2, hs2, hvb⟩ := comp2 ρ1 hs1 y hy1
    have hva2 : ev ρ2 a = x := by rw [ev_congr (fun z hz => hag2 z (ba.ag.2 z hz))]; exact hva
    have hA : B01 x := hva2 ▸ ba2.ev01 hs2.dom
    have hB : B01 y := hvb ▸ bb.ev01 hs2.dom
    refine ⟨ρ2, fun z hz => by rw [hag2 z (scope_of_dom dom1 hz), hag1 z hz],
      (sat_addRow ρ2).mpr ⟨hs2, (hsem ρ2 hs2.dom).mpr ?_⟩⟩
    rw [hva2, hvb]
    exact (hT ρ x y hx hy hA hB).mp ht

theorem la_iff {d0 : List (DomVar (Ext K))} (l r : Exp (Ext K)) : LASpec d0 (.iff l r) := by
  intro t name s s' hinv hsc hfin hdef h
  rw [lowerAssertion] at h
  rcases la_prefix hinv hsc h with A | h
  · exact A
  simp only [bind_ok] at h
  obtain ⟨a, s1, h1, b, s2, h2, h3⟩ := h
  obtain ⟨hdl, hdr⟩ := defOn_pair (eval_iff_eq · l r) hdef
  exact assert_pair (same := t) hinv (fun y hy => hsc y (by simp [varsOf, hy]))
    (fun y hy => hsc y (by simp [varsOf, hy])) (FinE_iff hfin).1 (FinE_iff hfin).2 hdl hdr h1 h2 h3
    (fun ρ x y hx hy hA hB => hasTruth_iff hx hy hA hB t) (binOn_iff _ _ _)

theorem la_xor {d0 : List (DomVar (Ext K))} (l r : Exp (Ext K)) : LASpec d0 (.xor l r) := by
  intro t name s s' hinv hsc hfin hdef h
  rw [lowerAssertion] at h
  rcases la_prefix hinv hsc h with A | h
  · exact A
  simp only [bind_ok] at h
  obtain ⟨a, s1, h1, b, s2, h2, h3⟩ := h
  obtain ⟨hdl, hdr⟩ := defOn_pair (eval_xor_eq · l r) hdef
  have h3' : (if (!t) = true then emitConstraint a .eq b name
      else emitConstraint (addExp a b) .eq (.num Arith.one) name) s2 = .ok ((), s') := by
    cases t <;> simpa using h3
  exact assert_pair (same := !t) hinv (fun y hy => hsc y (by simp [varsOf, hy]))
    (fun y hy => hsc y (by simp [varsOf, hy])) (hfin.xor_mem l (by simp)) (hfin.xor_mem r (by simp)) hdl hdr
    h1 h2 h3'
    (fun ρ x y hx hy hA hB => by
      rw [hasTruth_xor hx hy hA hB t]; cases t <;> simp)
    (binOn_xor _ _ _)

theorem la_implies {d0 : List (DomVar (Ext K))} {l r : Exp (Ext K)} (ihl : LASpec d0 l) (ihr : LASpec d0 r) :
    LASpec d0 (.implies l r) := by
  intro t name s s' hinv hsc hfin hdef h
  have hscl : ∀ y ∈ varsOf l, inScope s.domain y := fun y hy => hsc y (by simp [varsOf, hy])
  have hscr : ∀ y ∈ varsOf r, inScope s.domain y := fun y hy => hsc y (by simp [varsOf, hy])
  have hfl : FinE l := hfin.implies_mem l (by simp)
  have hfr : FinE r := hfin.implies_mem r (by simp)
  obtain ⟨hdl, hdr⟩ := defOn_pair (eval_implies_eq · l r) hdef
  rw [lowerAssertion] at h
  rcases la_prefix hinv hsc h with A | h
  · exact A
  cases t with
  | true =>
    simp only [if_true, bind_ok] at h
    obtain ⟨w1, s1, h1, w2, s2, h2, h3⟩ := h
    have A1 : DirOK d0 s s1 (.not l) true w1 := (dirWitness_spec l false s w1 s1 hinv hscl hfl hdl h1).toNot
    have A2 : DirOK d0 s1 s2 r true w2 :=
      dirWitness_spec r true s1 w2 s2 A1.inv (fun y hy => scope_of_dom A1.dom (hscr y hy)) hfr
        (DefOn.of_dom A1.dom hdr) h2
    have L : DirListOK d0 s s2 [.not l, r] true [w1, w2] :=
      DirListOK.cons A1 (DirListOK.cons A2 (DirListOK.nil A2.inv true) (by simp))
        (by intro e' he' y hy; simp only [List.mem_singleton] at he'; subst he'; exact hscr y hy)
    obtain ⟨hinv', hstep⟩ := assert_of_witnesses L h3
    refine ⟨hinv', hstep.congr ?_, binOn_implies _ _ _⟩
    intro ρ hs
    have hd' : ∃ v, eval ρ (.or [.not l, r]) = some v := by
      rw [← eval_implies_as_or]; exact hdef ρ hs.dom
    simp only [HasTruth, eval_implies_as_or]
    exact ⟨fun hex => or_true_intro hex hd',
      fun ht => or_true_elim ht (fun e he v hv => L.bin e he ρ hs v hv)⟩
  | false =>
    simp only [Bool.false_eq_true, if_false, bind_ok] at h
    obtain ⟨u, s1, h1, h2⟩ := h
    have A1 := ihl true name s s1 hinv hscl hfl hdl h1
    have A2 := ihr false name s1 s' A1.inv (fun y hy => scope_of_dom A1.dom (hscr y hy)) hfr
      (DefOn.of_dom A1.dom hdr) h2
    refine ⟨A2.inv, ⟨dom_trans A1.dom A2.dom, ?_, ?_⟩, binOn_implies _ _ _⟩
    · intro ρ hs
      obtain ⟨hs1, hr0⟩ := A2.step.sound ρ hs
      obtain ⟨hs0, hl1⟩ := A1.step.sound ρ hs1
      refine ⟨hs0, ?_⟩
      have := eval_implies_of (hasTruth_true_iff.mp hl1) (hasTruth_false_iff.mp hr0)
      simpa [HasTruth, truthy] using this
    · intro ρ hs ht
      obtain ⟨x, hx⟩ := hdl ρ hs.dom
      obtain ⟨y, hy⟩ := hdr ρ hs.dom
      have hval : (ofBool (!(truthy x) || truthy y) : K) = ofBool false := by
        have := ht; rw [HasTruth, eval_implies_of hx hy] at this; simpa using this
      rw [ofBool_inj] at hval
      have hxt : truthy x = true := by cases hh : truthy x <;> simp [hh] at hval ⊢
      have hyt : truthy y = false := by cases hh : truthy y <;> simp [hh, hxt] at hval ⊢
      obtain ⟨ρ1, hag1, hs1⟩ := A1.complete_truthy hs hx hxt
      have hy1 : eval ρ1 r = some y := by rw [eval_congr r (fun z hz => hag1 z (hscr z hz))]; exact hy
      obtain ⟨ρ2, hag2, hs2⟩ := A2.complete_truthy hs1 hy1 hyt
      exact ⟨ρ2, fun z hz => by rw [hag2 z (scope_of_dom A1.dom hz), hag1 z hz], hs2⟩

/-- **`lower_logic_assertion`**: on success, the new state has — up to the auxiliaries — exactly the solutions
of the old one at which `e` has the truth value `t`; and `e` is 0/1-valued. -/
theorem lowerAssertion_spec {d0 : List (DomVar (Ext K))} : ∀ e : Exp (Ext K), LASpec d0 e := by
  intro e
  induction e using Exp.ind with
  | num v => exact la_num v
  | var n => exact la_var n
  | not e ih => exact la_not ih
  | un op e ih => exact la_un op ih
  | and es ih => exact la_and ih
  | or es ih => exact la_or ih
  | implies l r ihl ihr => exact la_implies ihl ihr
  | iff l r _ _ => exact la_iff l r
  | xor l r _ _ => exact la_xor l r
  | abs e _ =>
    refine la_fail (fun t name => ?_)
    rw [lowerAssertion]
    all_goals (intros; first | contradiction | (rename_i hh; cases hh))
  | min es _ =>
    refine la_fail (fun t name => ?_)
    rw [lowerAssertion]
    all_goals (intros; first | contradiction | (rename_i hh; cases hh))
  | max es _ =>
    refine la_fail (fun t name => ?_)
    rw [lowerAssertion]
    all_goals (intros; first | contradiction | (rename_i hh; cases hh))
  | bin op a b _ _ =>
    refine la_fail (fun t name => ?_)
    rw [lowerAssertion]
    all_goals (intros; first | contradiction | (rename_i hh; cases hh))

end Rooc.LinP
