/-
Stage D, part 4: `try_lower_affine_logic_assertion`.
-/
import Rooc.Proofs.LinD3

set_option linter.unusedSectionVars false
set_option linter.unusedSimpArgs false
set_option linter.unusedVariables false
set_option linter.unusedTactic false
set_option linter.unreachableTactic false

namespace Rooc.LinP
open Rooc Rooc.Lin Rooc.Sem Rooc.Exp
open Rooc.Lin.Gadget

variable {K : Type} [Field K] [LinearOrder K] [IsStrictOrderedRing K] [FloorRing K]

/-! ### values of everywhere-defined affine expressions -/

/-- the value of an expression (0 where undefined). -/
noncomputable def ev (ρ : String → K) (x : Exp (Ext K)) : K := (eval ρ x).getD 0

theorem eval_ev {x : Exp (Ext K)} (h : DefinedE x) (ρ : String → K) : eval ρ x = some (ev ρ x) := by
  obtain ⟨v, hv⟩ := h ρ; simp [ev, hv]

theorem ev_eq {x : Exp (Ext K)} {ρ : String → K} {v : K} (h : eval ρ x = some v) : ev ρ x = v := by simp [ev, h]

/-- arithmetic, over declared used variables, defined everywhere. -/
structure AE (d : List (DomVar (Ext K))) (x : Exp (Ext K)) : Prop where
  ag : AG (inScope d) x
  defd : DefinedE x

theorem BExp.ae {d : List (DomVar (Ext K))} {x : Exp (Ext K)} (h : BExp d x) : AE d x := ⟨h.ag, h.defd⟩
theorem BExp.ev01 {d : List (DomVar (Ext K))} {x : Exp (Ext K)} (h : BExp d x) {ρ : String → K} (hd : DomSat ρ d) :
    B01 (ev ρ x) := h.b01 ρ hd _ (eval_ev h.defd ρ)

theorem AE.mono {d : List (DomVar (Ext K))} {x : Exp (Ext K)} (h : AE d x) (d' : List (DomVar (Ext K))) :
    AE (d ++ d') x := ⟨⟨h.ag.1, fun y hy => inScope_append_left (h.ag.2 y hy)⟩, h.defd⟩

theorem AE.num (d : List (DomVar (Ext K))) (k : K) : AE d (.num (Ext.fin k)) :=
  ⟨AG_num _, definedE_of_eval (fun _ => k) (fun ρ => eval_num_fin ρ k)⟩
theorem ev_num (ρ : String → K) (k : K) : ev ρ (.num (Ext.fin k)) = k := ev_eq (eval_num_fin ρ k)

theorem AE.var {d : List (DomVar (Ext K))} {w : String} (h : inScope d w) : AE d (.var w) :=
  ⟨AG_var.mpr h, definedE_of_eval (fun ρ => ρ w) (fun ρ => eval_var ρ w)⟩
theorem ev_var (ρ : String → K) (w : String) : ev ρ (.var w : Exp (Ext K)) = ρ w := ev_eq (eval_var ρ w)

theorem AE.add {d : List (DomVar (Ext K))} {a b : Exp (Ext K)} (ha : AE d a) (hb : AE d b) : AE d (addExp a b) :=
  ⟨AG_addExp ha.ag hb.ag, fun ρ => ⟨_, eval_addExp (eval_ev ha.defd ρ) (eval_ev hb.defd ρ)⟩⟩
theorem ev_add {a b : Exp (Ext K)} (ha : DefinedE a) (hb : DefinedE b) (ρ : String → K) :
    ev ρ (addExp a b) = ev ρ a + ev ρ b := ev_eq (eval_addExp (eval_ev ha ρ) (eval_ev hb ρ))
theorem AE.sub {d : List (DomVar (Ext K))} {a b : Exp (Ext K)} (ha : AE d a) (hb : AE d b) : AE d (subExp a b) :=
  ⟨AG_subExp ha.ag hb.ag, fun ρ => ⟨_, eval_subExp (eval_ev ha.defd ρ) (eval_ev hb.defd ρ)⟩⟩
theorem ev_sub {a b : Exp (Ext K)} (ha : DefinedE a) (hb : DefinedE b) (ρ : String → K) :
    ev ρ (subExp a b) = ev ρ a - ev ρ b := ev_eq (eval_subExp (eval_ev ha ρ) (eval_ev hb ρ))

theorem forall₂_ev (ρ : String → K) : ∀ {os : List (Exp (Ext K))}, (∀ o ∈ os, DefinedE o) →
    List.Forall₂ (fun o x => eval ρ o = some x) os (os.map (ev ρ))
  | [], _ => List.Forall₂.nil
  | o :: os, h => List.Forall₂.cons (eval_ev (h o (by simp)) ρ) (forall₂_ev ρ (fun o' ho' => h o' (by simp [ho'])))

theorem AE.sum {d : List (DomVar (Ext K))} {os : List (Exp (Ext K))} (h : ∀ o ∈ os, AE d o) : AE d (sumExps os) :=
  ⟨AG_sumExps (fun o ho => (h o ho).ag), definedE_sumExps (fun o ho => (h o ho).defd)⟩
theorem ev_sum {os : List (Exp (Ext K))} (h : ∀ o ∈ os, DefinedE o) (ρ : String → K) :
    ev ρ (sumExps os) = (os.map (ev ρ)).sum := ev_eq (eval_sumExps ρ (forall₂_ev ρ h))

theorem ev_ctxToExp {c : Ctx (Ext K)} (h : CtxOK c) (ρ : String → K) : ev ρ (ctxToExp c) = ctxVal ρ c :=
  ev_eq (ctxToExp_eval ρ h)

/-! ### assertions -/

/-- `e` has the truth value `t`: it evaluates to `1` (`t = true`) / `0` (`t = false`). -/
def HasTruth (e : Exp (Ext K)) (t : Bool) (ρ : String → K) : Prop := eval ρ e = some (ofBool t)

/-- `e` is 0/1-valued at every solution of the state. -/
def BinOn (s : St (Ext K)) (e : Exp (Ext K)) : Prop :=
  ∀ ρ : String → K, Sat ρ s → ∀ v, eval ρ e = some v → B01 v

/-- a successful lowering of "the truth of `e` is `t`" from `s` to `s'`. -/
structure AssertOK (d0 : List (DomVar (Ext K))) (s s' : St (Ext K)) (e : Exp (Ext K)) (t : Bool) : Prop where
  inv : LoopInvD d0 s'
  step : StepOK s s' (HasTruth e t)
  bin : BinOn s e

theorem ofBool_inj {a b : Bool} : (ofBool a : K) = ofBool b ↔ a = b := by
  cases a <;> cases b <;> simp [ofBool]

theorem ofBool_eq_one {b : Bool} : (ofBool b : K) = 1 ↔ b = true := by cases b <;> simp [ofBool]
theorem ofBool_eq_zero {b : Bool} : (ofBool b : K) = 0 ↔ b = false := by cases b <;> simp [ofBool]

/-- a 0/1 value `v` equals `ofBool t` iff (`v = 1` iff `t`). -/
theorem b01_eq_ofBool {v : K} (hv : B01 v) (t : Bool) : v = ofBool t ↔ (v = 1 ↔ t = true) :=
  eq_ofBool_iff hv t

/-- an assertion lowered to one affine row. -/
theorem assert_row {d0 : List (DomVar (Ext K))} {s : St (Ext K)} {L R : Exp (Ext K)} {cmp : Cmp} {name : String}
    {r : Unit × St (Ext K)} {e : Exp (Ext K)} {t : Bool} (hinv : LoopInvD d0 s)
    (hL : AE s.domain L) (hR : AE s.domain R) (h : emitConstraint L cmp R name s = .ok r)
    (hbin : BinOn s e)
    (hsem : ∀ ρ : String → K, DomSat ρ s.domain → (cmpK cmp (ev ρ L) (ev ρ R) = true ↔ HasTruth e t ρ)) :
    AssertOK d0 s r.2 e t := by
  obtain ⟨row, hr, hinv', hrow⟩ := emitA hinv hL.ag hR.ag hL.defd hR.defd h
  rw [hr]
  refine ⟨hinv', stepOK_addRow ?_, hbin⟩
  intro ρ hs
  rw [hrow ρ _ _ (eval_ev hL.defd ρ) (eval_ev hR.defd ρ)]
  exact hsem ρ hs.dom

/-! ### lists of operands with a binary affine value -/

theorem allSome_cons_some {β : Type} {x : Option β} {xs : List (Option β)} {ys : List β}
    (h : allSome (x :: xs) = some ys) : ∃ y ys', x = some y ∧ allSome xs = some ys' ∧ ys = y :: ys' := by
  cases x with
  | none => simp [allSome] at h
  | some y =>
    simp only [allSome, Option.map_eq_some_iff] at h
    obtain ⟨ys', h1, rfl⟩ := h
    exact ⟨y, ys', rfl, h1, rfl⟩

theorem bav_bexp {d : List (DomVar (Ext K))} (hnd : (d.map (·.name)).Nodup) {e : Exp (Ext K)} {c : Ctx (Ext K)}
    (h : binaryAffineValue d e = some c) (hsc : ∀ x ∈ varsOf e, inScope d x) :
    BExp d (ctxToExp c) ∧ BinCtx d c ∧ (∀ x ∈ ctxNames c, inScope d x) ∧
      ∀ ρ : String → K, DomSat ρ d → eval ρ e = some (ctxVal ρ c) ∧ B01 (ctxVal ρ c) := by
  obtain ⟨hb, hn, hv⟩ := bav_spec e c h
  have hsc' : ∀ x ∈ ctxNames c, inScope d x := fun x hx => hsc x (hn x hx)
  refine ⟨BExp.ofBinCtx hnd hb hsc', hb, hsc', ?_⟩
  intro ρ hd
  have hB := binCtx_names_b01 hnd hb hsc' hd
  exact ⟨hv ρ hB, hb.b01 ρ hB⟩

theorem bavList {d : List (DomVar (Ext K))} (hnd : (d.map (·.name)).Nodup) : ∀ (es : List (Exp (Ext K)))
    (ops : List (Exp (Ext K))),
    allSome (es.map fun e => (binaryAffineValue d e).map ctxToExp) = some ops →
    (∀ e ∈ es, ∀ x ∈ varsOf e, inScope d x) →
    (∀ o ∈ ops, BExp d o) ∧
    ∀ ρ : String → K, DomSat ρ d → evalList ρ es = some (ops.map (ev ρ)) := by
  intro es
  induction es with
  | nil =>
    intro ops h _
    simp only [List.map_nil, allSome, Option.some.injEq] at h
    subst h
    exact ⟨by simp, fun ρ _ => by simp [evalList]⟩
  | cons e es ih =>
    intro ops h hsc
    simp only [List.map_cons] at h
    obtain ⟨o, ops', ho, hrest, rfl⟩ := allSome_cons_some h
    simp only [Option.map_eq_some_iff] at ho
    obtain ⟨c, hc, rfl⟩ := ho
    obtain ⟨hbe, hbc, _, hval⟩ := bav_bexp hnd hc (hsc e (by simp))
    obtain ⟨ih1, ih2⟩ := ih ops' hrest (fun e' he' => hsc e' (by simp [he']))
    refine ⟨?_, ?_⟩
    · intro o ho
      rcases List.mem_cons.mp ho with rfl | ho
      · exact hbe
      · exact ih1 o ho
    · intro ρ hd
      simp only [evalList, (hval ρ hd).1, ih2 ρ hd, List.map_cons, ev_ctxToExp hbc.ok]
      rfl

theorem eval_and_of {ρ : String → K} {es : List (Exp (Ext K))} {vs : List K} (h : evalList ρ es = some vs) :
    eval ρ (.and es) = some (ofBool (vs.all truthy)) := by rw [eval]; simp [h]
theorem eval_or_of {ρ : String → K} {es : List (Exp (Ext K))} {vs : List K} (h : evalList ρ es = some vs) :
    eval ρ (.or es) = some (ofBool (vs.any truthy)) := by rw [eval]; simp [h]

theorem hasTruth_and {ρ : String → K} {es : List (Exp (Ext K))} {vs : List K} (h : evalList ρ es = some vs)
    (hb : ∀ a ∈ vs, B01 a) (t : Bool) : HasTruth (.and es) t ρ ↔ ((∀ a ∈ vs, a = 1) ↔ t = true) := by
  simp only [HasTruth, eval_and_of h, Option.some.injEq, ofBool_inj]
  rw [← all_truthy_iff hb]
  cases t <;> simp

theorem hasTruth_or {ρ : String → K} {es : List (Exp (Ext K))} {vs : List K} (h : evalList ρ es = some vs)
    (hb : ∀ a ∈ vs, B01 a) (t : Bool) : HasTruth (.or es) t ρ ↔ ((∃ a ∈ vs, a = 1) ↔ t = true) := by
  simp only [HasTruth, eval_or_of h, Option.some.injEq, ofBool_inj]
  rw [← any_truthy_iff hb]
  cases t <;> simp

theorem binOn_and (d : St (Ext K)) (es : List (Exp (Ext K))) : BinOn d (.and es) := by
  intro ρ _ v hv; obtain ⟨vs, _, rfl⟩ := eval_and_some hv; exact ofBool_B01 _
theorem binOn_or (d : St (Ext K)) (es : List (Exp (Ext K))) : BinOn d (.or es) := by
  intro ρ _ v hv; obtain ⟨vs, _, rfl⟩ := eval_or_some hv; exact ofBool_B01 _
theorem binOn_not (d : St (Ext K)) (e : Exp (Ext K)) : BinOn d (.not e) := by
  intro ρ _ v hv; obtain ⟨w, _, rfl⟩ := eval_not_some hv; exact ofBool_B01 _

/-! ### binary connectives on two 0/1 operands -/

theorem eval_implies_of {ρ : String → K} {l r : Exp (Ext K)} {x y : K} (hl : eval ρ l = some x) (hr : eval ρ r = some y) :
    eval ρ (.implies l r) = some (ofBool (!(truthy x) || truthy y)) := by
  rw [eval_implies_eq, hl, hr]; rfl
theorem eval_iff_of {ρ : String → K} {l r : Exp (Ext K)} {x y : K} (hl : eval ρ l = some x) (hr : eval ρ r = some y) :
    eval ρ (.iff l r) = some (ofBool (truthy x == truthy y)) := by
  rw [eval_iff_eq, hl, hr]; rfl
theorem eval_xor_of {ρ : String → K} {l r : Exp (Ext K)} {x y : K} (hl : eval ρ l = some x) (hr : eval ρ r = some y) :
    eval ρ (.xor l r) = some (ofBool (truthy x != truthy y)) := by
  rw [eval_xor_eq, hl, hr]; rfl

theorem binOn_implies (d : St (Ext K)) (l r : Exp (Ext K)) : BinOn d (.implies l r) := by
  intro ρ _ v hv
  obtain ⟨x, y, _, h⟩ := eval_logic2_some (eval_implies_eq ρ l r) hv
  simp only [binVal, Option.some.injEq] at h; rw [← h]; exact ofBool_B01 _
theorem binOn_iff (d : St (Ext K)) (l r : Exp (Ext K)) : BinOn d (.iff l r) := by
  intro ρ _ v hv
  obtain ⟨x, y, _, h⟩ := eval_logic2_some (eval_iff_eq ρ l r) hv
  simp only [binVal, Option.some.injEq] at h; rw [← h]; exact ofBool_B01 _
theorem binOn_xor (d : St (Ext K)) (l r : Exp (Ext K)) : BinOn d (.xor l r) := by
  intro ρ _ v hv
  obtain ⟨x, y, _, h⟩ := eval_logic2_some (eval_xor_eq ρ l r) hv
  simp only [binVal, Option.some.injEq] at h; rw [← h]; exact ofBool_B01 _

theorem hasTruth_implies {ρ : String → K} {l r : Exp (Ext K)} {x y : K} (hl : eval ρ l = some x)
    (hr : eval ρ r = some y) (hx : B01 x) (hy : B01 y) (t : Bool) :
    HasTruth (.implies l r) t ρ ↔ ((x = 1 → y = 1) ↔ t = true) := by
  simp only [HasTruth, eval_implies_of hl hr, Option.some.injEq, ofBool_inj]
  rcases hx with rfl | rfl <;> rcases hy with rfl | rfl <;> cases t <;> simp [truthy]
theorem hasTruth_iff {ρ : String → K} {l r : Exp (Ext K)} {x y : K} (hl : eval ρ l = some x)
    (hr : eval ρ r = some y) (hx : B01 x) (hy : B01 y) (t : Bool) :
    HasTruth (.iff l r) t ρ ↔ ((x = 1 ↔ y = 1) ↔ t = true) := by
  simp only [HasTruth, eval_iff_of hl hr, Option.some.injEq, ofBool_inj]
  rcases hx with rfl | rfl <;> rcases hy with rfl | rfl <;> cases t <;> simp [truthy]
theorem hasTruth_xor {ρ : String → K} {l r : Exp (Ext K)} {x y : K} (hl : eval ρ l = some x)
    (hr : eval ρ r = some y) (hx : B01 x) (hy : B01 y) (t : Bool) :
    HasTruth (.xor l r) t ρ ↔ (¬ (x = 1 ↔ y = 1) ↔ t = true) := by
  simp only [HasTruth, eval_xor_of hl hr, Option.some.injEq, ofBool_inj]
  rcases hx with rfl | rfl <;> rcases hy with rfl | rfl <;> cases t <;> simp [truthy]

theorem hasTruth_not {ρ : String → K} {e : Exp (Ext K)} {x : K} (he : eval ρ e = some x) (hx : B01 x) (t : Bool) :
    HasTruth (.not e) t ρ ↔ HasTruth e (!t) ρ := by
  have h1 : eval ρ (.not e) = some (ofBool (!(truthy x))) := by rw [eval, he]; rfl
  simp only [HasTruth, h1, he, Option.some.injEq]
  rcases hx with rfl | rfl <;> cases t <;> simp [truthy, ofBool]
theorem hasTruth_unot {ρ : String → K} {e : Exp (Ext K)} {x : K} (he : eval ρ e = some x) (hx : B01 x) (t : Bool) :
    HasTruth (.un .not e) t ρ ↔ HasTruth e (!t) ρ := by
  have h1 : eval ρ (.un .not e) = some (ofBool (!(truthy x))) := by rw [eval, he]; rfl
  simp only [HasTruth, h1, he, Option.some.injEq]
  rcases hx with rfl | rfl <;> cases t <;> simp [truthy, ofBool]

theorem binOn_unot (d : St (Ext K)) (e : Exp (Ext K)) : BinOn d (.un .not e) := by
  intro ρ _ v hv
  rw [eval] at hv
  cases he : eval ρ e with
  | none => simp [he] at hv
  | some w => simp [he] at hv; rw [← hv]; exact ofBool_B01 _

/-- through a negation: the assertion about `not e` is the opposite assertion about a 0/1-valued `e`. -/
theorem AssertOK.not {d0 : List (DomVar (Ext K))} {s s' : St (Ext K)} {e : Exp (Ext K)} {t : Bool}
    (h : AssertOK d0 s s' e (!t)) (hdef : DefOn s.domain e) : AssertOK d0 s s' (.not e) t := by
  refine ⟨h.inv, h.step.congr ?_, binOn_not _ _⟩
  intro ρ hs
  obtain ⟨x, hx⟩ := hdef ρ hs.dom
  exact (hasTruth_not hx (h.bin ρ hs x hx) t).symm
theorem AssertOK.unot {d0 : List (DomVar (Ext K))} {s s' : St (Ext K)} {e : Exp (Ext K)} {t : Bool}
    (h : AssertOK d0 s s' e (!t)) (hdef : DefOn s.domain e) : AssertOK d0 s s' (.un .not e) t := by
  refine ⟨h.inv, h.step.congr ?_, binOn_unot _ _⟩
  intro ρ hs
  obtain ⟨x, hx⟩ := hdef ρ hs.dom
  exact (hasTruth_unot hx (h.bin ρ hs x hx) t).symm

theorem DefOn.not {d : List (DomVar (Ext K))} {e : Exp (Ext K)} (h : DefOn d (.not e)) : DefOn d e := by
  intro ρ hd; obtain ⟨v, hv⟩ := h ρ hd; obtain ⟨w, hw, _⟩ := eval_not_some hv; exact ⟨w, hw⟩
theorem DefOn.unot {d : List (DomVar (Ext K))} {e : Exp (Ext K)} (h : DefOn d (.un .not e)) : DefOn d e := by
  intro ρ hd; obtain ⟨v, hv⟩ := h ρ hd
  rw [eval] at hv
  cases he : eval ρ e with
  | none => simp [he] at hv
  | some w => exact ⟨w, rfl⟩

/-! ### `try_lower_affine_logic_assertion` -/

/-- the two operands of a binary connective both have a binary affine value. -/
theorem bav_pair {d : List (DomVar (Ext K))} (hnd : (d.map (·.name)).Nodup) {l r : Exp (Ext K)} {a b : Ctx (Ext K)}
    (ha : binaryAffineValue d l = some a) (hb : binaryAffineValue d r = some b)
    (hl : ∀ x ∈ varsOf l, inScope d x) (hr : ∀ x ∈ varsOf r, inScope d x) :
    BExp d (ctxToExp a) ∧ BExp d (ctxToExp b) ∧
      ∀ ρ : String → K, DomSat ρ d →
        eval ρ l = some (ev ρ (ctxToExp a)) ∧ eval ρ r = some (ev ρ (ctxToExp b)) := by
  obtain ⟨h1, hc1, _, hv1⟩ := bav_bexp hnd ha hl
  obtain ⟨h2, hc2, _, hv2⟩ := bav_bexp hnd hb hr
  refine ⟨h1, h2, fun ρ hd => ?_⟩
  rw [ev_ctxToExp hc1.ok, ev_ctxToExp hc2.ok]
  exact ⟨(hv1 ρ hd).1, (hv2 ρ hd).1⟩

theorem cmpK_eq_iff (a b : K) : cmpK .eq a b = true ↔ a = b := by simp [cmpK]
theorem cmpK_le_iff (a b : K) : cmpK .le a b = true ↔ a ≤ b := by simp [cmpK]
theorem cmpK_ge_iff (a b : K) : cmpK .ge a b = true ↔ b ≤ a := by simp [cmpK]

/-- the specification of `try_lower_affine_logic_assertion` on `e`. -/
def TLASpec (d0 : List (DomVar (Ext K))) (e : Exp (Ext K)) : Prop :=
  ∀ (t : Bool) (name : String) (s : St (Ext K)) (b : Bool) (s' : St (Ext K)), LoopInvD d0 s →
    (∀ x ∈ varsOf e, inScope s.domain x) → tryLowerAffine e t name s = .ok (b, s') →
    (b = false → s' = s) ∧ (b = true → AssertOK d0 s s' e t)

theorem tla_num {d0 : List (DomVar (Ext K))} (v : Ext K) : TLASpec d0 (.num v) := by
  intro t name s b s' hinv hsc h
  rw [tryLowerAffine] at h
  simp only [bind_ok, get_ok] at h
  obtain ⟨s0, s0', h0, h⟩ := h
  cases h0
  cases hc : binaryAffineValue s.domain (.num v : Exp (Ext K)) with
  | none =>
    simp only [hc, pure_ok, Prod.mk.injEq] at h
    obtain ⟨rfl, rfl⟩ := h
    exact ⟨fun _ => rfl, (fun hb => nomatch hb)⟩
  | some c =>
    simp only [hc, bind_ok, pure_ok, Prod.mk.injEq] at h
    obtain ⟨u, s1, h1, rfl, rfl⟩ := h
    refine ⟨(fun hb => nomatch hb), fun _ => ?_⟩
    obtain ⟨hbe, hbc, _, hval⟩ := bav_bexp hinv.st.nodup hc hsc
    have hR : AE s.domain (.num (if t = true then (Arith.one : Ext K) else Arith.zero)) := by
      cases t <;> simp only [ar_one, ar_zero] <;> exact AE.num _ _
    refine assert_row hinv hbe.ae hR h1 (fun ρ hs v hv => ?_) (fun ρ hd => ?_)
    · rw [(hval ρ hs.dom).1] at hv; cases hv; exact (hval ρ hs.dom).2
    · rw [cmpK_eq_iff, ev_ctxToExp hbc.ok]
      simp only [HasTruth, (hval ρ hd).1, Option.some.injEq]
      cases t <;> simp [ev_num, ofBool]

theorem tla_var {d0 : List (DomVar (Ext K))} (n : String) : TLASpec d0 (.var n) := by
  intro t name s b s' hinv hsc h
  rw [tryLowerAffine] at h
  simp only [bind_ok, get_ok] at h
  obtain ⟨s0, s0', h0, h⟩ := h
  cases h0
  cases hc : binaryAffineValue s.domain (.var n : Exp (Ext K)) with
  | none =>
    simp only [hc, pure_ok, Prod.mk.injEq] at h
    obtain ⟨rfl, rfl⟩ := h
    exact ⟨fun _ => rfl, (fun hb => nomatch hb)⟩
  | some c =>
    simp only [hc, bind_ok, pure_ok, Prod.mk.injEq] at h
    obtain ⟨u, s1, h1, rfl, rfl⟩ := h
    refine ⟨(fun hb => nomatch hb), fun _ => ?_⟩
    obtain ⟨hbe, hbc, _, hval⟩ := bav_bexp hinv.st.nodup hc hsc
    have hR : AE s.domain (.num (if t = true then (Arith.one : Ext K) else Arith.zero)) := by
      cases t <;> simp only [ar_one, ar_zero] <;> exact AE.num _ _
    refine assert_row hinv hbe.ae hR h1 (fun ρ hs v hv => ?_) (fun ρ hd => ?_)
    · rw [(hval ρ hs.dom).1] at hv; cases hv; exact (hval ρ hs.dom).2
    · rw [cmpK_eq_iff, ev_ctxToExp hbc.ok]
      simp only [HasTruth, (hval ρ hd).1, Option.some.injEq]
      cases t <;> simp [ev_num, ofBool]

theorem tla_not {d0 : List (DomVar (Ext K))} {e : Exp (Ext K)} (ih : TLASpec d0 e) : TLASpec d0 (.not e) := by
  intro t name s b s' hinv hsc h
  rw [tryLowerAffine] at h
  obtain ⟨h1, h2⟩ := ih (!t) name s b s' hinv (by simpa [varsOf] using hsc) h
  refine ⟨h1, fun hb => ?_⟩
  have A := h2 hb
  -- definedness of `e` on the domain is not known here; the affine path gives it
  refine ⟨A.inv, ?_, binOn_not _ _⟩
  exact
  { dom := A.step.dom
    sound := fun ρ hs => by
      obtain ⟨hs0, ht⟩ := A.step.sound ρ hs
      exact ⟨hs0, (hasTruth_not ht (ofBool_B01 _) t).mpr ht⟩
    complete := fun ρ hs hp => by
      apply A.step.complete ρ hs
      obtain ⟨w, hw, _⟩ := eval_not_some hp
      exact (hasTruth_not hw (A.bin ρ hs w hw) t).mp hp }

theorem tla_un {d0 : List (DomVar (Ext K))} (op : UnOp) {e : Exp (Ext K)} (ih : TLASpec d0 e) : TLASpec d0 (.un op e) := by
  intro t name s b s' hinv hsc h
  cases op with
  | neg =>
    rw [tryLowerAffine] at h
    · simp only [pure_ok, Prod.mk.injEq] at h
      obtain ⟨rfl, rfl⟩ := h
      exact ⟨fun _ => rfl, (fun hb => nomatch hb)⟩
    all_goals (intros; first | contradiction | (rename_i hh; cases hh))
  | not =>
    rw [tryLowerAffine] at h
    obtain ⟨h1, h2⟩ := ih (!t) name s b s' hinv (by simpa [varsOf] using hsc) h
    refine ⟨h1, fun hb => ?_⟩
    have A := h2 hb
    refine ⟨A.inv, ?_, binOn_unot _ _⟩
    exact
    { dom := A.step.dom
      sound := fun ρ hs => by
        obtain ⟨hs0, ht⟩ := A.step.sound ρ hs
        exact ⟨hs0, (hasTruth_unot ht (ofBool_B01 _) t).mpr ht⟩
      complete := fun ρ hs hp => by
        apply A.step.complete ρ hs
        have hp' : eval ρ (.un .not e) = some (ofBool t) := hp
        rw [eval] at hp'
        cases he : eval ρ e with
        | none => simp [he] at hp'
        | some w => exact (hasTruth_unot he (A.bin ρ hs w he) t).mp hp }

theorem tla_and {d0 : List (DomVar (Ext K))} (es : List (Exp (Ext K))) : TLASpec d0 (.and es) := by
  intro t name s b s' hinv hsc h
  rw [tryLowerAffine] at h
  simp only [bind_ok, get_ok] at h
  obtain ⟨s0, s0', h0, h⟩ := h
  cases h0
  cases hc : allSome (es.map fun e => (binaryAffineValue s.domain e).map ctxToExp) with
  | none =>
    simp only [hc, pure_ok, Prod.mk.injEq] at h
    obtain ⟨rfl, rfl⟩ := h
    exact ⟨fun _ => rfl, (fun hb => nomatch hb)⟩
  | some ops =>
    simp only [hc] at h
    have hsc' : ∀ e ∈ es, ∀ x ∈ varsOf e, inScope s.domain x := fun e he x hx =>
      hsc x (by simp only [varsOf]; exact mem_varsOfList.mpr ⟨e, he, hx⟩)
    obtain ⟨hops, hvals⟩ := bavList hinv.st.nodup es ops hc hsc'
    have hL : AE s.domain (sumExps ops) := AE.sum (fun o ho => (hops o ho).ae)
    have hdefs : ∀ o ∈ ops, DefinedE o := fun o ho => (hops o ho).defd
    have hb01 : ∀ ρ : String → K, DomSat ρ s.domain → ∀ a ∈ ops.map (ev ρ), B01 a := by
      intro ρ hd a ha
      obtain ⟨o, ho, rfl⟩ := List.mem_map.mp ha
      exact (hops o ho).ev01 hd
    have hlen : ∀ ρ : String → K, ((ops.map (ev ρ)).length : K) = ((ops.length : Int) : K) := by
      intro ρ; simp
    cases t with
    | true =>
      simp only [if_true, bind_ok, pure_ok, Prod.mk.injEq] at h
      obtain ⟨u, s1, h1, rfl, rfl⟩ := h
      refine ⟨(fun hb => nomatch hb), fun _ => ?_⟩
      refine assert_row hinv hL (by rw [ar_ofInt]; exact AE.num _ _) h1 (binOn_and _ _) (fun ρ hd => ?_)
      rw [cmpK_eq_iff, ev_sum hdefs, ar_ofInt, ev_num, ← hlen ρ, assert_and_true _ (hb01 ρ hd),
        hasTruth_and (hvals ρ hd) (hb01 ρ hd)]
      simp
    | false =>
      simp only [Bool.false_eq_true, if_false, bind_ok, pure_ok, Prod.mk.injEq] at h
      obtain ⟨u, s1, h1, rfl, rfl⟩ := h
      refine ⟨(fun hb => nomatch hb), fun _ => ?_⟩
      refine assert_row hinv hL (by rw [ar_ofInt, ar_one, ar_sub]; exact AE.num _ _) h1 (binOn_and _ _)
        (fun ρ hd => ?_)
      rw [cmpK_le_iff, ev_sum hdefs, ar_ofInt, ar_one, ar_sub, ev_num, ← hlen ρ,
        assert_and_false _ (hb01 ρ hd), hasTruth_and (hvals ρ hd) (hb01 ρ hd)]
      simp

theorem tla_or {d0 : List (DomVar (Ext K))} (es : List (Exp (Ext K))) : TLASpec d0 (.or es) := by
  intro t name s b s' hinv hsc h
  rw [tryLowerAffine] at h
  simp only [bind_ok, get_ok] at h
  obtain ⟨s0, s0', h0, h⟩ := h
  cases h0
  cases hc : allSome (es.map fun e => (binaryAffineValue s.domain e).map ctxToExp) with
  | none =>
    simp only [hc, pure_ok, Prod.mk.injEq] at h
    obtain ⟨rfl, rfl⟩ := h
    exact ⟨fun _ => rfl, (fun hb => nomatch hb)⟩
  | some ops =>
    simp only [hc, bind_ok, pure_ok, Prod.mk.injEq] at h
    obtain ⟨u, s1, h1, rfl, rfl⟩ := h
    refine ⟨(fun hb => nomatch hb), fun _ => ?_⟩
    have hsc' : ∀ e ∈ es, ∀ x ∈ varsOf e, inScope s.domain x := fun e he x hx =>
      hsc x (by simp only [varsOf]; exact mem_varsOfList.mpr ⟨e, he, hx⟩)
    obtain ⟨hops, hvals⟩ := bavList hinv.st.nodup es ops hc hsc'
    have hL : AE s.domain (sumExps ops) := AE.sum (fun o ho => (hops o ho).ae)
    have hdefs : ∀ o ∈ ops, DefinedE o := fun o ho => (hops o ho).defd
    have hb01 : ∀ ρ : String → K, DomSat ρ s.domain → ∀ a ∈ ops.map (ev ρ), B01 a := by
      intro ρ hd a ha
      obtain ⟨o, ho, rfl⟩ := List.mem_map.mp ha
      exact (hops o ho).ev01 hd
    have hR : AE s.domain (.num (if t = true then (Arith.one : Ext K) else Arith.zero)) := by
      cases t <;> simp only [ar_one, ar_zero] <;> exact AE.num _ _
    refine assert_row hinv hL hR h1 (binOn_or _ _) (fun ρ hd => ?_)
    cases t with
    | true =>
      simp only [if_true, ar_one, ev_num]
      rw [cmpK_ge_iff, ev_sum hdefs, hasTruth_or (hvals ρ hd) (hb01 ρ hd)]
      have := assert_or_true _ (hb01 ρ hd)
      simp only [ge_iff_le] at this
      rw [this]; simp
    | false =>
      simp only [Bool.false_eq_true, if_false, ar_zero, ev_num]
      rw [cmpK_eq_iff, ev_sum hdefs, assert_or_false _ (hb01 ρ hd), hasTruth_or (hvals ρ hd) (hb01 ρ hd)]
      simp

theorem tla_implies {d0 : List (DomVar (Ext K))} (l r : Exp (Ext K)) : TLASpec d0 (.implies l r) := by
  intro t name s b s' hinv hsc h
  rw [tryLowerAffine] at h
  simp only [bind_ok, get_ok] at h
  obtain ⟨s0, s0', h0, h⟩ := h
  cases h0
  cases ha : binaryAffineValue s.domain l with
  | none =>
    simp only [ha, pure_ok, Prod.mk.injEq] at h
    obtain ⟨rfl, rfl⟩ := h
    exact ⟨fun _ => rfl, (fun hb => nomatch hb)⟩
  | some a =>
    cases hb : binaryAffineValue s.domain r with
    | none =>
      simp only [ha, hb, pure_ok, Prod.mk.injEq] at h
      obtain ⟨rfl, rfl⟩ := h
      exact ⟨fun _ => rfl, (fun hb => nomatch hb)⟩
    | some c =>
      simp only [ha, hb] at h
      obtain ⟨hA, hB, hv⟩ := bav_pair hinv.st.nodup ha hb
        (fun x hx => hsc x (by simp [varsOf, hx])) (fun x hx => hsc x (by simp [varsOf, hx]))
      cases t with
      | true =>
        simp only [if_true, bind_ok, pure_ok, Prod.mk.injEq] at h
        obtain ⟨u, s1, h1, rfl, rfl⟩ := h
        refine ⟨(fun hb => nomatch hb), fun _ => ?_⟩
        refine assert_row hinv hA.ae hB.ae h1 (binOn_implies _ _ _) (fun ρ hd => ?_)
        rw [cmpK_le_iff, assert_implies_true (hA.ev01 hd) (hB.ev01 hd),
          hasTruth_implies (hv ρ hd).1 (hv ρ hd).2 (hA.ev01 hd) (hB.ev01 hd)]
        simp
      | false =>
        simp only [Bool.false_eq_true, if_false, bind_ok, pure_ok, Prod.mk.injEq] at h
        obtain ⟨u, s1, h1, rfl, rfl⟩ := h
        refine ⟨(fun hb => nomatch hb), fun _ => ?_⟩
        refine assert_row hinv (hA.ae.sub hB.ae) (by rw [ar_one]; exact AE.num _ _) h1 (binOn_implies _ _ _)
          (fun ρ hd => ?_)
        rw [cmpK_eq_iff, ev_sub hA.defd hB.defd, ar_one, ev_num,
          assert_implies_false (hA.ev01 hd) (hB.ev01 hd),
          hasTruth_implies (hv ρ hd).1 (hv ρ hd).2 (hA.ev01 hd) (hB.ev01 hd)]
        simp

theorem tla_iff {d0 : List (DomVar (Ext K))} (l r : Exp (Ext K)) : TLASpec d0 (.iff l r) := by
  intro t name s b s' hinv hsc h
  rw [tryLowerAffine] at h
  simp only [bind_ok, get_ok] at h
  obtain ⟨s0, s0', h0, h⟩ := h
  cases h0
  cases ha : binaryAffineValue s.domain l with
  | none =>
    simp only [ha, pure_ok, Prod.mk.injEq] at h
    obtain ⟨rfl, rfl⟩ := h
    exact ⟨fun _ => rfl, (fun hb => nomatch hb)⟩
  | some a =>
    cases hb : binaryAffineValue s.domain r with
    | none =>
      simp only [ha, hb, pure_ok, Prod.mk.injEq] at h
      obtain ⟨rfl, rfl⟩ := h
      exact ⟨fun _ => rfl, (fun hb => nomatch hb)⟩
    | some c =>
      simp only [ha, hb] at h
      obtain ⟨hA, hB, hv⟩ := bav_pair hinv.st.nodup ha hb
        (fun x hx => hsc x (by simp [varsOf, hx])) (fun x hx => hsc x (by simp [varsOf, hx]))
      cases t with
      | true =>
        simp only [if_true, bind_ok, pure_ok, Prod.mk.injEq] at h
        obtain ⟨u, s1, h1, rfl, rfl⟩ := h
        refine ⟨(fun hb => nomatch hb), fun _ => ?_⟩
        refine assert_row hinv hA.ae hB.ae h1 (binOn_iff _ _ _) (fun ρ hd => ?_)
        rw [cmpK_eq_iff, assert_iff_true (hA.ev01 hd) (hB.ev01 hd),
          hasTruth_iff (hv ρ hd).1 (hv ρ hd).2 (hA.ev01 hd) (hB.ev01 hd)]
        simp
      | false =>
        simp only [Bool.false_eq_true, if_false, bind_ok, pure_ok, Prod.mk.injEq] at h
        obtain ⟨u, s1, h1, rfl, rfl⟩ := h
        refine ⟨(fun hb => nomatch hb), fun _ => ?_⟩
        refine assert_row hinv (hA.ae.add hB.ae) (by rw [ar_one]; exact AE.num _ _) h1 (binOn_iff _ _ _)
          (fun ρ hd => ?_)
        rw [cmpK_eq_iff, ev_add hA.defd hB.defd, ar_one, ev_num,
          assert_iff_false (hA.ev01 hd) (hB.ev01 hd),
          hasTruth_iff (hv ρ hd).1 (hv ρ hd).2 (hA.ev01 hd) (hB.ev01 hd)]
        simp

theorem tla_xor {d0 : List (DomVar (Ext K))} (l r : Exp (Ext K)) : TLASpec d0 (.xor l r) := by
  intro t name s b s' hinv hsc h
  rw [tryLowerAffine] at h
  simp only [bind_ok, get_ok] at h
  obtain ⟨s0, s0', h0, h⟩ := h
  cases h0
  cases ha : binaryAffineValue s.domain l with
  | none =>
    simp only [ha, pure_ok, Prod.mk.injEq] at h
    obtain ⟨rfl, rfl⟩ := h
    exact ⟨fun _ => rfl, (fun hb => nomatch hb)⟩
  | some a =>
    cases hb : binaryAffineValue s.domain r with
    | none =>
      simp only [ha, hb, pure_ok, Prod.mk.injEq] at h
      obtain ⟨rfl, rfl⟩ := h
      exact ⟨fun _ => rfl, (fun hb => nomatch hb)⟩
    | some c =>
      simp only [ha, hb] at h
      obtain ⟨hA, hB, hv⟩ := bav_pair hinv.st.nodup ha hb
        (fun x hx => hsc x (by simp [varsOf, hx])) (fun x hx => hsc x (by simp [varsOf, hx]))
      cases t with
      | true =>
        simp only [if_true, bind_ok, pure_ok, Prod.mk.injEq] at h
        obtain ⟨u, s1, h1, rfl, rfl⟩ := h
        refine ⟨(fun hb => nomatch hb), fun _ => ?_⟩
        refine assert_row hinv (hA.ae.add hB.ae) (by rw [ar_one]; exact AE.num _ _) h1 (binOn_xor _ _ _)
          (fun ρ hd => ?_)
        rw [cmpK_eq_iff, ev_add hA.defd hB.defd, ar_one, ev_num,
          assert_xor_true (hA.ev01 hd) (hB.ev01 hd),
          hasTruth_xor (hv ρ hd).1 (hv ρ hd).2 (hA.ev01 hd) (hB.ev01 hd)]
        simp
      | false =>
        simp only [Bool.false_eq_true, if_false, bind_ok, pure_ok, Prod.mk.injEq] at h
        obtain ⟨u, s1, h1, rfl, rfl⟩ := h
        refine ⟨(fun hb => nomatch hb), fun _ => ?_⟩
        refine assert_row hinv hA.ae hB.ae h1 (binOn_xor _ _ _) (fun ρ hd => ?_)
        rw [cmpK_eq_iff, assert_xor_false (hA.ev01 hd) (hB.ev01 hd),
          hasTruth_xor (hv ρ hd).1 (hv ρ hd).2 (hA.ev01 hd) (hB.ev01 hd)]
        simp

theorem tla_abs {d0 : List (DomVar (Ext K))} (e : Exp (Ext K)) : TLASpec d0 (.abs e) := by
  intro t name s b s' _ _ h
  rw [tryLowerAffine] at h
  · simp only [pure_ok, Prod.mk.injEq] at h
    obtain ⟨rfl, rfl⟩ := h
    exact ⟨fun _ => rfl, (fun hb => nomatch hb)⟩
  all_goals (intros; first | contradiction | (rename_i hh; cases hh))

theorem tla_min {d0 : List (DomVar (Ext K))} (es : List (Exp (Ext K))) : TLASpec d0 (.min es) := by
  intro t name s b s' _ _ h
  rw [tryLowerAffine] at h
  · simp only [pure_ok, Prod.mk.injEq] at h
    obtain ⟨rfl, rfl⟩ := h
    exact ⟨fun _ => rfl, (fun hb => nomatch hb)⟩
  all_goals (intros; first | contradiction | (rename_i hh; cases hh))

theorem tla_max {d0 : List (DomVar (Ext K))} (es : List (Exp (Ext K))) : TLASpec d0 (.max es) := by
  intro t name s b s' _ _ h
  rw [tryLowerAffine] at h
  · simp only [pure_ok, Prod.mk.injEq] at h
    obtain ⟨rfl, rfl⟩ := h
    exact ⟨fun _ => rfl, (fun hb => nomatch hb)⟩
  all_goals (intros; first | contradiction | (rename_i hh; cases hh))

theorem tla_bin {d0 : List (DomVar (Ext K))} (op : BinOp) (a b : Exp (Ext K)) : TLASpec d0 (.bin op a b) := by
  intro t name s b' s' _ _ h
  rw [tryLowerAffine] at h
  · simp only [pure_ok, Prod.mk.injEq] at h
    obtain ⟨rfl, rfl⟩ := h
    exact ⟨fun _ => rfl, (fun hb => nomatch hb)⟩
  all_goals (intros; first | contradiction | (rename_i hh; cases hh))

theorem tryLowerAffine_spec {d0 : List (DomVar (Ext K))} : ∀ e : Exp (Ext K), TLASpec d0 e := by
  intro e
  induction e using Exp.ind with
  | num v => exact tla_num v
  | var n => exact tla_var n
  | not e ih => exact tla_not ih
  | un op e ih => exact tla_un op ih
  | and es _ => exact tla_and es
  | or es _ => exact tla_or es
  | implies l r _ _ => exact tla_implies l r
  | iff l r _ _ => exact tla_iff l r
  | xor l r _ _ => exact tla_xor l r
  | abs e _ => exact tla_abs e
  | min es _ => exact tla_min es
  | max es _ => exact tla_max es
  | bin op a b _ _ => exact tla_bin op a b

end Rooc.LinP
