/-
Inductive core of the iteration-scope soundness theorems of `Props/C19.lean` (model: `Rooc/Pre/Scopes.lean`):
what a pattern binds (`lastOf`), the static and the dynamic declaration stay in step, binding an element
keeps the environment described by the context, and `for_sound` by induction over the iterations.
-/
import Rooc.Pre.Scopes
import Rooc.Proofs.Lets
namespace Rooc.Proofs.Scopes
set_option linter.unusedSectionVars false
set_option linter.unusedSimpArgs false
open Rooc Rooc.Pre Rooc.Proofs.Kinds Rooc.Proofs.Lets
variable {α : Type} [Arith α] [ToU64 α]

/-- the binding a pattern gives a name: the LAST slot with that name wins, `_` binds nothing -/
def lastOf {β : Type} : List (String × β) → String → Option β
  | [], _ => none
  | (n, b) :: rest, m =>
    match lastOf rest m with
    | some y => some y
    | none => if (n != "_" && n == m) = true then some b else none

theorem declareKinds_get : ∀ (tys : List (String × Kind)) (g g' : Ctx), declareKinds g tys = .ok g' →
    ∀ m, g'.get m = (match lastOf tys m with | some k => some k | none => g.get m)
  | [], g, g', h, m => by simp [declareKinds] at h; subst h; simp [lastOf]
  | (n, k) :: rest, g, g', h, m => by
    simp only [declareKinds] at h
    by_cases hu : (n == "_") = true
    · simp only [hu, ↓reduceIte] at h
      rw [declareKinds_get rest g g' h m]
      simp only [lastOf]
      cases lastOf rest m with
      | some y => rfl
      | none => simp [bne, hu]
    · simp only [hu, Bool.false_eq_true, ↓reduceIte] at h
      split at h
      · simp at h
      · split at h
        · simp at h
        · rw [declareKinds_get rest _ g' h m]
          simp only [lastOf, Ctx.get]
          cases lastOf rest m with
          | some y => rfl
          | none =>
            have : (n != "_") = true := by simp [bne, hu]
            simp only [this, Bool.true_and]
            split <;> rfl

theorem applyTuple_get : ∀ (vars : List String) (xs : List (TVal α)) (r : VEnv α) (m : String),
    (applyTuple r vars xs).get m = (match lastOf (vars.zip xs) m with | some x => some x | none => r.get m)
  | [], xs, r, m => by simp [applyTuple, lastOf]
  | n :: ns, [], r, m => by simp [applyTuple, lastOf]
  | n :: ns, x :: xs, r, m => by
    simp only [applyTuple, List.zip_cons_cons, lastOf]
    rw [applyTuple_get ns xs _ m]
    cases lastOf (ns.zip xs) m with
    | some y => rfl
    | none =>
      simp only [updateVar]
      by_cases hu : (n == "_") = true
      · simp [hu, bne]
      · have : (n != "_") = true := by simp [bne, hu]
        simp only [hu, Bool.false_eq_true, ↓reduceIte, VEnv.get, this, Bool.true_and]
        split <;> rfl

theorem declareUndef_get : ∀ (vars : List String) (r r0 : VEnv α), declareUndef r vars = .ok r0 →
    ∀ m, r0.get m = (match lastOf (vars.map (fun v => (v, (undefinedV : TVal α)))) m with | some x => some x | none => r.get m)
  | [], r, r0, h, m => by simp [declareUndef] at h; subst h; simp [lastOf]
  | n :: rest, r, r0, h, m => by
    simp only [declareUndef] at h
    by_cases hu : (n == "_") = true
    · simp only [hu, ↓reduceIte] at h
      rw [declareUndef_get rest r r0 h m]
      simp only [List.map_cons, lastOf]
      cases lastOf (rest.map (fun v => (v, (undefinedV : TVal α)))) m with
      | some y => rfl
      | none => simp [bne, hu]
    · simp only [hu, Bool.false_eq_true, ↓reduceIte] at h
      split at h
      · simp at h
      · split at h
        · simp at h
        · rw [declareUndef_get rest _ r0 h m]
          simp only [List.map_cons, lastOf, VEnv.get]
          cases lastOf (rest.map (fun v => (v, (undefinedV : TVal α)))) m with
          | some y => rfl
          | none =>
            have : (n != "_") = true := by simp [bne, hu]
            simp only [this, Bool.true_and]
            split <;> rfl

/-- the static declaration succeeds ⇒ so does the dynamic one (same names, same strictness) -/
theorem declare_sync : ∀ (tys : List (String × Kind)) (g g' : Ctx) (r : VEnv α),
    (∀ m, (g.get m).isSome = (r.get m).isSome) → declareKinds g tys = .ok g' →
    ∃ r0, declareUndef r (tys.map Prod.fst) = .ok r0
  | [], g, g', r, _, _ => ⟨r, rfl⟩
  | (n, k) :: rest, g, g', r, hd, h => by
    simp only [declareKinds] at h
    simp only [List.map_cons, declareUndef]
    by_cases hu : (n == "_") = true
    · simp only [hu, ↓reduceIte] at h ⊢
      exact declare_sync rest g g' r hd h
    · simp only [hu, Bool.false_eq_true, ↓reduceIte] at h ⊢
      split at h
      · simp at h
      · rename_i hgn
        split at h
        · simp at h
        · rename_i hres
          have hrn : (r.get n).isSome = false := by rw [← hd n]; simpa using hgn
          simp only [hrn, Bool.false_eq_true, ↓reduceIte, hres]
          apply declare_sync rest _ g' _ _ h
          intro m
          simp only [Ctx.get, VEnv.get]
          split
          · rfl
          · exact hd m

theorem lastOf_zip_agrees : ∀ (vars : List String) (xs : List (TVal α)) (k : Kind), agreesList xs k = true →
    vars.length ≤ xs.length → ∀ m,
    (match lastOf (vars.map (fun v => (v, k))) m, lastOf (vars.zip xs) m with
     | some k', some x => x.agrees k' = true
     | none, none => True
     | _, _ => False)
  | [], xs, k, _, _, m => by simp [lastOf]
  | n :: ns, [], k, _, hl, m => by simp at hl
  | n :: ns, x :: xs, k, ha, hl, m => by
    simp only [agreesList, Bool.and_eq_true] at ha
    have ih := lastOf_zip_agrees ns xs k ha.2 (by simpa using hl) m
    simp only [List.map_cons, List.zip_cons_cons, lastOf]
    cases h1 : lastOf (ns.map (fun v => (v, k))) m with
    | some k' =>
      cases h2 : lastOf (ns.zip xs) m with
      | some x' => simpa [h1, h2] using ih
      | none => simp [h1, h2] at ih
    | none =>
      cases h2 : lastOf (ns.zip xs) m with
      | some x' => simp [h1, h2] at ih
      | none =>
        by_cases hc : (n != "_" && n == m) = true
        · simp only [hc, ↓reduceIte]; exact ha.1
        · simp only [hc, Bool.false_eq_true, ↓reduceIte]

theorem lastOf_keys {β γ : Type} (b : β) (c : γ) : ∀ (vars : List String) (m : String),
    lastOf (vars.map (fun v => (v, b))) m = none → lastOf (vars.map (fun v => (v, c))) m = none
  | [], m, _ => by simp [lastOf]
  | n :: ns, m, h => by
    simp only [List.map_cons, lastOf] at h ⊢
    cases h1 : lastOf (ns.map (fun v => (v, b))) m with
    | some y => simp [h1] at h
    | none =>
      simp only [h1] at h
      rw [lastOf_keys b c ns m h1]
      by_cases hc : (n != "_" && n == m) = true
      · simp [hc] at h
      · simp [hc]

/-- binding the components of one element: the extended context describes the extended environment -/
theorem bind_agrees (g g' : Ctx) (r r0 : VEnv α) (vars : List String) (k : Kind) (xs : List (TVal α))
    (hgr : EnvAgrees g r) (hk : declareKinds g (vars.map (fun v => (v, k))) = .ok g') (hu : declareUndef r vars = .ok r0)
    (hx : agreesList xs k = true) (hl : vars.length ≤ xs.length) : EnvAgrees g' (applyTuple r0 vars xs) := by
  intro m
  rw [declareKinds_get _ g g' hk m, applyTuple_get vars xs r0 m, declareUndef_get vars r r0 hu m]
  have hz := lastOf_zip_agrees vars xs k hx hl m
  cases h1 : lastOf (vars.map (fun v => (v, k))) m with
  | some k' =>
    cases h2 : lastOf (vars.zip xs) m with
    | some x => simpa [h1, h2] using hz
    | none => simp [h1, h2] at hz
  | none =>
    cases h2 : lastOf (vars.zip xs) m with
    | some x => simp [h1, h2] at hz
    | none =>
      simp only [lastOf_keys k (undefinedV : TVal α) vars m h1]
      exact hgr m

theorem mapT_cases {X β : Type} (f : X → Except TErr β) (Q : β → Prop) (P : TErr → Prop) : ∀ (xs : List X),
    (∀ x ∈ xs, (∃ y, f x = .ok y ∧ Q y) ∨ (∃ e, f x = .error e ∧ P e)) →
    (∃ ys, mapT f xs = .ok ys ∧ ∀ y ∈ ys, Q y) ∨ (∃ e, mapT f xs = .error e ∧ P e)
  | [], _ => Or.inl ⟨[], rfl, by simp⟩
  | x :: xs, h => by
    simp only [mapT]
    rcases h x (by simp) with ⟨y, hy, hq⟩ | ⟨e, he, hp⟩
    · rcases mapT_cases f Q P xs (fun z hz => h z (by simp [hz])) with ⟨ys, hys, hqs⟩ | ⟨e, he, hp⟩
      · left
        refine ⟨y :: ys, by simp [hy, hys, bind, Except.bind, pure, Except.pure], ?_⟩
        intro z hz
        rcases List.mem_cons.1 hz with rfl | hm
        · exact hq
        · exact hqs z hm
      · right; exact ⟨e, by simp [hy, he, bind, Except.bind], hp⟩
    · right; exact ⟨e, by simp [he, bind, Except.bind], hp⟩

theorem fragment_of_agrees (x : TVal α) (k : Kind) (hx : x.agrees k = true) (hk : indexKindOk k = true) :
    ∃ p, fragmentValue x = .ok p := by
  rcases agrees_cases x k hx with ⟨p, rfl, hp, hcl⟩ | ⟨e, vs, k', rfl, rfl, _⟩
  · cases p <;> simp_all [fragmentValue, Prim.isScalar]
  · simp [indexKindOk] at hk

/-- one index of a constraint name -/
theorem index_sound (g : Ctx) (r : VEnv α) (hgr : EnvAgrees g r) (e : TE α) (hw : e.wf = true) (ht : checkIndex g e = .ok ()) :
    (∃ v, indexValue r e = .ok v ∧ ∃ p, fragmentValue v = .ok p) ∨ (∃ err, indexValue r e = .error err ∧ err.dataDependent = true) := by
  have generic : ∀ (e : TE α), e.wf = true → e.typeCheck g = .ok () → indexKindOk (e.typeOf g) = true →
      (∃ v, e.eval r = .ok v ∧ ∃ p, fragmentValue v = .ok p) ∨ (∃ err, e.eval r = .error err ∧ err.dataDependent = true) := by
    intro e hw ht hk
    obtain ⟨s1, s2⟩ := sound_expr g r (envAgrees_covers g r hgr) e hw ht
    cases hv : e.eval r with
    | error err => exact Or.inr ⟨err, rfl, s2 err hv⟩
    | ok v => exact Or.inl ⟨v, rfl, fragment_of_agrees v _ (s1 v hv) hk⟩
  have split_check : ∀ (e : TE α), (do e.typeCheck g; if indexKindOk (e.typeOf g) = true then Except.ok () else Except.error TErr.wrongExpectedArgument) = .ok () →
      e.typeCheck g = .ok () ∧ indexKindOk (e.typeOf g) = true := by
    intro e h
    obtain ⟨h1, h2⟩ := bind_ok_unit _ _ _ h
    exact ⟨h1, ite_ok _ _ h2⟩
  cases e with
  | var v =>
    simp only [checkIndex] at ht
    have hk := ite_ok _ _ ht
    have hv := hgr v
    simp only [indexValue]
    cases hg : g.get v with
    | none =>
      cases hr : r.get v with
      | none => left; exact ⟨_, rfl, _, rfl⟩
      | some x => simp [hg, hr] at hv
    | some k =>
      cases hr : r.get v with
      | none => simp [hg, hr] at hv
      | some x =>
        simp only [hg, hr] at hv
        left; exact ⟨x, rfl, fragment_of_agrees x k hv (by simpa [hg] using hk)⟩
  | lit v =>
    simp only [checkIndex] at ht
    have hk := ite_ok _ _ ht
    left
    refine ⟨v, by simp [indexValue, TE.eval], fragment_of_agrees v v.kind (by simpa [TE.wf] using hw) hk⟩
  | un op a =>
    simp only [checkIndex] at ht
    obtain ⟨h1, h2⟩ := split_check _ ht
    simpa [indexValue] using generic _ hw h1 h2
  | bin op a b =>
    simp only [checkIndex] at ht
    obtain ⟨h1, h2⟩ := split_check _ ht
    simpa [indexValue] using generic _ hw h1 h2
  | access n idx =>
    simp only [checkIndex] at ht
    obtain ⟨h1, h2⟩ := split_check _ ht
    simpa [indexValue] using generic _ hw h1 h2
  | call f args =>
    simp only [checkIndex] at ht
    obtain ⟨h1, h2⟩ := split_check _ ht
    simpa [indexValue] using generic _ hw h1 h2

theorem checkIndexes_all (g : Ctx) : ∀ (idx : List (TE α)), checkIndexes g idx = .ok () → ∀ e ∈ idx, checkIndex g e = .ok ()
  | [], _, e, he => by simp at he
  | x :: xs, h, e, he => by
    simp only [checkIndexes] at h
    obtain ⟨h1, h2⟩ := bind_ok_unit _ _ _ h
    rcases List.mem_cons.1 he with rfl | hm
    · exact h1
    · exact checkIndexes_all g xs h2 e hm

theorem wfList_all : ∀ (idx : List (TE α)), wfList idx = true → ∀ e ∈ idx, e.wf = true
  | [], _, e, he => by simp at he
  | x :: xs, h, e, he => by
    simp only [wfList, Bool.and_eq_true] at h
    rcases List.mem_cons.1 he with rfl | hm
    · exact h.1
    · exact wfList_all xs h.2 e hm

theorem leaf_sound (g : Ctx) (r : VEnv α) (hgr : EnvAgrees g r) (idx : List (TE α)) (hw : wfList idx = true)
    (ht : checkIndexes g idx = .ok ()) :
    (∃ ls, nameIndexLeaf idx r = .ok ls) ∨ (∃ err, nameIndexLeaf idx r = .error err ∧ err.dataDependent = true) := by
  simp only [nameIndexLeaf]
  rcases mapT_cases (indexValue r) (fun v => ∃ p, fragmentValue v = .ok p) (fun e => e.dataDependent = true) idx
      (fun e he => index_sound g r hgr e (wfList_all idx hw e he) (checkIndexes_all g idx ht e he)) with ⟨vs, hvs, hq⟩ | ⟨e, he, hp⟩
  · rcases mapT_cases fragmentValue (fun _ => True) (fun _ => False) vs
        (fun v hv => by obtain ⟨p, hp⟩ := hq v hv; exact Or.inl ⟨p, hp, trivial⟩) with ⟨fs, hfs, _⟩ | ⟨e, _, hf⟩
    · left; exact ⟨fs, by simp [hvs, hfs, bind, Except.bind]⟩
    · exact hf.elim
  · right; exact ⟨e, by simp [he, bind, Except.bind], hp⟩

theorem envAgrees_dom (g : Ctx) (r : VEnv α) (h : EnvAgrees g r) : ∀ m, (g.get m).isSome = (r.get m).isSome := by
  intro m
  have hm := h m
  cases hg : g.get m <;> cases hr : r.get m <;> simp_all

theorem declareUndef_fresh : ∀ (vars : List String) (r r0 : VEnv α), declareUndef r vars = .ok r0 →
    ∀ m, lastOf (vars.map (fun v => (v, (undefinedV : TVal α)))) m ≠ none → r.get m = none
  | [], r, r0, _, m, hm => by simp [lastOf] at hm
  | n :: rest, r, r0, h, m, hm => by
    simp only [declareUndef] at h
    simp only [List.map_cons, lastOf] at hm
    by_cases hu : (n == "_") = true
    · simp only [hu, ↓reduceIte] at h
      apply declareUndef_fresh rest r r0 h m
      cases h1 : lastOf (rest.map (fun v => (v, (undefinedV : TVal α)))) m with
      | some y => simp
      | none => simp [h1, bne, hu] at hm
    · simp only [hu, Bool.false_eq_true, ↓reduceIte] at h
      split at h
      · simp at h
      · rename_i hrn
        split at h
        · simp at h
        · cases h1 : lastOf (rest.map (fun v => (v, (undefinedV : TVal α)))) m with
          | some y =>
            have := declareUndef_fresh rest _ r0 h m (by simp [h1])
            simp only [VEnv.get] at this
            split at this
            · simp at this
            · exact this
          | none =>
            simp only [h1] at hm
            by_cases hc : (n != "_" && n == m) = true
            · simp only [Bool.and_eq_true, beq_iff_eq] at hc
              rw [← hc.2]
              cases hr : r.get n with
              | none => rfl
              | some x => simp [hr] at hrn
            · simp [hc] at hm

theorem variableTypes_ok (g : Ctx) (it : TIt α) (tys : List (String × Kind)) (h : variableTypes g it = .ok tys) :
    ∃ elem, it.over.typeOf g = .iter elem ∧
      ((it.tuple = false ∧ tys = it.vars.map (fun v => (v, elem))) ∨
       (it.tuple = true ∧ ∃ k, elem = .iter k ∧ tys = it.vars.map (fun v => (v, k))) ∨
       (it.tuple = true ∧ (∀ k, elem ≠ .iter k) ∧ ∃ ts, elem.canSpreadInto = some ts ∧ it.vars.length ≤ ts.length ∧ tys = it.vars.zip ts)) := by
  unfold variableTypes at h
  split at h
  · rename_i elem hty
    refine ⟨elem, hty, ?_⟩
    by_cases htu : it.tuple = true
    · simp only [htu, Bool.not_true, Bool.false_eq_true, ↓reduceIte] at h
      split at h
      · rename_i k
        right; left
        simp at h
        exact ⟨htu, k, rfl, h.symm⟩
      · rename_i hne
        right; right
        split at h
        · simp at h
        · rename_i ts hts
          split at h
          · simp at h
          · rename_i hlen
            simp at h
            exact ⟨htu, fun k hk => hne k hk, ts, hts, by omega, h.symm⟩
    · have hf : it.tuple = false := by simpa using htu
      simp only [hf, Bool.not_false, ↓reduceIte] at h
      simp at h
      exact Or.inl ⟨hf, h.symm⟩
  · simp at h

theorem zip_fst (vars : List String) {β : Type} : ∀ (ts : List β), vars.length ≤ ts.length → (vars.zip ts).map Prod.fst = vars := by
  induction vars with
  | nil => intro ts _; simp
  | cons v vs ih =>
    intro ts hl
    cases ts with
    | nil => simp at hl
    | cons t ts => simp [ih ts (by simpa using hl)]

theorem agreesList_mem (vs : List (TVal α)) (k : Kind) (h : agreesList vs k = true) : ∀ x ∈ vs, x.agrees k = true := by
  induction vs with
  | nil => intro x hx; simp at hx
  | cons v vs ih =>
    simp only [agreesList, Bool.and_eq_true] at h
    intro x hx
    rcases List.mem_cons.1 hx with rfl | hm
    · exact h.1
    · exact ih h.2 x hm

theorem agrees_spreadable_false (x : TVal α) (elem : Kind) (ts : List Kind) (hx : x.agrees elem = true)
    (hs : elem.canSpreadInto = some ts) (hne : ∀ k, elem ≠ .iter k) : False := by
  rcases agrees_cases x elem hx with ⟨p, rfl, hp, hcl⟩ | ⟨e, vs, k', rfl, rfl, _⟩
  · cases elem <;> simp [Kind.canSpreadInto] at hs <;> cases p <;> simp_all [kindClass, Prim.kind, Prim.isScalar]
  · exact hne k' rfl

/-- **iteration scopes are sound**, for any leaf: if the leaf's static check implies that the leaf runs (or
fails for a data reason) in every environment the context describes, the same holds for the leaf under any
accepted list of iterations -/
theorem its_sound {β : Type} (leafS : Ctx → Except TErr Unit) (leafD : VEnv α → Except TErr β)
    (hleaf : ∀ g r, EnvAgrees g r → leafS g = .ok () →
      (∃ b, leafD r = .ok b) ∨ (∃ err, leafD r = .error err ∧ err.dataDependent = true)) :
    ∀ (its : List (TIt α)) (g : Ctx) (r : VEnv α),
    EnvAgrees g r → its.all TIt.wf = true → typeCheckIts leafS g its = .ok () →
    (∃ ls, runIts leafD r its = .ok ls) ∨ (∃ err, runIts leafD r its = .error err ∧ err.dataDependent = true)
  | [], g, r, hgr, _, ht => by
    rcases hleaf g r hgr (by simpa [typeCheckIts] using ht) with ⟨b, hb⟩ | ⟨e, he, hd⟩
    · left; exact ⟨[b], by simp [runIts, hb, bind, Except.bind, pure, Except.pure]⟩
    · right; exact ⟨e, by simp [runIts, he, bind, Except.bind], hd⟩
  | it :: rest, g, r, hgr, hwi, ht => by
    simp only [List.all_cons, Bool.and_eq_true] at hwi
    obtain ⟨hwit, hwrest⟩ := hwi
    simp only [TIt.wf, Bool.and_eq_true, Bool.or_eq_true, beq_iff_eq] at hwit
    simp only [typeCheckIts] at ht
    obtain ⟨h1, h2⟩ := bind_ok_unit _ _ _ ht
    cases hvt : variableTypes g it with
    | error e => simp [hvt, bind, Except.bind] at h2
    | ok tys =>
      cases hdk : declareKinds g tys with
      | error e => simp [hvt, hdk, bind, Except.bind] at h2
      | ok g' =>
        have h3 : typeCheckIts leafS g' rest = .ok () := by simpa [hvt, hdk, bind, Except.bind] using h2
        obtain ⟨elem, hty, hshape⟩ := variableTypes_ok g it tys hvt
        have hnames : tys.map Prod.fst = it.vars := by
          rcases hshape with ⟨_, rfl⟩ | ⟨_, k, _, rfl⟩ | ⟨_, _, ts, _, hl, rfl⟩
          · simp [Function.comp_def]
          · simp [Function.comp_def]
          · exact zip_fst it.vars ts hl
        obtain ⟨r0, hr0⟩ := declare_sync tys g g' r (envAgrees_dom g r hgr) hdk
        rw [hnames] at hr0
        have hcov : EnvCovers g r0 := by
          intro n k hk
          obtain ⟨v, hv, ha⟩ := envAgrees_covers g r hgr n k hk
          refine ⟨v, ?_, ha⟩
          rw [declareUndef_get it.vars r r0 hr0 n]
          cases hl : lastOf (it.vars.map (fun v => (v, (undefinedV : TVal α)))) n with
          | none => simpa using hv
          | some u =>
            have := declareUndef_fresh it.vars r r0 hr0 n (by simp [hl])
            simp [this] at hv
        obtain ⟨s1, s2⟩ := sound_expr g r0 hcov it.over hwit.1 h1
        simp only [runIts, hr0, bind, Except.bind]
        cases hov : it.over.eval r0 with
        | error err => exact Or.inr ⟨err, rfl, s2 err hov⟩
        | ok v =>
          have hva := s1 v hov
          rw [hty] at hva
          rcases agrees_cases v _ hva with ⟨p, rfl, hp, hcl⟩ | ⟨e, elems, k', rfl, hk', hel⟩
          · cases p <;> simp_all [kindClass, Prim.kind, Prim.isScalar]
          · cases hk'
            simp only
            have hstep : ∀ x ∈ elems,
                (∃ y, (do let r1 ← bindElem r0 it x; runIts leafD r1 rest) = .ok y ∧ True) ∨
                (∃ e, (do let r1 ← bindElem r0 it x; runIts leafD r1 rest) = .error e ∧ e.dataDependent = true) := by
              intro x hx
              have hxa := agreesList_mem elems _ hel x hx
              -- the environment after binding `x`
              have hbind : (∃ r1, bindElem r0 it x = .ok r1 ∧ EnvAgrees g' r1) ∨ (∃ e, bindElem r0 it x = .error e ∧ e.dataDependent = true) := by
                rcases hshape with ⟨hf, rfl⟩ | ⟨htu, k, rfl, rfl⟩ | ⟨htu, hne, ts, hts, _, _⟩
                · -- a single variable
                  have hlen : it.vars.length = 1 := by
                    rcases hwit.2 with h | h
                    · simp [hf] at h
                    · exact h
                  match hv : it.vars, hlen with
                  | [n], _ =>
                    left
                    refine ⟨applyTuple r0 [n] [x], by simp [bindElem, hf, hv, applyTuple], ?_⟩
                    have := bind_agrees g g' r r0 it.vars _ [x] hgr hdk hr0 (by simp [agreesList, hxa]) (by simp [hlen])
                    simpa [hv] using this
                · -- a tuple pattern over rows
                  rcases agrees_cases x _ hxa with ⟨p, rfl, hp, hcl⟩ | ⟨e2, ys, k2, rfl, hk2, hys⟩
                  · cases p <;> simp_all [kindClass, Prim.kind, Prim.isScalar]
                  · cases hk2
                    by_cases hlen : it.vars.length > ys.length
                    · right; exact ⟨.other, by simp [bindElem, htu, toPrimitiveSet, hlen, bind, Except.bind], rfl⟩
                    · left
                      refine ⟨applyTuple r0 it.vars ys, by simp [bindElem, htu, toPrimitiveSet, hlen, bind, Except.bind], ?_⟩
                      exact bind_agrees g g' r r0 it.vars _ ys hgr hdk hr0 hys (by omega)
                · exact (agrees_spreadable_false x _ ts hxa hts hne).elim
              rcases hbind with ⟨r1, hb, hagr⟩ | ⟨e, hb, hd⟩
              · rcases its_sound leafS leafD hleaf rest g' r1 hagr hwrest h3 with ⟨ls, hls⟩ | ⟨e, he, hd⟩
                · left; exact ⟨ls, by simp [hb, hls, bind, Except.bind], trivial⟩
                · right; exact ⟨e, by simp [hb, he, bind, Except.bind], hd⟩
              · right; exact ⟨e, by simp [hb, bind, Except.bind], hd⟩
            rcases mapT_cases _ (fun _ => True) (fun e => e.dataDependent = true) elems hstep with ⟨ys, hys, _⟩ | ⟨e, he, hd⟩
            · left; refine ⟨ys.flatten, ?_⟩
              simp only [bind, Except.bind] at hys
              simp [hys, pure, Except.pure]
            · right; refine ⟨e, ?_, hd⟩
              simp only [bind, Except.bind] at he
              simp [he]

/-- quantified, named constraints -/
theorem for_sound (idx : List (TE α)) (hwx : wfList idx = true) (its : List (TIt α)) (g : Ctx) (r : VEnv α)
    (hgr : EnvAgrees g r) (hwi : its.all TIt.wf = true) (ht : typeCheckFor g its idx = .ok ()) :
    (∃ ls, runFor r its idx = .ok ls) ∨ (∃ err, runFor r its idx = .error err ∧ err.dataDependent = true) :=
  its_sound (fun g => checkIndexes g idx) (nameIndexLeaf idx) (fun g r hgr h => leaf_sound g r hgr idx hwx h) its g r hgr hwi ht

/-! ### declarations -/

theorem asNumberCast_numeric (p : Prim α) (hp : p.isScalar = true) (hn : p.kind.isNumeric = true) : ∃ x, asNumberCast p = .ok x := by
  cases p <;> simp_all [asNumberCast, Prim.kind, Kind.isNumeric, Prim.isScalar]

theorem numOf_numeric (v : TVal α) (k : Kind) (hv : v.agrees k = true) (hk : k.isNumeric = true) : ∃ x, numOf v = .ok x := by
  rcases agrees_cases v k hv with ⟨p, rfl, hp, hcl⟩ | ⟨e, vs, k', rfl, rfl, _⟩
  · have hn : p.kind.isNumeric = true := by rw [class_isNumeric hcl]; exact hk
    obtain ⟨x, hx⟩ := asNumberCast_numeric p hp hn
    exact ⟨x, by simp [numOf, hx]⟩
  · simp [Kind.isNumeric] at hk

theorem num_bound_sound (g : Ctx) (r : VEnv α) (hgr : EnvAgrees g r) (dflt : α) (o : Option (TE α)) (hw : optWf o = true)
    (ht : checkNumBound g o = .ok ()) :
    (∃ x, evalNumBound r dflt o = .ok x) ∨ (∃ err, evalNumBound r dflt o = .error err ∧ err.dataDependent = true) := by
  cases o with
  | none => exact Or.inl ⟨dflt, rfl⟩
  | some e =>
    simp only [checkNumBound] at ht
    obtain ⟨h1, h2⟩ := bind_ok_unit _ _ _ ht
    have hk := ite_ok _ _ h2
    obtain ⟨s1, s2⟩ := sound_expr g r (envAgrees_covers g r hgr) e (by simpa [optWf] using hw) h1
    simp only [evalNumBound]
    cases hv : e.eval r with
    | error err => exact Or.inr ⟨err, by simp [bind, Except.bind], s2 err hv⟩
    | ok v =>
      obtain ⟨x, hx⟩ := numOf_numeric v _ (s1 v hv) hk
      exact Or.inl ⟨x, by simp [hx, bind, Except.bind]⟩

theorem int_bound_sound (g : Ctx) (r : VEnv α) (hgr : EnvAgrees g r) (e : TE α) (hw : e.wf = true)
    (ht : e.typeCheck g = .ok ()) (hk : isIntKind (e.typeOf g) = true) :
    (∃ i, (do intOf (← e.eval r)) = .ok i) ∨ (∃ err, (do intOf (← e.eval r)) = .error err ∧ err.dataDependent = true) := by
  obtain ⟨s1, s2⟩ := sound_expr g r (envAgrees_covers g r hgr) e hw ht
  have hnum : (e.typeOf g).isNumeric = true := by cases hh : e.typeOf g <;> simp_all [isIntKind, Kind.isNumeric]
  cases hv : e.eval r with
  | error err => exact Or.inr ⟨err, by simp [bind, Except.bind], s2 err hv⟩
  | ok v =>
    cases hi : intOf v with
    | ok i => exact Or.inl ⟨i, by simp [hi, bind, Except.bind]⟩
    | error err =>
      refine Or.inr ⟨err, by simp [hi, bind, Except.bind], ?_⟩
      rw [intOf_error v _ (s1 v hv) hnum err hi]; rfl

theorem ty_sound (g : Ctx) (r : VEnv α) (hgr : EnvAgrees g r) (ty : TTy α) (hw : ty.wf = true) (ht : ty.typeCheck g = .ok ()) :
    (∃ t, ty.eval r = .ok t) ∨ (∃ err, ty.eval r = .error err ∧ err.dataDependent = true) := by
  cases ty with
  | bool => exact Or.inl ⟨.bool, rfl⟩
  | real lo hi =>
    simp only [TTy.wf, Bool.and_eq_true] at hw
    simp only [TTy.typeCheck] at ht
    obtain ⟨h1, h2⟩ := bind_ok_unit _ _ _ ht
    simp only [TTy.eval]
    rcases num_bound_sound g r hgr Arith.negInf lo hw.1 h1 with ⟨a, ha⟩ | ⟨e, he, hd⟩
    · rcases num_bound_sound g r hgr Arith.posInf hi hw.2 h2 with ⟨b, hb⟩ | ⟨e, he, hd⟩
      · by_cases hc : Arith.gt a b = true
        · exact Or.inr ⟨.other, by simp [ha, hb, hc, bind, Except.bind], rfl⟩
        · exact Or.inl ⟨.real a b, by simp [ha, hb, hc, bind, Except.bind]⟩
      · exact Or.inr ⟨e, by simp [ha, he, bind, Except.bind], hd⟩
    · exact Or.inr ⟨e, by simp [he, bind, Except.bind], hd⟩
  | nnreal lo hi =>
    simp only [TTy.wf, Bool.and_eq_true] at hw
    simp only [TTy.typeCheck] at ht
    obtain ⟨h1, h2⟩ := bind_ok_unit _ _ _ ht
    simp only [TTy.eval]
    rcases num_bound_sound g r hgr (Arith.ofInt 0) lo hw.1 h1 with ⟨a, ha⟩ | ⟨e, he, hd⟩
    · rcases num_bound_sound g r hgr Arith.posInf hi hw.2 h2 with ⟨b, hb⟩ | ⟨e, he, hd⟩
      · by_cases hn : Arith.lt a (Arith.ofInt 0) = true
        · exact Or.inr ⟨.other, by simp [ha, hb, hn, bind, Except.bind], rfl⟩
        · by_cases hc : Arith.gt a b = true
          · exact Or.inr ⟨.other, by simp [ha, hb, hn, hc, bind, Except.bind], rfl⟩
          · exact Or.inl ⟨.nnreal a b, by simp [ha, hb, hn, hc, bind, Except.bind]⟩
      · exact Or.inr ⟨e, by simp [ha, he, bind, Except.bind], hd⟩
    · exact Or.inr ⟨e, by simp [he, bind, Except.bind], hd⟩
  | int lo hi =>
    simp only [TTy.wf, Bool.and_eq_true] at hw
    simp only [TTy.typeCheck] at ht
    obtain ⟨h1, h2⟩ := bind_ok_unit _ _ _ ht
    obtain ⟨h3, h4⟩ := bind_ok_unit _ _ _ h2
    have hk1 : isIntKind (lo.typeOf g) = true := by
      cases hc : isIntKind (lo.typeOf g) with | true => rfl | false => simp [hc] at h4
    have hk2 : isIntKind (hi.typeOf g) = true := by
      cases hc : isIntKind (hi.typeOf g) with | true => rfl | false => simp [hk1, hc] at h4
    simp only [TTy.eval]
    rcases int_bound_sound g r hgr lo hw.1 h1 hk1 with ⟨a, ha⟩ | ⟨e, he, hd⟩
    · rcases int_bound_sound g r hgr hi hw.2 h3 hk2 with ⟨b, hb⟩ | ⟨e, he, hd⟩
      · simp only [bind, Except.bind] at ha hb ⊢
        cases hlo : lo.eval r with
        | error x => simp [hlo] at ha
        | ok vlo =>
          cases hhi : hi.eval r with
          | error x => simp [hhi] at hb
          | ok vhi =>
            simp only [hlo, hhi] at ha hb ⊢
            simp only [ha, hb]
            split
            · exact Or.inr ⟨.other, rfl, rfl⟩
            · split
              · exact Or.inr ⟨.other, rfl, rfl⟩
              · split
                · exact Or.inr ⟨.other, rfl, rfl⟩
                · exact Or.inl ⟨_, rfl⟩
      · right
        refine ⟨e, ?_, hd⟩
        simp only [bind, Except.bind] at ha he ⊢
        cases hlo : lo.eval r with
        | error x => simp [hlo] at ha
        | ok vlo =>
          simp only [hlo] at ha ⊢
          simp only [ha]
          cases hhi : hi.eval r with
          | error x => simpa [hhi] using he
          | ok vhi => simp only [hhi] at he ⊢; simp [he]
    · right
      refine ⟨e, ?_, hd⟩
      simp only [bind, Except.bind] at he ⊢
      cases hlo : lo.eval r with
      | error x => simpa [hlo] using he
      | ok vlo => simp only [hlo] at he ⊢; simp [he]

theorem checkDeclVars_all (g : Ctx) : ∀ (vars : List (String × Option (List (TE α)))), checkDeclVars g vars = .ok () →
    ∀ v ∈ vars, ∀ idx, v.2 = some idx → checkIndexes g idx = .ok ()
  | [], _, v, hv, _, _ => by simp at hv
  | (n, none) :: rest, h, v, hv, idx, hi => by
    simp only [checkDeclVars] at h
    split at h
    · simp at h
    · rcases List.mem_cons.1 hv with rfl | hm
      · simp at hi
      · exact checkDeclVars_all g rest h v hm idx hi
  | (n, some ix) :: rest, h, v, hv, idx, hi => by
    simp only [checkDeclVars] at h
    obtain ⟨h1, h2⟩ := bind_ok_unit _ _ _ h
    rcases List.mem_cons.1 hv with rfl | hm
    · simp at hi; subst hi; exact h1
    · exact checkDeclVars_all g rest h2 v hm idx hi

/-- the leaf of a declaration -/
theorem decl_leaf_sound (d : TDecl α) (hwt : d.ty.wf = true)
    (hwv : d.vars.all (fun v => match v.2 with | none => true | some idx => wfList idx) = true)
    (g : Ctx) (r : VEnv α) (hgr : EnvAgrees g r) (ht : (do checkDeclVars g d.vars; d.ty.typeCheck g) = .ok ()) :
    (∃ b, declValuesLeaf d r = .ok b) ∨ (∃ err, declValuesLeaf d r = .error err ∧ err.dataDependent = true) := by
  obtain ⟨h1, h2⟩ := bind_ok_unit _ _ _ ht
  have hty := ty_sound g r hgr d.ty hwt h2
  simp only [declValuesLeaf]
  rcases mapT_cases (fun (v : String × Option (List (TE α))) => do
      let frags ← match v.2 with
        | none => pure []
        | some idx => nameIndexLeaf idx r
      let t ← d.ty.eval r
      pure (v.1, frags, t)) (fun _ => True) (fun e => e.dataDependent = true) d.vars (fun v hv => by
      obtain ⟨n, o⟩ := v
      cases o with
      | none =>
        rcases hty with ⟨t, ht'⟩ | ⟨e, he, hd⟩
        · exact Or.inl ⟨(n, [], t), by simp [ht', bind, Except.bind, pure, Except.pure], trivial⟩
        · exact Or.inr ⟨e, by simp [he, bind, Except.bind, pure, Except.pure], hd⟩
      | some idx =>
        have hwi : wfList idx = true := by
          have := List.all_eq_true.1 hwv (n, some idx) hv
          simpa using this
        rcases leaf_sound g r hgr idx hwi (checkDeclVars_all g d.vars h1 (n, some idx) hv idx rfl) with ⟨fs, hfs⟩ | ⟨e, he, hd⟩
        · rcases hty with ⟨t, ht'⟩ | ⟨e, he, hd⟩
          · exact Or.inl ⟨(n, fs, t), by simp [hfs, ht', bind, Except.bind, pure, Except.pure], trivial⟩
          · exact Or.inr ⟨e, by simp [hfs, he, bind, Except.bind], hd⟩
        · exact Or.inr ⟨e, by simp [he, bind, Except.bind], hd⟩) with ⟨ys, hys, _⟩ | ⟨e, he, hd⟩
  · exact Or.inl ⟨ys, hys⟩
  · exact Or.inr ⟨e, he, hd⟩

theorem decl_sound (d : TDecl α) (hw : d.wf = true) (g : Ctx) (r : VEnv α) (hgr : EnvAgrees g r)
    (ht : typeCheckDecl g d = .ok ()) :
    (∃ b, runDecl r d = .ok b) ∨ (∃ err, runDecl r d = .error err ∧ err.dataDependent = true) := by
  simp only [TDecl.wf, Bool.and_eq_true] at hw
  rcases its_sound _ (declValuesLeaf d) (fun g r hgr h => decl_leaf_sound d hw.1.2 hw.2 g r hgr h) d.its g r hgr hw.1.1 ht with ⟨ls, hls⟩ | ⟨e, he, hd⟩
  · exact Or.inl ⟨ls.flatten, by simp [runDecl, hls, bind, Except.bind, pure, Except.pure]⟩
  · exact Or.inr ⟨e, by simp [runDecl, he, bind, Except.bind], hd⟩

theorem typeCheckDecls_all (g : Ctx) : ∀ (ds : List (TDecl α)), typeCheckDecls g ds = .ok () → ∀ d ∈ ds, typeCheckDecl g d = .ok ()
  | [], _, d, hd => by simp at hd
  | x :: xs, h, d, hd => by
    simp only [typeCheckDecls] at h
    obtain ⟨h1, h2⟩ := bind_ok_unit _ _ _ h
    rcases List.mem_cons.1 hd with rfl | hm
    · exact h1
    · exact typeCheckDecls_all g xs h2 d hm

theorem typeCheckFors_all (g : Ctx) : ∀ (fors : List (TFor α)), typeCheckFors g fors = .ok () →
    ∀ f ∈ fors, typeCheckFor g f.its f.idx = .ok ()
  | [], _, f, hf => by simp at hf
  | x :: xs, h, f, hf => by
    simp only [typeCheckFors] at h
    obtain ⟨h1, h2⟩ := bind_ok_unit _ _ _ h
    rcases List.mem_cons.1 hf with rfl | hm
    · exact h1
    · exact typeCheckFors_all g xs h2 f hm

theorem dedupDecls_cases (key : Prim α → String) : ∀ (ds acc : List (String × List (Prim α) × VarType α)),
    (∃ out, dedupDecls key acc ds = .ok out) ∨ dedupDecls key acc ds = .error .other
  | [], acc => Or.inl ⟨acc.reverse, rfl⟩
  | d :: rest, acc => by
    simp only [dedupDecls]
    split
    · split
      · exact dedupDecls_cases key rest acc
      · exact Or.inr rfl
    · exact dedupDecls_cases key rest (d :: acc)

theorem program_sound (key : Prim α → String) (lets : List (String × TE α)) (decls : List (TDecl α)) (fors : List (TFor α))
    (hwl : ∀ p ∈ lets, p.2.wf = true) (hwd : ∀ d ∈ decls, d.wf = true) (hwf : ∀ f ∈ fors, f.wf = true)
    (ht : typeCheckProgram lets decls fors = .ok ()) :
    (∃ out, runProgram key lets decls fors = .ok out) ∨ (∃ err, runProgram key lets decls fors = .error err ∧ err.dataDependent = true) := by
  simp only [typeCheckProgram] at ht
  cases hg : typeCheckWhere lets with
  | error e => simp [hg, bind, Except.bind] at ht
  | ok g =>
    have ht2 : (do typeCheckDecls g decls; typeCheckFors g fors) = .ok () := by simpa [hg, bind, Except.bind] using ht
    obtain ⟨hds, hfs⟩ := bind_ok_unit _ _ _ ht2
    have hstd : ∀ p ∈ stdLets (α := α) ++ lets, p.2.wf = true := by
      intro p hp
      rcases List.mem_append.1 hp with hs | hl
      · simp only [stdLets, List.mem_cons, List.not_mem_nil, or_false] at hs
        rcases hs with rfl | rfl | rfl <;>
          simp [TE.wf, TVal.agrees, TVal.kind, Prim.isScalar, scalarAgrees, kindClass, Prim.kind]
      · exact hwl p hl
    simp only [runProgram]
    rcases lets_sound (stdLets ++ lets) [] [] (by intro n; simp [Ctx.get, VEnv.get]) hstd g hg with ⟨r, hr, hgr⟩ | ⟨e, he, hd⟩
    · have hr' : evalWhere lets = .ok r := hr
      rcases mapT_cases (runDecl r) (fun _ => True) (fun e => e.dataDependent = true) decls
          (fun d hd => by
            rcases decl_sound d (hwd d hd) g r hgr (typeCheckDecls_all g decls hds d hd) with ⟨b, hb⟩ | ⟨e, he, hx⟩
            · exact Or.inl ⟨b, hb, trivial⟩
            · exact Or.inr ⟨e, he, hx⟩) with ⟨dom, hdom, _⟩ | ⟨e, he, hd⟩
      · rcases dedupDecls_cases key dom.flatten [] with ⟨dd, hdd⟩ | hdd
        · rcases mapT_cases (fun (f : TFor α) => runFor r f.its f.idx) (fun _ => True) (fun e => e.dataDependent = true) fors
              (fun f hf => by
                have hw := hwf f hf
                simp only [TFor.wf, Bool.and_eq_true] at hw
                rcases for_sound f.idx hw.2 f.its g r hgr hw.1 (typeCheckFors_all g fors hfs f hf) with ⟨ls, hls⟩ | ⟨e, he, hd⟩
                · exact Or.inl ⟨ls, hls, trivial⟩
                · exact Or.inr ⟨e, he, hd⟩) with ⟨ys, hys, _⟩ | ⟨e, he, hd⟩
          · left; exact ⟨{ domain := dd, names := ys }, by simp [hr', hdom, hdd, hys, bind, Except.bind, pure, Except.pure]⟩
          · right; exact ⟨e, by simp [hr', hdom, hdd, he, bind, Except.bind], hd⟩
        · right; exact ⟨.other, by simp [hr', hdom, hdd, bind, Except.bind], rfl⟩
      · right; exact ⟨e, by simp [hr', he, bind, Except.bind], hd⟩
    · have he' : evalWhere lets = .error e := he
      right; exact ⟨e, by simp [he', bind, Except.bind], hd⟩

end Rooc.Proofs.Scopes
