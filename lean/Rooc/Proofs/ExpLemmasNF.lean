/-
Helper lemmas for C10: the normal form produced by `Exp.simplify` and idempotence.
Everything here is structural: it holds for every number type `α` with an `Arith` instance
(so also for `Float`, NaN and `-0.0` included).
-/
import Rooc.Proofs.ExpLemmas
namespace Rooc
namespace Exp
set_option linter.unusedSectionVars false
variable {α : Type} [Arith α]
open Arith

def mkNary (isAnd : Bool) (es : List (Exp α)) : Exp α := if isAnd then .and es else .or es

/-- `v` is the absorbing constant of the n-ary connective (`falsy` for and, `truthy` for or). -/
def absorbing (isAnd : Bool) (v : α) : Bool := if isAnd then !(numTruthy v) else numTruthy v

/-! ### the two loops of `simplify_logic_nary` -/

theorem naryFlatten_cons_same (isAnd : Bool) (inner es : List (Exp α)) :
    naryFlatten isAnd (mkNary isAnd inner :: es) = inner ++ naryFlatten isAnd es := by
  cases isAnd <;> simp [mkNary, naryFlatten]

theorem naryFlatten_cons_other (isAnd : Bool) (e : Exp α) (es : List (Exp α))
    (h : isSameKind isAnd e = false) :
    naryFlatten isAnd (e :: es) = e :: naryFlatten isAnd es := by
  cases isAnd <;> cases e <;> simp_all [isSameKind, isAndNode, isOrNode, naryFlatten]

theorem isSameKind_cases (isAnd : Bool) (e : Exp α) :
    isSameKind isAnd e = false ∨ ∃ inner, e = mkNary isAnd inner := by
  cases isAnd <;> cases e <;> simp [isSameKind, isAndNode, isOrNode, mkNary]

theorem isSameKind_mkNary (isAnd : Bool) (inner : List (Exp α)) :
    isSameKind isAnd (mkNary isAnd inner) = true := by
  cases isAnd <;> simp [isSameKind, isAndNode, isOrNode, mkNary]

theorem isNum_mkNary (isAnd : Bool) (inner : List (Exp α)) :
    isNum (mkNary isAnd inner) = false := by
  cases isAnd <;> simp [isNum, mkNary]

/-- membership in the flattened list. -/
theorem mem_naryFlatten {isAnd : Bool} {x : Exp α} {es : List (Exp α)} :
    x ∈ naryFlatten isAnd es ↔
      (x ∈ es ∧ isSameKind isAnd x = false) ∨ ∃ inner, mkNary isAnd inner ∈ es ∧ x ∈ inner := by
  induction es with
  | nil => simp [naryFlatten]
  | cons e es ih =>
    rcases isSameKind_cases isAnd e with h | ⟨inner, rfl⟩
    · rw [naryFlatten_cons_other _ _ _ h]
      simp only [List.mem_cons, ih]
      constructor
      · rintro (rfl | (h1 | ⟨i, h1, h2⟩))
        · exact Or.inl ⟨Or.inl rfl, h⟩
        · exact Or.inl ⟨Or.inr h1.1, h1.2⟩
        · exact Or.inr ⟨i, Or.inr h1, h2⟩
      · rintro (⟨rfl | h1, h2⟩ | ⟨i, h1 | h1, h2⟩)
        · exact Or.inl rfl
        · exact Or.inr (Or.inl ⟨h1, h2⟩)
        · rw [← h1, isSameKind_mkNary] at h; cases h
        · exact Or.inr (Or.inr ⟨i, h1, h2⟩)
    · rw [naryFlatten_cons_same]
      simp only [List.mem_append, List.mem_cons, ih]
      constructor
      · rintro (h1 | (h1 | ⟨i, h1, h2⟩))
        · exact Or.inr ⟨inner, Or.inl rfl, h1⟩
        · exact Or.inl ⟨Or.inr h1.1, h1.2⟩
        · exact Or.inr ⟨i, Or.inr h1, h2⟩
      · rintro (⟨rfl | h1, h2⟩ | ⟨i, h1 | h1, h2⟩)
        · rw [isSameKind_mkNary] at h2; cases h2
        · exact Or.inr (Or.inl ⟨h1, h2⟩)
        · have : i = inner := by
            cases isAnd <;> simpa [mkNary] using h1
          subst this; exact Or.inl h2
        · exact Or.inr (Or.inr ⟨i, h1, h2⟩)

theorem naryFlatten_id {isAnd : Bool} {es : List (Exp α)}
    (h : ∀ e ∈ es, isSameKind isAnd e = false) : naryFlatten isAnd es = es := by
  induction es with
  | nil => simp [naryFlatten]
  | cons e es ih =>
    rw [naryFlatten_cons_other _ _ _ (h e (by simp)), ih (fun x hx => h x (by simp [hx]))]

theorem naryScan_cons_num (isAnd : Bool) (v : α) (es : List (Exp α)) :
    naryScan isAnd (.num v :: es) = if absorbing isAnd v then none else naryScan isAnd es := by
  cases isAnd <;> simp [naryScan, absorbing]

theorem naryScan_cons_other (isAnd : Bool) (e : Exp α) (es : List (Exp α)) (h : isNum e = false) :
    naryScan isAnd (e :: es) = (naryScan isAnd es).map (e :: ·) := by
  cases e <;> simp_all [isNum, naryScan]

theorem isNum_cases (e : Exp α) : isNum e = false ∨ ∃ v, e = .num v := by
  cases e <;> simp [isNum]

/-- a successful scan keeps exactly the non-literals, in order. -/
theorem naryScan_some {isAnd : Bool} {es res : List (Exp α)} (h : naryScan isAnd es = some res) :
    res = es.filter (fun x => !isNum x) := by
  induction es generalizing res with
  | nil => simp [naryScan] at h; simp [h]
  | cons e es ih =>
    rcases isNum_cases e with hn | ⟨v, rfl⟩
    · rw [naryScan_cons_other _ _ _ hn] at h
      simp only [Option.map_eq_some_iff] at h
      obtain ⟨r, hr, rfl⟩ := h
      simp [hn, ih hr]
    · rw [naryScan_cons_num] at h
      split at h
      · cases h
      · simp [isNum, ih h]

theorem naryScan_none {isAnd : Bool} {es : List (Exp α)} :
    naryScan isAnd es = none ↔ ∃ v, .num v ∈ es ∧ absorbing isAnd v = true := by
  induction es with
  | nil => simp [naryScan]
  | cons e es ih =>
    rcases isNum_cases e with hn | ⟨v, rfl⟩
    · rw [naryScan_cons_other _ _ _ hn]
      simp only [Option.map_eq_none_iff, ih, List.mem_cons]
      constructor
      · rintro ⟨v, h1, h2⟩; exact ⟨v, Or.inr h1, h2⟩
      · rintro ⟨v, h1 | h1, h2⟩
        · subst h1; simp [isNum] at hn
        · exact ⟨v, h1, h2⟩
    · rw [naryScan_cons_num]
      by_cases ha : absorbing isAnd v = true
      · simp only [ha, if_true, true_iff]; exact ⟨v, by simp, ha⟩
      · simp only [ha, Bool.false_eq_true, if_false, ih, List.mem_cons]
        constructor
        · rintro ⟨w, h1, h2⟩; exact ⟨w, Or.inr h1, h2⟩
        · rintro ⟨w, h1 | h1, h2⟩
          · cases h1; exact absurd h2 ha
          · exact ⟨w, h1, h2⟩

theorem naryScan_id {isAnd : Bool} {es : List (Exp α)} (h : ∀ e ∈ es, isNum e = false) :
    naryScan isAnd es = some es := by
  induction es with
  | nil => simp [naryScan]
  | cons e es ih =>
    rw [naryScan_cons_other _ _ _ (h e (by simp)), ih (fun x hx => h x (by simp [hx]))]; rfl

/-! ### the second loop after rooc 9f62afd (`naryStep`) -/

/-- identity literal of the connective (`truthy` for and, `falsy` for or): always dropped. -/
def isIdentityLit (isAnd : Bool) : Exp α → Bool
  | .num v => numTruthy v == isAnd
  | _ => false

theorem absorbing_or_identity (isAnd : Bool) (v : α) :
    absorbing isAnd v = !(isIdentityLit isAnd (.num v)) := by
  cases isAnd <;> cases h : numTruthy v <;> simp [absorbing, isIdentityLit, h]

theorem naryKeep_eq_filter (isAnd : Bool) (es : List (Exp α)) :
    naryKeep isAnd es = es.filter (fun x => !(isIdentityLit isAnd x)) := by
  induction es with
  | nil => rfl
  | cons e es ih =>
    cases e <;> simp only [naryKeep, isIdentityLit, List.filter_cons, ih] <;> try rfl
    split <;> simp_all

theorem mayBeUndefined_num (v : α) : mayBeUndefined (.num v : Exp α) = false := by
  simp [mayBeUndefined]

theorem mayBeUndefinedAny_iff (es : List (Exp α)) :
    mayBeUndefinedAny es = true ↔ ∃ e ∈ es, mayBeUndefined e = true := by
  induction es with
  | nil => simp [mayBeUndefinedAny]
  | cons e es ih => simp [mayBeUndefinedAny, ih]

/-- dropping literals does not change `any_undefined`. -/
theorem mayBeUndefinedAny_filter {q : Exp α → Bool} {es : List (Exp α)}
    (h : ∀ x ∈ es, q x = false → isNum x = true) :
    mayBeUndefinedAny (es.filter q) = mayBeUndefinedAny es := by
  rw [Bool.eq_iff_iff, mayBeUndefinedAny_iff, mayBeUndefinedAny_iff]
  constructor
  · rintro ⟨e, he, hu⟩; exact ⟨e, (List.mem_filter.1 he).1, hu⟩
  · rintro ⟨e, he, hu⟩
    refine ⟨e, List.mem_filter.2 ⟨he, ?_⟩, hu⟩
    by_contra hq
    have := h e he (by simpa using hq)
    rcases isNum_cases e with h' | ⟨v, rfl⟩
    · rw [h'] at this; cases this
    · rw [mayBeUndefined_num] at hu; cases hu

/-- a successful second loop is a filter that drops only non-absorbing literals and keeps every
non-literal. -/
theorem naryStep_some {isAnd : Bool} {es res : List (Exp α)} (h : naryStep isAnd es = some res) :
    ∃ q : Exp α → Bool, res = es.filter q ∧
      (∀ x ∈ es, q x = false → ∃ v, x = .num v ∧ absorbing isAnd v = false) ∧
      (∀ x, isNum x = false → q x = true) := by
  unfold naryStep at h
  split at h
  · simp only [Option.some.injEq] at h
    refine ⟨fun x => !(isIdentityLit isAnd x), by rw [← h, naryKeep_eq_filter], ?_, ?_⟩
    · intro x _ hq
      rcases isNum_cases x with h' | ⟨v, rfl⟩
      · cases x <;> simp_all [isIdentityLit, isNum]
      · exact ⟨v, rfl, by rw [absorbing_or_identity]; simpa using hq⟩
    · intro x hx; cases x <;> simp_all [isIdentityLit, isNum]
  · refine ⟨fun x => !(isNum x), naryScan_some h, ?_, ?_⟩
    · intro x hx hq
      rcases isNum_cases x with h' | ⟨v, rfl⟩
      · simp [h'] at hq
      · refine ⟨v, rfl, ?_⟩
        by_contra ha
        have : naryScan isAnd es = none := naryScan_none.2 ⟨v, hx, by simpa using ha⟩
        rw [this] at h; cases h
    · intro x hx; simp [hx]

theorem naryStep_none {isAnd : Bool} {es : List (Exp α)} (h : naryStep isAnd es = none) :
    mayBeUndefinedAny es = false ∧ ∃ v, .num v ∈ es ∧ absorbing isAnd v = true := by
  unfold naryStep at h
  split at h
  · cases h
  · exact ⟨by simpa using ‹¬ mayBeUndefinedAny es = true›, naryScan_none.1 h⟩

/-- the second loop is idempotent. -/
theorem naryStep_idem {isAnd : Bool} {es res : List (Exp α)} (h : naryStep isAnd es = some res) :
    naryStep isAnd res = some res := by
  unfold naryStep at h ⊢
  split at h
  · rename_i hu
    simp only [Option.some.injEq] at h
    have hres : res = es.filter (fun x => !(isIdentityLit isAnd x)) := by
      rw [← h, naryKeep_eq_filter]
    have : mayBeUndefinedAny res = true := by
      rw [hres, mayBeUndefinedAny_filter, hu]
      intro x _ hq; cases x <;> simp_all [isIdentityLit, isNum]
    rw [if_pos this, naryKeep_eq_filter, hres, List.filter_filter]
    simp
  · rename_i hu
    have hres := naryScan_some h
    have : ¬ mayBeUndefinedAny res = true := by
      rw [hres, mayBeUndefinedAny_filter]
      · exact hu
      · intro x _ hq; simpa using hq
    rw [if_neg this]
    apply naryScan_id
    intro e he; rw [hres, List.mem_filter] at he; simpa using he.2

/-- shape of the result of `naryCore`. -/
theorem naryCore_cases (isAnd : Bool) (cs : List (Exp α)) :
    (naryStep isAnd (naryFlatten isAnd cs) = none ∧
        naryCore isAnd cs = .num (if isAnd then zero else one)) ∨
    (naryStep isAnd (naryFlatten isAnd cs) = some [] ∧
        naryCore isAnd cs = .num (logicNumber isAnd)) ∨
    (∃ e, naryStep isAnd (naryFlatten isAnd cs) = some [e] ∧ naryCore isAnd cs = e) ∨
    (∃ res, naryStep isAnd (naryFlatten isAnd cs) = some res ∧ 2 ≤ res.length ∧
        naryCore isAnd cs = mkNary isAnd res) := by
  unfold naryCore
  split
  · exact Or.inl ⟨‹_›, rfl⟩
  · exact Or.inr (Or.inl ⟨‹_›, rfl⟩)
  · exact Or.inr (Or.inr (Or.inl ⟨_, ‹_›, rfl⟩))
  · rename_i res h0 h1 hs
    refine Or.inr (Or.inr (Or.inr ⟨res, hs, ?_, rfl⟩))
    match res, h0, h1 with
    | [], h0, _ => exact absurd rfl h0
    | [e], _, h1 => exact absurd rfl (h1 e)
    | _ :: _ :: _, _, _ => simp

/-! ### the normal form -/

mutual
/-- Normal form of `simplify`: children in normal form and no node-level rule fires. -/
def NF : Exp α → Prop
  | .num _ => True
  | .var _ => True
  | .abs e => NF e ∧ isNum e = false
  | .un .neg e => NF e ∧ isNum e = false
  | .un .not _ => False
  | .not e => NF e ∧ isNum e = false
  | .xor a b => NF a ∧ NF b ∧ (isNum a && isNum b) = false
  | .implies a b => NF a ∧ NF b ∧ (isNum a && isNum b) = false
  | .iff a b => NF a ∧ NF b ∧ (isNum a && isNum b) = false
  | .and es => NFList es ∧ (∀ e ∈ es, isSameKind true e = false) ∧ naryStep true es = some es ∧ 2 ≤ es.length
  | .or es => NFList es ∧ (∀ e ∈ es, isSameKind false e = false) ∧ naryStep false es = some es ∧ 2 ≤ es.length
  | .min es => es = [] ∨ (NFList es ∧ allNums es = none)
  | .max es => es = [] ∨ (NFList es ∧ allNums es = none)
  | .bin op l r => NF l ∧ NF r ∧ binCore op l r = .bin op l r
def NFList : List (Exp α) → Prop
  | [] => True
  | e :: es => NF e ∧ NFList es
end

theorem NFList_iff (es : List (Exp α)) : NFList es ↔ ∀ e ∈ es, NF e := by
  induction es with
  | nil => simp [NFList]
  | cons e es ih => simp [NFList, ih]

theorem NF_mkNary (isAnd : Bool) (es : List (Exp α)) :
    NF (mkNary isAnd es) ↔
      (∀ e ∈ es, NF e) ∧ (∀ e ∈ es, isSameKind isAnd e = false) ∧
        naryStep isAnd es = some es ∧ 2 ≤ es.length := by
  cases isAnd <;> simp [mkNary, NF, NFList_iff]

theorem allNums_none_of_mem {es : List (Exp α)} {e : Exp α} (he : e ∈ es) (hn : isNum e = false) :
    allNums es = none := by
  induction es with
  | nil => cases he
  | cons x xs ih =>
    rcases isNum_cases x with hx | ⟨v, rfl⟩
    · cases x <;> simp_all [isNum, allNums]
    · rcases List.mem_cons.1 he with rfl | h
      · simp [isNum] at hn
      · simp [allNums, ih h]

/-! ### a normal form is a fixed point -/

theorem naryCore_fix (isAnd : Bool) (es : List (Exp α))
    (h : ∀ e ∈ es, isSameKind isAnd e = false) (hs : naryStep isAnd es = some es)
    (hl : 2 ≤ es.length) :
    naryCore isAnd es = mkNary isAnd es := by
  unfold naryCore
  rw [naryFlatten_id h, hs]
  match es, hl with
  | _ :: _ :: _, _ => rfl

theorem negCore_of_not_num {e : Exp α} (h : isNum e = false) : negCore e = .un .neg e := by
  cases e <;> simp_all [isNum, negCore]
theorem absCore_of_not_num {e : Exp α} (h : isNum e = false) : absCore e = .abs e := by
  cases e <;> simp_all [isNum, absCore]
theorem notCore_of_not_num {e : Exp α} (h : isNum e = false) : notCore e = .not e := by
  cases e <;> simp_all [isNum, notCore]
theorem xorCore_of_not_num {a b : Exp α} (h : (isNum a && isNum b) = false) :
    xorCore a b = .xor a b := by
  cases a <;> cases b <;> simp_all [isNum, xorCore]
theorem impliesCore_of_not_num {a b : Exp α} (h : (isNum a && isNum b) = false) :
    impliesCore a b = .implies a b := by
  cases a <;> cases b <;> simp_all [isNum, impliesCore]
theorem iffCore_of_not_num {a b : Exp α} (h : (isNum a && isNum b) = false) :
    iffCore a b = .iff a b := by
  cases a <;> cases b <;> simp_all [isNum, iffCore]

theorem map_simplify_id {es : List (Exp α)} (h : ∀ e ∈ es, simplify e = e) : es.map simplify = es := by
  induction es with
  | nil => rfl
  | cons e es ih =>
    simp only [List.map_cons, h e (by simp), ih (fun x hx => h x (by simp [hx]))]

theorem simplify_of_NF (e : Exp α) : NF e → simplify e = e := by
  induction e using Exp.ind with
  | num v => intro _; exact simplify_num v
  | var s => intro _; exact simplify_var s
  | abs e ih =>
    intro h; simp only [NF] at h
    rw [simplify_abs, ih h.1, absCore_of_not_num h.2]
  | min es ih =>
    intro h; simp only [NF, NFList_iff] at h
    rw [simplify_min]
    rcases h with rfl | ⟨h1, h2⟩
    · simp
    · rw [map_simplify_id (fun e he => ih e he (h1 e he))]
      split
      · subst ‹es = []›; rfl
      · simp [minCore, h2]
  | max es ih =>
    intro h; simp only [NF, NFList_iff] at h
    rw [simplify_max]
    rcases h with rfl | ⟨h1, h2⟩
    · simp
    · rw [map_simplify_id (fun e he => ih e he (h1 e he))]
      split
      · subst ‹es = []›; rfl
      · simp [maxCore, h2]
  | and es ih =>
    intro h; simp only [NF, NFList_iff] at h
    rw [simplify_and, map_simplify_id (fun e he => ih e he (h.1 e he)), naryCore_fix true es h.2.1 h.2.2.1 h.2.2.2]
    rfl
  | or es ih =>
    intro h; simp only [NF, NFList_iff] at h
    rw [simplify_or, map_simplify_id (fun e he => ih e he (h.1 e he)), naryCore_fix false es h.2.1 h.2.2.1 h.2.2.2]
    rfl
  | not e ih =>
    intro h; simp only [NF] at h
    rw [simplify_not, ih h.1, notCore_of_not_num h.2]
  | xor a b iha ihb =>
    intro h; simp only [NF] at h
    rw [simplify_xor, iha h.1, ihb h.2.1, xorCore_of_not_num h.2.2]
  | implies a b iha ihb =>
    intro h; simp only [NF] at h
    rw [simplify_implies, iha h.1, ihb h.2.1, impliesCore_of_not_num h.2.2]
  | iff a b iha ihb =>
    intro h; simp only [NF] at h
    rw [simplify_iff, iha h.1, ihb h.2.1, iffCore_of_not_num h.2.2]
  | bin op a b iha ihb =>
    intro h; simp only [NF] at h
    rw [simplify_bin, iha h.1, ihb h.2.1, h.2.2]
  | un op e ih =>
    intro h
    cases op with
    | neg => simp only [NF] at h; rw [simplify_neg, ih h.1, negCore_of_not_num h.2]
    | not => simp only [NF] at h

/-! ### `simplify` produces a normal form -/

theorem NF_negCore {e : Exp α} (h : NF e) : NF (negCore e) := by
  rcases isNum_cases e with hn | ⟨v, rfl⟩
  · rw [negCore_of_not_num hn]; simp only [NF]; exact ⟨h, hn⟩
  · simp [negCore, NF]
theorem NF_absCore {e : Exp α} (h : NF e) : NF (absCore e) := by
  rcases isNum_cases e with hn | ⟨v, rfl⟩
  · rw [absCore_of_not_num hn]; simp only [NF]; exact ⟨h, hn⟩
  · simp [absCore, NF]
theorem NF_notCore {e : Exp α} (h : NF e) : NF (notCore e) := by
  rcases isNum_cases e with hn | ⟨v, rfl⟩
  · rw [notCore_of_not_num hn]; simp only [NF]; exact ⟨h, hn⟩
  · simp [notCore, NF]

theorem both_num_cases (a b : Exp α) :
    (isNum a && isNum b) = false ∨ ∃ v w, a = .num v ∧ b = .num w := by
  cases a <;> cases b <;> simp [isNum]

theorem NF_xorCore {a b : Exp α} (ha : NF a) (hb : NF b) : NF (xorCore a b) := by
  rcases both_num_cases a b with h | ⟨v, w, rfl, rfl⟩
  · rw [xorCore_of_not_num h]; simp only [NF]; exact ⟨ha, hb, h⟩
  · simp [xorCore, NF]
theorem NF_impliesCore {a b : Exp α} (ha : NF a) (hb : NF b) : NF (impliesCore a b) := by
  rcases both_num_cases a b with h | ⟨v, w, rfl, rfl⟩
  · rw [impliesCore_of_not_num h]; simp only [NF]; exact ⟨ha, hb, h⟩
  · simp [impliesCore, NF]
theorem NF_iffCore {a b : Exp α} (ha : NF a) (hb : NF b) : NF (iffCore a b) := by
  rcases both_num_cases a b with h | ⟨v, w, rfl, rfl⟩
  · rw [iffCore_of_not_num h]; simp only [NF]; exact ⟨ha, hb, h⟩
  · simp [iffCore, NF]

/-- the four arithmetic rules return an operand, a literal, or the node unchanged. -/
theorem addCore_cases (l r : Exp α) :
    addCore l r = l ∨ addCore l r = r ∨ (∃ v, addCore l r = .num v) ∨ addCore l r = .bin .add l r := by
  unfold addCore; split <;> (try split) <;> simp
theorem subCore_cases (l r : Exp α) :
    subCore l r = l ∨ subCore l r = r ∨ (∃ v, subCore l r = .num v) ∨ subCore l r = .bin .sub l r := by
  unfold subCore; split <;> (try split) <;> simp
theorem mulCore_cases (l r : Exp α) :
    mulCore l r = l ∨ mulCore l r = r ∨ (∃ v, mulCore l r = .num v) ∨ mulCore l r = .bin .mul l r := by
  unfold mulCore; split
  · simp
  · split
    · simp
    · split
      · simp
      · split <;> simp
theorem divCore_cases (l r : Exp α) :
    divCore l r = l ∨ divCore l r = r ∨ (∃ v, divCore l r = .num v) ∨ divCore l r = .bin .div l r := by
  unfold divCore; split <;> split <;> simp

theorem NF_of_cases {op : BinOp} {l r x : Exp α} (hl : NF l) (hr : NF r)
    (hx : x = binCore op l r)
    (h : x = l ∨ x = r ∨ (∃ v, x = .num v) ∨ x = .bin op l r) : NF x := by
  rcases h with h | h | ⟨v, h⟩ | h
  · rw [h]; exact hl
  · rw [h]; exact hr
  · rw [h]; simp [NF]
  · rw [h]; simp only [NF]; exact ⟨hl, hr, by rw [← hx, h]⟩

theorem NF_naryCore (isAnd : Bool) {cs : List (Exp α)} (h : ∀ c ∈ cs, NF c) :
    NF (naryCore isAnd cs) := by
  -- facts about the flattened list
  have hF : ∀ x ∈ naryFlatten isAnd cs, NF x ∧ isSameKind isAnd x = false := by
    intro x hx
    rcases mem_naryFlatten.1 hx with ⟨h1, h2⟩ | ⟨inner, h1, h2⟩
    · exact ⟨h x h1, h2⟩
    · have := (NF_mkNary isAnd inner).1 (h _ h1)
      exact ⟨this.1 x h2, this.2.1 x h2⟩
  have hres : ∀ res, naryStep isAnd (naryFlatten isAnd cs) = some res →
      ∀ x ∈ res, NF x ∧ isSameKind isAnd x = false := by
    intro res hs x hx
    obtain ⟨q, hq, _, _⟩ := naryStep_some hs
    rw [hq, List.mem_filter] at hx
    exact hF x hx.1
  rcases naryCore_cases isAnd cs with ⟨_, h2⟩ | ⟨_, h2⟩ | ⟨e, h1, h2⟩ | ⟨res, h1, hl, h2⟩
  · rw [h2]; simp [NF]
  · rw [h2]; simp [NF]
  · rw [h2]; exact (hres _ h1 e (by simp)).1
  · rw [h2, NF_mkNary]
    exact ⟨fun x hx => (hres _ h1 x hx).1, fun x hx => (hres _ h1 x hx).2, naryStep_idem h1, hl⟩

theorem NF_binCore (op : BinOp) {l r : Exp α} (hl : NF l) (hr : NF r) : NF (binCore op l r) := by
  cases op with
  | add => exact NF_of_cases hl hr rfl (addCore_cases l r)
  | sub => exact NF_of_cases hl hr rfl (subCore_cases l r)
  | mul => exact NF_of_cases hl hr rfl (mulCore_cases l r)
  | div => exact NF_of_cases hl hr rfl (divCore_cases l r)
  | and => exact NF_naryCore true (by simp [hl, hr])
  | or => exact NF_naryCore false (by simp [hl, hr])
  | xor => exact NF_xorCore hl hr
  | implies => exact NF_impliesCore hl hr
  | iff => exact NF_iffCore hl hr

theorem NF_maxCore {cs : List (Exp α)} (h : ∀ c ∈ cs, NF c) : NF (maxCore cs) := by
  unfold maxCore; split
  · simp [NF]
  · simp only [NF, NFList_iff]; exact Or.inr ⟨h, ‹_›⟩
theorem NF_minCore {cs : List (Exp α)} (h : ∀ c ∈ cs, NF c) : NF (minCore cs) := by
  unfold minCore; split
  · simp [NF]
  · simp only [NF, NFList_iff]; exact Or.inr ⟨h, ‹_›⟩

theorem NF_simplify (e : Exp α) : NF (simplify e) := by
  induction e using Exp.ind with
  | num v => simp [simplify_num, NF]
  | var s => simp [simplify_var, NF]
  | abs e ih => rw [simplify_abs]; exact NF_absCore ih
  | min es ih =>
    rw [simplify_min]; split
    · simp [NF]
    · exact NF_minCore (by simpa using ih)
  | max es ih =>
    rw [simplify_max]; split
    · simp [NF]
    · exact NF_maxCore (by simpa using ih)
  | and es ih => rw [simplify_and]; exact NF_naryCore true (by simpa using ih)
  | or es ih => rw [simplify_or]; exact NF_naryCore false (by simpa using ih)
  | not e ih => rw [simplify_not]; exact NF_notCore ih
  | xor a b iha ihb => rw [simplify_xor]; exact NF_xorCore iha ihb
  | implies a b iha ihb => rw [simplify_implies]; exact NF_impliesCore iha ihb
  | iff a b iha ihb => rw [simplify_iff]; exact NF_iffCore iha ihb
  | bin op a b iha ihb => rw [simplify_bin]; exact NF_binCore op iha ihb
  | un op e ih =>
    cases op with
    | neg => rw [simplify_neg]; exact NF_negCore ih
    | not => rw [simplify_unot]; exact NF_notCore ih

/-- idempotence, for every number type. -/
theorem simplify_simplify (e : Exp α) : simplify (simplify e) = simplify e :=
  simplify_of_NF _ (NF_simplify e)

end Exp
end Rooc
