/-
C10 — a RELATIONAL calculus for the linearizer monad in which the two runs differ only in their WORK LISTS: the
queued constraints are pairwise `CR`-related (same name / comparison / kind, sides with equal normal forms).
Adapted from agent-c08proof's `WFRel2.lean` (there: same queue, domain up to order); everything the lowering does
except popping a constraint is blind to the queue, and popping reads a constraint only through `normalizeExp`.
-/
import Rooc.Proofs.WFRel2Lin
import Lean

set_option linter.unusedSectionVars false
set_option linter.unusedVariables false

namespace Rooc
namespace LinQ
open Arith Rooc.Lin
variable {α : Type} [Arith α] {β γ : Type}

/-- two queued constraints the work-list loop cannot tell apart: same name, comparison and kind, sides with
equal normal forms (`drain` reads a constraint only through these). -/
def CR (c c' : Constraint α) : Prop :=
  c'.name = c.name ∧ c'.cmp = c.cmp ∧ c'.isAssert = c.isAssert ∧
    normalizeExp c'.lhs = normalizeExp c.lhs ∧ normalizeExp c'.rhs = normalizeExp c.rhs

theorem CR.refl (c : Constraint α) : CR c c := ⟨rfl, rfl, rfl, rfl, rfl⟩

theorem forall2_CR_refl : ∀ q : List (Constraint α), List.Forall₂ CR q q
  | [] => List.Forall₂.nil
  | c :: q => List.Forall₂.cons (CR.refl c) (forall2_CR_refl q)

/-- the two states are the same except that their work lists hold pairwise `CR`-related constraints. -/
structure S (s s' : St α) : Prop where
  queue : List.Forall₂ CR s.queue s'.queue
  rows : s.rows = s'.rows
  cMin : s.minCount = s'.minCount
  cMax : s.maxCount = s'.maxCount
  cAbs : s.absCount = s'.absCount
  cAnd : s.andCount = s'.andCount
  cOr : s.orCount = s'.orCount
  cXor : s.xorCount = s'.xorCount
  cImp : s.impliesCount = s'.impliesCount
  cIff : s.iffCount = s'.iffCount
  cWit : s.witnessCount = s'.witnessCount
  dom : s.domain = s'.domain
  bnd : s.bounds = s'.bounds

/-- equal results and related final states, or the same error. -/
def RunRel (r r' : Except LinErr (β × St α)) : Prop :=
  match r, r' with
  | .ok (a, t), .ok (a', t') => a = a' ∧ S t t'
  | .error e, .error e' => e = e'
  | _, _ => False

def Eq2 (s s' : St α) (x x' : M α β) : Prop := S s s' → RunRel (x s) (x' s')

namespace Eq2

theorem pure2 {s s' : St α} (a : β) : Eq2 s s' (pure a : M α β) (pure a) := fun h => ⟨rfl, h⟩

theorem fail2 {s s' : St α} (e : LinErr) : Eq2 s s' (fail e : M α β) (fail e) := fun _ => rfl

theorem bind2 {s s' : St α} {x x' : M α β} {f f' : β → M α γ} (hx : Eq2 s s' x x')
    (hf : ∀ a t t', Eq2 t t' (f a) (f' a)) : Eq2 s s' (x >>= f) (x' >>= f') := by
  intro hS
  have h := hx hS
  rw [bind_run, bind_run]
  unfold RunRel at h
  cases hxs : x s with
  | error e =>
    cases hxs' : x' s' with
    | error e' => rw [hxs, hxs'] at h; exact h
    | ok q => rw [hxs, hxs'] at h; exact h.elim
  | ok q =>
    obtain ⟨a, t⟩ := q
    cases hxs' : x' s' with
    | error e' => rw [hxs, hxs'] at h; exact h.elim
    | ok q' =>
      obtain ⟨a', t'⟩ := q'
      rw [hxs, hxs'] at h
      obtain ⟨rfl, hS'⟩ := h
      exact hf a t t' hS'

theorem get2 {s s' : St α} {f f' : St α → M α γ} (h : S s s' → Eq2 s s' (f s) (f' s')) :
    Eq2 s s' (get >>= f) (get >>= f') := fun hS => h hS hS

theorem set2 {s s' t t' : St α} {f f' : PUnit → M α γ} (h1 : S t t') (h : Eq2 t t' (f PUnit.unit) (f' PUnit.unit)) :
    Eq2 s s' (set t >>= f) (set t' >>= f') := fun _ => h h1

theorem set1 {s s' t t' : St α} (h1 : S t t') : Eq2 s s' (set t : M α PUnit) (set t') := fun _ => ⟨rfl, h1⟩

theorem modify2 {s s' : St α} {g g' : St α → St α} (h : S s s' → S (g s) (g' s')) :
    Eq2 s s' (modify g : M α PUnit) (modify g') := fun hS => ⟨rfl, h hS⟩

theorem ite2 {s s' : St α} {c : Prop} [Decidable c] {a a' b b' : M α β}
    (h1 : c → Eq2 s s' a a') (h2 : ¬c → Eq2 s s' b b') :
    Eq2 s s' (if c then a else b) (if c then a' else b') := by
  by_cases hc : c
  · rw [if_pos hc, if_pos hc]; exact h1 hc
  · rw [if_neg hc, if_neg hc]; exact h2 hc

theorem forIn2 {δ : Type} (xs : List δ) (init : PUnit) (body body' : δ → PUnit → M α (ForInStep PUnit))
    (h : ∀ x ∈ xs, ∀ b t t', Eq2 t t' (body x b) (body' x b)) :
    ∀ s s', Eq2 s s' (forIn xs init body) (forIn xs init body') := by
  induction xs generalizing init with
  | nil => intro s s'; rw [List.forIn_nil, List.forIn_nil]; exact pure2 _
  | cons x xs ih =>
    intro s s'
    rw [List.forIn_cons, List.forIn_cons]
    refine bind2 (h x (by simp) init s s') ?_
    intro r t t'
    cases r with
    | done b => exact pure2 _
    | yield b => exact ih b (fun y hy => h y (by simp [hy])) t t'

end Eq2

/-! ### goal classifier and automation -/

open Lean Elab Tactic Meta in
def spKindQ (t : Expr) : MetaM String := do
  let t := (← instantiateMVars t).cleanupAnnotations
  unless t.isAppOf ``Rooc.LinQ.Eq2 do return "none"
  let args := t.getAppArgs
  if args.size < 4 then return "none"
  let prog := (args[args.size - 2]!).cleanupAnnotations
  if prog.isLet then return "let"
  if prog.isHeadBetaTarget then return "beta"
  let fn := prog.getAppFn
  match fn.constName? with
  | some ``Pure.pure => return "pure"
  | some ``Rooc.Lin.fail => return "fail"
  | some ``ite => return "ite"
  | some ``dite => return "ite"
  | some ``MonadState.set => return "set1"
  | some ``MonadStateOf.set => return "set1"
  | some ``Bind.bind =>
    let bargs := prog.getAppArgs
    if bargs.size < 6 then return "bind"
    let x := bargs[4]!
    match x.getAppFn.constName? with
    | some ``MonadState.get => return "get"
    | some ``MonadStateOf.get => return "get"
    | some ``getThe => return "get"
    | some ``MonadState.set => return "set"
    | some ``MonadStateOf.set => return "set"
    | _ => return "bind"
  | some n =>
    if (← isMatcher n) then return "match" else return "call"
  | none => return "call"

open Lean Elab Tactic Meta in
/-- `apply` the first local hypothesis whose conclusion is an `Eq2` statement that fits. -/
elab "apply_eqq_hyp" : tactic => do
  let g ← getMainGoal
  g.withContext do
    let lctx ← getLCtx
    for d in lctx do
      if d.isImplementationDetail then continue
      let ty := (← instantiateMVars d.type).headBeta
      unless ty.getForallBody.isAppOf ``Rooc.LinQ.Eq2 do continue
      let saved ← saveState
      try
        let gs ← g.apply d.toExpr
        replaceMainGoal gs
        return
      catch _ => saved.restore
    throwError "apply_eqq_hyp: no hypothesis applies"

/-- a state update that keeps domain and bounds of the captured pair. -/
theorem S.update {t t' : St α}
    (hq : List.Forall₂ CR t.queue t'.queue) (hr : t.rows = t'.rows)
    (h1 : t.minCount = t'.minCount) (h2 : t.maxCount = t'.maxCount) (h3 : t.absCount = t'.absCount)
    (h4 : t.andCount = t'.andCount) (h5 : t.orCount = t'.orCount) (h6 : t.xorCount = t'.xorCount)
    (h7 : t.impliesCount = t'.impliesCount) (h8 : t.iffCount = t'.iffCount) (h9 : t.witnessCount = t'.witnessCount)
    (hd : t.domain = t'.domain) (hb : t.bounds = t'.bounds) :
    S t t' :=
  ⟨hq, hr, h1, h2, h3, h4, h5, h6, h7, h8, h9, hd, hb⟩

end LinQ
end Rooc
