/-
C01 / C02 on piecewise-linear models: everything assembled, no hypothesis left except the ones on the
model (`FragModel`), its domains (`DomRel`) and the bounds map (`BoxEnforced`).
-/
import Rooc.Proofs.LinFinal
import Rooc.Proofs.LinSpecMin
import Rooc.Proofs.LinOracle
import Rooc.Proofs.LinSpecLogic2

set_option linter.unusedSectionVars false
set_option linter.unusedSimpArgs false
set_option linter.unusedVariables false

namespace Rooc.LinP
open Rooc Rooc.Lin Rooc.Sem Rooc.Exp

variable {K : Type} [Field K] [LinearOrder K] [IsStrictOrderedRing K] [FloorRing K]

/-- **the specification of `Exp::linearize`** on every expression built from literals, variables,
`+ - * /`, unary minus, `abs`, `min`, `max`: for each requirement, frame + soundness + completeness. -/
theorem lin_spec_pl {Src : Constraint (Ext K) → Prop} :
    ∀ e : Exp (Ext K), frag true e = true → SpecHolds Src e :=
  lin_spec boundsOracle true (fun _ es ih => ⟨spec_max boundsOracle ih, spec_min boundsOracle ih⟩)

theorem pl_feasible_iff {m : Model (Ext K)} {b : BoundsMap (Ext K)} {d : List (DomVar (Ext K))}
    {lm : LinModel (Ext K)} (hm : FragModel true m d) (hdom : DomRel m d) (hbox : BoxEnforced b d)
    (h : linearizeWith m b d = .ok lm) (ρ : String → K) :
    srcFeasible m ρ = true ↔
      ∃ ρ' : String → K, (∀ x, inScope d x → ρ' x = ρ x) ∧ linFeasible lm ρ' = true :=
  frag_feasible_iff lin_spec_pl hm hdom hbox h ρ

theorem pl_objective {m : Model (Ext K)} {b : BoundsMap (Ext K)} {d : List (DomVar (Ext K))}
    {lm : LinModel (Ext K)} (hm : FragModel true m d) (hdom : DomRel m d) (hbox : BoxEnforced b d)
    (h : linearizeWith m b d = .ok lm) (ρ : String → K) (hs : srcFeasible m ρ = true) (v : K)
    (hv : eval ρ m.objective = some v) :
    (∀ ρ' : String → K, (∀ x, inScope d x → ρ' x = ρ x) → linFeasible lm ρ' = true →
        ∃ w, linObjective lm ρ' = some w ∧ rel (objReq m) w v) ∧
    (∃ ρ' : String → K, (∀ x, inScope d x → ρ' x = ρ x) ∧ linFeasible lm ρ' = true ∧
        linObjective lm ρ' = some v) :=
  frag_objective lin_spec_pl hm hdom hbox h ρ hs v hv

/-- `BoxEnforced` from a per-variable check: every entry of the bounds map belongs to a declared, used
variable whose domain is inside the entry's interval. -/
theorem boxEnforced_of_entries {b : BoundsMap (Ext K)} {d : List (DomVar (Ext K))}
    (h : ∀ n bd, lookupB b n = some bd → ∃ dv ∈ d, dv.name = n ∧ dv.usage > 0 ∧
      ∀ x : K, inDomain x dv.ty = true → Encl bd x) : BoxEnforced b d := by
  intro ρ hd n bd _ hl
  obtain ⟨dv, hdv, rfl, hu, henc⟩ := h n bd hl
  exact henc _ (hd dv hdv hu)

/-- the Boolean case of `BoxEnforced` is exactly "the range of a Boolean variable was not tightened". -/
theorem bool_entry_ok {bd : Lin.Bounds (Ext K)} (hl : lowerOK bd.lower 0) (hu : upperOK bd.upper 1)
    (hl1 : lowerOK bd.lower 1) (hu0 : upperOK bd.upper 0) :
    ∀ x : K, inDomain x (.bool : VarType (Ext K)) = true → Encl bd x := by
  intro x hx
  rcases B01_of_inDomain_bool hx with rfl | rfl
  · exact ⟨hl, hu0⟩
  · exact ⟨hl1, hu⟩

/-- **the specification of `Exp::linearize` on EVERY expression**: literals, variables, `+ - * /`, unary minus,
`abs`, `min`, `max`, and the logic connectives used as values (`not`, n-ary `and`/`or`, `implies`, `iff`, `xor`
— reified, operands binary); the binary spellings `BinOp::And …` and `UnOp::Not` are rejected by the code
(`UnimplementedExpression`), so nothing is claimed about them. -/
theorem lin_spec_all {Src : Constraint (Ext K) → Prop} : ∀ e : Exp (Ext K), SpecHolds Src e := by
  intro e
  induction e using Exp.indL with
  | num v => exact spec_num v
  | var x => exact spec_var x
  | abs e ih => exact spec_abs boundsOracle ih
  | max es ih => exact spec_max boundsOracle ih
  | min es ih => exact spec_min boundsOracle ih
  | and es ih => exact spec_and ih
  | or es ih => exact spec_or ih
  | not e ih => exact spec_not ih
  | xor a b iha ihb => exact spec_xor iha ihb
  | implies a b iha ihb => exact spec_implies iha ihb
  | iff a b iha ihb => exact spec_iff iha ihb
  | bin op a b iha ihb =>
    cases op with
    | add => exact spec_add iha ihb
    | sub => exact spec_sub iha ihb
    | mul => exact spec_mul iha ihb
    | div => exact spec_div iha
    | and =>
      intro req s c s' _ h
      rw [linExp.eq_8 _ _ _ _ (by intro h; cases h) (by intro h; cases h) (by intro _ h; cases h)
        (by intro _ h; cases h) (by intro h; cases h) (by intro _ h; cases h) (by intro h; cases h)] at h
      simp [fail_ok] at h
    | or =>
      intro req s c s' _ h
      rw [linExp.eq_8 _ _ _ _ (by intro h; cases h) (by intro h; cases h) (by intro _ h; cases h)
        (by intro _ h; cases h) (by intro h; cases h) (by intro _ h; cases h) (by intro h; cases h)] at h
      simp [fail_ok] at h
    | xor =>
      intro req s c s' _ h
      rw [linExp.eq_8 _ _ _ _ (by intro h; cases h) (by intro h; cases h) (by intro _ h; cases h)
        (by intro _ h; cases h) (by intro h; cases h) (by intro _ h; cases h) (by intro h; cases h)] at h
      simp [fail_ok] at h
    | implies =>
      intro req s c s' _ h
      rw [linExp.eq_8 _ _ _ _ (by intro h; cases h) (by intro h; cases h) (by intro _ h; cases h)
        (by intro _ h; cases h) (by intro h; cases h) (by intro _ h; cases h) (by intro h; cases h)] at h
      simp [fail_ok] at h
    | iff =>
      intro req s c s' _ h
      rw [linExp.eq_8 _ _ _ _ (by intro h; cases h) (by intro h; cases h) (by intro _ h; cases h)
        (by intro _ h; cases h) (by intro h; cases h) (by intro _ h; cases h) (by intro h; cases h)] at h
      simp [fail_ok] at h
  | un op e ih =>
    cases op with
    | neg => exact spec_neg ih
    | not => intro req s c s' _ h; rw [linExp] at h; simp [fail_ok] at h

end Rooc.LinP
