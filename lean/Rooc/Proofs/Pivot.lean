/-
Lemmas about `Tableau.pivot` at an ordered field (port of the design-phase probe `PivotProbe.lean`).
-/
import Rooc.TabSem
import Rooc.Proofs.FieldArith
namespace Rooc
namespace PivotLemmas
variable {K : Type} [Field K] [LinearOrder K] [IsStrictOrderedRing K]
attribute [local instance] exactArith
open Tableau TabSem

@[simp] theorem dot_nil_left (x : List K) : dot ([] : List K) x = 0 := by simp [dot]
@[simp] theorem dot_nil_right (a : List K) : dot a ([] : List K) = 0 := by cases a <;> simp [dot]
@[simp] theorem dot_cons (a : K) (as : List K) (x : K) (xs : List K) :
    dot (a :: as) (x :: xs) = a * x + dot as xs := by simp [dot]

theorem dot_rowSubMul (f : K) : ∀ (r t x : List K), r.length = t.length →
    dot (rowSubMul f r t) x = dot r x - f * dot t x
  | [], [], x, _ => by simp [rowSubMul]
  | a :: as, p :: ps, [], _ => by simp [rowSubMul]
  | a :: as, p :: ps, x :: xs, h => by
    have ih := dot_rowSubMul f as ps xs (by simpa using h)
    simp [rowSubMul, ih]; ring
  | [], _ :: _, _, h => by simp at h
  | _ :: _, [], _, h => by simp at h

theorem dot_rowDiv (p : K) : ∀ (r x : List K), dot (rowDiv p r) x = dot r x / p
  | [], x => by simp [rowDiv]
  | a :: as, [] => by simp [rowDiv]
  | a :: as, x :: xs => by
    have ih := dot_rowDiv p as xs
    simp only [rowDiv, List.map_cons, dot_cons, ExactK.div_eq] at ih ⊢
    rw [ih]; ring

theorem length_rowSubMul (f : K) : ∀ (r t : List K), r.length = t.length → (rowSubMul f r t).length = r.length
  | [], [], _ => by simp [rowSubMul]
  | a :: as, p :: ps, h => by simp [rowSubMul, length_rowSubMul f as ps (by simpa using h)]
  | [], _ :: _, h => by simp at h
  | _ :: _, [], h => by simp at h

@[simp] theorem length_rowDiv (p : K) (r : List K) : (rowDiv p r).length = r.length := by simp [rowDiv]

theorem nth_rowSubMul (f : K) : ∀ (r t : List K) (j : Nat), r.length = t.length →
    nth (rowSubMul f r t) j = nth r j - f * nth t j
  | [], [], j, _ => by simp [rowSubMul, nth]
  | a :: as, p :: ps, 0, _ => by simp [rowSubMul, nth]
  | a :: as, p :: ps, j+1, h => by
    have ih := nth_rowSubMul f as ps j (by simpa using h)
    simpa [rowSubMul, nth] using ih
  | [], _ :: _, _, h => by simp at h
  | _ :: _, [], _, h => by simp at h

theorem nth_rowDiv (p : K) (r : List K) (j : Nat) : nth (rowDiv p r) j = nth r j / p := by
  simp only [nth, rowDiv]
  rcases Nat.lt_or_ge j r.length with h | h
  · simp [List.getD_eq_getElem?_getD, h]
  · simp [List.getD_eq_getElem?_getD, h]

theorem row_mapIdx (a : List (List K)) (f : Nat → List K → List K) (i : Nat) (hi : i < a.length) :
    row (a.mapIdx f) i = f i (row a i) := by
  simp [row, List.getD_eq_getElem?_getD, hi]

theorem nth_mapIdx (b : List K) (f : Nat → K → K) (i : Nat) (hi : i < b.length) :
    nth (b.mapIdx f) i = f i (nth b i) := by
  simp [nth, List.getD_eq_getElem?_getD, hi]

/-! ### accessors of the pivoted tableau -/
section
variable (T : Tab K) (t h : Nat)

@[simp] theorem pivot_a_length : (pivot T t h).a.length = T.a.length := by simp [pivot]
@[simp] theorem pivot_b_length : (pivot T t h).b.length = T.b.length := by simp [pivot]
@[simp] theorem pivot_basis_length : (pivot T t h).basis.length = T.basis.length := by simp [pivot]

theorem pivot_row {i : Nat} (hi : i < T.a.length) :
    row (pivot T t h).a i =
      if i = t then rowDiv (nth (row T.a t) h) (row T.a i)
      else rowSubMul (nth (row T.a i) h / nth (row T.a t) h) (row T.a i) (row T.a t) := by
  simp only [pivot]
  rw [row_mapIdx _ _ _ hi]
  simp

theorem pivot_b {i : Nat} (hi : i < T.b.length) :
    nth (pivot T t h).b i =
      if i = t then nth T.b i / nth (row T.a t) h
      else nth T.b i - nth (row T.a i) h / nth (row T.a t) h * nth T.b t := by
  simp only [pivot]
  rw [nth_mapIdx _ _ _ hi]
  simp

theorem pivot_c : (pivot T t h).c = rowSubMul (nth T.c h / nth (row T.a t) h) T.c (row T.a t) := by
  simp [pivot]

theorem pivot_value : (pivot T t h).value = T.value - nth T.c h / nth (row T.a t) h * nth T.b t := by
  simp [pivot]

theorem pivot_basis_get (k : Nat) (hk : k < T.basis.length) :
    (pivot T t h).basis.getD k 0 = if k = t then h else T.basis.getD k 0 := by
  simp only [pivot]
  by_cases hkt : k = t
  · subst hkt; simp [List.getD_eq_getElem?_getD, hk]
  · simp [List.getD_eq_getElem?_getD, hkt, List.getElem?_set_ne (Ne.symm hkt)]
end

/-- **Pivoting keeps the solution set** — for ANY non-zero pivot element. -/
theorem pivot_sol {T : Tab K} {m n : Nat} (hR : Rect T m n) {t h : Nat} (ht : t < m)
    (hp : nth (row T.a t) h ≠ 0) (x : List K) : Sol (pivot T t h) x ↔ Sol T x := by
  have hlen : ∀ i, i < m → (row T.a i).length = (row T.a t).length := fun i hi => by
    rw [hR.width i hi, hR.width t ht]
  constructor
  · intro hS i hi
    have hi' : i < m := hR.rows ▸ hi
    have ht' : t < T.a.length := hR.rows ▸ ht
    -- the pivot row first
    have et := hS t (by simpa using ht')
    rw [pivot_row T t h ht', pivot_b T t h (hR.rhs ▸ ht)] at et
    simp only [if_true, dot_rowDiv] at et
    have et' : dot (row T.a t) x = nth T.b t := by
      field_simp at et; exact et
    by_cases hit : i = t
    · subst hit; exact et'
    · have ei := hS i (by simpa using hi)
      rw [pivot_row T t h hi, pivot_b T t h (hR.rhs ▸ hi')] at ei
      simp only [hit, if_false] at ei
      rw [dot_rowSubMul _ _ _ _ (hlen i hi'), et'] at ei
      linear_combination ei
  · intro hS i hi
    have hi0 : i < T.a.length := by simpa using hi
    have hi' : i < m := hR.rows ▸ hi0
    have ht' : t < T.a.length := hR.rows ▸ ht
    rw [pivot_row T t h hi0, pivot_b T t h (hR.rhs ▸ hi')]
    by_cases hit : i = t
    · subst hit
      simp only [if_true, dot_rowDiv]
      rw [hS i hi0]
    · simp only [hit, if_false]
      rw [dot_rowSubMul _ _ _ _ (hlen i hi'), hS i hi0, hS t ht']

/-- the pivoted tableau is rectangular again. -/
theorem pivot_rect {T : Tab K} {m n : Nat} (hR : Rect T m n) {t h : Nat} (ht : t < m) :
    Rect (pivot T t h) m n := by
  refine ⟨by simpa using hR.rows, by simpa using hR.rhs, by simpa using hR.basis, ?_, ?_⟩
  · rw [pivot_c, length_rowSubMul _ _ _ (by rw [hR.costs, hR.width t ht]), hR.costs]
  · intro i hi
    rw [pivot_row T t h (hR.rows ▸ hi)]
    by_cases hit : i = t
    · simp [hit, hR.width t ht]
    · simp only [hit, if_false]
      rw [length_rowSubMul _ _ _ (by rw [hR.width i hi, hR.width t ht]), hR.width i hi]

/-- **Basic columns stay unit columns** (the entering column becomes the unit column of row `t`). -/
theorem pivot_unit {T : Tab K} {m n : Nat} (hR : Rect T m n) (hU : UnitCols T) {t h : Nat} (ht : t < m)
    (hp : nth (row T.a t) h ≠ 0) : UnitCols (pivot T t h) := by
  intro i k hi hk
  have hi0 : i < T.a.length := by simpa using hi
  have hk0 : k < T.a.length := by simpa using hk
  have hi' : i < m := hR.rows ▸ hi0
  have ht0 : t < T.a.length := hR.rows ▸ ht
  have hlen : (row T.a i).length = (row T.a t).length := by rw [hR.width i hi', hR.width t ht]
  rw [pivot_row T t h hi0, pivot_basis_get T t h k (by rw [hR.basis, ← hR.rows]; exact hk0)]
  by_cases hkt : k = t
  · subst hkt
    by_cases hik : i = k
    · subst hik; simp [nth_rowDiv, hp]
    · simp only [hik, if_false, if_true]
      rw [nth_rowSubMul _ _ _ _ hlen]
      simp; field_simp; ring
  · have hcol_t := hU t k ht0 hk0
    have hcol_i := hU i k hi0 hk0
    have htk : t ≠ k := fun e => hkt e.symm
    simp only [htk, if_false, ExactK.zero_eq] at hcol_t
    simp only [hkt, if_false]
    by_cases hit : i = t
    · subst hit
      simp only [if_true, nth_rowDiv, hcol_t]
      simp [htk]
    · simp only [hit, if_false]
      rw [nth_rowSubMul _ _ _ _ hlen, hcol_t, hcol_i]
      simp

/-- the entering index is a column, the others stay. -/
theorem pivot_inRange {T : Tab K} {m n : Nat} (hR : Rect T m n) (hB : BasisInRange T) {t h : Nat}
    (ht : t < m) (hh : h < n) : BasisInRange (pivot T t h) := by
  intro k hk
  have hk0 : k < T.a.length := by simpa using hk
  rw [pivot_basis_get T t h k (by rw [hR.basis, ← hR.rows]; exact hk0), (pivot_rect hR ht).costs]
  by_cases hkt : k = t
  · simp [hkt, hh]
  · simp only [hkt, if_false]; have := hB k hk0; rwa [hR.costs] at this

/-- reduced costs of basic columns stay zero. -/
theorem pivot_costs {T : Tab K} {m n : Nat} (hR : Rect T m n) (hU : UnitCols T) (hC : BasicCostsZero T)
    {t h : Nat} (ht : t < m) (hp : nth (row T.a t) h ≠ 0) : BasicCostsZero (pivot T t h) := by
  intro k hk
  have hk0 : k < T.a.length := by simpa using hk
  have ht0 : t < T.a.length := hR.rows ▸ ht
  rw [pivot_basis_get T t h k (by rw [hR.basis, ← hR.rows]; exact hk0), pivot_c,
    nth_rowSubMul _ _ _ _ (by rw [hR.costs, hR.width t ht])]
  by_cases hkt : k = t
  · simp only [hkt, if_true]; simp; field_simp; ring
  · have hcol_t := hU t k ht0 hk0
    have htk : t ≠ k := fun e => hkt e.symm
    simp only [htk, if_false, ExactK.zero_eq] at hcol_t
    simp only [hkt, if_false]
    have := hC k hk0
    simp only [ExactK.zero_eq] at this
    rw [this, hcol_t]; simp

/-- **Canonical form is preserved** by a pivot on any non-zero element of a column `h < n`. -/
theorem pivot_canon {T : Tab K} {m n : Nat} (hC : Canon T m n) {t h : Nat} (ht : t < m) (hh : h < n)
    (hp : nth (row T.a t) h ≠ 0) : Canon (pivot T t h) m n :=
  ⟨pivot_rect hC.rect ht, pivot_unit hC.rect hC.unit ht hp, pivot_inRange hC.rect hC.inRange ht hh,
   pivot_costs hC.rect hC.unit hC.costs ht hp⟩

/-- **The pair (reduced costs, value) keeps representing the original objective.** -/
theorem pivot_objInv {T : Tab K} {m n : Nat} (hR : Rect T m n) {c0 : List K} (hO : ObjInv T c0) {t h : Nat}
    (ht : t < m) (hp : nth (row T.a t) h ≠ 0) : ObjInv (pivot T t h) c0 := by
  intro x hx hS
  have hS' := (pivot_sol hR ht hp x).1 hS
  have hx' : x.length = T.c.length := by rw [hx, (pivot_rect hR ht).costs, hR.costs]
  have e := hO x hx' hS'
  have et := hS' t (hR.rows ▸ ht)
  rw [e, pivot_c, pivot_value, dot_rowSubMul _ _ _ _ (by rw [hR.costs, hR.width t ht]), et]
  simp only [ExactK.sub_eq]; ring

/-- **Monotonicity**: entering a column with non-positive reduced cost on a positive pivot with a
non-negative right-hand side never decreases `value` (= never increases the objective `−value`). -/
theorem pivot_value_ge {T : Tab K} {t h : Nat} (hc : nth T.c h ≤ 0) (hp : 0 < nth (row T.a t) h)
    (hb : 0 ≤ nth T.b t) : T.value ≤ (pivot T t h).value := by
  rw [pivot_value]
  have : nth T.c h / nth (row T.a t) h * nth T.b t ≤ 0 :=
    mul_nonpos_of_nonpos_of_nonneg (div_nonpos_of_nonpos_of_nonneg hc hp.le) hb
  linarith

end PivotLemmas
end Rooc
