/-
C08 helpers — the missing-bounds error: specification of `varsWithoutFiniteBounds`
(`variables_without_finite_bounds`) and the exact conditions under which the exact lowerings of `abs`,
`min`, `max` stop with `MissingFiniteBounds`.
-/
import Rooc.Proofs.WFList
import Rooc.Proofs.WFMonad

set_option linter.unusedSectionVars false

namespace Rooc
namespace Lin
open Arith WFList
variable {α : Type} [Arith α]

/-! ### `sortDedup` -/

theorem mem_insertSorted {x a : String} {ys : List String} :
    a ∈ insertSorted x ys ↔ a = x ∨ a ∈ ys := by
  induction ys with
  | nil => simp [insertSorted]
  | cons y ys ih =>
    simp only [insertSorted]
    split
    · simp
    · split
      · rename_i h
        have : x = y := by simpa using h
        subst this
        simp
      · simp only [List.mem_cons, ih]
        constructor
        · rintro (h | h | h) <;> simp [h]
        · rintro (h | h | h) <;> simp [h]

theorem insertSorted_sorted (x : String) (ys : List String) (h : ys.Pairwise (· < ·)) :
    (insertSorted x ys).Pairwise (· < ·) := by
  induction ys with
  | nil => simp [insertSorted]
  | cons y ys ih =>
    have hy := List.pairwise_cons.mp h
    simp only [insertSorted]
    split
    · rename_i hxy
      refine List.pairwise_cons.mpr ⟨?_, h⟩
      intro c hc
      rcases List.mem_cons.mp hc with rfl | hc
      · exact hxy
      · exact lt_trans hxy (hy.1 c hc)
    · rename_i hxy
      split
      · exact h
      · rename_i hne
        refine List.pairwise_cons.mpr ⟨?_, ih hy.2⟩
        intro c hc
        rcases mem_insertSorted.mp hc with rfl | hc
        · have hne' : c ≠ y := by simpa using hne
          exact lt_of_le_of_ne (not_lt.mp hxy) (Ne.symm hne')
        · exact hy.1 c hc

theorem sortDedup_foldl (xs acc : List String) (h : acc.Pairwise (· < ·)) :
    (xs.foldl (fun acc x => insertSorted x acc) acc).Pairwise (· < ·) ∧
      ∀ a, a ∈ xs.foldl (fun acc x => insertSorted x acc) acc ↔ a ∈ xs ∨ a ∈ acc := by
  induction xs generalizing acc with
  | nil => exact ⟨h, fun a => by simp⟩
  | cons x xs ih =>
    simp only [List.foldl_cons]
    obtain ⟨h1, h2⟩ := ih _ (insertSorted_sorted x acc h)
    refine ⟨h1, fun a => ?_⟩
    rw [h2, mem_insertSorted, List.mem_cons]
    constructor
    · rintro (h | h | h) <;> simp [h]
    · rintro ((h | h) | h) <;> simp [h]

/-- `sortDedup` returns the strictly sorted list of the distinct elements. -/
theorem sortDedup_sorted (xs : List String) : WF.sortedStrict (sortDedup xs) = true :=
  (sortedStrict_iff _).mpr (sortDedup_foldl xs [] List.Pairwise.nil).1

theorem mem_sortDedup {a : String} {xs : List String} : a ∈ sortDedup xs ↔ a ∈ xs := by
  have := (sortDedup_foldl xs [] List.Pairwise.nil).2 a
  unfold sortDedup
  simpa using this

/-! ### `variables_without_finite_bounds` -/

/-- the bound the linearizer uses for a variable: its entry in the bounds map, else unbounded. -/
def varBounds (m : BoundsMap α) (n : String) : Bounds α := (lookupB m n).getD Bounds.unbounded

theorem boundsOf_var (m : BoundsMap α) (n : String) : boundsOf m (.var n : Exp α) = varBounds m n := by
  simp [boundsOf, varBounds]

/-- the error payload is strictly sorted (so duplicate-free) … -/
theorem varsWithoutFiniteBounds_sorted (e : Exp α) (m : BoundsMap α) :
    WF.sortedStrict (varsWithoutFiniteBounds e m) = true := sortDedup_sorted _

/-- … and consists EXACTLY of the variables of the expression whose lower or upper bound in the map is not
finite. -/
theorem mem_varsWithoutFiniteBounds {e : Exp α} {m : BoundsMap α} {x : String} :
    x ∈ varsWithoutFiniteBounds e m ↔
      x ∈ expVars e ∧ ¬ (isFinite (varBounds m x).lower = true ∧ isFinite (varBounds m x).upper = true) := by
  unfold varsWithoutFiniteBounds
  rw [mem_sortDedup, List.mem_filter]
  simp only [boundsOf_var, Bool.or_eq_true, Bool.not_eq_true']
  constructor
  · rintro ⟨h1, h2⟩
    refine ⟨h1, ?_⟩
    rintro ⟨h3, h4⟩
    rcases h2 with h | h
    · rw [h3] at h; cases h
    · rw [h4] at h; cases h
  · rintro ⟨h1, h2⟩
    refine ⟨h1, ?_⟩
    cases h3 : isFinite (varBounds m x).lower
    · exact Or.inl rfl
    · cases h4 : isFinite (varBounds m x).upper
      · exact Or.inr rfl
      · exact absurd ⟨h3, h4⟩ h2

/-! ### where the error is raised -/

theorem run_pure {β : Type} (a : β) (s : St α) : (pure a : M α β) s = .ok (a, s) := rfl
theorem run_get (s : St α) : (get : M α (St α)) s = .ok (s, s) := rfl
theorem run_set (s s2 : St α) : (set s2 : M α PUnit) s = .ok (PUnit.unit, s2) := rfl
theorem run_modify (g : St α → St α) (s : St α) : (modify g : M α PUnit) s = .ok (PUnit.unit, g s) := rfl
theorem run_fail {β : Type} (e : LinErr) (s : St α) : (Lin.fail e : M α β) s = .error e := rfl
theorem run_get_bind {β : Type} (f : St α → M α β) (s : St α) : (get >>= f) s = f s s := rfl

/-- `|e|` whose operand may change sign, in a context that needs the exact value (`req ≠ lower`), with a
derived operand bound that is not finite: the lowering stops with `MissingFiniteBounds`, and the payload is
exactly `varsWithoutFiniteBounds e` at the current bounds map — no big-M constant is guessed. -/
theorem abs_missing_bounds (e : Exp α) (req : Req) (s : St α)
    (hlo : Arith.ge (boundsOf s.bounds e).lower zero = false)
    (hup : Arith.le (boundsOf s.bounds e).upper zero = false)
    (hreq : req ≠ .lower)
    (hinf : (isFinite (boundsOf s.bounds e).lower && isFinite (boundsOf s.bounds e).upper) = false) :
    linExp (.abs e) req s = .error (.missingFiniteBounds (varsWithoutFiniteBounds e s.bounds)) := by
  rw [linExp, run_get_bind]
  have hne : (req != Req.lower) = true := by cases req <;> simp_all
  have hguard : (!(isFinite (boundsOf s.bounds e).lower) || !(isFinite (boundsOf s.bounds e).upper)) = true := by
    cases h1 : isFinite (boundsOf s.bounds e).lower <;> cases h2 : isFinite (boundsOf s.bounds e).upper <;>
      simp_all
  simp only [hlo, hup, hne, hguard, Bool.false_eq_true, if_false, Bool.and_self, if_true]
  rfl

/-- the retained (non-dominated) operands of a `min`/`max`, as computed by `linearize_extreme`. -/
def extFlags (kind : ExtKind) (es : List (Exp α)) (bm : BoundsMap α) : List Bool :=
  retainedFlagsE kind es (boundsOfList bm es)

/-- the `min`/`max` of the retained operands (the expression named in the error). -/
def extRetained (kind : ExtKind) (es : List (Exp α)) (bm : BoundsMap α) : Exp α :=
  match kind with
  | .min => .min (selectFlagged es (extFlags kind es bm))
  | .max => .max (selectFlagged es (extFlags kind es bm))

/-- "every bound the exact big-M encoding needs is finite". -/
def extHasFinite (kind : ExtKind) (es : List (Exp α)) (bm : BoundsMap α) : Bool :=
  let eb := boundsOf bm (extRetained kind es bm)
  let retBounds := selectFlagged (boundsOfList bm es) (extFlags kind es bm)
  match kind with
  | .max => isFinite eb.upper && retBounds.all (fun b => isFinite b.lower)
  | .min => isFinite eb.lower && retBounds.all (fun b => isFinite b.upper)

/-- `min`/`max` with at least two retained operands, in a context that is not the cheap one-sided one, and a
needed bound that is not finite: the lowering stops with `MissingFiniteBounds` naming
`varsWithoutFiniteBounds` of the retained `min`/`max` — no big-M constant is guessed. -/
theorem extreme_missing_bounds (kind : ExtKind) (es : List (Exp α)) (req : Req) (s : St α)
    (hne : es.isEmpty = false)
    (h0 : (((extFlags kind es s.bounds).filter id).length == 0) = false)
    (h1 : (((extFlags kind es s.bounds).filter id).length == 1) = false)
    (hside : ((kind == .max && req == .lower) || (kind == .min && req == .higher)) = false)
    (hfin : extHasFinite kind es s.bounds = false) :
    linExtreme kind es req s =
      .error (.missingFiniteBounds (varsWithoutFiniteBounds (extRetained kind es s.bounds) s.bounds)) := by
  cases kind
  · rw [linExtreme.eq_2]
    simp only [hne, Bool.false_eq_true, if_false]
    rw [run_get_bind]
    simp only [extFlags] at h0 h1
    simp only [extHasFinite, extRetained, extFlags] at hfin
    simp only [h0, h1, Bool.false_eq_true, if_false]
    simp only [hside, hfin, Bool.not_false, Bool.and_self, if_true]
    rfl
  · rw [linExtreme.eq_1]
    simp only [hne, Bool.false_eq_true, if_false]
    rw [run_get_bind]
    simp only [extFlags] at h0 h1
    simp only [extHasFinite, extRetained, extFlags] at hfin
    simp only [h0, h1, Bool.false_eq_true, if_false]
    simp only [hside, hfin, Bool.not_false, Bool.and_self, if_true]
    rfl

/-- `declare_variable` on a name that is already in the domain fails and changes nothing. -/
theorem declareVariable_existing (name : String) (ty : VarType α) (s : St α)
    (h : name ∈ s.domain.map (·.name)) :
    declareVariable name ty s = .error (.varAlreadyDeclared name) := by
  obtain ⟨v, hv, hn⟩ := List.mem_map.mp h
  have : (s.domain.any fun x => x.name == name) = true :=
    List.any_eq_true.mpr ⟨v, hv, by simp [hn]⟩
  unfold declareVariable
  rw [run_get_bind]
  simp only [this, if_true]
  rfl

end Lin
end Rooc
