/-
Helper lemmas for C10: the executable oracle predicate `Oracle.logicOperands01` (which runs at
`Rat` with the import-free `ExactField Rat` instance of `Rooc/Num.lean`) decides the Prop
`LogicOperands01` of the theorems (stated with the `fieldExact ℚ` bridge instance).
-/
import Rooc.Oracle
import Rooc.Proofs.ExpLemmasSound
import Mathlib.Data.Rat.Floor
namespace Rooc
open Rooc.Exp Rooc.Sem

/-- the import-free instance of `Num.lean`. -/
abbrev ratInst : ExactField ℚ := instExactFieldRat
/-- the Mathlib bridge instance the theorems are stated with. -/
noncomputable abbrev fldInst : ExactField ℚ := fieldExact ℚ

theorem kzero_inst : @kzero ℚ ratInst = @kzero ℚ fldInst := by
  simp [kzero, ExactField.ofInt]
theorem kone_inst : @kone ℚ ratInst = @kone ℚ fldInst := by
  simp [kone, ExactField.ofInt]
theorem truthy_inst (x : ℚ) : @truthy ℚ ratInst x = @truthy ℚ fldInst x := by
  simp only [truthy, kzero, ExactField.eq, ExactField.ofInt]
  congr 1
theorem ofBool_inst (b : Bool) : @ofBool ℚ ratInst b = @ofBool ℚ fldInst b := by
  simp [ofBool, kzero_inst, kone_inst]
theorem kabs_inst (x : ℚ) : @kabs ℚ ratInst x = @kabs ℚ fldInst x := by
  simp [kabs, kzero, ExactField.lt, ExactField.neg, ExactField.ofInt]
theorem kmax_inst (x y : ℚ) : @kmax ℚ ratInst x y = @kmax ℚ fldInst x y := by
  simp [kmax, ExactField.lt]
theorem kmin_inst (x y : ℚ) : @kmin ℚ ratInst x y = @kmin ℚ fldInst x y := by
  simp [kmin, ExactField.lt]
theorem binVal_inst (op : BinOp) (x y : ℚ) : @binVal ℚ ratInst op x y = @binVal ℚ fldInst op x y := by
  cases op <;> simp [binVal, truthy_inst, ofBool_inst, kzero, ExactField.add, ExactField.sub,
    ExactField.mul, ExactField.div, ExactField.eq, ExactField.ofInt]

/-- the two instances give the same semantics. -/
theorem eval_inst (ρ : String → ℚ) (e : Exp (Ext ℚ)) :
    @eval ℚ ratInst ρ e = @eval ℚ fldInst ρ e := by
  have hlist : ∀ es : List (Exp (Ext ℚ)),
      (∀ e ∈ es, @eval ℚ ratInst ρ e = @eval ℚ fldInst ρ e) →
      @evalList ℚ ratInst ρ es = @evalList ℚ fldInst ρ es := by
    intro es
    induction es with
    | nil => intro _; simp [evalList]
    | cons x xs ih =>
      intro h
      simp only [evalList, h x (by simp), ih (fun e he => h e (by simp [he]))]
  induction e using Exp.ind with
  | num x => cases x <;> simp [eval]
  | var s => simp [eval]
  | abs e ih => simp only [eval, ih]; congr 1
  | min es ih =>
    have hk : @kmin ℚ ratInst = @kmin ℚ fldInst := by funext a b; exact kmin_inst a b
    simp only [eval, hlist es ih, hk]
  | max es ih =>
    have hk : @kmax ℚ ratInst = @kmax ℚ fldInst := by funext a b; exact kmax_inst a b
    simp only [eval, hlist es ih, hk]
  | and es ih =>
    simp only [eval, hlist es ih]; congr 1
  | or es ih =>
    simp only [eval, hlist es ih]; congr 1
  | not e ih =>
    simp only [eval, ih]; congr 1
  | xor a b iha ihb => simp only [eval, iha, ihb, binVal_inst]
  | implies a b iha ihb => simp only [eval, iha, ihb, binVal_inst]
  | iff a b iha ihb => simp only [eval, iha, ihb, binVal_inst]
  | bin op a b iha ihb => simp only [eval, iha, ihb, binVal_inst]
  | un op e ih =>
    cases op
    · simp only [eval, ih]; rfl
    · simp only [eval, ih]; congr 1

theorem is01_reflects (ρ : String → ℚ) (o : Exp (Ext ℚ)) :
    Oracle.is01 (@eval ℚ ratInst ρ o) = true ↔ Is01 (@eval ℚ fldInst ρ o) := by
  rw [eval_inst]
  cases @eval ℚ fldInst ρ o with
  | none => simp [Oracle.is01, Is01]
  | some v => simp [Oracle.is01, Is01]

theorem logicOperands01All_iff (ρ : String → ℚ) (es : List (Exp (Ext ℚ))) :
    Oracle.logicOperands01All ρ es = true ↔ ∀ e ∈ es, Oracle.logicOperands01 ρ e = true := by
  induction es with
  | nil => simp [Oracle.logicOperands01All]
  | cons e es ih => simp [Oracle.logicOperands01All, ih]

theorem logicOperands01Ops_iff (ρ : String → ℚ) (es : List (Exp (Ext ℚ))) :
    Oracle.logicOperands01Ops ρ es = true ↔
      ∀ o ∈ es, Oracle.logicOperands01 ρ o = true ∧ Oracle.is01 (@eval ℚ ratInst ρ o) = true := by
  induction es with
  | nil => simp [Oracle.logicOperands01Ops]
  | cons e es ih => simp [Oracle.logicOperands01Ops, ih]

/-- The executable predicate the check uses to classify violations decides the hypothesis of
`simplify_sound_partial` (at `K = ℚ`). -/
theorem logicOperands01_reflects' (ρ : String → ℚ) (e : Exp (Ext ℚ)) :
    Oracle.logicOperands01 ρ e = true ↔ LogicOperands01 (K := ℚ) ρ e := by
  induction e using Exp.ind with
  | num x => simp [Oracle.logicOperands01, LogicOperands01]
  | var s => simp [Oracle.logicOperands01, LogicOperands01]
  | abs e ih => simpa [Oracle.logicOperands01, LogicOperands01] using ih
  | min es ih =>
    simp only [Oracle.logicOperands01, LogicOperands01, logicOperands01All_iff,
      LogicOperands01List_iff]
    exact forall₂_congr ih
  | max es ih =>
    simp only [Oracle.logicOperands01, LogicOperands01, logicOperands01All_iff,
      LogicOperands01List_iff]
    exact forall₂_congr ih
  | and es ih =>
    simp only [Oracle.logicOperands01, LogicOperands01, logicOperands01Ops_iff,
      LogicOperands01List_iff, is01_reflects]
    constructor
    · intro h; exact ⟨fun e he => (ih e he).1 (h e he).1, fun e he => (h e he).2⟩
    · intro h e he; exact ⟨(ih e he).2 (h.1 e he), h.2 e he⟩
  | or es ih =>
    simp only [Oracle.logicOperands01, LogicOperands01, logicOperands01Ops_iff,
      LogicOperands01List_iff, is01_reflects]
    constructor
    · intro h; exact ⟨fun e he => (ih e he).1 (h e he).1, fun e he => (h e he).2⟩
    · intro h e he; exact ⟨(ih e he).2 (h.1 e he), h.2 e he⟩
  | not e ih => simpa [Oracle.logicOperands01, LogicOperands01] using ih
  | xor a b iha ihb => simp [Oracle.logicOperands01, LogicOperands01, iha, ihb]
  | implies a b iha ihb => simp [Oracle.logicOperands01, LogicOperands01, iha, ihb]
  | iff a b iha ihb => simp [Oracle.logicOperands01, LogicOperands01, iha, ihb]
  | bin op a b iha ihb =>
    cases op <;>
      simp [Oracle.logicOperands01, LogicOperands01, iha, ihb, is01_reflects, and_assoc]
  | un op e ih => simpa [Oracle.logicOperands01, LogicOperands01] using ih

end Rooc
