/-
M1 — the number interface every model function is written against.

Two instantiations:
* `Float`  : native IEEE double, only ever *run* (bit-exact diff against rustc's f64);
* `Ext K`  : `nan | ninf | fin k | pinf` over an ordered field `K` — IEEE's special-value
             algebra without rounding and without signed zero.  Proofs are stated at `Ext K`
             (see `Rooc/Proofs`), the executable oracle runs at `Ext Rat`.
This file is import-free so that the driver links as a `lean_exe`.
-/
namespace Rooc

class Arith (α : Type) where
  ofInt   : Int → α
  posInf  : α
  negInf  : α
  nan     : α
  add : α → α → α
  sub : α → α → α
  mul : α → α → α
  div : α → α → α
  neg : α → α
  abs : α → α
  floor : α → α
  ceil  : α → α
  /-- Rust `f64::max` (a NaN operand is ignored). -/
  fmax : α → α → α
  /-- Rust `f64::min` (a NaN operand is ignored). -/
  fmin : α → α → α
  /-- IEEE `<`, `<=`, `==` : false as soon as an operand is NaN. -/
  lt : α → α → Bool
  le : α → α → Bool
  eq : α → α → Bool
  isNaN : α → Bool
  isFinite : α → Bool
  /-- Rust `x as i32` (saturating, NaN ↦ 0). -/
  toI32 : α → Int
  /-- Rust `x as i64` (saturating, NaN ↦ 0). -/
  toI64 : α → Int

namespace Arith
variable {α : Type} [Arith α]
@[inline] def zero : α := ofInt 0
@[inline] def one  : α := ofInt 1
@[inline] def gt (a b : α) : Bool := lt b a
@[inline] def ge (a b : α) : Bool := le b a
@[inline] def ne (a b : α) : Bool := !(eq a b)
@[inline] def isInfinite (a : α) : Bool := !(isFinite a) && !(isNaN a)
end Arith

/-! ### `Float` instance -/

def floatMax (a b : Float) : Float :=
  if a.isNaN then b else if b.isNaN then a else if a < b then b else a
def floatMin (a b : Float) : Float :=
  if a.isNaN then b else if b.isNaN then a else if b < a then b else a

instance : Arith Float where
  ofInt i := Float.ofInt i
  posInf := 1.0 / 0.0
  negInf := -1.0 / 0.0
  nan := 0.0 / 0.0
  add := (· + ·)
  sub := (· - ·)
  mul := (· * ·)
  div := (· / ·)
  neg := fun a => -a
  abs := Float.abs
  floor := Float.floor
  ceil := Float.ceil
  fmax := floatMax
  fmin := floatMin
  lt a b := decide (a < b)
  le a b := decide (a ≤ b)
  eq a b := a == b
  isNaN := Float.isNaN
  isFinite := Float.isFinite
  toI32 a := a.toInt32.toInt
  toI64 a := a.toInt64.toInt

/-! ### `Ext K` : exact arithmetic with IEEE special values -/

inductive Ext (K : Type) where
  | nan  : Ext K
  | ninf : Ext K
  | fin  : K → Ext K
  | pinf : Ext K
  deriving Repr, DecidableEq, Inhabited

/-- What `Ext K` needs from `K` (kept tiny and import-free; `Rat` and any Mathlib ordered
field provide it). -/
class ExactField (K : Type) where
  ofInt : Int → K
  add : K → K → K
  sub : K → K → K
  mul : K → K → K
  div : K → K → K
  neg : K → K
  lt : K → K → Bool
  le : K → K → Bool
  eq : K → K → Bool
  floor : K → Int
  ceil : K → Int

namespace Ext
variable {K : Type} [ExactField K]
open ExactField in
def sgn (k : K) : Int := if lt k (ofInt 0) then -1 else if lt (ofInt 0) k then 1 else 0

def add : Ext K → Ext K → Ext K
  | nan, _ | _, nan => nan
  | pinf, ninf | ninf, pinf => nan
  | pinf, _ | _, pinf => pinf
  | ninf, _ | _, ninf => ninf
  | fin a, fin b => fin (ExactField.add a b)

def neg : Ext K → Ext K
  | nan => nan | pinf => ninf | ninf => pinf | fin a => fin (ExactField.neg a)

def sub (a b : Ext K) : Ext K := add a (neg b)

def ofSign (s : Int) : Ext K := if s > 0 then pinf else if s < 0 then ninf else nan

def sign : Ext K → Int
  | nan => 0 | pinf => 1 | ninf => -1 | fin k => sgn k

def mul : Ext K → Ext K → Ext K
  | nan, _ | _, nan => nan
  | fin a, fin b => fin (ExactField.mul a b)
  | a, b => ofSign (sign a * sign b)

def div : Ext K → Ext K → Ext K
  | nan, _ | _, nan => nan
  | fin a, fin b =>
      if ExactField.eq b (ExactField.ofInt 0) then ofSign (sgn a)   -- x/0 = ±inf, 0/0 = nan (no signed zero)
      else fin (ExactField.div a b)
  | fin _, _ => fin (ExactField.ofInt 0)
  | a, fin b => if ExactField.eq b (ExactField.ofInt 0) then a else ofSign (sign a * sgn b)
  | _, _ => nan

def abs : Ext K → Ext K
  | nan => nan | pinf => pinf | ninf => pinf
  | fin a => if ExactField.lt a (ExactField.ofInt 0) then fin (ExactField.neg a) else fin a

def lt : Ext K → Ext K → Bool
  | nan, _ | _, nan => false
  | ninf, ninf => false | ninf, _ => true
  | _, ninf => false
  | pinf, _ => false
  | _, pinf => true
  | fin a, fin b => ExactField.lt a b

def le : Ext K → Ext K → Bool
  | nan, _ | _, nan => false
  | ninf, _ => true
  | _, pinf => true
  | pinf, _ => false
  | _, ninf => false
  | fin a, fin b => ExactField.le a b

def eq : Ext K → Ext K → Bool
  | ninf, ninf => true | pinf, pinf => true
  | fin a, fin b => ExactField.eq a b
  | _, _ => false

def isNaN : Ext K → Bool | nan => true | _ => false
def isFinite : Ext K → Bool | fin _ => true | _ => false

def fmax (a b : Ext K) : Ext K :=
  if isNaN a then b else if isNaN b then a else if lt a b then b else a
def fmin (a b : Ext K) : Ext K :=
  if isNaN a then b else if isNaN b then a else if lt b a then b else a

def clampInt (lo hi : Int) (i : Int) : Int := if i < lo then lo else if i > hi then hi else i

def toIntSat (lo hi : Int) : Ext K → Int
  | nan => 0 | pinf => hi | ninf => lo
  | fin a =>
    -- truncation toward zero
    let t : Int := if ExactField.lt a (ExactField.ofInt 0) then ExactField.ceil a else ExactField.floor a
    clampInt lo hi t

instance : Arith (Ext K) where
  ofInt i := fin (ExactField.ofInt i)
  posInf := pinf
  negInf := ninf
  nan := nan
  add := add
  sub := sub
  mul := mul
  div := div
  neg := neg
  abs := abs
  floor | fin a => fin (ExactField.ofInt (ExactField.floor a)) | x => x
  ceil  | fin a => fin (ExactField.ofInt (ExactField.ceil a)) | x => x
  fmax := fmax
  fmin := fmin
  lt := lt
  le := le
  eq := eq
  isNaN := isNaN
  isFinite := isFinite
  toI32 := toIntSat (-2147483648) 2147483647
  toI64 := toIntSat (-9223372036854775808) 9223372036854775807
end Ext

instance : ExactField Rat where
  ofInt i := (i : Rat)
  add := (· + ·)
  sub := (· - ·)
  mul := (· * ·)
  div := (· / ·)
  neg := fun a => -a
  lt a b := decide (a < b)
  le a b := decide (a ≤ b)
  eq a b := a == b
  floor := Rat.floor
  ceil := Rat.ceil

/-! ### Wire encoding of numbers (protocol only) -/

def hexDigit (n : Nat) : Char :=
  if n < 10 then Char.ofNat (48 + n) else Char.ofNat (87 + n)

def hex16 (n : UInt64) : String :=
  let rec go (k : Nat) (v : Nat) (acc : List Char) : List Char :=
    match k with
    | 0 => acc
    | k+1 => go k (v / 16) (hexDigit (v % 16) :: acc)
  String.ofList (go 16 n.toNat [])

def hexVal (c : Char) : Option Nat :=
  if '0' ≤ c ∧ c ≤ '9' then some (c.toNat - 48)
  else if 'a' ≤ c ∧ c ≤ 'f' then some (c.toNat - 87)
  else if 'A' ≤ c ∧ c ≤ 'F' then some (c.toNat - 55)
  else none

def parseHex (s : List Char) : Option Nat :=
  s.foldl (fun acc c => match acc, hexVal c with
    | some a, some d => some (a * 16 + d)
    | _, _ => none) (some 0)

/-- numbers cross the protocol as `#x` + 16 hex digits of the IEEE-754 bit pattern. -/
class Wire (α : Type) where
  ofBits : UInt64 → α
  enc : α → String

instance : Wire Float where
  ofBits := Float.ofBits
  enc f := "#x" ++ hex16 f.toBits

def bitsToExtRat (b : UInt64) : Ext Rat :=
  let n : Nat := b.toNat
  let neg : Bool := n / 2^63 == 1
  let e : Nat := (n / 2^52) % 2048
  let m : Nat := n % 2^52
  let sg (q : Rat) : Rat := if neg then -q else q
  if e == 2047 then (if m == 0 then (if neg then .ninf else .pinf) else .nan)
  else if e == 0 then .fin (sg ((m : Rat) / ((2:Rat)^(1074:Nat))))
  else
    let mant : Nat := 2^52 + m
    if e ≥ 1075 then .fin (sg ((mant * 2^(e - 1075) : Nat) : Rat))
    else .fin (sg ((mant : Rat) / ((2:Rat)^(1075 - e))))

instance : Wire (Ext Rat) where
  ofBits := bitsToExtRat
  enc
    | .nan => "nan" | .pinf => "+inf" | .ninf => "-inf"
    | .fin q => if q.den = 1 then toString q.num else toString q.num ++ "/" ++ toString q.den

def decNum {α : Type} [Wire α] (s : String) : Option α :=
  match s.toList with
  | '#' :: 'x' :: rest =>
    if rest.length = 16 then (parseHex rest).map (fun n => Wire.ofBits (UInt64.ofNat n)) else none
  | _ => none

end Rooc
