/-
C13 — Standard-form conversion preserves the problem.  PROPERTY THEOREMS ONLY (lemmas live in
`Rooc/Proofs/Std{Sem,Layout,Split,Norm,Bounds,Spec,Main,Shape}.lean`).

The theorems are about `Standardize.standardize` (`Rooc/Standardize.lean`), the very function that is
diffed bit-for-bit against `to_standard_form` at `Float`, here instantiated at `Ext K` (IEEE special
values, exact arithmetic) over an arbitrary linearly ordered field `K`; points live in `K`.
`WF lm` = well-formed continuous model: finite coefficients, consistent sizes, every variable declared
`Real`/`NonNegativeReal` with non-NaN bounds (`±inf` allowed where the type allows it), rows `≤ ≥ =`,
`min` or `max` — i.e. any mix of free, non-negative and bounded variables in any order, any sign of the
right-hand sides, zero coefficients anywhere.  The conversion uses no tolerance (exact sign test).  Vocabulary (`LinFeasible`, `obj`, `StdFeasible`, `stdObj`): `Proofs/StdSem.lean`;
the maps `image` (`p = max x 0`, `m = max (−x) 0`, slacks = residuals) and `preimage` (`x = p − m`):
`Proofs/StdMain.lean`.
-/
import Rooc.Proofs.StdShape
import Mathlib.Algebra.Order.Field.Rat
import Mathlib.Data.Rat.Floor
import Mathlib.Tactic.NormNum
import Mathlib.Tactic.IntervalCases
namespace Rooc.Props.C13
open Rooc StdSem StdMain Standardize
variable {K : Type} [Field K] [LinearOrder K] [IsStrictOrderedRing K] [FloorRing K]

/-- **total on well-formed models.**  The conversion succeeds. -/
theorem std_total (lm : LinModel (Ext K)) (hW : WF lm) : ∃ sm, standardize lm = .ok sm := by
  obtain ⟨sm, _, _, _, h, _⟩ := standardize_spec lm hW
  exact ⟨sm, h⟩

/-- **fwd.**  Every feasible point of the original has a feasible image in the standard form (free
variables split into two non-negative parts, slack/surplus = residuals), and the recorded objective
`±(c·y) + offset` of the image is the original objective. -/
theorem fwd (lm : LinModel (Ext K)) (hW : WF lm) {sm : StdModel (Ext K)}
    (hs : standardize lm = .ok sm) (x : List K) (hF : LinFeasible lm x) :
    StdFeasible sm (image lm x) ∧ stdObj sm (image lm x) = obj lm x :=
  StdMain.fwd lm hW hs x hF

/-- **bwd.**  Every feasible point of the standard form (equalities, all variables `≥ 0`) maps back, by
`x = p − m`, to a feasible point of the original — rows AND declared bounds — with the same objective
relation. -/
theorem bwd (lm : LinModel (Ext K)) (hW : WF lm) {sm : StdModel (Ext K)}
    (hs : standardize lm = .ok sm) (y : List K) (hF : StdFeasible sm y) :
    LinFeasible lm (preimage lm y) ∧ stdObj sm y = obj lm (preimage lm y) :=
  StdMain.bwd lm hW hs y hF

/-- **bounds_enforced.**  Variable bounds of the original are enforced by rows of the standard form: at
every feasible point of the standard form each original variable lies in its declared domain. -/
theorem bounds_enforced (lm : LinModel (Ext K)) (hW : WF lm) {sm : StdModel (Ext K)}
    (hs : standardize lm = .ok sm) (y : List K) (hF : StdFeasible sm y) (i : Nat) (hi : i < lm.vars.length) :
    ∃ ty, lookup lm.domain (lm.vars.getD i "") = some ty ∧ InDomain ty ((preimage lm y).getD i 0) :=
  (StdMain.bwd lm hW hs y hF).1.dom i hi

/-- **std_shape.**  The result is rectangular (every row and the objective have one coefficient per
variable) and EVERY right-hand side is `≥ 0` — unconditionally, there is no tolerance in the conversion
any more (`EqualityConstraint::new` tests the sign exactly since /repo 947e0f0).  (Equalities and
non-negative variables are what `StdFeasible` means.) -/
theorem std_shape (lm : LinModel (Ext K)) (hW : WF lm) {sm : StdModel (Ext K)} (hs : standardize lm = .ok sm) :
    (∀ r ∈ sm.rows, r.coeffs.length = sm.vars.length) ∧ sm.objective.length = sm.vars.length ∧
    (∀ r ∈ sm.rows, 0 ≤ toK r.rhs) :=
  ⟨(shape lm hW hs).1, (shape lm hW hs).2, StdShape.rhs_nonneg lm hW hs⟩

/-! ### Non-vacuity and the regression example (over `ℚ`) -/
section examples

/-- `max x − y  s.t.  2x + y ≤ 4,  x ≥ 0 with upper bound 3,  y free`. -/
def lm0 : LinModel (Ext ℚ) :=
  { optType := .max, objective := [.fin 1, .fin (-1)], offset := .fin 5, vars := ["x", "y"],
    domain := [{ name := "x", ty := .nnreal (.fin 0) (.fin 3), usage := 1 }, { name := "y", ty := .real .ninf .pinf, usage := 1 }],
    rows := [{ name := "", coeffs := [.fin 2, .fin 1], cmp := .le, rhs := .fin 4 }] }

theorem lm0_wf : WF lm0 := by
  refine ⟨rfl, ?_, ?_, ?_, ?_, ?_, ?_, ?_, ?_, ?_, Or.inr rfl⟩
  · simp [lm0, isFin]
  · simp [lm0, isFin]
  · simp [lm0]
  · simp [lm0, isFin]
  · simp [lm0]
  · simp [lm0, lookup]
  · simp [lm0, isContinuous]
  · simp [lm0, isFin]
  · simp [lm0, isFin]

theorem lm0_feasible : LinFeasible lm0 [1, -2] := by
  refine ⟨rfl, ?_, ?_⟩
  · simp [lm0, cmpHolds, rowVal, toK]
  · intro i hi
    have : i = 0 ∨ i = 1 := by simp [lm0] at hi; omega
    rcases this with rfl | rfl
    · refine ⟨.nnreal (.fin 0) (.fin 3), by simp [lm0, lookup], ?_⟩
      simp [InDomain, Ext.le]
    · refine ⟨.real .ninf .pinf, by simp [lm0, lookup], ?_⟩
      simp [InDomain, Ext.le]

/-- the hypotheses of `fwd`/`bwd`/`std_shape` are jointly satisfiable: a well-formed model with a bounded
non-negative variable BEFORE a free one, a feasible point with a negative free coordinate, a successful
conversion and a feasible image. -/
example : ∃ sm, standardize lm0 = .ok sm ∧ StdFeasible sm (image lm0 [1, -2]) ∧
    stdObj sm (image lm0 [1, -2]) = obj lm0 [1, -2] := by
  obtain ⟨sm, hs⟩ := std_total lm0 lm0_wf
  exact ⟨sm, hs, fwd lm0 lm0_wf hs _ lm0_feasible⟩

/-- regression example for the repaired defect `C13-rhs-sign-within-tolerance` (fixed by /repo 947e0f0):
a right-hand side `−1/200000`, inside the old tolerance band `(-1e-5, 0)`, is negated. -/
example : (eqNew [Ext.fin (2 : ℚ)] (Ext.fin (-1/200000))).rhs = Ext.fin (1/200000) ∧
    (eqNew [Ext.fin (2 : ℚ)] (Ext.fin (-1/200000))).coeffs = [Ext.fin (-2)] := by
  have h : Arith.lt (Ext.fin (-1/200000 : ℚ) : Ext ℚ) Arith.zero = true := (StdShape.lt_zero_fin _).2 (by norm_num)
  simp only [eqNew, h, if_true]
  constructor
  · simp [Arith.neg, Ext.neg, ExactField.neg]; norm_num
  · simp [Arith.mul, Arith.ofInt, Ext.mul, ExactField.mul, ExactField.ofInt]

end examples
end Rooc.Props.C13
